import RedoModel.Lemmas.DepsIfcreate
/-!
# C14 lifted to whole commands — part 2: quiet rows give `clean`; once per run

* `runCmd_quiet` : a current record all of whose rows are quiet (absent `c` sources, unchanged plain `m`
  sources) — top-level `redo-ifchange t` exits 0, runs nothing, changes no file.
* `shouldBuild_after_rebuild` : within the run in which `t` was rebuilt, `should_build t` answers `clean`
  although `t` has a row on `//ALWAYS`.
-/
namespace RedoModel.Deps
open RedoModel.Generated

/-- A snapshot of a plain source (not generated, so no rows of its own) that is not failed, was last changed
no later than the dependent's mark, and whose stamp is the current one: clean. -/
theorem isDirty_plain_clean (R n : Nat) (w : World) (c : List Nat) (s mx : Nat) (seen : List Nat) (snap : Rec) (ca : Nat)
    (hs : s ∉ seen) (hf : snap.failed = none) (hch : snap.changed = some ca) (hle : ca ≤ mx)
    (hg : snap.isGenerated = false) (hst : snap.stamp = some (readStamp w s)) :
    (isDirty false R (n + 1) w c s mx seen (some snap)).1 = .clean := by
  have hgt : ¬ (ca > mx) := by omega
  by_cases hck : isCheckedR snap R = true
  · simp (config := { zeta := true, zetaHave := true }) only [isDirty, Option.getD_some, hs, hf, hch, hgt, hck,
      if_true, if_false, Option.isSome_none, Bool.false_eq_true]
  · simp (config := { zeta := true, zetaHave := true }) only [isDirty, Option.getD_some, hs, hf, hch, hgt, hck, hst,
      if_true, if_false, Option.isSome_none, Bool.false_eq_true, ne_eq, not_true_eq_false,
      depsWithRecs, depsOf, hg, Bool.not_false, Bool.or_true, List.map_nil, goDeps, List.isEmpty_nil]

/-- A row that cannot make its target dirty: a `c` row whose source does not exist, or an `m` row on a plain
source whose snapshot is unchanged with respect to the mark `mx`. -/
def QuietRow (w0 : World) (seen : List Nat) (mx : Nat) (p : Dep × Rec) : Prop :=
  (p.1.modeM = false → existsF w0 p.1.source = false) ∧
  (p.1.modeM = true → p.1.source ∉ seen ∧ p.2.failed = none ∧ (∃ c, p.2.changed = some c ∧ c ≤ mx) ∧
    p.2.isGenerated = false ∧ p.2.stamp = some (readStamp w0 p.1.source))

theorem goDeps_quiet (R n mx : Nat) (seen : List Nat) (hc : Bool) (f : Nat) (w0 : World) :
    ∀ (ds : List (Dep × Rec)) (w : World) (cache : List Nat), w.fs = w0.fs → (∀ p ∈ ds, QuietRow w0 seen mx p) →
      (goDeps (fun w1 c1 s snap => isDirty false R (n + 1) w1 c1 s mx seen (some snap)) hc f ds w cache []).1 = none
  | [], w, cache, _, _ => by simp [goDeps]
  | (d, snap) :: ds, w, cache, hfs, hq => by
    have hq0 := hq (d, snap) (List.mem_cons_self ..)
    have hq' : ∀ p ∈ ds, QuietRow w0 seen mx p := fun p hp => hq p (List.mem_cons_of_mem _ hp)
    rw [goDeps]
    by_cases hm : d.modeM = true
    · simp only [hm, if_true]
      obtain ⟨hs, hf, ⟨ca, hch, hle⟩, hg, hst⟩ := hq0.2 hm
      have h1 := isDirty_plain_clean R n w cache d.source mx seen snap ca hs hf hch hle hg
        (by rw [hst]; congr 1; exact (readStamp_congr (congrFun hfs _)).symm)
      have h2 := (isDirty_frame false R (n + 1) w cache d.source mx seen (some snap)).1
      generalize isDirty false R (n + 1) w cache d.source mx seen (some snap) = r at h1 h2
      obtain ⟨sub, w1, c1⟩ := r
      dsimp only at h1 h2
      subst h1
      exact goDeps_quiet R n mx seen hc f w0 ds w1 c1 (h2.trans hfs) hq'
    · have hex : existsF w d.source = false := by
        rw [existsF_congr (congrFun hfs _)]
        exact hq0.1 (by simpa using hm)
      simp only [hm, Bool.false_eq_true, if_false, hex]
      exact goDeps_quiet R n mx seen hc f w0 ds w cache hfs hq'

/-- The check of a target whose own record is current and all of whose rows are quiet: clean. -/
theorem isDirty_quiet (R m : Nat) (hm : 0 < m) (w : World) (cache : List Nat) (t mx ch : Nat)
    (hf : (getRec w R t).failed = none) (hch : (getRec w R t).changed = some ch) (hmx : ch ≤ mx)
    (h : isCheckedR (getRec w R t) R = true ∨
      ((getRec w R t).stamp = some (readStamp w t) ∧
        ∀ p ∈ depsWithRecs w R (getRec w R t) t, QuietRow w [t] (max ch ((getRec w R t).checked.getD 0)) p)) :
    (isDirty false R (m + 1) w cache t mx [] none).1 = .clean := by
  have hgt : ¬ (ch > mx) := by omega
  by_cases hck : isCheckedR (getRec w R t) R = true
  · simp (config := { zeta := true, zetaHave := true }) only [isDirty, Option.getD_none, List.not_mem_nil, hf, hch,
      hgt, hck, if_true, if_false, Option.isSome_none, Bool.false_eq_true]
  · rcases h with h | ⟨hst, hq⟩
    · exact absurd h hck
    · simp (config := { zeta := true, zetaHave := true }) only [isDirty, Option.getD_none, List.not_mem_nil, hf, hch,
        hgt, hck, hst, if_false, Option.isSome_none, Bool.false_eq_true, ne_eq, not_true_eq_false]
      obtain ⟨n, rfl⟩ : ∃ n, m = n + 1 := ⟨m - 1, by omega⟩
      have key := goDeps_quiet R n (max ch ((getRec w R t).checked.getD 0)) [t] (getRec w R t).csum.isSome t w
        (depsWithRecs w R (getRec w R t) t) w cache rfl hq
      split
      · rename_i dr w' c' heq
        rw [heq] at key
        cases key
      · rfl

theorem of_mem_depsWithRecs (w : World) (R : Nat) (r : Rec) (t : Nat) (p : Dep × Rec)
    (hp : p ∈ depsWithRecs w R r t) : ∃ d0 ∈ w.deps, d0.target = t ∧ p = (d0, getRec w R d0.source) := by
  unfold depsWithRecs depsOf at hp
  split at hp
  · cases hp
  · obtain ⟨d0, hd, rfl⟩ := List.mem_map.1 hp
    rw [List.mem_mergeSort] at hd
    obtain ⟨h1, h2⟩ := List.mem_filter.1 hd
    exact ⟨d0, h1, by simpa using h2, rfl⟩

/-- `should_build` answers `clean` for a target whose record is current and whose rows are all quiet. -/
theorem shouldBuild_quiet (cx : Ctx) (m : Nat) (hm : 0 < m) (t : Nat) (w : World) (ch : Nat) (hr : cx.isRedo = false)
    (ht : t ≠ alwaysId) (hf : (w.recs t).failed = none) (hch : (w.recs t).changed = some ch) (hle : ch ≤ cx.runid)
    (h : isCheckedR (w.recs t) cx.runid = true ∨
      ((w.recs t).stamp = some (readStamp w t) ∧
        ∀ d0 ∈ w.deps, d0.target = t →
          QuietRow w [t] (max ch ((w.recs t).checked.getD 0)) (d0, getRec w cx.runid d0.source))) :
    (shouldBuild cx (m + 1) t w).1 = some .clean := by
  have hget : getRec w cx.runid t = w.recs t := getRec_ne w _ t ht
  have hnf : isFailedR (w.recs t) cx.runid = false := by simp [isFailedR, hf]
  have key := isDirty_quiet cx.runid m hm w [] t cx.runid ch (by rw [hget]; exact hf) (by rw [hget]; exact hch) hle
    (by
      rw [hget]
      rcases h with h | ⟨h1, h2⟩
      · exact Or.inl h
      · refine Or.inr ⟨h1, fun p hp => ?_⟩
        obtain ⟨d0, hd, hdt, rfl⟩ := of_mem_depsWithRecs w _ _ t p hp
        exact h2 d0 hd hdt)
  unfold shouldBuild
  simp only [hr, Bool.false_eq_true, if_false, hget, hnf]
  generalize isDirty false cx.runid (m + 1) w [] t cx.runid [] none = res at key ⊢
  obtain ⟨dr, w', c'⟩ := res
  dsimp only at key ⊢
  subst key
  rfl

theorem buildJob_of_clean (E : Engine) (d : Defects) (cx : Ctx) (fuel t : Nat) (w : World)
    (h : (shouldBuild cx fuel t w).1 = some .clean) :
    buildJob E d cx fuel t w = (.done 0, (shouldBuild cx fuel t w).2) := by
  unfold buildJob
  dsimp only
  generalize shouldBuild cx fuel t w = sb at h ⊢
  obtain ⟨o, w1⟩ := sb
  dsimp only at h
  subst h
  rfl

/-- Nothing happened but bookkeeping: same files, same dependency rows, same clock, and the new part of the
trace contains no executed script. -/
def QuietExt (w w' : World) : Prop :=
  w'.fs = w.fs ∧ w'.deps = w.deps ∧ w'.clock = w.clock ∧ w'.progs = w.progs ∧ w'.rules = w.rules ∧
  ∃ pre, w'.trace = pre ++ w.trace ∧ ∀ x, Ev.ran x ∉ pre

theorem QuietExt.of_eq {w w' : World} (h1 : w'.fs = w.fs) (h2 : w'.deps = w.deps) (h3 : w'.clock = w.clock)
    (h4 : w'.progs = w.progs) (h5 : w'.rules = w.rules) (h6 : w'.trace = w.trace) : QuietExt w w' :=
  ⟨h1, h2, h3, h4, h5, [], h6, fun _ h => by cases h⟩

theorem QuietExt.refl (w : World) : QuietExt w w := QuietExt.of_eq rfl rfl rfl rfl rfl rfl

theorem QuietExt.trans {a b c : World} (h1 : QuietExt a b) (h2 : QuietExt b c) : QuietExt a c := by
  obtain ⟨a1, a2, a3, a4, a5, p1, e1, n1⟩ := h1
  obtain ⟨b1, b2, b3, b4, b5, p2, e2, n2⟩ := h2
  refine ⟨b1.trans a1, b2.trans a2, b3.trans a3, b4.trans a4, b5.trans a5, p2 ++ p1,
    by rw [e2, e1, List.append_assoc], fun x hx => ?_⟩
  rcases List.mem_append.1 hx with h | h
  · exact n2 x h
  · exact n1 x h

theorem QuietExt.dirtyRel : DirtyRel QuietExt :=
  ⟨QuietExt.refl, QuietExt.trans, fun _ _ _ => QuietExt.of_eq rfl rfl rfl rfl rfl rfl,
   fun w t => ⟨rfl, rfl, rfl, rfl, rfl, [.warnOverride t], rfl, fun x h => by
     rcases List.mem_singleton.1 h with h; cases h⟩⟩

theorem QuietExt.addKnown (w : World) (f : Nat) : QuietExt w (addKnown w f) := by
  unfold Deps.addKnown
  split
  · exact QuietExt.refl w
  · exact QuietExt.of_eq rfl rfl rfl rfl rfl rfl

/-- The mark against which the sources of a target are compared: the later of its `changed` and `checked` runs. -/
def mark (r : Rec) : Nat := max (r.changed.getD 0) (r.checked.getD 0)

/-- A recorded row of `t` that gives no reason to rebuild: a `c` row whose source still does not exist, or an
`m` row on a plain source (a record that is not generated: it has no rows of its own) that is not failed, was
last changed no later than `t`'s mark, and whose file is as recorded. -/
def QuietDep (w : World) (t : Nat) (d0 : Dep) : Prop :=
  (d0.modeM = false → existsF w d0.source = false) ∧
  (d0.modeM = true → d0.source ≠ alwaysId ∧ (w.recs d0.source).isGenerated = false ∧
    (w.recs d0.source).failed = none ∧ (∃ c, (w.recs d0.source).changed = some c ∧ c ≤ mark (w.recs t)) ∧
    (w.recs d0.source).stamp = some (readStamp w d0.source))

/-- Top-level `redo-ifchange t` when the record of `t` is current and all its rows are quiet: exit 0, nothing
ran, no file changed. -/
theorem runCmd_quiet (d : Defects) (n : Nat) (kg : Bool) (w : World) (t : Nat) (ht : t ≠ alwaysId)
    (hcur : Current w t) (hq : ∀ d0 ∈ w.deps, d0.target = t → QuietDep w t d0) :
    (runCmd d n (.ifchange [t] kg) w).1.status = 0 ∧ QuietExt w (runCmd d n (.ifchange [t] kg) w).2 := by
  rw [runCmd_ifchange_single]
  obtain ⟨row, hrow⟩ := addKnown_recs_self (nextRun w) t
  obtain ⟨ch, hch, hle⟩ := hcur.changed
  have hfs : (addKnown (nextRun w) t).fs = w.fs := addKnown_fs _ _
  have hother : ∀ x, x ≠ t → (addKnown (nextRun w) t).recs x = w.recs x := fun x hx => addKnown_recs_ne _ _ _ hx
  have hmark : mark (w.recs t) = max ch ((w.recs t).checked.getD 0) := by simp [mark, hch]
  have hsb := shouldBuild_quiet { runid := w.runCounter + 1, keepGoing := kg } (2 * n + 3) (by omega) t
    (addKnown (nextRun w) t) ch rfl ht (by rw [hrow]; exact hcur.nofail) (by rw [hrow]; exact hch)
    (Nat.le_succ_of_le hle)
    (Or.inr ⟨by rw [hrow, readStamp_congr (congrFun hfs t)]; exact hcur.stamp, fun d0 hd hdt => by
      rw [addKnown_deps] at hd
      obtain ⟨hc, hm⟩ := hq d0 hd hdt
      refine ⟨fun h => by rw [existsF_congr (congrFun hfs _)]; exact hc h, fun h => ?_⟩
      obtain ⟨h0, hg, hf, ⟨c, hcc, hcl⟩, hst⟩ := hm h
      have hne : d0.source ≠ t := by
        intro he
        rw [he, hcur.gen] at hg
        cases hg
      dsimp only
      rw [getRec_ne _ _ _ h0, hother _ hne, hrow]
      refine ⟨by simpa using hne, hf, ⟨c, hcc, by rw [hmark] at hcl; exact hcl⟩, hg, ?_⟩
      rw [hst, readStamp_congr (congrFun hfs _)]⟩)
  rw [buildJob_of_clean _ _ _ _ _ _ hsb]
  refine ⟨rfl, ?_⟩
  have h1 : QuietExt w (addKnown (nextRun w) t) :=
    (QuietExt.of_eq (w := w) (w' := nextRun w) rfl rfl rfl rfl rfl rfl).trans (QuietExt.addKnown _ t)
  exact h1.trans (shouldBuild_rel QuietExt.dirtyRel _ _ t _)

/-- The `//ALWAYS` record as `redo-always` leaves it in run `R` (and as it stays for the rest of the run):
stamped "missing", not failed, changed no later than `R`; and no real file has that name. -/
structure AlwaysFresh (w : World) (R : Nat) : Prop where
  nofail : (w.recs alwaysId).failed = none
  notgen : (w.recs alwaysId).isGenerated = false
  stamp : (w.recs alwaysId).stamp = some .missing
  nofile : w.fs alwaysId = none
  le : ∀ c, (w.recs alwaysId).changed = some c → c ≤ R

theorem quietRow_always (w : World) (R : Nat) (t mx : Nat) (ht : t ≠ alwaysId) (hA : AlwaysFresh w R) (hmx : R ≤ mx)
    (d0 : Dep) (hs : d0.source = alwaysId) (hm : d0.modeM = true) :
    QuietRow w [t] mx (d0, getRec w R d0.source) := by
  refine ⟨(fun h => by rw [hm] at h; cases h), fun _ => ?_⟩
  dsimp only
  rw [hs]
  refine ⟨by simpa using Ne.symm ht, by simp [getRec, hA.nofail], ?_, by simp [getRec, hA.notgen], ?_⟩
  · unfold getRec
    simp only [if_true]
    cases h : (w.recs alwaysId).changed with
    | none => exact ⟨R, rfl, hmx⟩
    | some c0 => have := hA.le c0 h; exact ⟨max R c0, rfl, by omega⟩
  · simp [getRec, hA.stamp, readStamp, hA.nofile]

theorem quietRow_of_quietDep (w : World) (R : Nat) (t mx : Nat) (hg : (w.recs t).isGenerated = true)
    (hmx : mark (w.recs t) ≤ mx) (d0 : Dep) (hq : QuietDep w t d0) :
    QuietRow w [t] mx (d0, getRec w R d0.source) := by
  refine ⟨hq.1, fun h => ?_⟩
  obtain ⟨h0, hgs, hf, ⟨c, hcc, hcl⟩, hst⟩ := hq.2 h
  have hne : d0.source ≠ t := by
    intro he
    rw [he, hg] at hgs
    cases hgs
  dsimp only
  rw [getRec_ne _ _ _ h0]
  exact ⟨by simpa using hne, hf, ⟨c, hcc, by omega⟩, hgs, hst⟩

/-- **Once per run (local form).**  After `t` was rebuilt in run `R` — its record says `changed = R` (or, after a
`redo-stamp` with an unchanged checksum, `checked = R`), not failed, stamp current — a further `should_build`
for `t` by any process of the same run answers `clean`, although `t` has a row on `//ALWAYS`: within the run
`//ALWAYS` is not newer than `t`.  The other rows of `t` must be quiet. -/
theorem shouldBuild_after_rebuild (cx : Ctx) (m : Nat) (hm : 0 < m) (t : Nat) (w : World) (hr : cx.isRedo = false)
    (ht : t ≠ alwaysId) (hg : (w.recs t).isGenerated = true) (hf : (w.recs t).failed = none)
    (h : (cx.runid ≠ 0 ∧ (w.recs t).checked = some cx.runid ∧ ∃ ch, (w.recs t).changed = some ch ∧ ch ≤ cx.runid) ∨
      ((w.recs t).changed = some cx.runid ∧ (w.recs t).stamp = some (readStamp w t) ∧ AlwaysFresh w cx.runid ∧
        ∀ d0 ∈ w.deps, d0.target = t → (d0.modeM = true ∧ d0.source = alwaysId) ∨ QuietDep w t d0)) :
    (shouldBuild cx (m + 1) t w).1 = some .clean := by
  rcases h with ⟨h0, hck, ch, hch, hle⟩ | ⟨hch, hst, hA, hrows⟩
  · exact shouldBuild_quiet cx m hm t w ch hr ht hf hch hle (Or.inl (by simp [isCheckedR, hck, h0]))
  · refine shouldBuild_quiet cx m hm t w cx.runid hr ht hf hch (Nat.le_refl _) (Or.inr ⟨hst, fun d0 hd hdt => ?_⟩)
    rcases hrows d0 hd hdt with ⟨h1, h2⟩ | hq
    · exact quietRow_always w cx.runid t _ ht hA (Nat.le_max_left _ _) d0 h2 h1
    · exact quietRow_of_quietDep w cx.runid t _ hg (by simp [mark, hch]) d0 hq

/-- What `redo-always` itself establishes about the `//ALWAYS` record. -/
theorem rsAlways_fresh (cx : Ctx) (t : Nat) (sc : Script) (w : World) (ha : sc.always = true)
    (hng : (w.recs alwaysId).isGenerated = false) :
    ((rsAlways cx t sc w).recs alwaysId).failed = none ∧ ((rsAlways cx t sc w).recs alwaysId).changed = some cx.runid ∧
    ((rsAlways cx t sc w).recs alwaysId).stamp = some .missing ∧
    ((rsAlways cx t sc w).recs alwaysId).isGenerated = false ∧
    { target := t, source := alwaysId, modeM := true, deleteMe := false } ∈ (rsAlways cx t sc w).deps := by
  unfold rsAlways
  simp only [ha, if_true]
  obtain ⟨row, hrow⟩ := addKnown_recs_self w alwaysId
  have h1 : (addDep w t alwaysId true).recs alwaysId = (addKnown w alwaysId).recs alwaysId := rfl
  refine ⟨by simp [setRec, setChanged], by simp [setRec, setChanged], by simp [setRec, setChanged], ?_, ?_⟩
  · simp only [setRec, setChanged, if_true]
    rw [h1, hrow]
    exact hng
  · show _ ∈ (addDep w t alwaysId true).deps
    unfold addDep
    exact List.mem_cons_self ..

end RedoModel.Deps
