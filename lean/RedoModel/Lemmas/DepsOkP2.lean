import RedoModel.Lemmas.DepsOkP1
/-!
# C10 — after a plain history WITH kills, a buildable project builds: `redo-ifchange` / `redo` exit 0
-/
namespace RedoModel.Deps
open RedoModel.Generated
open Rich (Buildable FrU Tr EngineFr)

/-- `redo` of a target already verified in this run: the script is run again and succeeds again (plain class). -/
theorem startSelf_idem_succP {rank R t w n} {cx : Ctx} (d : Defects) (hcx : cx.runid = R) (hcrash : cx.crash = none)
    (hcyc : cx.cycles = []) (hi : Inv rank R NoX w) (hv : VerR w R t) (hg : (w.recs t).isGenerated = true)
    (hfuel : rank t ≤ n + 1) :
    (startSelf (engine d (n + 1)) d cx t (w.recs t) w).1 = 0 := by
  obtain ⟨pre, dof, post, hr, hpre, hdex, hgd, hdrow, hfe, hrd, hexit, hcont⟩ := verR_script hi hv hg
  rw [startSelf_eq, ssGuard_noop hi.base]
  simp only [hi.base.noOvr t, Bool.false_or, Bool.not_false, hg, Bool.not_true, Bool.and_false, Bool.false_eq_true, if_false]
  subst hcx
  obtain ⟨p1, p2, p3, p4, p5, p6, p7⟩ := idem_prep hi hv hg hr hpre hdex hdrow
  unfold ssBuild
  simp only
  generalize findDoFile t ((zapDeps1 w t).rules t) (zapDeps1 w t) = fr at p1 p2 p3 p4 p5 p6 p7 ⊢
  obtain ⟨o, w2⟩ := fr
  dsimp only at p1 p2 p3 p4 p5 p6 p7
  subst p1
  simp only
  have hrules2 : w2.rules = w.rules := p3.rules
  have hdm2 : dof ∈ w2.rules t := by rw [hrules2, hr]; simp
  have hv2 := (p3.verR cx.runid t).2 hv
  have hg2 : (w2.recs t).isGenerated = true := by rw [p3.eqv.gen]; exact hg
  have hsc2 : scriptAt w2 dof = scriptAt w dof := p3.scriptAt dof
  have hplain : (scriptAt w dof).Plain := scriptAt_plain hi.base dof
  have hreads : (scriptAt w dof).reads = (scriptAt w dof).ifchange.flatten := hplain.2.2.2.2.2
  obtain ⟨q1, q2⟩ := idem_script (n := n) (cx := cx) d rfl hcrash hcyc p2 hv2 hg2 hdm2
    (by rw [p3.existsF]; exact hdex) hfuel (by
      rw [hsc2, ← hreads]
      intro x hx
      exact ⟨(hrd x hx).2.rank_lt hi.base, (p3.good _ x).2 (hrd x hx).1, (p7 _ _ _).2 (hrd x hx).2⟩)
  show (if (runScript (engine d (n + 1)) d cx t (scriptAt (ev (setRec w2 dof (setStatic w2 dof (w2.recs dof) cx.runid)) (Ev.ran t)) dof)
          (ev (setRec w2 dof (setStatic w2 dof (w2.recs dof) cx.runid)) (Ev.ran t))).fst = CRASHED then
      (CRASHED, (runScript (engine d (n + 1)) d cx t (scriptAt (ev (setRec w2 dof (setStatic w2 dof (w2.recs dof) cx.runid)) (Ev.ran t)) dof)
          (ev (setRec w2 dof (setStatic w2 dof (w2.recs dof) cx.runid)) (Ev.ran t))).2.snd)
    else recordNewState cx t (w.recs t)
      (runScript (engine d (n + 1)) d cx t (scriptAt (ev (setRec w2 dof (setStatic w2 dof (w2.recs dof) cx.runid)) (Ev.ran t)) dof)
          (ev (setRec w2 dof (setStatic w2 dof (w2.recs dof) cx.runid)) (Ev.ran t))).fst
      (runScript (engine d (n + 1)) d cx t (scriptAt (ev (setRec w2 dof (setStatic w2 dof (w2.recs dof) cx.runid)) (Ev.ran t)) dof)
          (ev (setRec w2 dof (setStatic w2 dof (w2.recs dof) cx.runid)) (Ev.ran t))).2.fst
      (runScript (engine d (n + 1)) d cx t (scriptAt (ev (setRec w2 dof (setStatic w2 dof (w2.recs dof) cx.runid)) (Ev.ran t)) dof)
          (ev (setRec w2 dof (setStatic w2 dof (w2.recs dof) cx.runid)) (Ev.ran t))).2.snd).1 = 0
  rw [q1, hsc2] at *
  rw [runScript_plain _ _ _ _ _ _ hplain]
  generalize runScript.cmds (engine d (n + 1)) cx t (childCx cx t) (scriptAt w dof).ifchange 0
    (ev (setRec w2 dof (setStatic w2 dof (w2.recs dof) cx.runid)) (Ev.ran t)) = cr at q2 ⊢
  obtain ⟨rv, w5⟩ := cr
  obtain ⟨s1, s2, s3, s4, s5, s6, s7⟩ := q2
  dsimp only at s1 s2 s3 s4 s5 s6 s7 ⊢
  subst s1
  have hnc : ((0 : Nat) : Int) ≠ CRASHED := CRASHED_ne_zero
  simp only [ne_eq, not_true_eq_false, if_false, hexit, hnc]
  rw [show ((0 : Nat) : Int) = 0 from rfl]
  exact recordNewState_zeroP _ _ _ _ _

theorem buildJob_forced_succP {rank R t w n fuel} {cx : Ctx} (d : Defects) (hcx : cx.runid = R)
    (hredo : cx.isRedo = true) (hcrash : cx.crash = none) (hcyc : cx.cycles = []) (hi : Inv rank R NoX w)
    (hfuel : rank t < n + 1) (hnf : NoFail R w) (hB : Buildable w t) :
    (buildJob (engine d (n + 1)) d cx fuel t w).1 = .done 0 := by
  rw [buildJob_forced_eq _ _ _ _ _ _ hredo]
  show JobResult.done (startSelf (engine d (n + 1)) d cx t (w.recs t) w).1 = .done 0
  by_cases hvg : VerR w R t ∧ (w.recs t).isGenerated = true
  · rw [startSelf_idem_succP d hcx hcrash hcyc hi hvg.1 hvg.2 (Nat.le_of_lt hfuel)]
  · rw [startSelf_succP (engine_okP rank R d (n + 1)) d hcx hcrash hi (fun hv => by
        cases hg : (w.recs t).isGenerated with
        | false => rfl
        | true => exact absurd ⟨hv, hg⟩ hvg) (fun _ h => h.elim)
      (by rw [hcyc]; intro c hc; cases hc) hfuel hnf hB]

theorem trP_alloc (w : World) : Tr w (allocRun w).2 :=
  ⟨FrU.of_fs rfl rfl rfl, SameOwn.keeps (⟨rfl, fun _ _ => KeyEq.refl _⟩ : SameOwn w (allocRun w).2)⟩

theorem top_succP {rank N w} {cx : Ctx} (d : Defects) (hN : ∀ f, rank f < N) (h : Btw rank w)
    (hcx : cx.runid = w.runCounter + 1) (hcrash : cx.crash = none)
    (hcyc : cx.cycles = []) (ts : List Nat) (hB : ∀ t ∈ ts, Buildable w t) :
    (runTargets (engine d (2 * N + 4)) d cx (2 * N + 4) ts [] false (allocRun w).2).1 = 0 := by
  obtain ⟨hi1, hnf1⟩ := Inv_alloc h
  have hE := engine_okP rank (w.runCounter + 1) d (2 * N + 4)
  have hB1 : ∀ t ∈ ts, Buildable (allocRun w).2 t :=
    fun t ht => buildable_trP (show Base rank w.runCounter NoX w from h) (trP_alloc w) (hB t ht)
  cases hr : cx.isRedo with
  | false =>
    exact runTargets_succP (b := N) (X := NoX) d hE.keeps hE.fr (by rw [hcyc]; intro c hc; cases hc) none
      (fun t w0 hi0 hlt => (buildJob_spec hE.spec d hcx hr hcrash hi0 (fun _ hx => hx.elim) hlt none).weak)
      (fun t w0 hi0 hlt hnf0 hB0 => buildJob_succP hE d hcx hr hcrash hi0 (fun _ hx => hx.elim)
        (by rw [hcyc]; intro c hc; cases hc) (by omega) (by omega) hnf0 hB0)
      ts [] (allocRun w).2 hi1 (fun t _ => hN t) hnf1 hB1
  | true =>
    exact runTargets_succP (b := N) (X := NoX) d hE.keeps hE.fr (by rw [hcyc]; intro c hc; cases hc) none
      (fun t w0 hi0 hlt => buildJob_forced_spec (n := 2 * N + 3) d hcx hr hcrash hcyc hi0 (by omega) hlt none)
      (fun t w0 hi0 hlt hnf0 hB0 => buildJob_forced_succP (n := 2 * N + 3) d hcx hr hcrash hcyc hi0 (by omega) hnf0 hB0)
      ts [] (allocRun w).2 hi1 (fun t _ => hN t) hnf1 hB1

theorem runCmd_succP {rank N w} (d : Defects) (hN : ∀ f, rank f < N) (h : Btw rank w) (ts : List Nat) (kg forced : Bool)
    (hB : ∀ t ∈ ts, Buildable w t) :
    (runCmd d N (if forced then .redo ts kg else .ifchange ts kg) w).1.status = 0 := by
  cases forced with
  | true =>
    exact top_succP (cx := { runid := w.runCounter + 1, keepGoing := kg, isRedo := true }) d hN h rfl rfl rfl ts hB
  | false =>
    exact top_succP (cx := { runid := w.runCounter + 1, keepGoing := kg }) d hN h rfl rfl rfl ts hB

/-- **C10, success direction, plain histories with kills.**  After ANY plain history interleaved with ANY number of
killed `redo-ifchange` runs (hypotheses of `noStalePlainK_partial`, in particular `SingleDo`), a later
`redo-ifchange ts` / `redo ts` over buildable targets exits 0 — and leaves them up to date. -/
theorem recoveryExitsZeroPlain (n : Nat) (rules : Nat → List Nat) (rank : Nat → Nat) (ops : List UserOp) (ts : List Nat)
    (kg forced : Bool) (hr : RulesOk rules) (hS : SingleDo rules) (hp : ∀ op ∈ ops, PlainOpK rules op)
    (hrk : ∀ w ∈ worldsOf n {} (initWorld rules) ops, Ranked rank w) (hN : ∀ f, rank f < n)
    (hok : OpsOk n (initWorld rules) ops) :
    let w := ops.foldl (fun w op => (applyOp {} n op w).2) (initWorld rules)
    let r := runCmd {} n (if forced then .redo ts kg else .ifchange ts kg) w
    (∀ t ∈ ts, Buildable w t) → r.1.status = 0 ∧ ∀ t ∈ ts, UpToDateD r.2 t := by
  intro w r hB
  have h0 : Btw rank (initWorld rules) := Btw_init hr (hrk _ (worldsOf_head n {} _ ops))
  obtain ⟨hb, _⟩ := history_btwK hN hS ops (initWorld rules) h0 rfl hp hrk hok
  have hz := runCmd_succP {} hN hb ts kg forced hB
  exact ⟨hz, runCmd_sound {} hN hb ts kg forced hz⟩

/-- Kill anywhere, then build: from any state satisfying the between-commands invariant, after a killed
`redo-ifchange ts` (whole tree killed when the script of `t` reaches step `k`), the next command over buildable
targets exits 0. -/
theorem recovery_succeeds {rank N w} (hN : ∀ f, rank f < N) (hS : SingleDo w.rules) (h : Btw rank w)
    (ts : List Nat) (t k : Nat) (ts' : List Nat) (kg forced : Bool) :
    let w1 := (applyOp {} N (.crashCmd ts t k) w).2
    (∀ x ∈ ts', Buildable w1 x) →
    (runCmd {} N (if forced then .redo ts' kg else .ifchange ts' kg) w1).1.status = 0 := by
  intro w1 hB
  obtain ⟨hb1, _⟩ := crashCmd_btw {} hN hS h ts t k
  exact runCmd_succP {} hN hb1 ts' kg forced hB

end RedoModel.Deps
