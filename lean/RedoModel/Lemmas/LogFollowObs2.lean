import RedoModel.Lemmas.LogFollowObs1
import RedoModel.Lemmas.LogFollow5
/-!
# The trace acceptor `Obs` against the `Sys` model — whole runs

`orun` accepts the projection of a run exactly when every `create` of the run happens in a `CreateSafe` state or after
the follower has returned (`SafeRunS`); the only flags it can raise on a projection are the three creation flags.
A follower step at the end of the file projects to `eof` (and `stop` if the loop ends there).
-/
namespace RedoModel.LogFollow
open Obs

/-- The three possibilities for one accepted step of the model. -/
theorem sim_step (s : Sys) (e : Ev) (s' : Sys) (o : OSt) (hR : Rel s o) (hI : ObsInv s) (h : step s e = some s') :
    ((e = .create → CreateSafe s ∨ s.pc = .stopped) ∧
      ∃ o', osteps o (obsEv s e) = .ok o' ∧ Rel s' o') ∨
    (¬ (e = .create → CreateSafe s ∨ s.pc = .stopped) ∧
      ∃ x fl, obsEv s e = [x] ∧ ostep o x = .error fl ∧ CreationFlag fl) := by
  by_cases he : e = .create
  · subst he
    by_cases hc : CreateSafe s ∨ s.pc = .stopped
    · obtain ⟨o', h1, h2⟩ := sim_create_ok s s' o hR h hc
      exact .inl ⟨fun _ => hc, o', by simp [obsEv, osteps, h1], h2⟩
    · obtain ⟨fl, h1, h2⟩ := sim_create_bad s s' o hR hI h hc
      exact .inr ⟨fun hh => hc (hh rfl), _, fl, rfl, h1, h2⟩
  · refine .inl ⟨fun hh => absurd hh he, ?_⟩
    by_cases hf : e = .fol
    · subst hf; exact sim_fol s s' o hR hI h
    · exact sim_builder s e s' o hR h he hf

theorem obs_run_aux (es : List Ev) : ∀ (s : Sys) (o : OSt) (i : Nat), Rel s o → ObsInv s →
    ((∃ o', orun o (obsOf s es) i = .ok o') ↔ SafeRunS s es) ∧
    (∀ fl j, orun o (obsOf s es) i = .error (fl, j) → CreationFlag fl) ∧
    (∀ o' s', orun o (obsOf s es) i = .ok o' → run s es = some s' → Rel s' o') := by
  induction es with
  | nil =>
    intro s o i hR _
    refine ⟨⟨fun _ => trivial, fun _ => ⟨o, rfl⟩⟩, ?_, ?_⟩
    · intro fl j h; simp [obsOf, orun] at h
    · intro o' s' h1 h2
      simp only [obsOf, orun, Except.ok.injEq] at h1
      simp only [run, Option.some.injEq] at h2
      subst h1; subst h2; exact hR
  | cons e es ih =>
    intro s o i hR hI
    cases hs : step s e with
    | none =>
      have hobs : obsOf s (e :: es) = [] := by simp [obsOf, hs]
      rw [hobs]
      refine ⟨⟨(fun _ s' h' => by rw [hs] at h'; cases h'), fun _ => ⟨o, rfl⟩⟩, ?_, ?_⟩
      · intro fl j h; simp [orun] at h
      · intro o' s' _ h2; simp [run, hs] at h2
    | some s1 =>
      have hobs : obsOf s (e :: es) = obsEv s e ++ obsOf s1 es := by simp [obsOf, hs]
      have hsafe : SafeRunS s (e :: es) ↔ (e = .create → CreateSafe s ∨ s.pc = .stopped) ∧ SafeRunS s1 es := by
        constructor
        · intro h; exact h s1 hs
        · intro h s' hs'; rw [hs] at hs'; cases hs'; exact h
      have hrun : ∀ s', run s (e :: es) = some s' ↔ run s1 es = some s' := by
        intro s'; simp [run, hs]
      have hI1 := ObsInv_step s e s1 hI hs
      rw [hobs, hsafe]
      rcases sim_step s e s1 o hR hI hs with ⟨hc, hok⟩ | ⟨hc, x, fl, hx, hst, hfl⟩
      · obtain ⟨o1, hst, hR1⟩ := hok
        rw [orun_append_ok _ _ o o1 i hst]
        obtain ⟨a, b, c⟩ := ih s1 o1 (i + (obsEv s e).length) hR1 hI1
        exact ⟨⟨fun h => ⟨hc, a.mp h⟩, fun h => a.mpr h.2⟩, b, fun o' s' h1 h2 => c o' s' h1 ((hrun s').mp h2)⟩
      · have hor : orun o ([x] ++ obsOf s1 es) i = .error (fl, i) := by
          simp only [List.cons_append, List.nil_append, orun, hst]
        rw [hx, hor]
        refine ⟨⟨(fun ⟨_, h⟩ => by cases h), fun h => absurd h.1 hc⟩, ?_, ?_⟩
        · intro fl' j h; cases h; exact hfl
        · intro o' s' h; cases h

/-! ### `SafeRun`, `SafeRunS` -/

theorem safeRunS_of_safeRun (es : List Ev) : ∀ s, SafeRun s es → SafeRunS s es := by
  induction es with
  | nil => intro _ _; trivial
  | cons e es ih =>
    intro s h s' hs
    obtain ⟨h1, h2⟩ := h s' hs
    exact ⟨fun he => .inl (h1 he), ih s' h2⟩

theorem safeRunS_prefix (es1 es2 : List Ev) : ∀ s, SafeRunS s (es1 ++ es2) → SafeRunS s es1 := by
  induction es1 with
  | nil => intro _ _; trivial
  | cons e es ih =>
    intro s h s' hs
    obtain ⟨h1, h2⟩ := h s' hs
    exact ⟨h1, ih s' h2⟩

/-- Up to and including the step at which the follower returns, `SafeRunS` is `SafeRun`. -/
theorem safeRun_of_safeRunS_until (es1 : List Ev) : ∀ (s s1 : Sys) (e : Ev), SafeRunS s (es1 ++ [e]) →
    run s es1 = some s1 → s1.pc ≠ .stopped → SafeRun s (es1 ++ [e]) := by
  induction es1 with
  | nil =>
    intro s s1 e h hr hpc s' hs
    simp only [run, Option.some.injEq] at hr; subst hr
    obtain ⟨h1, _⟩ := h s' hs
    refine ⟨fun he => ?_, trivial⟩
    rcases h1 he with h1 | h1
    · exact h1
    · exact absurd h1 hpc
  | cons e0 r ih =>
    intro s s1 e h hr hpc s' hs
    simp only [run, hs] at hr
    have hns : s.pc ≠ .stopped := fun hst => hpc (stopped_absorb_run hr (stopped_absorb s e0 s' hst hs))
    obtain ⟨h1, h2⟩ := h s' hs
    refine ⟨fun he => ?_, ih s' s1 e h2 hr hpc⟩
    rcases h1 he with h1 | h1
    · exact h1
    · exact absurd h1 hns

/-! ### Statements for `Props/C18d.lean` -/

theorem obs_accepted_iff_core (insts : List (List Nat)) (ph : Phase) (o0 : OSt) (hR : Rel (enter insts ph) o0)
    (es : List Ev) (i : Nat) :
    (∃ o', orun o0 (obsOf (enter insts ph) es) i = .ok o') ↔ SafeRunS (enter insts ph) es :=
  (obs_run_aux es _ o0 i hR (ObsInv_enter insts ph)).1

theorem obs_accepts_safe_runs_core (insts : List (List Nat)) (ph : Phase) (o0 : OSt) (hR : Rel (enter insts ph) o0)
    (es : List Ev) (i : Nat) (hsafe : SafeRun (enter insts ph) es) :
    ∃ o', orun o0 (obsOf (enter insts ph) es) i = .ok o' :=
  (obs_accepted_iff_core insts ph o0 hR es i).mpr (safeRunS_of_safeRun es _ hsafe)

theorem obs_flags_core (insts : List (List Nat)) (ph : Phase) (o0 : OSt) (hR : Rel (enter insts ph) o0)
    (es : List Ev) (i : Nat) (fl : Flag) (j : Nat) (h : orun o0 (obsOf (enter insts ph) es) i = .error (fl, j)) :
    (fl = .staleOpen ∨ fl = .rebuiltDuringFollow ∨ fl = .createAfterFree) ∧
    fl ≠ .badOrder ∧ fl ≠ .unsoundFree ∧ fl ≠ .stopWhileLocked ∧ fl ≠ .wrongInstance ∧
    fl ≠ .stopWithoutReread := by
  have hc := (obs_run_aux es _ o0 i hR (ObsInv_enter insts ph)).2.1 fl j h
  refine ⟨hc, ?_, ?_, ?_, ?_, ?_⟩ <;> (intro hfl; subst hfl; rcases hc with h | h | h <;> cases h)

theorem obs_final_state_core (insts : List (List Nat)) (ph : Phase) (o0 : OSt) (hR : Rel (enter insts ph) o0)
    (es : List Ev) (i : Nat) (o' : OSt) (s : Sys) (h : orun o0 (obsOf (enter insts ph) es) i = .ok o')
    (hr : run (enter insts ph) es = some s) :
    o'.phase = s.phase ∧ ((s.pc = .start ∨ s.pc = .stopped) → o'.fol = none) ∧
    (s.pc ≠ .start → s.pc ≠ .stopped → ∃ f, o'.fol = some f ∧ f.opened = s.opened ∧ f.wasLocked = s.wasLocked) :=
  have hR := (obs_run_aux es _ o0 i hR (ObsInv_enter insts ph)).2.2 o' s h hr
  ⟨hR.phase, hR.folNone, hR.folSome⟩

theorem accepted_safe_until_stop_core (insts : List (List Nat)) (ph : Phase) (o0 : OSt)
    (hR : Rel (enter insts ph) o0) (es1 es2 : List Ev) (i : Nat) (s1 : Sys)
    (hacc : ∃ o', orun o0 (obsOf (enter insts ph) (es1 ++ .fol :: es2)) i = .ok o')
    (h1 : run (enter insts ph) (es1 ++ [.fol]) = some s1) : SafeRun (enter insts ph) (es1 ++ [.fol]) := by
  have hS := (obs_accepted_iff_core insts ph o0 hR _ i).mp hacc
  have heq : es1 ++ Ev.fol :: es2 = (es1 ++ [.fol]) ++ es2 := by simp
  rw [heq] at hS
  have hS1 := safeRunS_prefix _ _ _ hS
  obtain ⟨s0, hr0, hr1⟩ := run_append_inv h1
  have hns : s0.pc ≠ .stopped := by
    intro hst; simp [run, step, hst] at hr1
  exact safeRun_of_safeRunS_until es1 _ s0 .fol hS1 hr0 hns

theorem accepted_trace_complete_core (insts : List (List Nat)) (ph : Phase) (o0 : OSt)
    (hR : Rel (enter insts ph) o0) (es1 es2 : List Ev) (i : Nat) (s1 : Sys)
    (hacc : ∃ o', orun o0 (obsOf (enter insts ph) (es1 ++ .fol :: es2)) i = .ok o')
    (h1 : run (enter insts ph) (es1 ++ [.fol]) = some s1) (hpc : s1.pc = .stopped) :
    s1.emitted.reverse = current s1 ∧ s1.phase ≠ .building :=
  complete_general insts ph _ s1 (accepted_safe_until_stop_core insts ph o0 hR es1 es2 i s1 hacc h1) h1 hpc

theorem accepted_trace_complete_end_core (insts : List (List Nat)) (ph : Phase) (o0 : OSt)
    (hR : Rel (enter insts ph) o0) (es1 es2 : List Ev) (i : Nat) (s1 s : Sys)
    (hacc : ∃ o', orun o0 (obsOf (enter insts ph) (es1 ++ .fol :: es2)) i = .ok o')
    (h1 : run (enter insts ph) (es1 ++ [.fol]) = some s1) (hpc : s1.pc = .stopped)
    (h2 : run s1 es2 = some s) (hnc : Ev.create ∉ es2) :
    s.pc = .stopped ∧ s.emitted.reverse = current s := by
  obtain ⟨a, b⟩ := accepted_trace_complete_core insts ph o0 hR es1 es2 i s1 hacc h1 hpc
  obtain ⟨c1, _, c3, c4, _⟩ := stopped_run h2 hnc hpc b
  refine ⟨c1, ?_⟩
  rw [c4, a]; simp [current, c3]

end RedoModel.LogFollow
