import RedoModel.Lemmas.DepsSoundS33
/-! Top-level commands: the between-commands invariant `Btw`, and what exit status 0 means. -/
namespace RedoModel.Deps.S
open RedoModel.Generated

/-- The invariant between commands: run ids in use are at most the run counter. -/
def Btw (rank : Nat → Nat) (w : World) : Prop := Base rank w.runCounter NoX w

theorem Inv_alloc {rank w} (h : Btw rank w) :
    Inv rank (w.runCounter + 1) NoX (allocRun w).2 ∧ NoFail (w.runCounter + 1) (allocRun w).2 := by
  have hb : Base rank w.runCounter NoX w := h
  have hck : ∀ f, (w.recs f).checked ≠ some (w.runCounter + 1) := fun f e => by
    have := hb.ckLe f _ e; omega
  have hch : ∀ f, (w.recs f).changed ≠ some (w.runCounter + 1) := fun f e => by
    have := hb.chLe f _ e; omega
  refine ⟨⟨⟨hb.rulesOk, hb.ranked, hb.plainProgs, fun f ch e => Nat.le_succ_of_le (hb.chLe f ch e),
    fun f ck e => Nat.le_succ_of_le (hb.ckLe f ck e), hb.csumFile, hb.csumEx, hb.srcNoCsum, hb.csumCh, hb.noOvr, hb.srcNotGen, hb.fs0, hb.rec0, hb.rowsLt,
    hb.cPlain, hb.stampCh, hb.staticEx, hb.genMs, hb.fsB, hb.stB, fun f e => absurd e (hck f),
    fun f e => absurd e (hch f), fun f k e => Nat.le_succ_of_le (hb.flLe f k e), ?_⟩, Nat.succ_pos _, ?_⟩, ?_⟩
  · intro t _ hrc hg
    exact hb.recA t (Or.inl id) hrc hg
  · intro f hv
    rcases hv.2 with e | e
    · exact absurd e (hck f)
    · exact absurd e (hch f)
  · intro f e
    have := hb.flLe f _ e; omega

theorem Good.upToDate {rank R X w t} (hi : Inv rank R X w) (hg : Good w R t) : UpToDateD w t :=
  good_upToDate (w' := w) hi rfl rfl (fun _ _ => rfl) (fun _ _ => ⟨rfl, rfl⟩) (rank t + 1) t (Nat.lt_succ_self _) hg

/-- The common part of `redo ts` and `redo-ifchange ts` at top level. -/
theorem top_run {rank N w} {cx : Ctx} (d : Defects)
    (hd1 : d.oobRecordsDepsOnCaller = false) (hd2 : d.oobRebuildsDepsNotTarget = false)
    (hkg : cx.isRedo = true → cx.keepGoing = false) (hN : ∀ f, rank f < N) (h : Btw rank w)
    (hcx : cx.runid = w.runCounter + 1) (hcrash : cx.crash = none) (hcyc : cx.cycles = []) (ts : List Nat) :
    (Btw rank (runTargets (engine d (2 * N + 4)) d cx (2 * N + 4) ts [] false (allocRun w).2).2 ∧
      (runTargets (engine d (2 * N + 4)) d cx (2 * N + 4) ts [] false (allocRun w).2).2.rules = w.rules) ∧
    ((runTargets (engine d (2 * N + 4)) d cx (2 * N + 4) ts [] false (allocRun w).2).1 = 0 →
      ∀ t ∈ ts, UpToDateD (runTargets (engine d (2 * N + 4)) d cx (2 * N + 4) ts [] false (allocRun w).2).2 t) := by
  obtain ⟨hi1, hnf1⟩ := Inv_alloc h
  have hjob : ∀ t w0, Inv rank (w.runCounter + 1) NoX w0 → rank t < N → (cx.isRedo = true → NoFail (w.runCounter + 1) w0) →
      JobPostW rank (w.runCounter + 1) NoX t N none w0
        (jrStatus (buildJob (engine d (2 * N + 4)) d cx (2 * N + 4) t w0).1,
          (buildJob (engine d (2 * N + 4)) d cx (2 * N + 4) t w0).2) := by
    intro t w0 hi0 hlt hnf0
    cases hr : cx.isRedo with
    | false =>
      exact (buildJob_spec (engine_spec rank _ d hd1 hd2 (2 * N + 4)) d hd1 hd2 hcx hr hcrash hi0 (fun _ hx => hx.elim) hlt none).weak
    | true =>
      have := hN t
      exact buildJob_forced_spec (n := 2 * N + 3) d hd1 hd2 hcx hr hcrash hcyc hi0 (by omega) hlt none (hnf0 hr t)
  obtain ⟨⟨a1, a2, a2'⟩, a3⟩ := runTargets_top d hkg hjob ts [] false (allocRun w).2 hi1 (fun t _ => hN t)
    (fun _ => ⟨hnf1, fun s hs => by simp at hs⟩)
  constructor
  · refine ⟨?_, a2'⟩
    show Base rank _ NoX _
    rw [a2]; exact a1.base
  · intro hz t ht
    exact ((a3 hz).2.2.1 t ht).upToDate a1

/-- Exit status 0 of `redo ts` / `redo-ifchange ts` at top level (with or without `-k`): the invariant is kept and every
target is up to date. -/
theorem top_sound {rank N w} {cx : Ctx} (d : Defects)
    (hd1 : d.oobRecordsDepsOnCaller = false) (hd2 : d.oobRebuildsDepsNotTarget = false)
    (hN : ∀ f, rank f < N) (h : Btw rank w)
    (hcx : cx.runid = w.runCounter + 1) (hcrash : cx.crash = none) (hcyc : cx.cycles = []) (ts : List Nat) :
    (runTargets (engine d (2 * N + 4)) d cx (2 * N + 4) ts [] false (allocRun w).2).1 = 0 →
      (Btw rank (runTargets (engine d (2 * N + 4)) d cx (2 * N + 4) ts [] false (allocRun w).2).2 ∧
        (runTargets (engine d (2 * N + 4)) d cx (2 * N + 4) ts [] false (allocRun w).2).2.rules = w.rules) ∧
      ∀ t ∈ ts, UpToDateD (runTargets (engine d (2 * N + 4)) d cx (2 * N + 4) ts [] false (allocRun w).2).2 t := by
  obtain ⟨hi1, hnf1⟩ := Inv_alloc h
  have hjob : ∀ t w0, Inv rank (w.runCounter + 1) NoX w0 → rank t < N → NoFail (w.runCounter + 1) w0 →
      JobPostW rank (w.runCounter + 1) NoX t N none w0
        (jrStatus (buildJob (engine d (2 * N + 4)) d cx (2 * N + 4) t w0).1,
          (buildJob (engine d (2 * N + 4)) d cx (2 * N + 4) t w0).2) := by
    intro t w0 hi0 hlt hnf0
    cases hr : cx.isRedo with
    | false =>
      exact (buildJob_spec (engine_spec rank _ d hd1 hd2 (2 * N + 4)) d hd1 hd2 hcx hr hcrash hi0 (fun _ hx => hx.elim) hlt none).weak
    | true =>
      have := hN t
      exact buildJob_forced_spec (n := 2 * N + 3) d hd1 hd2 hcx hr hcrash hcyc hi0 (by omega) hlt none (hnf0 t)
  intro hz
  obtain ⟨⟨a1, a2, a2'⟩, a3, _⟩ := runTargets_top0 d hjob ts [] (allocRun w).2 hi1 (fun t _ => hN t) hnf1
    (fun s hs => by simp at hs) hz
  refine ⟨⟨?_, a2'⟩, fun t ht => (a3 t ht).upToDate a1⟩
  show Base rank _ NoX _
  rw [a2]; exact a1.base

end RedoModel.Deps.S
