import RedoModel.Lemmas.DepsSoundS22
/-! `ssBuild` and `startSelf` for a target that is not good. -/
namespace RedoModel.Deps.S

theorem stampW_zero {cx : Ctx} {t : Nat} {sc : Script} {w : World} (h : sc.stamp = 0) : stampW cx t sc w = w := by
  unfold stampW; simp [h]

theorem ssb_ok {rank R t w w2 w5 b dof sc pre post} {X : Nat → Prop} {cx : Ctx} (hcx : cx.runid = R)
    (hro : RowOp t w w2)
    (built : Built rank R t pre dof post sc w5) (hi5 : Inv rank R (addX X t) w5)
    (hb5 : BExt rank R (rank t) (some t) w2 w5) (hlt : rank t < b) (po : Option Nat)
    (hnf5 : NoFail R w → NoFail R w5) (hnf0 : (w.recs t).failed ≠ some R) (hpl : sc.PlainS) :
    JobPostW rank R X t b po w (recordNewState cx t (w.recs t) 0 (outOf w5 sc) (stampW cx t sc w5)) := by
  have hst : SameT t w w5 := (hro.sameT t).trans (hb5.sameT (Nat.le_refl _))
  have hb05 : BExt rank R b po w w5 := (hro.toBExt hlt).trans (hb5.lift hlt)
  rcases hpl.2.2.2.1 with hs | hs
  · rw [stampW_zero hs]
    have hnf5' : (w5.recs t).failed ≠ some R := by rw [hst.flds.failed]; exact hnf0
    obtain ⟨m1, m2⟩ := notMarked hi5 built.notGood hnf5'
    rw [← hcx] at m1 m2
    obtain ⟨h0, hf⟩ := recordOk_fields cx t (w.recs t) (outOf w5 sc) w5 m1 m2
    rw [hcx] at hf
    obtain ⟨a1, a2, a3, a4⟩ := recordOk_spec (b := b) (po := po) (X' := X) hi5 addX_drop built hf hlt
    refine ⟨a1, hb05.trans a3, fun _ _ => Or.inl a2, fun h _ => a4 (hnf5 h), ?_⟩
    rw [h0]; exact CRASHED_ne_zero
  · have hom : sc.outMode ≠ 2 := hpl.2.2.2.2.2.2 hs
    have hout : outOf w5 sc = some (outContent sc.tag (sc.reads.map (contentOf w5))) := by
      unfold outOf; simp [hom]
    rw [hout]
    obtain ⟨h0, hf⟩ := recordStamp_fields cx t (w.recs t) sc w5 hs (by rw [hcx]; exact hi5.Rpos) _ rfl
    rw [hcx] at hf
    generalize recordNewState cx t (w.recs t) 0 (some (outContent sc.tag (sc.reads.map (contentOf w5)))) (stampW cx t sc w5)
      = res at h0 hf ⊢
    rcases hf with ⟨_, hf⟩ | ⟨_, hf⟩
    · have hf' : OkFields R t (outOf w5 sc) w5 res.2 := by rw [hout]; exact hf
      obtain ⟨a1, a2, a3, a4⟩ := recordOk_spec (b := b) (po := po) (X' := X) hi5 addX_drop built hf' hlt
      refine ⟨a1, hb05.trans a3, fun _ _ => Or.inl a2, fun h _ => a4 (hnf5 h), ?_⟩
      rw [h0]; exact CRASHED_ne_zero
    · obtain ⟨a1, a2, a3, a4⟩ := recordSame_spec (b := b) (po := po) (X' := X) hi5 addX_drop built hout hf hlt
      refine ⟨a1, hb05.trans a3, fun _ _ => Or.inl a2, fun h _ => a4 (hnf5 h), ?_⟩
      rw [h0]; exact CRASHED_ne_zero

theorem ssBuild_spec {rank R E t w b} {cx : Ctx} {X : Nat → Prop} (hE : ESpec rank R E) (d : Defects)
    (hcx : cx.runid = R) (hcrash : cx.crash = none) (hi : Inv rank R X w) (hng : ¬ Good w R t)
    (hXa : ∀ x, X x → rank t < rank x) (hlt : rank t < b) (po : Option Nat) (hnf : (w.recs t).failed ≠ some R) :
    JobPostW rank R X t b po w (ssBuild E d cx t (w.recs t) w) := by
  subst hcx
  obtain ⟨p1, p2, p3, p4, p5⟩ := ssb_prep hi hng
  unfold ssBuild
  simp only
  generalize findDoFile t ((zapDeps1 w t).rules t) (zapDeps1 w t) = fr at p1 p2 p3 p4 p5 ⊢
  obtain ⟨o, w2⟩ := fr
  dsimp only at p1 p2 p3 p4 p5
  cases o with
  | none =>
    simp only
    exact (ssb_none hng p2 p3 hlt).weak
  | some dof =>
    simp only
    have ran := ssb_script (E := E) (cx := cx) hE rfl hcrash p2 (fun h => hng ((p3.good _ t).1 h)) hXa
      (dof := dof) (by rw [p3.rules]; exact (firstEx_mem _ _ p1.symm).1)
      (by rw [p3.existsF]; exact (firstEx_mem _ _ p1.symm).2)
    show JobPostW rank cx.runid X t b po w
      (if (runScript E d cx t (scriptAt (ev (setRec w2 dof (setStatic w2 dof (w2.recs dof) cx.runid)) (Ev.ran t)) dof)
            (ev (setRec w2 dof (setStatic w2 dof (w2.recs dof) cx.runid)) (Ev.ran t))).fst = CRASHED then
        (CRASHED, (runScript E d cx t (scriptAt (ev (setRec w2 dof (setStatic w2 dof (w2.recs dof) cx.runid)) (Ev.ran t)) dof)
            (ev (setRec w2 dof (setStatic w2 dof (w2.recs dof) cx.runid)) (Ev.ran t))).2.snd)
      else recordNewState cx t (w.recs t)
        (runScript E d cx t (scriptAt (ev (setRec w2 dof (setStatic w2 dof (w2.recs dof) cx.runid)) (Ev.ran t)) dof)
            (ev (setRec w2 dof (setStatic w2 dof (w2.recs dof) cx.runid)) (Ev.ran t))).fst
        (runScript E d cx t (scriptAt (ev (setRec w2 dof (setStatic w2 dof (w2.recs dof) cx.runid)) (Ev.ran t)) dof)
            (ev (setRec w2 dof (setStatic w2 dof (w2.recs dof) cx.runid)) (Ev.ran t))).2.fst
        (runScript E d cx t (scriptAt (ev (setRec w2 dof (setStatic w2 dof (w2.recs dof) cx.runid)) (Ev.ran t)) dof)
            (ev (setRec w2 dof (setStatic w2 dof (w2.recs dof) cx.runid)) (Ev.ran t))).2.snd)
    generalize scriptAt (ev (setRec w2 dof (setStatic w2 dof (w2.recs dof) cx.runid)) (Ev.ran t)) dof = sc at ran ⊢
    rw [runScript_plainS _ _ _ _ _ _ ran.plain hcrash]
    generalize runScript.cmds E cx t (childCx cx t) sc.ifchange 0
      (ev (setRec w2 dof (setStatic w2 dof (w2.recs dof) cx.runid)) (Ev.ran t)) = cr at ran ⊢
    obtain ⟨rv, w5⟩ := cr
    dsimp only at ran ⊢
    have hdm : dof ∈ w.rules t := (firstEx_mem _ _ p1.symm).1
    by_cases hrv : rv = 0
    · subst hrv
      simp only [ne_eq, not_true_eq_false, if_false]
      have hexc : ((sc.exit : Nat) : Int) ≠ CRASHED := by
        have : (0 : Int) ≤ (sc.exit : Int) := Int.natCast_nonneg _
        intro h; rw [h] at this; exact absurd this (by decide)
      simp only [hexc, if_false]
      by_cases hex : sc.exit = 0
      · obtain ⟨pre, post, hr, hpre, hdex⟩ := firstEx_some_split _ _ p1.symm
        have built := ssb_built hi hng p3 hr hpre hdex (by rw [p1]; exact p4) (p5 pre dof post hr hpre hdex) ran hex
        rw [hex]
        exact ssb_ok rfl p3 built ran.inv ran.bext hlt po
          (fun h => ran.noFail ((h.eqv p3.eqv : NoFail cx.runid { w2 with deps := w.deps })) rfl) hnf ran.plain
      · have hne : ((sc.exit : Nat) : Int) ≠ 0 := by
          intro h; exact hex (Int.natCast_eq_zero.1 h)
        exact (ssb_fail rfl hng p3 ran.inv ran.bext (StampT.stampW cx t sc w5) hdm hlt po _ _ hne hexc).weak
    · simp only [ne_eq, hrv, not_false_eq_true, if_true, ran.notCrashed, if_false]
      exact (ssb_fail rfl hng p3 ran.inv ran.bext (StampT.refl t w5) hdm hlt po _ _ hrv ran.notCrashed).weak

/-- `startSelf` on a target that is not a verified generated target (the job's record copy being current). -/
theorem startSelf_spec {rank R E t w b} {cx : Ctx} {X : Nat → Prop} (hE : ESpec rank R E) (d : Defects)
    (hcx : cx.runid = R) (hcrash : cx.crash = none) (hi : Inv rank R X w)
    (hV : VerR w R t → (w.recs t).isGenerated = false)
    (hXa : ∀ x, X x → rank t < rank x) (hlt : rank t < b) (po : Option Nat) (hnf : (w.recs t).failed ≠ some R) :
    JobPostW rank R X t b po w (startSelf E d cx t (w.recs t) w) := by
  rw [startSelf_eq, ssGuard_noop hi.base]
  simp only [hi.base.noOvr t, Bool.false_or, Bool.not_false]
  have hgg : Good w R t → (w.recs t).isGenerated = false := fun h => h.elim hV (fun h => h.2)
  split
  · rename_i hc
    simp only [Bool.and_eq_true, Bool.not_eq_true'] at hc
    subst hcx
    obtain ⟨a1, a2, a3, a4⟩ := setStatic_spec (b := b) (po := po) hi hc.1 hgg hlt
    exact ⟨a1, a3, fun _ _ => a2, fun h _ => a4 h, CRASHED_ne_zero⟩
  · rename_i hc
    refine ssBuild_spec hE d hcx hcrash hi (fun hg => hc ?_) hXa hlt po hnf
    have hgen := hgg hg
    simp only [Bool.and_eq_true, Bool.not_eq_true']
    exact ⟨static_exists hi.base (hg.recCur hi) hgen, hgen⟩

end RedoModel.Deps.S
