import RedoModel.Lemmas.DepsSoundS1
/-! Basic facts: functions of `fs` only, `getRec`, `findDoFile` vs `firstEx`, the `CkExt` frame. -/
namespace RedoModel.Deps.S

theorem getRec_ne (w : World) (R : Nat) {f : Nat} (h : f ≠ alwaysId) : getRec w R f = w.recs f := by
  unfold getRec; simp [h]

theorem contentOf_congr {w w' : World} {f : Nat} (h : w'.fs f = w.fs f) : contentOf w' f = contentOf w f := by
  unfold contentOf; rw [h]

theorem existsF_eq_true {w : World} {f : Nat} : existsF w f = true ↔ ∃ n, w.fs f = some n := by
  unfold existsF; cases w.fs f <;> simp

theorem existsF_eq_false {w : World} {f : Nat} : existsF w f = false ↔ w.fs f = none := by
  unfold existsF; cases w.fs f <;> simp

theorem readStamp_missing {w : World} {f : Nat} : readStamp w f = .missing ↔ w.fs f = none := by
  unfold readStamp; cases w.fs f <;> simp

theorem scriptAt_congr {w w' : World} {f : Nat} (h : w'.fs f = w.fs f) (hp : w'.progs = w.progs) :
    scriptAt w' f = scriptAt w f := by
  unfold scriptAt; rw [h, hp]

theorem firstEx_congr {w w' : World} : ∀ (cs : List Nat), (∀ c ∈ cs, w'.fs c = w.fs c) → firstEx w' cs = firstEx w cs
  | [], _ => rfl
  | c :: cs, h => by
    simp only [firstEx]
    rw [existsF_congr (h c (by simp)), firstEx_congr cs (fun c' hc' => h c' (List.mem_cons_of_mem _ hc'))]

theorem firstEx_mem {w : World} : ∀ (cs : List Nat) (dof : Nat), firstEx w cs = some dof → dof ∈ cs ∧ existsF w dof = true
  | [], _, h => by simp [firstEx] at h
  | c :: cs, dof, h => by
    simp only [firstEx] at h
    split at h
    · cases h; exact ⟨by simp, by assumption⟩
    · have := firstEx_mem cs dof h
      exact ⟨List.mem_cons_of_mem _ this.1, this.2⟩

/-- `firstEx` in terms of a split of the candidate list. -/
theorem firstEx_split {w : World} (pre : List Nat) (dof : Nat) (post : List Nat)
    (hpre : ∀ c ∈ pre, existsF w c = false) (hd : existsF w dof = true) :
    firstEx w (pre ++ dof :: post) = some dof := by
  induction pre with
  | nil => simp [firstEx, hd]
  | cons c cs ih =>
    simp only [List.cons_append, firstEx, hpre c (by simp), Bool.false_eq_true, if_false]
    exact ih (fun c' hc' => hpre c' (List.mem_cons_of_mem _ hc'))

theorem firstEx_none {w : World} : ∀ (cs : List Nat), firstEx w cs = none → ∀ c ∈ cs, existsF w c = false
  | [], _, c, hc => by simp at hc
  | c0 :: cs, h, c, hc => by
    simp only [firstEx] at h
    split at h
    · cases h
    · rename_i hne
      rcases List.mem_cons.1 hc with rfl | hc
      · simpa using hne
      · exact firstEx_none cs h c hc

theorem firstEx_some_split {w : World} : ∀ (cs : List Nat) (dof : Nat), firstEx w cs = some dof →
    ∃ pre post, cs = pre ++ dof :: post ∧ (∀ c ∈ pre, existsF w c = false) ∧ existsF w dof = true
  | [], _, h => by simp [firstEx] at h
  | c :: cs, dof, h => by
    simp only [firstEx] at h
    split at h
    · cases h; exact ⟨[], cs, rfl, by simp, by assumption⟩
    · rename_i hne
      obtain ⟨pre, post, e, h1, h2⟩ := firstEx_some_split cs dof h
      refine ⟨c :: pre, post, by simp [e], ?_, h2⟩
      intro c' hc'
      rcases List.mem_cons.1 hc' with rfl | hc'
      · simpa using hne
      · exact h1 c' hc'

end RedoModel.Deps.S

namespace RedoModel.Deps.S

/-- `w'` differs from `w` only by `checked := some R` on files of rank `< b` (and the ghost trace). -/
def CkExt (rank : Nat → Nat) (R b : Nat) (w w' : World) : Prop :=
  SameButRecs w w' ∧ ∀ x, w'.recs x = w.recs x ∨
    (rank x < b ∧ w'.recs x = { w.recs x with checked := some R } ∧ (w.recs x).failed = none)

theorem CkExt.refl (rank R b w) : CkExt rank R b w w := ⟨SameButRecs.refl w, fun _ => Or.inl rfl⟩

theorem CkExt.mono {rank R b b' w w'} (h : CkExt rank R b w w') (hb : b ≤ b') : CkExt rank R b' w w' :=
  ⟨h.1, fun x => (h.2 x).imp id (fun ⟨hx, e⟩ => ⟨Nat.lt_of_lt_of_le hx hb, e⟩)⟩

theorem CkExt.trans {rank R b w w' w''} (h1 : CkExt rank R b w w') (h2 : CkExt rank R b w' w'') :
    CkExt rank R b w w'' := by
  refine ⟨h1.1.trans h2.1, fun x => ?_⟩
  rcases h1.2 x with e1 | ⟨hx1, e1, f1⟩ <;> rcases h2.2 x with e2 | ⟨hx2, e2, f2⟩
  · exact Or.inl (e2.trans e1)
  · exact Or.inr ⟨hx2, by rw [e2, e1], by rw [← e1]; exact f2⟩
  · exact Or.inr ⟨hx1, by rw [e2, e1], f1⟩
  · exact Or.inr ⟨hx1, by rw [e2, e1], f1⟩

theorem CkExt.fs {rank R b w w'} (h : CkExt rank R b w w') : w'.fs = w.fs := h.1.1
theorem CkExt.deps {rank R b w w'} (h : CkExt rank R b w w') : w'.deps = w.deps := h.1.2.1

theorem CkExt.readStamp {rank R b w w'} (h : CkExt rank R b w w') (f) : readStamp w' f = readStamp w f :=
  readStamp_congr (congrFun h.fs f)
theorem CkExt.existsF {rank R b w w'} (h : CkExt rank R b w w') (f) : existsF w' f = existsF w f :=
  existsF_congr (congrFun h.fs f)
theorem CkExt.contentOf {rank R b w w'} (h : CkExt rank R b w w') (f) : contentOf w' f = contentOf w f :=
  contentOf_congr (congrFun h.fs f)

/-- fields other than `checked` are preserved -/
theorem CkExt.fields {rank R b w w'} (h : CkExt rank R b w w') (x) :
    (w'.recs x).failed = (w.recs x).failed ∧ (w'.recs x).changed = (w.recs x).changed ∧
    (w'.recs x).stamp = (w.recs x).stamp ∧ (w'.recs x).isGenerated = (w.recs x).isGenerated ∧
    (w'.recs x).isOverride = (w.recs x).isOverride ∧ (w'.recs x).csum = (w.recs x).csum ∧
    ((w'.recs x).checked = (w.recs x).checked ∨ (w'.recs x).checked = some R) := by
  rcases h.2 x with e | ⟨_, e, _⟩ <;> rw [e] <;> simp

theorem CkExt.above {rank R b w w'} (h : CkExt rank R b w w') {x} (hx : b ≤ rank x) : w'.recs x = w.recs x := by
  rcases h.2 x with e | ⟨hx', _⟩
  · exact e
  · omega

theorem DetectM_ext {rank R b w w'} (h : CkExt rank R b w w') (M d) : DetectM w' M d ↔ DetectM w M d := by
  obtain ⟨f1, f2, f3, _⟩ := h.fields d
  unfold DetectM; rw [f1, f2, f3, h.readStamp]

theorem DetectS_ext {rank R b w w'} (h : CkExt rank R b w w') (M d) : DetectS w' M d ↔ DetectS w M d := by
  obtain ⟨f1, f2, f3, f4, _⟩ := h.fields d
  unfold DetectS FailedAbsent; rw [f1, f2, f3, f4, h.readStamp]

theorem RecCur_ext {rank R b w w'} (h : CkExt rank R b w w') (f) : RecCur w' f ↔ RecCur w f := by
  obtain ⟨f1, f2, f3, _⟩ := h.fields f
  unfold RecCur; rw [f1, f2, f3, h.readStamp]

theorem VerR_ext {rank R b w w'} (h : CkExt rank R b w w') {f} (hv : VerR w R f) : VerR w' R f := by
  obtain ⟨f1, f2, _, _, _, _, f6⟩ := h.fields f
  unfold VerR at *; rw [f1, f2]
  refine ⟨hv.1, ?_⟩
  rcases hv.2 with h1 | h1
  · rcases f6 with e | e
    · exact Or.inl (e.trans h1)
    · exact Or.inl e
  · exact Or.inr h1

theorem Good_ext {rank R b w w'} (h : CkExt rank R b w w') {f} (hv : Good w R f) : Good w' R f := by
  rcases hv with hv | ⟨hc, hg⟩
  · exact Or.inl (VerR_ext h hv)
  · exact Or.inr ⟨(RecCur_ext h f).2 hc, by rw [(h.fields f).2.2.2.1]; exact hg⟩

theorem HasRow_ext {rank R b w w'} (h : CkExt rank R b w w') (t s m) : HasRow w' t s m ↔ HasRow w t s m := by
  unfold HasRow; rw [h.deps]

end RedoModel.Deps.S
