import RedoModel.Lemmas.Cycles
/-!
# `REDO_CYCLES` — kernel-checked instances (non-vacuity, corner cases, necessity of the hypotheses)
-/
namespace RedoModel.Cycles.Ex

def one : List Char := ['1']
def ten : List Char := ['1', '0']
def hundred : List Char := ['1', '0', '0']

theorem one_fid : IsFid one := ⟨by decide, by decide⟩
theorem ten_fid : IsFid ten := ⟨by decide, by decide⟩
theorem hundred_fid : IsFid hundred := ⟨by decide, by decide⟩

/-- Reversing is not the identity on the items at hand. -/
theorem reverse_not_id : [ten, hundred].reverse ≠ [ten, hundred] := by decide

/-- Ancestors holding 10 and 100, set written back in reversed order: the variable reads `100:10`. -/
theorem chain_value : addAll List.reverse none [ten, hundred] = some "100:10".toList := by decide

/-- … and 1 is not refused although it is a prefix of both; 10 and 100 are. -/
theorem prefix_distinguished :
    check (addAll List.reverse none [ten, hundred]) one = false ∧
    check (addAll List.reverse none [ten, hundred]) ten = true ∧
    check (addAll List.reverse none [ten, hundred]) hundred = true ∧
    check (addAll List.reverse none [hundred]) ten = false ∧
    check (addAll List.reverse none [one]) ten = false ∧
    check (addAll List.reverse none [one]) hundred = false := by decide

/-- A third level adds 1: the reversed write-back gives `1:10:100`, all three are refused, 0 and 1000 are not. -/
theorem chain3 :
    addAll List.reverse none [ten, hundred, one] = some "1:10:100".toList ∧
    check (addAll List.reverse none [ten, hundred, one]) one = true ∧
    check (addAll List.reverse none [ten, hundred, one]) ['0'] = false ∧
    check (addAll List.reverse none [ten, hundred, one]) ['1', '0', '0', '0'] = false := by decide

/-- Corners of the inherited variable.  Unset: no items.  Set but empty: ONE item, the empty string (so the
empty id would be refused — no lock id is empty, `IsFid`).  Repeated and empty items (`1:1:`) survive a
no-op `add`, and are written back once each by an `add` of a new lock. -/
theorem corners :
    items none = [] ∧ items (some []) = [[]] ∧ check (some []) [] = true ∧ check none [] = false ∧
    items (some "1:1:".toList) = [one, one, []] ∧
    add List.reverse (some "1:1:".toList) one = some "1:1:".toList ∧
    add List.reverse (some "1:1:".toList) ten = some "10::1".toList ∧
    add List.reverse (some []) ten = some "10:".toList ∧
    add List.reverse none ten = some "10".toList := by decide

/-- The hypothesis `':' ∉ fid` of `add_exact`/`check_after_add` cannot be dropped: an id containing a colon
is not found again after being added (it reads back as two items). -/
theorem colon_needed : check (add id none [':']) [':'] = false ∧ items (add id none [':']) = [[], []] := by
  decide

/-- The hypothesis `l ≠ []` of `split_join` cannot be dropped. -/
theorem nil_needed : splitColon (joinColon []) ≠ [] := by decide

/-- The hypothesis `Rearranges ord` cannot be dropped: an order that loses an item loses an ancestor's lock. -/
theorem rearranges_needed :
    check (add (fun l => l.drop 1) (some ten) hundred) ten = false := by decide

end RedoModel.Cycles.Ex
