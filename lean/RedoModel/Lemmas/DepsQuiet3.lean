import RedoModel.Lemmas.DepsQuiet2
/-! After a successful top-level command the recorded closure of its targets (as far as redo walks it) is settled. -/
namespace RedoModel.Deps.Rich
open RedoModel.Generated

/-- `top_run` with what its proof knows: the run invariant at the end, and the targets are `Good`. -/
theorem top_runG {rank N w} {cx : Ctx} (d : Defects) (hN : ∀ f, rank f < N) (h : Btw rank w)
    (hcx : cx.runid = w.runCounter + 1) (hcrash : cx.crash = none) (hcyc : cx.cycles = []) (ts : List Nat)
    (hts0 : ∀ t ∈ ts, t ≠ alwaysId) :
    Inv rank (w.runCounter + 1) NoX (runTargets (engine d (2 * N + 4)) d cx (2 * N + 4) ts [] false (allocRun w).2).2 ∧
    (runTargets (engine d (2 * N + 4)) d cx (2 * N + 4) ts [] false (allocRun w).2).2.runCounter = w.runCounter + 1 ∧
    ((runTargets (engine d (2 * N + 4)) d cx (2 * N + 4) ts [] false (allocRun w).2).1 = 0 →
      ∀ t ∈ ts, Good (runTargets (engine d (2 * N + 4)) d cx (2 * N + 4) ts [] false (allocRun w).2).2
        (w.runCounter + 1) t) := by
  obtain ⟨hi1, hnf1⟩ := Inv_alloc h
  have hjob : ∀ t w0, Inv rank (w.runCounter + 1) NoX w0 → rank t < N → t ≠ alwaysId →
      JobPostW rank (w.runCounter + 1) NoX t N none w0
        (jrStatus (buildJob (engine d (2 * N + 4)) d cx (2 * N + 4) t w0).1,
          (buildJob (engine d (2 * N + 4)) d cx (2 * N + 4) t w0).2) := by
    intro t w0 hi0 hlt ht0
    cases hr : cx.isRedo with
    | false =>
      exact (buildJob_spec (engine_spec rank _ d (2 * N + 4)) d hcx hr hcrash hi0 ht0 (fun _ hx => hx.elim) hlt none).weak
    | true =>
      have := hN t
      exact buildJob_forced_spec (n := 2 * N + 3) d hcx hr hcrash hcyc hi0 ht0 (by omega) hlt none
  obtain ⟨⟨a1, a2, _⟩, a3⟩ := runTargets_top d hjob ts [] false (allocRun w).2 hi1 (fun t ht => ⟨hN t, hts0 t ht⟩)
    (fun _ => ⟨hnf1, fun s hs => by simp at hs⟩)
  exact ⟨a1, a2, fun hz t ht => (a3 hz).2.2.1 t ht⟩

/-- The part of the recorded closure of `ts` that consists of good files. -/
def GoodReach (w : World) (R : Nat) (ts : List Nat) (f : Nat) : Prop := RecReach w ts f ∧ Good w R f

theorem QAt_of_good {rank R X w ts f} (hi : Inv rank R X w) (h0 : ¬ RecReach w ts alwaysId)
    (hf : GoodReach w R ts f) : QAt R (GoodReach w R ts) w f := by
  obtain ⟨hr, hg⟩ := hf
  have hne : f ≠ alwaysId := fun e => h0 (e ▸ hr)
  have hrc := hg.recCur hi
  have hch : ∃ ch, (w.recs f).changed = some ch ∧ ch ≤ R := by
    cases hc : (w.recs f).changed with
    | none => exact absurd hc hrc.2.1
    | some c => exact ⟨c, rfl, hi.base.chLe f c hc⟩
  refine ⟨hne, hrc.1, hch, hrc.2.2, fun hgt => ?_, fun hgt d hd ht hm => ?_, fun hgt d hd ht hm => ?_⟩
  all_goals
    have hv : VerR w R f := by
      rcases hg with hv | ⟨_, _, h⟩
      · exact hv
      · rw [hgt] at h; cases h
  · exact Nat.le_of_eq (hv.Mof_eq hi.base).symm
  · exact ⟨RecReach.step hr hd ht, ((hi.ver f hv).2.2 hgt d hd ht).1 hm⟩
  · exact ((hi.ver f hv).2.2 hgt d hd ht).2 hm

theorem QSet_of_good {rank R X w ts} (hi : Inv rank R X w) (h0 : ¬ RecReach w ts alwaysId) :
    QSet rank R (GoodReach w R ts) w :=
  ⟨fun _ hf => QAt_of_good hi h0 hf, hi.base.rowsLt⟩

/-- What the user may have done since: records and rows untouched, files of the closure `C` untouched. -/
structure UserRel (C : Nat → Prop) (w w' : World) : Prop where
  recs : w'.recs = w.recs
  deps : w'.deps = w.deps
  fs : ∀ f, C f → w'.fs f = w.fs f
  rc : w.runCounter ≤ w'.runCounter

theorem UserRel.refl (C : Nat → Prop) (w : World) : UserRel C w w := ⟨rfl, rfl, fun _ _ => rfl, Nat.le_refl _⟩
theorem UserRel.trans {C a b c} (h1 : UserRel C a b) (h2 : UserRel C b c) : UserRel C a c :=
  ⟨h2.recs.trans h1.recs, h2.deps.trans h1.deps, fun f hf => (h2.fs f hf).trans (h1.fs f hf), Nat.le_trans h1.rc h2.rc⟩

theorem QSet.user {rank R w w' ts} (hq : QSet rank R (GoodReach w R ts) w) (h : UserRel (RecReach w ts) w w') :
    QSet rank R (GoodReach w R ts) w' := by
  refine hq.congr h.deps (fun x _ => by rw [h.recs]) (fun x _ => by rw [h.recs]) (fun x _ => by rw [h.recs])
    (fun x _ => by rw [h.recs]) (fun x _ => by rw [h.recs]) (fun x _ => by rw [h.recs]) (fun f hf => h.fs f ?_)
  rcases hf with hf | ⟨d, hd, _, hs, _, rfl⟩
  · exact hf.1
  · exact RecReach.step hs.1 hd rfl

end RedoModel.Deps.Rich
