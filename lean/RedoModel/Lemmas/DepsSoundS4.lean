import RedoModel.Lemmas.DepsSoundS3
/-! The general single-file update lemmas (`Base_upd`, `Ver_upd`): the analogue of `P.Inv_upd`. -/
namespace RedoModel.Deps.S

/-- `w'` differs from `w` only at file `t`: its file, its record, the rows whose target is `t`; the clock may advance. -/
structure OffT (t : Nat) (w w' : World) : Prop where
  rules : w'.rules = w.rules
  progs : w'.progs = w.progs
  fs : ∀ x, x ≠ t → w'.fs x = w.fs x
  fsP : w.rules t = [] → w'.fs t = w.fs t
  recs : ∀ x, x ≠ t → w'.recs x = w.recs x
  rows : ∀ d : Dep, d.target ≠ t → (d ∈ w'.deps ↔ d ∈ w.deps)
  clock : w.clock ≤ w'.clock
  rc : w'.runCounter = w.runCounter

theorem OffT.refl (t : Nat) (w : World) : OffT t w w :=
  ⟨rfl, rfl, fun _ _ => rfl, fun _ => rfl, fun _ _ => rfl, fun _ _ => Iff.rfl, Nat.le_refl _, rfl⟩

theorem OffT.trans {t : Nat} {a b c : World} (h1 : OffT t a b) (h2 : OffT t b c) : OffT t a c :=
  ⟨h2.rules.trans h1.rules, h2.progs.trans h1.progs, fun x hx => (h2.fs x hx).trans (h1.fs x hx),
   fun ht => (h2.fsP (by rw [h1.rules]; exact ht)).trans (h1.fsP ht),
   fun x hx => (h2.recs x hx).trans (h1.recs x hx),
   fun d hd => (h2.rows d hd).trans (h1.rows d hd), Nat.le_trans h1.clock h2.clock, h2.rc.trans h1.rc⟩

theorem OffT.hasRow {t w w'} (h : OffT t w w') {x s m} (hx : x ≠ t) : HasRow w' x s m ↔ HasRow w x s m := by
  unfold HasRow
  constructor
  · rintro ⟨d, hd, h1, h2, h3⟩
    exact ⟨d, (h.rows d (by rw [h1]; exact hx)).1 hd, h1, h2, h3⟩
  · rintro ⟨d, hd, h1, h2, h3⟩
    exact ⟨d, (h.rows d (by rw [h1]; exact hx)).2 hd, h1, h2, h3⟩

theorem OffT.fsPlain {rank R t w w'} (h : OffT t w w') (_hb : Base rank R X w) {x} (hx : w.rules x = []) :
    w'.fs x = w.fs x := by
  by_cases e : x = t
  · subst e; exact h.fsP hx
  · exact h.fs x e

theorem OffT.readStamp {t w w'} (h : OffT t w w') {x} (hx : x ≠ t) : readStamp w' x = readStamp w x :=
  readStamp_congr (h.fs x hx)

theorem OffT.recCur {t w w'} (h : OffT t w w') {x} (hx : x ≠ t) : RecCur w' x ↔ RecCur w x := by
  unfold RecCur; rw [h.recs x hx, h.readStamp hx]

theorem OffT.detectS {t w w'} (h : OffT t w w') {x} (hx : x ≠ t) (M) : DetectS w' M x ↔ DetectS w M x := by
  unfold DetectS FailedAbsent; rw [h.recs x hx, h.readStamp hx]

theorem OffT.verR {t w w'} (h : OffT t w w') {x} (hx : x ≠ t) (R) : VerR w' R x ↔ VerR w R x := by
  unfold VerR; rw [h.recs x hx]

theorem OffT.good {t w w'} (h : OffT t w w') {x} (hx : x ≠ t) (R) : Good w' R x ↔ Good w R x := by
  unfold Good; rw [h.verR hx, h.recCur hx, h.recs x hx]

theorem OffT.ranked {rank R t w w'} (h : OffT t w w') (hb : Base rank R X w) : Ranked rank w' := by
  refine ⟨fun x c hc => hb.ranked.1 x c (by rw [← h.rules]; exact hc), ?_⟩
  intro x dof hdof n sc hn hsc
  rw [h.rules] at hdof
  have hp : w.rules dof = [] := (hb.rulesOk.2 x dof hdof).1
  rw [h.fsPlain hb hp] at hn
  rw [h.progs] at hsc
  exact hb.ranked.2 x dof hdof n sc hn hsc

/-- How an update of `t` looks to a parent whose max(changed, checked) is `M`: loud; or quiet with the same content
(or something already detectable); or a rebuild that reproduced the recorded checksum. -/
def Hdet (w w' : World) (t M : Nat) : Prop :=
  DetectL w' M t ∨
  ((∀ x, (w'.recs t).csum = some x → (w.recs t).csum = some x) ∧ (DetectL w M t → DetectL w' M t) ∧
    (DetectS w' M t ∨ (contentOf w' t = contentOf w t ∧ ¬ DetectS w M t))) ∨
  (∃ x, (w.recs t).csum = some x ∧ (w'.recs t).csum = some x ∧ contentOf w' t = some x ∧
    (DetectL w M t → DetectL w' M t)) ∨
  (contentOf w' t = contentOf w t ∧ RecCur w t ∧ (DetectL w M t → DetectL w' M t) ∧
    ∀ x, (w'.recs t).csum = some x → contentOf w' t = some x)

theorem RecCur.detectL {w : World} {M d : Nat} (hc : RecCur w d) (h : DetectS w M d) : DetectL w M d := by
  rcases h with h | h | h | h
  · exact Or.inl h
  · exact Or.inr h
  · exact absurd hc.2.2 h
  · exact absurd hc.1 h.1

theorem OffT.detectL {t w w'} (h : OffT t w w') {x} (hx : x ≠ t) (M) : DetectL w' M x ↔ DetectL w M x := by
  unfold DetectL; rw [h.recs x hx]

/-- The promise of another target's record survives an update of `t`, provided a change of `t` is detectable
by that target whenever it matters. -/
theorem RecTruth_off {rank R t w w' u} (hb : Base rank R X w) (h : OffT t w w') (hu : u ≠ t)
    (hdet : HasRow w u t true → Hdet w w' t (Mof (w.recs u)))
    (ht : RecTruth w u) : RecTruth w' u := by
  obtain ⟨pre, dof, post, sc, hr, hpre, hdof, hreads, hexit, hsc, cs, hcont, hlen, hz⟩ := ht
  have hdofP : w.rules dof = [] := (hb.rulesOk.2 u dof (by rw [hr]; simp)).1
  refine ⟨pre, dof, post, sc, by rw [h.rules]; exact hr, fun c hc => (h.hasRow hu).2 (hpre c hc),
    (h.hasRow hu).2 hdof, fun d hd => (h.hasRow hu).2 (hreads d hd), hexit, ?_, cs, ?_, hlen, ?_⟩
  · rw [h.recs u hu]
    have hfs := h.fsPlain hb hdofP
    rcases hsc with ⟨h1, h2⟩ | h1
    · exact Or.inl ⟨by rw [existsF_congr hfs]; exact h1, by rw [scriptAt_congr hfs h.progs]; exact h2⟩
    · by_cases e : dof = t
      · subst e
        rcases hdet hdof with h3 | ⟨_, _, h3 | ⟨_, h3⟩⟩ | ⟨x, h3, _⟩ | ⟨_, k2, k3, _⟩
        · exact Or.inr h3.toS
        · exact Or.inr h3
        · exact absurd h1 h3
        · rw [hb.srcNoCsum dof hdofP] at h3; cases h3
        · exact Or.inr (k3 (k2.detectL h1)).toS
      · exact Or.inr ((h.detectS e _).2 h1)
  · rw [contentOf_congr (h.fs u hu)]; exact hcont
  · intro p hp
    rw [h.recs u hu]
    by_cases e : p.1 = t
    · have hrow : HasRow w u t true := e ▸ hreads p.1 (P.zip_fst_mem _ _ p hp)
      obtain ⟨hz1, hz2⟩ := hz p hp
      rw [e] at hz1 hz2 ⊢
      rcases hdet hrow with h3 | ⟨k1, k2, k3⟩ | ⟨x, k1, k2, k3, k4⟩ | ⟨k1, k2, k3, k4⟩
      rotate_left 3
      · have hl : p.2 ≠ contentOf w t → DetectL w' (Mof (w.recs u)) t := fun hne => k3 (k2.detectL (hz1 hne))
        refine ⟨fun hne => (hl (by rw [← k1]; exact hne)).toS, fun x hx => ?_⟩
        by_cases he : p.2 = some x
        · exact Or.inl he
        · exact Or.inr (hl (by rw [← k1, k4 x hx]; exact he))
      · exact ⟨fun _ => h3.toS, fun _ _ => Or.inr h3⟩
      · refine ⟨fun hne => ?_, fun x hx => (hz2 x (k1 x hx)).imp id k2⟩
        rcases k3 with k3 | ⟨k3, k4⟩
        · exact k3
        · rw [k3] at hne; exact absurd (hz1 hne) k4
      · refine ⟨fun hne => ?_, fun x' hx' => ?_⟩
        · rcases hz2 x k1 with h4 | h4
          · rw [k3] at hne; exact absurd h4 hne
          · exact (k4 h4).toS
        · rw [k2] at hx'; cases hx'
          exact (hz2 x k1).imp id k4
    · obtain ⟨hz1, hz2⟩ := hz p hp
      rw [h.recs p.1 e, h.detectL e]
      refine ⟨fun hne => ?_, hz2⟩
      rw [contentOf_congr (h.fs p.1 e)] at hne
      exact (h.detectS e _).2 (hz1 hne)

/-- The clauses of `Base` that speak about one record, for file `t` in world `w`. -/
structure RecOk (R t : Nat) (w : World) : Prop where
  chLe : ∀ ch, (w.recs t).changed = some ch → ch ≤ R
  ckLe : ∀ ck, (w.recs t).checked = some ck → ck ≤ R
  csumFile : ∀ x, (w.recs t).csum = some x → ∀ n, w.fs t = some n → n.content = x
  csumEx : (w.recs t).csum ≠ none → (w.recs t).failed = none → (w.recs t).stamp ≠ some .missing
  srcNoCsum : w.rules t = [] → (w.recs t).csum = none
  csumCh : (w.recs t).csum ≠ none → (w.recs t).changed ≠ none
  noOvr : (w.recs t).isOverride = false
  srcNotGen : w.rules t = [] → (w.recs t).isGenerated = false
  rec0 : t = alwaysId → ((w.recs t).failed ≠ none ∨ ((w.recs t).stamp = none ∧ (w.recs t).checked = none))
  stampCh : (w.recs t).stamp ≠ none → (w.recs t).changed ≠ none
  staticEx : (w.recs t).failed = none → (w.recs t).isGenerated = false → (w.recs t).stamp ≠ some .missing
  genMs : (w.recs t).isGenerated = true → ∀ n, w.fs t = some n → ∃ rest, (w.recs t).stamp = some (.st n.ms rest)
  fsB : ∀ n, w.fs t = some n → n.ms ≤ w.clock
  stB : ∀ ms rest, (w.recs t).stamp = some (.st ms rest) →
      ms ≤ w.clock ∧ ∀ n, w.fs t = some n → ms < n.ms ∨ (ms = n.ms ∧ rest ≤ n.rest)
  ckFail : (w.recs t).checked = some R → (w.recs t).failed = none
  markFail : (w.recs t).changed = some R → (w.recs t).failed = none ∨ (w.recs t).failed = some R
  flLe : ∀ k, (w.recs t).failed = some k → k ≤ R

theorem Base.recOk {rank R w} (hb : Base rank R X w) (t : Nat) : RecOk R t w :=
  ⟨hb.chLe t, hb.ckLe t, hb.csumFile t, hb.csumEx t, hb.srcNoCsum t, hb.csumCh t, hb.noOvr t, hb.srcNotGen t, fun e => e ▸ hb.rec0, hb.stampCh t,
   hb.staticEx t, hb.genMs t, hb.fsB t, hb.stB t, hb.ckFail t, hb.markFail t, hb.flLe t⟩

theorem Base_upd {rank R t w w'} {X X' : Nat → Prop} (hb : Base rank R X w) (h : OffT t w w') (hok : RecOk R t w')
    (hX : ∀ u, u ≠ t → ¬ X' u → ¬ X u)
    (hrowsLt : ∀ d ∈ w'.deps, rank d.source < rank d.target)
    (hcPlain : ∀ d ∈ w'.deps, d.modeM = false → w'.rules d.source = [])
    (hdet : ∀ u, u ≠ t → RecCur w u → (w.recs u).isGenerated = true → HasRow w u t true →
      Hdet w w' t (Mof (w.recs u)))
    (hA : (¬ X' t ∨ VerR w' R t) → RecCur w' t → (w'.recs t).isGenerated = true → RecTruth w' t) :
    Base rank R X' w' := by
  have hrec : ∀ x, RecOk R x w' := by
    intro x
    by_cases e : x = t
    · subst e; exact hok
    · have o := hb.recOk x
      have hf := h.fs x e
      refine ⟨?_, ?_, ?_, ?_, ?_, ?_, ?_, ?_, ?_, ?_, ?_, ?_, ?_, ?_, ?_, ?_, ?_⟩
      all_goals try rw [h.recs x e]
      · exact o.chLe
      · exact o.ckLe
      · rw [hf]; exact o.csumFile
      · exact o.csumEx
      · rw [h.rules]; exact o.srcNoCsum
      · exact o.csumCh
      · exact o.noOvr
      · rw [h.rules]; exact o.srcNotGen
      · exact o.rec0
      · exact o.stampCh
      · exact o.staticEx
      · rw [hf]; exact o.genMs
      · rw [hf]; exact fun n hn => Nat.le_trans (o.fsB n hn) h.clock
      · rw [hf]; exact fun ms rest hs => ⟨Nat.le_trans (o.stB ms rest hs).1 h.clock, (o.stB ms rest hs).2⟩
      · exact o.ckFail
      · exact o.markFail
      · exact o.flLe
  refine ⟨by rw [h.rules]; exact hb.rulesOk, h.ranked hb, by rw [h.progs]; exact hb.plainProgs,
    fun f => (hrec f).chLe, fun f => (hrec f).ckLe, fun f => (hrec f).csumFile, fun f => (hrec f).csumEx, fun f => (hrec f).srcNoCsum, fun f => (hrec f).csumCh,
    fun f => (hrec f).noOvr,
    fun f => (hrec f).srcNotGen, ?_, (hrec alwaysId).rec0 rfl, hrowsLt, hcPlain, fun f => (hrec f).stampCh,
    fun f => (hrec f).staticEx, fun f => (hrec f).genMs, fun f => (hrec f).fsB, fun f => (hrec f).stB,
    fun f => (hrec f).ckFail, fun f => (hrec f).markFail, fun f => (hrec f).flLe, ?_⟩
  · rw [h.fsPlain hb hb.rulesOk.1]; exact hb.fs0
  · intro u hx hrc hg
    by_cases e : u = t
    · subst e; exact hA hx hrc hg
    · have hrc0 := (h.recCur e).1 hrc
      rw [h.recs u e] at hg
      have hx0 : ¬ X u ∨ VerR w R u := hx.imp (hX u e) (h.verR e R).1
      exact RecTruth_off hb h e (hdet u e hrc0 hg) (hb.recA u hx0 hrc0 hg)

theorem Ver_upd {rank R t w w'} (hi : Inv rank R X w) (h : OffT t w w') (hng : ¬ Good w R t)
    (hT : VerR w' R t → RecCur w' t ∧ UpToDateD w' t ∧
      ((w'.recs t).isGenerated = true → ∀ d ∈ w'.deps, d.target = t →
        (d.modeM = true → Good w' R d.source) ∧ (d.modeM = false → existsF w' d.source = false))) :
    Ver R w' := by
  intro f hv
  by_cases e : f = t
  · subst e; exact hT hv
  · have hv0 := (h.verR e R).1 hv
    obtain ⟨hrc, _, hcl⟩ := hi.ver f hv0
    have hne : ∀ x, Good w R x → x ≠ t := fun x hx ex => hng (ex ▸ hx)
    refine ⟨(h.recCur e).2 hrc, ?_, ?_⟩
    · refine good_upToDate hi h.rules h.progs (fun x hx => contentOf_congr (h.fsPlain hi.base hx))
        (fun x hx => ⟨contentOf_congr (h.fs x (hne x hx)), by rw [h.recs x (hne x hx)]⟩)
        (rank f + 1) f (Nat.lt_succ_self _) (Or.inl hv0)
    · rw [h.recs f e]
      intro hg d hd hdt
      have hd0 := (h.rows d (by rw [hdt]; exact e)).1 hd
      obtain ⟨h1, h2⟩ := hcl hg d hd0 hdt
      refine ⟨fun hm => ?_, fun hm => ?_⟩
      · exact (h.good (hne _ (h1 hm)) R).2 (h1 hm)
      · rw [existsF_congr (h.fsPlain hi.base (hi.base.cPlain d hd0 hm))]; exact h2 hm

/-- A quiet update of a good file `t` (same content, still good, `VerR` unchanged) keeps `Ver`. -/
theorem Ver_upd_quiet {rank R X t w w'} (hi : Inv rank R X w) (h : OffT t w w')
    (hc : contentOf w' t = contentOf w t) (hgen : (w'.recs t).isGenerated = (w.recs t).isGenerated)
    (hgood : Good w R t → Good w' R t) (hvr : VerR w' R t → VerR w R t)
    (hT : VerR w' R t → RecCur w' t ∧
      ((w'.recs t).isGenerated = true → ∀ d ∈ w'.deps, d.target = t →
        (d.modeM = true → Good w' R d.source) ∧ (d.modeM = false → existsF w' d.source = false))) :
    Ver R w' := by
  have hfro : ∀ x, Good w R x → contentOf w' x = contentOf w x ∧ (w'.recs x).isGenerated = (w.recs x).isGenerated := by
    intro x _
    by_cases e : x = t
    · subst e; exact ⟨hc, hgen⟩
    · exact ⟨contentOf_congr (h.fs x e), by rw [h.recs x e]⟩
  have hup : ∀ x, Good w R x → UpToDateD w' x := fun x hx =>
    good_upToDate hi h.rules h.progs (fun y hy => contentOf_congr (h.fsPlain hi.base hy)) hfro (rank x + 1) x
      (Nat.lt_succ_self _) hx
  have hgd : ∀ x, Good w R x → Good w' R x := by
    intro x hx
    by_cases e : x = t
    · subst e; exact hgood hx
    · exact (h.good e R).2 hx
  intro f hv
  by_cases e : f = t
  · subst e
    exact ⟨(hT hv).1, hup f (Or.inl (hvr hv)), (hT hv).2⟩
  · have hv0 := (h.verR e R).1 hv
    obtain ⟨hrc, _, hcl⟩ := hi.ver f hv0
    refine ⟨(h.recCur e).2 hrc, hup f (Or.inl hv0), ?_⟩
    rw [h.recs f e]
    intro hg d hd hdt
    have hd0 := (h.rows d (by rw [hdt]; exact e)).1 hd
    obtain ⟨h1, h2⟩ := hcl hg d hd0 hdt
    exact ⟨fun hm => hgd _ (h1 hm), fun hm => by
      rw [existsF_congr (h.fsPlain hi.base (hi.base.cPlain d hd0 hm))]; exact h2 hm⟩

/-- A current parent of a file that is not good has not been marked in this run. -/
theorem parents_lt {rank R w t u} (hi : Inv rank R X w) (hng : ¬ Good w R t) (hrc : RecCur w u)
    (hg : (w.recs u).isGenerated = true) (hrow : HasRow w u t true) : Mof (w.recs u) < R := by
  have hle := hi.base.Mof_le u
  rcases Nat.lt_or_ge (Mof (w.recs u)) R with h | h
  · exact h
  · exfalso
    have he : Mof (w.recs u) = R := Nat.le_antisymm hle h
    have hv : VerR w R u := ⟨hrc.1, (Mof_eq_R he hi.Rpos).symm⟩
    exact hng (hrow.good hi hv hg)

/-- Loud update: the new record of a file that is not good has `changed = R`. -/
theorem hdet_loud {rank R w w' t} (hi : Inv rank R X w) (hng : ¬ Good w R t) (hch : (w'.recs t).changed = some R) :
    ∀ u, u ≠ t → RecCur w u → (w.recs u).isGenerated = true → HasRow w u t true → Hdet w w' t (Mof (w.recs u)) :=
  fun _ _ hrc hg hrow => Or.inl (Or.inr ⟨R, hch, parents_lt hi hng hrc hg hrow⟩)

/-- Quiet update: same content, same `changed`, same checksum, same stamp-currency. -/
theorem hdet_quiet {w w' : World} {t : Nat} (hc : contentOf w' t = contentOf w t)
    (hch : (w'.recs t).changed = (w.recs t).changed)
    (hcs : (w'.recs t).csum = (w.recs t).csum)
    (hst : (w.recs t).stamp ≠ some (readStamp w t) → (w'.recs t).stamp ≠ some (readStamp w' t))
    (hfa : FailedAbsent w t → FailedAbsent w' t) :
    ∀ u, u ≠ t → RecCur w u → (w.recs u).isGenerated = true → HasRow w u t true → Hdet w w' t (Mof (w.recs u)) := by
  intro u _ _ _ _
  refine Or.inr (Or.inl ⟨fun x hx => by rw [← hcs]; exact hx, fun h => by unfold DetectL at h ⊢; rw [hch]; exact h, ?_⟩)
  by_cases hd : DetectS w (Mof (w.recs u)) t
  · left
    unfold DetectS at hd ⊢
    rw [hch]
    rcases hd with h | h | h | h
    · exact Or.inl h
    · exact Or.inr (Or.inl h)
    · exact Or.inr (Or.inr (Or.inl (hst h)))
    · exact Or.inr (Or.inr (Or.inr (hfa h)))
  · exact Or.inr ⟨hc, hd⟩

/-- Quiet update that drops the checksum (`setStatic`): same content, same `changed`, same stamp-currency. -/
theorem hdet_quietN {w w' : World} {t : Nat} (hc : contentOf w' t = contentOf w t)
    (hch : (w'.recs t).changed = (w.recs t).changed)
    (hcs : (w'.recs t).csum = none)
    (hst : (w.recs t).stamp ≠ some (readStamp w t) → (w'.recs t).stamp ≠ some (readStamp w' t))
    (hfa : FailedAbsent w t → FailedAbsent w' t) :
    ∀ u, u ≠ t → RecCur w u → (w.recs u).isGenerated = true → HasRow w u t true → Hdet w w' t (Mof (w.recs u)) := by
  intro u _ _ _ _
  refine Or.inr (Or.inl ⟨fun x hx => absurd (hcs ▸ hx) (by simp), fun h => by unfold DetectL at h ⊢; rw [hch]; exact h, ?_⟩)
  by_cases hd : DetectS w (Mof (w.recs u)) t
  · left
    unfold DetectS at hd ⊢
    rw [hch]
    rcases hd with h | h | h | h
    · exact Or.inl h
    · exact Or.inr (Or.inl h)
    · exact Or.inr (Or.inr (Or.inl (hst h)))
    · exact Or.inr (Or.inr (Or.inr (hfa h)))
  · exact Or.inr ⟨hc, hd⟩

/-- A rebuild of a file that is not good which reproduced the recorded checksum `x`: `changed` is kept. -/
theorem hdet_same {w w' : World} {t : Nat} {x : Content} (h1 : (w.recs t).csum = some x)
    (h2 : (w'.recs t).csum = some x) (hc : contentOf w' t = some x)
    (hch : (w'.recs t).changed = (w.recs t).changed) :
    ∀ u, u ≠ t → RecCur w u → (w.recs u).isGenerated = true → HasRow w u t true → Hdet w w' t (Mof (w.recs u)) :=
  fun _ _ _ _ _ => Or.inr (Or.inr (Or.inl ⟨x, h1, h2, hc, fun h => by unfold DetectL at h ⊢; rw [hch]; exact h⟩))

/-- A rebuild of a current file that reproduced its content; `changed` may move to `R`. -/
theorem hdet_idem {rank R X w w'} {t : Nat} (hb : Base rank R X w) (hc : contentOf w' t = contentOf w t) (hrc : RecCur w t)
    (hch : (w'.recs t).changed = (w.recs t).changed ∨ (w'.recs t).changed = some R)
    (hcs : ∀ x, (w'.recs t).csum = some x → contentOf w' t = some x) :
    ∀ u, u ≠ t → RecCur w u → (w.recs u).isGenerated = true → HasRow w u t true → Hdet w w' t (Mof (w.recs u)) := by
  intro u _ _ _ _
  refine Or.inr (Or.inr (Or.inr ⟨hc, hrc, fun h => ?_, hcs⟩))
  rcases hch with e | e
  · unfold DetectL at h ⊢; rw [e]; exact h
  · rcases h with h | ⟨ch, h1, h2⟩
    · exact absurd h hrc.2.1
    · exact Or.inr ⟨R, e, Nat.lt_of_lt_of_le h2 (hb.chLe t ch h1)⟩

end RedoModel.Deps.S
