import RedoModel.Lemmas.DepsFail6
/-!
# C05 at the level of whole commands — part 7: status 0 means that nothing failed (commands, engine, top level)
-/
namespace RedoModel.Deps
open RedoModel.Generated

/-- The target loop: status 0 ⇒ every job ended with `done 0` ⇒ no failure recorded; and (for
`redo-ifchange`) no requested target is failed-in-this-run at the end. -/
theorem runTargets_nnf {R : Nat} (E : Engine) (hE : EngNNF E) (d : Defects) (cx : Ctx) (hcx : cx.runid = R) (fuel : Nat) :
    ∀ (ts seen : List Nat) (e : Bool) (w w' : World), runTargets E d cx fuel ts seen e w = (0, w') →
      NoNewFail R w w' ∧ (cx.isRedo = false → ∀ t ∈ ts, t ∉ seen → ¬ FailedNow R w' t)
  | [], seen, e, w, w', he => by
    rw [runTargets] at he
    simp only [Prod.mk.injEq] at he
    obtain ⟨_, rfl⟩ := he
    exact ⟨NoNewFail.refl R w, fun _ t ht => by cases ht⟩
  | t :: ts, seen, e, w, w', he => by
    rw [runTargets_cons] at he
    split at he
    · rename_i hs
      obtain ⟨ih1, ih2⟩ := runTargets_nnf E hE d cx hcx fuel ts seen e w w' he
      refine ⟨ih1, fun hr x hx hxs => ?_⟩
      rcases List.mem_cons.1 hx with rfl | hx'
      · exact absurd hs hxs
      · exact ih2 hr x hx' hxs
    · rename_i hs
      split at he
      · cases he
      · split at he
        · simp [EXIT_CYCLIC_DEPENDENCY] at he
        · generalize hb : buildJob E d cx fuel t (addKnown w t) = r at he
          obtain ⟨jr, w1⟩ := r
          cases jr with
          | abort code =>
            dsimp only at he
            have := buildJob_abort_ne _ _ _ _ _ _ _ _ hb
            simp only [Prod.mk.injEq] at he
            exact absurd he.1 this
          | done rv =>
            dsimp only at he
            split at he
            · simp [CRASHED] at he
            · by_cases hrv : rv = 0
              · subst hrv
                have hj := buildJob_nnf (R := R) E hE d cx hcx fuel t _ _ hb
                obtain ⟨ih1, ih2⟩ := runTargets_nnf E hE d cx hcx fuel ts (t :: seen) _ w1 w' he
                have hall : NoNewFail R w w' := ((NoNewFail.addKnown w t).trans hj).trans ih1
                refine ⟨hall, fun hr x hx hxs => ?_⟩
                by_cases hxt : x = t
                · subst hxt
                  intro hf
                  have h1 : FailedNow R (addKnown w x) x := hj x (ih1 x hf)
                  rw [← hcx] at h1
                  exact buildJob_zero_pre E d cx fuel x _ _ hr hb h1
                · rcases List.mem_cons.1 hx with rfl | hx'
                  · exact absurd rfl hxt
                  · exact ih2 hr x hx' (by simp [hxt, hxs])
              · have hp := C05.propagates E d cx fuel ts (t :: seen) w1
                simp only [hrv, ne_eq, not_false_eq_true, decide_true, Bool.or_true] at he
                rw [he] at hp
                exact absurd rfl hp

theorem ifchangeWith_nnf {R : Nat} (E : Engine) (hE : EngNNF E) (d : Defects) (fuel : Nat) (cx : Ctx) (hcx : cx.runid = R)
    (ts : List Nat) (w w' : World) (he : ifchangeWith E d fuel cx ts w = (0, w')) :
    NoNewFail R w w' ∧ (cx.isRedo = false → ∀ t ∈ ts, ¬ FailedNow R w' t) := by
  unfold ifchangeWith at he
  have key : ∀ w2, NoNewFail R w w2 → runTargets E d cx fuel ts [] false w2 = (0, w') →
      NoNewFail R w w' ∧ (cx.isRedo = false → ∀ t ∈ ts, ¬ FailedNow R w' t) := by
    intro w2 h2 hrt
    obtain ⟨a, b⟩ := runTargets_nnf E hE d cx hcx fuel ts [] false w2 w' hrt
    exact ⟨h2.trans a, fun hr t ht => b hr t ht (by simp)⟩
  cases hp : cx.parent with
  | none =>
    rw [hp] at he
    simp only [Bool.false_eq_true, if_false] at he
    exact key w (NoNewFail.refl R w) he
  | some p =>
    rw [hp] at he
    dsimp only at he
    split at he
    · simp [EXIT_CYCLIC_DEPENDENCY] at he
    · split at he
      · exact key w (NoNewFail.refl R w) he
      · exact key _ ((NoNewFail.addKnown w p).trans (NoNewFail.foldl_addDep p true ts _)) he

/-- **1(b), nested commands.**  A `redo-ifchange` of the real engine that returns 0 recorded no failure: every
target failed-in-this-run afterwards already was before — in particular none of the scripts it executed,
at any depth, failed — and none of the requested targets is failed-in-this-run. -/
theorem engine_nnf (d : Defects) : ∀ n, EngNNF (engine d n)
  | 0 => fun _ _ _ h => by simp [engine, EXIT_FAILURE] at h
  | n + 1 => fun cx ts w h =>
    (ifchangeWith_nnf (engine d n) (engine_nnf d n) d (n + 1) cx rfl ts w _
      (Prod.ext h rfl : ifchangeWith (engine d n) d (n + 1) cx ts w = (0, _))).1

theorem engine_zero_targets (d : Defects) (n : Nat) (cx : Ctx) (ts : List Nat) (w w' : World)
    (hr : cx.isRedo = false) (he : (engine d n).ifchangeCmd cx ts w = (0, w')) :
    NoNewFail cx.runid w w' ∧ ∀ t ∈ ts, ¬ FailedNow cx.runid w' t := by
  cases n with
  | zero => simp [engine, EXIT_FAILURE] at he
  | succ n =>
    obtain ⟨a, b⟩ := ifchangeWith_nnf (engine d n) (engine_nnf d n) d (n + 1) cx rfl ts w w' he
    exact ⟨a, b hr⟩

/-- At the start of a run nothing is failed-in-this-run (the run id is fresh). -/
theorem fresh_no_failed {w : World} (hwf : WF w) (t : Nat) :
    ¬ FailedNow (w.runCounter + 1) { w with runCounter := w.runCounter + 1 } t := by
  unfold FailedNow isFailedR
  dsimp only
  cases hf : (w.recs t).failed with
  | none => simp
  | some c =>
    have := (hwf t).2.2 c hf
    simp only [Bool.and_eq_true, bne_iff_ne, ne_eq, decide_eq_true_eq, not_and]
    intro _; omega

/-- **1(b), top level.**  A top-level `redo-ifchange` / `redo` that exits 0 leaves no target at all recorded as
failed in this run: every .do executed during the run, at any depth, exited 0. -/
theorem runCmd_zero_none_failed (d : Defects) (nf : Nat) (ts : List Nat) (kg : Bool) (w : World) (hwf : WF w) :
    ((runCmd d nf (.ifchange ts kg) w).1.status = 0 →
      ∀ t, ¬ FailedNow (w.runCounter + 1) (runCmd d nf (.ifchange ts kg) w).2 t) ∧
    ((runCmd d nf (.redo ts kg) w).1.status = 0 →
      ∀ t, ¬ FailedNow (w.runCounter + 1) (runCmd d nf (.redo ts kg) w).2 t) := by
  constructor
  · intro h t hf
    exact fresh_no_failed hwf t
      ((runTargets_nnf (engine d (2 * nf + 4)) (engine_nnf d _) d { runid := w.runCounter + 1, keepGoing := kg } rfl
        (2 * nf + 4) ts [] false { w with runCounter := w.runCounter + 1 } _ (Prod.ext h rfl)).1 t hf)
  · intro h t hf
    exact fresh_no_failed hwf t
      ((runTargets_nnf (engine d (2 * nf + 4)) (engine_nnf d _) d
        { runid := w.runCounter + 1, keepGoing := kg, isRedo := true } rfl
        (2 * nf + 4) ts [] false { w with runCounter := w.runCounter + 1 } _ (Prod.ext h rfl)).1 t hf)

end RedoModel.Deps
