import RedoModel.Lemmas.DepsSound39
import RedoModel.Lemmas.DepsSound0
/-! **C01 for plain histories of the full model**: the main theorems. -/
namespace RedoModel.Deps
open RedoModel.Generated

theorem findDoFile_fst (t : Nat) : ∀ (cs : List Nat) (w : World), (findDoFile t cs w).1 = firstEx w cs
  | [], w => rfl
  | c :: cs, w => by
    rw [findDoFile]
    simp only [firstEx]
    split
    · rfl
    · rw [findDoFile_fst t cs]
      exact firstEx_congr cs (fun x _ => congrFun (RowOp.addDep w t c false).fs x)

/-- Every .do candidate in place has a meaning (`progs` entry). -/
def Meaningful (w : World) : Prop :=
  ∀ t, ∀ dof ∈ w.rules t, ∀ nd, w.fs dof = some nd → w.progs nd.content ≠ none

theorem UpToDateD.toUpToDate {w : World} (hm : Meaningful w) (hpl : ∀ c sc, w.progs c = some sc → sc.Plain) {f : Nat}
    (h : UpToDateD w f) : UpToDate w f := by
  induction h with
  | source hs => exact UpToDate.source hs
  | user hg hex => exact UpToDate.user hg hex
  | @target t dof hfe _ hc ih =>
    obtain ⟨hdm, hdex⟩ := firstEx_mem _ _ hfe
    obtain ⟨n, hn⟩ := existsF_eq_true.1 hdex
    cases hp : w.progs n.content with
    | none => exact absurd hp (hm t dof hdm n hn)
    | some sc =>
      have hsc : scriptAt w dof = sc := by unfold scriptAt; rw [hn]; simp [hp]
      rw [hsc] at ih hc
      have hplain := hpl _ sc hp
      refine UpToDate.target (dof := dof) (sc := sc) (n := n) (by rw [findDoFile_fst]; exact hfe) hn hp ?_ hc
      intro c hcm d hd
      exact ih d (by rw [hplain.2.2.2.2.2]; exact List.mem_flatten.2 ⟨c, hcm, hd⟩)

/-- **Main theorem (corrected notion of up to date).**  `NoStalePlain` with `UpToDateD` (a .do content without a
`progs` entry means the default script, which is what `startSelf` runs) in place of `UpToDate`, under the one
extra hypothesis `OpsOk`: no `setProg` redefines the meaning of the content of a .do candidate that is in place. -/
theorem noStalePlainD (n : Nat) (rules : Nat → List Nat) (rank : Nat → Nat) (ops : List UserOp) (ts : List Nat)
    (kg forced : Bool) (hr : RulesOk rules) (hp : ∀ op ∈ ops, PlainOp rules op)
    (hrk : ∀ w ∈ worldsOf n {} (initWorld rules) ops, Ranked rank w) (hN : ∀ f, rank f < n)
    (hok : OpsOk n (initWorld rules) ops) :
    let w := ops.foldl (fun w op => (applyOp {} n op w).2) (initWorld rules)
    let r := runCmd {} n (if forced then .redo ts kg else .ifchange ts kg) w
    r.1.status = 0 → ∀ t ∈ ts, UpToDateD r.2 t := by
  intro w r
  have h0 : Btw rank (initWorld rules) := Btw_init hr (hrk _ (worldsOf_head n {} _ ops))
  obtain ⟨hb, _⟩ := history_btw hN ops (initWorld rules) h0 rfl hp hrk hok
  exact runCmd_sound {} hN hb ts kg forced

/-- **`NoStalePlain`, partial version.**  Two hypotheses are added to the statement of `DepsSoundSpec`, both
forced by counterexamples (`not_noStalePlain`, `cx2_notUpToDate`):
* `OpsOk`: a `setProg c s` never changes what a .do candidate currently in place means;
* `Meaningful` of the final world: every .do candidate in place has a `progs` entry. -/
theorem noStalePlain_partial (n : Nat) (rules : Nat → List Nat) (rank : Nat → Nat) (ops : List UserOp) (ts : List Nat)
    (kg forced : Bool) (hr : RulesOk rules) (hp : ∀ op ∈ ops, PlainOp rules op)
    (hrk : ∀ w ∈ worldsOf n {} (initWorld rules) ops, Ranked rank w) (hN : ∀ f, rank f < n)
    (hok : OpsOk n (initWorld rules) ops) :
    let w := ops.foldl (fun w op => (applyOp {} n op w).2) (initWorld rules)
    let r := runCmd {} n (if forced then .redo ts kg else .ifchange ts kg) w
    r.1.status = 0 → Meaningful r.2 → ∀ t ∈ ts, UpToDate r.2 t := by
  intro w r hz hm t ht
  have h0 : Btw rank (initWorld rules) := Btw_init hr (hrk _ (worldsOf_head n {} _ ops))
  obtain ⟨hb, _⟩ := history_btw hN ops (initWorld rules) h0 rfl hp hrk hok
  have hb' : Btw rank r.2 := (runCmd_btw {} hN hb _).1
  exact (noStalePlainD n rules rank ops ts kg forced hr hp hrk hN hok hz t ht).toUpToDate hm hb'.plainProgs

end RedoModel.Deps
