import RedoModel.Lemmas.DepsOwned2
/-!
# The ghost trace only grows; a generic frame for the dirtiness check

* `DirtyRel Rel` : a reflexive, transitive relation on worlds closed under the only two writes of
  `isDirty` (a record write, a `warnOverride` event) — then `Rel w (isDirty … w …).2.1`.
* `TraceExt w w'` : `w'.trace = pre ++ w.trace`; holds across every function of the engine.
* `RanIn t w w'` : the script of `t` was executed between `w` and `w'` (`.ran t` is in the new part).
-/
namespace RedoModel.Deps
open RedoModel.Generated

/-! ### Generic frame for `goDeps` / `isDirty` -/

structure DirtyRel (Rel : World → World → Prop) : Prop where
  refl : ∀ w, Rel w w
  trans : ∀ {a b c}, Rel a b → Rel b c → Rel a c
  setRec : ∀ w f r, Rel w (setRec w f r)
  evWarn : ∀ w t, Rel w (ev w (.warnOverride t))

theorem goDeps_rel {Rel : World → World → Prop} (hR : DirtyRel Rel)
    (chk : World → List Nat → Nat → Rec → DR × World × List Nat)
    (hchk : ∀ w c s r, Rel w (chk w c s r).2.1) (hasCsum : Bool) (f : Nat) :
    ∀ (ds : List (Dep × Rec)) (w : World) (cache must : List Nat),
      Rel w (goDeps chk hasCsum f ds w cache must).2.1
  | [], w, cache, must => by simp [goDeps, hR.refl]
  | (d, snap) :: ds, w, cache, must => by
    rw [goDeps]
    by_cases hm : d.modeM = true
    · simp only [hm, if_true]
      have h1 := hchk w cache d.source snap
      generalize chk w cache d.source snap = r at h1
      obtain ⟨sub, w1, c1⟩ := r
      cases sub with
      | cyclic => exact h1
      | clean => exact hR.trans h1 (goDeps_rel hR chk hchk hasCsum f ds w1 c1 must)
      | dirty => exact h1
      | need ts => exact hR.trans h1 (goDeps_rel hR chk hchk hasCsum f ds w1 c1 (must ++ ts))
    · simp only [hm, Bool.false_eq_true, if_false]
      split
      · rename_i heq
        split at heq <;> cases heq
        all_goals exact hR.refl w
      · rename_i heq
        split at heq <;> cases heq
        all_goals exact goDeps_rel hR chk hchk hasCsum f ds w cache must
      · rename_i heq
        split at heq <;> cases heq
        all_goals exact hR.refl w
      · rename_i heq
        split at heq <;> cases heq

theorem isDirty_rel {Rel : World → World → Prop} (hR : DirtyRel Rel) (ood : Bool) (R : Nat) :
    ∀ (fuel : Nat) (w : World) (cache : List Nat) (f mx : Nat) (seen : List Nat) (pre : Option Rec),
      Rel w (isDirty ood R fuel w cache f mx seen pre).2.1
  | 0, w, cache, f, mx, seen, pre => by simp [isDirty, hR.refl]
  | fuel + 1, w, cache, f, mx, seen, pre => by
    have hg : ∀ mx' hc ds, Rel w (goDeps
        (fun w cache s snap => isDirty ood R fuel w cache s mx' (f :: seen) (some snap)) hc f ds w cache []).2.1 :=
      fun mx' hc ds => goDeps_rel hR _ (fun w c s r => isDirty_rel hR ood R fuel w c s _ _ _) hc f ds w cache []
    simp (config := {zeta := true, zetaHave := true}) only [isDirty]
    repeat' split
    all_goals try (first | exact hR.refl w | exact hR.setRec w f _)
    all_goals
      first
        | (rename_i heq
           have e := congrArg (fun x => x.2.1) heq
           dsimp only at e ⊢
           first
            | (rw [← e]; exact hg _ _ _)
            | (refine hR.trans ?_ (hR.setRec _ f _); rw [← e]; exact hg _ _ _))
        | (rename_i heq hcond
           have e := congrArg (fun x => x.2.1) heq
           dsimp only at e ⊢
           first
            | (rw [← e]; exact hg _ _ _)
            | (refine hR.trans ?_ (hR.setRec _ f _); rw [← e]; exact hg _ _ _)
            | (refine hR.trans ?_ (hR.evWarn _ _); rw [← e]; exact hg _ _ _)
            | (refine hR.trans (hR.trans ?_ (hR.evWarn _ _)) (hR.setRec _ f _)
               rw [← e]; exact hg _ _ _))

theorem shouldBuild_rel {Rel : World → World → Prop} (hR : DirtyRel Rel) (cx : Ctx) (fuel t : Nat) (w : World) :
    Rel w (shouldBuild cx fuel t w).2 := by
  unfold shouldBuild
  split
  · exact hR.refl w
  · dsimp only
    split
    · exact hR.refl w
    · have h := isDirty_rel hR false cx.runid fuel w [] t cx.runid [] none
      generalize isDirty false cx.runid fuel w [] t cx.runid [] none = r at h
      obtain ⟨dr, w1, c⟩ := r
      exact h

/-! ### The trace only grows -/

def TraceExt (w w' : World) : Prop := ∃ pre, w'.trace = pre ++ w.trace

theorem TraceExt.refl (w : World) : TraceExt w w := ⟨[], rfl⟩

theorem TraceExt.of_eq {w w' : World} (h : w'.trace = w.trace) : TraceExt w w' := ⟨[], h⟩

theorem TraceExt.trans {a b c : World} (h1 : TraceExt a b) (h2 : TraceExt b c) : TraceExt a c := by
  obtain ⟨p1, e1⟩ := h1
  obtain ⟨p2, e2⟩ := h2
  exact ⟨p2 ++ p1, by rw [e2, e1, List.append_assoc]⟩

theorem TraceExt.ev (w : World) (e : Ev) : TraceExt w (ev w e) := ⟨[e], rfl⟩

theorem TraceExt.dirtyRel : DirtyRel TraceExt :=
  ⟨TraceExt.refl, TraceExt.trans, fun _ _ _ => TraceExt.of_eq rfl, fun w _ => TraceExt.ev w _⟩

theorem TraceExt.addKnown (w : World) (f : Nat) : TraceExt w (addKnown w f) := by
  unfold Deps.addKnown
  split <;> exact TraceExt.of_eq rfl

theorem addKnown_trace (w : World) (f : Nat) : (addKnown w f).trace = w.trace := by
  unfold addKnown
  split <;> rfl

theorem addDep_trace (w : World) (t s : Nat) (m : Bool) : (addDep w t s m).trace = w.trace :=
  addKnown_trace w s

theorem TraceExt.addDep (w : World) (t s : Nat) (m : Bool) : TraceExt w (addDep w t s m) :=
  TraceExt.of_eq (addDep_trace w t s m)

theorem TraceExt.foldl_addDep (p : Nat) (m : Bool) : ∀ (ts : List Nat) (w : World),
    TraceExt w (ts.foldl (fun w t => Deps.addDep w p t m) w)
  | [], w => TraceExt.refl w
  | t :: ts, w => by
    rw [List.foldl_cons]
    exact (TraceExt.addDep w p t m).trans (TraceExt.foldl_addDep p m ts _)

theorem findDoFile_traceExt (t : Nat) : ∀ (cs : List Nat) (w : World), TraceExt w (findDoFile t cs w).2
  | [], w => by rw [findDoFile]; exact TraceExt.refl w
  | c :: cs, w => by
    rw [findDoFile]
    split
    · exact TraceExt.addDep w t c true
    · exact (TraceExt.addDep w t c false).trans (findDoFile_traceExt t cs _)

/-- What a nested `redo-ifchange` must satisfy. -/
def EngineExt (E : Engine) : Prop := ∀ cx ts w, TraceExt w (E.ifchangeCmd cx ts w).2

theorem conds_traceExt (E : Engine) (hE : EngineExt E) (t : Nat) (cx' : Ctx) :
    ∀ (fs : List Nat) (w : World), TraceExt w (runScript.conds E t cx' fs w).2
  | [], w => by rw [runScript.conds]; exact TraceExt.refl w
  | f :: fs, w => by
    rw [runScript.conds]
    split
    · have h := hE cx' [f] w
      generalize E.ifchangeCmd cx' [f] w = r at h
      obtain ⟨rv, w1⟩ := r
      split
      · rename_i heq
        cases heq
        exact h.trans (conds_traceExt E hE t cx' fs _)
      · rename_i heq
        cases heq
        exact h
    · exact (TraceExt.addDep w t f false).trans (conds_traceExt E hE t cx' fs _)

theorem cmds_traceExt (E : Engine) (hE : EngineExt E) (cx : Ctx) (t : Nat) (cx' : Ctx) :
    ∀ (cs : List (List Nat)) (k : Nat) (w : World), TraceExt w (runScript.cmds E cx t cx' cs k w).2
  | [], k, w => by rw [runScript.cmds]; exact TraceExt.refl w
  | c :: cs, k, w => by
    rw [runScript.cmds]
    split
    · exact TraceExt.refl w
    · have h := hE cx' c w
      generalize E.ifchangeCmd cx' c w = r at h
      obtain ⟨rv, w1⟩ := r
      split
      · rename_i heq
        cases heq
        exact h.trans (cmds_traceExt E hE cx t cx' cs _ _)
      · rename_i heq
        cases heq
        exact h

theorem rsAlways_traceExt (cx : Ctx) (t : Nat) (sc : Script) (w : World) : TraceExt w (rsAlways cx t sc w) := by
  unfold rsAlways
  split
  · exact TraceExt.of_eq (addDep_trace w t alwaysId true)
  · exact TraceExt.refl w

theorem rsFinish_traceExt (cx : Ctx) (t : Nat) (sc : Script) (w : World) :
    TraceExt w (rsFinish cx t sc w).2.2 := by
  rw [rsFinish_world]
  split
  · exact TraceExt.refl w
  · unfold rsStampW
    dsimp only
    split
    · exact TraceExt.refl w
    · exact TraceExt.of_eq (addKnown_trace w t)

theorem rsBody_traceExt (E : Engine) (hE : EngineExt E) (cx : Ctx) (t : Nat) (sc : Script) (w : World) :
    TraceExt w (rsBody E cx t sc w).2.2 := by
  unfold rsBody
  dsimp only
  have h1 := conds_traceExt E hE t
    { runid := cx.runid, parent := some t, cycles := t :: cx.cycles, keepGoing := cx.keepGoing, crash := cx.crash } sc.cond w
  generalize runScript.conds E t _ sc.cond w = r1 at h1
  obtain ⟨rvc, w1⟩ := r1
  dsimp only at h1 ⊢
  split
  · exact h1
  · have h2 := cmds_traceExt E hE cx t
      { runid := cx.runid, parent := some t, cycles := t :: cx.cycles, keepGoing := cx.keepGoing, crash := cx.crash }
      sc.ifchange 0 w1
    generalize runScript.cmds E cx t _ sc.ifchange 0 w1 = r2 at h2
    obtain ⟨rv, w2⟩ := r2
    dsimp only at h2 ⊢
    split
    · exact h1.trans h2
    · exact (h1.trans h2).trans (rsFinish_traceExt cx t sc w2)

theorem runScript_traceExt (E : Engine) (hE : EngineExt E) (d : Defects) (cx : Ctx) (t : Nat) (sc : Script) (w : World) :
    TraceExt w (runScript E d cx t sc w).2.2 := by
  rw [runScript_eq]
  split
  · exact rsAlways_traceExt cx t sc w
  · exact ((rsAlways_traceExt cx t sc w).trans (TraceExt.foldl_addDep t false _ _)).trans
      (rsBody_traceExt E hE cx t sc _)

theorem recordNewState_trace (cx : Ctx) (t : Nat) (sf : Rec) (rv : Status) (out : Option Content) (w : World) :
    (recordNewState cx t sf rv out w).2.trace = w.trace := by
  unfold recordNewState
  split
  · cases out <;> rfl
  · rfl

theorem ssGuard_traceExt (cx : Ctx) (t : Nat) (sf : Rec) (w : World) : TraceExt w (ssGuard cx t sf w).2 := by
  unfold ssGuard
  split
  · exact TraceExt.ev w _
  · exact TraceExt.refl w

/-- The tail of `start_self` once the .do file is chosen: run the script, record the result. -/
theorem ssRun_traceExt (E : Engine) (hE : EngineExt E) (d : Defects) (cx : Ctx) (t : Nat) (sf : Rec) (sc : Script)
    (w3 : World) :
    TraceExt w3 (match runScript E d cx t sc w3 with
      | (rv, out, w) => if rv = CRASHED then (CRASHED, w) else recordNewState cx t sf rv out w).2 := by
  have h4 := runScript_traceExt E hE d cx t sc w3
  generalize runScript E d cx t sc w3 = r4 at h4
  obtain ⟨rv, out, w4⟩ := r4
  dsimp only at h4 ⊢
  split
  · exact h4
  · exact h4.trans (TraceExt.of_eq (recordNewState_trace cx t sf rv out w4))

theorem ssBuild_traceExt (E : Engine) (hE : EngineExt E) (d : Defects) (cx : Ctx) (t : Nat) (sf : Rec) (w : World) :
    TraceExt w (ssBuild E d cx t sf w).2 := by
  unfold ssBuild
  dsimp only
  have h1 : TraceExt w (findDoFile t ((zapDeps1 w t).rules t) (zapDeps1 w t)).2 :=
    (TraceExt.of_eq (w := w) (w' := zapDeps1 w t) rfl).trans (findDoFile_traceExt t _ _)
  generalize findDoFile t ((zapDeps1 w t).rules t) (zapDeps1 w t) = r at h1
  obtain ⟨o, w1⟩ := r
  dsimp only at h1
  cases o with
  | none =>
    dsimp only
    split <;> exact h1
  | some dof =>
    exact (h1.trans (TraceExt.ev (setRec w1 dof (setStatic w1 dof (w1.recs dof) cx.runid)) (.ran t))).trans
      (ssRun_traceExt E hE d cx t sf _ _)

theorem startSelf_traceExt (E : Engine) (hE : EngineExt E) (d : Defects) (cx : Ctx) (t : Nat) (sf0 : Rec) (w : World) :
    TraceExt w (startSelf E d cx t sf0 w).2 := by
  rw [startSelf_eq]
  have hk := ssGuard_traceExt cx t sf0 w
  generalize ssGuard cx t sf0 w = g at hk
  obtain ⟨sf, w1⟩ := g
  dsimp only at hk ⊢
  split
  · exact hk
  · exact hk.trans (ssBuild_traceExt E hE d cx t sf w1)

theorem buildJob_traceExt (E : Engine) (hE : EngineExt E) (d : Defects) (cx : Ctx) (fuel t : Nat) (w : World) :
    TraceExt w (buildJob E d cx fuel t w).2 := by
  unfold buildJob
  dsimp only
  have hs := shouldBuild_rel TraceExt.dirtyRel cx fuel t w
  generalize shouldBuild cx fuel t w = sb at hs
  obtain ⟨o, w1⟩ := sb
  dsimp only at hs
  have hst := startSelf_traceExt E hE d cx t (w.recs t) w1
  cases o with
  | none => exact hs
  | some dr =>
    cases dr with
    | cyclic => exact hs
    | clean => exact hs
    | dirty => exact hs.trans hst
    | need ts =>
      dsimp only
      split
      · exact hs.trans hst
      · have h1 := hE { cx with noOob := true, unlocked := false, isRedo := false, cycles := t :: cx.cycles,
                                parent := if d.oobRecordsDepsOnCaller then cx.parent else none }
          (if w1.oobRev then ts.eraseDups.reverse else ts.eraseDups) w1
        generalize E.ifchangeCmd _ (if w1.oobRev then ts.eraseDups.reverse else ts.eraseDups) w1 = r1 at h1
        obtain ⟨rv1, w2⟩ := r1
        dsimp only at h1
        split
        · rename_i heq
          cases heq
          have h2 := hE { cx with noOob := true, unlocked := true, isRedo := false }
            (if d.oobRebuildsDepsNotTarget then (if w1.oobRev then ts.eraseDups.reverse else ts.eraseDups) else [t]) w2
          exact (hs.trans h1).trans h2
        · rename_i heq
          cases heq
          exact hs.trans h1

theorem runTargets_traceExt (E : Engine) (hE : EngineExt E) (d : Defects) (cx : Ctx) (fuel : Nat) :
    ∀ (ts seen : List Nat) (errored : Bool) (w : World), TraceExt w (runTargets E d cx fuel ts seen errored w).2
  | [], _, _, w => by rw [runTargets]; exact TraceExt.refl w
  | t :: ts, seen, errored, w => by
    rw [runTargets]
    split
    · exact runTargets_traceExt E hE d cx fuel ts seen errored w
    · split
      · exact TraceExt.refl w
      · dsimp only
        have ha := TraceExt.addKnown w t
        split
        · exact ha
        · have hb := buildJob_traceExt E hE d cx fuel t (addKnown w t)
          generalize buildJob E d cx fuel t (addKnown w t) = r at hb
          obtain ⟨jr, w1⟩ := r
          cases jr with
          | abort code => exact ha.trans hb
          | done rv =>
            dsimp only
            split
            · exact ha.trans hb
            · exact (ha.trans hb).trans (runTargets_traceExt E hE d cx fuel ts _ _ w1)

theorem ifchangeWith_traceExt (E : Engine) (hE : EngineExt E) (d : Defects) (fuel : Nat) (cx : Ctx) (ts : List Nat)
    (w : World) : TraceExt w (ifchangeWith E d fuel cx ts w).2 := by
  unfold ifchangeWith
  cases hp : cx.parent with
  | none =>
    simp only [Bool.false_eq_true, if_false]
    exact runTargets_traceExt E hE d cx fuel ts [] false w
  | some p =>
    dsimp only
    split
    · exact TraceExt.refl w
    · refine TraceExt.trans ?_ (runTargets_traceExt E hE d cx fuel ts [] false _)
      split
      · exact TraceExt.refl w
      · exact (TraceExt.addKnown w _).trans (TraceExt.foldl_addDep _ true ts _)

/-- Every nested `redo-ifchange` of the real engine only prepends to the trace. -/
theorem engine_traceExt (d : Defects) : ∀ n, EngineExt (engine d n)
  | 0 => fun _ _ w => TraceExt.refl w
  | n + 1 => fun cx ts w => ifchangeWith_traceExt (engine d n) (engine_traceExt d n) d (n + 1) cx ts w

/-! ### "the script of `t` ran between `w` and `w'`" -/

def RanIn (t : Nat) (w w' : World) : Prop := ∃ pre, w'.trace = pre ++ w.trace ∧ Ev.ran t ∈ pre

theorem RanIn.mem {t : Nat} {w w' : World} (h : RanIn t w w') : Ev.ran t ∈ w'.trace := by
  obtain ⟨pre, e, hm⟩ := h
  rw [e]
  exact List.mem_append_left _ hm

theorem RanIn.ext {t : Nat} {w w' : World} (h : RanIn t w w') : TraceExt w w' := by
  obtain ⟨pre, e, _⟩ := h
  exact ⟨pre, e⟩

theorem RanIn.ev (t : Nat) (w : World) : RanIn t w (ev w (.ran t)) := ⟨[.ran t], rfl, List.mem_singleton.2 rfl⟩

theorem RanIn.after {t : Nat} {a b c : World} (h1 : TraceExt a b) (h2 : RanIn t b c) : RanIn t a c := by
  obtain ⟨p1, e1⟩ := h1
  obtain ⟨p2, e2, hm⟩ := h2
  exact ⟨p2 ++ p1, by rw [e2, e1, List.append_assoc], List.mem_append_left _ hm⟩

theorem RanIn.before {t : Nat} {a b c : World} (h1 : RanIn t a b) (h2 : TraceExt b c) : RanIn t a c := by
  obtain ⟨p1, e1, hm⟩ := h1
  obtain ⟨p2, e2⟩ := h2
  exact ⟨p2 ++ p1, by rw [e2, e1, List.append_assoc], List.mem_append_right _ hm⟩

end RedoModel.Deps
