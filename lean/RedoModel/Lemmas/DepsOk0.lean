import RedoModel.Lemmas.DepsSoundR42
import RedoModel.Lemmas.DepsTrace
/-!
# C09 / C10 / C05 — the success direction: definitions

* `Buildable w f` : a from-scratch build of `f` would succeed (in the style of `UpToDateR`, about success
  instead of content).
* `FrU w w'` : the unconditional frame of the engine on files: a file changes only when one of its .do
  candidates exists, and then its new content is not one on which `failIfOdd` fires.
* `Buildable` is transported along `FrU` + `KeepsUser`.
-/
namespace RedoModel.Deps.Rich

/-- "A from-scratch build of this file would succeed".  A file without an existing .do candidate must exist
(a source); a file redo does not own (not generated), an overridden one, or a generated one edited by hand
(its stamp differs from the recorded one) must exist and then stands for itself; a target's chosen script
must exit 0 on buildable inputs: every declared dependency is buildable, every conditional file that exists
is buildable, no `redo-ifcreate` object exists, and the content-dependent failure does not fire on the
present contents (a target's output `outContent …` never makes it fire). -/
inductive Buildable (w : World) : Nat → Prop
  | source {f} : (∀ c ∈ w.rules f, existsF w c = false) → existsF w f = true → Buildable w f
  | user {f} : (w.recs f).isGenerated = false → existsF w f = true → Buildable w f
  | override {f} : (w.recs f).isOverride = true → existsF w f = true → Buildable w f
  | edited {f} : existsF w f = true →
      detectOverride ((w.recs f).stamp.getD .missing) (readStamp w f) = true → Buildable w f
  | target {t dof} : firstEx w (w.rules t) = some dof →
      (∀ d ∈ (scriptAt w dof).ifchange.flatten, Buildable w d) →
      (∀ d ∈ (scriptAt w dof).cond, existsF w d = true → Buildable w d) →
      (∀ d ∈ (scriptAt w dof).ifcreate, existsF w d = false) →
      (scriptAt w dof).exit = 0 → failNowOf w (scriptAt w dof) = false → Buildable w t

theorem Buildable.owned {w : World} {f : Nat} (h : UserOwned w f) : Buildable w f := by
  obtain ⟨hex, h1 | h1 | h1⟩ := h
  · exact .user h1 hex
  · exact .override h1 hex
  · exact .edited hex h1

/-- The three ways a buildable file is handled by `start_self`. -/
theorem Buildable.cases {w : World} {f : Nat} (h : Buildable w f) :
    UserOwned w f ∨ ((∀ c ∈ w.rules f, existsF w c = false) ∧ existsF w f = true) ∨
    ∃ dof, firstEx w (w.rules f) = some dof ∧
      (∀ d ∈ (scriptAt w dof).ifchange.flatten, Buildable w d) ∧
      (∀ d ∈ (scriptAt w dof).cond, existsF w d = true → Buildable w d) ∧
      (∀ d ∈ (scriptAt w dof).ifcreate, existsF w d = false) ∧
      (scriptAt w dof).exit = 0 ∧ failNowOf w (scriptAt w dof) = false := by
  cases h with
  | source h1 h2 => exact Or.inr (Or.inl ⟨h1, h2⟩)
  | user h1 h2 => exact Or.inl ⟨h2, Or.inl h1⟩
  | override h1 h2 => exact Or.inl ⟨h2, Or.inr (Or.inl h1)⟩
  | edited h1 h2 => exact Or.inl ⟨h1, Or.inr (Or.inr h2)⟩
  | target h1 h2 h3 h4 h5 h6 => exact Or.inr (Or.inr ⟨_, h1, h2, h3, h4, h5, h6⟩)

/-- The frame of the engine on files (under `RulesOk`): rules and meanings of .do contents stay; a file changes
only if one of its .do candidates exists, and its new content is not an odd source version. -/
def FrU (w w' : World) : Prop :=
  RulesOk w.rules → w'.rules = w.rules ∧ w'.progs = w.progs ∧
    ∀ x, w'.fs x = w.fs x ∨ (oddC (contentOf w' x) = false ∧ ∃ c ∈ w.rules x, existsF w c = true)

theorem FrU.refl (w : World) : FrU w w := fun _ => ⟨rfl, rfl, fun _ => Or.inl rfl⟩

theorem FrU.of_fs {w w' : World} (h1 : w'.fs = w.fs) (h2 : w'.rules = w.rules) (h3 : w'.progs = w.progs) : FrU w w' :=
  fun _ => ⟨h2, h3, fun x => Or.inl (congrFun h1 x)⟩

theorem FrU.plain {w w' : World} (h : FrU w w') (hr : RulesOk w.rules) {x : Nat} (hx : w.rules x = []) :
    w'.fs x = w.fs x := by
  rcases (h hr).2.2 x with e | ⟨_, c, hc, _⟩
  · exact e
  · rw [hx] at hc; cases hc

theorem FrU.trans {a b c : World} (h1 : FrU a b) (h2 : FrU b c) : FrU a c := by
  intro hr
  obtain ⟨r1, p1, f1⟩ := h1 hr
  have hrb : RulesOk b.rules := by rw [r1]; exact hr
  obtain ⟨r2, p2, f2⟩ := h2 hrb
  refine ⟨r2.trans r1, p2.trans p1, fun x => ?_⟩
  rcases f2 x with e2 | ⟨o2, cc, hc, hex⟩
  · rcases f1 x with e1 | ⟨o1, h⟩
    · exact Or.inl (e2.trans e1)
    · exact Or.inr ⟨by rw [contentOf_congr e2]; exact o1, h⟩
  · refine Or.inr ⟨o2, cc, by rw [← r1]; exact hc, ?_⟩
    rw [r1] at hc
    rw [← existsF_congr (h1.plain hr (hr.2 x cc hc).1)]; exact hex

theorem SameButRecs.frU {w w' : World} (h : SameButRecs w w') : FrU w w' :=
  FrU.of_fs h.1 h.2.2.2.2.2.2 h.2.2.2.2.2.1

/-- `Buildable` is kept by every step that satisfies the two unconditional frames of the engine (generic form:
what a script watches with `redo-ifcreate` / conditionally has no rule). -/
theorem Buildable.transport' {w w' : World} (hr : RulesOk w.rules)
    (hyg : ∀ t dof, dof ∈ w.rules t → ∀ d, (d ∈ (scriptAt w dof).cond ∨ d ∈ (scriptAt w dof).ifcreate) → w.rules d = [])
    (hf : FrU w w') (hk : KeepsUser w w') {x : Nat} (h : Buildable w x) : Buildable w' x := by
  obtain ⟨hru, hpr, hfs⟩ := hf hr
  have hpl : ∀ x, w.rules x = [] → w'.fs x = w.fs x := fun x hx => hf.plain hr hx
  induction h with
  | @source f h1 h2 =>
    refine .source (fun c hc => ?_) ?_
    · rw [hru] at hc
      rw [existsF_congr (hpl c (hr.2 f c hc).1)]; exact h1 c hc
    · rcases hfs f with e | ⟨_, c, hc, hex⟩
      · rw [existsF_congr e]; exact h2
      · rw [h1 c hc] at hex; cases hex
  | user h1 h2 => exact .owned (hk _ ⟨h2, Or.inl h1⟩).2
  | override h1 h2 => exact .owned (hk _ ⟨h2, Or.inr (Or.inl h1)⟩).2
  | edited h1 h2 => exact .owned (hk _ ⟨h1, Or.inr (Or.inr h2)⟩).2
  | @target t dof h1 _ _ h4 h5 h6 ih2 ih3 =>
    obtain ⟨hdm, _⟩ := firstEx_mem _ _ h1
    have hdp : w.rules dof = [] := (hr.2 t dof hdm).1
    have hsc : scriptAt w' dof = scriptAt w dof := scriptAt_congr (hpl dof hdp) hpr
    have hyg3 := hyg t dof hdm
    have hfe : firstEx w' (w'.rules t) = some dof := by
      rw [hru, firstEx_congr _ (fun c hc => hpl c (hr.2 t c hc).1)]; exact h1
    refine .target hfe ?_ ?_ ?_ ?_ ?_
    · rw [hsc]; exact ih2
    · rw [hsc]; intro d hd hex
      exact ih3 d hd (by rw [← existsF_congr (hpl d (hyg3 d (Or.inl hd)))]; exact hex)
    · rw [hsc]; intro d hd
      rw [existsF_congr (hpl d (hyg3 d (Or.inr hd)))]; exact h4 d hd
    · rw [hsc]; exact h5
    · rw [hsc]
      unfold failNowOf at h6 ⊢
      cases hfo : (scriptAt w dof).failIfOdd with
      | none => rfl
      | some f =>
        rw [hfo] at h6
        simp only at h6 ⊢
        rcases hfs f with e | ⟨o, _⟩
        · rw [contentOf_congr e]; exact h6
        · exact o

theorem Buildable.transport {rank R} {X : Nat → Prop} {w w' : World} (hb : Base rank R X w) (hf : FrU w w')
    (hk : KeepsUser w w') {x : Nat} (h : Buildable w x) : Buildable w' x :=
  h.transport' hb.rulesOk (fun _ _ hdm => (scriptAt_hyg hb hdm).2.2) hf hk

end RedoModel.Deps.Rich
