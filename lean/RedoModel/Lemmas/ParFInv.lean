import RedoModel.ParF
/-!
Invariants of the acceptor with failures `RedoModel.ParF`: every accepted run, whatever its event order,
keeps `InvB` (at most one start per target; a running script has all the files of its completed commands
built; a failed or aborting target cannot be built) and, under a hypothesis on the clean targets, `Inv`
(a built target can be built and holds the from-scratch content).
-/
namespace RedoModel.ParF

theorem upd_same {α : Type} (f : Nat → α) (t : Nat) (v : α) : upd f t v t = v := by simp [upd]

theorem upd_other {α : Type} (f : Nat → α) (t x : Nat) (v : α) (h : x ≠ t) : upd f t v x = f x := by
  simp [upd, h]

theorem run_nil (g : Graph) (s : State) : run g s [] = some s := rfl

theorem run_cons (g : Graph) (s : State) (e : Ev) (es : List Ev) :
    run g s (e :: es) = (step g s e).bind (fun s' => run g s' es) := by
  simp only [run]; cases step g s e <;> rfl

theorem run_append (g : Graph) (s : State) (es₁ es₂ : List Ev) :
    run g s (es₁ ++ es₂) = (run g s es₁).bind (fun s' => run g s' es₂) := by
  induction es₁ generalizing s with
  | nil => rfl
  | cons e es ih =>
    simp only [List.cons_append, run_cons]
    cases step g s e with
    | none => rfl
    | some s' => simpa using ih s'

/-! ### The events, unfolded -/

theorem step_start {g : Graph} {s s' : State} {t : Nat} {b : Option Nat}
    (h : step g s (.start t b) = some s') :
    (∃ sc, g.script t = some sc) ∧ s.st t = .idle ∧
    (∀ p, b = some p → askedBy g s t p = true) ∧
    s' = { s with st := upd s.st t (.running 0), starts := t :: s.starts } := by
  simp only [step] at h
  split at h
  · cases h
  · rename_i sc hsc
    by_cases hidle : s.st t = .idle
    · simp only [hidle, ne_eq, not_true_eq_false, if_false] at h
      cases b with
      | none =>
        simp only [if_true, Option.some.injEq] at h
        exact ⟨⟨sc, hsc⟩, hidle, (fun p hp => by cases hp), h.symm⟩
      | some p =>
        by_cases ha : askedBy g s t p = true
        · simp only [ha, if_true, Option.some.injEq] at h
          exact ⟨⟨sc, hsc⟩, hidle, (fun q hq => by cases hq; exact ha), h.symm⟩
        · simp [ha] at h
    · simp [hidle] at h

theorem step_clean {g : Graph} {s s' : State} {t : Nat} (h : step g s (.clean t) = some s') :
    (∃ sc, g.script t = some sc) ∧ s.st t = .idle ∧ s' = { s with st := upd s.st t .done } := by
  simp only [step] at h
  split at h
  · cases h
  · rename_i sc hsc
    split at h
    · cases h
    · rename_i hidle
      cases h
      exact ⟨⟨sc, hsc⟩, by simpa using hidle, rfl⟩

theorem step_ret_ok {g : Graph} {s s' : State} {t : Nat} (h : step g s (.ret t true) = some s') :
    ∃ sc k ds, g.script t = some sc ∧ s.st t = .running k ∧ sc.cmds[k]? = some ds ∧
      (∀ d ∈ ds, okSettled g s d = true) ∧ s' = { s with st := upd s.st t (.running (k + 1)) } := by
  simp only [step] at h
  split at h
  · rename_i sc k hsc hst
    split at h
    · rename_i ds hds
      simp only [if_true] at h
      split at h
      · rename_i hall
        cases h
        exact ⟨sc, k, ds, hsc, hst, hds, by simpa using hall, rfl⟩
      · cases h
    · cases h
  · cases h

theorem step_ret_bad {g : Graph} {s s' : State} {t : Nat} (h : step g s (.ret t false) = some s') :
    ∃ sc k ds, g.script t = some sc ∧ s.st t = .running k ∧ sc.cmds[k]? = some ds ∧
      mayReturnBad g s ds = true ∧ s' = { s with st := upd s.st t .aborting } := by
  simp only [step] at h
  split at h
  · rename_i sc k hsc hst
    split at h
    · rename_i ds hds
      simp only [Bool.false_eq_true, if_false] at h
      split at h
      · rename_i hall
        cases h
        exact ⟨sc, k, ds, hsc, hst, hds, hall, rfl⟩
      · cases h
    · cases h
  · cases h

theorem step_finish {g : Graph} {s s' : State} {t : Nat} (h : step g s (.finish t) = some s') :
    ∃ sc, g.script t = some sc ∧ s.st t = .running sc.cmds.length ∧ sc.fails = false ∧
      s' = { s with st := upd s.st t .done,
                    content := upd s.content t (out sc.tag (sc.reads.map (val g s))) } := by
  simp only [step] at h
  split at h
  · rename_i sc k hsc hst
    split at h
    · rename_i hk
      cases h
      obtain ⟨hk, hf⟩ := hk
      subst hk
      exact ⟨sc, hsc, hst, hf, rfl⟩
    · cases h
  · cases h

theorem step_fail {g : Graph} {s s' : State} {t : Nat} (h : step g s (.fail t) = some s') :
    ∃ sc, g.script t = some sc ∧
      ((s.st t = .running sc.cmds.length ∧ sc.fails = true) ∨ s.st t = .aborting) ∧
      s' = { s with st := upd s.st t .failed } := by
  simp only [step] at h
  split at h
  · rename_i sc k hsc hst
    split at h
    · rename_i hk
      cases h
      obtain ⟨hk, hf⟩ := hk
      subst hk
      exact ⟨sc, hsc, Or.inl ⟨hst, hf⟩, rfl⟩
    · cases h
  · rename_i sc hsc hst
    cases h
    exact ⟨sc, hsc, Or.inr hst, rfl⟩
  · cases h

/-- Returning non-zero needs a failed target among those named. -/
theorem mayReturnBad_failed {g : Graph} {s : State} {ds : List Nat} (h : mayReturnBad g s ds = true) :
    ∃ d ∈ ds, s.st d = .failed := by
  simp only [mayReturnBad, Bool.and_eq_true, List.any_eq_true, isFailed, beq_iff_eq] at h
  exact h.1

/-! ### Answers only get more definite -/

theorem okSettled_mono {g : Graph} {s s' : State} (h : ∀ x, s.st x = .done → s'.st x = .done) {f : Nat}
    (hf : okSettled g s f = true) : okSettled g s' f = true := by
  unfold okSettled at *
  split
  · rfl
  · rename_i sc hsc
    simp only [hsc, beq_iff_eq] at hf
    simp [h f hf]

theorem okSettled_src {g : Graph} {s : State} {f : Nat} (h : g.script f = none) : okSettled g s f = true := by
  simp [okSettled, h]

theorem okSettled_tgt {g : Graph} {s : State} {f : Nat} {sc : Script} (h : g.script f = some sc) :
    okSettled g s f = true ↔ s.st f = .done := by
  simp [okSettled, h]

theorem Bad.hasScript {g : Graph} {t : Nat} (h : Bad g t) : ∃ sc, g.script t = some sc := by
  cases h with
  | self hsc _ => exact ⟨_, hsc⟩
  | dep hsc _ _ => exact ⟨_, hsc⟩

/-! ### The content-free invariant -/

structure InvB (g : Graph) (s : State) : Prop where
  /-- no script was started twice -/
  nodup : s.starts.Nodup
  /-- a started target is no longer idle -/
  started : ∀ t ∈ s.starts, s.st t ≠ .idle
  /-- a running script is inside its command list, and every file named by a command that has
  returned (zero) is a source or built -/
  before : ∀ t sc k, g.script t = some sc → s.st t = .running k →
    k ≤ sc.cmds.length ∧ ∀ j, j < k → ∀ ds, sc.cmds[j]? = some ds → ∀ f ∈ ds, okSettled g s f = true
  /-- only what cannot be built is recorded as failed -/
  failedBad : ∀ t, s.st t = .failed → Bad g t
  /-- or is about to be -/
  abortBad : ∀ t, s.st t = .aborting → Bad g t

/-- One event changes the status of one target `t` to `v`; what has to be checked about `v`. -/
theorem InvB.update {g : Graph} {s s' : State} {t : Nat} {v : St} (hi : InvB g s)
    (hst : s'.st = upd s.st t v) (hv : v ≠ .idle) (hnd : s.st t ≠ .done)
    (hstarts : s'.starts = s.starts ∨ (s'.starts = t :: s.starts ∧ s.st t = .idle))
    (hrun : ∀ sc k, g.script t = some sc → v = .running k →
      k ≤ sc.cmds.length ∧ ∀ j, j < k → ∀ ds, sc.cmds[j]? = some ds → ∀ f ∈ ds, okSettled g s f = true)
    (hfail : v = .failed → Bad g t) (habort : v = .aborting → Bad g t) : InvB g s' := by
  have hmono : ∀ x, s.st x = .done → s'.st x = .done := by
    intro x hx
    have : x ≠ t := by rintro rfl; exact hnd hx
    rw [hst, upd_other _ _ _ _ this]; exact hx
  have hother : ∀ x, x ≠ t → s'.st x = s.st x := fun x hx => by rw [hst, upd_other _ _ _ _ hx]
  have hself : s'.st t = v := by rw [hst, upd_same]
  refine ⟨?_, ?_, ?_, ?_, ?_⟩
  · rcases hstarts with h | ⟨h, hidle⟩
    · rw [h]; exact hi.nodup
    · rw [h]; exact List.nodup_cons.2 ⟨fun hm => hi.started t hm hidle, hi.nodup⟩
  · intro x hx
    by_cases hxt : x = t
    · subst hxt; rw [hself]; exact hv
    · rw [hother x hxt]
      rcases hstarts with h | ⟨h, _⟩
      · rw [h] at hx; exact hi.started x hx
      · rw [h] at hx
        rcases List.mem_cons.1 hx with rfl | hx
        · exact absurd rfl hxt
        · exact hi.started x hx
  · intro x scx k hscx hx
    have : k ≤ scx.cmds.length ∧ ∀ j, j < k → ∀ ds, scx.cmds[j]? = some ds → ∀ f ∈ ds,
        okSettled g s f = true := by
      by_cases hxt : x = t
      · subst hxt; rw [hself] at hx; exact hrun scx k hscx hx
      · rw [hother x hxt] at hx; exact hi.before x scx k hscx hx
    exact ⟨this.1, fun j hj ds hds f hf => okSettled_mono hmono (this.2 j hj ds hds f hf)⟩
  · intro x hx
    by_cases hxt : x = t
    · subst hxt; rw [hself] at hx; exact hfail hx
    · rw [hother x hxt] at hx; exact hi.failedBad x hx
  · intro x hx
    by_cases hxt : x = t
    · subst hxt; rw [hself] at hx; exact habort hx
    · rw [hother x hxt] at hx; exact hi.abortBad x hx

theorem step_invB {g : Graph} {s s' : State} {e : Ev} (hi : InvB g s) (h : step g s e = some s') :
    InvB g s' := by
  cases e with
  | start t b =>
    obtain ⟨_, hidle, _, rfl⟩ := step_start h
    refine hi.update (t := t) (v := .running 0) rfl (by intro hh; cases hh) (by rw [hidle]; intro hh; cases hh)
      (Or.inr ⟨rfl, hidle⟩) ?_ (by intro hh; cases hh) (by intro hh; cases hh)
    intro sc k _ hk
    cases hk
    exact ⟨Nat.zero_le _, fun j hj => absurd hj (Nat.not_lt_zero _)⟩
  | clean t =>
    obtain ⟨_, hidle, rfl⟩ := step_clean h
    exact hi.update (t := t) (v := .done) rfl (by intro hh; cases hh) (by rw [hidle]; intro hh; cases hh)
      (Or.inl rfl) (by intro _ _ _ hh; cases hh) (by intro hh; cases hh) (by intro hh; cases hh)
  | ret t ok =>
    cases ok with
    | true =>
      obtain ⟨sc, k, ds, hsc, hst, hds, hall, rfl⟩ := step_ret_ok h
      refine hi.update (t := t) (v := .running (k + 1)) rfl (by intro hh; cases hh)
        (by rw [hst]; intro hh; cases hh) (Or.inl rfl) ?_ (by intro hh; cases hh) (by intro hh; cases hh)
      intro sc' k' hsc' hk'
      rw [hsc] at hsc'; cases hsc'
      cases hk'
      obtain ⟨h1, h2⟩ := hi.before t sc k hsc hst
      have hk : k < sc.cmds.length := (List.getElem?_eq_some_iff.1 hds).1
      refine ⟨hk, ?_⟩
      intro j hj ds' hds' f hf
      by_cases hjk : j = k
      · subst hjk
        rw [hds] at hds'; cases hds'
        exact hall f hf
      · exact h2 j (by omega) ds' hds' f hf
    | false =>
      obtain ⟨sc, k, ds, hsc, hst, hds, hbad, rfl⟩ := step_ret_bad h
      refine hi.update (t := t) (v := .aborting) rfl (by intro hh; cases hh)
        (by rw [hst]; intro hh; cases hh) (Or.inl rfl) (by intro _ _ _ hh; cases hh)
        (by intro hh; cases hh) ?_
      intro _
      obtain ⟨d, hd, hdf⟩ := mayReturnBad_failed hbad
      exact Bad.dep hsc (List.mem_flatten.2 ⟨ds, List.mem_of_getElem? hds, hd⟩) (hi.failedBad d hdf)
  | finish t =>
    obtain ⟨sc, hsc, hst, _, rfl⟩ := step_finish h
    exact hi.update (t := t) (v := .done) rfl (by intro hh; cases hh) (by rw [hst]; intro hh; cases hh)
      (Or.inl rfl) (by intro _ _ _ hh; cases hh) (by intro hh; cases hh) (by intro hh; cases hh)
  | fail t =>
    obtain ⟨sc, hsc, hor, rfl⟩ := step_fail h
    refine hi.update (t := t) (v := .failed) rfl (by intro hh; cases hh) ?_
      (Or.inl rfl) (by intro _ _ _ hh; cases hh) ?_ (by intro hh; cases hh)
    · rcases hor with ⟨h1, _⟩ | h1 <;> rw [h1] <;> intro hh <;> cases hh
    · intro _
      rcases hor with ⟨_, hf⟩ | h1
      · exact Bad.self hsc hf
      · exact hi.abortBad t h1

theorem run_invB {g : Graph} : ∀ (es : List Ev) (s s' : State), InvB g s → run g s es = some s' → InvB g s'
  | [], s, s', hi, h => by cases h; exact hi
  | e :: es, s, s', hi, h => by
    rw [run_cons] at h
    cases hs : step g s e with
    | none => rw [hs] at h; cases h
    | some s1 =>
      rw [hs] at h
      exact run_invB es s1 s' (step_invB hi hs) h

/-- When the last command has returned zero, every file the script asked for is a source or built. -/
theorem flatten_ok {g : Graph} {s : State} (hi : InvB g s) {t : Nat} {sc : Script}
    (hsc : g.script t = some sc) (hst : s.st t = .running sc.cmds.length) :
    ∀ f ∈ sc.cmds.flatten, okSettled g s f = true := by
  intro f hf
  obtain ⟨ds, hds, hfd⟩ := List.mem_flatten.1 hf
  obtain ⟨j, hj, rfl⟩ := List.getElem_of_mem hds
  exact (hi.before t sc _ hsc hst).2 j hj _ (List.getElem?_eq_getElem hj) f hfd

/-! ### The invariant about built targets, for a property `Q t c` of a target and its content -/

/-- `Q` holds of the output of a non-failing script whenever it holds of every target the script asked
for (with the content found there). -/
def FinishClosed (g : Graph) (Q : Nat → Content → Prop) : Prop :=
  ∀ (s : State) t sc, g.script t = some sc → sc.fails = false →
    (∀ f ∈ sc.cmds.flatten, ∀ scf, g.script f = some scf → Q f (s.content f)) →
    Q t (out sc.tag (sc.reads.map (val g s)))

/-- `K` is the set of targets the dirtiness check may declare clean. -/
structure Inv (g : Graph) (Q : Nat → Content → Prop) (K : Nat → Prop) (s : State) : Prop
    extends InvB g s where
  doneQ : ∀ t sc, g.script t = some sc → s.st t = .done → Q t (s.content t)
  cleanQ : ∀ t sc, K t → g.script t = some sc → s.st t = .idle → Q t (s.content t)

theorem Inv.update {g : Graph} {Q : Nat → Content → Prop} {K : Nat → Prop} {s s' : State} {t : Nat} {v : St}
    (hi : Inv g Q K s) (hb : InvB g s') (hst : s'.st = upd s.st t v) (hv : v ≠ .idle)
    (hcont : ∀ x, x ≠ t → s'.content x = s.content x)
    (hdone : ∀ sc, g.script t = some sc → v = .done → Q t (s'.content t)) : Inv g Q K s' := by
  have hother : ∀ x, x ≠ t → s'.st x = s.st x := fun x hx => by rw [hst, upd_other _ _ _ _ hx]
  have hself : s'.st t = v := by rw [hst, upd_same]
  refine ⟨hb, ?_, ?_⟩
  · intro x scx hscx hx
    by_cases hxt : x = t
    · subst hxt; rw [hself] at hx; exact hdone scx hscx hx
    · rw [hother x hxt] at hx; rw [hcont x hxt]; exact hi.doneQ x scx hscx hx
  · intro x scx hk hscx hx
    by_cases hxt : x = t
    · subst hxt; rw [hself] at hx; exact absurd hx hv
    · rw [hother x hxt] at hx; rw [hcont x hxt]; exact hi.cleanQ x scx hk hscx hx

theorem step_inv {g : Graph} {Q : Nat → Content → Prop} {K : Nat → Prop} {s s' : State} {e : Ev}
    (hQ : FinishClosed g Q) (hK : ∀ t, e = .clean t → K t) (hi : Inv g Q K s)
    (h : step g s e = some s') : Inv g Q K s' := by
  have hb := step_invB hi.toInvB h
  cases e with
  | start t b =>
    obtain ⟨_, _, _, rfl⟩ := step_start h
    exact hi.update (t := t) (v := .running 0) hb rfl (by intro hh; cases hh) (fun _ _ => rfl)
      (by intro _ _ hh; cases hh)
  | clean t =>
    obtain ⟨_, hidle, rfl⟩ := step_clean h
    exact hi.update (t := t) (v := .done) hb rfl (by intro hh; cases hh) (fun _ _ => rfl)
      (fun sc hsc _ => hi.cleanQ t sc (hK t rfl) hsc hidle)
  | ret t ok =>
    cases ok with
    | true =>
      obtain ⟨_, k, _, _, _, _, _, rfl⟩ := step_ret_ok h
      exact hi.update (t := t) (v := .running (k + 1)) hb rfl (by intro hh; cases hh) (fun _ _ => rfl)
        (by intro _ _ hh; cases hh)
    | false =>
      obtain ⟨_, _, _, _, _, _, _, rfl⟩ := step_ret_bad h
      exact hi.update (t := t) (v := .aborting) hb rfl (by intro hh; cases hh) (fun _ _ => rfl)
        (by intro _ _ hh; cases hh)
  | finish t =>
    obtain ⟨sc, hsc, hst, hnf, rfl⟩ := step_finish h
    refine hi.update (t := t) (v := .done) hb rfl (by intro hh; cases hh)
      (fun x hx => upd_other _ _ _ _ hx) ?_
    intro sc' hsc' _
    rw [hsc] at hsc'; cases hsc'
    show Q t (upd s.content t _ t)
    rw [upd_same]
    refine hQ s t sc hsc hnf ?_
    intro f hf scf hscf
    exact hi.doneQ f scf hscf ((okSettled_tgt hscf).1 (flatten_ok hi.toInvB hsc hst f hf))
  | fail t =>
    obtain ⟨_, _, _, rfl⟩ := step_fail h
    exact hi.update (t := t) (v := .failed) hb rfl (by intro hh; cases hh) (fun _ _ => rfl)
      (by intro _ _ hh; cases hh)

theorem run_inv {g : Graph} {Q : Nat → Content → Prop} {K : Nat → Prop} (hQ : FinishClosed g Q) :
    ∀ (es : List Ev) (s s' : State), (∀ t, Ev.clean t ∈ es → K t) → Inv g Q K s → run g s es = some s' →
      Inv g Q K s'
  | [], s, s', _, hi, h => by cases h; exact hi
  | e :: es, s, s', hK, hi, h => by
    rw [run_cons] at h
    cases hs : step g s e with
    | none => rw [hs] at h; cases h
    | some s1 =>
      rw [hs] at h
      exact run_inv hQ es s1 s' (fun t ht => hK t (List.mem_cons_of_mem _ ht))
        (step_inv hQ (fun t ht => hK t (ht ▸ List.mem_cons_self)) hi hs) h

end RedoModel.ParF
