import RedoModel.Lemmas.DepsOodUp7
/-!
# redo-ood, upper bound — part 9: the general theorems applied to the checksum history

The history of `DepsOodUp8` / `DepsSoundS42` once more (those files cannot be imported here): source 5, checksummed
`mid` (3) reading it, `top` (4) reading `mid`; all built, the file of `mid` removed.
-/
namespace RedoModel.Deps.Rich
open RedoModel.Generated

def uRules : Nat → List Nat := fun t => if t = 3 then [1] else if t = 4 then [2] else []
def uMid : Script := { ifchange := [[5]], reads := [5], tag := 1, stamp := 1 }
def uTop : Script := { ifchange := [[3]], reads := [3], tag := 2 }
def uOps : List UserOp :=
  [.setProg (srcContent 7) uMid, .setProg (srcContent 8) uTop, .write 5 0, .write 1 7, .write 2 8,
   .cmd (.ifchange [4] false), .remove 3]
def uW : World := uOps.foldl (fun w op => (applyOp {} 6 op w).2) (initWorld uRules)

theorem u_rc : uW.runCounter = 1 := by decide +kernel
theorem u_hb : ∀ dep ∈ uW.deps, dep.modeM = true → dep.source < 6 := by decide +kernel
theorem u_wf : WF uW := WF_reachable {} 6 uRules uOps

set_option linter.unusedSimpArgs false in
set_option maxHeartbeats 400000 in
theorem u_need : (isDirty true 2 16 { uW with runCounter := 2 } [] 4 2 [] none).1 = .need [3] := by
  unfold uW uOps uMid uTop uRules
  simp (config := { zeta := true, zetaHave := true, decide := true, maxSteps := 2000000 }) [runCmd, allocRun,
    applyOp, initWorld, engine, runTargets, buildJob, shouldBuild, isDirty, goDeps,
    startSelf, recordNewState, runScript, runScript.cmds, runScript.conds, ifchangeWith, findDoFile, addDep,
    addKnown, setRec, setFile, ev, getRec, readStamp, existsF, newNode, srcContent, outContent, depsWithRecs, depsOf,
    zapDeps1, zapDeps2, updateStamp, setChanged, setStatic, setFailed, setOverride, detectOverride, isCheckedR,
    isChangedR, isFailedR, alwaysId, mergeSort_pair', CRASHED, EXIT_CYCLIC_DEPENDENCY, EXIT_TARGET_FAILED,
    EXIT_FAILURE, stampRec, List.eraseDups_cons, List.eraseDups_nil]

theorem u_top_target : (4 < 6 ∧ known uW 4 = true ∧ isTarget uW (uW.runCounter + 1) 4 = true) := by decide +kernel

/-- `redo-ood` lists `top` — derived, not evaluated: were it not listed it had a `PC` derivation, and then its walk
could not answer `need [mid]`. -/
theorem u_top_listed : 4 ∈ (runCmd {} 6 .ood uW).1.listing := by
  refine Classical.byContradiction fun hnot => ?_
  have hpc := ood_not_listed_pc {} 6 uW u_wf 4 u_top_target.1 u_top_target.2.1 u_top_target.2.2 hnot
    (R2 := 2) (by rw [u_rc]; omega)
  have hpc' : PC { uW with runCounter := 2 } 2 4 2 := PC.congr (w := uW) (w2 := { uW with runCounter := 2 }) rfl rfl rfl hpc
  rcases isDirty_ood_cc { uW with runCounter := 2 } 2 hpc' 16 _ [] [] none (OInv.refl _ _) (fun s hs => by cases hs)
    with h | h <;> rw [u_need] at h <;> cases h

/-- The general theorem at work: the one member of `top`'s `need` verdict, `mid`, lies below `top`, carries a
checksum, has no `PC` derivation and is not found clean itself. -/
theorem u_need_mid : MReach { uW with runCounter := 2 } 2 4 3 ∧
    (getRec { uW with runCounter := 2 } 2 3).csum.isSome = true ∧
    (∀ mx', ¬ PC { uW with runCounter := 2 } 2 3 mx') ∧
    ∀ fuel' mx', (isDirty true 2 fuel' { uW with runCounter := 2 } [] 3 mx' [] none).1 ≠ .clean :=
  ood_need_members _ 2 16 4 2 [3] u_need 3 (by simp)

end RedoModel.Deps.Rich
