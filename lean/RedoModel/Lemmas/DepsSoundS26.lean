import RedoModel.Lemmas.DepsSoundS25
/-! `ifchangeWith` satisfies the command specification when the nested engine does; hence `engine {} n` does. -/
namespace RedoModel.Deps.S
open RedoModel.Generated

theorem rowsDecl_of_same {p : Nat} {ts : List Nat} {w w' : World}
    (h : ∀ d : Dep, d.target = p → (d ∈ w'.deps ↔ d ∈ w.deps)) : RowsDecl p ts w w' := by
  refine ⟨fun d hd hdt => Or.inl ((h d hdt).1 hd), fun s m hr _ => ?_⟩
  obtain ⟨d, hd, h1, h2, h3, h4⟩ := hr
  exact ⟨d, (h d h1).2 hd, h1, h2, h3, h4⟩

theorem rowsDecl_eqv {p : Nat} {ts : List Nat} {w w' : World} (h : w'.deps = w.deps) : RowsDecl p ts w w' :=
  rowsDecl_of_same (fun _ _ => by rw [h])

theorem ifchangeWith_spec {rank R E} (hE : ESpec rank R E) (d : Defects)
    (hd1 : d.oobRecordsDepsOnCaller = false) (hd2 : d.oobRebuildsDepsNotTarget = false) (fuel : Nat) :
    ESpec rank R { ifchangeCmd := fun cx ts w => ifchangeWith E d fuel cx ts w } := by
  intro X cx ts w b h1 h2 h4 hi hts hXb hpar
  obtain ⟨c1, c2, c3, c4, c5, c6⟩ := exit_codes
  show Inv rank R X (ifchangeWith E d fuel cx ts w).2 ∧ _
  unfold ifchangeWith
  cases hp : cx.parent with
  | none =>
    simp only [hp, Bool.false_eq_true, if_false]
    obtain ⟨⟨a1, a2, a3, a4, a5⟩, _⟩ := runTargets_spec (fuel := fuel) hE d hd1 hd2 h1 h2 h4 hXb none ts [] false w hi hts
      (fun _ s hs => by simp at hs)
    exact ⟨a1, by split <;> exact a2, (fun _ p hp' => by cases hp'), a3, a4, a5⟩
  | some p =>
    cases h3 : cx.unlocked with
    | true =>
      simp only [hp, h3, Bool.not_true, Bool.false_and, Bool.false_eq_true, if_false, if_true]
      obtain ⟨⟨a1, a2, a3, a4, a5⟩, _⟩ := runTargets_spec (fuel := fuel) hE d hd1 hd2 h1 h2 h4 hXb none ts [] false w hi hts
        (fun _ s hs => by simp at hs)
      exact ⟨a1, a2, (fun hu => by cases hu), a3, a4, a5⟩
    | false =>
    obtain ⟨hbp, hXp, hngp⟩ := hpar h3 p hp
    simp only [hp, h3, Bool.not_false, Bool.true_and]
    by_cases hc : ts.contains p = true
    · simp only [hc, if_true]
      exact ⟨hi, BExt.refl _ _ _ _ _, fun _ p' hp' => ⟨RowsDecl.refl _ _ _, fun h => absurd h c3⟩,
        fun h => absurd h c3, fun _ h => absurd h c3, c4⟩
    simp only [hc, Bool.false_eq_true, if_false]
    have e1 := WEqv.addKnown w p
    have hi1 := e1.inv hi
    have hng1 : ¬ Good (addKnown w p) R p := fun h => hngp ((e1.good R p).1 h)
    obtain ⟨d1, d2, d3, d4⟩ := declare_spec (rank := rank) (R := R) hXp b hbp ts (addKnown w p) hi1 hng1 hts
    obtain ⟨⟨a1, a2, a3, a4, a5⟩, _⟩ := runTargets_spec (fuel := fuel) hE d hd1 hd2 h1 h2 h4 hXb none ts [] false
      (declare p ts (addKnown w p)) d1 hts (fun _ s hs => by simp at hs)
    have hsame : ∀ dd : Dep, dd.target = p →
        (dd ∈ (runTargets E d cx fuel ts [] false (declare p ts (addKnown w p))).2.deps ↔
          dd ∈ (declare p ts (addKnown w p)).deps) :=
      fun dd hdd => a2.rowsAbove dd (by rw [hdd]; exact hbp) (by simp)
    have hrd : RowsDecl p ts w (runTargets E d cx fuel ts [] false (declare p ts (addKnown w p))).2 := by
      have r1 : RowsDecl p [] w (addKnown w p) := rowsDecl_eqv e1.deps
      have r3 : RowsDecl p [] (declare p ts (addKnown w p))
          (runTargets E d cx fuel ts [] false (declare p ts (addKnown w p))).2 := rowsDecl_of_same hsame
      exact ((r1.trans d3).trans r3).mono (fun x hx => by simpa using hx)
    refine ⟨a1, (e1.toBExt.trans d2.toBExtP).trans a2.weakenPo, fun _ p' hp' => ?_, a3,
      fun hn hz => a4 (fun f => by rw [d2.eqv.failed]; exact (hn.eqv e1) f) hz, a5⟩
    cases hp'
    refine ⟨hrd, fun _ dd hdd => ?_⟩
    obtain ⟨r, hr, q1, q2, q3, q4⟩ := d4 dd hdd
    exact ⟨r, (hsame r q1).2 hr, q1, q2, q3, q4⟩

theorem engine_spec (rank : Nat → Nat) (R : Nat) (d : Defects)
    (hd1 : d.oobRecordsDepsOnCaller = false) (hd2 : d.oobRebuildsDepsNotTarget = false) : ∀ n, ESpec rank R (engine d n)
  | 0 => by
    intro X cx ts w b _ _ _ hi _ _ _
    obtain ⟨_, _, _, _, c5, c6⟩ := exit_codes
    exact ⟨hi, BExt.refl _ _ _ _ _, fun _ p _ => ⟨RowsDecl.refl _ _ _, fun h => absurd h c5⟩,
      fun h => absurd h c5, fun _ h => absurd h c5, c6⟩
  | n + 1 => ifchangeWith_spec (engine_spec rank R d hd1 hd2 n) d hd1 hd2 (n + 1)

end RedoModel.Deps.S
