import RedoModel.Lemmas.DepsFail4
/-!
# C05 at the level of whole commands — part 5: status 0 means that no failure was recorded (script level)
-/
namespace RedoModel.Deps
open RedoModel.Generated

/-- What a nested `redo-ifchange` must satisfy: if it returns 0, it recorded no new failure. -/
def EngNNF (E : Engine) : Prop :=
  ∀ cx ts w, (E.ifchangeCmd cx ts w).1 = 0 → NoNewFail cx.runid w (E.ifchangeCmd cx ts w).2

theorem NoNewFail.setRec' {R : Nat} {w0 w : World} (h0 : NoNewFail R w0 w) (f : Nat) (r : Rec)
    (h : isFailedR r R = true → FailedNow R w0 f) : NoNewFail R w0 (Deps.setRec w f r) := by
  intro t ht
  unfold FailedNow at ht
  simp only [Deps.setRec] at ht
  split at ht
  · subst_vars; exact h ht
  · exact h0 t ht

theorem conds_nnf {R : Nat} (E : Engine) (hE : EngNNF E) (t : Nat) (cx' : Ctx) (hcx : cx'.runid = R) :
    ∀ (fs : List Nat) (w w' : World), runScript.conds E t cx' fs w = (0, w') → NoNewFail R w w'
  | [], w, w', he => by
    rw [runScript.conds] at he
    cases he
    exact NoNewFail.refl R w
  | f :: fs, w, w', he => by
    rw [runScript.conds] at he
    split at he
    · have h := hE cx' [f] w
      rw [hcx] at h
      generalize E.ifchangeCmd cx' [f] w = r at h he
      obtain ⟨rv, w1⟩ := r
      split at he
      · rename_i heq
        cases heq
        exact (h rfl).trans (conds_nnf E hE t cx' hcx fs _ _ he)
      · rename_i hne _
        cases he
        first | exact (hne rfl).elim | exact (hne _ rfl).elim
    · exact (NoNewFail.addDep w t f false).trans (conds_nnf E hE t cx' hcx fs _ _ he)

theorem cmds_nnf {R : Nat} (E : Engine) (hE : EngNNF E) (cx : Ctx) (t : Nat) (cx' : Ctx) (hcx : cx'.runid = R) :
    ∀ (cs : List (List Nat)) (k : Nat) (w w' : World), runScript.cmds E cx t cx' cs k w = (0, w') → NoNewFail R w w'
  | [], k, w, w', he => by
    rw [runScript.cmds] at he
    simp only [Prod.mk.injEq] at he
    obtain ⟨_, rfl⟩ := he
    exact NoNewFail.refl R w
  | c :: cs, k, w, w', he => by
    rw [runScript.cmds] at he
    split at he
    · cases he
    · have h := hE cx' c w
      rw [hcx] at h
      generalize E.ifchangeCmd cx' c w = r at h he
      obtain ⟨rv, w1⟩ := r
      split at he
      · rename_i heq
        cases heq
        exact (h rfl).trans (cmds_nnf E hE cx t cx' hcx cs _ _ _ he)
      · rename_i hne _
        cases he
        first | exact (hne rfl).elim | exact (hne _ rfl).elim

theorem rsAlways_nnf {R : Nat} (cx : Ctx) (t : Nat) (sc : Script) (w : World) : NoNewFail R w (rsAlways cx t sc w) := by
  unfold rsAlways
  split
  · exact (NoNewFail.addDep w t alwaysId true).trans (NoNewFail.setRec_none _ _ _ rfl)
  · exact NoNewFail.refl R w

theorem stampRec_failed (r : Rec) (R : Nat) (data : Content) : (stampRec r R data).failed = none := by
  unfold stampRec
  dsimp only
  split <;> rfl

theorem rsFinish_nnf {R : Nat} (cx : Ctx) (t : Nat) (sc : Script) (w : World) :
    NoNewFail R w (rsFinish cx t sc w).2.2 := by
  rw [rsFinish_world]
  split
  · exact NoNewFail.refl R w
  · unfold rsStampW
    dsimp only
    split
    · exact NoNewFail.refl R w
    · exact (NoNewFail.addKnown w t).trans (NoNewFail.setRec_none _ _ _ (stampRec_failed _ _ _))

theorem rsBody_nnf {R : Nat} (E : Engine) (hE : EngNNF E) (cx : Ctx) (hcx : cx.runid = R) (t : Nat) (sc : Script)
    (w : World) (out : Option Content) (w' : World) (he : rsBody E cx t sc w = (0, out, w')) : NoNewFail R w w' := by
  unfold rsBody at he
  dsimp only at he
  have h1 := conds_nnf (R := R) E hE t
    { runid := cx.runid, parent := some t, cycles := t :: cx.cycles, keepGoing := cx.keepGoing, crash := cx.crash } hcx sc.cond w
  generalize runScript.conds E t _ sc.cond w = r1 at h1 he
  obtain ⟨rvc, w1⟩ := r1
  dsimp only at he
  split at he
  · rename_i hne
    cases he
    exact absurd rfl hne
  · rename_i hz
    have hz' : rvc = 0 := by simpa using hz
    subst hz'
    have h2 := cmds_nnf (R := R) E hE cx t
      { runid := cx.runid, parent := some t, cycles := t :: cx.cycles, keepGoing := cx.keepGoing, crash := cx.crash } hcx
      sc.ifchange 0 w1
    generalize runScript.cmds E cx t _ sc.ifchange 0 w1 = r2 at h2 he
    obtain ⟨rv, w2⟩ := r2
    dsimp only at he
    split at he
    · rename_i hne
      cases he
      exact absurd rfl hne
    · rename_i hz2
      have hz2' : rv = 0 := by simpa using hz2
      subst hz2'
      have h3 := rsFinish_nnf (R := R) cx t sc w2
      rw [he] at h3
      exact ((h1 w1 rfl).trans (h2 w2 rfl)).trans h3

/-- A script that ends with status 0 recorded no failure (its nested commands all returned 0: `sh -e`). -/
theorem runScript_nnf {R : Nat} (E : Engine) (hE : EngNNF E) (d : Defects) (cx : Ctx) (hcx : cx.runid = R) (t : Nat)
    (sc : Script) (w : World) (out : Option Content) (w' : World) (he : runScript E d cx t sc w = (0, out, w')) :
    NoNewFail R w w' := by
  rw [runScript_eq] at he
  split at he
  · cases he
  · exact ((rsAlways_nnf cx t sc w).trans (NoNewFail.foldl_addDep t false _ _)).trans
      (rsBody_nnf E hE cx hcx t sc _ out w' he)

end RedoModel.Deps
