import RedoModel.Cycles
/-!
# `REDO_CYCLES` — helper lemmas for `Props/C12c.lean`
Model: `RedoModel/Cycles.lean`.  Split/join round trips, then the set semantics of `add`/`addAll`/`check`
for every write-back order that merely rearranges.
-/
namespace RedoModel.Cycles

/-- The only thing assumed of the hash set's iteration order: it rearranges the items. -/
def Rearranges (ord : List (List Char) → List (List Char)) : Prop := ∀ l, (ord l).Perm l

/-! ## `eraseDups` keeps the members (not in core 4.33) -/

theorem mem_eraseDups_aux {α} [BEq α] [LawfulBEq α] (n : Nat) :
    ∀ (l : List α), l.length ≤ n → ∀ x, x ∈ l.eraseDups ↔ x ∈ l := by
  induction n with
  | zero =>
    intro l hl x
    cases l with
    | nil => simp
    | cons a as => simp at hl
  | succ n ih =>
    intro l hl x
    cases l with
    | nil => simp
    | cons a as =>
      have hlen : (as.filter fun b => !b == a).length ≤ n := by
        have := List.length_filter_le (fun b => !b == a) as
        simp only [List.length_cons] at hl
        omega
      rw [List.eraseDups_cons, List.mem_cons, ih _ hlen x, List.mem_filter, List.mem_cons]
      by_cases hx : x = a
      · simp [hx]
      · simp [hx]

theorem mem_eraseDups {α} [BEq α] [LawfulBEq α] (l : List α) (x : α) : x ∈ l.eraseDups ↔ x ∈ l :=
  mem_eraseDups_aux l.length l (Nat.le_refl _) x

/-! ## `splitColon.go` -/

theorem go_ne_nil (acc s : List Char) : splitColon.go acc s ≠ [] := by
  induction s generalizing acc with
  | nil => simp [splitColon.go]
  | cons c cs ih =>
    unfold splitColon.go
    split
    · simp
    · exact ih _

theorem go_colon_free (acc s : List Char) (hacc : ':' ∉ acc) : ∀ x ∈ splitColon.go acc s, ':' ∉ x := by
  induction s generalizing acc with
  | nil =>
    intro x hx
    simp only [splitColon.go, List.mem_singleton] at hx
    subst hx
    simpa using hacc
  | cons c cs ih =>
    intro x hx
    unfold splitColon.go at hx
    split at hx
    · rcases List.mem_cons.1 hx with h | h
      · subst h
        simpa using hacc
      · exact ih [] (by simp) x h
    · rename_i hc
      refine ih (c :: acc) ?_ x hx
      intro hm
      rcases List.mem_cons.1 hm with h | h
      · exact hc h.symm
      · exact hacc h

/-- Reading a colon-free stretch only accumulates. -/
theorem go_append_colon_free (acc x rest : List Char) (hx : ':' ∉ x) :
    splitColon.go acc (x ++ rest) = splitColon.go (x.reverse ++ acc) rest := by
  induction x generalizing acc with
  | nil => simp
  | cons c cs ih =>
    have hc : c ≠ ':' := fun h => hx (by simp [h])
    have hcs : ':' ∉ cs := fun h => hx (List.mem_cons_of_mem _ h)
    rw [List.cons_append, splitColon.go, if_neg hc, ih _ hcs]
    simp

theorem go_last (acc x : List Char) (hx : ':' ∉ x) : splitColon.go acc x = [acc.reverse ++ x] := by
  have := go_append_colon_free acc x [] hx
  simp only [List.append_nil] at this
  rw [this]
  simp [splitColon.go]

theorem go_item (acc x rest : List Char) (hx : ':' ∉ x) :
    splitColon.go acc (x ++ ':' :: rest) = (acc.reverse ++ x) :: splitColon.go [] rest := by
  rw [go_append_colon_free acc x _ hx, splitColon.go, if_pos rfl]
  simp

theorem joinColon_cons (x : List Char) (r : List (List Char)) (hr : r ≠ []) :
    joinColon (x :: r) = x ++ ':' :: joinColon r := by
  cases r with
  | nil => exact absurd rfl hr
  | cons y r => rfl

theorem join_go (acc s : List Char) : joinColon (splitColon.go acc s) = acc.reverse ++ s := by
  induction s generalizing acc with
  | nil => simp [splitColon.go, joinColon]
  | cons c cs ih =>
    unfold splitColon.go
    split
    · rename_i hc
      rw [joinColon_cons _ _ (go_ne_nil _ _), ih, hc]
      simp
    · rw [ih]
      simp

/-! ## Round trips -/

theorem split_ne_nil (s : List Char) : splitColon s ≠ [] := go_ne_nil [] s

theorem split_colon_free (s : List Char) : ∀ x ∈ splitColon s, ':' ∉ x :=
  go_colon_free [] s (by simp)

theorem join_split (s : List Char) : joinColon (splitColon s) = s := by
  have := join_go [] s
  simpa [splitColon] using this

theorem split_join (l : List (List Char)) (hne : l ≠ []) (hcf : ∀ x ∈ l, ':' ∉ x) :
    splitColon (joinColon l) = l := by
  induction l with
  | nil => exact absurd rfl hne
  | cons x r ih =>
    cases r with
    | nil =>
      have := go_last [] x (hcf x (by simp))
      simpa [splitColon, joinColon] using this
    | cons y r =>
      have hx : ':' ∉ x := hcf x (by simp)
      have ih' := ih (by simp) (fun z hz => hcf z (List.mem_cons_of_mem _ hz))
      show splitColon.go [] (x ++ ':' :: joinColon (y :: r)) = x :: y :: r
      rw [go_item [] x _ hx]
      show ([].reverse ++ x) :: splitColon (joinColon (y :: r)) = _
      rw [ih']
      simp

/-- The empty list of items has no representation: joining nothing gives the empty string, which splits
into one empty item. -/
theorem split_join_nil : splitColon (joinColon []) = [[]] := rfl

/-! ## `items`, `check`, `add` -/

theorem items_colon_free (v : Option (List Char)) : ∀ x ∈ items v, ':' ∉ x := by
  cases v with
  | none => intro x hx; simp [items] at hx
  | some s => exact split_colon_free s

theorem check_iff (v : Option (List Char)) (fid : List Char) : check v fid = true ↔ fid ∈ items v := by
  simp [check]

/-- What `add` writes back when the lock is new, read again: a rearrangement of the old set plus the lock. -/
theorem items_add_new (ord) (hord : Rearranges ord) (v : Option (List Char)) (fid : List Char)
    (hfid : ':' ∉ fid) (hnew : check v fid = false) :
    add ord v fid = some (joinColon (ord ((items v).eraseDups ++ [fid]))) ∧
    (items (add ord v fid)).Perm ((items v).eraseDups ++ [fid]) := by
  have hadd : add ord v fid = some (joinColon (ord ((items v).eraseDups ++ [fid]))) := by
    unfold add
    unfold check at hnew
    rw [hnew]
    simp
  have hp := hord ((items v).eraseDups ++ [fid])
  refine ⟨hadd, ?_⟩
  rw [hadd]
  show (splitColon _).Perm _
  rw [split_join]
  · exact hp
  · intro h
    rw [h] at hp
    have := hp.length_eq
    simp at this
  · intro x hx
    have hx' := hp.mem_iff.1 hx
    rcases List.mem_append.1 hx' with h | h
    · exact items_colon_free v x ((mem_eraseDups _ _).1 h)
    · simp only [List.mem_singleton] at h
      subst h
      exact hfid

theorem add_idempotent (ord) (v : Option (List Char)) (fid : List Char) (h : check v fid = true) :
    add ord v fid = v := by
  unfold add
  unfold check at h
  rw [h]
  simp

theorem add_exact (ord) (hord : Rearranges ord) (v : Option (List Char)) (fid : List Char)
    (hfid : ':' ∉ fid) (x : List Char) :
    x ∈ items (add ord v fid) ↔ (x ∈ items v ∨ x = fid) := by
  cases hc : check v fid with
  | true =>
    rw [add_idempotent ord v fid hc]
    have := (check_iff v fid).1 hc
    constructor
    · exact Or.inl
    · rintro (h | h)
      · exact h
      · subst h; exact this
  | false =>
    have hp := (items_add_new ord hord v fid hfid hc).2
    rw [hp.mem_iff, List.mem_append, mem_eraseDups, List.mem_singleton]

theorem check_after_add (ord) (hord : Rearranges ord) (v : Option (List Char)) (fid : List Char)
    (hfid : ':' ∉ fid) : check (add ord v fid) fid = true :=
  (check_iff _ _).2 ((add_exact ord hord v fid hfid fid).2 (Or.inr rfl))

theorem add_monotone (ord) (hord : Rearranges ord) (v : Option (List Char)) (fid : List Char)
    (hfid : ':' ∉ fid) (x : List Char) (h : check v x = true) : check (add ord v fid) x = true :=
  (check_iff _ _).2 ((add_exact ord hord v fid hfid x).2 (Or.inl ((check_iff _ _).1 h)))

/-- A new lock is written back without repeated items even when the inherited variable had some. -/
theorem add_new_nodup_count (ord) (hord : Rearranges ord) (v : Option (List Char)) (fid : List Char)
    (hfid : ':' ∉ fid) (hnew : check v fid = false) :
    (items (add ord v fid)).length = (items v).eraseDups.length + 1 := by
  have := (items_add_new ord hord v fid hfid hnew).2.length_eq
  simpa using this

/-! ## `addAll` -/

theorem mem_items_addAll (ord) (hord : Rearranges ord) (fs : List (List Char)) :
    ∀ (v : Option (List Char)), (∀ f ∈ fs, ':' ∉ f) →
      ∀ x, x ∈ items (addAll ord v fs) ↔ (x ∈ items v ∨ x ∈ fs) := by
  induction fs with
  | nil => intro v _ x; simp [addAll]
  | cons f fs ih =>
    intro v hfs x
    have hf : ':' ∉ f := hfs f (by simp)
    rw [addAll, ih (add ord v f) (fun g hg => hfs g (List.mem_cons_of_mem _ hg)) x,
      add_exact ord hord v f hf x, List.mem_cons, or_assoc]

theorem ancestor_set (ord) (hord : Rearranges ord) (v : Option (List Char)) (fs : List (List Char))
    (hfs : ∀ f ∈ fs, ':' ∉ f) (x : List Char) :
    check (addAll ord v fs) x = true ↔ (x ∈ items v ∨ x ∈ fs) := by
  rw [check_iff, mem_items_addAll ord hord fs v hfs x]

theorem ancestor_set_unset (ord) (hord : Rearranges ord) (fs : List (List Char))
    (hfs : ∀ f ∈ fs, ':' ∉ f) (x : List Char) :
    check (addAll ord none fs) x = true ↔ x ∈ fs := by
  rw [ancestor_set ord hord none fs hfs x]
  simp [items]

/-! ## Lock ids -/

theorem fid_colon_free (f : List Char) (h : IsFid f) : ':' ∉ f := by
  intro hm
  have := h.2 ':' hm
  revert this
  decide

theorem rearranges_id : Rearranges id := fun _ => List.Perm.refl _
theorem rearranges_reverse : Rearranges List.reverse := fun l => List.reverse_perm l

end RedoModel.Cycles
