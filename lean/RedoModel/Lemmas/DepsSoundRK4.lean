import RedoModel.Lemmas.DepsSoundRK3
/-!
Killed builds, rich histories, tools: releasing a target under construction from the exempt set, and the promise of
its old record (`RecTruth`) surviving the row operations of its own unfinished build — under the side conditions
`SK` every such operation adds an `m` row and the target has no `c` row to lose.
-/
namespace RedoModel.Deps.Rich
open RedoModel.Generated

/-- The clause `Base.recA` for one file. -/
def KeepT (w : World) (t : Nat) : Prop := RecCurV w t → genT (w.recs t) = true → RecTruth w t

theorem Base.release {rank R w t} {X : Nat → Prop} (hb : Base rank R (addX X t) w) (hk : KeepT w t) :
    Base rank R X w := by
  have hrec : ∀ u, (¬ X u ∨ VerR w R u) → RecCurV w u → genT (w.recs u) = true → RecTruth w u := by
    intro u hx hrc hg
    by_cases e : u = t
    · subst e; exact hk hrc hg
    · exact hb.recA u (hx.imp (fun hn hxu => hxu.elim hn e) id) hrc hg
  exact { hb with recA := hrec }

theorem Inv.release {rank R w t} {X : Nat → Prop} (hi : Inv rank R (addX X t) w) (hk : KeepT w t) :
    Inv rank R X w := ⟨hi.base.release hk, hi.Rpos, hi.ver⟩

theorem Base.keepT {rank R w t} {X : Nat → Prop} (hb : Base rank R X w) (hx : ¬ X t) : KeepT w t :=
  fun hrc hg => hb.recA t (Or.inl hx) hrc hg

/-- A target whose record keeps its promise has, under `SingleDo` and `RowsM`, no `c` row at all. -/
theorem noC_of_truth {w : World} {t : Nat} (hS : SingleDo w.rules) (hM : RowsM w) (ht : RecTruth w t) :
    ∀ s, ¬ HasRow w t s false := by
  obtain ⟨pre, dof, post, sc, hr, _, hdof, _⟩ := ht
  obtain ⟨hpre0, hpost0⟩ := single_split (t := t) hS hr
  subst hpre0 hpost0
  intro s hc
  obtain ⟨hm, hno⟩ := hM t s hc
  rw [hr] at hm
  simp only [List.nil_append, List.mem_singleton] at hm
  subst hm
  exact hno hdof

/-- A row operation on `t` that keeps every `m` row of `t` keeps the promise of `t`'s record. -/
theorem RecTruth_rowOp {w w' : World} {t : Nat} (hS : SingleDo w.rules) (hM : RowsM w) (hro : RowOp t w w')
    (hrows : ∀ s, HasRow w t s true → HasRow w' t s true) (ht : RecTruth w t) : RecTruth w' t := by
  have noC := noC_of_truth hS hM ht
  have e := hro.eqv
  have h1 : RecTruth { w' with deps := w.deps } t := e.recTruth ht
  obtain ⟨pre, dof, post, sc, hr, hpre, hdof, hdecl, hic, hcd, halw, hexit, hsc, hodd, cs, hcont, hlen, hz⟩ := h1
  have back : ∀ s, HasRow { w' with deps := w.deps } t s true → HasRow w' t s true := fun s h => hrows s h
  have noC' : ∀ s, HasRow { w' with deps := w.deps } t s false → False := fun s h => noC s h
  exact ⟨pre, dof, post, sc, hr, fun c hc => (noC' c (hpre c hc)).elim, back _ hdof, fun d hd => back _ (hdecl d hd),
    fun d hd => (noC' d (hic d hd)).elim,
    fun d hd => (hcd d hd).elim (fun h => Or.inl (back _ h)) (fun h => (noC' _ h).elim),
    fun ha => back _ (halw ha), hexit, hsc, fun f hf => ⟨back _ (hodd f hf).1, (hodd f hf).2⟩, cs, hcont, hlen,
    fun p hp => (hz p hp).elim (fun h => Or.inl ⟨back _ h.1, h.2⟩) (fun h => (noC' _ h.1).elim)⟩

theorem KeepT_rowOp {w w' : World} {t : Nat} (hS : SingleDo w.rules) (hM : RowsM w) (hro : RowOp t w w')
    (hrows : ∀ s, HasRow w t s true → HasRow w' t s true) (hk : KeepT w t) : KeepT w' t := by
  intro hrc hg
  have e := hro.eqv
  have hg0 : genT (w.recs t) = true := by rw [← e.genT t]; exact hg
  exact RecTruth_rowOp hS hM hro hrows (hk ((e.recCurV t).1 hrc) hg0)

theorem addDep_true_rows (w : World) (t s : Nat) :
    ∀ x, HasRow w t x true → HasRow (addDep w t s true) t x true := by
  intro x h
  by_cases e : x = s
  · subst e; exact addDep_hasRow_new w t x true
  · exact addDep_hasRow_keep h (fun ⟨_, h2⟩ => e h2)

theorem KeepT_addDep {w : World} {t s : Nat} (hk : SK w) (h : KeepT w t) : KeepT (addDep w t s true) t :=
  KeepT_rowOp hk.single hk.rowsM (RowOp.addDep w t s true) (addDep_true_rows w t s) h

theorem KeepT_zapDeps1 {w : World} {t : Nat} (hk : SK w) (h : KeepT w t) : KeepT (zapDeps1 w t) t :=
  KeepT_rowOp hk.single hk.rowsM (RowOp.zapDeps1 w t) (fun s h => (SameTriples.zapDeps1 w t t s true).2 h) h

theorem KeepT_declare {t : Nat} : ∀ (ts : List Nat) (w : World), SK w → KeepT w t → KeepT (declare t ts w) t
  | [], _, _, hk => hk
  | s :: ts, w, hs, hk => by
    show KeepT (declare t ts (addDep w t s true)) t
    exact KeepT_declare ts _ (hs.tr (Tr.addDepM w t s)) (KeepT_addDep hs hk)

/-- After the preparation of the build of `t` (rows flagged, .do file found and re-declared) the old record
of `t` still keeps its promise. -/
theorem prep_keepT {rank R t w} (hk : SK w) (hi : Inv rank R NoX w) (dof : Nat)
    (h : (findDoFile t ((zapDeps1 w t).rules t) (zapDeps1 w t)).1 = some dof) :
    KeepT (findDoFile t ((zapDeps1 w t).rules t) (zapDeps1 w t)).2 t := by
  have hk1 : SK (zapDeps1 w t) := hk.tr (Tr.zapDeps1 w t)
  rw [findDoFile_single (hk1.single t) h]
  exact KeepT_addDep hk1 (KeepT_zapDeps1 hk (hi.base.keepT (fun hx => hx)))

/-- Outcome "killed": status `CRASHED`, and the world satisfies the between-commands part of the invariant
with NO target exempt (the targets whose build was aborted included). -/
def Killed (rank : Nat → Nat) (R : Nat) (w : World) (res : Status × World) : Prop :=
  res.1 = CRASHED ∧ Base rank R NoX res.2 ∧ res.2.runCounter = w.runCounter ∧ res.2.rules = w.rules

theorem Killed.from {rank R w w0 res} (h : Killed rank R w res) (h1 : w.runCounter = w0.runCounter)
    (h2 : w.rules = w0.rules) : Killed rank R w0 res :=
  ⟨h.1, h.2.1, h.2.2.1.trans h1, h.2.2.2.trans h2⟩

/-- What a nested command that was not killed guarantees (as `ESpec`, nothing exempt). -/
def CmdOk (rank : Nat → Nat) (R b : Nat) (po : Option Nat) (ts : List Nat) (w : World) (res : Status × World) : Prop :=
  Inv rank R NoX res.2 ∧ BExt rank R b po w res.2 ∧
  (∀ p, po = some p → RowsDecl p ts w res.2 ∧ (res.1 = 0 → ∀ d ∈ ts, HasRowU res.2 p d true)) ∧
  (res.1 = 0 → ∀ t ∈ ts, Good res.2 R t) ∧ (NoFail R w → res.1 = 0 → NoFail R res.2) ∧ res.1 ≠ CRASHED

/-- `ESpec` for any `cx.crash`, under the side conditions `SK`: the parent need not be exempt. -/
def ESpecK (rank : Nat → Nat) (R : Nat) (E : Engine) : Prop :=
  ∀ (cx : Ctx) (ts : List Nat) (w : World) (b : Nat),
    cx.runid = R → cx.isRedo = false → cx.unlocked = false → SK w →
    Inv rank R NoX w → (∀ t ∈ ts, rank t < b ∧ t ≠ alwaysId) →
    (∀ p, cx.parent = some p → b ≤ rank p ∧ ¬ Good w R p) →
    Killed rank R w (E.ifchangeCmd cx ts w) ∨ CmdOk rank R b cx.parent ts w (E.ifchangeCmd cx ts w)

end RedoModel.Deps.Rich
