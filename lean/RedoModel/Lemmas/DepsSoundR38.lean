import RedoModel.Lemmas.DepsSoundR37
/-! `setProg` keeps `Btw` when it does not change the meaning of a .do file in place; the initial world. -/
namespace RedoModel.Deps.Rich
open RedoModel.Generated

def setProgW (w : World) (c : Content) (s : Script) : World :=
  { w with progs := fun x => if x = c then some s else w.progs x }

theorem applyOp_setProg (d : Defects) (n : Nat) (c : Content) (s : Script) (w : World) :
    (applyOp d n (.setProg c s) w).2 = setProgW w c s := rfl

/-- Giving content `c` the meaning `s` does not change what any .do candidate in place means. -/
def SetProgOk (w : World) (c : Content) (s : Script) : Prop :=
  ∀ t, ∀ dof ∈ w.rules t, ∀ n, w.fs dof = some n → n.content = c → (w.progs c).getD {} = s

theorem scriptAt_setProg {w : World} {c : Content} {s : Script} (hok : SetProgOk w c s) {t dof : Nat}
    (hd : dof ∈ w.rules t) : scriptAt (setProgW w c s) dof = scriptAt w dof := by
  unfold scriptAt setProgW
  cases hn : w.fs dof with
  | none => rfl
  | some n =>
    simp only
    by_cases e : n.content = c
    · simp only [e, if_true, Option.getD_some]
      exact (hok t dof hd n hn e).symm
    · simp only [e, if_false]

theorem Btw_setProg {rank w c s} (h : Btw rank w) (hs : s.Rich) (hok : SetProgOk w c s)
    (hrk : RankedR rank (setProgW w c s)) : Btw rank (setProgW w c s) := by
  have hb : Base rank w.runCounter NoX w := h
  refine ⟨hb.rulesOk, hrk, ?_, hb.chLe, hb.ckLe, hb.noCsum, hb.ovrSt, hb.srcNotGen, hb.fs0, hb.rec0, hb.rowsLt,
    hb.cPlain, hb.stampCh, hb.staticEx, hb.fsB, hb.stB, hb.ckFail, hb.markFail, hb.flLe, ?_⟩
  · intro c' sc hp
    show sc.Rich
    unfold setProgW at hp
    simp only at hp
    split at hp
    · cases hp; exact hs
    · exact hb.richProgs c' sc hp
  · intro t hx hrc hg
    obtain ⟨pre, dof, post, sc, hr, hpre, hdof, hdecl, hic, hcd, halw, hexit, hsc, hodd, cs, hcont, hlen, hz⟩ :=
      hb.recA t hx hrc hg
    have hdm : dof ∈ w.rules t := by rw [hr]; simp
    refine ⟨pre, dof, post, sc, hr, hpre, hdof, hdecl, hic, hcd, halw, hexit, ?_, hodd, cs, hcont, hlen, hz⟩
    rcases hsc with ⟨h1, h2⟩ | h1
    · exact Or.inl ⟨h1, by rw [scriptAt_setProg hok hdm]; exact h2⟩
    · exact Or.inr h1

end RedoModel.Deps.Rich
