import RedoModel.Lemmas.DepsFail3
/-!
# C05 at the level of whole commands — part 4: the dirtiness check never records a failure

`NoNewFail R w w'` : every target recorded as failed-in-run-`R` in `w'` already was in `w`.
`DirtyRelF Rel`    : like `DirtyRel`, but closed only under the record writes `isDirty` really does: records
                     whose `failed` field is `none` or `some 0`.
-/
namespace RedoModel.Deps
open RedoModel.Generated

structure DirtyRelF (Rel : World → World → Prop) : Prop where
  refl : ∀ w, Rel w w
  trans : ∀ {a b c}, Rel a b → Rel b c → Rel a c
  setRecF : ∀ w f r, (r.failed = none ∨ r.failed = some 0) → Rel w (setRec w f r)
  evWarn : ∀ w t, Rel w (ev w (.warnOverride t))

theorem goDeps_relF {Rel : World → World → Prop} (hR : DirtyRelF Rel)
    (chk : World → List Nat → Nat → Rec → DR × World × List Nat)
    (hchk : ∀ w c s r, Rel w (chk w c s r).2.1) (hasCsum : Bool) (f : Nat) :
    ∀ (ds : List (Dep × Rec)) (w : World) (cache must : List Nat),
      Rel w (goDeps chk hasCsum f ds w cache must).2.1
  | [], w, cache, must => by simp [goDeps, hR.refl]
  | (d, snap) :: ds, w, cache, must => by
    rw [goDeps]
    by_cases hm : d.modeM = true
    · simp only [hm, if_true]
      have h1 := hchk w cache d.source snap
      generalize chk w cache d.source snap = r at h1
      obtain ⟨sub, w1, c1⟩ := r
      cases sub with
      | cyclic => exact h1
      | clean => exact hR.trans h1 (goDeps_relF hR chk hchk hasCsum f ds w1 c1 must)
      | dirty => exact h1
      | need ts => exact hR.trans h1 (goDeps_relF hR chk hchk hasCsum f ds w1 c1 (must ++ ts))
    · simp only [hm, Bool.false_eq_true, if_false]
      by_cases hex : existsF w d.source = true
      · simp only [hex, if_true]; exact hR.refl w
      · simp only [hex, Bool.false_eq_true, if_false]
        exact goDeps_relF hR chk hchk hasCsum f ds w cache must

theorem isDirty_relF {Rel : World → World → Prop} (hR : DirtyRelF Rel) (R : Nat) :
    ∀ (fuel : Nat) (w : World) (cache : List Nat) (f mx : Nat) (seen : List Nat) (pre : Option Rec),
      Rel w (isDirty false R fuel w cache f mx seen pre).2.1
  | 0, w, cache, f, mx, seen, pre => by rw [isDirty]; exact hR.refl w
  | fuel + 1, w, cache, f, mx, seen, pre => by
    simp (config := { zeta := true, zetaHave := true }) only [isDirty, ↓reduceIte, Bool.false_eq_true]
    generalize pre.getD (getRec w R f) = r
    split
    · exact hR.refl w
    split
    · exact hR.refl w
    rename_i hfail
    split
    · exact hR.refl w
    rename_i ch hch
    split
    · exact hR.refl w
    split
    · exact hR.refl w
    split
    · exact hR.refl w
    split
    · dsimp only
      split
      · exact hR.setRecF w f _ (Or.inr rfl)
      · exact hR.refl w
    have hgd := goDeps_relF hR
      (fun w2 cache s snap => isDirty false R fuel w2 cache s (max ch (r.checked.getD 0)) (f :: seen) (some snap))
      (fun w2 c s r2 => isDirty_relF hR R fuel w2 c s _ (f :: seen) (some r2))
      r.csum.isSome f (depsWithRecs w R r f) w cache []
    generalize goDeps _ r.csum.isSome f (depsWithRecs w R r f) w cache [] = gr at hgd
    obtain ⟨o, w2, c2⟩ := gr
    cases o with
    | some dr => exact hgd
    | none =>
      simp only [Bool.not_false, Bool.and_true]
      refine hR.trans ?_ (hR.setRecF _ f _ (Or.inl ?_))
      · split
        · exact hR.trans hgd (hR.evWarn _ _)
        · exact hgd
      · cases hfl : r.failed with
        | none => rfl
        | some x => rw [hfl] at hfail; simp at hfail

theorem shouldBuild_relF {Rel : World → World → Prop} (hR : DirtyRelF Rel) (cx : Ctx) (fuel t : Nat) (w : World) :
    Rel w (shouldBuild cx fuel t w).2 := by
  unfold shouldBuild
  split
  · exact hR.refl w
  · dsimp only
    split
    · exact hR.refl w
    · have h := isDirty_relF hR cx.runid fuel w [] t cx.runid [] none
      generalize isDirty false cx.runid fuel w [] t cx.runid [] none = r at h
      obtain ⟨dr, w1, c⟩ := r
      exact h

/-! ### `NoNewFail` -/

/-- Every target recorded as failed in run `R` in `w'` already was in `w`. -/
def NoNewFail (R : Nat) (w w' : World) : Prop := ∀ t, FailedNow R w' t → FailedNow R w t

theorem NoNewFail.refl (R : Nat) (w : World) : NoNewFail R w w := fun _ h => h

theorem NoNewFail.trans {R : Nat} {a b c : World} (h1 : NoNewFail R a b) (h2 : NoNewFail R b c) : NoNewFail R a c :=
  fun t h => h1 t (h2 t h)

theorem NoNewFail.of_recs {R : Nat} {w w' : World} (h : w'.recs = w.recs) : NoNewFail R w w' := by
  intro t ht
  unfold FailedNow at ht ⊢
  rw [← h]; exact ht

theorem NoNewFail.of_failed {R : Nat} {w w' : World} (h : ∀ t, (w'.recs t).failed = (w.recs t).failed) :
    NoNewFail R w w' := fun t ht => (FailedNow.congr (h t)).1 ht

/-- Writing a record that is failed-in-`R` only if the database already says so. -/
theorem NoNewFail.setRec {R : Nat} (w : World) (f : Nat) (r : Rec) (h : isFailedR r R = true → FailedNow R w f) :
    NoNewFail R w (setRec w f r) := by
  intro t ht
  unfold FailedNow at ht
  simp only [Deps.setRec] at ht
  split at ht
  · subst_vars; exact h ht
  · exact ht

theorem isFailedR_none {r : Rec} {R : Nat} (h : r.failed = none) : isFailedR r R = false := by
  unfold isFailedR; rw [h]

theorem isFailedR_zero {r : Rec} {R : Nat} (h : r.failed = some 0) : isFailedR r R = false := by
  unfold isFailedR; rw [h]; rfl

theorem NoNewFail.setRec_none {R : Nat} (w : World) (f : Nat) (r : Rec) (h : r.failed = none) :
    NoNewFail R w (Deps.setRec w f r) :=
  NoNewFail.setRec w f r (fun hf => by rw [isFailedR_none h] at hf; cases hf)

theorem NoNewFail.dirtyRelF (R : Nat) : DirtyRelF (NoNewFail R) :=
  ⟨NoNewFail.refl R, NoNewFail.trans,
   fun w f r h => NoNewFail.setRec w f r (fun hf => by
     rcases h with h | h
     · rw [isFailedR_none h] at hf; cases hf
     · rw [isFailedR_zero h] at hf; cases hf),
   fun _ _ => NoNewFail.of_recs rfl⟩

theorem NoNewFail.addKnown {R : Nat} (w : World) (f : Nat) : NoNewFail R w (addKnown w f) :=
  NoNewFail.of_failed (fun t => addKnown_failed w f t)

theorem NoNewFail.addDep {R : Nat} (w : World) (t s : Nat) (m : Bool) : NoNewFail R w (addDep w t s m) :=
  NoNewFail.of_failed (fun x => addDep_failed w t s m x)

theorem NoNewFail.foldl_addDep {R : Nat} (p : Nat) (m : Bool) (ts : List Nat) (w : World) :
    NoNewFail R w (ts.foldl (fun w t => Deps.addDep w p t m) w) :=
  NoNewFail.of_failed (fun x => foldl_addDep_failed p m x ts w)

theorem findDoFile_nnf {R : Nat} (t : Nat) : ∀ (cs : List Nat) (w : World), NoNewFail R w (findDoFile t cs w).2
  | [], w => by rw [findDoFile]; exact NoNewFail.refl R w
  | c :: cs, w => by
    rw [findDoFile]
    split
    · exact NoNewFail.addDep w t c true
    · exact (NoNewFail.addDep w t c false).trans (findDoFile_nnf t cs _)

theorem shouldBuild_nnf (cx : Ctx) (fuel t : Nat) (w : World) : NoNewFail cx.runid w (shouldBuild cx fuel t w).2 :=
  shouldBuild_relF (NoNewFail.dirtyRelF cx.runid) cx fuel t w

end RedoModel.Deps
