import RedoModel.Pretty
import RedoModel.Lemmas.Catlog
/-!
`Pretty.replayText` is defined on every output of the replay model (`LogRec.redoLog`): every line is attributed to the
top level or to a target whose cleaned name was announced by an earlier `do` record.

Layout:
* `stepKeys` / `keysAfter` / `Announced` : the keys of the depth map of `replayText`, walked along an output (oldest
  first), and "every entry's tag is the top level or a key at its time";
* `replayText_isSome_of_announced`        : `Announced` outputs are rendered;
* `lineStep_shape`                        : what one line does to the output, with the reason why a sub-replay was not
  announced (its cleaned name is in `already`);
* `AnnSpec`, `lines_ann`, `catlog_ann`, `redoLog_ann` : the invariant along the replay.
-/
namespace RedoModel.Pretty
open RedoModel.LogRec RedoModel.Paths

/-! ### The depth map -/

theorem lookupDepth_cons (a : List Char) (n : Nat) (m : List (List Char × Nat)) (x : List Char) :
    lookupDepth ((a, n) :: m) x = if a = x then some n else lookupDepth m x := by
  unfold lookupDepth
  rw [List.find?_cons]
  by_cases h : a = x
  · have : (a == x) = true := by simp [h]
    simp only [this, if_pos h]
  · have : (a == x) = false := by simp [h]
    simp only [this, if_neg h]

theorem lookupDepth_nil (x : List Char) : lookupDepth [] x = none := rfl

/-! ### Keys learnt along an output -/

/-- The keys of the depth map after the entry `o`: a `do` record adds its text. -/
def stepKeys (ks : List (List Char)) (o : Tagged) : List (List Char) :=
  match o.out with
  | .record kind text => if kind = kDo then text :: ks else ks
  | .raw _ => ks

/-- The keys of the depth map after the output `c` (oldest first). -/
def keysAfter : List (List Char) → List Tagged → List (List Char)
  | ks, [] => ks
  | ks, o :: os => keysAfter (stepKeys ks o) os

/-- Every entry of the output (oldest first) is attributed to the top level (tag `[]`) or to a target whose cleaned name
is a key when the entry is reached. -/
def Announced : List (List Char) → List Tagged → Prop
  | _, [] => True
  | ks, o :: os => (o.tag = [] ∨ normpath o.tag ∈ ks) ∧ Announced (stepKeys ks o) os

theorem subset_stepKeys (ks : List (List Char)) (o : Tagged) : ks ⊆ stepKeys ks o := by
  intro x hx
  unfold stepKeys
  split
  · split
    · exact List.mem_cons_of_mem _ hx
    · exact hx
  · exact hx

theorem stepKeys_mono {ks ks' : List (List Char)} (h : ks ⊆ ks') (o : Tagged) : stepKeys ks o ⊆ stepKeys ks' o := by
  obtain ⟨tg, out⟩ := o
  cases out with
  | raw l => exact h
  | record kind text =>
    by_cases hk : kind = kDo
    · simp only [stepKeys, hk, if_true]
      intro x hx
      rcases List.mem_cons.1 hx with e | hx
      · exact e ▸ List.mem_cons_self ..
      · exact List.mem_cons_of_mem _ (h hx)
    · simp only [stepKeys, hk, if_false]
      exact h

theorem stepKeys_do (ks : List (List Char)) (t x : List Char) : stepKeys ks ⟨t, .record kDo x⟩ = x :: ks := by
  simp [stepKeys]

theorem subset_keysAfter : ∀ (c : List Tagged) (ks : List (List Char)), ks ⊆ keysAfter ks c
  | [], _ => fun _ h => h
  | o :: os, ks => fun _ h => subset_keysAfter os _ (subset_stepKeys ks o h)

theorem keysAfter_append : ∀ (a b : List Tagged) (ks : List (List Char)),
    keysAfter ks (a ++ b) = keysAfter (keysAfter ks a) b
  | [], _, _ => rfl
  | o :: os, b, ks => keysAfter_append os b (stepKeys ks o)

/-- What the keys are: the initial ones and the texts of the `do` records. -/
theorem mem_keysAfter : ∀ (c : List Tagged) (ks : List (List Char)) (x : List Char),
    x ∈ keysAfter ks c ↔ x ∈ ks ∨ ∃ o ∈ c, o.out = .record kDo x
  | [], ks, x => by simp [keysAfter]
  | o :: os, ks, x => by
    rw [keysAfter, mem_keysAfter os]
    obtain ⟨tg, out⟩ := o
    cases out with
    | raw l => simp [stepKeys]
    | record kind text =>
      by_cases hk : kind = kDo
      · subst hk
        rw [stepKeys_do]
        simp only [List.mem_cons, exists_eq_or_imp, Out.record.injEq, true_and]
        constructor
        · rintro ((h | h) | h)
          · exact Or.inr (Or.inl h.symm)
          · exact Or.inl h
          · exact Or.inr (Or.inr h)
        · rintro (h | h | h)
          · exact Or.inl (Or.inr h)
          · exact Or.inl (Or.inl h.symm)
          · exact Or.inr h
      · simp [stepKeys, hk]

theorem Announced.mono : ∀ (c : List Tagged) {ks ks' : List (List Char)}, ks ⊆ ks' → Announced ks c → Announced ks' c
  | [], _, _, _, _ => trivial
  | o :: os, _, _, h, ha =>
    ⟨ha.1.imp id (fun hx => h hx), Announced.mono os (stepKeys_mono h o) ha.2⟩

theorem Announced.append : ∀ {a : List Tagged} {b : List Tagged} {ks : List (List Char)},
    Announced ks a → Announced (keysAfter ks a) b → Announced ks (a ++ b)
  | [], _, _, _, hb => hb
  | _ :: _, _, _, ha, hb => ⟨ha.1, Announced.append ha.2 hb⟩

theorem Announced.of_append : ∀ {a : List Tagged} {b : List Tagged} {ks : List (List Char)},
    Announced ks (a ++ b) → Announced ks a ∧ Announced (keysAfter ks a) b
  | [], _, _, h => ⟨trivial, h⟩
  | _ :: os, _, _, h => ⟨⟨h.1, (Announced.of_append (a := os) h.2).1⟩, (Announced.of_append (a := os) h.2).2⟩

/-- Entries of an announced target are announced. -/
theorem Announced.of_tags {t : List Char} : ∀ {c : List Tagged} {ks : List (List Char)},
    normpath t ∈ ks → (∀ e ∈ c, e.tag = t) → Announced ks c
  | [], _, _, _ => trivial
  | o :: _, ks, hk, h =>
    ⟨Or.inr ((h o (List.mem_cons_self ..)) ▸ hk),
      Announced.of_tags (subset_stepKeys ks o hk) (fun e he => h e (List.mem_cons_of_mem _ he))⟩

/-- (a) An announced output is rendered: the depth of every line is found. -/
theorem replayText_isSome_of_announced (cfg : Cfg) (e : Esc) :
    ∀ (outs : List Tagged) (ks : List (List Char)) (m : List (List Char × Nat)),
      (∀ x ∈ ks, (lookupDepth m x).isSome = true) → Announced ks outs → (replayText cfg e outs m).isSome = true
  | [], _, _, _, _ => rfl
  | o :: os, ks, m, hm, ha => by
    obtain ⟨tg, out⟩ := o
    obtain ⟨htag, hrest⟩ := ha
    have hk : ∃ k, (if tg.isEmpty then some 0 else lookupDepth m (normpath tg)) = some k := by
      by_cases he : tg = []
      · exact ⟨0, by simp [he]⟩
      · have hin : normpath tg ∈ ks := by
          rcases htag with h | h
          · exact absurd h he
          · exact h
        have := hm _ hin
        rw [Option.isSome_iff_exists] at this
        obtain ⟨k, hk⟩ := this
        exact ⟨k, by simp [he, hk]⟩
    obtain ⟨k, hk⟩ := hk
    unfold replayText
    dsimp only at hk ⊢
    rw [hk]
    dsimp only
    cases out with
    | raw l =>
      dsimp only
      have ih := replayText_isSome_of_announced cfg e os ks m hm (by simpa [stepKeys] using hrest)
      rw [Option.isSome_iff_exists] at ih
      obtain ⟨rest, hr⟩ := ih
      rw [hr]; rfl
    | record kind text =>
      dsimp only
      have ih := replayText_isSome_of_announced cfg e os (stepKeys ks ⟨tg, .record kind text⟩)
        (if (kind = kDo && (lookupDepth m text).isNone) = true then (text, k + 1) :: m else m) ?_ hrest
      · rw [Option.isSome_iff_exists] at ih
        obtain ⟨rest, hr⟩ := ih
        rw [hr]; rfl
      · intro x hx
        by_cases hkd : kind = kDo
        · subst hkd
          rw [stepKeys_do] at hx
          by_cases hn : (lookupDepth m text).isNone = true
          · simp only [hn, decide_true, Bool.and_self, if_true]
            rw [lookupDepth_cons]
            rcases List.mem_cons.1 hx with e' | hx
            · simp [e']
            · by_cases h2 : text = x
              · simp [h2]
              · simp only [h2, if_false]; exact hm x hx
          · simp only [hn, Bool.and_false, Bool.false_eq_true, if_false]
            rcases List.mem_cons.1 hx with e' | hx
            · subst e'
              cases hl : lookupDepth m x with
              | none => simp [hl] at hn
              | some v => rfl
            · exact hm x hx
        · have hx' : x ∈ ks := by simpa [stepKeys, hkd] using hx
          simp only [hkd, decide_false, Bool.false_and, Bool.false_eq_true, if_false]
          exact hm x hx'

/-! ### One line of a log -/

/-- One line either appends entries of its own, or makes one sub-replay — of a name that is already shown (nothing is
announced), or right after the `do` record carrying the cleaned form of that very name. -/
theorem lineStep_shape {recurse : List Char → St → Except CErr (St × Nat)} {optU optR : Bool} {t l : List Char}
    {st : St} {intr w : Nat} {st1 : St} {i1 w1 : Nat}
    (h : lineStep recurse optU optR t l st intr w = .ok (st1, i1, w1)) :
    (∃ own : List Tagged, (∀ e ∈ own, e.tag = t) ∧ st1.out = own.reverse ++ st.out) ∨
    (∃ (x : List Char) (sB : St) (got : Nat), st1.out = sB.out ∧
      ((normpath x ∈ st.already ∧ recurse x st = .ok (sB, got)) ∨
       recurse x (emit st t (.record kDo (normpath x))) = .ok (sB, got))) := by
  unfold lineStep at h
  generalize hp : parse l = p at h
  cases p with
  | error e =>
    dsimp only at h
    simp only [Except.ok.injEq, Prod.mk.injEq] at h
    obtain ⟨h, -, -⟩ := h
    subst h
    left
    by_cases hi : intr ≠ 0
    · refine ⟨[⟨t, .record kResumed t⟩, ⟨t, .raw (cleanLine l)⟩], ?_, by simp [hi, emit]⟩
      intro e he; simp at he; rcases he with he | he <;> subst he <;> rfl
    · refine ⟨[⟨t, .raw (cleanLine l)⟩], ?_, by simp [hi, emit]⟩
      intro e he; simp at he; subst he; rfl
  | ok g =>
    dsimp only at h
    by_cases h1 : g.kind = kUnchanged
    · simp only [h1, if_true] at h
      cases optU
      · simp only [Bool.false_eq_true, if_false, Except.ok.injEq, Prod.mk.injEq] at h
        obtain ⟨h, -, -⟩ := h
        subst h
        exact Or.inl ⟨[], by simp, by simp⟩
      · simp only [if_true] at h
        cases optR
        · simp only [Bool.false_eq_true, if_false, Except.ok.injEq, Prod.mk.injEq] at h
          obtain ⟨h, -, -⟩ := h
          subst h
          left
          by_cases h3 : normpath (resolve t g.text) ∈ st.already
          · exact ⟨[], by simp, by simp [h3]⟩
          · refine ⟨[⟨t, .record kDo (normpath (resolve t g.text))⟩], ?_, by simp [h3, emit]⟩
            intro e he; simp at he; subst he; rfl
        · simp only [if_true] at h
          generalize hrr : recurse (resolve t g.text) _ = rr at h
          cases rr with
          | error e => cases h
          | ok v =>
            obtain ⟨stB, got⟩ := v
            simp only [Except.ok.injEq, Prod.mk.injEq] at h
            obtain ⟨h, -, -⟩ := h
            right
            refine ⟨resolve t g.text, stB, got, by rw [← h], ?_⟩
            by_cases h3 : normpath (resolve t g.text) ∈ st.already
            · exact Or.inl ⟨h3, by simpa [h3] using hrr⟩
            · exact Or.inr (by simpa [h3] using hrr)
    · simp only [h1, if_false] at h
      by_cases h2 : g.kind = kDo ∨ g.kind = kWaiting ∨ g.kind = kLocked ∨ g.kind = kUnlocked
      · simp only [h2, if_true] at h
        by_cases h3 : normpath (resolve t g.text) ∈ st.already
        · simp only [h3, if_true] at h
          cases optR
          · simp only [Bool.false_eq_true, if_false, Except.ok.injEq, Prod.mk.injEq] at h
            obtain ⟨h, -, -⟩ := h
            subst h
            exact Or.inl ⟨[], by simp, by simp⟩
          · simp only [if_true] at h
            by_cases h4 : g.text.isEmpty = true
            · simp only [h4, if_true] at h; cases h
            · simp only [h4, Bool.false_eq_true, if_false] at h
              generalize hrr : recurse (resolve t g.text) _ = rr at h
              cases rr with
              | error e => cases h
              | ok v =>
                obtain ⟨stB, got⟩ := v
                simp only [Except.ok.injEq, Prod.mk.injEq] at h
                obtain ⟨h, -, -⟩ := h
                exact Or.inr ⟨resolve t g.text, stB, got, by rw [← h], Or.inl ⟨h3, hrr⟩⟩
        · simp only [h3, if_false] at h
          cases optR
          · simp only [Bool.false_eq_true, if_false, Except.ok.injEq, Prod.mk.injEq] at h
            obtain ⟨h, -, -⟩ := h
            subst h
            left
            refine ⟨[⟨t, .record kDo (normpath (resolve t g.text))⟩], ?_, by simp [emit]⟩
            intro e he; simp at he; subst he; rfl
          · simp only [if_true] at h
            by_cases h4 : g.text.isEmpty = true
            · simp only [h4, if_true] at h; cases h
            · simp only [h4, Bool.false_eq_true, if_false] at h
              generalize hrr : recurse (resolve t g.text) _ = rr at h
              cases rr with
              | error e => cases h
              | ok v =>
                obtain ⟨stB, got⟩ := v
                simp only [Except.ok.injEq, Prod.mk.injEq] at h
                obtain ⟨h, -, -⟩ := h
                exact Or.inr ⟨resolve t g.text, stB, got, by rw [← h], Or.inr hrr⟩
      · simp only [h2, if_false] at h
        left
        by_cases h5 : g.kind = kDone
        · simp only [h5, if_true] at h
          generalize hpd : parseDoneText g.text = pd at h
          cases pd with
          | none =>
            simp only [Except.ok.injEq, Prod.mk.injEq] at h
            obtain ⟨h, -, -⟩ := h
            subst h
            refine ⟨[⟨t, .raw (cleanLine l)⟩], ?_, by simp [emit]⟩
            intro e he; simp at he; subst he; rfl
          | some v =>
            obtain ⟨rv, name⟩ := v
            simp only [Except.ok.injEq, Prod.mk.injEq] at h
            obtain ⟨h, -, -⟩ := h
            subst h
            refine ⟨[⟨t, .record kDone (rv ++ ' ' :: normpath (resolve t name))⟩], ?_, by simp [emit]⟩
            intro e he; simp at he; subst he; rfl
        · simp only [h5, if_false, Except.ok.injEq, Prod.mk.injEq] at h
          obtain ⟨h, -, -⟩ := h
          subst h
          refine ⟨[⟨t, .raw (cleanLine l)⟩], ?_, by simp [emit]⟩
          intro e he; simp at he; subst he; rfl

/-! ### The invariant along the replay -/

/-- What every `recurse` argument of `lines` has to meet: a call for a name that is already shown appends nothing, and a
call for a name that is a key appends an announced chunk. -/
def AnnSpec (recurse : List Char → St → Except CErr (St × Nat)) : Prop :=
  ∀ x s s' n, recurse x s = .ok (s', n) →
    (normpath x ∈ s.already → s'.out = s.out) ∧
    ∀ ks, normpath x ∈ ks → ∃ c, s'.out = c.reverse ++ s.out ∧ Announced ks c

/-- (c) The line loop of an announced target appends an announced chunk. -/
theorem lines_ann {recurse : List Char → St → Except CErr (St × Nat)} (hrec : AnnSpec recurse) (optU optR : Bool)
    (t : List Char) :
    ∀ (ls : List (List Char)) (st : St) (intr w : Nat) (st' : St) (n : Nat),
      lines recurse optU optR t ls st intr w = .ok (st', n) →
      ∀ ks, normpath t ∈ ks → ∃ c, st'.out = c.reverse ++ st.out ∧ Announced ks c
  | [], st, intr, w, st', n, h => by
    rw [lines_nil] at h
    simp only [Except.ok.injEq, Prod.mk.injEq] at h
    intro ks _
    exact ⟨[], by rw [← h.1]; simp, trivial⟩
  | l :: ls, st, intr, w, st', n, h => by
    rw [lines_cons] at h
    generalize hs : lineStep recurse optU optR t l st intr w = r at h
    cases r with
    | error e => cases h
    | ok v =>
      obtain ⟨st1, i1, w1⟩ := v
      dsimp only at h
      intro ks hk
      have h1 : ∃ c1, st1.out = c1.reverse ++ st.out ∧ Announced ks c1 := by
        rcases lineStep_shape hs with ⟨own, htag, hout⟩ | ⟨x, sB, got, ho, ⟨hal, hr⟩ | hr⟩
        · exact ⟨own, hout, Announced.of_tags hk htag⟩
        · exact ⟨[], by rw [ho, (hrec _ _ _ _ hr).1 hal]; simp, trivial⟩
        · obtain ⟨c, hc, ha⟩ := (hrec _ _ _ _ hr).2 (normpath x :: ks) (List.mem_cons_self ..)
          refine ⟨⟨t, .record kDo (normpath x)⟩ :: c, by rw [ho, hc]; simp [emit], Or.inr hk, ?_⟩
          rw [stepKeys_do]; exact ha
      obtain ⟨c1, hc1, ha1⟩ := h1
      obtain ⟨c2, hc2, ha2⟩ := lines_ann hrec optU optR t ls st1 i1 w1 st' n h (keysAfter ks c1)
        (subset_keysAfter _ _ hk)
      exact ⟨c1 ++ c2, by rw [hc2, hc1]; simp, ha1.append ha2⟩

/-- (d) Every successful `catlog` call for an announced target appends an announced chunk. -/
theorem catlog_ann (F : Forest) (optU optR : Bool) : ∀ fuel, AnnSpec (catlog F optU optR fuel)
  | 0 => by
    intro x s s' n h
    rw [catlog] at h; cases h
  | fuel + 1 => by
    intro x s s' n h
    rw [catlog] at h
    by_cases hx : normpath x ∈ s.already
    · rw [if_pos hx] at h
      simp only [Except.ok.injEq, Prod.mk.injEq] at h
      rw [← h.1]
      exact ⟨fun _ => rfl, fun _ _ => ⟨[], by simp, trivial⟩⟩
    · rw [if_neg hx] at h
      dsimp only at h
      refine ⟨fun hin => absurd hin hx, ?_⟩
      generalize hl : lookup F (normpath x) = r at h
      cases r with
      | none => cases h
      | some v =>
        cases v with
        | none =>
          simp only [Except.ok.injEq, Prod.mk.injEq] at h
          rw [← h.1]
          exact fun _ _ => ⟨[], by simp, trivial⟩
        | some ls =>
          dsimp only at h
          intro ks hk
          exact lines_ann (catlog_ann F optU optR fuel) optU optR x _ _ _ _ _ _ h ks hk

/-- (e) The top-level loop appends an announced chunk, whatever the keys were. -/
theorem redoLog_ann {F : Forest} {optU optR : Bool} {fuel : Nat} :
    ∀ (ts : List (List Char)) (st st' : St), redoLog F optU optR fuel ts st = .ok st' →
      ∀ ks, ∃ c, st'.out = c.reverse ++ st.out ∧ Announced ks c
  | [], st, st', h, ks => by
    rw [redoLog] at h
    simp only [Except.ok.injEq] at h
    exact ⟨[], by rw [← h]; simp, trivial⟩
  | t :: ts, st, st', h, ks => by
    rw [redoLog] at h
    generalize hc : catlog F optU optR fuel t (emit st [] (.record kDo (normpath t))) = r at h
    cases r with
    | error e => cases h
    | ok v =>
      obtain ⟨st1, n⟩ := v
      dsimp only at h
      obtain ⟨c1, hc1, ha1⟩ := (catlog_ann F optU optR fuel _ _ _ _ hc).2 (normpath t :: ks) (List.mem_cons_self ..)
      have hA : Announced ks (⟨[], .record kDo (normpath t)⟩ :: c1) := by
        refine ⟨Or.inl rfl, ?_⟩
        rw [stepKeys_do]; exact ha1
      obtain ⟨c2, hc2, ha2⟩ := redoLog_ann ts st1 st' h (keysAfter ks (⟨[], .record kDo (normpath t)⟩ :: c1))
      exact ⟨(⟨[], .record kDo (normpath t)⟩ :: c1) ++ c2, by rw [hc2, hc1]; simp [emit], hA.append ha2⟩

/-- The whole output of a `redo-log` run (from the empty state) is announced. -/
theorem redoLog_announced {F : Forest} {optU optR : Bool} {fuel : Nat} {ts : List (List Char)} {st : St}
    (h : redoLog F optU optR fuel ts ⟨[], []⟩ = .ok st) : Announced [] st.out.reverse := by
  obtain ⟨c, hc, ha⟩ := redoLog_ann ts _ _ h []
  have : st.out.reverse = c := by rw [hc]; simp
  rw [this]; exact ha

/-- Reading `Announced` from the empty map: every entry not of the top level comes after a `do` record carrying the
cleaned name of its tag. -/
theorem Announced.earlier_do {c : List Tagged} (h : Announced [] c) (a b : List Tagged) (o : Tagged)
    (hc : c = a ++ o :: b) (ho : o.tag ≠ []) : ∃ o' ∈ a, o'.out = .record kDo (normpath o.tag) := by
  subst hc
  have h2 := (Announced.of_append h).2
  rcases h2.1 with h3 | h3
  · exact absurd h3 ho
  · rcases (mem_keysAfter a [] _).1 h3 with h4 | h4
    · cases h4
    · exact h4

end RedoModel.Pretty
