import RedoModel.Lemmas.DepsQuiet13
/-! Corollary `dropped_dep`, non-vacuity of the C02 / C17 theorems, and the counterexample that shows the hypothesis
"no `//ALWAYS` row in the recorded closure" to be necessary. -/
namespace RedoModel.Deps.Rich
open RedoModel.Generated

/-- Before the .do file was replaced, 5 *was* a recorded dependency of 2. -/
theorem dd_before :
    (⟨2, 5, true, false⟩ : Dep) ∈ ((ddOps.take 6).foldl (fun w op => (applyOp {} 6 op w).2) (initWorld cxRules)).deps := by
  decide +kernel

/-- **A dependency that a target stopped declaring no longer triggers it** (concrete history `ddOps`): after the
rebuild with the new .do file, whatever the user writes into 5 (or if he removes it), `redo-ifchange 2` exits 0,
executes nothing and touches no file. -/
theorem droppedDep (us : List UserOp) (hus : ∀ u ∈ us, (∃ v, u = .write 5 v) ∨ u = .remove 5) (kg2 : Bool) :
    let w2 := us.foldl (fun w op => (applyOp {} 6 op w).2) ddRes.2
    let r2 := runCmd {} 6 (.ifchange [2] kg2) { w2 with trace := [] }
    r2.1.status = 0 ∧ (∀ t, Ev.ran t ∉ r2.2.trace) ∧ r2.2.fs = w2.fs :=
  unrelatedChangeQuiet 6 cxRules cxRank ddOps [2] false true cx_rulesOk dd_ops dd_ranked dd_rankLt dd_opsOk
    (by simp [alwaysId]) us kg2 dd_status dd_no_always (fun u hu => by
      rcases hus u hu with ⟨v, rfl⟩ | rfl <;> exact dd_five_out)

/-- Non-vacuity of `repeatQuiet` / `unrelatedChangeQuiet`: every hypothesis holds for `ddOps`, `redo 2`. -/
example : (runCmd {} 6 (.ifchange [2] false) { ddRes.2 with trace := [] }).1.status = 0 ∧
    (∀ t, Ev.ran t ∉ (runCmd {} 6 (.ifchange [2] false) { ddRes.2 with trace := [] }).2.trace) ∧
    (runCmd {} 6 (.ifchange [2] false) { ddRes.2 with trace := [] }).2.fs = ddRes.2.fs :=
  repeatQuiet 6 cxRules cxRank ddOps [2] false true cx_rulesOk dd_ops dd_ranked dd_rankLt dd_opsOk
    (by simp [alwaysId]) false dd_status dd_no_always

theorem dd_all_targets :
    ∀ f, f < 6 → known ddRes.2 f = true → isTarget ddRes.2 (ddRes.2.runCounter + 1) f = true → f ∈ [2] := by
  decide +kernel

theorem dd_is_target : known ddRes.2 2 = true ∧ isTarget ddRes.2 (ddRes.2.runCounter + 1) 2 = true := by
  decide +kernel

/-- Non-vacuity of `oodEmptyAfterBuild`: 2 is a known target, the build named every target. -/
example : (runCmd {} 6 .ood ddRes.2).1.listing = [] :=
  oodEmptyAfterBuild 6 cxRules cxRank ddOps [2] false true cx_rulesOk dd_ops dd_ranked dd_rankLt dd_opsOk
    (by simp [alwaysId]) dd_status dd_no_always dd_all_targets

/-! ### `runsOnlyForAReason`: the first build of 2 (never built) -/

def ddOps5 : List UserOp := [.setProg [17] sA, .setProg [19] sB, .write 1 7, .write 4 0, .write 5 0]
def ddW5 : World := ddOps5.foldl (fun w op => (applyOp {} 6 op w).2) (initWorld cxRules)

theorem dd5_ran : Ev.ran 2 ∈ (runCmd {} 6 (.ifchange [2] false) { ddW5 with trace := [] }).2.trace := by decide +kernel

theorem dd5_ops : ∀ op ∈ ddOps5, RichOp cxRules op :=
  fun op h => dd_ops op (by
    simp only [ddOps5, List.mem_cons, List.not_mem_nil, or_false] at h
    simp only [ddOps, List.mem_cons, List.not_mem_nil, or_false]
    rcases h with h | h | h | h | h <;> simp [h])

theorem dd5_ranked : ∀ w ∈ worldsOf 6 {} (initWorld cxRules) ddOps5, RankedR cxRank w := by
  intro w hw
  refine dd_ranked w ?_
  simp only [ddOps5, ddOps, worldsOf, List.mem_cons, List.not_mem_nil, or_false] at hw ⊢
  rcases hw with h | h | h | h | h | h <;> simp [h]

theorem dd5_opsOk : OpsOkW 6 (initWorld cxRules) ddOps5 := by
  refine ⟨?_, ?_, trivial, trivial, trivial, trivial⟩
  · intro t dof _ n hn; cases hn
  · intro t dof _ n hn; cases hn

/-- Non-vacuity of `runsOnlyForAReason`: a script really ran, and the theorem names a reason (here: never built). -/
example : Reason ddW5 2 :=
  runsOnlyForAReason 6 cxRules cxRank ddOps5 [2] false cx_rulesOk dd5_ops dd5_ranked dd_rankLt dd5_opsOk 2 dd5_ran

/-! ### The hypothesis on `//ALWAYS` is necessary -/

def sAl : Script := { always := true }
def alOps : List UserOp := [.setProg [17] sAl, .write 1 7]
def alW : World := alOps.foldl (fun w op => (applyOp {} 3 op w).2) (initWorld cxRules)
def alRes1 : Result × World := runCmd {} 3 (.ifchange [2] false) alW
def alRes2 : Result × World := runCmd {} 3 (.ifchange [2] false) { alRes1.2 with trace := [] }

theorem al_status1 : alRes1.1.status = 0 := by decide +kernel
theorem al_always_row : (⟨2, alwaysId, true, false⟩ : Dep) ∈ alRes1.2.deps := by decide +kernel

set_option linter.unusedSimpArgs false in
set_option maxHeartbeats 400000 in
theorem al_run2 : alRes2.1.status = 0 ∧ alRes2.2.trace = [.ran 2] := by
  unfold alRes2 alRes1 alW alOps sAl cxRules
  eval_runR

theorem al_ops : ∀ op ∈ alOps, RichOp cxRules op := by
  intro op hop
  simp only [alOps, List.mem_cons, List.not_mem_nil, or_false] at hop
  rcases hop with rfl | rfl
  · exact ⟨rfl, fun f hf => by simp [sAl] at hf, fun f hf => by simp [sAl] at hf⟩
  · show (1 : Nat) ≠ alwaysId; simp [alwaysId]

theorem al_ranked_of (w : World) (hr : w.rules = cxRules) (hp : ∀ c sc, w.progs c = some sc → sc = sAl) :
    RankedR cxRank w := by
  refine ⟨fun t c hc => ?_, fun t dof hd n sc _ h => ?_⟩
  · rw [hr] at hc; unfold cxRules at hc
    split at hc
    · simp at hc; subst hc; subst_vars; simp [cxRank]
    · simp at hc
  · rw [hr] at hd; unfold cxRules at hd
    split at hd
    · have := hp _ _ h; subst this; subst_vars
      exact ⟨fun _ => by simp [cxRank, alwaysId], fun d hdm => by simp [sAl] at hdm, fun d hdm => by simp [sAl] at hdm⟩
    · simp at hd

theorem al_ranked : ∀ w ∈ worldsOf 3 {} (initWorld cxRules) alOps, RankedR cxRank w := by
  intro w hw
  simp only [alOps, worldsOf, List.mem_cons, List.not_mem_nil, or_false] at hw
  have hp : ∀ (w : World), (w.progs = fun x => if x = [17] then some sAl else none) →
      ∀ c sc, w.progs c = some sc → sc = sAl := by
    intro w hp c sc h
    rw [hp] at h
    simp only at h
    split at h
    · exact (Option.some.inj h).symm
    · cases h
  rcases hw with rfl | rfl | rfl
  · exact al_ranked_of _ rfl (fun c sc h => by cases h)
  · exact al_ranked_of _ rfl (hp _ rfl)
  · exact al_ranked_of _ rfl (hp _ rfl)

theorem al_opsOk : OpsOkW 3 (initWorld cxRules) alOps := by
  refine ⟨?_, trivial, trivial⟩
  intro t dof _ n hn; cases hn

theorem al_rankLt : ∀ f, cxRank f < 3 := by intro f; unfold cxRank; split <;> omega

/-- `repeatQuiet` without its hypothesis on `//ALWAYS`. -/
def RepeatQuietUnconditional : Prop :=
  ∀ (n : Nat) (rules : Nat → List Nat) (rank : Nat → Nat) (ops : List UserOp) (ts : List Nat) (kg kg2 : Bool),
    RulesOk rules → (∀ op ∈ ops, RichOp rules op) →
    (∀ w ∈ worldsOf n {} (initWorld rules) ops, RankedR rank w) → (∀ f, rank f < n) →
    OpsOkW n (initWorld rules) ops → (∀ t ∈ ts, t ≠ alwaysId) →
    let w := ops.foldl (fun w op => (applyOp {} n op w).2) (initWorld rules)
    let r1 := runCmd {} n (.ifchange ts kg) w
    r1.1.status = 0 →
    let r2 := runCmd {} n (.ifchange ts kg2) { r1.2 with trace := [] }
    ∀ t, Ev.ran t ∉ r2.2.trace

/-- It is false: a `redo-always` target is (rightly) executed again by every command. -/
theorem repeatQuietUnconditional_false : ¬ RepeatQuietUnconditional := by
  intro h
  have := h 3 cxRules cxRank alOps [2] false false cx_rulesOk al_ops al_ranked al_rankLt al_opsOk
    (by simp [alwaysId]) al_status1 2
  apply this
  show Ev.ran 2 ∈ alRes2.2.trace
  rw [al_run2.2]; simp

end RedoModel.Deps.Rich
