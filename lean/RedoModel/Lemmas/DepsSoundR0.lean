import RedoModel.Lemmas.DepsSoundSpec
import RedoModel.Lemmas.Deps
import RedoModel.Lemmas.DepsOwned2
/-!
C01 at greater generality: statement-level definitions for *rich* scripts (`redo-always`, `redo-ifcreate`,
conditional declarations, content-dependent failure) and rich user operations (hand-written files at target names).
-/
namespace RedoModel.Deps

/-- A rich script: any number of redo-ifchange commands, optionally redo-always, redo-ifcreate declarations and
conditional declarations; it reads only what it declared (its ifchange lists and its conditional files);
no redo-stamp; it may fail (`exit`, or `failIfOdd` on a declared file). -/
def Script.Rich (sc : Script) : Prop :=
  sc.stamp = 0 ∧ (∀ f ∈ sc.reads, f ∈ sc.ifchange.flatten ∨ f ∈ sc.cond) ∧
  (∀ f, sc.failIfOdd = some f → f ∈ sc.ifchange.flatten)

/-- Stage 1: rich, without `redo-ifcreate` and conditional declarations. -/
def Script.RichA (sc : Script) : Prop := sc.Rich ∧ sc.ifcreate = [] ∧ sc.cond = []

/-- The content-dependent failure test of `runScript` (`failIfOdd`), on the content of the file. -/
def oddC : Option Content → Bool
  | some [x] => x ≥ 3 && x % 2 == 1 && ((x - 3) / 2) % 2 == 1
  | _ => false

def Cmd.names : Cmd → List Nat
  | .redo ts _ => ts
  | .ifchange ts _ => ts
  | _ => []

/-- Stage 1 user operations: the plain ones, with `RichA` scripts; commands do not name the `//ALWAYS` pseudo file. -/
def AlwaysOp (rules : Nat → List Nat) : UserOp → Prop
  | .write f _ => rules f = [] ∧ f ≠ alwaysId
  | .remove f => f ≠ alwaysId
  | .chmod f => rules f = [] ∧ f ≠ alwaysId
  | .hide _ => False
  | .unhide _ => False
  | .setProg _ s => s.RichA
  | .cmd c => ∀ t ∈ c.names, t ≠ alwaysId
  | .crashCmd _ _ _ => False

/-- Stage 2 user operations: as stage 1, with any rich script (`redo-ifcreate`, conditional declarations). -/
def WatchOp (rules : Nat → List Nat) : UserOp → Prop
  | .write f _ => rules f = [] ∧ f ≠ alwaysId
  | .remove f => f ≠ alwaysId
  | .chmod f => rules f = [] ∧ f ≠ alwaysId
  | .hide _ => False
  | .unhide _ => False
  | .setProg _ s => s.Rich
  | .cmd c => ∀ t ∈ c.names, t ≠ alwaysId
  | .crashCmd _ _ _ => False

/-- Stage 3 user operations: as stage 2, and the user may write ANY file but the `//ALWAYS` pseudo file: hand-written
files at target names, hand edits of generated targets (then the file is the user's: override semantics). -/
def RichOp (_rules : Nat → List Nat) : UserOp → Prop
  | .write f _ => f ≠ alwaysId
  | .remove f => f ≠ alwaysId
  | .chmod f => _rules f = [] ∧ f ≠ alwaysId
  | .hide _ => False
  | .unhide _ => False
  | .setProg _ s => s.Rich
  | .cmd c => ∀ t ∈ c.names, t ≠ alwaysId
  | .crashCmd _ _ _ => False

theorem WatchOp.toRich {rules : Nat → List Nat} : ∀ {op : UserOp}, WatchOp rules op → RichOp rules op
  | .write _ _, h => h.2
  | .remove _, h => h
  | .chmod _, h => h
  | .hide _, h => h
  | .unhide _, h => h
  | .setProg _ _, h => h
  | .cmd _, h => h
  | .crashCmd _ _ _, h => h

theorem AlwaysOp.toWatch {rules : Nat → List Nat} : ∀ {op : UserOp}, AlwaysOp rules op → WatchOp rules op
  | .write _ _, h => h
  | .remove _, h => h
  | .chmod _, h => h
  | .hide _, h => h
  | .unhide _, h => h
  | .setProg _ _, h => h.1
  | .cmd _, h => h
  | .crashCmd _ _ _, h => h

end RedoModel.Deps

namespace RedoModel.Deps.Rich

def contentOf (w : World) (f : Nat) : Option Content := (w.fs f).map (·.content)

/-- Would the script fail on the present contents? -/
def failNowOf (w : World) (sc : Script) : Bool :=
  match sc.failIfOdd with
  | none => false
  | some f => oddC (contentOf w f)

/-- The script a .do file stands for, as `startSelf` computes it. -/
def scriptAt (w : World) (dof : Nat) : Script :=
  match w.fs dof with
  | some n => (w.progs n.content).getD {}
  | none => {}

/-- First existing candidate (what `findDoFile` chooses). -/
def firstEx (w : World) : List Nat → Option Nat
  | [] => none
  | c :: cs => if existsF w c then some c else firstEx w cs

def outOf (w : World) (sc : Script) : Option Content :=
  if sc.outMode = 2 then none else some (outContent sc.tag (sc.reads.map (contentOf w)))

/-- "Has the content a from-scratch build would produce", for rich scripts.  A file without an existing .do
candidate, a file redo does not own (hand-written) and an overridden file stand for themselves.  A target is up to
date when its chosen script, run now on up-to-date inputs, would succeed and produce exactly this content:
every declared dependency is up to date, every conditional file that exists is up to date, no `redo-ifcreate`
object exists (else the script fails), the script does not fail (`exit`, `failIfOdd`). -/
inductive UpToDateR (w : World) : Nat → Prop
  | source {f} : (∀ c ∈ w.rules f, existsF w c = false) → UpToDateR w f
  | user {f} : (w.recs f).isGenerated = false → existsF w f = true → UpToDateR w f
  | override {f} : (w.recs f).isOverride = true → existsF w f = true → UpToDateR w f
  | target {t dof} : firstEx w (w.rules t) = some dof →
      (∀ d ∈ (scriptAt w dof).ifchange.flatten, UpToDateR w d) →
      (∀ d ∈ (scriptAt w dof).cond, existsF w d = true → UpToDateR w d) →
      (∀ d ∈ (scriptAt w dof).ifcreate, existsF w d = false) →
      (scriptAt w dof).exit = 0 → failNowOf w (scriptAt w dof) = false →
      contentOf w t = outOf w (scriptAt w dof) → UpToDateR w t

/-- Everything a script names ranks below the target and is not the `//ALWAYS` pseudo file; the pseudo file
ranks below every target whose script says `redo-always`. -/
def RankedR (rank : Nat → Nat) (w : World) : Prop :=
  (∀ t, ∀ c ∈ w.rules t, rank c < rank t) ∧
  ∀ t, ∀ dof ∈ w.rules t, ∀ n sc, w.fs dof = some n → w.progs n.content = some sc →
    (sc.always = true → rank alwaysId < rank t) ∧
    (∀ d, (d ∈ sc.ifchange.flatten ∨ d ∈ sc.cond ∨ d ∈ sc.ifcreate) → rank d < rank t ∧ d ≠ alwaysId) ∧
    ∀ d, (d ∈ sc.cond ∨ d ∈ sc.ifcreate) → w.rules d = []

end RedoModel.Deps.Rich
