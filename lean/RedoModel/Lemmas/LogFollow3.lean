import RedoModel.Lemmas.LogFollow1
/-!
# `redo-log --follow` — the follower stops once the lock is free (bounded number of its own steps)

`remaining s`: lines of the open instance not shown yet (nothing open: the lines of the instance at the log name).
From ANY state with the lock free, `2 * remaining s + 5` follower steps in a row are enough to reach `stopped`; the
bound is attained (`pc = top`, `wasLocked = true`).
-/
namespace RedoModel.LogFollow

def remaining (s : Sys) : Nat :=
  match s.opened with
  | some g => (s.insts.getD g []).length - s.pos
  | none => (current s).length

/-- Exact number of follower steps still to go when the lock stays free (an upper bound in the odd case
"reading without a descriptor"). -/
def fuel (s : Sys) : Nat :=
  match s.pc with
  | .stopped => 0
  | .start => 2 * remaining s + 3
  | .check => 2 * remaining s + 3
  | .top => 2 * remaining s + (if s.wasLocked then 5 else 2)
  | .read => 2 * remaining s + (if s.wasLocked then 4 else 1)

theorem fuel_le (s : Sys) : fuel s ≤ 2 * remaining s + 5 := by
  unfold fuel; split <;> (try split) <;> omega

theorem fol_some (s : Sys) (hpc : s.pc ≠ .stopped) : ∃ s', step s .fol = some s' := by
  cases hs : step s .fol with
  | some s' => exact ⟨s', rfl⟩
  | none =>
    exfalso
    simp only [step] at hs
    split at hs
    · cases hs
    · split at hs
      · cases hs
      · split at hs <;> cases hs
    · split at hs
      · cases hs
      · split at hs <;> cases hs
    · cases hs
    · next h => exact hpc h

theorem fol_decr (s s' : Sys) (hph : s.phase = .idle) (h : step s .fol = some s') :
    s'.phase = .idle ∧ s'.insts = s.insts ∧ fuel s' + 1 ≤ fuel s := by
  simp only [step] at h
  split at h
  · next hp =>
    cases h
    refine ⟨hph, rfl, ?_⟩
    simp [fuel, hp, locked, hph, remaining, current]
  · next hp =>
    split at h
    · next g ho =>
      cases h
      refine ⟨hph, rfl, ?_⟩
      simp only [fuel, hp, remaining, ho]
      split <;> omega
    · next ho =>
      split at h
      · cases h
        refine ⟨hph, rfl, ?_⟩
        simp only [fuel, hp, remaining, ho, current]
        split <;> omega
      · cases h
        refine ⟨hph, rfl, ?_⟩
        simp only [fuel, hp, remaining, ho, current, getD_last, Nat.sub_zero]
        split <;> omega
  · next hp =>
    split at h
    · next l hl =>
      cases h
      refine ⟨hph, rfl, ?_⟩
      split at hl
      · next g ho =>
        have hlt : s.pos < (s.insts.getD g []).length := (List.getElem?_eq_some_iff.mp hl).1
        simp only [fuel, hp, remaining, ho]
        split <;> omega
      · cases hl
    · next hl =>
      split at h
      · next hw =>
        cases h
        refine ⟨hph, rfl, ?_⟩
        simp only [fuel, hp, remaining, current, hw, if_true]
        split <;> omega
      · cases h
        refine ⟨hph, rfl, ?_⟩
        simp only [fuel, hp]
        split <;> omega
  · next hp =>
    cases h
    refine ⟨hph, rfl, ?_⟩
    simp [fuel, hp, locked, hph, remaining, current]
  · cases h

theorem fol_progress (s : Sys) (hph : s.phase = .idle) (hpc : s.pc ≠ .stopped) :
    ∃ s', step s .fol = some s' ∧ s'.phase = .idle ∧ s'.insts = s.insts ∧ fuel s' + 1 ≤ fuel s := by
  obtain ⟨s', hs⟩ := fol_some s hpc
  exact ⟨s', hs, fol_decr s s' hph hs⟩

theorem stops_within_fuel (k : Nat) : ∀ s : Sys, s.phase = .idle → fuel s ≤ k →
    ∃ n s', n ≤ fuel s ∧ run s (List.replicate n .fol) = some s' ∧ s'.pc = .stopped ∧
      s'.phase = .idle ∧ s'.insts = s.insts := by
  induction k with
  | zero =>
    intro s hph hk
    refine ⟨0, s, Nat.zero_le _, rfl, ?_, hph, rfl⟩
    cases hp : s.pc with
    | stopped => rfl
    | start => simp [fuel, hp] at hk
    | check => simp [fuel, hp] at hk
    | top => simp only [fuel, hp] at hk; split at hk <;> omega
    | read => simp only [fuel, hp] at hk; split at hk <;> omega
  | succ k ih =>
    intro s hph hk
    by_cases hpc : s.pc = .stopped
    · exact ⟨0, s, Nat.zero_le _, rfl, hpc, hph, rfl⟩
    · obtain ⟨s1, hs, hph1, hin1, hf⟩ := fol_progress s hph hpc
      obtain ⟨n, s', hn, hr, hst, hph', hin'⟩ := ih s1 hph1 (by omega)
      refine ⟨n + 1, s', by omega, ?_, hst, hph', hin'.trans hin1⟩
      simp only [List.replicate_succ, run, hs]; exact hr

/-- Main statement 5 (any state with the lock free). -/
theorem follow_stops_core (s : Sys) (hph : s.phase = .idle) :
    ∃ n s', n ≤ 2 * remaining s + 5 ∧ run s (List.replicate n .fol) = some s' ∧ s'.pc = .stopped ∧
      s'.phase = .idle ∧ s'.insts = s.insts := by
  obtain ⟨n, s', hn, h⟩ := stops_within_fuel (fuel s) s hph (Nat.le_refl _)
  exact ⟨n, s', Nat.le_trans hn (fuel_le s), h⟩

theorem replicate_fol_no_create (n : Nat) : Ev.create ∉ List.replicate n Ev.fol := by
  intro h; cases (List.mem_replicate.mp h).2

/-- Liveness and completeness together: in a session without `create`, once the lock is free a bounded number of
follower steps ends the loop with the whole current log shown. -/
theorem follow_stops_complete_core (insts : List (List Nat)) (ph : Phase) (es : List Ev) (s : Sys)
    (hb : Ev.create ∉ es) (h : run (enter insts ph) es = some s) (hph : s.phase = .idle) :
    ∃ n s', n ≤ 2 * remaining s + 5 ∧ run (enter insts ph) (es ++ List.replicate n .fol) = some s' ∧
      s'.pc = .stopped ∧ s'.emitted.reverse = current s ∧ current s' = current s := by
  obtain ⟨n, s', hn, hr, hst, _, hin⟩ := follow_stops_core s hph
  have hrun := run_append_some h hr
  have hnc : Ev.create ∉ es ++ List.replicate n Ev.fol := by
    intro hm; rcases List.mem_append.mp hm with hm | hm
    · exact hb hm
    · exact replicate_fol_no_create n hm
  have hc : current s' = current s := by simp [current, hin]
  refine ⟨n, s', hn, hrun, hst, ?_, hc⟩
  rw [← hc]
  exact (complete_of_good (Good_enter insts ph) hrun hnc hst).1

end RedoModel.LogFollow
