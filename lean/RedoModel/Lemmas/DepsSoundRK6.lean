import RedoModel.Lemmas.DepsSoundRK5
/-! Killed builds, rich histories: `ssBuild` and `startSelf` with the outcome "killed". -/
namespace RedoModel.Deps.Rich
open RedoModel.Generated

theorem ssBuildK_spec {rank R E t w b} {cx : Ctx} (hE : ESpecK rank R E) (hT : ETr E) (d : Defects)
    (hcx : cx.runid = R) (hS : SK w) (hi : Inv rank R NoX w) (h0 : t ≠ alwaysId) (hng : ¬ Good w R t)
    (hlt : rank t < b) (po : Option Nat) {sf : Rec} (hsf : StaleOk w t sf) :
    Killed rank R w (ssBuild E d cx t sf w) ∨ JobPostW rank R NoX t b po w (ssBuild E d cx t sf w) := by
  subst hcx
  obtain ⟨p1, p2, p3, p4, p5⟩ := ssb_prep hi hng
  have pk := prep_keepT (t := t) hS hi
  have pS : SK (findDoFile t ((zapDeps1 w t).rules t) (zapDeps1 w t)).2 :=
    hS.tr ((Tr.zapDeps1 w t).trans (Tr.findDoFile t ((zapDeps1 w t).rules t) (zapDeps1 w t) (fun _ h => h)))
  unfold ssBuild
  simp only
  generalize findDoFile t ((zapDeps1 w t).rules t) (zapDeps1 w t) = fr at p1 p2 p3 p4 p5 pk pS ⊢
  obtain ⟨o, w2⟩ := fr
  dsimp only at p1 p2 p3 p4 p5 pk pS
  cases o with
  | none =>
    simp only
    exact Or.inr (ssb_none hsf h0 hng p2 p3 hlt).weak
  | some dof =>
    simp only
    have hi2 : Inv rank cx.runid NoX w2 := p2.release (pk dof rfl)
    have hdm : dof ∈ w.rules t := (firstEx_mem _ _ p1.symm).1
    have run := ssb_runK (E := E) (cx := cx) hE hT d rfl pS hi2 (fun h => hng ((p3.good _ t).1 h))
      (dof := dof) (by rw [p3.rules]; exact hdm)
      (by rw [p3.existsF]; exact (firstEx_mem _ _ p1.symm).2)
    unfold startW at run
    show Killed rank cx.runid w
      (if (runScript E d cx t (scriptAt (ev (setRec w2 dof (setStatic w2 dof (w2.recs dof) cx.runid)) (Ev.ran t)) dof)
            (ev (setRec w2 dof (setStatic w2 dof (w2.recs dof) cx.runid)) (Ev.ran t))).fst = CRASHED then
        (CRASHED, (runScript E d cx t (scriptAt (ev (setRec w2 dof (setStatic w2 dof (w2.recs dof) cx.runid)) (Ev.ran t)) dof)
            (ev (setRec w2 dof (setStatic w2 dof (w2.recs dof) cx.runid)) (Ev.ran t))).2.snd)
      else recordNewState cx t sf
        (runScript E d cx t (scriptAt (ev (setRec w2 dof (setStatic w2 dof (w2.recs dof) cx.runid)) (Ev.ran t)) dof)
            (ev (setRec w2 dof (setStatic w2 dof (w2.recs dof) cx.runid)) (Ev.ran t))).fst
        (runScript E d cx t (scriptAt (ev (setRec w2 dof (setStatic w2 dof (w2.recs dof) cx.runid)) (Ev.ran t)) dof)
            (ev (setRec w2 dof (setStatic w2 dof (w2.recs dof) cx.runid)) (Ev.ran t))).2.fst
        (runScript E d cx t (scriptAt (ev (setRec w2 dof (setStatic w2 dof (w2.recs dof) cx.runid)) (Ev.ran t)) dof)
            (ev (setRec w2 dof (setStatic w2 dof (w2.recs dof) cx.runid)) (Ev.ran t))).2.snd) ∨
      JobPostW rank cx.runid NoX t b po w
      (if (runScript E d cx t (scriptAt (ev (setRec w2 dof (setStatic w2 dof (w2.recs dof) cx.runid)) (Ev.ran t)) dof)
            (ev (setRec w2 dof (setStatic w2 dof (w2.recs dof) cx.runid)) (Ev.ran t))).fst = CRASHED then
        (CRASHED, (runScript E d cx t (scriptAt (ev (setRec w2 dof (setStatic w2 dof (w2.recs dof) cx.runid)) (Ev.ran t)) dof)
            (ev (setRec w2 dof (setStatic w2 dof (w2.recs dof) cx.runid)) (Ev.ran t))).2.snd)
      else recordNewState cx t sf
        (runScript E d cx t (scriptAt (ev (setRec w2 dof (setStatic w2 dof (w2.recs dof) cx.runid)) (Ev.ran t)) dof)
            (ev (setRec w2 dof (setStatic w2 dof (w2.recs dof) cx.runid)) (Ev.ran t))).fst
        (runScript E d cx t (scriptAt (ev (setRec w2 dof (setStatic w2 dof (w2.recs dof) cx.runid)) (Ev.ran t)) dof)
            (ev (setRec w2 dof (setStatic w2 dof (w2.recs dof) cx.runid)) (Ev.ran t))).2.fst
        (runScript E d cx t (scriptAt (ev (setRec w2 dof (setStatic w2 dof (w2.recs dof) cx.runid)) (Ev.ran t)) dof)
            (ev (setRec w2 dof (setStatic w2 dof (w2.recs dof) cx.runid)) (Ev.ran t))).2.snd)
    generalize scriptAt (ev (setRec w2 dof (setStatic w2 dof (w2.recs dof) cx.runid)) (Ev.ran t)) dof = sc at run ⊢
    generalize runScript E d cx t sc (ev (setRec w2 dof (setStatic w2 dof (w2.recs dof) cx.runid)) (Ev.ran t)) = res
      at run ⊢
    obtain ⟨rv, out, w5⟩ := res
    dsimp only at run ⊢
    rcases run with ⟨k1, k2, k3, k4⟩ | ⟨r1, r2, r3, r4, r5⟩
    · left
      dsimp only at k1 k2 k3 k4
      subst k1
      simp only [if_true]
      exact ⟨rfl, k2, k3.trans p3.eqv.rc, k4.trans p3.rules⟩
    right
    dsimp only at r1 r2 r3 r4 r5
    simp only [r3, if_false]
    by_cases hrv : rv = 0
    · subst hrv
      obtain ⟨hout, ran⟩ := r5 rfl
      obtain ⟨pre, post, hr, hpre, hdex⟩ := firstEx_some_split _ _ p1.symm
      have built := ssb_built hi hng p3 hr hpre hdex (by rw [p1]; exact p4) (p5 pre dof post hr hpre hdex) r1 r2 ran
      rw [hout]
      exact ssb_ok sf rfl p3 built r1 r2 hlt po
        (fun h => r4 ((h.eqv p3.eqv : NoFail cx.runid { w2 with deps := w.deps })) rfl)
    · exact (ssb_fail hsf rfl hng p3 r1 r2 hdm hlt po _ _ hrv r3).weak

theorem startSelfK_spec_cur {rank R E t w b} {cx : Ctx} (hE : ESpecK rank R E) (hT : ETr E) (d : Defects)
    (hcx : cx.runid = R) (hS : SK w) (hi : Inv rank R NoX w) (h0 : t ≠ alwaysId)
    (hgg : Good w R t → genT (w.recs t) = false) (hngB : existsF w t = false → ¬ Good w R t)
    (hlt : rank t < b) (po : Option Nat) :
    Killed rank R w (startSelf E d cx t (w.recs t) w) ∨
    JobPostW rank R NoX t b po w (startSelf E d cx t (w.recs t) w) := by
  rw [startSelf_eq]
  unfold ssGuard
  by_cases hc : ((w.recs t).isGenerated && readStamp w t != .missing &&
      ((w.recs t).isOverride || detectOverride ((w.recs t).stamp.getD .missing) (readStamp w t))) = true
  · -- the guard fires
    right
    have hc' := hc
    simp only [Bool.and_eq_true] at hc'
    have hgen : (w.recs t).isGenerated = true := hc'.1.1
    have hex : existsF w t = true := existsF_of_readStamp_ne hc'.1.2
    simp only [hc, if_true]
    have hex' : existsF (setRec (ev w (.warnOverride t)) t (setOverride (ev w (.warnOverride t)) t (w.recs t) cx.runid)) t
        = true := hex
    simp only [hex', setOverride_ovr, Bool.true_or, Bool.and_self, if_true, Bool.not_true, Bool.false_eq_true, if_false]
    subst hcx
    exact startSelf_override po _ hi hex hgen hgg hlt
  · simp only [hc, Bool.false_eq_true, if_false]
    split
    · rename_i hs
      right
      simp only [Bool.and_eq_true, Bool.or_eq_true, Bool.not_eq_true'] at hs
      obtain ⟨hex, hs2⟩ := hs
      have hne : (readStamp w t != .missing) = true := by
        simp only [bne_iff_ne, ne_eq]; exact readStamp_ne_missing hex
      have hovr : (w.recs t).isOverride = false := by
        cases ho : (w.recs t).isOverride with
        | false => rfl
        | true =>
          exfalso; apply hc
          rw [(hi.base.ovrSt t ho).1, hne, ho]; rfl
      have hgen : (w.recs t).isGenerated = false := by
        rcases hs2 with h | h
        · rw [hovr] at h; cases h
        · exact h
      simp only [hovr, Bool.not_false, if_true]
      subst hcx
      obtain ⟨a1, a2, a3, a4⟩ := setStatic_spec (b := b) (po := po) hi hex hgen hlt
      exact ⟨a1, a3, fun _ _ => a2, fun h _ => a4 h, CRASHED_ne_zero⟩
    · rename_i hs
      refine ssBuildK_spec hE hT d hcx hS hi h0 (fun hg => hs ?_) hlt po (Or.inl (Flds.refl _))
      have hst := hgg hg
      have hex : existsF w t = true := by
        cases he : existsF w t with
        | true => rfl
        | false => exact absurd hg (hngB he)
      simp only [Bool.and_eq_true, Bool.or_eq_true, Bool.not_eq_true']
      exact ⟨hex, (genT_false.1 hst).symm⟩

/-- `startSelf` on a target that is not a verified redo-owned target; `sf` is the job's copy of the record. -/
theorem startSelfK_spec {rank R E t w b} {cx : Ctx} (hE : ESpecK rank R E) (hT : ETr E) (d : Defects)
    (hcx : cx.runid = R) (hS : SK w) (hi : Inv rank R NoX w)
    (h0 : t ≠ alwaysId) (hV : VerR w R t → genT (w.recs t) = false)
    (hlt : rank t < b) (po : Option Nat) {sf : Rec}
    (hsf : sf = w.recs t ∨ (AgreeV sf (w.recs t) ∧ w.fs t = none ∧ sf.stamp ≠ some .missing)) :
    Killed rank R w (startSelf E d cx t sf w) ∨ JobPostW rank R NoX t b po w (startSelf E d cx t sf w) := by
  have hgg : Good w R t → genT (w.recs t) = false := fun h => h.elim hV (fun h => h.2.2)
  have hngB : existsF w t = false → ¬ Good w R t := fun hne hg => by
    have := static_exists hi.base h0 (hg.recCur hi) (hgg hg); rw [hne] at this; cases this
  rcases hsf with rfl | ⟨hav, hfs, hst⟩
  · exact startSelfK_spec_cur hE hT d hcx hS hi h0 hgg hngB hlt po
  · rw [startSelf_eq, ssGuard_missing _ _ _ _ hfs]
    have hex : existsF w t = false := existsF_eq_false.2 hfs
    simp only [hex, Bool.false_and, Bool.false_eq_true, if_false]
    exact ssBuildK_spec hE hT d hcx hS hi h0 (hngB hex) hlt po (Or.inr ⟨hav, hfs, hst⟩)

end RedoModel.Deps.Rich
