import RedoModel.Lemmas.DepsSoundS5
/-! The dirtiness check: frame `DExt`, snapshot relation, specification of `goDeps` and `isDirty`. -/
namespace RedoModel.Deps.S

/-- The copy `r` of the record of `f` that the check works on agrees with the database except perhaps for an
older `checked` (and the synthetic `changed` of `//ALWAYS`). -/
structure Snap (w : World) (R f : Nat) (r : Rec) : Prop where
  failed : r.failed = (w.recs f).failed
  stamp : r.stamp = (w.recs f).stamp
  gen : r.isGenerated = (w.recs f).isGenerated
  ovr : r.isOverride = (w.recs f).isOverride
  csum : r.csum = (w.recs f).csum
  row : r.row = (w.recs f).row
  changed : f ≠ alwaysId → r.changed = (w.recs f).changed
  checked : r.checked = (w.recs f).checked ∨ (w.recs f).checked = some R
  ckLe : ∀ c, r.checked = some c → c ≤ R

/-- The copy `r` of the record of `f` was taken before an earlier check in the same loop found the file of `f` gone
and wrote that into the database. -/
structure Van (w : World) (R f : Nat) (r : Rec) : Prop where
  failed : r.failed = none
  fs : w.fs f = none
  stamp : ∃ old, r.stamp = some old ∧ old ≠ .missing
  gen : r.isGenerated = true
  nck : isCheckedR r R = false
  recEq : w.recs f = { r with isGenerated := false, isOverride := false, failed := some 0 }

def Snap2 (w : World) (R f : Nat) (r : Rec) : Prop := Snap w R f r ∨ Van w R f r

/-- Frame of the dirtiness check of a file of rank `< b`, whatever its verdict. -/
structure DExt (rank : Nat → Nat) (R b : Nat) (w w' : World) : Prop where
  same : SameButRecs w w'
  above : ∀ x, b ≤ rank x → w'.recs x = w.recs x
  ver : ∀ x, VerR w R x → VerR w' R x ∧ (w'.recs x).isGenerated = (w.recs x).isGenerated
  stat : ∀ x, RecCur w x → (w.recs x).isGenerated = false → RecCur w' x ∧ (w'.recs x).isGenerated = false
  fail : ∀ x, (w'.recs x).failed = (w.recs x).failed ∨ (w'.recs x).failed = some 0
  snap : ∀ g r, Snap2 w R g r → Snap2 w' R g r

theorem DExt.refl (rank R b w) : DExt rank R b w w :=
  ⟨SameButRecs.refl w, fun _ _ => rfl, fun _ h => ⟨h, rfl⟩, fun _ h1 h2 => ⟨h1, h2⟩, fun _ => Or.inl rfl, fun _ _ h => h⟩

theorem DExt.trans {rank R b w w' w''} (h1 : DExt rank R b w w') (h2 : DExt rank R b w' w'') : DExt rank R b w w'' :=
  ⟨h1.same.trans h2.same, fun x hx => (h2.above x hx).trans (h1.above x hx),
   fun x hv => ⟨(h2.ver x (h1.ver x hv).1).1, (h2.ver x (h1.ver x hv).1).2.trans (h1.ver x hv).2⟩,
   fun x hc hg => h2.stat x (h1.stat x hc hg).1 (h1.stat x hc hg).2,
   fun x => by
    rcases h2.fail x with e2 | e2
    · rcases h1.fail x with e1 | e1
      · exact Or.inl (e2.trans e1)
      · exact Or.inr (e2.trans e1)
    · exact Or.inr e2,
   fun g r h => h2.snap g r (h1.snap g r h)⟩

theorem DExt.mono {rank R b b' w w'} (h : DExt rank R b w w') (hb : b ≤ b') : DExt rank R b' w w' :=
  ⟨h.same, fun x hx => h.above x (Nat.le_trans hb hx), h.ver, h.stat, h.fail, h.snap⟩

theorem Snap.getRec {rank R w} (hb : Base rank R X w) (f : Nat) : Snap w R f (getRec w R f) := by
  unfold Deps.getRec
  split
  · exact ⟨rfl, rfl, rfl, rfl, rfl, rfl, fun h => absurd ‹_› h, Or.inl rfl, hb.ckLe f⟩
  · exact ⟨rfl, rfl, rfl, rfl, rfl, rfl, fun _ => rfl, Or.inl rfl, hb.ckLe f⟩

theorem Snap.ext {rank R b w w' f r} (hs : Snap w R f r) (h : CkExt rank R b w w') : Snap w' R f r := by
  obtain ⟨f1, f2, f3, f4, f5, f6, f7⟩ := h.fields f
  refine ⟨by rw [f1]; exact hs.failed, by rw [f3]; exact hs.stamp, by rw [f4]; exact hs.gen,
    by rw [f5]; exact hs.ovr, by rw [f6]; exact hs.csum, ?_, fun h0 => by rw [f2]; exact hs.changed h0, ?_, ?_⟩
  · rcases h.2 f with e | ⟨_, e, _⟩ <;> rw [e] <;> exact hs.row
  · rcases f7 with e | e
    · rw [e]; exact hs.checked
    · exact Or.inr e
  · exact hs.ckLe

theorem Van.ext {rank R b w w' f r} (hs : Van w R f r) (h : CkExt rank R b w w') : Van w' R f r := by
  refine ⟨hs.failed, by rw [h.fs]; exact hs.fs, hs.stamp, hs.gen, hs.nck, ?_⟩
  rcases h.2 f with e | ⟨_, _, e⟩
  · rw [e]; exact hs.recEq
  · rw [hs.recEq] at e; cases e

theorem Snap2.ext {rank R b w w' f r} (hs : Snap2 w R f r) (h : CkExt rank R b w w') : Snap2 w' R f r :=
  hs.imp (fun x => x.ext h) (fun x => x.ext h)

theorem CkExt.toDExt {rank R b w w'} (h : CkExt rank R b w w') : DExt rank R b w w' :=
  ⟨h.1, fun _ hx => h.above hx, fun x hv => ⟨VerR_ext h hv, (h.fields x).2.2.2.1⟩,
   fun x hc hg => ⟨(RecCur_ext h x).2 hc, by rw [(h.fields x).2.2.2.1]; exact hg⟩,
   fun x => Or.inl (h.fields x).1, fun _ _ hs => hs.ext h⟩

/-- What a non-clean verdict may have done to the record of the file itself. -/
def OwnRel (w w' : World) (f : Nat) : Prop :=
  w'.recs f = w.recs f ∨
  (w'.recs f = { w.recs f with isGenerated := false, isOverride := false, failed := some 0 } ∧ w.fs f = none)

/-- What a `need` verdict for `f` lists: `f` itself, or files below it. -/
def NeedOk (rank : Nat → Nat) (f b : Nat) (ts : List Nat) : Prop :=
  ts = [f] ∨ (ts ≠ [] ∧ ∀ x ∈ ts, rank x < b)

def ChkPost (rank : Nat → Nat) (X : Nat → Prop) (R mx f : Nat) (w : World) (res : DR × World × List Nat) : Prop :=
  Inv rank R X res.2.1 ∧ DExt rank R (rank f + 1) w res.2.1 ∧ (∀ ts, res.1 = .need ts → NeedOk rank f (rank f) ts) ∧
  (res.1 = .clean → CkExt rank R (rank f + 1) w res.2.1 ∧ VerR res.2.1 R f ∧ ¬ DetectM w mx f) ∧
  (res.1 ≠ .clean → OwnRel w res.2.1 f)

/-- The check on a copy taken before the file was found gone: nothing happens. -/
def VanPost (f : Nat) (w : World) (res : DR × World × List Nat) : Prop :=
  res.2.1 = w ∧ (res.1 = .cyclic ∨ res.1 = .dirty ∨ res.1 = .need [f])

def ChkSpec (rank : Nat → Nat) (X : Nat → Prop) (R mx : Nat) (chk : World → List Nat → Nat → Rec → DR × World × List Nat) : Prop :=
  ∀ w cache s snap, Inv rank R X w → (∀ x, X x → rank s < rank x) →
    (Snap w R s snap → ChkPost rank X R mx s w (chk w cache s snap)) ∧
    (Van w R s snap → VanPost s w (chk w cache s snap))

/-- Outcome of the loop over recorded rows. -/
def GoPost (rank : Nat → Nat) (X : Nat → Prop) (R mx b f : Nat) (ds : List (Dep × Rec)) (must : List Nat) (w : World)
    (res : Option DR × World × List Nat) : Prop :=
  Inv rank R X res.2.1 ∧ DExt rank R b w res.2.1 ∧ res.1 ≠ some .clean ∧
  (∀ ts, res.1 = some (.need ts) → NeedOk rank f b ts) ∧
  (res.1 = none → must = [] ∧ CkExt rank R b w res.2.1 ∧ ∀ p ∈ ds,
      (p.1.modeM = true → VerR res.2.1 R p.1.source ∧ ¬ DetectM res.2.1 mx p.1.source) ∧
      (p.1.modeM = false → existsF res.2.1 p.1.source = false))

theorem GoPost.step {rank R mx b f d snap ds must w w1 res} (h1 : CkExt rank R b w w1)
    (hd : (d.modeM = true → VerR w1 R d.source ∧ ¬ DetectM w1 mx d.source) ∧
      (d.modeM = false → existsF w1 d.source = false))
    (h : GoPost rank X R mx b f ds must w1 res) : GoPost rank X R mx b f ((d, snap) :: ds) must w res := by
  obtain ⟨hi, hdx, hnc, hnd, hr⟩ := h
  refine ⟨hi, h1.toDExt.trans hdx, hnc, hnd, fun hn => ?_⟩
  obtain ⟨hm, hck, hall⟩ := hr hn
  refine ⟨hm, h1.trans hck, ?_⟩
  intro p hp
  rcases List.mem_cons.1 hp with rfl | hp
  · exact ⟨fun hm => ⟨VerR_ext hck (hd.1 hm).1, fun hdt => (hd.1 hm).2 ((DetectM_ext hck _ _).1 hdt)⟩,
      fun hm => by rw [hck.existsF]; exact hd.2 hm⟩
  · exact hall p hp

/-- A step of the loop that was not clean, but does not stop it either. -/
theorem GoPost.skip {rank R mx b f p ds must must' w w1 res} (h1 : DExt rank R b w w1) (hne : must' ≠ [])
    (h : GoPost rank X R mx b f ds must' w1 res) : GoPost rank X R mx b f (p :: ds) must w res := by
  obtain ⟨hi, hdx, hnc, hnd, hr⟩ := h
  exact ⟨hi, h1.trans hdx, hnc, hnd, fun hn => absurd (hr hn).1 hne⟩

theorem GoPost.stop {rank R mx b f ds must w w1 c} {dr : DR} (hi : Inv rank R X w1) (h1 : DExt rank R b w w1)
    (hc : dr ≠ .clean) (hn : ∀ ts, dr = .need ts → NeedOk rank f b ts) :
    GoPost rank X R mx b f ds must w (some dr, w1, c) :=
  ⟨hi, h1, fun e => hc (Option.some.inj e), fun ts e => hn ts (Option.some.inj e), fun e => by cases e⟩

theorem NeedOk.mono {rank s b ts} (h : NeedOk rank s (rank s) ts) (hs : rank s < b) (hne : ts ≠ []) :
    ∀ x ∈ ts, rank x < b := by
  intro x hx
  rcases h with rfl | ⟨_, h⟩
  · simp only [List.mem_singleton] at hx; subst hx; exact hs
  · exact Nat.lt_trans (h x hx) hs

theorem NeedOk.ne_nil {rank f b ts} (h : NeedOk rank f b ts) : ts ≠ [] := by
  rcases h with rfl | ⟨h, _⟩
  · simp
  · exact h

theorem goDeps_spec {rank R mx} (chk : World → List Nat → Nat → Rec → DR × World × List Nat)
    (hchk : ChkSpec rank X R mx chk) (hasCsum : Bool) (f b : Nat) (hXb : ∀ x, X x → b ≤ rank x) :
    ∀ (ds : List (Dep × Rec)) (w : World) (cache must : List Nat), Inv rank R X w →
      (∀ p ∈ ds, Snap2 w R p.1.source p.2 ∧ rank p.1.source < b) → (∀ x ∈ must, rank x < b) →
      GoPost rank X R mx b f ds must w (goDeps chk hasCsum f ds w cache must)
  | [], w, cache, must, hi, _, hmu => by
    rw [goDeps]
    cases must with
    | nil =>
      simp only [List.isEmpty_nil, if_true]
      exact ⟨hi, DExt.refl _ _ _ _, (fun e => by cases e), (fun ts e => by cases e),
        fun _ => ⟨rfl, CkExt.refl _ _ _ _, fun p hp => by simp at hp⟩⟩
    | cons a l =>
      simp only [List.isEmpty_cons, Bool.false_eq_true, if_false]
      exact GoPost.stop hi (DExt.refl _ _ _ _) (fun e => by cases e)
        (fun ts e => by cases e; exact Or.inr ⟨by simp, hmu⟩)
  | (d, snap) :: ds, w, cache, must, hi, hds, hmu => by
    obtain ⟨hsn, hrk⟩ := hds (d, snap) (by simp)
    have hrest : ∀ w1, DExt rank R b w w1 → ∀ p ∈ ds, Snap2 w1 R p.1.source p.2 ∧ rank p.1.source < b :=
      fun w1 h1 p hp => ⟨h1.snap _ _ (hds p (List.mem_cons_of_mem _ hp)).1, (hds p (List.mem_cons_of_mem _ hp)).2⟩
    have hdirty : ∀ w1 c1, Inv rank R X w1 → DExt rank R b w w1 →
        GoPost rank X R mx b f ((d, snap) :: ds) must w (some (if hasCsum = true then DR.need [f] else DR.dirty), w1, c1) := by
      intro w1 c1 hi1 hd1
      refine GoPost.stop hi1 hd1 (by split <;> intro e <;> cases e) (fun ts e => ?_)
      split at e
      · cases e; exact Or.inl rfl
      · cases e
    rw [goDeps]
    by_cases hm : d.modeM = true
    · simp only [hm, if_true]
      obtain ⟨hA, hB⟩ := hchk w cache d.source snap hi (fun x hx => Nat.lt_of_lt_of_le hrk (hXb x hx))
      rcases hsn with hsn | hsn
      · have h1 := hA hsn
        generalize chk w cache d.source snap = r at h1
        obtain ⟨sub, w1, c1⟩ := r
        obtain ⟨hi1, hdx, hnn, hcl, _⟩ := h1
        have hdx' : DExt rank R b w w1 := hdx.mono hrk
        cases sub with
        | cyclic => exact GoPost.stop hi1 hdx' (fun e => by cases e) (fun ts e => by cases e)
        | dirty => exact hdirty w1 c1 hi1 hdx'
        | need ts =>
          have hok : NeedOk rank d.source (rank d.source) ts := hnn ts rfl
          exact GoPost.skip hdx' (by simp [hok.ne_nil])
            (goDeps_spec chk hchk hasCsum f b hXb ds w1 c1 (must ++ ts) hi1 (hrest w1 hdx') (fun x hx => by
              rcases List.mem_append.1 hx with hx | hx
              · exact hmu x hx
              · exact hok.mono hrk hok.ne_nil x hx))
        | clean =>
          obtain ⟨hck, hv, hnd⟩ := hcl rfl
          have hck' : CkExt rank R b w w1 := hck.mono hrk
          refine GoPost.step hck' ⟨fun _ => ⟨hv, fun h => hnd ((DetectM_ext hck _ _).1 h)⟩, fun h => ?_⟩
            (goDeps_spec chk hchk hasCsum f b hXb ds w1 c1 must hi1 (hrest w1 hdx') hmu)
          rw [hm] at h; cases h
      · have h1 := hB hsn
        generalize chk w cache d.source snap = r at h1
        obtain ⟨sub, w1, c1⟩ := r
        obtain ⟨hw, hv⟩ := h1
        dsimp only at hw hv
        subst hw
        rcases hv with rfl | rfl | rfl
        · exact GoPost.stop hi (DExt.refl _ _ _ _) (fun e => by cases e) (fun ts e => by cases e)
        · exact hdirty _ c1 hi (DExt.refl _ _ _ _)
        · exact GoPost.skip (DExt.refl _ _ _ _) (by simp)
            (goDeps_spec chk hchk hasCsum f b hXb ds _ c1 (must ++ [d.source]) hi (hrest _ (DExt.refl _ _ _ _))
              (fun x hx => by
                rcases List.mem_append.1 hx with hx | hx
                · exact hmu x hx
                · simp only [List.mem_singleton] at hx; subst hx; exact hrk))
    · have hm' : d.modeM = false := by simpa using hm
      simp only [hm', Bool.false_eq_true, if_false]
      cases hex : existsF w d.source with
      | true => exact hdirty w cache hi (DExt.refl _ _ _ _)
      | false =>
        refine GoPost.step (CkExt.refl _ _ _ _) ⟨fun h => ?_, fun _ => hex⟩
          (goDeps_spec chk hchk hasCsum f b hXb ds w cache must hi (hrest w (DExt.refl _ _ _ _)) hmu)
        rw [hm'] at h; cases h

theorem ne_always_of_stamp {rank R w f} (hb : Base rank R X w) (hf : (w.recs f).failed = none)
    (hs : (w.recs f).stamp ≠ none) : f ≠ alwaysId := by
  intro e; subst e
  rcases hb.rec0 with h | ⟨h, _⟩
  · exact h hf
  · exact hs h

theorem Snap.eq_of_checked {w R f r} (hs : Snap w R f r) (h0 : f ≠ alwaysId) (hc : r.checked = (w.recs f).checked) :
    r = w.recs f := by
  have h1 := hs.failed; have h2 := hs.stamp; have h3 := hs.gen; have h4 := hs.ovr
  have h5 := hs.csum; have h6 := hs.row; have h7 := hs.changed h0
  generalize w.recs f = c at *
  cases r; cases c; simp_all

theorem Snap.withChecked {w R f r} (hs : Snap w R f r) (h0 : f ≠ alwaysId) (x : Option Nat) :
    { r with checked := x } = { w.recs f with checked := x } := by
  have h1 := hs.failed; have h2 := hs.stamp; have h3 := hs.gen; have h4 := hs.ovr
  have h5 := hs.csum; have h6 := hs.row; have h7 := hs.changed h0
  generalize w.recs f = c at *
  cases r; cases c; simp_all

theorem mem_depsOf {w : World} {r : Rec} {f : Nat} {d : Dep} :
    d ∈ depsOf w r f ↔ (r.isOverride = false ∧ r.isGenerated = true) ∧ d ∈ w.deps ∧ d.target = f := by
  unfold depsOf
  split
  · rename_i h
    simp only [Bool.or_eq_true, Bool.not_eq_true'] at h
    constructor
    · intro hd; simp at hd
    · rintro ⟨⟨h1, h2⟩, _⟩
      rcases h with h | h
      · rw [h1] at h; cases h
      · rw [h2] at h; cases h
  · rename_i h
    simp only [Bool.or_eq_true, Bool.not_eq_true', not_or, Bool.not_eq_true, Bool.not_eq_false] at h
    rw [List.mem_mergeSort, List.mem_filter]
    simp [h.1, h.2]

end RedoModel.Deps.S
