import RedoModel.Lemmas.DepsSoundR22
/-! `ssBuild` and `startSelf` for a target that is not good. -/
namespace RedoModel.Deps.Rich

theorem ssb_ok {rank R t w w2 w5 b dof sc pre post} {X : Nat → Prop} {cx : Ctx} (sf : Rec) (hcx : cx.runid = R)
    (hro : RowOp t w w2)
    (built : Built rank R t pre dof post sc w5) (hi5 : Inv rank R (addX X t) w5)
    (hb5 : BExt rank R (rank t) (some t) w2 w5) (hlt : rank t < b) (po : Option Nat)
    (hnf5 : NoFail R w → NoFail R w5) :
    JobPostW rank R X t b po w (recordNewState cx t sf 0 (outOf w5 sc) w5) := by
  have hst : SameT t w w5 := (hro.sameT t).trans (hb5.sameT (Nat.le_refl _))
  have hb05 : BExt rank R b po w w5 := (hro.toBExt hlt).trans (hb5.lift hlt)
  cases hm : (isCheckedR (w5.recs t) cx.runid || isChangedR (w5.recs t) cx.runid) with
  | false =>
    simp only [Bool.or_eq_false_iff] at hm
    obtain ⟨h0, hf⟩ := recordOk_fields cx t sf (outOf w5 sc) w5 hm.1 hm.2
    rw [hcx] at hf
    obtain ⟨a1, a2, a3, a4⟩ := recordOk_spec (b := b) (po := po) (X' := X) hi5 addX_drop built hf hlt
    refine ⟨a1, hb05.trans a3, fun _ _ => Or.inl a2, fun h _ => a4 (hnf5 h), ?_⟩
    rw [h0]; exact CRASHED_ne_zero
  | true =>
    obtain ⟨h0, hf⟩ := recordKeep_fields cx t sf (outOf w5 sc) w5 hm
    rw [hcx] at hm
    have hb := hi5.base
    have hnck : isCheckedR (w5.recs t) R = false := by
      cases hx : isCheckedR (w5.recs t) R with
      | false => rfl
      | true =>
        exfalso
        unfold isCheckedR at hx
        cases hc : (w5.recs t).checked with
        | none => rw [hc] at hx; cases hx
        | some c =>
          rw [hc] at hx
          simp only [Bool.and_eq_true, bne_iff_ne, ne_eq, decide_eq_true_eq] at hx
          have : c = R := by have := hb.ckLe t c hc; omega
          subst this
          exact built.notGood (Or.inl ⟨hb.ckFail t hc, Or.inl hc⟩)
    rw [hnck, Bool.false_or] at hm
    have hchg : (w5.recs t).changed = some R := by
      unfold isChangedR at hm
      cases hc : (w5.recs t).changed with
      | none => rw [hc] at hm; cases hm
      | some c =>
        rw [hc] at hm
        simp only [Bool.and_eq_true, bne_iff_ne, ne_eq, decide_eq_true_eq] at hm
        have := hb.chLe t c hc
        congr; omega
    have hfl : (w5.recs t).failed = some R := by
      rcases hb.markFail t hchg with h | h
      · exact absurd (Or.inl ⟨h, Or.inr hchg⟩) built.notGood
      · exact h
    obtain ⟨a1, a2, a3⟩ := recordKeep_spec (b := b) (po := po) (X' := X) hi5 built.notGood addX_drop hfl hchg
      (built.ne hi5).1 hf hlt
    have hfl0 : (w.recs t).failed = some R := by rw [← hst.flds.failed]; exact hfl
    refine ⟨a1, hb05.trans a2, fun _ h => absurd hfl0 h, fun h _ => absurd hfl0 (h t), ?_⟩
    rw [h0]; exact CRASHED_ne_zero

theorem ssBuild_spec {rank R E t w b} {cx : Ctx} {X : Nat → Prop} (hE : ESpec rank R E) (d : Defects)
    (hcx : cx.runid = R) (hcrash : cx.crash = none) (hi : Inv rank R X w) (h0 : t ≠ alwaysId) (hng : ¬ Good w R t)
    (hXa : ∀ x, X x → rank t < rank x) (hlt : rank t < b) (po : Option Nat) {sf : Rec} (hsf : StaleOk w t sf) :
    JobPostW rank R X t b po w (ssBuild E d cx t sf w) := by
  subst hcx
  obtain ⟨p1, p2, p3, p4, p5⟩ := ssb_prep hi hng
  unfold ssBuild
  simp only
  generalize findDoFile t ((zapDeps1 w t).rules t) (zapDeps1 w t) = fr at p1 p2 p3 p4 p5 ⊢
  obtain ⟨o, w2⟩ := fr
  dsimp only at p1 p2 p3 p4 p5
  cases o with
  | none =>
    simp only
    exact (ssb_none hsf h0 hng p2 p3 hlt).weak
  | some dof =>
    simp only
    have hdm : dof ∈ w.rules t := (firstEx_mem _ _ p1.symm).1
    have run := ssb_run (E := E) (cx := cx) hE d rfl hcrash p2 (fun h => hng ((p3.good _ t).1 h)) hXa
      (dof := dof) (by rw [p3.rules]; exact hdm)
      (by rw [p3.existsF]; exact (firstEx_mem _ _ p1.symm).2)
    unfold startW at run
    show JobPostW rank cx.runid X t b po w
      (if (runScript E d cx t (scriptAt (ev (setRec w2 dof (setStatic w2 dof (w2.recs dof) cx.runid)) (Ev.ran t)) dof)
            (ev (setRec w2 dof (setStatic w2 dof (w2.recs dof) cx.runid)) (Ev.ran t))).fst = CRASHED then
        (CRASHED, (runScript E d cx t (scriptAt (ev (setRec w2 dof (setStatic w2 dof (w2.recs dof) cx.runid)) (Ev.ran t)) dof)
            (ev (setRec w2 dof (setStatic w2 dof (w2.recs dof) cx.runid)) (Ev.ran t))).2.snd)
      else recordNewState cx t sf
        (runScript E d cx t (scriptAt (ev (setRec w2 dof (setStatic w2 dof (w2.recs dof) cx.runid)) (Ev.ran t)) dof)
            (ev (setRec w2 dof (setStatic w2 dof (w2.recs dof) cx.runid)) (Ev.ran t))).fst
        (runScript E d cx t (scriptAt (ev (setRec w2 dof (setStatic w2 dof (w2.recs dof) cx.runid)) (Ev.ran t)) dof)
            (ev (setRec w2 dof (setStatic w2 dof (w2.recs dof) cx.runid)) (Ev.ran t))).2.fst
        (runScript E d cx t (scriptAt (ev (setRec w2 dof (setStatic w2 dof (w2.recs dof) cx.runid)) (Ev.ran t)) dof)
            (ev (setRec w2 dof (setStatic w2 dof (w2.recs dof) cx.runid)) (Ev.ran t))).2.snd)
    generalize scriptAt (ev (setRec w2 dof (setStatic w2 dof (w2.recs dof) cx.runid)) (Ev.ran t)) dof = sc at run ⊢
    generalize runScript E d cx t sc (ev (setRec w2 dof (setStatic w2 dof (w2.recs dof) cx.runid)) (Ev.ran t)) = res
      at run ⊢
    obtain ⟨rv, out, w5⟩ := res
    obtain ⟨r1, r2, r3, r4, r5⟩ := run
    dsimp only at r1 r2 r3 r4 r5 ⊢
    simp only [r3, if_false]
    by_cases hrv : rv = 0
    · subst hrv
      obtain ⟨hout, ran⟩ := r5 rfl
      obtain ⟨pre, post, hr, hpre, hdex⟩ := firstEx_some_split _ _ p1.symm
      have built := ssb_built hi hng p3 hr hpre hdex (by rw [p1]; exact p4) (p5 pre dof post hr hpre hdex) r1 r2 ran
      rw [hout]
      exact ssb_ok sf rfl p3 built r1 r2 hlt po
        (fun h => r4 ((h.eqv p3.eqv : NoFail cx.runid { w2 with deps := w.deps })) rfl)
    · exact (ssb_fail hsf rfl hng p3 r1 r2 hdm hlt po _ _ hrv r3).weak

theorem WEqv.override_world (w : World) (t : Nat) (r : Rec) (e : Ev) :
    WEqv (setRec w t r) (setRec (setRec (Deps.ev w e) t r) t r) := by
  refine ⟨rfl, rfl, rfl, rfl, rfl, rfl, ?_, ?_, ?_, ?_, ?_, ?_, ?_⟩ <;> intro x <;> by_cases h : x = t <;>
    simp [setRec, Deps.ev, h]

/-- The guard of `start_self` fires: the existing file of a generated target was edited (or is a known override). -/
theorem startSelf_override {rank R t w b} {X : Nat → Prop} (po : Option Nat) (e : Ev) (hi : Inv rank R X w)
    (hex : existsF w t = true) (hgen : (w.recs t).isGenerated = true)
    (hgg : Good w R t → genT (w.recs t) = false) (hlt : rank t < b) :
    JobPostW rank R X t b po w
      ((0 : Status), setRec (setRec (ev w e) t (setOverride w t (w.recs t) R)) t (setOverride w t (w.recs t) R)) := by
  have hgg' : Good w R t → (w.recs t).isOverride = true := by
    intro hg
    rcases genT_false.1 (hgg hg) with h | h
    · rw [hgen] at h; cases h
    · exact h
  obtain ⟨a1, a2, a3, a4⟩ := setOverride_spec (b := b) (po := po) hi hex hgen hgg' hlt
  have ew := WEqv.override_world w t (setOverride w t (w.recs t) R) e
  exact ⟨ew.inv a1, a3.trans ew.toBExt, fun _ _ => (ew.good R t).2 a2, fun h _ => (a4 h).eqv ew, CRASHED_ne_zero⟩

theorem startSelf_spec_cur {rank R E t w b} {cx : Ctx} {X : Nat → Prop} (hE : ESpec rank R E) (d : Defects)
    (hcx : cx.runid = R) (hcrash : cx.crash = none) (hi : Inv rank R X w) (h0 : t ≠ alwaysId)
    (hgg : Good w R t → genT (w.recs t) = false) (hngB : existsF w t = false → ¬ Good w R t)
    (hXa : ∀ x, X x → rank t < rank x) (hlt : rank t < b) (po : Option Nat) :
    JobPostW rank R X t b po w (startSelf E d cx t (w.recs t) w) := by
  rw [startSelf_eq]
  unfold ssGuard
  by_cases hc : ((w.recs t).isGenerated && readStamp w t != .missing &&
      ((w.recs t).isOverride || detectOverride ((w.recs t).stamp.getD .missing) (readStamp w t))) = true
  · -- the guard fires
    have hc' := hc
    simp only [Bool.and_eq_true] at hc'
    have hgen : (w.recs t).isGenerated = true := hc'.1.1
    have hex : existsF w t = true := existsF_of_readStamp_ne hc'.1.2
    simp only [hc, if_true]
    have hex' : existsF (setRec (ev w (.warnOverride t)) t (setOverride (ev w (.warnOverride t)) t (w.recs t) cx.runid)) t
        = true := hex
    simp only [hex', setOverride_ovr, Bool.true_or, Bool.and_self, if_true, Bool.not_true, Bool.false_eq_true, if_false]
    subst hcx
    exact startSelf_override po _ hi hex hgen hgg hlt
  · simp only [hc, Bool.false_eq_true, if_false]
    split
    · rename_i hs
      simp only [Bool.and_eq_true, Bool.or_eq_true, Bool.not_eq_true'] at hs
      obtain ⟨hex, hs2⟩ := hs
      have hne : (readStamp w t != .missing) = true := by
        simp only [bne_iff_ne, ne_eq]; exact readStamp_ne_missing hex
      have hovr : (w.recs t).isOverride = false := by
        cases ho : (w.recs t).isOverride with
        | false => rfl
        | true =>
          exfalso; apply hc
          rw [(hi.base.ovrSt t ho).1, hne, ho]; rfl
      have hgen : (w.recs t).isGenerated = false := by
        rcases hs2 with h | h
        · rw [hovr] at h; cases h
        · exact h
      simp only [hovr, Bool.not_false, if_true]
      subst hcx
      obtain ⟨a1, a2, a3, a4⟩ := setStatic_spec (b := b) (po := po) hi hex hgen hlt
      exact ⟨a1, a3, fun _ _ => a2, fun h _ => a4 h, CRASHED_ne_zero⟩
    · rename_i hs
      refine ssBuild_spec hE d hcx hcrash hi h0 (fun hg => hs ?_) hXa hlt po (Or.inl (Flds.refl _))
      have hst := hgg hg
      have hex : existsF w t = true := by
        cases he : existsF w t with
        | true => rfl
        | false => exact absurd hg (hngB he)
      simp only [Bool.and_eq_true, Bool.or_eq_true, Bool.not_eq_true']
      exact ⟨hex, (genT_false.1 hst).symm⟩

/-- `startSelf` on a target that is not a verified redo-owned target; `sf` is the job's copy of the record. -/
theorem startSelf_spec {rank R E t w b} {cx : Ctx} {X : Nat → Prop} (hE : ESpec rank R E) (d : Defects)
    (hcx : cx.runid = R) (hcrash : cx.crash = none) (hi : Inv rank R X w)
    (h0 : t ≠ alwaysId) (hV : VerR w R t → genT (w.recs t) = false)
    (hXa : ∀ x, X x → rank t < rank x) (hlt : rank t < b) (po : Option Nat) {sf : Rec}
    (hsf : sf = w.recs t ∨ (AgreeV sf (w.recs t) ∧ w.fs t = none ∧ sf.stamp ≠ some .missing)) :
    JobPostW rank R X t b po w (startSelf E d cx t sf w) := by
  have hgg : Good w R t → genT (w.recs t) = false := fun h => h.elim hV (fun h => h.2.2)
  have hngB : existsF w t = false → ¬ Good w R t := fun hne hg => by
    have := static_exists hi.base h0 (hg.recCur hi) (hgg hg); rw [hne] at this; cases this
  rcases hsf with rfl | ⟨hav, hfs, hst⟩
  · exact startSelf_spec_cur hE d hcx hcrash hi h0 hgg hngB hXa hlt po
  · rw [startSelf_eq, ssGuard_missing _ _ _ _ hfs]
    have hex : existsF w t = false := existsF_eq_false.2 hfs
    simp only [hex, Bool.false_and, Bool.false_eq_true, if_false]
    exact ssBuild_spec hE d hcx hcrash hi h0 (hngB hex) hXa hlt po (Or.inr ⟨hav, hfs, hst⟩)

end RedoModel.Deps.Rich
