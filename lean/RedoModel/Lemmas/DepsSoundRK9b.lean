import RedoModel.Lemmas.DepsSoundRK9
/-! The non-vacuity example of `DepsSoundRK9`, evaluated: the run is really killed, the recovery exits 0 and rebuilds
both levels; the conclusion of the theorem on this history with its premise discharged. -/
namespace RedoModel.Deps.Rich
open RedoModel.Generated

set_option linter.unusedSimpArgs false in
set_option maxRecDepth 8000 in
set_option maxHeartbeats 4000000 in
/-- The run is really killed (status `CRASHED`) after the script of 3 started and the `redo-always` target 2 was
rebuilt inside it; the recovery exits 0, runs 3 and (because of `redo-always`) 2 again, and leaves 2 built from the
edited source 5 and 3 built from the new 2. -/
theorem ka_eval : kaSummary = (some CRASHED, [.ran 2, .ran 3, .ran 2, .ran 3], 0,
    [.ran 2, .ran 3, .ran 2, .ran 3, .ran 2, .ran 3], some [4, 0, 7, 1], some [6, 0, 4, 0, 7, 1, 1]) := by
  unfold kaSummary kaOps0 r3Rules kaS2 kaS3 contentOf
  simp only [List.cons_append, List.nil_append, List.foldl]
  simp (config := { zeta := true, zetaHave := true, decide := true, maxSteps := 4000000 }) [runCmd, allocRun, applyOp,
    initWorld, engine, runTargets, buildJob, shouldBuild, isDirty, goDeps, startSelf, recordNewState, runScript,
    runScript.cmds, runScript.conds, ifchangeWith, findDoFile, addDep, addKnown, setRec, setFile, ev, getRec, readStamp,
    existsF, newNode, srcContent, outContent, depsWithRecs, depsOf, zapDeps1, zapDeps2, updateStamp, setChanged,
    setStatic, setFailed, setOverride, detectOverride, isCheckedR, isChangedR, isFailedR, alwaysId, mergeSort_pair',
    mergeSort_triple', List.merge, CRASHED, EXIT_CYCLIC_DEPENDENCY, EXIT_TARGET_FAILED, EXIT_FAILURE, stampRec]

/-- The conclusion of the theorem on this history, with its premise discharged by evaluation: after the kill and
the recovery, 3 is up to date. -/
theorem ka_recovered :
    UpToDateR (runCmd {} 3 (.ifchange [3] false)
      (kaOps.foldl (fun w op => (applyOp {} 3 op w).2) (initWorld r3Rules))).2 3 := by
  refine recoversRichK_partial 3 r3Rules r3Rank kaOps [3] false false r3_rulesOk ka_single ka_richK ka_noWatch
    ka_ranked ka_rank_lt ka_opsOk (by simp [alwaysId]) ?_ 3 (by simp)
  have he := ka_eval
  unfold kaSummary at he
  simp only [Prod.mk.injEq, List.foldl_append, List.foldl_cons, List.foldl_nil] at he
  simp only [kaOps, List.foldl_append, List.foldl_cons, List.foldl_nil, Bool.false_eq_true, if_false]
  exact he.2.2.1

/-- Non-vacuity of `recovery_is_sound_rich` (the state before the kill of the history above). -/
example := recovery_is_sound_rich ka_rank_lt ka_btw8.1 ka_btw8.2.1 [3] 3 1
  (by intro t ht; simp only [List.mem_singleton] at ht; subst ht; simp [alwaysId]) [3] false false
  (by intro t ht; simp only [List.mem_singleton] at ht; subst ht; simp [alwaysId])

end RedoModel.Deps.Rich
