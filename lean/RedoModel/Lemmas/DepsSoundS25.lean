import RedoModel.Lemmas.DepsSoundS24
/-! `runTargets` and `ifchangeWith` for `redo-ifchange`; the engine satisfies `ESpec`. -/
namespace RedoModel.Deps.S
open RedoModel.Generated

/-- What a command over `ts` guarantees. -/
def CmdPost (rank : Nat → Nat) (R : Nat) (X : Nat → Prop) (ts : List Nat) (b : Nat) (po : Option Nat) (w : World)
    (res : Status × World) : Prop :=
  Inv rank R X res.2 ∧ BExt rank R b po w res.2 ∧ (res.1 = 0 → ∀ t ∈ ts, Good res.2 R t) ∧
  (NoFail R w → res.1 = 0 → NoFail R res.2) ∧ res.1 ≠ CRASHED

theorem CmdPost.nonzero {rank R X ts b po w} (hi : Inv rank R X w) (rv : Status) (h0 : rv ≠ 0) (hc : rv ≠ CRASHED) :
    CmdPost rank R X ts b po w (rv, w) :=
  ⟨hi, BExt.refl _ _ _ _ _, fun h => absurd h h0, fun _ h => absurd h h0, hc⟩

theorem runTargets_spec {rank R E b fuel} {cx : Ctx} {X : Nat → Prop} (hE : ESpec rank R E) (d : Defects)
    (hd1 : d.oobRecordsDepsOnCaller = false) (hd2 : d.oobRebuildsDepsNotTarget = false)
    (hcx : cx.runid = R) (hredo : cx.isRedo = false) (hcrash : cx.crash = none)
    (hXb : ∀ x, X x → b ≤ rank x) (po : Option Nat) :
    ∀ (ts seen : List Nat) (errored : Bool) (w : World), Inv rank R X w → (∀ t ∈ ts, rank t < b) →
      (errored = false → ∀ s ∈ seen, Good w R s) →
      CmdPost rank R X ts b po w (runTargets E d cx fuel ts seen errored w) ∧
      ((runTargets E d cx fuel ts seen errored w).1 = 0 → errored = false)
  | [], seen, errored, w, hi, _, _ => by
    simp only [runTargets]
    cases errored with
    | true => exact ⟨CmdPost.nonzero hi _ one_ne_zero_status one_ne_crashed, fun h => absurd h one_ne_zero_status⟩
    | false =>
      exact ⟨⟨hi, BExt.refl _ _ _ _ _, fun _ t ht => by simp at ht, fun h _ => h, CRASHED_ne_zero⟩, fun _ => rfl⟩
  | t :: ts, seen, errored, w, hi, hts, hseen => by
    obtain ⟨c1, c2, c3, c4, c5, c6⟩ := exit_codes
    have htl : ∀ t' ∈ ts, rank t' < b := fun t' h => hts t' (List.mem_cons_of_mem _ h)
    rw [runTargets]
    by_cases hin : t ∈ seen
    · simp only [hin, if_true]
      obtain ⟨⟨a1, a2, a3, a4, a5⟩, a6⟩ := runTargets_spec hE d hd1 hd2 hcx hredo hcrash hXb po ts seen errored w hi htl hseen
      refine ⟨⟨a1, a2, fun h t' ht' => ?_, a4, a5⟩, a6⟩
      rcases List.mem_cons.1 ht' with rfl | ht'
      · exact a2.good (hseen (a6 h) _ hin)
      · exact a3 h t' ht'
    simp only [hin, if_false]
    by_cases he : (errored && !cx.keepGoing) = true
    · simp only [he, if_true]
      exact ⟨CmdPost.nonzero hi _ one_ne_zero_status one_ne_crashed, fun h => absurd h one_ne_zero_status⟩
    simp only [he]
    have e1 := WEqv.addKnown w t
    have hi1 := e1.inv hi
    have hb1 : BExt rank R b po w (addKnown w t) := e1.toBExt
    by_cases hc : (!cx.unlocked && decide (t ∈ cx.cycles)) = true
    · simp only [hc, if_true]
      exact ⟨⟨hi1, hb1, fun h => absurd h c3, fun _ h => absurd h c3, c4⟩, fun h => absurd h c3⟩
    simp only [hc]
    have hj := buildJob_spec (fuel := fuel) (b := b) (t := t) hE d hd1 hd2 hcx hredo hcrash hi1
      (fun x hx => Nat.lt_of_lt_of_le (hts t (by simp)) (hXb x hx)) (hts t (by simp)) po
    generalize hbj : buildJob E d cx fuel t (addKnown w t) = res at hj ⊢
    obtain ⟨jr, w2⟩ := res
    obtain ⟨j1, j2, j3, j4, j5⟩ := hj
    dsimp only at j1 j2 j3 j4 j5
    cases jr with
    | abort code =>
      simp only
      have hne : code ≠ 0 := by
        rcases buildJob_abort_code E d cx fuel t _ code w2 hbj with h | h <;> rw [h]
        · exact c1
        · exact c3
      exact ⟨⟨j1, hb1.trans j2, fun h => absurd h hne, fun _ h => absurd h hne, j5⟩, fun h => absurd h hne⟩
    | done rv =>
      simp only [jrStatus] at j3 j4 j5 ⊢
      simp only [j5, if_false]
      obtain ⟨⟨a1, a2, a3, a4, a5⟩, a6⟩ := runTargets_spec hE d hd1 hd2 hcx hredo hcrash hXb po ts (t :: seen)
        (errored || decide (rv ≠ 0)) w2 j1 htl (fun hf s hs => by
          simp only [Bool.or_eq_false_iff, decide_eq_false_iff_not, ne_eq, Classical.not_not] at hf
          rcases List.mem_cons.1 hs with rfl | hs
          · exact j3 hf.2
          · exact j2.good ((e1.good R s).2 (hseen hf.1 s hs)))
      have hz : (runTargets E d cx fuel ts (t :: seen) (errored || decide (rv ≠ 0)) w2).1 = 0 → errored = false ∧ rv = 0 := by
        intro h
        have := a6 h
        simpa [Bool.or_eq_false_iff] using this
      refine ⟨⟨a1, (hb1.trans j2).trans a2, fun h t' ht' => ?_, fun hn h => a4 (j4 (hn.eqv e1) (hz h).2) h, a5⟩,
        fun h => (hz h).1⟩
      rcases List.mem_cons.1 ht' with rfl | ht'
      · exact a2.good (j3 (hz h).2)
      · exact a3 h t' ht' 

theorem RowOp.toBExtP {rank R b p w w'} (h : RowOp p w w') : BExt rank R b (some p) w w' := by
  have e := h.eqv
  refine ⟨e.rules, e.progs, fun x _ => congrFun e.fs x,
    fun x _ => ⟨congrFun e.fs x, e.gen x, e.ovr x, e.checked x, e.changed x, e.failed x, e.stamp x, e.csum x⟩,
    fun d _ hp => h.rows d (fun e' => hp (by rw [e'])),
    fun x hv => ⟨(e.verR R x).2 hv, e.contentOf x, e.gen x⟩,
    fun x hc hg => ⟨(e.recCur x).2 hc, by rw [e.gen]; exact hg, congrFun e.fs x⟩, Nat.le_of_eq e.clock.symm, e.rc⟩

theorem BExt.weakenPo {rank R b po w w'} (h : BExt rank R b none w w') : BExt rank R b po w w' :=
  ⟨h.rules, h.progs, h.plain, h.above, fun d hd _ => h.rowsAbove d hd (by simp), h.ver, h.stat, h.clock, h.rc⟩

/-- The declarations of `redo-ifchange ts` run by the script of `p`. -/
def declare (p : Nat) (ts : List Nat) (w : World) : World := ts.foldl (fun w t => addDep w p t true) w

theorem declare_spec {rank R X p} (hX : X p) (b : Nat) (hb : b ≤ rank p) :
    ∀ (ts : List Nat) (w : World), Inv rank R X w → ¬ Good w R p → (∀ t ∈ ts, rank t < b) →
      Inv rank R X (declare p ts w) ∧ RowOp p w (declare p ts w) ∧ RowsDecl p ts w (declare p ts w) ∧
      ∀ d ∈ ts, HasRowU (declare p ts w) p d true
  | [], w, hi, _, _ => ⟨hi, RowOp.refl p w, RowsDecl.refl _ _ _, fun d hd => by simp at hd⟩
  | t :: ts, w, hi, hng, hts => by
    have hlt : rank t < rank p := Nat.lt_of_lt_of_le (hts t (by simp)) hb
    have hro := RowOp.addDep w p t true
    have hi1 := Inv_addDep (m := true) hi hX hng hlt (fun h => by cases h)
    have hng1 : ¬ Good (addDep w p t true) R p := fun h => hng ((hro.good R p).1 h)
    obtain ⟨a1, a2, a3, a4⟩ := declare_spec hX b hb ts (addDep w p t true) hi1 hng1
      (fun t' h => hts t' (List.mem_cons_of_mem _ h))
    have hstep : RowsDecl p [t] w (addDep w p t true) := by
      refine ⟨fun d hd _ => ?_, fun s m hr hm => ?_⟩
      · rcases addDep_mem hd with rfl | ⟨h, _⟩
        · exact Or.inr ⟨rfl, by simp, rfl⟩
        · exact Or.inl h
      · by_cases e : s = t
        · subst e; rw [hm (by simp)]; exact addDep_hasRowU_new w p s true
        · exact addDep_hasRowU_keep hr (fun ⟨_, h2⟩ => e h2)
    refine ⟨a1, hro.trans a2, hstep.trans a3, fun d hd => ?_⟩
    rcases List.mem_cons.1 hd with rfl | hd
    · exact a3.2 d true (addDep_hasRowU_new w p d true) (fun _ => rfl)
    · exact a4 d hd

end RedoModel.Deps.S
