import RedoModel.RunTok
import RedoModel.Lemmas.RunLoopInv
/-! Helper lemmas for Props/C09 and Props/C09e: the invariant of the token counter (`TokLoop.Backed`) and the invariant
of the product of `RunLoop` and `TokLoop`. -/
set_option linter.unusedSimpArgs false
namespace RedoModel.RunTok
open RedoModel RedoModel.RunLoop RedoModel.TokLoop

/-! ## The counter alone -/

theorem release_running (t : LS) (n : Nat) : (release t n).running = t.running := rfl

theorem release_exited (t : LS) (n : Nat) : (release t n).exited = t.exited := rfl

theorem keepOne_running (t : LS) : (keepOne t).running = t.running := by
  unfold keepOne; split <;> rfl

theorem keepOne_exited (t : LS) : (keepOne t).exited = t.exited := by
  unfold keepOne; split <;> rfl

theorem keepOne_my (t : LS) : (keepOne t).my = min t.my 1 := by
  unfold keepOne; split
  · simp [release]; omega
  · omega

theorem keepOne_cheats (t : LS) : (keepOne t).cheats = t.cheats - min t.cheats (t.my - 1) := by
  unfold keepOne; split
  · simp [release]
  · omega

theorem keepOne_my_le (t : LS) : (keepOne t).my ≤ 1 ∨ (keepOne t).my = t.my ∧ t.my = 0 := by
  rw [keepOne_my]; omega

/-- `create_tokens n`: the first `min cheats n` new tokens cancel cheats, the others are added. -/
theorem createN_spec (s : LS) (n : Nat) :
    (createN s n).cheats = s.cheats - min s.cheats n ∧ (createN s n).my = s.my + (n - min s.cheats n) ∧
    (createN s n).running = s.running ∧ (createN s n).exited = s.exited := by
  induction n with
  | zero => simp [createN]
  | succ n ih =>
    obtain ⟨h1, h2, h3, h4⟩ := ih
    simp only [createN]
    split <;> simp_all <;> omega

/-- A step is taken (or an assertion fails) only before the exit. -/
theorem lstepG_live {fr fe : Bool} {t : LS} {e : LEv} (h : lstepG fr fe t e ≠ .disabled) : t.exited = false := by
  cases hx : t.exited with
  | false => rfl
  | true => simp [lstepG, hx] at h

theorem lstep_live {fr : Bool} {t t' : LS} {e : LEv} (h : lstep fr t e = .ok t') : t.exited = false :=
  lstepG_live (fr := fr) (fe := true) (e := e) (by show lstep fr t e ≠ _; rw [h]; intro h'; cases h')

theorem lstep_panic_live {fr : Bool} {t : LS} {e : LEv} (h : lstep fr t e = .panic) : t.exited = false :=
  lstepG_live (fr := fr) (fe := true) (e := e) (by show lstep fr t e ≠ _; rw [h]; intro h'; cases h')

/-- After the exit every step is disabled. -/
theorem lstep_exited {fr : Bool} {t : LS} (e : LEv) (h : t.exited = true) : lstep fr t e = .disabled := by
  simp [lstep, lstepG, h]

theorem lstep_start_of_one {t : LS} (hx : t.exited = false) (h : t.my = 1) :
    lstep true t .start = .ok { t with my := 0, running := t.running + 1 } := by
  simp [lstep, lstepG, hx, h]

theorem lstep_releaseMine_of_one {t : LS} (hx : t.exited = false) (h : t.my = 1) :
    lstep true t .releaseMine = .ok (release t 1) := by
  simp [lstep, lstepG, hx, h]

theorem lstep_waitAll (t : LS) (hx : t.exited = false) :
    ∃ t', lstep true t .waitAll = .ok t' ∧ t'.my ≤ 1 ∧ t'.running = t.running := by
  simp only [lstep, lstepG, hx, Bool.false_eq_true, ↓reduceIte]
  split
  · exact ⟨_, rfl, by simp [release, keepOne_my]; omega, by simp [release_running, keepOne_running]⟩
  · exact ⟨_, rfl, by simp [keepOne_my]; omega, keepOne_running t⟩

/-- `Backed` — at most one token, at most one cheat, the cheat backed by the token in hand or by a running child — is
kept by every step of the repaired loop. -/
theorem lstep_backed {t t' : LS} {e : LEv} (hb : Backed t) (h : lstep true t e = .ok t') : Backed t' := by
  have hx := lstep_live h
  obtain ⟨b1, b2, b3⟩ := hb
  obtain ⟨c1, c2, c3, c4⟩ := createN_spec t t.running
  unfold Backed
  cases e <;> simp only [lstep, lstepG, hx, Bool.false_eq_true, ↓reduceIte] at h
  · -- childExit
    split at h
    · cases h
    · cases h
      split <;> simp [keepOne_my, keepOne_cheats, keepOne_running] <;> omega
  · -- childExitEat
    split at h
    · cases h
    · split at h
      · cases h
      · cases h
        rename_i hc
        simp at hc
        simp; omega
  · -- tokenRead
    split at h
    · cases h
    · cases h
      rename_i hc
      simp at hc
      simp; omega
  · -- cheat
    split at h
    · cases h; simp; omega
    · cases h
  · -- start
    split at h
    · cases h
    · split at h
      · cases h
      · cases h; simp; omega
  · -- releaseMine
    split at h
    · cases h
    · cases h; simp [release]; omega
  · -- waitAll
    split at h <;> cases h <;> simp [release, keepOne_my, keepOne_cheats, keepOne_running] <;> omega
  · -- exit
    split at h
    · cases h
    · split at h
      · cases h
      · cases h
        simp [keepOne_my, keepOne_cheats, keepOne_running, c1, c2, c3]
        omega
  · -- exitTop
    split at h
    · cases h
    · split at h
      · cases h
      · cases h
        split <;> simp [keepOne_my, keepOne_cheats, keepOne_running, c1, c2, c3] <;> omega

/-- From a `Backed` state no assertion fails: neither the one of `start` (`my = 1`) nor the two of
`do_force_return_tokens` (`cheats ≤ my`, `cheats ≤ 1`). -/
theorem lstep_no_panic {t : LS} {e : LEv} (hb : Backed t) : lstep true t e ≠ .panic := by
  intro h
  have hx := lstep_panic_live h
  obtain ⟨b1, b2, b3⟩ := hb
  obtain ⟨c1, c2, c3, c4⟩ := createN_spec t t.running
  cases e <;> simp only [lstep, lstepG, hx, Bool.false_eq_true, ↓reduceIte] at h
  · split at h <;> cases h
  · split at h
    · cases h
    · split at h <;> cases h
  · split at h <;> cases h
  · split at h <;> cases h
  · split at h
    · cases h
    · split at h
      · omega
      · cases h
  · split at h <;> cases h
  · split at h <;> cases h
  · split at h
    · rename_i hc
      simp [keepOne_my, keepOne_cheats, c1, c2] at hc
      omega
    · split at h
      · rename_i hc
        simp [keepOne_my, keepOne_cheats, c1, c2] at hc
        omega
      · cases h
  · split at h
    · rename_i hc
      simp [keepOne_my, keepOne_cheats, c1, c2] at hc
      omega
    · split at h
      · rename_i hc
        simp [keepOne_my, keepOne_cheats, c1, c2] at hc
        omega
      · cases h

/-- The exit from a `Backed` state: it happens (before the first exit), leaves at most one token and never more cheats
than tokens, and a token in hand stays in hand. -/
theorem lstep_exit {t : LS} (hb : Backed t) (hx : t.exited = false) :
    ∃ t', lstep true t .exit = .ok t' ∧ t'.cheats ≤ t'.my ∧ t'.my ≤ 1 ∧ t'.exited = true ∧
      t'.running = t.running ∧ (t.my = 1 → t'.my = 1) := by
  obtain ⟨b1, b2, b3⟩ := hb
  obtain ⟨c1, c2, c3, c4⟩ := createN_spec t t.running
  simp only [lstep, lstepG, hx, Bool.false_eq_true, ↓reduceIte]
  split
  · rename_i hc
    simp [keepOne_my, keepOne_cheats, c1, c2] at hc
    omega
  · split
    · rename_i hc
      simp [keepOne_my, keepOne_cheats, c1, c2] at hc
      omega
    · rename_i h1 h2
      refine ⟨_, rfl, ?_, ?_, rfl, ?_, ?_⟩
      · simp only; omega
      · simp [keepOne_my]; omega
      · simp [keepOne_running, c3]
      · simp [keepOne_my, c2]; omega

/-- `exitTop` is `exit` followed by the token taken back from the pipe when the process would leave with nothing. -/
theorem lstepG_exitTop (fr fe : Bool) (t : LS) :
    lstepG fr fe t .exitTop =
      match lstepG fr fe t .exit with
      | .ok t' => .ok (if t'.my = 0 ∧ t'.cheats = 0 then { t' with my := 1 } else t')
      | r => r := by
  simp only [lstepG]
  split
  · rfl
  · split
    · rfl
    · split
      · rfl
      · simp only
        split <;> rfl

/-- `do_force_return_tokens` does not depend on which event loop (pinned or repaired) ran before it. -/
theorem lstepG_exit_indep (fr fe : Bool) (t : LS) : lstepG fr fe t .exit = lstepG true true t .exit := rfl

theorem lstepG_exitTop_indep (fr fe : Bool) (t : LS) : lstepG fr fe t .exitTop = lstepG true true t .exitTop := rfl

/-- The exit of the top of a redo tree from a `Backed` state: it happens (before the first exit) and the process leaves
with exactly one token. -/
theorem lstep_exitTop {t : LS} (hb : Backed t) (hx : t.exited = false) :
    ∃ t', lstep true t .exitTop = .ok t' ∧ t'.cheats ≤ t'.my ∧ t'.my = 1 ∧ t'.exited = true ∧
      t'.running = t.running := by
  obtain ⟨u, h1, h2, h3, h4, h5, _⟩ := lstep_exit hb hx
  simp only [lstep] at h1
  simp only [lstep, lstepG_exitTop, h1]
  refine ⟨_, rfl, ?_⟩
  split
  · rename_i hc
    exact ⟨by simp only; omega, rfl, h4, h5⟩
  · rename_i hc
    exact ⟨h2, by omega, h4, h5⟩

/-- Only the exit sets `exited`. -/
theorem lstep_not_exited {t t' : LS} {e : LEv} (he : e ≠ .exit) (he' : e ≠ .exitTop) (h : lstep true t e = .ok t') : t'.exited = false := by
  have hx := lstep_live h
  cases e <;> simp only [lstep, lstepG, hx, Bool.false_eq_true, ↓reduceIte] at h
  · split at h
    · cases h
    · cases h; rw [keepOne_exited]; split <;> first | rfl | exact hx
  · split at h
    · cases h
    · split at h <;> cases h; first | rfl | exact hx
  · split at h <;> cases h; first | rfl | exact hx
  · split at h <;> cases h; first | rfl | exact hx
  · split at h
    · cases h
    · split at h <;> cases h; first | rfl | exact hx
  · split at h <;> cases h; first | rfl | exact hx
  · split at h <;> cases h <;> simp [release_exited, keepOne_exited, hx]
  · exact absurd rfl he
  · exact absurd rfl he'

/-- `start` and `release_mine` are "disabled" exactly without a token (before the exit); one poll of `wait_all` is
always possible. -/
theorem lstep_disabled_driven {t : LS} {e : LEv} (hx : t.exited = false)
    (he : e = .start ∨ e = .releaseMine ∨ e = .waitAll) (h : lstep true t e = .disabled) : t.my = 0 := by
  rcases he with rfl | rfl | rfl <;> simp only [lstep, lstepG, hx, Bool.false_eq_true, ↓reduceIte] at h
  · split at h
    · assumption
    · split at h <;> cases h
  · split at h
    · assumption
    · cases h
  · split at h <;> cases h

/-- Every counter step keeps "at most one token". -/
theorem lstep_my_le {t t' : LS} {e : LEv} (h : Backed t) (hs : lstep true t e = .ok t') : t'.my ≤ 1 :=
  (lstep_backed h hs).1

/-- The steps of the event loop never take the process's one token away. -/
theorem lstep_env_keeps_one {t t' : LS} {e : LEv}
    (he : e = .childExit ∨ e = .childExitEat ∨ e = .tokenRead ∨ e = .cheat)
    (h : t.my = 1) (hs : lstep true t e = .ok t') : t'.my = 1 := by
  have hx := lstep_live hs
  rcases he with rfl | rfl | rfl | rfl <;> simp only [lstep, lstepG, hx, Bool.false_eq_true, ↓reduceIte] at hs
  · split at hs
    · cases hs
    · cases hs; split <;> simp [keepOne_my] <;> omega
  · split at hs
    · cases hs
    · split at hs <;> cases hs; exact h
  · simp [h] at hs
  · simp [h] at hs

def runningDelta : LEv → Int
  | .childExit => -1
  | .childExitEat => -1
  | .start => 1
  | _ => 0

theorem lstep_running {t t' : LS} {e : LEv} (hs : lstep true t e = .ok t') :
    (t'.running : Int) = t.running + runningDelta e := by
  have hx := lstep_live hs
  obtain ⟨c1, c2, c3, c4⟩ := createN_spec t t.running
  cases e <;> simp only [lstep, lstepG, hx, Bool.false_eq_true, ↓reduceIte] at hs
  · split at hs
    · cases hs
    · cases hs
      rw [keepOne_running]
      split <;> simp [runningDelta] <;> omega
  · split at hs
    · cases hs
    · split at hs <;> cases hs; simp [runningDelta]; omega
  · split at hs <;> cases hs; simp [runningDelta]
  · split at hs <;> cases hs; simp [runningDelta]
  · split at hs
    · cases hs
    · split at hs <;> cases hs; simp [runningDelta]
  · split at hs <;> cases hs; simp [runningDelta, release_running]
  · split at hs <;> cases hs <;> simp [runningDelta, release_running, keepOne_running]
  · split at hs
    · cases hs
    · split at hs <;> cases hs; simp [runningDelta, keepOne_running, c3]
  · split at hs
    · cases hs
    · split at hs
      · cases hs
      · cases hs; split <;> simp [runningDelta, keepOne_running, c3]

/-! ## The control flow alone: what each event does to `tokHeld` -/

/-- The events at which the control flow drives the counter and needs a token for it. -/
def usesToken : Ev → Bool
  | .forked _ => true
  | .releaseMine => true
  | _ => false

theorem step_usesToken {c : Cfg} {s s' : St} {ev : Ev} (h : step c s ev = .ok s') (hu : usesToken ev = true) :
    needsTokenPc s.pc = true ∧ s'.tokHeld = false := by
  cases step_Step h <;> simp_all [usesToken, needsTokenPc]

theorem step_tok_held {c : Cfg} {s s' : St} (h : step c s .tok = .ok s') : s'.tokHeld = true := by
  cases step_Step h <;> simp [poll]

theorem step_waitAll_held {c : Cfg} {s s' : St} (h : step c s .waitAll = .ok s') : s'.tokHeld = false := by
  cases step_Step h <;> simp [poll]

def touchesToken : Ev → Bool
  | .tok => true
  | .forked _ => true
  | .releaseMine => true
  | .waitAll => true
  | _ => false

theorem step_other_held {c : Cfg} {s s' : St} {ev : Ev} (h : step c s ev = .ok s') (hu : touchesToken ev = false) :
    s'.tokHeld = s.tokHeld := by
  cases step_Step h <;> simp_all [touchesToken, poll]

/-- `step` answers `.error` once `run` has returned. -/
theorem step_not_ended {c : Cfg} {s s' : St} {ev : Ev} (h : step c s ev = .ok s') (ok : Bool) : s.pc ≠ .ended ok := by
  intro hp
  unfold step at h
  rw [hp] at h
  cases h

theorem step_fin_ended {c : Cfg} {s s' : St} {ok : Bool} (h : step c s (.fin ok) = .ok s') : s'.pc = .ended ok := by
  cases step_Step h <;> rfl

/-! ## The invariant of the product -/

/-- The control-flow invariant, "at most one token", whenever the control flow believes it has a token in hand
(`tokHeld`) the counter says so (`my = 1`), every cheat is backed, and the counter has exited only when `run` has
returned. -/
structure PInv (s : PSt) : Prop where
  ctl : Inv1 s.ctl
  le : s.tok.my ≤ 1
  hand : s.ctl.tokHeld = true → s.tok.my = 1
  backed : Backed s.tok
  live : s.tok.exited = true → ∃ ok, s.ctl.pc = .ended ok

theorem PInv.init : PInv {} :=
  ⟨Inv1.init, by decide, (by intro h; cases h), (by simp [Backed]), (by intro h; cases h)⟩

/-- The same for a process at the top of its redo tree under a foreign jobserver (or not: any `treeTop`). -/
theorem PInv.initTop (top : Bool) : PInv { treeTop := top } :=
  ⟨Inv1.init, Nat.le_refl 1, (by intro h; cases h), (by simp [Backed]), (by intro h; cases h)⟩

/-- Result of one product step from a state that satisfies the invariant: never `stuck`, never `panic`, and the
invariant is kept. -/
def Good : PRes → Prop
  | .ok s => PInv s
  | .reject _ => True
  | .stuck => False
  | .panic => False

theorem driven_good {s : PSt} {ctl' : St} {e : LEv} (hi : PInv s) (hx : s.tok.exited = false) (hc : Inv1 ctl')
    (hheld : ctl'.tokHeld = false) (he : e = .start ∨ e = .releaseMine ∨ e = .waitAll)
    (hone : e = .waitAll ∨ s.tok.my = 1) : Good (driven s ctl' e) := by
  unfold driven
  cases hl : lstep true s.tok e with
  | ok t =>
    have hne : e ≠ .exit := by rcases he with rfl | rfl | rfl <;> intro h <;> cases h
    have hne' : e ≠ .exitTop := by rcases he with rfl | rfl | rfl <;> intro h <;> cases h
    have hx' := lstep_not_exited hne hne' hl
    exact ⟨hc, lstep_my_le hi.backed hl, by simp [hheld], lstep_backed hi.backed hl, by simp [hx']⟩
  | disabled =>
    have h0 := lstep_disabled_driven hx he hl
    rcases hone with rfl | h1
    · obtain ⟨t', h1, _⟩ := lstep_waitAll s.tok hx
      rw [h1] at hl; cases hl
    · omega
  | panic => exact absurd hl (lstep_no_panic hi.backed)

/-- `do_force_return_tokens` when `run` returns. -/
theorem driven_exit_good {s : PSt} {ctl' : St} {ok : Bool} (hi : PInv s) (hx : s.tok.exited = false) (hc : Inv1 ctl')
    (hheld : ctl'.tokHeld = s.ctl.tokHeld) (hpc : ctl'.pc = .ended ok) : Good (driven s ctl' .exit) := by
  obtain ⟨t', h1, _, h3, _, _, h6⟩ := lstep_exit hi.backed hx
  unfold driven
  rw [h1]
  exact ⟨hc, h3, fun h => h6 (hi.hand (by rw [← hheld]; exact h)), lstep_backed hi.backed h1, fun _ => ⟨ok, hpc⟩⟩

/-- `do_force_return_tokens` of the top of a redo tree under a foreign jobserver when `run` returns. -/
theorem driven_exitTop_good {s : PSt} {ctl' : St} {ok : Bool} (hi : PInv s) (hx : s.tok.exited = false)
    (hc : Inv1 ctl') (hpc : ctl'.pc = .ended ok) : Good (driven s ctl' .exitTop) := by
  obtain ⟨t', h1, _, h3, _, _⟩ := lstep_exitTop hi.backed hx
  unfold driven
  rw [h1]
  exact ⟨hc, by simp only; omega, fun _ => h3, lstep_backed hi.backed h1, fun _ => ⟨ok, hpc⟩⟩

theorem env_good {s : PSt} {e : LEv} (hi : PInv s)
    (he : e = .childExit ∨ e = .childExitEat ∨ e = .tokenRead ∨ e = .cheat) : Good (env s e) := by
  unfold env
  cases hl : lstep true s.tok e with
  | ok t =>
    have hne : e ≠ .exit := by rcases he with rfl | rfl | rfl | rfl <;> intro h <;> cases h
    have hne' : e ≠ .exitTop := by rcases he with rfl | rfl | rfl | rfl <;> intro h <;> cases h
    have hx' := lstep_not_exited hne hne' hl
    exact ⟨hi.ctl, lstep_my_le hi.backed hl, fun h => lstep_env_keeps_one he (hi.hand h) hl,
      lstep_backed hi.backed hl, by simp [hx']⟩
  | disabled => trivial
  | panic => exact absurd hl (lstep_no_panic hi.backed)

theorem pstep_good {c : Cfg} {s : PSt} (hi : PInv s) (ev : PEv) : Good (pstep c s ev) := by
  cases ev with
  | childExit => exact env_good hi (.inl rfl)
  | childExitEat => exact env_good hi (.inr (.inl rfl))
  | tokenRead => exact env_good hi (.inr (.inr (.inl rfl)))
  | cheat => exact env_good hi (.inr (.inr (.inr rfl)))
  | ctl e =>
    simp only [pstep, pstepG]
    cases hs : step c s.ctl e with
    | error r => trivial
    | ok ctl' =>
      have hc : Inv1 ctl' := Inv1.step hs hi.ctl
      have hx : s.tok.exited = false := by
        cases hx : s.tok.exited with
        | false => rfl
        | true =>
          obtain ⟨ok, hp⟩ := hi.live hx
          exact absurd hp (step_not_ended hs ok)
      have keep : touchesToken e = false → Good (.ok { s with ctl := ctl' }) := fun hu =>
        ⟨hc, hi.le, fun h => hi.hand (by rw [← step_other_held hs hu]; exact h), hi.backed, by simp [hx]⟩
      cases e with
      | tok =>
        simp only [Bool.true_and]
        split
        · trivial
        · rename_i h0
          have h1 : s.tok.my = 1 := by
            have := hi.le
            simp at h0
            omega
          exact ⟨hc, hi.le, fun _ => h1, hi.backed, by simp [hx]⟩
      | forked f =>
        obtain ⟨hn, hh⟩ := step_usesToken hs rfl
        exact driven_good hi hx hc hh (.inl rfl) (.inr (hi.hand (hi.ctl.tok hn)))
      | releaseMine =>
        obtain ⟨hn, hh⟩ := step_usesToken hs rfl
        exact driven_good hi hx hc hh (.inr (.inl rfl)) (.inr (hi.hand (hi.ctl.tok hn)))
      | waitAll =>
        exact driven_good hi hx hc (step_waitAll_held hs) (.inr (.inr rfl)) (.inl rfl)
      | fin ok =>
        simp only
        split
        · exact driven_exitTop_good hi hx hc (step_fin_ended hs)
        · exact driven_exit_good hi hx hc (step_other_held hs rfl) (step_fin_ended hs)
      | _ => exact keep rfl

theorem prun_good {c : Cfg} {s : PSt} (hi : PInv s) (es : List PEv) : Good (prun c s es) := by
  induction es generalizing s with
  | nil => exact hi
  | cons e es ih =>
    have hg := pstep_good (c := c) hi e
    simp only [prun, prunG]
    simp only [pstep] at hg
    cases hp : pstepG true c s e with
    | ok s' => rw [hp] at hg; exact ih hg
    | reject r => trivial
    | stuck => rw [hp] at hg; exact hg
    | panic => rw [hp] at hg; exact hg

/-! ## Children under way: the counter's `running` against the event list -/

def isFork : PEv → Bool
  | .ctl (.forked _) => true
  | _ => false

def isExit : PEv → Bool
  | .childExit => true
  | .childExitEat => true
  | _ => false

theorem pstep_running {c : Cfg} {s s' : PSt} {ev : PEv} (h : pstep c s ev = .ok s') :
    (s'.tok.running : Int) + (if isExit ev then 1 else 0) = s.tok.running + (if isFork ev then 1 else 0) := by
  have envc : ∀ e, env s e = .ok s' → (s'.tok.running : Int) = s.tok.running + runningDelta e := by
    intro e he
    unfold env at he
    cases hl : lstep true s.tok e with
    | ok t => rw [hl] at he; cases he; exact lstep_running hl
    | disabled => rw [hl] at he; cases he
    | panic => rw [hl] at he; cases he
  have drv : ∀ ctl' e, driven s ctl' e = .ok s' → (s'.tok.running : Int) = s.tok.running + runningDelta e := by
    intro ctl' e he
    unfold driven at he
    cases hl : lstep true s.tok e with
    | ok t => rw [hl] at he; cases he; exact lstep_running hl
    | disabled => rw [hl] at he; cases he
    | panic => rw [hl] at he; cases he
  cases ev with
  | childExit => have := envc _ h; simp [isExit, isFork, runningDelta] at this ⊢; omega
  | childExitEat => have := envc _ h; simp [isExit, isFork, runningDelta] at this ⊢; omega
  | tokenRead => have := envc _ h; simp [isExit, isFork, runningDelta] at this ⊢; omega
  | cheat => have := envc _ h; simp [isExit, isFork, runningDelta] at this ⊢; omega
  | ctl e =>
    simp only [pstep, pstepG] at h
    cases hs : step c s.ctl e with
    | error r => rw [hs] at h; cases h
    | ok ctl' =>
      rw [hs] at h
      cases e with
      | tok =>
        simp only at h
        split at h
        · cases h
        · cases h; simp [isExit, isFork]
      | forked f => have := drv _ _ h; simp [isExit, isFork, runningDelta] at this ⊢; omega
      | releaseMine => have := drv _ _ h; simp [isExit, isFork, runningDelta] at this ⊢; omega
      | waitAll => have := drv _ _ h; simp [isExit, isFork, runningDelta] at this ⊢; omega
      | fin ok =>
        have := drv _ _ h
        have hd : runningDelta (if s.treeTop then .exitTop else .exit) = 0 := by cases s.treeTop <;> rfl
        rw [hd] at this
        simp [isExit, isFork] at this ⊢; omega
      | _ => cases h; simp [isExit, isFork]

theorem prun_cons_ok {c : Cfg} {s s' : PSt} {e : PEv} {es : List PEv} (h : prun c s (e :: es) = .ok s') :
    ∃ s1, pstep c s e = .ok s1 ∧ prun c s1 es = .ok s' := by
  simp only [prun, prunG] at h
  cases hp : pstepG true c s e with
  | ok s1 => rw [hp] at h; exact ⟨s1, hp, h⟩
  | reject r => rw [hp] at h; cases h
  | stuck => rw [hp] at h; cases h
  | panic => rw [hp] at h; cases h

theorem prun_running {c : Cfg} {s s' : PSt} {es : List PEv} (h : prun c s es = .ok s') :
    s'.tok.running + es.countP isExit = s.tok.running + es.countP isFork := by
  induction es generalizing s with
  | nil => cases h; simp
  | cons e es ih =>
    obtain ⟨s1, h1, h2⟩ := prun_cons_ok h
    have a := ih h2
    have b := pstep_running h1
    simp only [List.countP_cons]
    split at b <;> split at b <;> simp_all <;> omega


/-! ## The top of a redo tree: `treeTop` never changes, and after the exit the process holds one token -/

theorem pstep_top {c : Cfg} {s s' : PSt} {ev : PEv} (hi : PInv s) (h : pstep c s ev = .ok s') :
    s'.treeTop = s.treeTop ∧
      (s.treeTop = true → (s.tok.exited = true → s.tok.my = 1) → s'.tok.exited = true → s'.tok.my = 1) := by
  have envc : ∀ e, e ≠ .exit → e ≠ .exitTop → env s e = .ok s' → s'.treeTop = s.treeTop ∧ s'.tok.exited = false := by
    intro e h1 h2 he
    unfold env at he
    cases hl : lstep true s.tok e with
    | ok t => rw [hl] at he; cases he; exact ⟨rfl, lstep_not_exited h1 h2 hl⟩
    | disabled => rw [hl] at he; cases he
    | panic => rw [hl] at he; cases he
  have drv : ∀ ctl' e, e ≠ .exit → e ≠ .exitTop → driven s ctl' e = .ok s' →
      s'.treeTop = s.treeTop ∧ s'.tok.exited = false := by
    intro ctl' e h1 h2 he
    unfold driven at he
    cases hl : lstep true s.tok e with
    | ok t => rw [hl] at he; cases he; exact ⟨rfl, lstep_not_exited h1 h2 hl⟩
    | disabled => rw [hl] at he; cases he
    | panic => rw [hl] at he; cases he
  have fromLive : s'.treeTop = s.treeTop ∧ s'.tok.exited = false →
      s'.treeTop = s.treeTop ∧
        (s.treeTop = true → (s.tok.exited = true → s.tok.my = 1) → s'.tok.exited = true → s'.tok.my = 1) :=
    fun ⟨a, b⟩ => ⟨a, fun _ _ hx => by rw [b] at hx; cases hx⟩
  cases ev with
  | childExit => exact fromLive (envc _ (by intro h; cases h) (by intro h; cases h) h)
  | childExitEat => exact fromLive (envc _ (by intro h; cases h) (by intro h; cases h) h)
  | tokenRead => exact fromLive (envc _ (by intro h; cases h) (by intro h; cases h) h)
  | cheat => exact fromLive (envc _ (by intro h; cases h) (by intro h; cases h) h)
  | ctl e =>
    simp only [pstep, pstepG] at h
    cases hs : step c s.ctl e with
    | error r => rw [hs] at h; cases h
    | ok ctl' =>
      rw [hs] at h
      cases e with
      | tok =>
        simp only at h
        split at h
        · cases h
        · cases h; exact ⟨rfl, fun _ hk => hk⟩
      | forked f => exact fromLive (drv _ _ (by intro h; cases h) (by intro h; cases h) h)
      | releaseMine => exact fromLive (drv _ _ (by intro h; cases h) (by intro h; cases h) h)
      | waitAll => exact fromLive (drv _ _ (by intro h; cases h) (by intro h; cases h) h)
      | fin ok =>
        simp only at h
        unfold driven at h
        cases hl : lstep true s.tok (if s.treeTop = true then LEv.exitTop else LEv.exit) with
        | ok t =>
          rw [hl] at h; cases h
          refine ⟨rfl, fun ht _ _ => ?_⟩
          rw [ht] at hl
          simp only [if_true] at hl
          obtain ⟨t', h1, _, h3, _⟩ := lstep_exitTop hi.backed (lstep_live hl)
          rw [h1] at hl; cases hl; exact h3
        | disabled => rw [hl] at h; cases h
        | panic => rw [hl] at h; cases h
      | _ => cases h; exact ⟨rfl, fun _ hk => hk⟩

theorem prun_top {c : Cfg} {s s' : PSt} {es : List PEv} (hi : PInv s) (h : prun c s es = .ok s') :
    s'.treeTop = s.treeTop ∧
      (s.treeTop = true → (s.tok.exited = true → s.tok.my = 1) → s'.tok.exited = true → s'.tok.my = 1) := by
  induction es generalizing s with
  | nil => cases h; exact ⟨rfl, fun _ hk => hk⟩
  | cons e es ih =>
    obtain ⟨s1, h1, h2⟩ := prun_cons_ok h
    have hg := pstep_good (c := c) hi e
    rw [h1] at hg
    obtain ⟨a1, a2⟩ := pstep_top hi h1
    obtain ⟨b1, b2⟩ := ih hg h2
    exact ⟨by rw [b1, a1], fun ht hk => b2 (by rw [a1]; exact ht) (a2 ht hk)⟩

/-! ## The product does not change the control flow: projection to `RunLoop.run` -/

def ctlOf : PEv → Option Ev
  | .ctl e => some e
  | _ => none

theorem pstep_ctl {c : Cfg} {s s' : PSt} {ev : PEv} (h : pstep c s ev = .ok s') :
    match ctlOf ev with
    | some e => step c s.ctl e = .ok s'.ctl
    | none => s'.ctl = s.ctl := by
  have envc : ∀ e, env s e = .ok s' → s'.ctl = s.ctl := by
    intro e he
    unfold env at he
    cases hl : lstep true s.tok e with
    | ok t => rw [hl] at he; cases he; rfl
    | disabled => rw [hl] at he; cases he
    | panic => rw [hl] at he; cases he
  have drv : ∀ ctl' e, driven s ctl' e = .ok s' → s'.ctl = ctl' := by
    intro ctl' e he
    unfold driven at he
    cases hl : lstep true s.tok e with
    | ok t => rw [hl] at he; cases he; rfl
    | disabled => rw [hl] at he; cases he
    | panic => rw [hl] at he; cases he
  cases ev with
  | childExit => exact envc _ h
  | childExitEat => exact envc _ h
  | tokenRead => exact envc _ h
  | cheat => exact envc _ h
  | ctl e =>
    simp only [pstep, pstepG] at h
    simp only [ctlOf]
    cases hs : step c s.ctl e with
    | error r => rw [hs] at h; cases h
    | ok ctl' =>
      rw [hs] at h
      cases e with
      | tok =>
        simp only at h
        split at h
        · cases h
        · cases h; rfl
      | forked f => rw [drv _ _ h]
      | releaseMine => rw [drv _ _ h]
      | waitAll => rw [drv _ _ h]
      | fin ok => rw [drv _ _ h]
      | _ => cases h; rfl

theorem prun_ctl {c : Cfg} {s s' : PSt} {es : List PEv} (h : prun c s es = .ok s') :
    run c s.ctl (es.filterMap ctlOf) = .ok s'.ctl := by
  induction es generalizing s with
  | nil => cases h; rfl
  | cons e es ih =>
    obtain ⟨s1, h1, h2⟩ := prun_cons_ok h
    have a := ih h2
    have b := pstep_ctl h1
    cases he : ctlOf e with
    | none => rw [he] at b; simp only [List.filterMap_cons, he]; rw [← b]; exact a
    | some e' => rw [he] at b; simp only [List.filterMap_cons, he, run, b]; exact a

end RedoModel.RunTok
