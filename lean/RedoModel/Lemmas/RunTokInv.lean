import RedoModel.RunTok
import RedoModel.Lemmas.RunLoopInv
/-! Helper lemmas for Props/C09e: the invariant of the product of `RunLoop` and `TokLoop`. -/
set_option linter.unusedSimpArgs false
namespace RedoModel.RunTok
open RedoModel RedoModel.RunLoop RedoModel.TokLoop

/-! ## The counter alone -/

theorem lstep_start_of_one {t : LS} (h : t.my = 1) :
    lstep true t .start = .ok { t with my := 0, running := t.running + 1 } := by
  simp [lstep, h]

theorem lstep_releaseMine_of_one {t : LS} (h : t.my = 1) :
    lstep true t .releaseMine = .ok (release t 1) := by
  simp [lstep, h]

theorem release_running (t : LS) (n : Nat) : (release t n).running = t.running := rfl

theorem keepOne_running (t : LS) : (keepOne t).running = t.running := by
  unfold keepOne; split <;> rfl

theorem keepOne_my_le (t : LS) : (keepOne t).my ≤ 1 ∨ (keepOne t).my = t.my ∧ t.my = 0 := by
  unfold keepOne; split
  · left; simp [release]; omega
  · right; omega

theorem keepOne_my (t : LS) : (keepOne t).my = min t.my 1 := by
  unfold keepOne; split
  · simp [release]; omega
  · omega

theorem lstep_waitAll (t : LS) : ∃ t', lstep true t .waitAll = .ok t' ∧ t'.my ≤ 1 ∧ t'.running = t.running := by
  simp only [lstep]
  split
  · exact ⟨_, rfl, by simp [release, keepOne_my]; omega, by simp [release_running, keepOne_running]⟩
  · exact ⟨_, rfl, by simp [keepOne_my]; omega, keepOne_running t⟩

/-- The only assertion that can fail is the one of `start`, and only with two tokens or more. -/
theorem lstep_panic {t : LS} {e : LEv} (h : lstep true t e = .panic) : 2 ≤ t.my := by
  cases e <;> simp only [lstep] at h
  · split at h <;> cases h
  · split at h <;> cases h
  · split at h <;> cases h
  · split at h
    · cases h
    · split at h
      · omega
      · cases h
  · split at h <;> cases h
  · split at h <;> cases h

/-- `start` and `release_mine` are "disabled" exactly without a token; one poll of `wait_all` is always possible. -/
theorem lstep_disabled_driven {t : LS} {e : LEv} (he : e = .start ∨ e = .releaseMine ∨ e = .waitAll)
    (h : lstep true t e = .disabled) : t.my = 0 := by
  rcases he with rfl | rfl | rfl <;> simp only [lstep] at h
  · split at h
    · assumption
    · split at h <;> cases h
  · split at h
    · assumption
    · cases h
  · split at h <;> cases h

/-- Every counter step keeps "at most one token". -/
theorem lstep_my_le {t t' : LS} {e : LEv} (h : t.my ≤ 1) (hs : lstep true t e = .ok t') : t'.my ≤ 1 := by
  cases e <;> simp only [lstep] at hs
  · split at hs
    · cases hs
    · cases hs; split <;> simp [keepOne_my] <;> omega
  · split at hs
    · cases hs
    · cases hs
      rename_i hc
      simp at hc
      simp; omega
  · split at hs
    · cases hs; simp
    · cases hs
  · split at hs
    · cases hs
    · split at hs
      · cases hs
      · cases hs; simp
  · split at hs
    · cases hs
    · cases hs; simp [release]; omega
  · obtain ⟨t'', h1, h2, _⟩ := lstep_waitAll t
    simp only [lstep] at h1
    rw [h1] at hs; cases hs; exact h2

/-- The steps of the event loop never take the process's one token away. -/
theorem lstep_env_keeps_one {t t' : LS} {e : LEv} (he : e = .childExit ∨ e = .tokenRead ∨ e = .cheat)
    (h : t.my = 1) (hs : lstep true t e = .ok t') : t'.my = 1 := by
  rcases he with rfl | rfl | rfl <;> simp only [lstep] at hs
  · split at hs
    · cases hs
    · cases hs; split <;> simp [keepOne_my] <;> omega
  · simp [h] at hs
  · simp [h] at hs

def runningDelta : LEv → Int
  | .childExit => -1
  | .start => 1
  | _ => 0

theorem lstep_running {t t' : LS} {e : LEv} (hs : lstep true t e = .ok t') :
    (t'.running : Int) = t.running + runningDelta e := by
  cases e <;> simp only [lstep] at hs
  · split at hs
    · cases hs
    · cases hs
      rw [keepOne_running]
      split <;> simp [runningDelta] <;> omega
  · split at hs <;> cases hs; simp [runningDelta]
  · split at hs <;> cases hs; simp [runningDelta]
  · split at hs
    · cases hs
    · split at hs <;> cases hs; simp [runningDelta]
  · split at hs <;> cases hs; simp [runningDelta, release_running]
  · obtain ⟨t'', h1, _, h3⟩ := lstep_waitAll t
    simp only [lstep] at h1
    rw [h1] at hs; cases hs; simp [runningDelta, h3]

/-! ## The control flow alone: what each event does to `tokHeld` -/

/-- The events at which the control flow drives the counter and needs a token for it. -/
def usesToken : Ev → Bool
  | .forked _ => true
  | .releaseMine => true
  | _ => false

theorem step_usesToken {c : Cfg} {s s' : St} {ev : Ev} (h : step c s ev = .ok s') (hu : usesToken ev = true) :
    needsTokenPc s.pc = true ∧ s'.tokHeld = false := by
  cases step_Step h <;> simp_all [usesToken, needsTokenPc]

theorem step_tok_held {c : Cfg} {s s' : St} (h : step c s .tok = .ok s') : s'.tokHeld = true := by
  cases step_Step h <;> simp [poll]

theorem step_waitAll_held {c : Cfg} {s s' : St} (h : step c s .waitAll = .ok s') : s'.tokHeld = false := by
  cases step_Step h <;> simp [poll]

def touchesToken : Ev → Bool
  | .tok => true
  | .forked _ => true
  | .releaseMine => true
  | .waitAll => true
  | _ => false

theorem step_other_held {c : Cfg} {s s' : St} {ev : Ev} (h : step c s ev = .ok s') (hu : touchesToken ev = false) :
    s'.tokHeld = s.tokHeld := by
  cases step_Step h <;> simp_all [touchesToken, poll]

/-! ## The invariant of the product -/

/-- The control-flow invariant, "at most one token", and: whenever the control flow believes it has a token in hand
(`tokHeld`), the counter says so (`my = 1`). -/
structure PInv (s : PSt) : Prop where
  ctl : Inv1 s.ctl
  le : s.tok.my ≤ 1
  hand : s.ctl.tokHeld = true → s.tok.my = 1

theorem PInv.init : PInv {} := ⟨Inv1.init, by decide, by intro h; cases h⟩

/-- Result of one product step from a state that satisfies the invariant: never `stuck`, never `panic`, and the
invariant is kept. -/
def Good : PRes → Prop
  | .ok s => PInv s
  | .reject _ => True
  | .stuck => False
  | .panic => False

theorem driven_good {s : PSt} {ctl' : St} {e : LEv} (hi : PInv s) (hc : Inv1 ctl')
    (hheld : ctl'.tokHeld = false) (he : e = .start ∨ e = .releaseMine ∨ e = .waitAll)
    (hone : e = .waitAll ∨ s.tok.my = 1) : Good (driven s ctl' e) := by
  unfold driven
  cases hl : lstep true s.tok e with
  | ok t =>
    exact ⟨hc, lstep_my_le hi.le hl, by simp [hheld]⟩
  | disabled =>
    have h0 := lstep_disabled_driven he hl
    rcases hone with rfl | h1
    · obtain ⟨t', h1, _⟩ := lstep_waitAll s.tok
      rw [h1] at hl; cases hl
    · omega
  | panic =>
    have := lstep_panic hl
    have := hi.le
    omega

theorem env_good {s : PSt} {e : LEv} (hi : PInv s) (he : e = .childExit ∨ e = .tokenRead ∨ e = .cheat) :
    Good (env s e) := by
  unfold env
  cases hl : lstep true s.tok e with
  | ok t => exact ⟨hi.ctl, lstep_my_le hi.le hl, fun h => lstep_env_keeps_one he (hi.hand h) hl⟩
  | disabled => trivial
  | panic =>
    have := lstep_panic hl
    have := hi.le
    omega

theorem pstep_good {c : Cfg} {s : PSt} (hi : PInv s) (ev : PEv) : Good (pstep c s ev) := by
  cases ev with
  | childExit => exact env_good hi (.inl rfl)
  | tokenRead => exact env_good hi (.inr (.inl rfl))
  | cheat => exact env_good hi (.inr (.inr rfl))
  | ctl e =>
    simp only [pstep, pstepG]
    cases hs : step c s.ctl e with
    | error r => trivial
    | ok ctl' =>
      have hc : Inv1 ctl' := Inv1.step hs hi.ctl
      have keep : touchesToken e = false → Good (.ok { ctl := ctl', tok := s.tok }) := fun hu =>
        ⟨hc, hi.le, fun h => hi.hand (by rw [← step_other_held hs hu]; exact h)⟩
      cases e with
      | tok =>
        simp only [Bool.true_and]
        split
        · trivial
        · rename_i h0
          have h1 : s.tok.my = 1 := by
            have := hi.le
            simp at h0
            omega
          exact ⟨hc, hi.le, fun _ => h1⟩
      | forked f =>
        obtain ⟨hn, hh⟩ := step_usesToken hs rfl
        exact driven_good hi hc hh (.inl rfl) (.inr (hi.hand (hi.ctl.tok hn)))
      | releaseMine =>
        obtain ⟨hn, hh⟩ := step_usesToken hs rfl
        exact driven_good hi hc hh (.inr (.inl rfl)) (.inr (hi.hand (hi.ctl.tok hn)))
      | waitAll =>
        exact driven_good hi hc (step_waitAll_held hs) (.inr (.inr rfl)) (.inl rfl)
      | _ => exact keep rfl

theorem prun_good {c : Cfg} {s : PSt} (hi : PInv s) (es : List PEv) : Good (prun c s es) := by
  induction es generalizing s with
  | nil => exact hi
  | cons e es ih =>
    have hg := pstep_good (c := c) hi e
    simp only [prun, prunG]
    simp only [pstep] at hg
    cases hp : pstepG true c s e with
    | ok s' => rw [hp] at hg; exact ih hg
    | reject r => trivial
    | stuck => rw [hp] at hg; exact hg
    | panic => rw [hp] at hg; exact hg

/-! ## Children under way: the counter's `running` against the event list -/

def isFork : PEv → Bool
  | .ctl (.forked _) => true
  | _ => false

def isExit : PEv → Bool
  | .childExit => true
  | _ => false

theorem pstep_running {c : Cfg} {s s' : PSt} {ev : PEv} (h : pstep c s ev = .ok s') :
    (s'.tok.running : Int) + (if isExit ev then 1 else 0) = s.tok.running + (if isFork ev then 1 else 0) := by
  have envc : ∀ e, env s e = .ok s' → (s'.tok.running : Int) = s.tok.running + runningDelta e := by
    intro e he
    unfold env at he
    cases hl : lstep true s.tok e with
    | ok t => rw [hl] at he; cases he; exact lstep_running hl
    | disabled => rw [hl] at he; cases he
    | panic => rw [hl] at he; cases he
  have drv : ∀ ctl' e, driven s ctl' e = .ok s' → (s'.tok.running : Int) = s.tok.running + runningDelta e := by
    intro ctl' e he
    unfold driven at he
    cases hl : lstep true s.tok e with
    | ok t => rw [hl] at he; cases he; exact lstep_running hl
    | disabled => rw [hl] at he; cases he
    | panic => rw [hl] at he; cases he
  cases ev with
  | childExit => have := envc _ h; simp [isExit, isFork, runningDelta] at this ⊢; omega
  | tokenRead => have := envc _ h; simp [isExit, isFork, runningDelta] at this ⊢; omega
  | cheat => have := envc _ h; simp [isExit, isFork, runningDelta] at this ⊢; omega
  | ctl e =>
    simp only [pstep, pstepG] at h
    cases hs : step c s.ctl e with
    | error r => rw [hs] at h; cases h
    | ok ctl' =>
      rw [hs] at h
      cases e with
      | tok =>
        simp only at h
        split at h
        · cases h
        · cases h; simp [isExit, isFork]
      | forked f => have := drv _ _ h; simp [isExit, isFork, runningDelta] at this ⊢; omega
      | releaseMine => have := drv _ _ h; simp [isExit, isFork, runningDelta] at this ⊢; omega
      | waitAll => have := drv _ _ h; simp [isExit, isFork, runningDelta] at this ⊢; omega
      | _ => cases h; simp [isExit, isFork]

theorem prun_cons_ok {c : Cfg} {s s' : PSt} {e : PEv} {es : List PEv} (h : prun c s (e :: es) = .ok s') :
    ∃ s1, pstep c s e = .ok s1 ∧ prun c s1 es = .ok s' := by
  simp only [prun, prunG] at h
  cases hp : pstepG true c s e with
  | ok s1 => rw [hp] at h; exact ⟨s1, hp, h⟩
  | reject r => rw [hp] at h; cases h
  | stuck => rw [hp] at h; cases h
  | panic => rw [hp] at h; cases h

theorem prun_running {c : Cfg} {s s' : PSt} {es : List PEv} (h : prun c s es = .ok s') :
    s'.tok.running + es.countP isExit = s.tok.running + es.countP isFork := by
  induction es generalizing s with
  | nil => cases h; simp
  | cons e es ih =>
    obtain ⟨s1, h1, h2⟩ := prun_cons_ok h
    have a := ih h2
    have b := pstep_running h1
    simp only [List.countP_cons]
    split at b <;> split at b <;> simp_all <;> omega


/-! ## The product does not change the control flow: projection to `RunLoop.run` -/

def ctlOf : PEv → Option Ev
  | .ctl e => some e
  | _ => none

theorem pstep_ctl {c : Cfg} {s s' : PSt} {ev : PEv} (h : pstep c s ev = .ok s') :
    match ctlOf ev with
    | some e => step c s.ctl e = .ok s'.ctl
    | none => s'.ctl = s.ctl := by
  have envc : ∀ e, env s e = .ok s' → s'.ctl = s.ctl := by
    intro e he
    unfold env at he
    cases hl : lstep true s.tok e with
    | ok t => rw [hl] at he; cases he; rfl
    | disabled => rw [hl] at he; cases he
    | panic => rw [hl] at he; cases he
  have drv : ∀ ctl' e, driven s ctl' e = .ok s' → s'.ctl = ctl' := by
    intro ctl' e he
    unfold driven at he
    cases hl : lstep true s.tok e with
    | ok t => rw [hl] at he; cases he; rfl
    | disabled => rw [hl] at he; cases he
    | panic => rw [hl] at he; cases he
  cases ev with
  | childExit => exact envc _ h
  | tokenRead => exact envc _ h
  | cheat => exact envc _ h
  | ctl e =>
    simp only [pstep, pstepG] at h
    simp only [ctlOf]
    cases hs : step c s.ctl e with
    | error r => rw [hs] at h; cases h
    | ok ctl' =>
      rw [hs] at h
      cases e with
      | tok =>
        simp only at h
        split at h
        · cases h
        · cases h; rfl
      | forked f => rw [drv _ _ h]
      | releaseMine => rw [drv _ _ h]
      | waitAll => rw [drv _ _ h]
      | _ => cases h; rfl

theorem prun_ctl {c : Cfg} {s s' : PSt} {es : List PEv} (h : prun c s es = .ok s') :
    run c s.ctl (es.filterMap ctlOf) = .ok s'.ctl := by
  induction es generalizing s with
  | nil => cases h; rfl
  | cons e es ih =>
    obtain ⟨s1, h1, h2⟩ := prun_cons_ok h
    have a := ih h2
    have b := pstep_ctl h1
    cases he : ctlOf e with
    | none => rw [he] at b; simp only [List.filterMap_cons, he]; rw [← b]; exact a
    | some e' => rw [he] at b; simp only [List.filterMap_cons, he, run, b]; exact a

end RedoModel.RunTok
