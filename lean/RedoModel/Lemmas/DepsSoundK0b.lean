import RedoModel.Lemmas.DepsSoundK0
/-! The counterexample history satisfies every hypothesis of the statement: `NoStalePlainK` is false. -/
namespace RedoModel.Deps
open RedoModel.Generated

theorem kx_rulesOk : RulesOk kxRules := by
  refine ⟨by simp [kxRules, alwaysId], fun t c hc => ?_⟩
  unfold kxRules at hc ⊢
  split at hc
  · simp at hc; rcases hc with rfl | rfl <;> subst_vars <;> simp [alwaysId]
  · split at hc
    · simp at hc; subst hc; subst_vars; simp [alwaysId]
    · simp at hc

/-- rules as given, and no script in `progs` declares anything. -/
def KxSimple (w : World) : Prop := w.rules = kxRules ∧ ∀ c sc, w.progs c = some sc → sc.ifchange = []

theorem KxSimple.ranked {w : World} (h : KxSimple w) : Ranked kxRank w := by
  refine ⟨fun t c hc => ?_, fun t dof _ n sc _ hp c hc => by rw [h.2 _ sc hp] at hc; simp at hc⟩
  rw [h.1] at hc; unfold kxRules at hc
  split at hc
  · simp at hc; rcases hc with rfl | rfl <;> subst_vars <;> simp [kxRank]
  · split at hc
    · simp at hc; subst hc; subst_vars; simp [kxRank]
    · simp at hc

theorem kx_rank_lt : ∀ f, kxRank f < 2 := by
  intro f; unfold kxRank; split
  · omega
  · split <;> omega

macro "kx_simple" : tactic => `(tactic|
  (unfold KxSimple kxRules
   refine ⟨by eval_k, ?_⟩
   intro c sc
   eval_k
   try (intro h; repeat' split at h)
   all_goals (try simp_all)
   all_goals (try intros)
   all_goals (try subst_vars)
   all_goals (try rfl)))

set_option maxRecDepth 8000 in
set_option maxHeartbeats 4000000 in
theorem kx_worlds : ∀ w ∈ worldsOf 2 {} (initWorld kxRules) kxOps, KxSimple w := by
  intro w hw
  simp only [kxOps, worldsOf, List.mem_cons, List.not_mem_nil, or_false] at hw
  rcases hw with rfl | rfl | rfl | rfl | rfl | rfl | rfl | rfl | rfl
  all_goals kx_simple

theorem kx_opsOk : OpsOk 2 (initWorld kxRules) kxOps := by
  simp [OpsOk, OpOk, kxOps, SetProgOk, applyOp, initWorld]

theorem kx_plainK : ∀ op ∈ kxOps, PlainOpK kxRules op := by
  intro op hop
  simp only [kxOps, List.mem_cons, List.not_mem_nil, or_false] at hop
  rcases hop with rfl | rfl | rfl | rfl | rfl | rfl | rfl | rfl <;>
    simp [PlainOpK, PlainOp, Script.Plain, kxRules, alwaysId]

/-- **Finding.**  The statement asked for is false: the history `kxOps` (all hypotheses hold) ends with a killed
build of 5; the recovery `redo-ifchange 5` exits 0 without running anything and 5 keeps the output of the removed
.do file. -/
theorem not_noStalePlainK : ¬ NoStalePlainK := by
  intro h
  have hs : kxRes.1.status = 0 := by
    have he := kx_eval
    simp only [kxSummary, Prod.mk.injEq] at he
    exact he.1
  exact kx_notUpToDate (h 2 kxRules kxRank kxOps [5] false false kx_rulesOk kx_plainK
    (fun w hw => (kx_worlds w hw).ranked) kx_rank_lt kx_opsOk hs 5 (by simp))

end RedoModel.Deps
