import RedoModel.Lemmas.DepsSoundS39
/-! **C01 for histories whose scripts may use `redo-stamp`**: the main theorem. -/
namespace RedoModel.Deps.S
open RedoModel.Generated

theorem UpToDateD.toUpToDateS {w : World} (hm : Meaningful w) (hpl : ∀ c sc, w.progs c = some sc → sc.PlainS) {f : Nat}
    (h : UpToDateD w f) : UpToDate w f := by
  induction h with
  | source hs => exact UpToDate.source hs
  | user hg hex => exact UpToDate.user hg hex
  | @target t dof hfe _ hc ih =>
    obtain ⟨hdm, hdex⟩ := Deps.firstEx_mem _ _ hfe
    obtain ⟨n, hn⟩ := Deps.existsF_eq_true.1 hdex
    cases hp : w.progs n.content with
    | none => exact absurd hp (hm t dof hdm n hn)
    | some sc =>
      have hsc : scriptAt w dof = sc := by unfold scriptAt; rw [hn]; simp [hp]
      rw [hsc] at ih hc
      have hplain := hpl _ sc hp
      refine UpToDate.target (dof := dof) (sc := sc) (n := n) (by rw [findDoFile_fst]; exact hfe) hn hp ?_ hc
      intro c hcm d hd
      exact ih d (by rw [hplain.2.2.2.2.2.1]; exact List.mem_flatten.2 ⟨c, hcm, hd⟩)

end RedoModel.Deps.S

namespace RedoModel.Deps
open RedoModel.Generated

/-- The one hypothesis added to the statement asked for: every `redo -k` (forced rebuild that keeps going after a
failure) *in the history* exited 0.  Histories without `redo -k` satisfy it trivially (`redoKOk_of_none`); the final
command is unrestricted. -/
def RedoKOk (n : Nat) (w : World) (ops : List UserOp) : Prop := S.RedoKOk n w ops

theorem redoKOk_of_none (n : Nat) : ∀ (ops : List UserOp) (w : World), (∀ op ∈ ops, ∀ ts, op ≠ .cmd (.redo ts true)) →
    RedoKOk n w ops
  | [], _, _ => trivial
  | op :: ops, w, h => by
    refine ⟨?_, redoKOk_of_none n ops _ (fun op' h' => h op' (List.mem_cons_of_mem _ h'))⟩
    cases op with
    | cmd c =>
      cases c with
      | redo ts kg =>
        cases kg with
        | false => trivial
        | true => exact absurd rfl (h _ (by simp) ts)
      | _ => trivial
    | _ => trivial

/-- **Soundness with checksums.**  The statement of `noStalePlainD` with `PlainOpS` (scripts may pipe their output to
`redo-stamp`) in place of `PlainOp`: whenever `redo-ifchange ts` / `redo ts` exits 0, every `t ∈ ts` is up to date —
including the targets the run did *not* rebuild because a checksummed dependency was rebuilt out of band with an
unchanged checksum.  Extra hypothesis: `RedoKOk` (see there). -/
theorem noStaleStamp_partial (n : Nat) (rules : Nat → List Nat) (rank : Nat → Nat) (ops : List UserOp) (ts : List Nat)
    (kg forced : Bool) (hr : RulesOk rules) (hp : ∀ op ∈ ops, PlainOpS rules op)
    (hrk : ∀ w ∈ worldsOf n {} (initWorld rules) ops, Ranked rank w) (hN : ∀ f, rank f < n)
    (hok : OpsOk n (initWorld rules) ops) (hk : RedoKOk n (initWorld rules) ops) :
    let w := ops.foldl (fun w op => (applyOp {} n op w).2) (initWorld rules)
    let r := runCmd {} n (if forced then .redo ts kg else .ifchange ts kg) w
    r.1.status = 0 → ∀ t ∈ ts, UpToDateD r.2 t := by
  intro w r
  have h0 : S.Btw rank (initWorld rules) := S.Btw_init hr (hrk _ (worldsOf_head n {} _ ops))
  obtain ⟨hb, _⟩ := S.history_btw hN ops (initWorld rules) h0 rfl hp hrk hok hk
  exact S.runCmd_sound {} rfl rfl hN hb ts kg forced

/-- The same with the original notion `UpToDate` (`DepsSoundSpec`), which in addition needs every .do candidate in place
to have a `progs` entry (`Meaningful`, see `noStalePlain_partial`). -/
theorem noStaleStamp_partial_upToDate (n : Nat) (rules : Nat → List Nat) (rank : Nat → Nat) (ops : List UserOp) (ts : List Nat)
    (kg forced : Bool) (hr : RulesOk rules) (hp : ∀ op ∈ ops, PlainOpS rules op)
    (hrk : ∀ w ∈ worldsOf n {} (initWorld rules) ops, Ranked rank w) (hN : ∀ f, rank f < n)
    (hok : OpsOk n (initWorld rules) ops) (hk : RedoKOk n (initWorld rules) ops) :
    let w := ops.foldl (fun w op => (applyOp {} n op w).2) (initWorld rules)
    let r := runCmd {} n (if forced then .redo ts kg else .ifchange ts kg) w
    r.1.status = 0 → Meaningful r.2 → ∀ t ∈ ts, UpToDate r.2 t := by
  intro w r hz hm t ht
  have h0 : S.Btw rank (initWorld rules) := S.Btw_init hr (hrk _ (worldsOf_head n {} _ ops))
  obtain ⟨hb, _⟩ := S.history_btw hN ops (initWorld rules) h0 rfl hp hrk hok hk
  have hc : S.CmdOk {} n w (if forced then .redo ts kg else .ifchange ts kg) := by
    cases forced with
    | false => trivial
    | true =>
      cases kg with
      | false => trivial
      | true => exact hz
  have hb' : S.Btw rank r.2 := (S.runCmd_btw {} rfl rfl hN hb _ hc).1
  exact S.UpToDateD.toUpToDateS hm hb'.plainProgs
    (noStaleStamp_partial n rules rank ops ts kg forced hr hp hrk hN hok hk hz t ht)

end RedoModel.Deps
