import RedoModel.WaitsG
/-!
# Deadlock freedom of the lock hand-over protocol (model `RedoModel/Waits.lean`)

Part 1: the extra guard (`scriptGuard`, `stepG`, `runG`), the invariant `Inv`, `inv_init`,
`step_preserves_inv`, `runG_inv`.  Part 2 (`WaitsProgress2.lean`): the descent and `progress`.

## The extra guard (a finding: the model needs it)

`step` accepts `script p k` from any unblocked process `p` for any key `k` that is not under way.
That is too liberal: with an *acyclic* declared graph the model then accepts a deadlocked state
(`C09.unguarded_script_deadlock` in `Props/C09b.lean`).  What the real system guarantees and the model
lacks is: a process starts

* the build script of `k` only when it owns the lock of `k`                 (locked mode), or
  when it was itself spawned under the out-of-band execution `oobKey k`      (phase 2 of `redo-unlocked`);
* the out-of-band execution `oobKey f` only when it owns the lock of `f`.

`scriptGuard` is this check (decidable, evaluates on the acceptor state), `stepG` = guard, then `step`.
-/
namespace RedoModel.Waits

theorem evIn_of_mentionsIn {univ : List Nat} {ev : Ev} (h : mentionsIn univ ev = true) : evIn univ ev = true := by
  cases ev <;> first | exact h | rfl

theorem stepG_ok_step {reach : Nat → List Nat} {univ : List Nat} {s s' : State} {ev : Ev}
    (h : stepG reach univ s ev = .ok s') : step reach univ s ev = .ok s' := by
  cases ev <;> try exact h
  simp only [stepG] at h
  split at h
  · exact h
  · cases h

theorem runG_ok_run {reach : Nat → List Nat} {univ : List Nat} {es : List Ev} {s s' : State}
    (h : runG reach univ s es = .ok s') : run reach univ s es = .ok s' := by
  induction es generalizing s with
  | nil => exact h
  | cons e es ih =>
    simp only [runG] at h
    split at h
    · cases h
    · rename_i s1 h1
      simp only [run, stepG_ok_step h1]
      exact ih h

/-! ## The invariant -/

/-- The execution key `k` is one that a process spawned under `u` may legitimately run. -/
def KeyOk (reach : Nat → List Nat) (u k : Nat) : Prop :=
  k ∈ reach u ∨ (∃ f, f ∈ reach u ∧ k = oobKey f) ∨ u = oobKey k

structure Inv (reach : Nat → List Nat) (univ : List Nat) (s : State) : Prop where
  /-- alive processes have distinct pids -/
  pids : s.procs.Pairwise (fun a b => a.pid ≠ b.pid)
  /-- a blocked process waits for a listed lock that its spawner declares, owns no lock, runs nothing -/
  blocked : ∀ x ∈ s.procs, ∀ h, x.blocked = some h →
    h ∈ univ ∧ allowed reach x.under h = true ∧ (∀ f ∈ univ, s.owner f ≠ some x.pid) ∧
      (∀ e ∈ s.scripts, e.2 ≠ x.pid)
  /-- every execution is run by an alive process, and its key is legitimate for that process -/
  runner : ∀ e ∈ s.scripts, ∃ x ∈ s.procs, x.pid = e.2 ∧ ∀ u, x.under = some u → KeyOk reach u e.1
  /-- every lock owner is alive and was allowed to ask for the lock -/
  owner : ∀ f p, s.owner f = some p → ∃ x ∈ s.procs, x.pid = p ∧ allowed reach x.under f = true

theorem inv_init (reach : Nat → List Nat) (univ : List Nat) : Inv reach univ {} where
  pids := List.Pairwise.nil
  blocked := by intro x hx; cases hx
  runner := by intro e he; cases he
  owner := by intro f p h; cases h

/-! ### `find`, distinct pids, `setBlocked` -/

theorem find_some {s : State} {p : Nat} {x : Proc} (h : find s p = some x) : x ∈ s.procs ∧ x.pid = p := by
  unfold find at h
  refine ⟨List.mem_of_find?_eq_some h, ?_⟩
  have := List.find?_some h
  simpa using this

theorem find_none {s : State} {p : Nat} (h : find s p = none) : ∀ x ∈ s.procs, x.pid ≠ p := by
  unfold find at h
  intro x hx he
  have := List.find?_eq_none.1 h x hx
  simp [he] at this

theorem pid_inj {l : List Proc} (hp : l.Pairwise (fun a b => a.pid ≠ b.pid)) {x y : Proc}
    (hx : x ∈ l) (hy : y ∈ l) (he : x.pid = y.pid) : x = y := by
  induction l with
  | nil => cases hx
  | cons a l ih =>
    rw [List.pairwise_cons] at hp
    rcases List.mem_cons.1 hx with rfl | hx' <;> rcases List.mem_cons.1 hy with rfl | hy'
    · rfl
    · exact absurd he (hp.1 _ hy')
    · exact absurd he.symm (hp.1 _ hx')
    · exact ih hp.2 hx' hy'

theorem mem_setBlocked {s : State} {p : Nat} {b : Option Nat} {y : Proc}
    (hy : y ∈ (setBlocked s p b).procs) :
    ∃ x ∈ s.procs, y.pid = x.pid ∧ y.under = x.under ∧
      ((x.pid = p ∧ y.blocked = b) ∨ (x.pid ≠ p ∧ y = x)) := by
  simp only [setBlocked, List.mem_map] at hy
  obtain ⟨x, hx, rfl⟩ := hy
  refine ⟨x, hx, ?_⟩
  by_cases hp : x.pid = p
  · simp [hp]
  · simp [hp]

theorem setBlocked_mem {s : State} {p : Nat} {b : Option Nat} {x : Proc} (hx : x ∈ s.procs) :
    ∃ y ∈ (setBlocked s p b).procs, y.pid = x.pid ∧ y.under = x.under := by
  refine ⟨if x.pid == p then { x with blocked := b } else x, ?_, ?_, ?_⟩
  · simp only [setBlocked, List.mem_map]; exact ⟨x, hx, rfl⟩
  · split <;> rfl
  · split <;> rfl

theorem setBlocked_pids {s : State} {p : Nat} {b : Option Nat}
    (h : s.procs.Pairwise (fun a b => a.pid ≠ b.pid)) :
    (setBlocked s p b).procs.Pairwise (fun a b => a.pid ≠ b.pid) := by
  simp only [setBlocked]
  rw [List.pairwise_map]
  refine h.imp ?_
  intro a c hac
  split <;> split <;> exact hac

@[simp] theorem setBlocked_owner (s : State) (p : Nat) (b : Option Nat) : (setBlocked s p b).owner = s.owner := rfl
@[simp] theorem setBlocked_scripts (s : State) (p : Nat) (b : Option Nat) : (setBlocked s p b).scripts = s.scripts := rfl
@[simp] theorem setOwner_procs (s : State) (f : Nat) (o : Option Nat) : (setOwner s f o).procs = s.procs := rfl
@[simp] theorem setOwner_scripts (s : State) (f : Nat) (o : Option Nat) : (setOwner s f o).scripts = s.scripts := rfl
theorem setOwner_owner (s : State) (f : Nat) (o : Option Nat) (g : Nat) :
    (setOwner s f o).owner g = if g = f then o else s.owner g := rfl

/-! ### Preservation, event by event -/

section pres
variable {reach : Nat → List Nat} {univ : List Nat} {s s' : State}

theorem inv_cons_proc (hI : Inv reach univ s) {p : Nat} (u : Option Nat) (hf : ∀ x ∈ s.procs, x.pid ≠ p) :
    Inv reach univ { s with procs := { pid := p, under := u } :: s.procs } where
  pids := by
    rw [List.pairwise_cons]
    exact ⟨fun a ha he => hf a ha he.symm, hI.pids⟩
  blocked := by
    intro x hx h hb
    rcases List.mem_cons.1 hx with rfl | hx'
    · cases hb
    · exact hI.blocked x hx' h hb
  runner := by
    intro e he
    obtain ⟨x, hx, h1, h2⟩ := hI.runner e he
    exact ⟨x, List.mem_cons_of_mem _ hx, h1, h2⟩
  owner := by
    intro f q ho
    obtain ⟨x, hx, h1, h2⟩ := hI.owner f q ho
    exact ⟨x, List.mem_cons_of_mem _ hx, h1, h2⟩

theorem inv_start (hI : Inv reach univ s) {p : Nat} {u : Option Nat}
    (h : step reach univ s (.start p u) = .ok s') : Inv reach univ s' := by
  simp only [step] at h
  split at h
  · cases h
  · rename_i hn
    have hf : ∀ x ∈ s.procs, x.pid ≠ p := by
      apply find_none
      cases hfp : find s p with
      | none => rfl
      | some y => simp [hfp] at hn
    split at h
    · cases h; exact inv_cons_proc hI none hf
    · split at h
      · cases h; exact inv_cons_proc hI _ hf
      · cases h

/-- Giving a free lock to an unblocked alive process that may ask for it. -/
theorem inv_setOwner_some (hI : Inv reach univ s) {p f : Nat} {x : Proc} (hx : x ∈ s.procs) (hp : x.pid = p)
    (hb : x.blocked = none) (ha : allowed reach x.under f = true) :
    Inv reach univ (setOwner s f (some p)) where
  pids := hI.pids
  blocked := by
    intro y hy h hyb
    obtain ⟨h1, h2, h3, h4⟩ := hI.blocked y hy h hyb
    refine ⟨h1, h2, ?_, h4⟩
    intro g hg
    rw [setOwner_owner]
    split
    · intro he
      have : x = y := pid_inj hI.pids hx hy (by rw [hp]; exact (Option.some.inj he))
      subst this
      rw [hb] at hyb; cases hyb
    · exact h3 g hg
  runner := hI.runner
  owner := by
    intro g q ho
    rw [setOwner_owner] at ho
    split at ho
    · cases ho; subst_vars; exact ⟨x, hx, rfl, ha⟩
    · exact hI.owner g q ho

theorem inv_lockOk (hI : Inv reach univ s) {p f : Nat}
    (h : step reach univ s (.lockOk p f) = .ok s') : Inv reach univ s' := by
  simp only [step] at h
  split at h
  · cases h
  · rename_i x hfx
    obtain ⟨hx, hp⟩ := find_some hfx
    split at h
    · cases h
    · rename_i hb
      split at h
      · cases h
      · rename_i ha
        split at h
        · split at h
          · cases h; exact hI
          · cases h
        · cases h
          refine inv_setOwner_some hI hx hp ?_ ?_
          · cases hxb : x.blocked with
            | none => rfl
            | some _ => simp [hxb] at hb
          · simpa using ha

theorem inv_waitBegin (hI : Inv reach univ s) {p f : Nat} (hin : f ∈ univ)
    (h : step reach univ s (.waitBegin p f) = .ok s') : Inv reach univ s' := by
  simp only [step] at h
  split at h
  · cases h
  · rename_i x hfx
    obtain ⟨hx, hp⟩ := find_some hfx
    split at h
    · cases h
    split at h
    · cases h
    rename_i ha
    split at h
    · cases h
    rename_i hheld
    split at h
    · cases h
    rename_i hscr
    cases h
    refine ⟨setBlocked_pids hI.pids, ?_, ?_, ?_⟩
    · intro y hy h hyb
      obtain ⟨z, hz, e1, e2, hcase⟩ := mem_setBlocked hy
      rcases hcase with ⟨hzp, hyb'⟩ | ⟨_, rfl⟩
      · have : z = x := pid_inj hI.pids hz hx (by rw [hzp, hp])
        subst this
        rw [hyb'] at hyb; cases hyb
        refine ⟨hin, ?_, ?_, ?_⟩
        · rw [e2]; simpa using ha
        · intro g hg he
          apply hheld
          simp only [held, List.any_eq_true]
          refine ⟨g, hg, ?_⟩
          simp only [setBlocked_owner] at he
          rw [he, e1, hp]; simp
        · intro e he he2
          apply hscr
          simp only [List.any_eq_true]
          simp only [setBlocked_scripts] at he
          exact ⟨e, he, by rw [he2, e1, hp]; simp⟩
      · exact hI.blocked y hz h hyb
    · intro e he
      obtain ⟨z, hz, h1, h2⟩ := hI.runner e he
      obtain ⟨y, hy, e1, e2⟩ := setBlocked_mem (p := p) (b := some f) hz
      exact ⟨y, hy, e1.trans h1, fun u hu => h2 u (e2 ▸ hu)⟩
    · intro g q ho
      obtain ⟨z, hz, h1, h2⟩ := hI.owner g q ho
      obtain ⟨y, hy, e1, e2⟩ := setBlocked_mem (p := p) (b := some f) hz
      exact ⟨y, hy, e1.trans h1, e2 ▸ h2⟩

theorem inv_waitEnd (hI : Inv reach univ s) {p f : Nat}
    (h : step reach univ s (.waitEnd p f) = .ok s') : Inv reach univ s' := by
  simp only [step] at h
  split at h
  · cases h
  · rename_i x hfx
    obtain ⟨hx, hp⟩ := find_some hfx
    split at h
    · cases h
    rename_i hxb
    have hxb : x.blocked = some f := by simpa using hxb
    split at h
    · cases h
    rename_i hfree
    cases h
    obtain ⟨_, hxa, _, _⟩ := hI.blocked x hx f hxb
    obtain ⟨x', hx', ex1, ex2⟩ := setBlocked_mem (p := p) (b := none) hx
    refine ⟨setBlocked_pids hI.pids, ?_, ?_, ?_⟩
    · intro y hy h hyb
      simp only [setOwner_procs] at hy
      obtain ⟨z, hz, e1, e2, hcase⟩ := mem_setBlocked hy
      rcases hcase with ⟨hzp, hyb'⟩ | ⟨hzp, rfl⟩
      · rw [hyb'] at hyb; cases hyb
      · obtain ⟨h1, h2, h3, h4⟩ := hI.blocked y hz h hyb
        refine ⟨h1, h2, ?_, h4⟩
        intro g hg
        rw [setOwner_owner]
        split
        · intro he; exact hzp (Option.some.inj he).symm
        · exact h3 g hg
    · intro e he
      obtain ⟨z, hz, h1, h2⟩ := hI.runner e he
      obtain ⟨y, hy, e1, e2⟩ := setBlocked_mem (p := p) (b := none) hz
      exact ⟨y, hy, e1.trans h1, fun u hu => h2 u (e2 ▸ hu)⟩
    · intro g q ho
      rw [setOwner_owner] at ho
      split at ho
      · cases ho; subst_vars
        exact ⟨x', hx', ex1, ex2 ▸ hxa⟩
      · obtain ⟨z, hz, h1, h2⟩ := hI.owner g q ho
        obtain ⟨y, hy, e1, e2⟩ := setBlocked_mem (p := p) (b := none) hz
        exact ⟨y, hy, e1.trans h1, e2 ▸ h2⟩

theorem inv_unlock (hI : Inv reach univ s) {p f : Nat}
    (h : step reach univ s (.unlock p f) = .ok s') : Inv reach univ s' := by
  simp only [step] at h
  split at h
  · cases h
  split at h
  · cases h
  cases h
  refine ⟨hI.pids, ?_, hI.runner, ?_⟩
  · intro y hy h hyb
    obtain ⟨h1, h2, h3, h4⟩ := hI.blocked y hy h hyb
    refine ⟨h1, h2, ?_, h4⟩
    intro g hg
    rw [setOwner_owner]
    split
    · intro he; cases he
    · exact h3 g hg
  · intro g q ho
    rw [setOwner_owner] at ho
    split at ho
    · cases ho
    · exact hI.owner g q ho

theorem inv_script (hI : Inv reach univ s) {p k : Nat} (hg : scriptGuard s p k = true)
    (h : step reach univ s (.script p k) = .ok s') : Inv reach univ s' := by
  simp only [step] at h
  split at h
  · cases h
  · rename_i x hfx
    obtain ⟨hx, hp⟩ := find_some hfx
    split at h
    · cases h
    rename_i hb
    have hxb : x.blocked = none := by
      cases hxb : x.blocked with
      | none => rfl
      | some _ => simp [hxb] at hb
    split at h
    · cases h
    cases h
    refine ⟨hI.pids, ?_, ?_, hI.owner⟩
    · intro y hy h hyb
      obtain ⟨h1, h2, h3, h4⟩ := hI.blocked y hy h hyb
      refine ⟨h1, h2, h3, ?_⟩
      intro e he
      rcases List.mem_cons.1 he with rfl | he'
      · intro hpe
        have : x = y := pid_inj hI.pids hx hy (by rw [hp]; exact hpe)
        subst this
        rw [hxb] at hyb; cases hyb
      · exact h4 e he'
    · intro e he
      rcases List.mem_cons.1 he with rfl | he'
      · refine ⟨x, hx, hp, ?_⟩
        intro u hu
        simp only [scriptGuard, hfx, Bool.or_eq_true, Bool.and_eq_true, beq_iff_eq, decide_eq_true_eq] at hg
        rcases hg with (ho | hun) | ⟨hk, ho⟩
        · obtain ⟨z, hz, hzp, hza⟩ := hI.owner k p ho
          have : z = x := pid_inj hI.pids hz hx (by rw [hzp, hp])
          subst this
          left
          simpa [allowed, hu] using hza
        · right; right
          rw [hu] at hun; exact Option.some.inj hun
        · obtain ⟨z, hz, hzp, hza⟩ := hI.owner _ p ho
          have : z = x := pid_inj hI.pids hz hx (by rw [hzp, hp])
          subst this
          right; left
          refine ⟨k - 1000000, ?_, ?_⟩
          · simpa [allowed, hu] using hza
          · simp only [oobKey]; omega
      · exact hI.runner e he'

theorem inv_scriptEnd (hI : Inv reach univ s) {p f : Nat}
    (h : step reach univ s (.scriptEnd p f) = .ok s') : Inv reach univ s' := by
  simp only [step] at h
  split at h
  · cases h
  split at h
  · cases h
  cases h
  refine ⟨hI.pids, ?_, ?_, hI.owner⟩
  · intro y hy h hyb
    obtain ⟨h1, h2, h3, h4⟩ := hI.blocked y hy h hyb
    exact ⟨h1, h2, h3, fun e he => h4 e (List.mem_filter.1 he).1⟩
  · intro e he
    exact hI.runner e (List.mem_filter.1 he).1

theorem inv_exit (hI : Inv reach univ s) {p : Nat}
    (h : step reach univ s (.exit p) = .ok s') : Inv reach univ s' := by
  simp only [step] at h
  split at h
  · cases h
  split at h
  · cases h
  rename_i hscr
  cases h
  have keep : ∀ z ∈ s.procs, z.pid ≠ p → z ∈ s.procs.filter (fun x => !(x.pid == p)) := by
    intro z hz hne
    rw [List.mem_filter]
    exact ⟨hz, by simpa using hne⟩
  refine ⟨hI.pids.filter _, ?_, ?_, ?_⟩
  · intro y hy h hyb
    obtain ⟨h1, h2, h3, h4⟩ := hI.blocked y (List.mem_filter.1 hy).1 h hyb
    refine ⟨h1, h2, ?_, h4⟩
    intro g hg
    dsimp only
    split
    · intro he; cases he
    · exact h3 g hg
  · intro e he
    obtain ⟨z, hz, h1, h2⟩ := hI.runner e he
    refine ⟨z, keep z hz ?_, h1, h2⟩
    intro hzp
    apply hscr
    simp only [List.any_eq_true]
    exact ⟨e, he, by rw [← h1, hzp]; simp⟩
  · intro g q ho
    dsimp only at ho
    split at ho
    · cases ho
    · rename_i hne
      obtain ⟨z, hz, h1, h2⟩ := hI.owner g q ho
      refine ⟨z, keep z hz ?_, h1, h2⟩
      intro hzp
      apply hne
      rw [ho, ← h1, hzp]

/-- **Preservation.**  One accepted (guarded) step keeps the invariant, provided the event's awaited
lock (if it is a `waitBegin`) is listed in `univ`. -/
theorem step_preserves_inv (hI : Inv reach univ s) {ev : Ev} (hin : evIn univ ev = true)
    (h : stepG reach univ s ev = .ok s') : Inv reach univ s' := by
  cases ev with
  | start p u => exact inv_start hI h
  | lockOk p f => exact inv_lockOk hI h
  | waitBegin p f => exact inv_waitBegin hI (by simpa [evIn] using hin) h
  | waitEnd p f => exact inv_waitEnd hI h
  | unlock p f => exact inv_unlock hI h
  | script p k =>
    simp only [stepG] at h
    split at h
    · rename_i hg; exact inv_script hI hg h
    · cases h
  | scriptEnd p f => exact inv_scriptEnd hI h
  | exit p => exact inv_exit hI h

theorem runG_inv {es : List Ev} (hI : Inv reach univ s) (hin : ∀ ev ∈ es, evIn univ ev = true)
    (h : runG reach univ s es = .ok s') : Inv reach univ s' := by
  induction es generalizing s with
  | nil => cases h; exact hI
  | cons e es ih =>
    simp only [runG] at h
    split at h
    · cases h
    · rename_i s1 h1
      exact ih (step_preserves_inv hI (hin e (List.mem_cons_self ..)) h1)
        (fun ev hev => hin ev (List.mem_cons_of_mem _ hev)) h

end pres

end RedoModel.Waits
