import RedoModel.Lemmas.DepsQuiet11
/-! C02, "only if": a script executed by `redo-ifchange` had a reason in the world the command started from. -/
namespace RedoModel.Deps.Rich
open RedoModel.Generated

/-- The reasons for which `redo-ifchange` may execute the script of `t`, read off the world `w` the command starts
from: the `//ALWAYS` pseudo file; a failure mark; never built; the file is not as recorded (missing, replaced,
edited); a recorded `redo-ifchange` dependency was built or changed in a later run than `t` was last built or
verified; a recorded `redo-ifcreate` object (or higher-priority .do candidate) exists; or, hereditarily, a recorded
`redo-ifchange` dependency has a reason.  (Rows of a file redo does not own, or no longer owns, do not count.) -/
inductive Reason (w : World) : Nat → Prop
  | always : Reason w alwaysId
  | failed {t} : (w.recs t).failed ≠ none → Reason w t
  | never {t} : (w.recs t).changed = none → Reason w t
  | stamp {t} : (w.recs t).stamp ≠ some (readStamp w t) → Reason w t
  | newer {t} {d : Dep} {c : Nat} : genT (w.recs t) = true → d ∈ w.deps → d.target = t → d.modeM = true →
      (w.recs d.source).changed = some c → c > Mof (w.recs t) → Reason w t
  | created {t} {d : Dep} : genT (w.recs t) = true → d ∈ w.deps → d.target = t → d.modeM = false →
      existsF w d.source = true → Reason w t
  | dep {t} {d : Dep} : genT (w.recs t) = true → d ∈ w.deps → d.target = t → d.modeM = true →
      Reason w d.source → Reason w t

theorem Reason.congr {w w' : World} (hrecs : w'.recs = w.recs) (hdeps : w'.deps = w.deps) (hfs : w'.fs = w.fs) {t : Nat}
    (h : Reason w t) : Reason w' t := by
  induction h with
  | always => exact .always
  | failed h => exact .failed (by rw [hrecs]; exact h)
  | never h => exact .never (by rw [hrecs]; exact h)
  | stamp h => exact .stamp (by rw [hrecs, readStamp_congr (congrFun hfs _)]; exact h)
  | newer hg hd ht hm hc hlt =>
    exact .newer (by rw [hrecs]; exact hg) (by rw [hdeps]; exact hd) ht hm (by rw [hrecs]; exact hc)
      (by rw [hrecs]; exact hlt)
  | created hg hd ht hm he =>
    exact .created (by rw [hrecs]; exact hg) (by rw [hdeps]; exact hd) ht hm
      (by rw [existsF_congr (congrFun hfs _)]; exact he)
  | dep hg hd ht hm _ ih => exact .dep (by rw [hrecs]; exact hg) (by rw [hdeps]; exact hd) ht hm ih

/-- The files without a reason form a settled set — in a world whose marks are not from the future and whose
`c` rows name plain files (both hold in every world reachable by a rich history: `Base.chLe`, `ckLe`, `cPlain`). -/
theorem noReason_settled {w : World} {R' : Nat}
    (hch : ∀ f c, (w.recs f).changed = some c → c ≤ R') (hck : ∀ f c, (w.recs f).checked = some c → c ≤ R')
    (hcp : ∀ d ∈ w.deps, d.modeM = false → w.rules d.source = []) :
    SSet R' (fun t => ¬ Reason w t) w := by
  intro f hf
  refine ⟨fun e => hf (e ▸ .always), ?_, ?_, hck f, ?_, fun hg d hd ht hm => ⟨fun hr => hf (.dep hg hd ht hm hr), ?_⟩,
    fun hg d hd ht hm => ⟨?_, hcp d hd hm⟩⟩
  · cases h : (w.recs f).failed with
    | none => rfl
    | some k => exact absurd (Reason.failed (by rw [h]; simp)) hf
  · cases h : (w.recs f).changed with
    | none => exact absurd (Reason.never h) hf
    | some c => exact ⟨c, rfl, hch f c h⟩
  · exact Classical.byContradiction fun h => hf (.stamp h)
  · intro c hc
    exact Classical.byContradiction fun h => hf (.newer hg hd ht hm hc (by omega))
  · cases h : existsF w d.source with
    | false => rfl
    | true => exact absurd (Reason.created hg hd ht hm h) hf

/-- **Nothing runs without a reason** (world level, any defect switches): in a world whose marks are not from the
future and whose `c` rows name plain files, every script executed by `redo-ifchange ts` belongs to a file that had
a `Reason` when the command started. -/
theorem ran_reason_of_world (d : Defects) (n : Nat) (w : World) (ts : List Nat) (kg : Bool)
    (hch : ∀ f c, (w.recs f).changed = some c → c ≤ w.runCounter)
    (hck : ∀ f c, (w.recs f).checked = some c → c ≤ w.runCounter)
    (hcp : ∀ d ∈ w.deps, d.modeM = false → w.rules d.source = []) (t : Nat)
    (hran : Ev.ran t ∈ (runCmd d n (.ifchange ts kg) w).2.trace) : Ev.ran t ∈ w.trace ∨ Reason w t := by
  have hq := noReason_settled (w := w) (R' := w.runCounter + 1)
    (fun f c h => Nat.le_succ_of_le (hch f c h)) (fun f c h => Nat.le_succ_of_le (hck f c h)) hcp
  have hrel := ifchange_leaves_settled d n ts kg hq
  by_cases hr : Reason w t
  · exact Or.inr hr
  · exact Or.inl (hrel.ran t hr hran)

/-- The same in a between-commands world of a rich history. -/
theorem ran_reason_btw {rank w} (hb : Btw rank w) (n : Nat) (ts : List Nat) (kg : Bool) (t : Nat)
    (hran : Ev.ran t ∈ (runCmd {} n (.ifchange ts kg) { w with trace := [] }).2.trace) : Reason w t := by
  have hb' : Base rank w.runCounter NoX w := hb
  rcases ran_reason_of_world {} n { w with trace := [] } ts kg hb'.chLe hb'.ckLe
    (fun d hd hm => (hb'.cPlain d hd hm).1) t hran with h | h
  · simp at h
  · exact Reason.congr (w := { w with trace := [] }) (w' := w) rfl rfl rfl h

/-- History level. -/
theorem runsOnlyForAReason (n : Nat) (rules : Nat → List Nat) (rank : Nat → Nat) (ops : List UserOp) (ts : List Nat)
    (kg : Bool) (hr : RulesOk rules) (hp : ∀ op ∈ ops, RichOp rules op)
    (hrk : ∀ w ∈ worldsOf n {} (initWorld rules) ops, RankedR rank w) (hN : ∀ f, rank f < n)
    (hok : OpsOkW n (initWorld rules) ops) :
    let w := ops.foldl (fun w op => (applyOp {} n op w).2) (initWorld rules)
    ∀ t, Ev.ran t ∈ (runCmd {} n (.ifchange ts kg) { w with trace := [] }).2.trace → Reason w t := by
  intro w t hran
  have h0 : Btw rank (initWorld rules) := Btw_init hr (hrk _ (worldsOf_head n {} _ ops))
  obtain ⟨hb, _⟩ := history_btw hN ops (initWorld rules) h0 rfl hp hrk hok
  exact ran_reason_btw hb n ts kg t hran

end RedoModel.Deps.Rich
