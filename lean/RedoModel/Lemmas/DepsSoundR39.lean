import RedoModel.Lemmas.DepsSoundR38
/-! The invariant along a plain history. -/
namespace RedoModel.Deps.Rich
open RedoModel.Generated

theorem Btw_init {rank rules} (hr : RulesOk rules) (hrk : RankedR rank (initWorld rules)) : Btw rank (initWorld rules) := by
  have hrec : ∀ f, (initWorld rules).recs f = {} ∨ (initWorld rules).recs f = { row := 1 } := by
    intro f; unfold initWorld; simp only; split
    · exact Or.inr rfl
    · exact Or.inl rfl
  have hdeps : (initWorld rules).deps = [] := rfl
  have hfs : ∀ f, (initWorld rules).fs f = none := fun _ => rfl
  exact {
    rulesOk := hr
    ranked := hrk
    richProgs := fun c sc h => by cases h
    chLe := fun f ch h => by rcases hrec f with e | e <;> rw [e] at h <;> cases h
    ckLe := fun f ck h => by rcases hrec f with e | e <;> rw [e] at h <;> cases h
    noCsum := fun f => by rcases hrec f with e | e <;> rw [e]
    ovrSt := fun f h => by rcases hrec f with e | e <;> rw [e] at h <;> cases h
    srcNotGen := fun f _ => by rcases hrec f with e | e <;> rw [e]
    fs0 := rfl
    rec0 := by rcases hrec alwaysId with e | e <;> rw [e] <;> exact ⟨rfl, rfl, (fun h => by simp at h), Or.inl rfl⟩
    rowsLt := fun d hd => by rw [hdeps] at hd; cases hd
    cPlain := fun d hd => by rw [hdeps] at hd; cases hd
    stampCh := fun f h => by rcases hrec f with e | e <;> rw [e] at h <;> exact absurd rfl h
    staticEx := fun f _ _ _ => by rcases hrec f with e | e <;> rw [e] <;> simp
    fsB := fun f n h => by rw [hfs] at h; cases h
    stB := fun f ms rest h => by rcases hrec f with e | e <;> rw [e] at h <;> cases h
    ckFail := fun f h => by rcases hrec f with e | e <;> rw [e] at h <;> cases h
    markFail := fun f h => by rcases hrec f with e | e <;> rw [e] at h <;> cases h
    flLe := fun f k h => by rcases hrec f with e | e <;> rw [e] at h <;> cases h
    recA := fun t _ hrc _ => by
      have := hrc.2.1
      rcases hrec t with e | e <;> rw [e] at this <;> exact absurd rfl this }

theorem worldsOf_head (n : Nat) (d : Defects) (w : World) (ops : List UserOp) : w ∈ worldsOf n d w ops := by
  cases ops <;> simp [worldsOf]

/-- The extra, world-dependent conditions on operations: a `setProg` does not redefine the meaning of a .do
content in place (see `SetProgOk`); the user does not write a file at the name of a redo-owned target whose script
produced no output file (its recorded stamp is "missing").  The write clause is no longer needed by the proofs
(`applyOp_btw`, `history_btw` ask for `OpOkW` only; see `noStaleRichFree` in DepsSoundR42); `OpOk` / `OpsOk` are kept
so that the statement of `noStaleRich` stays as it was. -/
def OpOk (w : World) : UserOp → Prop
  | .setProg c s => SetProgOk w c s
  | .write f _ => genT (w.recs f) = true → (w.recs f).stamp ≠ some .missing
  | _ => True

def OpsOk (n : Nat) : World → List UserOp → Prop
  | _, [] => True
  | w, op :: ops => OpOk w op ∧ OpsOk n (applyOp {} n op w).2 ops

/-- The condition on `setProg` alone. -/
def OpOkW (w : World) : UserOp → Prop
  | .setProg c s => SetProgOk w c s
  | _ => True

def OpsOkW (n : Nat) : World → List UserOp → Prop
  | _, [] => True
  | w, op :: ops => OpOkW w op ∧ OpsOkW n (applyOp {} n op w).2 ops

theorem OpOk.toW {w : World} {op : UserOp} (h : OpOk w op) : OpOkW w op := by
  cases op <;> first | exact h | trivial

theorem OpsOk.toW {n : Nat} : ∀ {w : World} {ops : List UserOp}, OpsOk n w ops → OpsOkW n w ops
  | _, [], _ => trivial
  | _, _ :: _, h => ⟨h.1.toW, OpsOk.toW h.2⟩

theorem applyOp_btw {rank n rules w} (hN : ∀ f, rank f < n) (h : Btw rank w) (hr : w.rules = rules) (op : UserOp)
    (hp : RichOp rules op) (hok : OpOkW w op) (hrk : RankedR rank (applyOp {} n op w).2) :
    Btw rank (applyOp {} n op w).2 ∧ (applyOp {} n op w).2.rules = rules := by
  cases op with
  | write f v =>
    rw [applyOp_write] at hrk ⊢
    exact ⟨Btw_write h hp hrk, hr⟩
  | remove f =>
    rw [applyOp_remove] at hrk ⊢
    exact ⟨Btw_remove h hp hrk, hr⟩
  | chmod f =>
    rw [applyOp_chmod] at hrk ⊢
    refine ⟨Btw_chmod h (by rw [hr]; exact hp.1) hp.2 hrk, ?_⟩
    unfold chmodW; split <;> exact hr
  | hide f => exact hp.elim
  | unhide f => exact hp.elim
  | setProg c s =>
    rw [applyOp_setProg] at hrk ⊢
    exact ⟨Btw_setProg h hp hok hrk, hr⟩
  | cmd c =>
    obtain ⟨a1, a2⟩ := runCmd_btw {} hN h c hp
    exact ⟨a1, a2.trans hr⟩
  | crashCmd ts t k => exact hp.elim

theorem history_btw {rank n rules} (hN : ∀ f, rank f < n) :
    ∀ (ops : List UserOp) (w : World), Btw rank w → w.rules = rules → (∀ op ∈ ops, RichOp rules op) →
      (∀ w' ∈ worldsOf n {} w ops, RankedR rank w') → OpsOkW n w ops →
      Btw rank (ops.foldl (fun w op => (applyOp {} n op w).2) w) ∧
      (ops.foldl (fun w op => (applyOp {} n op w).2) w).rules = rules
  | [], w, h, hr, _, _, _ => ⟨h, hr⟩
  | op :: ops, w, h, hr, hp, hrk, hok => by
    have hrk1 : RankedR rank (applyOp {} n op w).2 :=
      hrk _ (by simp only [worldsOf, List.mem_cons]; exact Or.inr (worldsOf_head n {} _ ops))
    obtain ⟨a1, a2⟩ := applyOp_btw hN h hr op (hp op (by simp)) hok.1 hrk1
    exact history_btw hN ops _ a1 a2 (fun op' h' => hp op' (List.mem_cons_of_mem _ h'))
      (fun w' hw' => hrk w' (by simp only [worldsOf, List.mem_cons]; exact Or.inr hw')) hok.2

theorem OpOk.ofWatch {rank rules w} (h : Btw rank w) (hr : w.rules = rules) {op : UserOp} (hp : WatchOp rules op)
    (hok : OpOkW w op) : OpOk w op := by
  cases op with
  | write f v =>
    intro hg
    have hb : Base rank w.runCounter NoX w := h
    rw [hb.srcT f (by rw [hr]; exact hp.1)] at hg; cases hg
  | setProg c s => exact hok
  | remove f => trivial
  | chmod f => trivial
  | hide f => trivial
  | unhide f => trivial
  | cmd c => trivial
  | crashCmd ts t k => trivial

/-- Along a history of stage-2 operations the condition on writes holds by itself. -/
theorem opsOk_of_watch {rank n rules} (hN : ∀ f, rank f < n) :
    ∀ (ops : List UserOp) (w : World), Btw rank w → w.rules = rules → (∀ op ∈ ops, WatchOp rules op) →
      (∀ w' ∈ worldsOf n {} w ops, RankedR rank w') → OpsOkW n w ops → OpsOk n w ops
  | [], _, _, _, _, _, _ => trivial
  | op :: ops, w, h, hr, hp, hrk, hok => by
    have hrk1 : RankedR rank (applyOp {} n op w).2 :=
      hrk _ (by simp only [worldsOf, List.mem_cons]; exact Or.inr (worldsOf_head n {} _ ops))
    have hok1 : OpOk w op := OpOk.ofWatch h hr (hp op (by simp)) hok.1
    obtain ⟨a1, a2⟩ := applyOp_btw hN h hr op (hp op (by simp)).toRich hok.1 hrk1
    exact ⟨hok1, opsOk_of_watch hN ops _ a1 a2 (fun op' h' => hp op' (List.mem_cons_of_mem _ h'))
      (fun w' hw' => hrk w' (by simp only [worldsOf, List.mem_cons]; exact Or.inr hw')) hok.2⟩

end RedoModel.Deps.Rich
