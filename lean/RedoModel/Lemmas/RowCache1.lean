import RedoModel.Lemmas.RowCache0
/-!
Helper lemmas for `Props/C16b.lean`, part 1: the property statements over accepted event lists, the statement without
ghost fields (`save_follows_own_load`), the acceptor without the guard (`stepNoGuard`) and the concrete traces.
-/
namespace RedoModel.RowCache

theorem Inv_run (es : List Ev) (s : State) (h : run {} es = some s) : Inv s :=
  run_inv Inv_step {} Inv_init es s h

/-! ### No lost update -/

theorem noLostUpdate (es : List Ev) (s s' : State) (p f id : Nat) (h : run {} es = some s)
    (hs : step s (.save p f id) = some s') : ∀ q ∈ since s p f id, q = p := by
  obtain ⟨hh, hl, hr, _⟩ := step_save_some hs
  exact ((Inv_run es s h).fresh p id f hh hl hr).2

theorem seenAt_le (es : List Ev) (s s' : State) (p f id : Nat) (h : run {} es = some s)
    (hs : step s (.save p f id) = some s') : s.seenAt p id ≤ (s.writes f).length := by
  obtain ⟨hh, hl, hr, _⟩ := step_save_some hs
  exact ((Inv_run es s h).fresh p id f hh hl hr).1

/-! ### The log of a row is consistent with transaction order -/

theorem stamps_fst (es : List Ev) (s : State) (h : run {} es = some s) (f : Nat) :
    (s.stamps f).map Prod.fst = s.writes f := (Inv_run es s h).stampFst f

theorem stamps_block (es : List Ev) (s : State) (h : run {} es = some s) (f : Nat) (a : Nat × Nat) (i j k : Nat)
    (hi : (s.stamps f)[i]? = some a) (hk : (s.stamps f)[k]? = some a) (hij : i ≤ j) (hjk : j ≤ k) :
    (s.stamps f)[j]? = some a :=
  ((Inv_run es s h).serial f).block hi hk hij hjk

theorem stamps_order (es : List Ev) (s : State) (h : run {} es = some s) (f : Nat) (a b : Nat × Nat) (hab : a ≠ b)
    (i j i' j' : Nat) (hi : (s.stamps f)[i]? = some a) (hj : (s.stamps f)[j]? = some b) (hij : i < j)
    (hi' : (s.stamps f)[i']? = some a) (hj' : (s.stamps f)[j']? = some b) : i' < j' := by
  have blk := stamps_block es s h f
  apply Classical.byContradiction
  intro hn
  have hne : i' ≠ j' := by
    intro he; subst he; rw [hi'] at hj'; cases hj'; exact hab rfl
  by_cases h1 : j' ≤ i
  · -- b at j', a at i, b at j
    have := blk b j' i j hj' hj h1 (by omega)
    rw [hi] at this; cases this; exact hab rfl
  · -- a at i, b at j', a at i'
    have := blk a i j' i' hi hi' (by omega) (by omega)
    rw [hj'] at this; cases this; exact hab rfl

theorem stamps_numbers (es : List Ev) (s : State) (h : run {} es = some s) (f q n : Nat)
    (hm : (q, n) ∈ s.stamps f) : 1 ≤ n ∧ n ≤ s.txn q := (Inv_run es s h).stampLe f q n hm

theorem stamps_mono (es : List Ev) (s : State) (h : run {} es = some s) (f p n m i j : Nat)
    (hi : (s.stamps f)[i]? = some (p, n)) (hj : (s.stamps f)[j]? = some (p, m)) (hij : i < j) : m ≤ n := by
  have hp := List.pairwise_iff_getElem.mp ((Inv_run es s h).mono f)
  obtain ⟨hi1, hi2⟩ := List.getElem?_eq_some_iff.mp hi
  obtain ⟨hj1, hj2⟩ := List.getElem?_eq_some_iff.mp hj
  have := hp i j hi1 hj1 hij
  rw [hi2, hj2] at this
  exact this rfl

/-! ### Without ghost fields: an accepted save follows its own load, with only own loads and saves in between -/

/-- A load or a save of process `p`. -/
def ownRowOp (p : Nat) : Ev → Prop
  | .load q _ _ => q = p
  | .save q _ _ => q = p
  | _ => False

theorem loaded_since (es : List Ev) (s : State) (h : run {} es = some s) :
    ∀ p id f, s.holder = some p → s.loadedIn p id = some (s.txn p) → s.loadedRow p id = some f →
      ∃ pre post, es = pre ++ .load p f id :: post ∧ ∀ e ∈ post, ownRowOp p e := by
  refine run_ind (P := fun es s => ∀ p id f, s.holder = some p → s.loadedIn p id = some (s.txn p) →
      s.loadedRow p id = some f → ∃ pre post, es = pre ++ .load p f id :: post ∧ ∀ e ∈ post, ownRowOp p e)
    {} ?_ ?_ es s h
  · intro p id f hh; cases hh
  · intro es s e s' hrun ih he p id f hh hl hr
    have hi := Inv_run es s hrun
    have ext : ∀ q g i, s.holder = some q → s.loadedIn q i = some (s.txn q) → s.loadedRow q i = some g →
        ownRowOp q e → ∃ pre post, es ++ [e] = pre ++ .load q g i :: post ∧ ∀ e ∈ post, ownRowOp q e := by
      intro q g i h1 h2 h3 ho
      obtain ⟨pre, post, h4, h5⟩ := ih q i g h1 h2 h3
      refine ⟨pre, post ++ [e], by rw [h4]; simp, ?_⟩
      intro e' he'
      rcases List.mem_append.mp he' with he' | he'
      · exact h5 e' he'
      · rw [List.mem_singleton.mp he']; exact ho
    cases e with
    | «begin» q =>
      obtain ⟨_, rfl⟩ := step_begin_some he
      dsimp only at hh hl
      cases hh
      simp only [if_true] at hl
      have := hi.loadedLe _ _ _ hl
      omega
    | commit q => obtain ⟨_, rfl⟩ := step_commit_some he; cases hh
    | load q g i =>
      obtain ⟨hq, rfl⟩ := step_load_some he
      dsimp only at hh hl hr
      rw [hq] at hh; cases hh
      by_cases hc : id = i
      · subst hc
        simp only [upd2, and_self, if_true, Option.some.injEq] at hr
        subst hr
        exact ⟨es, [], rfl, fun e he => by cases he⟩
      · have hc' : ¬ (True ∧ id = i) := fun h => hc h.2
        simp only [upd2, hc', if_false] at hl hr
        exact ext p f id hq hl hr rfl
    | save q g i =>
      obtain ⟨hq, _, _, rfl⟩ := step_save_some he
      dsimp only at hh hl hr
      rw [hq] at hh; cases hh
      exact ext p f id hq hl hr rfl

theorem save_follows_own_load (es : List Ev) (s s' : State) (p f id : Nat) (h : run {} es = some s)
    (hs : step s (.save p f id) = some s') :
    ∃ pre post, es = pre ++ .load p f id :: post ∧ ∀ e ∈ post, ownRowOp p e := by
  obtain ⟨hh, hl, hr, _⟩ := step_save_some hs
  exact loaded_since es s h p id f hh hl hr

theorem load_id_private (es : List Ev) (s s' : State) (p f id : Nat) (h : run {} es = some s)
    (hs : step s (.save p f id) = some s') : .load p f id ∈ es := by
  obtain ⟨pre, post, he, _⟩ := save_follows_own_load es s s' p f id h hs
  rw [he]; simp

/-! ### Clones of a copy -/

theorem save_twice (s s' : State) (p f id : Nat) (hs : step s (.save p f id) = some s') :
    (step s' (.save p f id)).isSome = true := by
  obtain ⟨hh, hl, hr, rfl⟩ := step_save_some hs
  exact step_save_isSome hh hl hr

/-! ### The acceptor without the guard -/

/-- `step` without THE GUARD of `save` (the `loadedIn` test); everything else is the same. -/
def stepNoGuard (s : State) : Ev → Option State
  | .save p f id =>
    if s.holder ≠ some p then none
    else if s.loadedRow p id ≠ some f then none
    else some { s with writes := fun x => if x = f then p :: s.writes f else s.writes x,
                       stamps := fun x => if x = f then (p, s.txn p) :: s.stamps f else s.stamps x }
  | e => step s e

def runNoGuard (s : State) : List Ev → Option State
  | [] => some s
  | e :: es =>
    match stepNoGuard s e with
    | none => none
    | some s' => runNoGuard s' es

/-! ### Concrete traces -/

/-- Process 1 loads row 5 (load id 1) in its transaction 1 and commits; process 2 loads row 5 (load id 7), saves it and
commits; process 1 begins its transaction 2.  (The seeded mutant then saves the copy with load id 1.) -/
def staleTrace : List Ev :=
  [.begin 1, .load 1 5 1, .commit 1, .begin 2, .load 2 5 7, .save 2 5 7, .commit 2, .begin 1]

theorem stale_rejected :
    (run {} staleTrace).isSome = true ∧ (run {} (staleTrace ++ [.save 1 5 1])).isNone = true := by decide

theorem stale_rejected_at : (match runIdx {} (staleTrace ++ [.save 1 5 1]) 0 with
    | .error i => i = 8 | .ok _ => False) := (rfl : (8 : Nat) = 8)

theorem reload_accepted :
    (run {} (staleTrace ++ [.load 1 5 2, .save 1 5 2])).isSome = true ∧
    (run {} (staleTrace ++ [.load 1 5 2, .save 1 5 2])).map (fun s => s.stamps 5) = some [(1, 2), (2, 1)] := by
  decide

theorem noGuard_accepts_stale :
    ∃ s s', runNoGuard {} staleTrace = some s ∧ stepNoGuard s (.save 1 5 1) = some s' ∧
      2 ∈ since s 1 5 1 ∧ 2 ≠ 1 := by
  refine ⟨(runNoGuard {} staleTrace).get (by decide),
    (stepNoGuard ((runNoGuard {} staleTrace).get (by decide)) (.save 1 5 1)).get (by decide),
    (Option.some_get _).symm, (Option.some_get _).symm, by decide, by decide⟩

theorem noGuard_loses_updates :
    ¬ ∀ (es : List Ev) (s s' : State) (p f id : Nat), runNoGuard {} es = some s →
        stepNoGuard s (.save p f id) = some s' → ∀ q ∈ since s p f id, q = p := by
  intro hall
  obtain ⟨s, s', h1, h2, h3, h4⟩ := noGuard_accepts_stale
  exact h4 (hall staleTrace s s' 1 5 1 h1 h2 2 h3)

/-- A copy saved twice in the transaction that loaded it; a copy offered by another process. -/
theorem clone_accepted :
    (run {} [.begin 1, .load 1 5 1, .save 1 5 1, .save 1 5 1]).map (fun s => (s.writes 5, since s 1 5 1))
      = some ([1, 1], [1, 1]) := by decide

theorem foreign_load_id_rejected :
    (run {} [.begin 1, .load 1 5 1, .commit 1, .begin 2]).isSome = true ∧
    (run {} [.begin 1, .load 1 5 1, .commit 1, .begin 2, .save 2 5 1]).isNone = true := by decide

/-- Three transactions of two processes on one row, two saves each: the blocks of the row's log. -/
theorem serial_example :
    (run {} [.begin 1, .load 1 5 1, .save 1 5 1, .save 1 5 1, .commit 1,
             .begin 2, .load 2 5 7, .save 2 5 7, .load 2 6 8, .save 2 6 8, .save 2 5 7, .commit 2,
             .begin 1, .load 1 5 2, .save 1 5 2, .save 1 5 2]).map (fun s => s.stamps 5)
      = some [(1, 2), (1, 2), (2, 1), (2, 1), (1, 1), (1, 1)] := by decide

end RedoModel.RowCache
