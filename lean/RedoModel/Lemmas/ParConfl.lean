import RedoModel.Lemmas.ParInv
/-!
Consequences of the invariant of `RedoModel.Par`: at most one start per target, a settled target holds the
from-scratch content, that content is unique, hence any two accepted schedules agree.
-/
namespace RedoModel.Par

/-! ### The from-scratch content is unique -/

/-- `out` is NOT injective in the list of inputs (the docstring of `out` claims it is): the brackets
`0 … 1` can be imitated by the contents themselves.  Nothing below depends on injectivity. -/
theorem out_not_injective : out 0 [[1, 0]] = out 0 [[], []] ∧ ([[1, 0]] : List Content) ≠ [[], []] := by
  decide

theorem spec_unique {g : Graph} {t : Nat} {c₁ c₂ : Content} (h₁ : Spec g t c₁) (h₂ : Spec g t c₂) :
    c₁ = c₂ := by
  induction h₁ generalizing c₂ with
  | src hs =>
    cases h₂ with
    | src _ => rfl
    | tgt cs hsc _ _ => rw [hs] at hsc; cases hsc
  | tgt cs hsc hlen hp ih =>
    cases h₂ with
    | src hs => rw [hs] at hsc; cases hsc
    | tgt cs' hsc' hlen' hp' =>
      rw [hsc] at hsc'; cases hsc'
      have : cs = cs' := by
        apply List.ext_getElem (by omega)
        intro i h1 h2
        exact ih i (by omega) h1 (hp' i (by omega) h2)
      rw [this]

/-! ### The ghost list of starts is the list of `start` events -/

def evStart : Ev → List Nat
  | .start t _ => [t]
  | _ => []

/-- The targets of the `start` events of a schedule, in order. -/
def startsOf (es : List Ev) : List Nat := es.flatMap evStart

theorem evStart_reverse (e : Ev) : (evStart e).reverse = evStart e := by cases e <;> rfl

theorem nodup_of_reverse {l : List Nat} (h : l.reverse.Nodup) : l.Nodup := by
  unfold List.Nodup at *
  rw [List.pairwise_reverse] at h
  exact h.imp (fun hab => Ne.symm hab)

theorem step_starts {g : Graph} {s s' : State} {e : Ev} (h : step g s e = some s') :
    s'.starts = evStart e ++ s.starts := by
  cases e with
  | start t b => obtain ⟨_, _, _, rfl⟩ := step_start h; rfl
  | clean t => obtain ⟨_, _, rfl⟩ := step_clean h; rfl
  | ret t => obtain ⟨_, _, _, _, _, _, _, rfl⟩ := step_ret h; rfl
  | finish t => obtain ⟨_, _, _, rfl⟩ := step_finish h; rfl

theorem run_starts {g : Graph} : ∀ (es : List Ev) (s s' : State), run g s es = some s' →
    s'.starts = (startsOf es).reverse ++ s.starts
  | [], s, s', h => by cases h; simp [startsOf]
  | e :: es, s, s', h => by
    rw [run_cons] at h
    cases hs : step g s e with
    | none => rw [hs] at h; cases h
    | some s1 =>
      rw [hs] at h
      rw [run_starts es s1 s' h, step_starts hs]
      simp [startsOf, List.flatMap_cons, evStart_reverse]

/-! ### What no event touches -/

theorem step_content_src {g : Graph} {s s' : State} {e : Ev} (h : step g s e = some s') {t : Nat}
    (ht : g.script t = none) : s'.content t = s.content t := by
  cases e with
  | start u b => obtain ⟨_, _, _, rfl⟩ := step_start h; rfl
  | clean u => obtain ⟨_, _, rfl⟩ := step_clean h; rfl
  | ret u => obtain ⟨_, _, _, _, _, _, _, rfl⟩ := step_ret h; rfl
  | finish u =>
    obtain ⟨sc, hsc, _, rfl⟩ := step_finish h
    have : t ≠ u := by rintro rfl; rw [ht] at hsc; cases hsc
    exact upd_other _ _ _ _ this

theorem run_content_src {g : Graph} : ∀ (es : List Ev) (s s' : State), run g s es = some s' →
    ∀ t, g.script t = none → s'.content t = s.content t
  | [], s, s', h, t, _ => by cases h; rfl
  | e :: es, s, s', h, t, ht => by
    rw [run_cons] at h
    cases hs : step g s e with
    | none => rw [hs] at h; cases h
    | some s1 =>
      rw [hs] at h
      rw [run_content_src es s1 s' h t ht, step_content_src hs ht]

/-- The content of a target changes only at its `finish`, which leaves it settled; so a target that is
(still) idle holds what it held before. -/
theorem step_content_idle {g : Graph} {s s' : State} {e : Ev} (h : step g s e = some s') {t : Nat}
    (ht : s'.st t = .idle) : s.st t = .idle ∧ s'.content t = s.content t := by
  cases e with
  | start u b =>
    obtain ⟨_, _, _, rfl⟩ := step_start h
    by_cases htu : t = u
    · subst htu; simp [upd_same] at ht
    · simp only [upd_other _ _ _ _ htu] at ht; exact ⟨ht, rfl⟩
  | clean u =>
    obtain ⟨_, _, rfl⟩ := step_clean h
    by_cases htu : t = u
    · subst htu; simp [upd_same] at ht
    · simp only [upd_other _ _ _ _ htu] at ht; exact ⟨ht, rfl⟩
  | ret u =>
    obtain ⟨_, _, _, _, _, _, _, rfl⟩ := step_ret h
    by_cases htu : t = u
    · subst htu; simp [upd_same] at ht
    · simp only [upd_other _ _ _ _ htu] at ht; exact ⟨ht, rfl⟩
  | finish u =>
    obtain ⟨sc, hsc, _, rfl⟩ := step_finish h
    by_cases htu : t = u
    · subst htu; simp [upd_same] at ht
    · simp only [upd_other _ _ _ _ htu] at ht ⊢; exact ⟨ht, trivial⟩

/-- Once settled, a target stays settled and keeps its content. -/
theorem step_done_stable {g : Graph} {s s' : State} {e : Ev} (h : step g s e = some s') {t : Nat}
    (ht : s.st t = .done) : s'.st t = .done ∧ s'.content t = s.content t := by
  cases e with
  | start u b =>
    obtain ⟨_, hidle, _, rfl⟩ := step_start h
    have htu : t ≠ u := by rintro rfl; rw [hidle] at ht; cases ht
    simp only [upd_other _ _ _ _ htu]; exact ⟨ht, trivial⟩
  | clean u =>
    obtain ⟨_, hidle, rfl⟩ := step_clean h
    have htu : t ≠ u := by rintro rfl; rw [hidle] at ht; cases ht
    simp only [upd_other _ _ _ _ htu]; exact ⟨ht, trivial⟩
  | ret u =>
    obtain ⟨_, _, _, _, hst, _, _, rfl⟩ := step_ret h
    have htu : t ≠ u := by rintro rfl; rw [hst] at ht; cases ht
    simp only [upd_other _ _ _ _ htu]; exact ⟨ht, trivial⟩
  | finish u =>
    obtain ⟨sc, hsc, hst, rfl⟩ := step_finish h
    have htu : t ≠ u := by rintro rfl; rw [hst] at ht; cases ht
    simp only [upd_other _ _ _ _ htu]; exact ⟨ht, trivial⟩

theorem run_done_stable {g : Graph} : ∀ (es : List Ev) (s s' : State), run g s es = some s' →
    ∀ t, s.st t = .done → s'.st t = .done ∧ s'.content t = s.content t
  | [], s, s', h, t, ht => by cases h; exact ⟨ht, rfl⟩
  | e :: es, s, s', h, t, ht => by
    rw [run_cons] at h
    cases hs : step g s e with
    | none => rw [hs] at h; cases h
    | some s1 =>
      rw [hs] at h
      obtain ⟨h1, h2⟩ := step_done_stable hs ht
      obtain ⟨h3, h4⟩ := run_done_stable es s1 s' h t h1
      exact ⟨h3, h4.trans h2⟩

/-! ### The main consequences -/

theorem par_at_most_once {g : Graph} {s0 s : State} {es : List Ev} (h0 : Init g s0)
    (h : run g s0 es = some s) :
    s.starts.Nodup ∧ (∀ t ∈ s.starts, s.st t ≠ .idle) ∧ s.starts = (startsOf es).reverse ∧
    (startsOf es).Nodup := by
  have hs : s.starts = (startsOf es).reverse := by rw [run_starts es s0 s h, h0.1, List.append_nil]
  have hi := run_invB es s0 s (init_invB h0) h
  exact ⟨hi.nodup, hi.started, hs, nodup_of_reverse (hs ▸ hi.nodup)⟩

/-- `done_is_spec` is false as first stated: `clean` settles any idle target whatever it holds. -/
theorem done_is_spec_false :
    ∃ (g : Graph) (s0 s : State) (es : List Ev), WellFormed g ∧ Init g s0 ∧ run g s0 es = some s ∧
      ∃ t sc, g.script t = some sc ∧ s.st t = .done ∧ ¬ Spec g t (s.content t) := by
  let g : Graph := { script := fun t => if t = 0 then some { cmds := [], reads := [], tag := 0 } else none,
                     src := fun _ => [] }
  let s0 : State := { st := fun _ => .idle, content := fun _ => [] }
  refine ⟨g, s0, { s0 with st := upd s0.st 0 .done }, [.clean 0], ?_, ?_, rfl, 0, _, rfl, rfl, ?_⟩
  · intro t sc hsc f hf
    by_cases ht : t = 0
    · simp only [g, ht, if_true, Option.some.injEq] at hsc
      subst hsc; cases hf
    · simp [g, ht] at hsc
  · exact ⟨rfl, fun _ => Or.inl rfl, fun t sc _ h => by cases h⟩
  · intro h
    have h2 : Spec g 0 (out 0 []) :=
      Spec.tgt (g := g) (t := 0) (sc := { cmds := [], reads := [], tag := 0 }) [] rfl rfl
        (fun i h _ => absurd h (Nat.not_lt_zero _))
    have := spec_unique h h2
    revert this
    decide

theorem done_is_spec_partial {g : Graph} {s0 s : State} {es : List Ev} (hw : WellFormed g)
    (h0 : Init g s0) (hc : CleanOk g s0 es) (h : run g s0 es = some s) :
    ∀ t sc, g.script t = some sc → s.st t = .done → Spec g t (s.content t) :=
  (run_inv hw es s0 s (fun _ ht => ht) (init_inv h0 hc) h).doneSpec

/-- A schedule without `clean` events needs no hypothesis on them. -/
theorem cleanOk_of_no_clean {g : Graph} {s0 : State} {es : List Ev} (h : ∀ t, Ev.clean t ∉ es) :
    CleanOk g s0 es := fun t _ ht => absurd ht (h t)

/-- `CleanOk` is necessary: in an accepted run whose settled targets all hold the from-scratch
content, every target declared clean held it at the start. -/
theorem cleanOk_necessary {g : Graph} : ∀ (es : List Ev) (s0 s : State), run g s0 es = some s →
    (∀ t sc, g.script t = some sc → s.st t = .done → Spec g t (s.content t)) → CleanOk g s0 es
  | [], _, _, _, _ => fun t _ ht => by cases ht
  | e :: es, s0, s, h, hspec => by
    rw [run_cons] at h
    cases hs : step g s0 e with
    | none => rw [hs] at h; cases h
    | some s1 =>
      rw [hs] at h
      intro t sc ht hsc hidle
      rcases List.mem_cons.1 ht with rfl | ht
      · obtain ⟨_, _, rfl⟩ := step_clean hs
        obtain ⟨h1, h2⟩ := run_done_stable es _ s h t (upd_same _ _ _)
        have := hspec t sc hsc h1
        rw [h2] at this
        exact this
      · by_cases hi1 : s1.st t = .idle
        · have := cleanOk_necessary es s1 s h hspec t sc ht hsc hi1
          rw [(step_content_idle hs hi1).2] at this
          exact this
        · -- `t` left the idle state at `e`; the later `clean t` cannot have been accepted
          exfalso
          have key : ∀ (es : List Ev) (s1 s : State), run g s1 es = some s → s1.st t ≠ .idle →
              Ev.clean t ∉ es := by
            intro es
            induction es with
            | nil => intro _ _ _ _ hm; cases hm
            | cons e' es ih =>
              intro s1 s h hne hm
              rw [run_cons] at h
              cases hs' : step g s1 e' with
              | none => rw [hs'] at h; cases h
              | some s2 =>
                rw [hs'] at h
                rcases List.mem_cons.1 hm with rfl | hm
                · exact hne (step_clean hs').2.1
                · exact ih s2 s h (fun hi2 => hne (step_content_idle hs' hi2).1) hm
          exact key es s1 s h hi1 ht

theorem confluent {g : Graph} {s0 s₁ s₂ : State} {es₁ es₂ : List Ev} (hw : WellFormed g)
    (h0 : Init g s0) (hc₁ : CleanOk g s0 es₁) (hc₂ : CleanOk g s0 es₂)
    (h₁ : run g s0 es₁ = some s₁) (h₂ : run g s0 es₂ = some s₂) (t : Nat)
    (hd₁ : s₁.st t = .done) (hd₂ : s₂.st t = .done) : s₁.content t = s₂.content t := by
  cases hsc : g.script t with
  | none => rw [run_content_src es₁ s0 s₁ h₁ t hsc, run_content_src es₂ s0 s₂ h₂ t hsc]
  | some sc =>
    exact spec_unique (done_is_spec_partial hw h0 hc₁ h₁ t sc hsc hd₁)
      (done_is_spec_partial hw h0 hc₂ h₂ t sc hsc hd₂)

/-- `finish` is accepted only when everything the script asked for is settled. -/
theorem order_respected {g : Graph} {s s' : State} {t : Nat} {sc : Script}
    (h : step g s (.finish t) = some s') (hi : InvB g s) (hsc : g.script t = some sc) :
    ∀ f ∈ sc.cmds.flatten, settled g s f = true := by
  obtain ⟨sc', hsc', hst, _⟩ := step_finish h
  rw [hsc] at hsc'; cases hsc'
  exact flatten_settled hi hsc hst

/-- The same about a run: whenever a `finish t` is accepted after any accepted prefix, everything the
script of `t` asked for is settled at that moment (no hypothesis on the graph or on clean targets). -/
theorem order_respected_run {g : Graph} {s0 s s' : State} {es : List Ev} {t : Nat} {sc : Script}
    (h0 : Init g s0) (h : run g s0 es = some s) (hf : step g s (.finish t) = some s')
    (hsc : g.script t = some sc) : ∀ f ∈ sc.cmds.flatten, settled g s f = true :=
  order_respected hf (run_invB es s0 s (init_invB h0) h) hsc

end RedoModel.Par
