import RedoModel.Lemmas.DepsSoundK0
/-!
Killed builds, tools: the hypothesis `SingleDo` (one .do candidate per target: the case in which the
counterexample of `DepsSoundK0` cannot arise), releasing a target under construction from the exempt set,
and the promise of its old record surviving the row operations of its own (unfinished) build.
-/
namespace RedoModel.Deps
open RedoModel.Generated

/-- Every target name has at most one .do candidate. -/
def SingleDo (rules : Nat → List Nat) : Prop := ∀ t, (rules t).length ≤ 1

/-- The clause `Base.recA` for one file. -/
def KeepT (w : World) (t : Nat) : Prop := RecCur w t → (w.recs t).isGenerated = true → RecTruth w t

theorem Base.release {rank R w t} {X : Nat → Prop} (hb : Base rank R (addX X t) w) (hk : KeepT w t) :
    Base rank R X w :=
  { hb with recA := fun u hx hrc hg =>
      if e : u = t then e ▸ hk (e ▸ hrc) (e ▸ hg)
      else hb.recA u (hx.imp (fun hn hxu => hxu.elim hn e) id) hrc hg }

theorem Inv.release {rank R w t} {X : Nat → Prop} (hi : Inv rank R (addX X t) w) (hk : KeepT w t) :
    Inv rank R X w := ⟨hi.base.release hk, hi.Rpos, hi.ver⟩

theorem Base.keepT {rank R w t} {X : Nat → Prop} (hb : Base rank R X w) (hx : ¬ X t) : KeepT w t :=
  fun hrc hg => hb.recA t (Or.inl hx) hrc hg

/-- With a single candidate the split of `rules t` in `RecTruth` has no `pre`. -/
theorem single_split {rules : Nat → List Nat} (hS : SingleDo rules) {t : Nat} {pre post : List Nat} {dof : Nat}
    (h : rules t = pre ++ dof :: post) : pre = [] ∧ post = [] := by
  have := hS t
  rw [h] at this
  simp only [List.length_append, List.length_cons] at this
  constructor
  · cases pre with
    | nil => rfl
    | cons a l => simp at this; omega
  · cases post with
    | nil => rfl
    | cons a l => simp at this; omega

/-- A row operation on `t` that keeps every `m` row of `t` keeps the promise of `t`'s record. -/
theorem RecTruth_rowOp {w w' : World} {t : Nat} (hS : SingleDo w.rules) (hro : RowOp t w w')
    (hrows : ∀ s, HasRow w t s true → HasRow w' t s true) (ht : RecTruth w t) : RecTruth w' t := by
  have e := hro.eqv
  have h1 : RecTruth { w' with deps := w.deps } t := e.recTruth ht
  obtain ⟨pre, dof, post, sc, hr, hpre, hdof, hreads, hexit, hsc, cs, hcont, hlen, hz⟩ := h1
  have hpre0 : pre = [] := (single_split (t := t) (by rw [e.rules]; exact hS) hr).1
  have back : ∀ s, HasRow { w' with deps := w.deps } t s true → HasRow w' t s true := fun s h => hrows s h
  exact ⟨pre, dof, post, sc, hr, (fun c hc => by rw [hpre0] at hc; cases hc), back _ hdof,
    fun d hd => back _ (hreads d hd), hexit, hsc, cs, hcont, hlen, hz⟩

theorem KeepT_rowOp {w w' : World} {t : Nat} (hS : SingleDo w.rules) (hro : RowOp t w w')
    (hrows : ∀ s, HasRow w t s true → HasRow w' t s true) (hk : KeepT w t) : KeepT w' t := by
  intro hrc hg
  have hg0 : (w.recs t).isGenerated = true := by rw [← hro.eqv.gen t]; exact hg
  exact RecTruth_rowOp hS hro hrows (hk ((hro.recCur t).1 hrc) hg0)

theorem addDep_true_rows (w : World) (t s : Nat) :
    ∀ x, HasRow w t x true → HasRow (addDep w t s true) t x true := by
  intro x h
  by_cases e : x = s
  · subst e; exact addDep_hasRow_new w t x true
  · exact addDep_hasRow_keep h (fun ⟨_, h2⟩ => e h2)

theorem KeepT_addDep {w : World} {t s : Nat} (hS : SingleDo w.rules) (hk : KeepT w t) :
    KeepT (addDep w t s true) t :=
  KeepT_rowOp hS (RowOp.addDep w t s true) (addDep_true_rows w t s) hk

theorem KeepT_zapDeps1 {w : World} {t : Nat} (hS : SingleDo w.rules) (hk : KeepT w t) : KeepT (zapDeps1 w t) t :=
  KeepT_rowOp hS (RowOp.zapDeps1 w t) (fun s h => (SameTriples.zapDeps1 w t t s true).2 h) hk

theorem KeepT_declare {t : Nat} : ∀ (ts : List Nat) (w : World), SingleDo w.rules → KeepT w t → KeepT (declare t ts w) t
  | [], _, _, hk => hk
  | s :: ts, w, hS, hk => by
    show KeepT (declare t ts (addDep w t s true)) t
    exact KeepT_declare ts _ (by rw [(RowOp.addDep w t s true).rules]; exact hS) (KeepT_addDep hS hk)

/-- With a single candidate, a `findDoFile` that finds a .do file only (re-)adds its `m` row. -/
theorem findDoFile_single {t dof : Nat} {cs : List Nat} {w : World} (hl : cs.length ≤ 1)
    (h : (findDoFile t cs w).1 = some dof) : (findDoFile t cs w).2 = addDep w t dof true := by
  cases cs with
  | nil => simp [findDoFile] at h
  | cons c l =>
    have hl0 : l = [] := by
      cases l with
      | nil => rfl
      | cons a l' => simp at hl
    subst hl0
    rw [findDoFile] at h ⊢
    split at h
    · rename_i hex; cases h; simp only [hex, if_true]
    · simp [findDoFile] at h

end RedoModel.Deps
