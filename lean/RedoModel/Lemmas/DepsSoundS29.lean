import RedoModel.Lemmas.DepsSoundS28
/-! Forced rebuild of a verified generated target: the commands of its script. -/
namespace RedoModel.Deps.S
open RedoModel.Generated

/-- No file is exempt (top level). -/
def NoX : Nat → Prop := fun _ => False

/-- What a nested command of the script of a verified target `t` does. -/
structure IdemStep (rank : Nat → Nat) (R t : Nat) (c : List Nat) (w : World) (res : Status × World) : Prop where
  status : res.1 = 0
  inv : Inv rank R NoX res.2
  bext : BExt rank R (rank t) (some t) w res.2
  decl : RowsDecl t c w res.2
  rows : ∀ d ∈ c, HasRowU res.2 t d true
  keep : ∀ s m, HasRow w t s m → HasRow res.2 t s m
  noFail : NoFail R w → NoFail R res.2

theorem ifchange_good {rank R t w fuel} {cx : Ctx} (E : Engine) (hE : ESpec rank R E) (d : Defects)
    (hd1 : d.oobRecordsDepsOnCaller = false) (hd2 : d.oobRebuildsDepsNotTarget = false)
    (hcx : cx.runid = R) (hredo : cx.isRedo = false)
    (hunl : cx.unlocked = false) (hcrash : cx.crash = none) (hpar : cx.parent = some t) (hcyc : cx.cycles = [t])
    (hi : Inv rank R NoX w) (hv : VerR w R t) (hg : (w.recs t).isGenerated = true) (hfuel : rank t ≤ fuel)
    (c : List Nat) (hc : ∀ x ∈ c, rank x < rank t ∧ Good w R x ∧ HasRow w t x true) :
    IdemStep rank R t c w (ifchangeWith E d fuel cx c w) := by
  have hnc : c.contains t = false := by
    cases h : c.contains t with
    | false => rfl
    | true =>
      have := (hc t (by simpa using h)).1
      exact absurd this (Nat.lt_irrefl _)
  unfold ifchangeWith
  simp only [hpar, hunl, Bool.not_false, Bool.true_and, hnc, Bool.false_eq_true, if_false]
  have e1 := WEqv.addKnown w t
  have hi1 := e1.inv hi
  obtain ⟨d1, d2, d3, d4, d5⟩ := declare_good (rank := rank) (R := R) (X := NoX) (p := t) c (addKnown w t) hi1
    ((e1.verR R t).2 hv) (by rw [e1.gen]; exact hg) (fun x hx => (e1.hasRow _ _ _).2 (hc x hx).2.2)
  have hXb : ∀ x, NoX x → rank t ≤ rank x := fun _ h => h.elim
  obtain ⟨⟨a1, a2, a3, a4, a5⟩, _⟩ := runTargets_spec (fuel := fuel) hE d hd1 hd2 hcx hredo hcrash hXb none c [] false
    (declare t c (addKnown w t)) d1 (fun x hx => (hc x hx).1) (fun _ s hs => by simp at hs)
  have hst := runTargets_good (fuel := fuel) hE d hd1 hd2 hcx hredo hcrash hXb hfuel c [] (declare t c (addKnown w t)) d1
    (fun x hx => ⟨(hc x hx).1, (d2.good R x).2 ((e1.good R x).2 (hc x hx).2.1), by
      rw [hcyc]; simp only [List.mem_singleton]; intro e; have := (hc x hx).1; rw [e] at this; omega⟩)
  have hsame : ∀ dd : Dep, dd.target = t →
      (dd ∈ (runTargets E d cx fuel c [] false (declare t c (addKnown w t))).2.deps ↔
        dd ∈ (declare t c (addKnown w t)).deps) :=
    fun dd hdd => a2.rowsAbove dd (by rw [hdd]; exact Nat.le_refl _) (by simp)
  refine ⟨hst, a1, (e1.toBExt.trans d2.toBExtP).trans a2.weakenPo, ?_, fun x hx => ?_, fun s m hr => ?_,
    fun hn => a4 (fun f => by rw [d2.eqv.failed]; exact (hn.eqv e1) f) hst⟩
  · have r1 : RowsDecl t [] w (addKnown w t) := rowsDecl_eqv e1.deps
    have r3 : RowsDecl t [] (declare t c (addKnown w t))
        (runTargets E d cx fuel c [] false (declare t c (addKnown w t))).2 := rowsDecl_of_same hsame
    exact ((r1.trans d3).trans r3).mono (fun x hx => by simpa using hx)
  · obtain ⟨r, hr, q1, q2, q3, q4⟩ := d4 x hx
    exact ⟨r, (hsame r q1).2 hr, q1, q2, q3, q4⟩
  · obtain ⟨r, hr, q1, q2, q3⟩ := (d5 t s m).2 ((e1.hasRow t s m).2 hr)
    exact ⟨r, (hsame r q1).2 hr, q1, q2, q3⟩

theorem cmds_good {rank R t} {Eo : Engine} {cx cx' : Ctx} (hcrash : cx.crash = none)
    (hstep : ∀ (c : List Nat) (w : World), Inv rank R NoX w → VerR w R t → (w.recs t).isGenerated = true →
      (∀ x ∈ c, rank x < rank t ∧ Good w R x ∧ HasRow w t x true) →
      IdemStep rank R t c w (Eo.ifchangeCmd cx' c w)) :
    ∀ (cs : List (List Nat)) (k : Nat) (w : World), Inv rank R NoX w → VerR w R t → (w.recs t).isGenerated = true →
      (∀ c ∈ cs, ∀ x ∈ c, rank x < rank t ∧ Good w R x ∧ HasRow w t x true) →
      IdemStep rank R t cs.flatten w (runScript.cmds Eo cx t cx' cs k w)
  | [], k, w, hi, _, _, _ => by
    simp only [runScript.cmds, hcrash, reduceCtorEq, if_false]
    exact ⟨rfl, hi, BExt.refl _ _ _ _ _, RowsDecl.refl _ _ _, fun d hd => by simp at hd, fun _ _ h => h, fun h => h⟩
  | c :: cs, k, w, hi, hv, hg, hcs => by
    rw [runScript.cmds]
    simp only [hcrash, reduceCtorEq, if_false]
    have hs := hstep c w hi hv hg (hcs c (by simp))
    generalize Eo.ifchangeCmd cx' c w = res at hs
    obtain ⟨rv, w1⟩ := res
    obtain ⟨s1, s2, s3, s4, s5, s6, s7⟩ := hs
    dsimp only at s1 s2 s3 s4 s5 s6 s7
    subst s1
    simp only
    have hv1 := (s3.ver t hv).1
    have hg1 : (w1.recs t).isGenerated = true := by rw [(s3.ver t hv).2.2]; exact hg
    obtain ⟨a1, a2, a3, a4, a5, a6, a7⟩ := cmds_good hcrash hstep cs (k + 1) w1 s2 hv1 hg1
      (fun c' hc' x hx => ⟨(hcs c' (List.mem_cons_of_mem _ hc') x hx).1,
        s3.good (hcs c' (List.mem_cons_of_mem _ hc') x hx).2.1,
        s6 _ _ (hcs c' (List.mem_cons_of_mem _ hc') x hx).2.2⟩)
    refine ⟨a1, a2, s3.trans a3, by rw [List.flatten_cons]; exact s4.trans a4, fun x hx => ?_,
      fun s m h => a6 s m (s6 s m h), fun h => a7 (s7 h)⟩
    rw [List.flatten_cons, List.mem_append] at hx
    rcases hx with hx | hx
    · exact a4.2 x true (s5 x hx) (fun _ => rfl)
    · exact a5 x hx

end RedoModel.Deps.S
