import RedoModel.Lemmas.DepsSoundK5
/-! Killed builds: `ifchangeWith` and the engine satisfy `ESpecK`. -/
namespace RedoModel.Deps
open RedoModel.Generated

/-- The declarations of a command on behalf of a parent that is not exempt (single .do candidate). -/
theorem declareK_spec {rank R p} (b : Nat) (hb : b ≤ rank p) (ts : List Nat) (w : World) (hS : SingleDo w.rules)
    (hi : Inv rank R NoX w) (hng : ¬ Good w R p) (hts : ∀ t ∈ ts, rank t < b) :
    Inv rank R NoX (declare p ts w) ∧ RowOp p w (declare p ts w) ∧ RowsDecl p ts w (declare p ts w) ∧
      ∀ d ∈ ts, HasRowU (declare p ts w) p d true := by
  obtain ⟨a1, a2, a3, a4⟩ := declare_spec (rank := rank) (R := R) (X := addX NoX p) (Or.inr rfl) b hb ts w
    (hi.weaken (fun x hx => Or.inl hx)) hng hts
  exact ⟨a1.release (KeepT_declare ts w hS (hi.base.keepT (fun hx => hx))), a2, a3, a4⟩

theorem ifchangeWithK_spec {rank R E} (hE : ESpecK rank R E) (d : Defects) (fuel : Nat) :
    ESpecK rank R { ifchangeCmd := fun cx ts w => ifchangeWith E d fuel cx ts w } := by
  intro cx ts w b h1 h2 h3 hS hi hts hpar
  obtain ⟨c1, c2, c3, c4, c5, c6⟩ := exit_codes
  show Killed rank R w (ifchangeWith E d fuel cx ts w) ∨ CmdOk rank R b cx.parent ts w (ifchangeWith E d fuel cx ts w)
  unfold ifchangeWith
  cases hp : cx.parent with
  | none =>
    simp only [Bool.false_eq_true, if_false]
    rcases runTargetsK_spec (fuel := fuel) (b := b) hE d h1 h2 none ts [] false w hS hi hts
      (fun _ s hs => by simp at hs) with hk | ⟨⟨a1, a2, a3, a4, a5⟩, _⟩
    · exact Or.inl hk
    exact Or.inr ⟨a1, a2, (fun p hp' => by cases hp'), a3, a4, a5⟩
  | some p =>
    obtain ⟨hbp, hngp⟩ := hpar p hp
    simp only [h3, Bool.not_false, Bool.true_and]
    by_cases hc : ts.contains p = true
    · simp only [hc, if_true]
      exact Or.inr ⟨hi, BExt.refl _ _ _ _ _, fun p' hp' => ⟨RowsDecl.refl _ _ _, fun h => absurd h c3⟩,
        fun h => absurd h c3, fun _ h => absurd h c3, c4⟩
    simp only [hc, Bool.false_eq_true, if_false]
    have e1 := WEqv.addKnown w p
    have hi1 := e1.inv hi
    have hng1 : ¬ Good (addKnown w p) R p := fun h => hngp ((e1.good R p).1 h)
    have hS1 : SingleDo (addKnown w p).rules := by rw [e1.rules]; exact hS
    obtain ⟨d1, d2, d3, d4⟩ := declareK_spec (rank := rank) (R := R) b hbp ts (addKnown w p) hS1 hi1 hng1 hts
    have hS2 : SingleDo (declare p ts (addKnown w p)).rules := by rw [d2.rules]; exact hS1
    rcases runTargetsK_spec (fuel := fuel) (b := b) hE d h1 h2 none ts [] false
      (declare p ts (addKnown w p)) hS2 d1 hts (fun _ s hs => by simp at hs) with hk | ⟨⟨a1, a2, a3, a4, a5⟩, _⟩
    · exact Or.inl (hk.from (d2.eqv.rc.trans e1.rc) (d2.rules.trans e1.rules))
    right
    have hsame : ∀ dd : Dep, dd.target = p →
        (dd ∈ (runTargets E d cx fuel ts [] false (declare p ts (addKnown w p))).2.deps ↔
          dd ∈ (declare p ts (addKnown w p)).deps) :=
      fun dd hdd => a2.rowsAbove dd (by rw [hdd]; exact hbp) (by simp)
    have hrd : RowsDecl p ts w (runTargets E d cx fuel ts [] false (declare p ts (addKnown w p))).2 := by
      have r1 : RowsDecl p [] w (addKnown w p) := rowsDecl_eqv e1.deps
      have r3 : RowsDecl p [] (declare p ts (addKnown w p))
          (runTargets E d cx fuel ts [] false (declare p ts (addKnown w p))).2 := rowsDecl_of_same hsame
      exact ((r1.trans d3).trans r3).mono (fun x hx => by simpa using hx)
    refine ⟨a1, (e1.toBExt.trans d2.toBExtP).trans a2.weakenPo, fun p' hp' => ?_, a3,
      fun hn hz => a4 (fun f => by rw [d2.eqv.failed]; exact (hn.eqv e1) f) hz, a5⟩
    cases hp'
    refine ⟨hrd, fun _ dd hdd => ?_⟩
    obtain ⟨r, hr, q1, q2, q3, q4⟩ := d4 dd hdd
    exact ⟨r, (hsame r q1).2 hr, q1, q2, q3, q4⟩

theorem engineK_spec (rank : Nat → Nat) (R : Nat) (d : Defects) : ∀ n, ESpecK rank R (engine d n)
  | 0 => by
    intro cx ts w b _ _ _ _ hi _ _
    obtain ⟨_, _, _, _, c5, c6⟩ := exit_codes
    exact Or.inr ⟨hi, BExt.refl _ _ _ _ _, fun p _ => ⟨RowsDecl.refl _ _ _, fun h => absurd h c5⟩,
      fun h => absurd h c5, fun _ h => absurd h c5, c6⟩
  | n + 1 => ifchangeWithK_spec (engineK_spec rank R d n) d (n + 1)

end RedoModel.Deps
