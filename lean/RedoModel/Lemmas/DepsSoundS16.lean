import RedoModel.Lemmas.DepsSoundS15
/-! Specification of nested `redo-ifchange` commands (`ESpec`) and of the loop of a script over them. -/
namespace RedoModel.Deps.S

/-- How the rows of the parent `p` change in a command that declares `ts`. -/
def RowsDecl (p : Nat) (ts : List Nat) (w w' : World) : Prop :=
  (∀ d ∈ w'.deps, d.target = p → d ∈ w.deps ∨ (d.modeM = true ∧ d.source ∈ ts ∧ d.deleteMe = false)) ∧
  (∀ s m, HasRowU w p s m → (s ∈ ts → m = true) → HasRowU w' p s m)

theorem RowsDecl.refl (p : Nat) (ts : List Nat) (w : World) : RowsDecl p ts w w :=
  ⟨fun _ hd _ => Or.inl hd, fun _ _ h _ => h⟩

theorem RowsDecl.trans {p ts1 ts2 w w1 w2} (h1 : RowsDecl p ts1 w w1) (h2 : RowsDecl p ts2 w1 w2) :
    RowsDecl p (ts1 ++ ts2) w w2 := by
  refine ⟨fun d hd hdt => ?_, fun s m h hm => ?_⟩
  · rcases h2.1 d hd hdt with h | ⟨a, b, c⟩
    · rcases h1.1 d h hdt with h | ⟨a, b, c⟩
      · exact Or.inl h
      · exact Or.inr ⟨a, List.mem_append_left _ b, c⟩
    · exact Or.inr ⟨a, List.mem_append_right _ b, c⟩
  · exact h2.2 s m (h1.2 s m h (fun hs => hm (List.mem_append_left _ hs))) (fun hs => hm (List.mem_append_right _ hs))

theorem RowsDecl.mono {p ts ts' w w'} (h : RowsDecl p ts w w') (hs : ∀ x ∈ ts, x ∈ ts') : RowsDecl p ts' w w' :=
  ⟨fun d hd hdt => (h.1 d hd hdt).imp id (fun ⟨a, b, c⟩ => ⟨a, hs _ b, c⟩),
   fun s m hr hm => h.2 s m hr (fun hx => hm (hs _ hx))⟩

theorem BExt.good_above {rank R b po w w'} (h : BExt rank R b po w w') {t} (ht : b ≤ rank t) :
    Good w' R t ↔ Good w R t := by
  obtain ⟨a1, a2, _, a4, a5, a6, a7, _⟩ := h.above t ht
  unfold Good VerR RecCur
  rw [a2, a4, a5, a6, a7, readStamp_congr a1]

/-- What a nested `redo-ifchange` command guarantees.  In unlocked mode (second phase of `redo-unlocked`) the
parent's rows are not touched. -/
def ESpec (rank : Nat → Nat) (R : Nat) (E : Engine) : Prop :=
  ∀ (X : Nat → Prop) (cx : Ctx) (ts : List Nat) (w : World) (b : Nat),
    cx.runid = R → cx.isRedo = false → cx.crash = none →
    Inv rank R X w → (∀ t ∈ ts, rank t < b) → (∀ x, X x → b ≤ rank x) →
    (cx.unlocked = false → ∀ p, cx.parent = some p → b ≤ rank p ∧ X p ∧ ¬ Good w R p) →
    Inv rank R X (E.ifchangeCmd cx ts w).2 ∧
    BExt rank R b (if cx.unlocked = true then none else cx.parent) w (E.ifchangeCmd cx ts w).2 ∧
    (cx.unlocked = false → ∀ p, cx.parent = some p → RowsDecl p ts w (E.ifchangeCmd cx ts w).2 ∧
      ((E.ifchangeCmd cx ts w).1 = 0 → ∀ d ∈ ts, HasRowU (E.ifchangeCmd cx ts w).2 p d true)) ∧
    ((E.ifchangeCmd cx ts w).1 = 0 → ∀ t ∈ ts, Good (E.ifchangeCmd cx ts w).2 R t) ∧
    (NoFail R w → (E.ifchangeCmd cx ts w).1 = 0 → NoFail R (E.ifchangeCmd cx ts w).2) ∧
    (E.ifchangeCmd cx ts w).1 ≠ CRASHED

theorem CRASHED_ne_zero : (0 : Status) ≠ CRASHED := by decide

theorem cmds_spec {rank R E} (hE : ESpec rank R E) {X : Nat → Prop} {t : Nat} {cx cx' : Ctx}
    (h1 : cx'.runid = R) (h2 : cx'.isRedo = false) (h3 : cx'.unlocked = false) (h4 : cx'.crash = none)
    (h5 : cx'.parent = some t) (hcrash : cx.crash = none) (hX : X t) (hXa : ∀ x, X x → rank t ≤ rank x) :
    ∀ (cs : List (List Nat)) (k : Nat) (w : World), Inv rank R X w → ¬ Good w R t →
      (∀ c ∈ cs, ∀ d ∈ c, rank d < rank t) →
      Inv rank R X (runScript.cmds E cx t cx' cs k w).2 ∧
      BExt rank R (rank t) (some t) w (runScript.cmds E cx t cx' cs k w).2 ∧
      RowsDecl t cs.flatten w (runScript.cmds E cx t cx' cs k w).2 ∧
      ((runScript.cmds E cx t cx' cs k w).1 = 0 → ∀ d ∈ cs.flatten,
        Good (runScript.cmds E cx t cx' cs k w).2 R d ∧ HasRowU (runScript.cmds E cx t cx' cs k w).2 t d true) ∧
      (NoFail R w → (runScript.cmds E cx t cx' cs k w).1 = 0 → NoFail R (runScript.cmds E cx t cx' cs k w).2) ∧
      (runScript.cmds E cx t cx' cs k w).1 ≠ CRASHED
  | [], k, w, hi, _, _ => by
    simp only [runScript.cmds, hcrash, reduceCtorEq, if_false]
    exact ⟨hi, BExt.refl _ _ _ _ _, RowsDecl.refl _ _ _, fun _ d hd => by simp at hd, fun h _ => h, CRASHED_ne_zero⟩
  | c :: cs, k, w, hi, hng, hr => by
    rw [runScript.cmds]
    simp only [hcrash, reduceCtorEq, if_false]
    have hs := hE X cx' c w (rank t) h1 h2 h4 hi (hr c (by simp)) hXa
      (fun _ p hp => by rw [h5] at hp; cases hp; exact ⟨Nat.le_refl _, hX, hng⟩)
    simp only [h3, h5, Bool.false_eq_true, if_false] at hs
    generalize E.ifchangeCmd cx' c w = res at hs
    obtain ⟨rv, w1⟩ := res
    obtain ⟨hi1, hb1, hrows, hgood, hnf, hnc⟩ := hs
    obtain ⟨hrd, hhas⟩ := hrows trivial t rfl
    dsimp only at hi1 hb1 hrd hhas hgood hnf hnc
    split
    · rename_i w1' heq
      simp only [Prod.mk.injEq] at heq
      obtain ⟨hrv, rfl⟩ := heq
      subst hrv
      have hng1 : ¬ Good w1 R t := fun h => hng ((hb1.good_above (Nat.le_refl _)).1 h)
      obtain ⟨a1, a2, a3, a4, a5, a6⟩ := cmds_spec hE h1 h2 h3 h4 h5 hcrash hX hXa cs (k + 1) w1 hi1 hng1
        (fun c' hc' => hr c' (List.mem_cons_of_mem _ hc'))
      refine ⟨a1, hb1.trans a2, by rw [List.flatten_cons]; exact hrd.trans a3, ?_, fun h0 hz => a5 (hnf h0 rfl) hz, a6⟩
      intro hz d hd
      rw [List.flatten_cons, List.mem_append] at hd
      rcases hd with hd | hd
      · exact ⟨a2.good (hgood rfl d hd), a3.2 d true (hhas rfl d hd) (fun _ => rfl)⟩
      · exact a4 hz d hd
    · rename_i rv' w1' hne heq
      simp only [Prod.mk.injEq] at heq
      obtain ⟨rfl, rfl⟩ := heq
      have hrv : rv ≠ 0 := fun e => by first | exact hne e | exact hne e rfl | exact hne w1 e
      exact ⟨hi1, hb1, hrd.mono (fun x hx => by rw [List.flatten_cons]; exact List.mem_append_left _ hx),
        fun h => absurd h hrv, fun _ h => absurd h hrv, hnc⟩

end RedoModel.Deps.S
