import RedoModel.Lemmas.DepsSoundRK7
/-! Killed builds, rich histories: `ifchangeWith` and the engine satisfy `ESpecK`; the between-commands invariant
survives a killed `redo-ifchange`; histories. -/
namespace RedoModel.Deps.Rich
open RedoModel.Generated

/-- The declarations of a command on behalf of a parent that is not exempt. -/
theorem declareK_spec {rank R p} (b : Nat) (hb : b ≤ rank p) (ts : List Nat) (w : World) (hS : SK w)
    (hi : Inv rank R NoX w) (hng : ¬ Good w R p) (hts : ∀ t ∈ ts, rank t < b) :
    Inv rank R NoX (declare p ts w) ∧ RowOp p w (declare p ts w) ∧ RowsDecl p ts w (declare p ts w) ∧
      ∀ d ∈ ts, HasRowU (declare p ts w) p d true := by
  obtain ⟨a1, a2, a3, a4⟩ := declare_spec (rank := rank) (R := R) (X := addX NoX p) (Or.inr rfl) b hb ts w
    (hi.weaken (fun x hx => Or.inl hx)) hng hts
  exact ⟨a1.release (KeepT_declare ts w hS (hi.base.keepT (fun hx => hx))), a2, a3, a4⟩

theorem ifchangeWithK_spec {rank R E} (hE : ESpecK rank R E) (hT : ETr E) (d : Defects) (fuel : Nat) :
    ESpecK rank R { ifchangeCmd := fun cx ts w => ifchangeWith E d fuel cx ts w } := by
  intro cx ts w b h1 h2 h3 hS hi hts hpar
  obtain ⟨c1, c2, c3, c4, c5, c6⟩ := exit_codes
  show Killed rank R w (ifchangeWith E d fuel cx ts w) ∨ CmdOk rank R b cx.parent ts w (ifchangeWith E d fuel cx ts w)
  unfold ifchangeWith
  cases hp : cx.parent with
  | none =>
    simp only [Bool.false_eq_true, if_false]
    rcases runTargetsK_spec (fuel := fuel) (b := b) hE hT d h1 h2 none ts [] false w hS hi hts
      (fun _ s hs => by simp at hs) with hk | ⟨⟨a1, a2, a3, a4, a5⟩, _⟩
    · exact Or.inl hk
    exact Or.inr ⟨a1, a2, (fun p hp' => by cases hp'), a3, a4, a5⟩
  | some p =>
    obtain ⟨hbp, hngp⟩ := hpar p hp
    simp only [h3, Bool.not_false, Bool.true_and]
    by_cases hc : ts.contains p = true
    · simp only [hc, if_true]
      exact Or.inr ⟨hi, BExt.refl _ _ _ _ _, fun p' hp' => ⟨RowsDecl.refl _ _ _, fun h => absurd h c3⟩,
        fun h => absurd h c3, fun _ h => absurd h c3, c4⟩
    simp only [hc, Bool.false_eq_true, if_false]
    have e1 := WEqv.addKnown w p
    have hi1 := e1.inv hi
    have hng1 : ¬ Good (addKnown w p) R p := fun h => hngp ((e1.good R p).1 h)
    have hS1 : SK (addKnown w p) := hS.tr (Tr.addKnown w p)
    obtain ⟨d1, d2, d3, d4⟩ := declareK_spec (rank := rank) (R := R) b hbp ts (addKnown w p) hS1 hi1 hng1
      (fun t ht => (hts t ht).1)
    have hS2 : SK (declare p ts (addKnown w p)) := hS1.tr (Tr.declare p ts _)
    rcases runTargetsK_spec (fuel := fuel) (b := b) hE hT d h1 h2 none ts [] false
      (declare p ts (addKnown w p)) hS2 d1 hts (fun _ s hs => by simp at hs) with hk | ⟨⟨a1, a2, a3, a4, a5⟩, _⟩
    · exact Or.inl (hk.from (d2.eqv.rc.trans e1.rc) (d2.rules.trans e1.rules))
    right
    have hsame : ∀ dd : Dep, dd.target = p →
        (dd ∈ (runTargets E d cx fuel ts [] false (declare p ts (addKnown w p))).2.deps ↔
          dd ∈ (declare p ts (addKnown w p)).deps) :=
      fun dd hdd => a2.rowsAbove dd (by rw [hdd]; exact hbp) (by simp)
    have hrd : RowsDecl p ts w (runTargets E d cx fuel ts [] false (declare p ts (addKnown w p))).2 := by
      have r1 : RowsDecl p [] w (addKnown w p) := rowsDecl_eqv e1.deps
      have r3 : RowsDecl p [] (declare p ts (addKnown w p))
          (runTargets E d cx fuel ts [] false (declare p ts (addKnown w p))).2 := rowsDecl_of_same hsame
      exact ((r1.trans d3).trans r3).mono (fun x hx => by simpa using hx)
    refine ⟨a1, (e1.toBExt.trans d2.toBExtP).trans a2.weakenPo, fun p' hp' => ?_, a3,
      fun hn hz => a4 (fun f => by rw [d2.eqv.failed]; exact (hn.eqv e1) f) hz, a5⟩
    cases hp'
    refine ⟨hrd, fun _ dd hdd => ?_⟩
    obtain ⟨r, hr, q1, q2, q3, q4⟩ := d4 dd hdd
    exact ⟨r, (hsame r q1).2 hr, q1, q2, q3, q4⟩

theorem engineK_spec (rank : Nat → Nat) (R : Nat) (d : Defects) : ∀ n, ESpecK rank R (engine d n)
  | 0 => by
    intro cx ts w b _ _ _ _ hi _ _
    obtain ⟨_, _, _, _, c5, c6⟩ := exit_codes
    exact Or.inr ⟨hi, BExt.refl _ _ _ _ _, fun p _ => ⟨RowsDecl.refl _ _ _, fun h => absurd h c5⟩,
      fun h => absurd h c5, fun _ h => absurd h c5, c6⟩
  | n + 1 => ifchangeWithK_spec (engineK_spec rank R d n) (engine_tr d n) d (n + 1)

/-- **A killed run keeps the between-commands invariant** (side conditions `SK`): whatever the targets, the script
and the step at which the whole process tree dies. -/
theorem crashCmd_btw {rank N w} (d : Defects) (hN : ∀ f, rank f < N) (hS : SK w) (h : Btw rank w)
    (ts : List Nat) (t k : Nat) (hts0 : ∀ x ∈ ts, x ≠ alwaysId) :
    Btw rank (applyOp d N (.crashCmd ts t k) w).2 ∧ (applyOp d N (.crashCmd ts t k) w).2.rules = w.rules := by
  rw [applyOp_crashCmd_eq]
  obtain ⟨hi1, _⟩ := Inv_alloc h
  rcases runTargetsK_spec (fuel := 2 * N + 4) (b := N) (cx := { runid := w.runCounter + 1, crash := some (t, k) })
    (engineK_spec rank (w.runCounter + 1) d (2 * N + 4)) (engine_tr d _) d rfl rfl none ts [] false (allocRun w).2
    (hS.tr (allocRun_tr w)) hi1 (fun x hx => ⟨hN x, hts0 x hx⟩) (fun _ s hs => by simp at hs) with
    ⟨_, hb, hrc, hru⟩ | ⟨⟨a1, a2, _⟩, _⟩
  · refine ⟨?_, hru⟩
    show Base rank _ NoX _
    rw [hrc]; exact hb
  · refine ⟨?_, a2.rules⟩
    show Base rank _ NoX _
    rw [a2.rc]; exact a1.base

theorem applyOp_btwK {rank n rules w} (hN : ∀ f, rank f < n) (hS : SK w) (h : Btw rank w)
    (hr : w.rules = rules) (op : UserOp) (hp : RichOpK rules op) (hok : OpOkW w op)
    (hrk : RankedR rank (applyOp {} n op w).2) :
    Btw rank (applyOp {} n op w).2 ∧ (applyOp {} n op w).2.rules = rules := by
  cases op with
  | crashCmd ts t k =>
    obtain ⟨a1, a2⟩ := crashCmd_btw {} hN hS h ts t k hp
    exact ⟨a1, a2.trans hr⟩
  | write f v => exact applyOp_btw hN h hr _ hp hok hrk
  | remove f => exact applyOp_btw hN h hr _ hp hok hrk
  | chmod f => exact applyOp_btw hN h hr _ hp hok hrk
  | hide f => exact applyOp_btw hN h hr _ hp hok hrk
  | unhide f => exact applyOp_btw hN h hr _ hp hok hrk
  | setProg c s => exact applyOp_btw hN h hr _ hp hok hrk
  | cmd c => exact applyOp_btw hN h hr _ hp hok hrk

theorem history_btwK {rank n rules} (hN : ∀ f, rank f < n) :
    ∀ (ops : List UserOp) (w : World), SK w → Btw rank w → w.rules = rules → (∀ op ∈ ops, RichOpK rules op) →
      (∀ op ∈ ops, NoWatchOp op) →
      (∀ w' ∈ worldsOf n {} w ops, RankedR rank w') → OpsOkW n w ops →
      SK (ops.foldl (fun w op => (applyOp {} n op w).2) w) ∧
      Btw rank (ops.foldl (fun w op => (applyOp {} n op w).2) w) ∧
      (ops.foldl (fun w op => (applyOp {} n op w).2) w).rules = rules
  | [], w, hS, h, hr, _, _, _, _ => ⟨hS, h, hr⟩
  | op :: ops, w, hS, h, hr, hp, hnw, hrk, hok => by
    have hrk1 : RankedR rank (applyOp {} n op w).2 :=
      hrk _ (by simp only [worldsOf, List.mem_cons]; exact Or.inr (worldsOf_head n {} _ ops))
    obtain ⟨a1, a2⟩ := applyOp_btwK hN hS h hr op (hp op (by simp)) hok.1 hrk1
    exact history_btwK hN ops _ (applyOp_sk {} n op w (hnw op (by simp)) hS) a1 a2
      (fun op' h' => hp op' (List.mem_cons_of_mem _ h')) (fun op' h' => hnw op' (List.mem_cons_of_mem _ h'))
      (fun w' hw' => hrk w' (by simp only [worldsOf, List.mem_cons]; exact Or.inr hw')) hok.2

/-- **No stale target after rich histories with killed builds** (partial: the hypothesis that no script uses
`redo-ifcreate` or conditional declarations — `NoWatchOp` — is added; the conditional declarations are forced out by
the counterexample `not_recoversRichK`).  After ANY rich history (`redo-always`, content-dependent failure,
hand-written files at target names) interleaved with ANY number of killed `redo-ifchange` runs (killed in any
script, at any step), whenever a later `redo-ifchange ts` / `redo ts` exits 0, every `t ∈ ts` is up to date. -/
theorem recoversRichK_partial (n : Nat) (rules : Nat → List Nat) (rank : Nat → Nat) (ops : List UserOp) (ts : List Nat)
    (kg forced : Bool) (hr : RulesOk rules) (hS : SingleDo rules) (hp : ∀ op ∈ ops, RichOpK rules op)
    (hnw : ∀ op ∈ ops, NoWatchOp op)
    (hrk : ∀ w ∈ worldsOf n {} (initWorld rules) ops, RankedR rank w) (hN : ∀ f, rank f < n)
    (hok : OpsOkW n (initWorld rules) ops) (hts0 : ∀ t ∈ ts, t ≠ alwaysId) :
    let w := ops.foldl (fun w op => (applyOp {} n op w).2) (initWorld rules)
    let r := runCmd {} n (if forced then .redo ts kg else .ifchange ts kg) w
    r.1.status = 0 → ∀ t ∈ ts, UpToDateR r.2 t := by
  intro w r
  have h0 : Btw rank (initWorld rules) := Btw_init hr (hrk _ (worldsOf_head n {} _ ops))
  obtain ⟨_, hb, _⟩ := history_btwK hN ops (initWorld rules) (SK_init hS) h0 rfl hp hnw hrk hok
  exact runCmd_sound {} hN hb ts kg forced hts0

/-- **Recovery is sound.**  In any state satisfying the invariant and the side conditions, kill a `redo-ifchange ts`
anywhere; then the invariant and the side conditions hold again at once, they hold after the next
`redo-ifchange ts'` / `redo ts'`, and if that command exits 0 its targets are up to date. -/
theorem recovery_is_sound_rich {rank N w} (hN : ∀ f, rank f < N) (hS : SK w) (h : Btw rank w)
    (ts : List Nat) (t k : Nat) (hts0 : ∀ x ∈ ts, x ≠ alwaysId) (ts' : List Nat) (kg forced : Bool)
    (hts0' : ∀ x ∈ ts', x ≠ alwaysId) :
    let w1 := (applyOp {} N (.crashCmd ts t k) w).2
    let r := runCmd {} N (if forced then .redo ts' kg else .ifchange ts' kg) w1
    Btw rank w1 ∧ SK w1 ∧ Btw rank r.2 ∧ SK r.2 ∧ (r.1.status = 0 → ∀ x ∈ ts', UpToDateR r.2 x) := by
  intro w1 r
  obtain ⟨hb1, _⟩ := crashCmd_btw {} hN hS h ts t k hts0
  have hS1 : SK w1 := hS.tr (crashCmd_tr {} N ts t k w)
  refine ⟨hb1, hS1, (runCmd_btw {} hN hb1 _ ?_).1, hS1.tr (runCmd_tr {} N _ w1), runCmd_sound {} hN hb1 ts' kg forced hts0'⟩
  cases forced <;> exact hts0'

end RedoModel.Deps.Rich
