import RedoModel.Lemmas.Deps
/-!
# redo-ood vs. the builder's dirtiness check — part 0: definitions and basic facts

* `WF`            : every recorded run id is one of the past (`≤ runCounter`)
* `targets_or_sources_iff` : which files `redo-targets` / `redo-sources` cover
* `PC`            : the mark-free, write-free notion "the walk finds `f` clean"
* `PC.shift`      : `PC` does not depend on which (fresh) run id the process uses
-/
namespace RedoModel.Deps

/-- All run ids stored in records are ids of past runs. -/
def WF (w : World) : Prop :=
  ∀ f, (∀ c, (w.recs f).checked = some c → c ≤ w.runCounter) ∧
       (∀ c, (w.recs f).changed = some c → c ≤ w.runCounter) ∧
       (∀ c, (w.recs f).failed = some c → c ≤ w.runCounter)

theorem WF_initWorld (rules : Nat → List Nat) : WF (initWorld rules) := by
  intro f
  simp only [initWorld]
  split <;> simp

/-! ### redo-targets / redo-sources -/

/-- The two lists together: exactly the files marked generated plus the existing files
(other than the `//ALWAYS` pseudo file, which is never a source). -/
theorem targets_or_sources_iff (w : World) (R f : Nat) :
    (isTarget w R f = true ∨ isSource w R f = true) ↔
      ((getRec w R f).isGenerated = true ∨ (f ≠ alwaysId ∧ existsF w f = true)) := by
  have hex : existsF w f = (readStamp w f != .missing) := by
    unfold existsF readStamp
    cases w.fs f <;> rfl
  rw [hex]
  unfold isTarget
  cases hg : (getRec w R f).isGenerated
  · simp only [Bool.not_false, if_true, Bool.false_eq_true, false_or]
    unfold isSource
    by_cases h0 : f = alwaysId
    · simp [h0]
    · simp only [h0, if_false, hg]
      generalize readStamp w f = ns
      cases hm : (ns == DStamp.missing) <;> simp [hm, bne, h0]
  · simp only [Bool.not_true, Bool.false_eq_true, if_false, true_or, iff_true]
    cases isSource w R f <;> simp

/-! ### Mark-free cleanliness -/

/-- What the walk of `private_is_dirty` establishes about `f` under the bound `mx` when it
answers "clean" and no "checked" mark short-cuts it: no failure, a `changed` id not newer than
`mx`, an unchanged stamp, every `m` dependency clean under the file's own bound and every `c`
dependency still missing.  (Inductive: a clean walk is finite, hence acyclic.) -/
inductive PC (w : World) (R : Nat) : Nat → Nat → Prop
  | mk (f mx ch : Nat)
      (hfail : (getRec w R f).failed = none)
      (hch : (getRec w R f).changed = some ch)
      (hle : ch ≤ mx)
      (hst : (getRec w R f).stamp = some (readStamp w f))
      (hm : ∀ d ∈ depsOf w (getRec w R f) f, d.modeM = true →
          PC w R d.source (max ch ((getRec w R f).checked.getD 0)))
      (hc : ∀ d ∈ depsOf w (getRec w R f) f, d.modeM = false → existsF w d.source = false) :
      PC w R f mx

theorem PC.mono {w : World} {R f mx : Nat} (h : PC w R f mx) {mx2 : Nat} (hle2 : mx ≤ mx2) : PC w R f mx2 := by
  cases h with
  | mk _ _ ch hfail hch hle hst hm hc => exact PC.mk f mx2 ch hfail hch (Nat.le_trans hle hle2) hst hm hc

/-- Only files, records and dependency rows matter. -/
theorem PC.congr {w w2 : World} (hfs : w2.fs = w.fs) (hrecs : w2.recs = w.recs) (hdeps : w2.deps = w.deps)
    {R f mx : Nat} (h : PC w R f mx) : PC w2 R f mx := by
  have hg : ∀ g, getRec w2 R g = getRec w R g := fun g => by simp [getRec, hrecs]
  have hd : ∀ r g, depsOf w2 r g = depsOf w r g := fun r g => by simp [depsOf, hrecs, hdeps]
  have hs : ∀ g, readStamp w2 g = readStamp w g := fun g => by simp [readStamp, hfs]
  have he : ∀ g, existsF w2 g = existsF w g := fun g => by simp [existsF, hfs]
  induction h with
  | mk f mx ch hfail hch hle hst hm hc ih =>
    refine PC.mk f mx ch ?_ ?_ hle ?_ ?_ ?_
    · rw [hg]; exact hfail
    · rw [hg]; exact hch
    · rw [hg, hs]; exact hst
    · intro d hdm hmode
      rw [hg, hd] at hdm
      rw [hg]
      exact ih d hdm hmode
    · intro d hdm hmode
      rw [hg, hd] at hdm
      rw [he]
      exact hc d hdm hmode

theorem getRec_of_ne {w : World} {R f : Nat} (h : f ≠ alwaysId) : getRec w R f = w.recs f := by
  simp [getRec, h]

theorem getRec_always_fresh {w : World} (hwf : WF w) {R : Nat} (hR : w.runCounter < R) :
    getRec w R alwaysId = { (w.recs alwaysId) with changed := some R } := by
  obtain ⟨_, h2, _⟩ := hwf alwaysId
  simp only [getRec, if_true]
  cases hc : (w.recs alwaysId).changed with
  | none => rfl
  | some c =>
    have := h2 c hc
    simp only
    congr 2
    omega

/-- `PC` is the same notion for every fresh run id: only the `//ALWAYS` record depends on the run
id, it is newer than every recorded mark, and at top level the bound is the run id itself. -/
theorem PC.shift {w : World} (hwf : WF w) {R1 R2 : Nat} (h1 : w.runCounter < R1) (h2 : w.runCounter < R2)
    {f mx : Nat} (h : PC w R1 f mx) :
    mx ≤ R1 → ∀ mx2, (mx < R1 → mx ≤ mx2) → (mx = R1 → R2 ≤ mx2) → PC w R2 f mx2 := by
  induction h with
  | mk f mx ch hfail hch hle hst hm hc ih =>
    intro hmx mx2 hle2 hR
    by_cases h0 : f = alwaysId
    · subst h0
      rw [getRec_always_fresh hwf h1] at hfail hch hst hm hc ih
      simp only [Option.some.injEq] at hch
      subst hch
      have hmxe : mx = R1 := by omega
      have hd : ∀ R, depsOf w { (w.recs alwaysId) with changed := some R } alwaysId
          = depsOf w (w.recs alwaysId) alwaysId := fun R => rfl
      refine PC.mk alwaysId mx2 R2 ?_ ?_ (hR hmxe) ?_ ?_ ?_
      · rw [getRec_always_fresh hwf h2]; exact hfail
      · rw [getRec_always_fresh hwf h2]
      · rw [getRec_always_fresh hwf h2]; exact hst
      · rw [getRec_always_fresh hwf h2]
        intro d hdm hmode
        obtain ⟨hck, _, _⟩ := hwf alwaysId
        have hcb : (w.recs alwaysId).checked.getD 0 ≤ w.runCounter := by
          cases hx : (w.recs alwaysId).checked with
          | none => simp
          | some c => simpa using hck c hx
        have e1 : max R1 ((w.recs alwaysId).checked.getD 0) = R1 := by
          have := hcb; omega
        have e2 : max R2 ((w.recs alwaysId).checked.getD 0) = R2 := by
          have := hcb; omega
        have := ih d hdm hmode
        dsimp only at this ⊢
        rw [e1] at this
        rw [e2]
        exact this (Nat.le_refl _) R2 (fun h => absurd h (Nat.lt_irrefl _)) (fun _ => Nat.le_refl _)
      · rw [getRec_always_fresh hwf h2]
        exact hc
    · have e1 : getRec w R1 f = w.recs f := getRec_of_ne h0
      have e2 : getRec w R2 f = w.recs f := getRec_of_ne h0
      rw [e1] at hfail hch hst hm hc ih
      obtain ⟨hck, hcg, _⟩ := hwf f
      have hcb : (w.recs f).checked.getD 0 ≤ w.runCounter := by
        cases hx : (w.recs f).checked with
        | none => simp
        | some c => simpa using hck c hx
      have hchb := hcg ch hch
      refine PC.mk f mx2 ch ?_ ?_ (by have := hle2; have := hR; omega) ?_ ?_ ?_
      · rw [e2]; exact hfail
      · rw [e2]; exact hch
      · rw [e2]; exact hst
      · rw [e2]
        intro d hdm hmode
        refine ih d hdm hmode (by omega) _ (fun _ => Nat.le_refl _) (fun he => ?_)
        omega
      · rw [e2]; exact hc

end RedoModel.Deps
