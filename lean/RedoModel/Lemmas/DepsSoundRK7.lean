import RedoModel.Lemmas.DepsSoundRK6
/-! Killed builds, rich histories: `buildJob` and `runTargets` with the outcome "killed". -/
namespace RedoModel.Deps.Rich
open RedoModel.Generated

theorem buildJobK_spec {rank R E t w b fuel} {cx : Ctx} (hE : ESpecK rank R E) (hT : ETr E) (d : Defects)
    (hcx : cx.runid = R) (hredo : cx.isRedo = false) (hS : SK w) (hi : Inv rank R NoX w) (h0 : t ≠ alwaysId)
    (hlt : rank t < b) (po : Option Nat) :
    Killed rank R w (jrStatus (buildJob E d cx fuel t w).1, (buildJob E d cx fuel t w).2) ∨
    JobPost rank R NoX t b po w (jrStatus (buildJob E d cx fuel t w).1, (buildJob E d cx fuel t w).2) := by
  obtain ⟨c1, c2, c3, c4, c5, c6⟩ := exit_codes
  have hXa : ∀ x, NoX x → rank t < rank x := fun _ hx => hx.elim
  unfold buildJob shouldBuild
  simp only [hredo, Bool.false_eq_true, if_false]
  cases hfr : isFailedR (getRec w cx.runid t) cx.runid with
  | true =>
    simp only [if_true]
    split <;> exact Or.inr (JobPost.nonzero hi _ c1 c2)
  | false =>
    simp only [Bool.false_eq_true, if_false]
    have hsp := isDirty_spec (rank := rank) (R := R) (X := NoX) fuel t cx.runid [] w [] none (hcx ▸ hi)
      (fun s e => by cases e) hXa (fun e => absurd e h0)
    have hgc := fun hg => good_clean (rank := rank) (R := R) (X := NoX) fuel t [] w [] none (hcx ▸ hi) hg
      (fun s e => by cases e) hXa
    subst hcx
    have hS1 : SK (isDirty false cx.runid fuel w [] t cx.runid [] none).2.1 :=
      hS.tr (Tr.sameButRecs (isDirty_frame false cx.runid fuel w [] t cx.runid [] none))
    generalize isDirty false cx.runid fuel w [] t cx.runid [] none = res at hsp hgc hS1
    obtain ⟨dr, w1, c⟩ := res
    obtain ⟨hi1, hdx, hnn, hcl, hown⟩ := hsp
    dsimp only at hi1 hdx hnn hcl hown hgc hS1 ⊢
    have hnf0 : (w.recs t).failed ≠ some cx.runid := by
      rw [← getRec_failed w cx.runid t]; exact isFailedR_false hi.Rpos hfr
    cases dr with
    | need ts => exact absurd rfl (hnn ts)
    | cyclic =>
      exact Or.inr ⟨hi1, hdx.toBExt.mono (Nat.succ_le_of_lt hlt), fun h => absurd h c3, fun _ h => absurd h c3, c4⟩
    | clean =>
      obtain ⟨hck, hv, _⟩ := hcl rfl
      exact Or.inr ⟨hi1, hdx.toBExt.mono (Nat.succ_le_of_lt hlt), fun _ => Or.inl hv,
        fun h _ => hdx.noFail hi.Rpos h, CRASHED_ne_zero⟩
    | dirty =>
      have ho := hown (by intro h; cases h)
      dsimp only
      have hown' : w1.recs t = w.recs t ∨ (w1.recs t = { w.recs t with isGenerated := false, isOverride := false, failed := some 0 } ∧
          w1.fs t = none ∧ (w.recs t).stamp ≠ some .missing) := by
        rcases ho with h | ⟨h, hf, hs⟩
        · exact Or.inl h
        · exact Or.inr ⟨h, by rw [congrFun hdx.same.1 t]; exact hf, hs⟩
      have hsf : w.recs t = w1.recs t ∨ (AgreeV (w.recs t) (w1.recs t) ∧ w1.fs t = none ∧ (w.recs t).stamp ≠ some .missing) := by
        rcases hown' with h | ⟨h, hf, hs⟩
        · exact Or.inl h.symm
        · exact Or.inr ⟨by rw [h]; exact ⟨rfl, rfl, rfl, rfl⟩, hf, hs⟩
      have hV : VerR w1 cx.runid t → genT (w1.recs t) = false := by
        intro hv
        rcases hown' with h | ⟨h, _⟩
        · exfalso
          have hv0 : VerR w cx.runid t := by unfold VerR at hv ⊢; rw [h] at hv; exact hv
          rcases hgc (Or.inl hv0) with h1 | ⟨h1, _⟩ <;> cases h1
        · rw [h]; rfl
      have hnf1 : (w1.recs t).failed ≠ some cx.runid := by
        rcases hown' with h | ⟨h, _⟩
        · rw [h]; exact hnf0
        · rw [h]; intro e; have e' := Option.some.inj e; have := hi.Rpos; omega
      rcases startSelfK_spec (b := b) (po := po) hE hT d rfl hS1 hi1 h0 hV hlt (sf := w.recs t) hsf with hk | hj
      · exact Or.inl (hk.from (hdx.toBExt (po := none)).rc (hdx.toBExt (po := none)).rules)
      obtain ⟨a1, a2, a3, a4, a5⟩ := hj.strong hnf1
      exact Or.inr ⟨a1, (hdx.toBExt.mono (Nat.succ_le_of_lt hlt)).trans a2, a3,
        fun h hz => a4 (hdx.noFail hi.Rpos h) hz, a5⟩

theorem runTargetsK_spec {rank R E b fuel} {cx : Ctx} (hE : ESpecK rank R E) (hT : ETr E) (d : Defects)
    (hcx : cx.runid = R) (hredo : cx.isRedo = false) (po : Option Nat) :
    ∀ (ts seen : List Nat) (errored : Bool) (w : World), SK w → Inv rank R NoX w →
      (∀ t ∈ ts, rank t < b ∧ t ≠ alwaysId) →
      (errored = false → ∀ s ∈ seen, Good w R s) →
      Killed rank R w (runTargets E d cx fuel ts seen errored w) ∨
      (CmdPost rank R NoX ts b po w (runTargets E d cx fuel ts seen errored w) ∧
        ((runTargets E d cx fuel ts seen errored w).1 = 0 → errored = false))
  | [], seen, errored, w, _, hi, _, _ => by
    right
    simp only [runTargets]
    cases errored with
    | true => exact ⟨CmdPost.nonzero hi _ one_ne_zero_status one_ne_crashed, fun h => absurd h one_ne_zero_status⟩
    | false =>
      exact ⟨⟨hi, BExt.refl _ _ _ _ _, fun _ t ht => by simp at ht, fun h _ => h, CRASHED_ne_zero⟩, fun _ => rfl⟩
  | t :: ts, seen, errored, w, hS, hi, hts, hseen => by
    obtain ⟨c1, c2, c3, c4, c5, c6⟩ := exit_codes
    have htl : ∀ t' ∈ ts, rank t' < b ∧ t' ≠ alwaysId := fun t' h => hts t' (List.mem_cons_of_mem _ h)
    rw [runTargets]
    by_cases hin : t ∈ seen
    · simp only [hin, if_true]
      rcases runTargetsK_spec hE hT d hcx hredo po ts seen errored w hS hi htl hseen with
        hk | ⟨⟨a1, a2, a3, a4, a5⟩, a6⟩
      · exact Or.inl hk
      refine Or.inr ⟨⟨a1, a2, fun h t' ht' => ?_, a4, a5⟩, a6⟩
      rcases List.mem_cons.1 ht' with rfl | ht'
      · exact a2.good (hseen (a6 h) _ hin)
      · exact a3 h t' ht'
    simp only [hin, if_false]
    by_cases he : (errored && !cx.keepGoing) = true
    · simp only [he, if_true]
      exact Or.inr ⟨CmdPost.nonzero hi _ one_ne_zero_status one_ne_crashed, fun h => absurd h one_ne_zero_status⟩
    simp only [he]
    have e1 := WEqv.addKnown w t
    have hi1 := e1.inv hi
    have hb1 : BExt rank R b po w (addKnown w t) := e1.toBExt
    by_cases hc : (!cx.unlocked && decide (t ∈ cx.cycles)) = true
    · simp only [hc, if_true]
      exact Or.inr ⟨⟨hi1, hb1, fun h => absurd h c3, fun _ h => absurd h c3, c4⟩, fun h => absurd h c3⟩
    simp only [hc]
    have hS1 : SK (addKnown w t) := hS.tr (Tr.addKnown w t)
    have hj := buildJobK_spec (fuel := fuel) (b := b) (t := t) hE hT d hcx hredo hS1 hi1 (hts t (by simp)).2
      (hts t (by simp)).1 po
    have hS2 : SK (buildJob E d cx fuel t (addKnown w t)).2 := hS1.tr (buildJob_tr E hT d cx fuel t _)
    generalize hbj : buildJob E d cx fuel t (addKnown w t) = res at hj hS2 ⊢
    obtain ⟨jr, w2⟩ := res
    cases jr with
    | abort code =>
      simp only
      have hab := buildJob_abort_code E d cx fuel t _ code w2 hbj
      have hne : code ≠ 0 := by rcases hab with h | h <;> rw [h] <;> assumption
      have hnc : code ≠ CRASHED := by rcases hab with h | h <;> rw [h] <;> assumption
      rcases hj with ⟨hk, _⟩ | ⟨j1, j2, j3, j4, j5⟩
      · exact absurd hk hnc
      exact Or.inr ⟨⟨j1, hb1.trans j2, fun h => absurd h hne, fun _ h => absurd h hne, hnc⟩, fun h => absurd h hne⟩
    | done rv =>
      simp only [jrStatus] at hj ⊢
      rcases hj with ⟨hk1, hk2⟩ | ⟨j1, j2, j3, j4, j5⟩
      · left
        dsimp only at hk1 hk2
        simp only [hk1, if_true]
        exact ⟨rfl, hk2.1, hk2.2.1.trans e1.rc, hk2.2.2.trans e1.rules⟩
      dsimp only at j1 j2 j3 j4 j5 hS2
      simp only [j5, if_false]
      rcases runTargetsK_spec hE hT d hcx hredo po ts (t :: seen)
        (errored || decide (rv ≠ 0)) w2 hS2 j1 htl (fun hf s hs => by
          simp only [Bool.or_eq_false_iff, decide_eq_false_iff_not, ne_eq, Classical.not_not] at hf
          rcases List.mem_cons.1 hs with rfl | hs
          · exact j3 hf.2
          · exact j2.good ((e1.good R s).2 (hseen hf.1 s hs))) with hk | ⟨⟨a1, a2, a3, a4, a5⟩, a6⟩
      · exact Or.inl (hk.from (j2.rc.trans e1.rc) (j2.rules.trans e1.rules))
      have hz : (runTargets E d cx fuel ts (t :: seen) (errored || decide (rv ≠ 0)) w2).1 = 0 → errored = false ∧ rv = 0 := by
        intro h
        have := a6 h
        simpa [Bool.or_eq_false_iff] using this
      refine Or.inr ⟨⟨a1, (hb1.trans j2).trans a2, fun h t' ht' => ?_, fun hn h => a4 (j4 (hn.eqv e1) (hz h).2) h, a5⟩,
        fun h => (hz h).1⟩
      rcases List.mem_cons.1 ht' with rfl | ht'
      · exact a2.good (j3 (hz h).2)
      · exact a3 h t' ht'

end RedoModel.Deps.Rich
