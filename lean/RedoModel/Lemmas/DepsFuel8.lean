import RedoModel.Lemmas.DepsFuel1
/-!
# C12 — fuel (part 8): `redo-ood`
The query walks every known target with `seen = []` and fuel `2 * nfiles + 4`; the files it starts from are
below `nfiles` by construction, so only the recorded sources need the bound.
-/
namespace RedoModel.Deps
open RedoModel.Generated

theorem ood_go_fuel (R N f1 f2 : Nat) (h1 : N + 1 ≤ f1) (h2 : N + 1 ≤ f2) :
    ∀ (fs : List Nat) (w : World) (cache acc : List Nat), (∀ f ∈ fs, f < N) → DepsBelow N w →
      runCmd.go R f1 fs w cache acc = runCmd.go R f2 fs w cache acc
  | [], w, cache, acc, _, _ => by rw [runCmd.go, runCmd.go]
  | f :: fs, w, cache, acc, hfs, hb => by
    rw [runCmd.go, runCmd.go]
    rw [isDirty_fuel_eq true R N f1 f2 w cache f R [] none hb (hfs f (by simp)) List.nodup_nil
      (fun _ h => by cases h) (by simp; omega) (by simp; omega)]
    have hfr := isDirty_frame true R f2 w cache f R [] none
    generalize isDirty true R f2 w cache f R [] none = r at hfr
    obtain ⟨dr, w1, c1⟩ := r
    exact ood_go_fuel R N f1 f2 h1 h2 fs w1 c1 _ (fun x hx => hfs x (by simp [hx])) (hb.of_same hfr)

/-- The `redo-ood` branch of `runCmd` with the fuel as a parameter. -/
def oodWith (fuel nfiles : Nat) (w0 : World) : Result × World :=
  let (R, w) := allocRun w0
  let tgts := (knownFiles w nfiles).filter (isTarget w R)
  let (l, w') := runCmd.go R fuel tgts w [] []
  ({ status := 0, listing := l }, { w' with recs := w.recs, deps := w.deps, trace := w'.trace })

theorem runCmd_ood_eq (d : Defects) (nf : Nat) (w : World) : runCmd d nf .ood w = oodWith (2 * nf + 4) nf w := rfl

theorem oodWith_fuel (nf f1 f2 : Nat) (w : World) (hb : DepsBelow nf w) (h1 : nf + 1 ≤ f1) (h2 : nf + 1 ≤ f2) :
    oodWith f1 nf w = oodWith f2 nf w := by
  have key := ood_go_fuel (w.runCounter + 1) nf f1 f2 h1 h2
    ((knownFiles { w with runCounter := w.runCounter + 1 } nf).filter
      (isTarget { w with runCounter := w.runCounter + 1 } (w.runCounter + 1)))
    { w with runCounter := w.runCounter + 1 } [] [] (by
      intro f hf
      exact List.mem_range.1 (List.mem_filter.1 (List.mem_filter.1 hf).1).1) hb
  unfold oodWith allocRun
  dsimp only
  rw [key]

end RedoModel.Deps
