import RedoModel.Lemmas.DepsOodUp6
import RedoModel.Lemmas.DepsQuiet16
import RedoModel.Lemmas.DepsWF2
/-!
# redo-ood, upper bound — part 7: worlds after a rich history (fuel by rank), and the closure `RecReach`
-/
namespace RedoModel.Deps.Rich
open RedoModel.Generated

theorem MReach.recReach {w : World} {R f x : Nat} (h : MReach w R f x) :
    ∀ ts, RecReach w ts f → RecReach w ts x := by
  induction h with
  | refl f => exact fun _ h => h
  | step hc _ ih =>
    intro ts hf
    obtain ⟨d, hd, _, hs⟩ := hc
    exact ih ts (hs ▸ RecReach.step hf (mem_depsOf_mem_deps hd) (mem_depsOf_target hd))

theorem RecReach_congr {w w' : World} {ts : List Nat} {x : Nat} (hd : w'.deps = w.deps) (h : RecReach w ts x) :
    RecReach w' ts x := by
  induction h with
  | base ht => exact RecReach.base ht
  | step _ hdm ht ih => exact RecReach.step ih (by rw [hd]; exact hdm) ht

theorem shouldBuild_next_eq (d : Defects) (n : Nat) (w : World) (kg : Bool) (t : Nat) :
    shouldBuild { runid := (allocRun (runCmd d n .ood w).2).1, keepGoing := kg } (2 * n + 4) t
        (allocRun (runCmd d n .ood w).2).2 =
      shouldBuild { runid := w.runCounter + 2, keepGoing := kg } (2 * n + 4) t
        { w with runCounter := w.runCounter + 2 } := by
  rw [query_world d n w .ood (Or.inl rfl)]
  rfl

/-- Between commands of a rich history: `redo-ood` lists exactly the known targets that `should_build` of the
following `redo-ifchange` does not answer "clean" for. -/
theorem ood_exact_btw {rank n w} (d : Defects) (hN : ∀ f, rank f < n) (hb : Btw rank w) (hwf : WF w) (kg : Bool)
    (t : Nat) :
    t ∈ (runCmd d n .ood w).1.listing ↔
      ((t < n ∧ known w t = true ∧ isTarget w (w.runCounter + 1) t = true) ∧
        (shouldBuild { runid := (allocRun (runCmd d n .ood w).2).1, keepGoing := kg } (2 * n + 4) t
          (allocRun (runCmd d n .ood w).2).2).1 ≠ some .clean) := by
  have hb' : Base rank w.runCounter NoX w := hb
  have hlt : ∀ dd ∈ w.deps, dd.modeM = true → rank dd.source < rank dd.target := fun dd hd _ => hb'.rowsLt dd hd
  have hF1 := rankCert { w with runCounter := w.runCounter + 1 } (w.runCounter + 1) rank hlt
  have hF2 := rankCert w (w.runCounter + 2) rank hlt
  have hfu : ∀ t, t < n → RankFu rank (2 * n + 4) [] t :=
    fun t _ => ⟨by have := hN t; omega, fun x hx => by cases hx⟩
  rw [shouldBuild_next_eq]
  have hiff := shouldBuild_clean_iff hwf { w with runCounter := w.runCounter + 2 } rfl
    { runid := w.runCounter + 2, keepGoing := kg } rfl (by show w.runCounter < w.runCounter + 2; omega) (2 * n + 4) t
  constructor
  · intro h
    obtain ⟨h1, h2⟩ := ood_upper_core d n w hwf hF1 hfu t h { w with runCounter := w.runCounter + 2 } rfl rfl rfl
      (2 * n + 4)
    exact ⟨h1, fun hc => h2 (hiff.1 hc)⟩
  · rintro ⟨⟨h1, h2, h3⟩, h4⟩
    exact ood_lower_coreF d n w hwf hF2 t h1 h2 h3 _ (hfu t h1) { w with runCounter := w.runCounter + 2 } rfl rfl rfl
      (fun hc => h4 (hiff.2 hc))

/-- **General upper bound** (any defect switches, checksums allowed; well-formed world, file ids of `m` rows below
`n` as in `C17.ood_lower_partial`). -/
theorem oodUpperGeneral (d : Defects) (n : Nat) (w : World) (hwf : WF w)
    (hb : ∀ dep ∈ w.deps, dep.modeM = true → dep.source < n) (t : Nat) (ht : t ∈ (runCmd d n .ood w).1.listing) :
    (t < n ∧ known w t = true ∧ isTarget w (w.runCounter + 1) t = true) ∧
    (∀ fuel, (isDirty true (w.runCounter + 1) fuel { w with runCounter := w.runCounter + 1 } [] t
        (w.runCounter + 1) [] none).1 ≠ .clean) ∧
    (∀ fuel, (isDirty false (w.runCounter + 2) fuel { w with runCounter := w.runCounter + 2 } [] t
        (w.runCounter + 2) [] none).1 ≠ .clean) ∧
    ∀ fuel ts, (isDirty true (w.runCounter + 1) fuel { w with runCounter := w.runCounter + 1 } [] t
        (w.runCounter + 1) [] none).1 = .need ts → ∀ x ∈ ts,
      RecReach w [t] x ∧ ((w.recs x).csum.isSome = true) ∧
      (∀ fuel' mx', (isDirty true (w.runCounter + 1) fuel' { w with runCounter := w.runCounter + 1 } [] x mx' [] none).1
        ≠ .clean) ∧
      (∀ fuel', (isDirty false (w.runCounter + 2) fuel' { w with runCounter := w.runCounter + 2 } [] x
        (w.runCounter + 2) [] none).1 ≠ .clean) := by
  have hF := idCert { w with runCounter := w.runCounter + 1 } (w.runCounter + 1) n hb
  have hfu : ∀ t, t < n → IdFu { w with runCounter := w.runCounter + 1 } (w.runCounter + 1) n (2 * n + 4) [] t :=
    fun t ht => ⟨(fun g hg => by cases hg), List.nodup_nil, (fun g hg => by cases hg), ht,
      (by simp only [List.length_nil]; omega)⟩
  obtain ⟨h1, h2⟩ := ood_upper_general_core d n w hF hfu t ht
  refine ⟨h1, h2, fun fuel => (ood_upper_core d n w hwf hF hfu t ht { w with runCounter := w.runCounter + 2 } rfl rfl rfl
    fuel).2, fun fuel ts hts x hx => ?_⟩
  obtain ⟨a, b, c, e⟩ := ood_need_members { w with runCounter := w.runCounter + 1 } (w.runCounter + 1) fuel t _ ts hts x hx
  refine ⟨?_, ?_, e, fun fuel' hcl => ?_⟩
  · have := MReach.recReach a [t] (RecReach.base (by simp))
    exact RecReach_congr (w := { w with runCounter := w.runCounter + 1 }) (w' := w) rfl this
  · have : (getRec { w with runCounter := w.runCounter + 1 } (w.runCounter + 1) x).csum = (w.recs x).csum := by
      simp only [getRec]; split <;> rfl
    rw [← this]; exact b
  · have hpc := builder_clean_pc hwf { w with runCounter := w.runCounter + 2 } rfl rfl rfl x fuel' hcl
    exact c _ (PC.congr (w := w) (w2 := { w with runCounter := w.runCounter + 1 }) rfl rfl rfl hpc)

/-- Exactness for well-formed worlds under the bound on file ids. -/
theorem oodExactPartial (d : Defects) (n : Nat) (w : World) (hwf : WF w)
    (hb : ∀ dep ∈ w.deps, dep.modeM = true → dep.source < n) (t : Nat) (hlt : t < n) (hkn : known w t = true)
    (ht : isTarget w (w.runCounter + 1) t = true)
    (w2 : World) (hfs : w2.fs = w.fs) (hrecs : w2.recs = w.recs) (hdeps : w2.deps = w.deps) :
    t ∈ (runCmd d n .ood w).1.listing ↔
      (isDirty false (w.runCounter + 2) (2 * n + 4) w2 [] t (w.runCounter + 2) [] none).1 ≠ .clean :=
  ⟨fun h => (ood_upper_core d n w hwf (idCert _ _ n hb) (fun t ht => ⟨(fun g hg => by cases hg), List.nodup_nil,
      (fun g hg => by cases hg), ht, (by simp only [List.length_nil]; omega)⟩) t h w2 hfs hrecs hdeps _).2,
   fun h => ood_lower_core d n w hwf hb t hlt hkn ht w2 hfs hrecs hdeps h⟩

/-- History level. -/
theorem oodExactRich (n : Nat) (rules : Nat → List Nat) (rank : Nat → Nat) (ops : List UserOp)
    (hr : RulesOk rules) (hp : ∀ op ∈ ops, RichOp rules op)
    (hrk : ∀ w ∈ worldsOf n {} (initWorld rules) ops, RankedR rank w) (hN : ∀ f, rank f < n)
    (hok : OpsOkW n (initWorld rules) ops) (kg : Bool) (t : Nat) :
    let w := ops.foldl (fun w op => (applyOp {} n op w).2) (initWorld rules)
    t ∈ (runCmd {} n .ood w).1.listing ↔
      ((t < n ∧ known w t = true ∧ isTarget w (w.runCounter + 1) t = true) ∧
        (shouldBuild { runid := (allocRun (runCmd {} n .ood w).2).1, keepGoing := kg } (2 * n + 4) t
          (allocRun (runCmd {} n .ood w).2).2).1 ≠ some .clean) := by
  intro w
  have h0 : Btw rank (initWorld rules) := Btw_init hr (hrk _ (worldsOf_head n {} _ ops))
  obtain ⟨hb, _⟩ := history_btw hN ops (initWorld rules) h0 rfl hp hrk hok
  exact ood_exact_btw {} hN hb (WF_reachable {} n rules ops) kg t

end RedoModel.Deps.Rich
