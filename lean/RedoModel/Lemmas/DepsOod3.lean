import RedoModel.Lemmas.DepsOod1
import RedoModel.Lemmas.DepsOod2
/-!
# redo-ood vs. the builder's check — part 3: a target redo-ood does not list is found clean by the
next command's check
-/
namespace RedoModel.Deps

/-- What `redo-ood` prints, as the loop over the known targets. -/
theorem ood_listing_eq (d : Defects) (n : Nat) (w : World) :
    (runCmd d n .ood w).1.listing =
      (runCmd.go (w.runCounter + 1) (2 * n + 4)
        ((knownFiles { w with runCounter := w.runCounter + 1 } n).filter
          (isTarget { w with runCounter := w.runCounter + 1 } (w.runCounter + 1)))
        { w with runCounter := w.runCounter + 1 } [] []).1 := rfl

theorem known_congr {w w2 : World} (hrecs : w2.recs = w.recs) (f : Nat) : known w2 f = known w f := by
  simp [known, hrecs]

theorem isTarget_congr {w w2 : World} (hfs : w2.fs = w.fs) (hrecs : w2.recs = w.recs) (R f : Nat) :
    isTarget w2 R f = isTarget w R f := by
  simp [isTarget, isSource, getRec, readStamp, hfs, hrecs]

/-- A known target that `redo-ood` (run id `runCounter + 1`) does not list is clean in the
mark-free sense for every later fresh run id. -/
theorem ood_not_listed_pc (d : Defects) (n : Nat) (w : World) (hwf : WF w) (t : Nat)
    (hlt : t < n) (hkn : known w t = true) (ht : isTarget w (w.runCounter + 1) t = true)
    (hnot : t ∉ (runCmd d n .ood w).1.listing) {R2 : Nat} (hR2 : w.runCounter < R2) :
    PC w R2 t R2 := by
  rw [ood_listing_eq] at hnot
  have hmem : t ∈ (knownFiles { w with runCounter := w.runCounter + 1 } n).filter
      (isTarget { w with runCounter := w.runCounter + 1 } (w.runCounter + 1)) := by
    rw [List.mem_filter]
    refine ⟨?_, ?_⟩
    · simp only [knownFiles, List.mem_filter, List.mem_range]
      exact ⟨hlt, (known_congr (w := w) (w2 := { w with runCounter := w.runCounter + 1 }) rfl t).trans hkn⟩
    · exact (isTarget_congr (w := w) (w2 := { w with runCounter := w.runCounter + 1 }) rfl rfl _ t).trans ht
  have hpc := go_ood_pc { w with runCounter := w.runCounter + 1 } (w.runCounter + 1) (2 * n + 4) _
    { w with runCounter := w.runCounter + 1 } [] [] (OodInv.refl _ _) (fun g hg => by cases hg) t hmem hnot
  have hpc1 : PC w (w.runCounter + 1) t (w.runCounter + 1) := PC.congr (w := { w with runCounter := w.runCounter + 1 }) (w2 := w) rfl rfl rfl hpc
  exact hpc1.shift hwf (Nat.lt_succ_self _) hR2 (Nat.le_refl _) R2
    (fun h => absurd h (Nat.lt_irrefl _)) (fun _ => Nat.le_refl _)

/-- The builder's check of a later command (run id `R2`, no `checked` mark of that run yet) on any
world with the same files, records and dependency rows. -/
theorem pc_builder_clean (n : Nat) (w w2 : World) (hfs : w2.fs = w.fs) (hrecs : w2.recs = w.recs)
    (hdeps : w2.deps = w.deps) (hb : ∀ dep ∈ w.deps, dep.modeM = true → dep.source < n) (t R2 : Nat) (hR2 : R2 ≠ 0) (hlt : t < n)
    (hpc : PC w R2 t R2) (fuel : Nat) (hfuel : n + 1 ≤ fuel) :
    (isDirty false R2 fuel w2 [] t R2 [] none).1 = .clean := by
  have hpc2 : PC w2 R2 t R2 := PC.congr hfs hrecs hdeps hpc
  exact (isDirty_builder_clean w2 R2 n hR2 (by rw [hdeps]; exact hb) hpc2 fuel w2 [] [] none (BInv.refl _ _)
    (fun s hs => by cases hs) (fun g hg => by cases hg) List.nodup_nil (fun g hg => by cases hg) hlt
    (by simpa using hfuel)).1

theorem isFailedR_fresh {w : World} (hwf : WF w) {R : Nat} (hR : w.runCounter < R) (f : Nat) :
    isFailedR (getRec w R f) R = false := by
  have hf : (getRec w R f).failed = (w.recs f).failed := by
    simp only [getRec]; split <;> rfl
  obtain ⟨_, _, h3⟩ := hwf f
  unfold isFailedR
  rw [hf]
  cases hx : (w.recs f).failed with
  | none => rfl
  | some c =>
    have := h3 c hx
    simp only [Bool.and_eq_false_imp, bne_iff_ne, ne_eq, decide_eq_false_iff_not]
    intro _; omega

/-- `should_build` of a later `redo-ifchange` (run id `R2`) answers "clean" whenever the walk does. -/
theorem shouldBuild_clean_of_isDirty {w : World} (hwf : WF w) (w2 : World) (hrecs : w2.recs = w.recs)
    (cx : Ctx) (hredo : cx.isRedo = false) (hR : w.runCounter < cx.runid) (fuel t : Nat)
    (h : (isDirty false cx.runid fuel w2 [] t cx.runid [] none).1 = .clean) :
    (shouldBuild cx fuel t w2).1 = some .clean := by
  unfold shouldBuild
  simp only [hredo, Bool.false_eq_true, if_false]
  have hg : getRec w2 cx.runid t = getRec w cx.runid t := by simp [getRec, hrecs]
  rw [hg, isFailedR_fresh hwf hR]
  simp only [Bool.false_eq_true, if_false]
  generalize isDirty false cx.runid fuel w2 [] t cx.runid [] none = r at h
  obtain ⟨dr, w3, c⟩ := r
  dsimp only at h ⊢
  subst h
  rfl

/-- A known target whose check by a later command (run id `runCounter + 2`) is not "clean" is
listed by `redo-ood`. -/
theorem ood_lower_core (d : Defects) (n : Nat) (w : World) (hwf : WF w)
    (hb : ∀ dep ∈ w.deps, dep.modeM = true → dep.source < n) (t : Nat) (hlt : t < n) (hkn : known w t = true)
    (ht : isTarget w (w.runCounter + 1) t = true)
    (w2 : World) (hfs : w2.fs = w.fs) (hrecs : w2.recs = w.recs) (hdeps : w2.deps = w.deps)
    (hne : (isDirty false (w.runCounter + 2) (2 * n + 4) w2 [] t (w.runCounter + 2) [] none).1 ≠ .clean) :
    t ∈ (runCmd d n .ood w).1.listing :=
  Classical.byContradiction fun hnot => hne
    (pc_builder_clean n w w2 hfs hrecs hdeps hb t _ (by omega) hlt
      (ood_not_listed_pc d n w hwf t hlt hkn ht hnot (by omega)) _ (by omega))

theorem ood_lower_shouldBuild_core (d : Defects) (n : Nat) (w : World) (hwf : WF w)
    (hb : ∀ dep ∈ w.deps, dep.modeM = true → dep.source < n) (t : Nat) (hlt : t < n) (hkn : known w t = true)
    (ht : isTarget w (w.runCounter + 1) t = true) (kg : Bool)
    (hro : (runCmd d n .ood w).2.fs = w.fs ∧ (runCmd d n .ood w).2.recs = w.recs ∧
      (runCmd d n .ood w).2.deps = w.deps ∧ (runCmd d n .ood w).2.runCounter = w.runCounter + 1 ∧
      (runCmd d n .ood w).1.status = 0)
    (hne : (shouldBuild { runid := (allocRun (runCmd d n .ood w).2).1, keepGoing := kg } (2 * n + 4) t
      (allocRun (runCmd d n .ood w).2).2).1 ≠ some .clean) :
    t ∈ (runCmd d n .ood w).1.listing := by
  have hrc : (allocRun (runCmd d n .ood w).2).1 = w.runCounter + 2 := by simp [allocRun, hro.2.2.2.1]
  rw [hrc] at hne
  refine ood_lower_core d n w hwf hb t hlt hkn ht (allocRun (runCmd d n .ood w).2).2 hro.1 hro.2.1 hro.2.2.1
    (fun hcl => hne ?_)
  exact shouldBuild_clean_of_isDirty hwf (allocRun (runCmd d n .ood w).2).2 hro.2.1
    { runid := w.runCounter + 2, keepGoing := kg } rfl
    (by show w.runCounter < w.runCounter + 2; omega) _ t hcl

end RedoModel.Deps
