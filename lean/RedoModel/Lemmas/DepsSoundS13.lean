import RedoModel.Lemmas.DepsSoundS12
/-! Field lemmas for `setStatic` / `setFailed`, `ssGuard` is a no-op, `setStatic` keeps the invariant. -/
namespace RedoModel.Deps.S

theorem updateStamp_stamp (w : World) (t : Nat) (r : Rec) (R : Nat) : (updateStamp w t r R).stamp = some (readStamp w t) := by
  unfold updateStamp setChanged; simp only; split <;> simp_all
theorem updateStamp_checked (w : World) (t : Nat) (r : Rec) (R : Nat) : (updateStamp w t r R).checked = r.checked := by
  unfold updateStamp setChanged; simp only; split <;> rfl
theorem updateStamp_csum (w : World) (t : Nat) (r : Rec) (R : Nat) : (updateStamp w t r R).csum = r.csum := by
  unfold updateStamp setChanged; simp only; split <;> rfl
theorem updateStamp_row (w : World) (t : Nat) (r : Rec) (R : Nat) : (updateStamp w t r R).row = r.row := by
  unfold updateStamp setChanged; simp only; split <;> rfl
theorem updateStamp_changed (w : World) (t : Nat) (r : Rec) (R : Nat) :
    (updateStamp w t r R).changed = if r.stamp = some (readStamp w t) then r.changed else some R := by
  unfold updateStamp setChanged; simp only; split <;> rfl
theorem updateStamp_ovr (w : World) (t : Nat) (r : Rec) (R : Nat) (h : r.isOverride = false) :
    (updateStamp w t r R).isOverride = false := by
  unfold updateStamp setChanged; simp only; split <;> simp_all

@[simp] theorem setStatic_failed (w t r R) : (setStatic w t r R).failed = none := rfl
@[simp] theorem setStatic_ovr (w t r R) : (setStatic w t r R).isOverride = false := rfl
@[simp] theorem setStatic_gen (w t r R) : (setStatic w t r R).isGenerated = false := rfl
@[simp] theorem setStatic_stamp (w t r R) : (setStatic w t r R).stamp = some (readStamp w t) := updateStamp_stamp w t r R
@[simp] theorem setStatic_checked (w t r R) : (setStatic w t r R).checked = r.checked := updateStamp_checked w t r R
@[simp] theorem setStatic_csum (w t r R) : (setStatic w t r R).csum = none := rfl
theorem setStatic_changed (w t r R) :
    (setStatic w t r R).changed = if r.stamp = some (readStamp w t) then r.changed else some R :=
  updateStamp_changed w t r R

@[simp] theorem setFailed_failed (w t r R) : (setFailed w t r R).failed = some R := rfl
@[simp] theorem setFailed_stamp (w t r R) : (setFailed w t r R).stamp = some (readStamp w t) := updateStamp_stamp w t r R
@[simp] theorem setFailed_checked (w t r R) : (setFailed w t r R).checked = r.checked := updateStamp_checked w t r R
@[simp] theorem setFailed_csum (w t r R) : (setFailed w t r R).csum = r.csum := updateStamp_csum w t r R
theorem setFailed_changed (w t r R) :
    (setFailed w t r R).changed = if r.stamp = some (readStamp w t) then r.changed else some R :=
  updateStamp_changed w t r R
theorem setFailed_ovr (w t r R) (h : r.isOverride = false) : (setFailed w t r R).isOverride = false :=
  updateStamp_ovr w t r R h
theorem setFailed_gen (w t r R) : (setFailed w t r R).isGenerated = (readStamp w t != .missing) := by
  unfold setFailed
  simp only [updateStamp_stamp]
  cases readStamp w t <;> rfl

theorem ssGuard_noop {rank R X w} (hb : Base rank R X w) (cx : Ctx) (t : Nat) :
    ssGuard cx t (w.recs t) w = (w.recs t, w) := by
  unfold ssGuard
  split
  · rename_i h
    exfalso
    simp only [Bool.and_eq_true, Bool.or_eq_true, bne_iff_ne, ne_eq] at h
    obtain ⟨⟨hg, hne⟩, ho⟩ := h
    rcases ho with ho | ho
    · rw [hb.noOvr t] at ho; cases ho
    · cases hfs : w.fs t with
      | none => exact hne (readStamp_missing.2 hfs)
      | some n =>
        obtain ⟨rest, hst⟩ := hb.genMs t hg n hfs
        have hrs : readStamp w t = .st n.ms n.rest := by unfold readStamp; rw [hfs]
        rw [hst, hrs] at ho
        simp [detectOverride] at ho
  · rfl

theorem OffT.toBExt {rank R X t w w' b po} (h : OffT t w w') (hb : Base rank R X w) (hlt : rank t < b)
    (hver : VerR w R t → VerR w' R t ∧ contentOf w' t = contentOf w t ∧
      (w'.recs t).isGenerated = (w.recs t).isGenerated)
    (hstat : RecCur w t → (w.recs t).isGenerated = false →
      RecCur w' t ∧ (w'.recs t).isGenerated = false ∧ w'.fs t = w.fs t) : BExt rank R b po w w' := by
  refine ⟨h.rules, h.progs, fun x hx => h.fsPlain hb hx, fun x hx => ?_, fun d hd _ => ?_, fun x hv => ?_,
    fun x hc hg => ?_, h.clock, h.rc⟩
  · have e : x ≠ t := fun e => by subst e; omega
    rw [h.recs x e]; exact ⟨h.fs x e, rfl, rfl, rfl, rfl, rfl, rfl, rfl⟩
  · exact h.rows d (fun e => by rw [e] at hd; omega)
  · by_cases e : x = t
    · subst e; exact hver hv
    · exact ⟨(h.verR e R).2 hv, contentOf_congr (h.fs x e), by rw [h.recs x e]⟩
  · by_cases e : x = t
    · subst e; exact hstat hc hg
    · exact ⟨(h.recCur e).2 hc, by rw [h.recs x e]; exact hg, h.fs x e⟩

theorem NoFail.setRec {R w t r} (h : NoFail R w) (hr : r.failed ≠ some R) : NoFail R (setRec w t r) := by
  intro f
  by_cases e : f = t
  · subst e; simpa using hr
  · rw [setRec_recs_other _ _ _ e]; exact h f

theorem WEqv.toBExt {rank R b po w w'} (h : WEqv w w') : BExt rank R b po w w' :=
  ⟨h.rules, h.progs, fun x _ => congrFun h.fs x,
   fun x _ => ⟨congrFun h.fs x, h.gen x, h.ovr x, h.checked x, h.changed x, h.failed x, h.stamp x, h.csum x⟩,
   fun d _ _ => by rw [h.deps], fun x hv => ⟨(h.verR R x).2 hv, h.contentOf x, h.gen x⟩,
   fun x hc hg => ⟨(h.recCur x).2 hc, by rw [h.gen]; exact hg, congrFun h.fs x⟩, Nat.le_of_eq h.clock.symm, h.rc⟩

theorem WEqv.setRec_self (w : World) (t : Nat) : WEqv w (setRec w t (w.recs t)) := by
  refine ⟨rfl, rfl, rfl, rfl, rfl, rfl, ?_, ?_, ?_, ?_, ?_, ?_, ?_⟩ <;> intro x <;> by_cases e : x = t <;> simp [setRec, e]

theorem setStatic_cur {w : World} {t R : Nat} (hc : RecCur w t) (hg : (w.recs t).isGenerated = false)
    (ho : (w.recs t).isOverride = false) (hcs : (w.recs t).csum = none) :
    setStatic w t (w.recs t) R = w.recs t := by
  obtain ⟨h1, _, h3⟩ := hc
  unfold setStatic updateStamp
  simp only [h3, if_true]
  generalize w.recs t = r at *
  cases r; simp_all

theorem NoFail.eqv {R w w'} (h : WEqv w w') (hn : NoFail R w) : NoFail R w' := fun f => by rw [h.failed]; exact hn f

end RedoModel.Deps.S
