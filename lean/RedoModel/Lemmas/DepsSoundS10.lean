import RedoModel.Lemmas.DepsSoundS9
/-! Operations on the rows of a target under construction (`zapDeps1`, `addDep`): frame `RowOp`. -/
namespace RedoModel.Deps.S

/-- `w'` is `w` up to `row`/`nextRow`/`trace` and the rows whose target is `t`. -/
structure RowOp (t : Nat) (w w' : World) : Prop where
  eqv : WEqv w { w' with deps := w.deps }
  rows : ∀ d : Dep, d.target ≠ t → (d ∈ w'.deps ↔ d ∈ w.deps)

theorem RowOp.refl (t : Nat) (w : World) : RowOp t w w := ⟨WEqv.refl w, fun _ _ => Iff.rfl⟩

theorem RowOp.of_eqv {t : Nat} {w w' : World} (h : WEqv w w') : RowOp t w w' :=
  ⟨{ h with deps := rfl }, fun _ _ => by rw [h.deps]⟩

theorem RowOp.trans {t : Nat} {a b c : World} (h1 : RowOp t a b) (h2 : RowOp t b c) : RowOp t a c := by
  refine ⟨?_, fun d hd => (h2.rows d hd).trans (h1.rows d hd)⟩
  have e1 := h1.eqv
  have e2 := h2.eqv
  exact ⟨e2.fs.trans e1.fs, rfl, e2.rules.trans e1.rules, e2.progs.trans e1.progs, e2.clock.trans e1.clock,
    e2.rc.trans e1.rc,
    fun x => (e2.gen x).trans (e1.gen x), fun x => (e2.ovr x).trans (e1.ovr x),
    fun x => (e2.checked x).trans (e1.checked x), fun x => (e2.changed x).trans (e1.changed x),
    fun x => (e2.failed x).trans (e1.failed x), fun x => (e2.stamp x).trans (e1.stamp x),
    fun x => (e2.csum x).trans (e1.csum x)⟩

theorem RowOp.fs {t w w'} (h : RowOp t w w') : w'.fs = w.fs := h.eqv.fs
theorem RowOp.rules {t w w'} (h : RowOp t w w') : w'.rules = w.rules := h.eqv.rules
theorem RowOp.progs {t w w'} (h : RowOp t w w') : w'.progs = w.progs := h.eqv.progs
theorem RowOp.clock {t w w'} (h : RowOp t w w') : w'.clock = w.clock := h.eqv.clock

theorem RowOp.verR {t w w'} (h : RowOp t w w') (R f) : VerR w' R f ↔ VerR w R f := h.eqv.verR R f
theorem RowOp.recCur {t w w'} (h : RowOp t w w') (f) : RecCur w' f ↔ RecCur w f := h.eqv.recCur f
theorem RowOp.good {t w w'} (h : RowOp t w w') (R f) : Good w' R f ↔ Good w R f := h.eqv.good R f
theorem RowOp.existsF {t w w'} (h : RowOp t w w') (f) : existsF w' f = existsF w f := h.eqv.existsF f
theorem RowOp.contentOf {t w w'} (h : RowOp t w w') (f) : contentOf w' f = contentOf w f := h.eqv.contentOf f
theorem RowOp.readStamp {t w w'} (h : RowOp t w w') (f) : readStamp w' f = readStamp w f := h.eqv.readStamp f
theorem RowOp.scriptAt {t w w'} (h : RowOp t w w') (f) : scriptAt w' f = scriptAt w f := h.eqv.scriptAt f

theorem RowOp.hasRow {t w w'} (h : RowOp t w w') {x s m} (hx : x ≠ t) : HasRow w' x s m ↔ HasRow w x s m := by
  unfold HasRow
  constructor
  · rintro ⟨d, hd, h1, h2, h3⟩
    exact ⟨d, (h.rows d (by rw [h1]; exact hx)).1 hd, h1, h2, h3⟩
  · rintro ⟨d, hd, h1, h2, h3⟩
    exact ⟨d, (h.rows d (by rw [h1]; exact hx)).2 hd, h1, h2, h3⟩

/-- All fields but `row` agree. -/
structure Flds (a b : Rec) : Prop where
  gen : a.isGenerated = b.isGenerated
  ovr : a.isOverride = b.isOverride
  checked : a.checked = b.checked
  changed : a.changed = b.changed
  failed : a.failed = b.failed
  stamp : a.stamp = b.stamp
  csum : a.csum = b.csum

theorem Flds.refl (a : Rec) : Flds a a := ⟨rfl, rfl, rfl, rfl, rfl, rfl, rfl⟩
theorem Flds.of_eq {a b : Rec} (h : a = b) : Flds a b := h ▸ Flds.refl a
theorem Flds.symm {a b : Rec} (h : Flds a b) : Flds b a :=
  ⟨h.gen.symm, h.ovr.symm, h.checked.symm, h.changed.symm, h.failed.symm, h.stamp.symm, h.csum.symm⟩
theorem Flds.trans {a b c : Rec} (h1 : Flds a b) (h2 : Flds b c) : Flds a c :=
  ⟨h1.gen.trans h2.gen, h1.ovr.trans h2.ovr, h1.checked.trans h2.checked, h1.changed.trans h2.changed,
   h1.failed.trans h2.failed, h1.stamp.trans h2.stamp, h1.csum.trans h2.csum⟩

theorem RecOk.congr {R t w w'} (o : RecOk R t w) (hr : Flds (w'.recs t) (w.recs t)) (hf : w'.fs t = w.fs t)
    (hru : w'.rules = w.rules) (hc : w.clock ≤ w'.clock) : RecOk R t w' := by
  obtain ⟨e1, e2, e3, e4, e5, e6, e7⟩ := hr
  refine ⟨?_, ?_, ?_, ?_, ?_, ?_, ?_, ?_, ?_, ?_, ?_, ?_, ?_, ?_, ?_, ?_, ?_⟩
  all_goals try simp only [e1, e2, e3, e4, e5, e6, e7]
  · exact o.chLe
  · exact o.ckLe
  · rw [hf]; exact o.csumFile
  · exact o.csumEx
  · rw [hru]; exact o.srcNoCsum
  · exact o.csumCh
  · exact o.noOvr
  · rw [hru]; exact o.srcNotGen
  · exact o.rec0
  · exact o.stampCh
  · exact o.staticEx
  · rw [hf]; exact o.genMs
  · rw [hf]; exact fun n hn => Nat.le_trans (o.fsB n hn) hc
  · rw [hf]; exact fun ms rest hs => ⟨Nat.le_trans (o.stB ms rest hs).1 hc, (o.stB ms rest hs).2⟩
  · exact o.ckFail
  · exact o.markFail
  · exact o.flLe

/-- Rewriting the rows of an exempt target that is not good keeps the invariant. -/
theorem Inv_rowOp {rank R X t w w'} (hi : Inv rank R X w) (h : RowOp t w w') (hX : X t) (hng : ¬ Good w R t)
    (hrowsLt : ∀ d ∈ w'.deps, rank d.source < rank d.target)
    (hcPlain : ∀ d ∈ w'.deps, d.modeM = false → w'.rules d.source = []) : Inv rank R X w' := by
  have hi1 : Inv rank R X { w' with deps := w.deps } := h.eqv.inv hi
  have hng1 : ¬ Good { w' with deps := w.deps } R t := fun hg => hng ((h.eqv.good R t).1 hg)
  have hnv1 : ¬ VerR { w' with deps := w.deps } R t := fun hv => hng1 (Or.inl hv)
  have off : OffT t { w' with deps := w.deps } w' :=
    ⟨rfl, rfl, fun _ _ => rfl, fun _ => rfl, fun _ _ => rfl, fun d hd => h.rows d hd, Nat.le_refl _, rfl⟩
  refine ⟨Base_upd hi1.base off ((hi1.base.recOk t).congr (Flds.refl _) rfl rfl (Nat.le_refl _)) (fun _ _ hx => hx) hrowsLt hcPlain
    (hdet_quiet rfl rfl rfl (fun hs => hs) (fun hs => hs)) ?_, hi.Rpos, Ver_upd hi1 off hng1 (fun hv => absurd hv hnv1)⟩
  rintro (hx | hv)
  · exact absurd hX hx
  · exact absurd hv hnv1

theorem RowOp.zapDeps1 (w : World) (t : Nat) : RowOp t w (zapDeps1 w t) := by
  refine ⟨WEqv.refl w, fun d hd => ?_⟩
  unfold Deps.zapDeps1
  simp only [List.mem_map]
  constructor
  · rintro ⟨a, ha, e⟩
    split at e
    · rename_i hat; subst e; exact absurd hat hd
    · subst e; exact ha
  · intro hm
    exact ⟨d, hm, by simp [hd]⟩

theorem zapDeps1_rows {w : World} {t : Nat} {P : Dep → Prop} (hP : ∀ d, P d → P { d with deleteMe := true })
    (h : ∀ d ∈ w.deps, P d) : ∀ d ∈ (zapDeps1 w t).deps, P d := by
  unfold zapDeps1
  intro d hd
  simp only [List.mem_map] at hd
  obtain ⟨a, ha, e⟩ := hd
  split at e
  · subst e; exact hP a (h a ha)
  · subst e; exact h a ha

theorem Inv_zapDeps1 {rank R X t w} (hi : Inv rank R X w) (hX : X t) (hng : ¬ Good w R t) :
    Inv rank R X (zapDeps1 w t) :=
  Inv_rowOp hi (RowOp.zapDeps1 w t) hX hng
    (zapDeps1_rows (P := fun d => rank d.source < rank d.target) (fun _ h => h) hi.base.rowsLt)
    (zapDeps1_rows (P := fun d => d.modeM = false → w.rules d.source = []) (fun _ h => h) hi.base.cPlain)

theorem addDep_deps (w : World) (t s : Nat) (m : Bool) :
    (addDep w t s m).deps = { target := t, source := s, modeM := m, deleteMe := false } ::
      w.deps.filter (fun d => !(d.target = t && d.source = s)) := by
  unfold addDep Deps.addKnown
  split <;> rfl

theorem RowOp.addDep (w : World) (t s : Nat) (m : Bool) : RowOp t w (addDep w t s m) := by
  refine ⟨?_, fun d hd => ?_⟩
  · have h := WEqv.addKnown w s
    unfold Deps.addDep
    exact { h with deps := rfl }
  · rw [addDep_deps]
    simp only [List.mem_cons, List.mem_filter, Bool.not_eq_true', Bool.and_eq_false_iff, decide_eq_false_iff_not]
    constructor
    · rintro (rfl | ⟨h, _⟩)
      · exact absurd rfl hd
      · exact h
    · exact fun h => Or.inr ⟨h, Or.inl hd⟩

theorem addDep_mem {w : World} {t s : Nat} {m : Bool} {d : Dep} (hd : d ∈ (addDep w t s m).deps) :
    d = { target := t, source := s, modeM := m, deleteMe := false } ∨ (d ∈ w.deps ∧ ¬ (d.target = t ∧ d.source = s)) := by
  rw [addDep_deps] at hd
  simp only [List.mem_cons, List.mem_filter, Bool.not_eq_true', Bool.and_eq_false_iff, decide_eq_false_iff_not] at hd
  rcases hd with h | ⟨h1, h2⟩
  · exact Or.inl h
  · exact Or.inr ⟨h1, fun ⟨a, b⟩ => h2.elim (fun h => h a) (fun h => h b)⟩

theorem addDep_hasRow_new (w : World) (t s : Nat) (m : Bool) : HasRow (addDep w t s m) t s m := by
  refine ⟨{ target := t, source := s, modeM := m, deleteMe := false }, ?_, rfl, rfl, rfl⟩
  rw [addDep_deps]; simp

theorem addDep_hasRow_keep {w : World} {t s : Nat} {m : Bool} {x s' : Nat} {m' : Bool} (h : HasRow w x s' m')
    (hne : ¬ (x = t ∧ s' = s)) : HasRow (addDep w t s m) x s' m' := by
  obtain ⟨d, hd, h1, h2, h3⟩ := h
  refine ⟨d, ?_, h1, h2, h3⟩
  rw [addDep_deps]
  simp only [List.mem_cons, List.mem_filter, Bool.not_eq_true', Bool.and_eq_false_iff, decide_eq_false_iff_not]
  refine Or.inr ⟨hd, ?_⟩
  rw [h1, h2]
  by_cases e : x = t
  · exact Or.inr (fun e2 => hne ⟨e, e2⟩)
  · exact Or.inl e

theorem Inv_addDep {rank R X t w s m} (hi : Inv rank R X w) (hX : X t) (hng : ¬ Good w R t)
    (hlt : rank s < rank t) (hpl : m = false → w.rules s = []) : Inv rank R X (addDep w t s m) := by
  have hro := RowOp.addDep w t s m
  refine Inv_rowOp hi hro hX hng (fun d hd => ?_) (fun d hd hm => ?_)
  · rcases addDep_mem hd with rfl | ⟨h, _⟩
    · exact hlt
    · exact hi.base.rowsLt d h
  · rw [hro.rules]
    rcases addDep_mem hd with rfl | ⟨h, _⟩
    · exact hpl hm
    · exact hi.base.cPlain d h hm

/-- A row declared during the current build of `t` (not marked for deletion). -/
def HasRowU (w : World) (t s : Nat) (m : Bool) : Prop :=
  ∃ d ∈ w.deps, d.target = t ∧ d.source = s ∧ d.modeM = m ∧ d.deleteMe = false

theorem HasRowU.hasRow {w t s m} (h : HasRowU w t s m) : HasRow w t s m := by
  obtain ⟨d, hd, h1, h2, h3, _⟩ := h
  exact ⟨d, hd, h1, h2, h3⟩

theorem addDep_hasRowU_new (w : World) (t s : Nat) (m : Bool) : HasRowU (addDep w t s m) t s m := by
  refine ⟨{ target := t, source := s, modeM := m, deleteMe := false }, ?_, rfl, rfl, rfl, rfl⟩
  rw [addDep_deps]; simp

theorem addDep_hasRowU_keep {w : World} {t s : Nat} {m : Bool} {x s' : Nat} {m' : Bool} (h : HasRowU w x s' m')
    (hne : ¬ (x = t ∧ s' = s)) : HasRowU (addDep w t s m) x s' m' := by
  obtain ⟨d, hd, h1, h2, h3, h4⟩ := h
  refine ⟨d, ?_, h1, h2, h3, h4⟩
  rw [addDep_deps]
  simp only [List.mem_cons, List.mem_filter, Bool.not_eq_true', Bool.and_eq_false_iff, decide_eq_false_iff_not]
  refine Or.inr ⟨hd, ?_⟩
  rw [h1, h2]
  by_cases e : x = t
  · exact Or.inr (fun e2 => hne ⟨e, e2⟩)
  · exact Or.inl e

end RedoModel.Deps.S
