import RedoModel.Lemmas.DepsIfcreate3
/-!
# C03 — checksum cut-off, part 1: what a rebuild of a checksummed target writes into its record

`startSelf` for a target `m` whose script pipes its output to `redo-stamp` (`stamp = 1`): after the job the
record of `m` is `stampRec (old record) R data` with the stamp refreshed.  Hence
same data ⇒ `changed` untouched, `checked = R`; different data ⇒ `changed = R`.
-/
namespace RedoModel.Deps
open RedoModel.Generated

/-- A script that only (optionally) runs `redo-ifchange` commands, writes its output and stamps it. -/
structure PlainStamped (sc : Script) : Prop where
  noalways : sc.always = false
  noifcreate : sc.ifcreate = []
  nocond : sc.cond = []
  nofail : sc.failIfOdd = none
  stamp : sc.stamp = 1
  exit0 : sc.exit = 0
  out : sc.outMode ≠ 2

/-- What the script prints, given the files of `w`. -/
def scriptOut (sc : Script) (w : World) : Content :=
  outContent sc.tag (sc.reads.map (fun f => (w.fs f).map (·.content)))

theorem scriptOut_congr (sc : Script) {w w' : World} (h : ∀ f ∈ sc.reads, w'.fs f = w.fs f) :
    scriptOut sc w' = scriptOut sc w := by
  unfold scriptOut
  congr 1
  apply List.map_congr_left
  intro f hf
  rw [h f hf]

theorem addKnown_recs_known (w : World) (f : Nat) (h : (w.recs f).row ≠ 0) : addKnown w f = w := by
  unfold addKnown
  simp [h]

theorem rsFinish_stamped (cx : Ctx) (m : Nat) (sc : Script) (w : World) (hp : PlainStamped sc)
    (hrow : (w.recs m).row ≠ 0) (h0 : (rsFinish cx m sc w).1 = 0) :
    rsFinish cx m sc w =
      (0, some (scriptOut sc w), setRec w m (stampRec (w.recs m) cx.runid (scriptOut sc w))) := by
  have hk : ¬ cx.crash = some (m, sc.ifchange.length + 1) := by
    intro hc
    revert h0
    unfold rsFinish rsFailNow
    simp [hp.nofail, hp.stamp, hc, CRASHED]
  unfold rsFinish rsFailNow scriptOut
  simp [hp.nofail, hp.stamp, hp.exit0, hp.out, addKnown_recs_known w m hrow, hk]

theorem stampRec_marked (r : Rec) (R : Nat) (data : Content) (hR : R ≠ 0) :
    (isCheckedR (stampRec r R data) R || isChangedR (stampRec r R data) R) = true := by
  unfold stampRec
  dsimp only
  split
  · simp [isChangedR, setChanged, hR]
  · simp [isCheckedR, hR]

theorem stampRec_gen (r : Rec) (R : Nat) (data : Content) :
    (stampRec r R data).isGenerated = true ∧ (stampRec r R data).isOverride = false ∧
    (stampRec r R data).failed = none ∧ (stampRec r R data).csum = some data := by
  unfold stampRec
  dsimp only
  split <;> simp_all [setChanged]

/-- `record_new_state` after a successful script that stamped its target: only the stamp is refreshed. -/
theorem recordNewState_stamped (cx : Ctx) (m : Nat) (sf : Rec) (c : Content) (w : World)
    (hmk : (isCheckedR (w.recs m) cx.runid || isChangedR (w.recs m) cx.runid) = true)
    (hg : (w.recs m).isGenerated = true) (ho : (w.recs m).isOverride = false) :
    (recordNewState cx m sf 0 (some c) w).1 = 0 ∧
    (recordNewState cx m sf 0 (some c) w).2.recs m =
      { (w.recs m) with stamp := some (readStamp (recordNewState cx m sf 0 (some c) w).2 m) } ∧
    (recordNewState cx m sf 0 (some c) w).2.fs m = some { content := c, ms := w.clock + 1, rest := 0 } := by
  have h1 : (isCheckedR { (w.recs m) with isGenerated := true, isOverride := false } cx.runid ||
      isChangedR { (w.recs m) with isGenerated := true, isOverride := false } cx.runid) = true := hmk
  unfold recordNewState
  simp only [if_true, newNode, setFile, zapDeps2, setRec, h1, readStamp]
  refine ⟨trivial, ?_⟩
  refine ⟨?_, trivial⟩
  rw [hg, ho]

/-- The nested commands of the engine leave the record of `m` and the files in `rd` alone. -/
def LeavesAlone (E : Engine) (m : Nat) (rd : List Nat) : Prop :=
  ∀ cx ts w, (E.ifchangeCmd cx ts w).2.recs m = w.recs m ∧ ∀ f ∈ rd, (E.ifchangeCmd cx ts w).2.fs f = w.fs f

theorem cmds_leaves (E : Engine) (m : Nat) (rd : List Nat) (hE : LeavesAlone E m rd) (cx : Ctx) (t : Nat) (cx' : Ctx) :
    ∀ (cs : List (List Nat)) (k : Nat) (w : World),
      (runScript.cmds E cx t cx' cs k w).2.recs m = w.recs m ∧
      ∀ f ∈ rd, (runScript.cmds E cx t cx' cs k w).2.fs f = w.fs f
  | [], k, w => by rw [runScript.cmds]; exact ⟨rfl, fun _ _ => rfl⟩
  | c :: cs, k, w => by
    rw [runScript.cmds]
    split
    · exact ⟨rfl, fun _ _ => rfl⟩
    · have h := hE cx' c w
      generalize E.ifchangeCmd cx' c w = r at h
      obtain ⟨rv, w1⟩ := r
      split
      · rename_i heq
        cases heq
        have h2 := cmds_leaves E m rd hE cx t cx' cs (k + 1) w1
        exact ⟨h2.1.trans h.1, fun f hf => (h2.2 f hf).trans (h.2 f hf)⟩
      · rename_i heq
        cases heq
        exact h

/-- Either the script runs no nested `redo-ifchange` at all, or the engine's commands leave `m`'s record and the
files the script reads alone. -/
def NestedLeave (E : Engine) (m : Nat) (sc : Script) : Prop := sc.ifchange = [] ∨ LeavesAlone E m sc.reads

theorem cmds_nestedLeave (E : Engine) (m : Nat) (sc : Script) (hE : NestedLeave E m sc) (cx : Ctx) (t : Nat) (cx' : Ctx)
    (w : World) :
    (runScript.cmds E cx t cx' sc.ifchange 0 w).2.recs m = w.recs m ∧
    ∀ f ∈ sc.reads, (runScript.cmds E cx t cx' sc.ifchange 0 w).2.fs f = w.fs f := by
  rcases hE with h | h
  · rw [h, runScript.cmds]; exact ⟨rfl, fun _ _ => rfl⟩
  · exact cmds_leaves E m sc.reads h cx t cx' sc.ifchange 0 w

/-- A plain stamped script that exits 0: its output, and the world it leaves. -/
theorem rsBody_stamped (E : Engine) (cx : Ctx) (m : Nat) (sc : Script) (w : World) (hp : PlainStamped sc)
    (hE : NestedLeave E m sc) (hrow : (w.recs m).row ≠ 0)
    (h0 : (rsBody E cx m sc w).1 = 0) :
    ∃ w2, w2.recs m = w.recs m ∧ (∀ f ∈ sc.reads, w2.fs f = w.fs f) ∧
      rsBody E cx m sc w =
        (0, some (scriptOut sc w), setRec w2 m (stampRec (w.recs m) cx.runid (scriptOut sc w))) := by
  unfold rsBody at h0 ⊢
  dsimp only at h0 ⊢
  rw [hp.nocond, runScript.conds] at h0 ⊢
  simp only [ne_eq, not_true_eq_false, if_false] at h0 ⊢
  have h2 := cmds_nestedLeave E m sc hE cx m
    { runid := cx.runid, parent := some m, cycles := m :: cx.cycles, keepGoing := cx.keepGoing, crash := cx.crash } w
  generalize runScript.cmds E cx m _ sc.ifchange 0 w = r2 at h2 h0
  obtain ⟨rv, w2⟩ := r2
  dsimp only at h2 h0 ⊢
  by_cases hrv : rv = 0
  · subst hrv
    simp only [not_true_eq_false, if_false]
    refine ⟨w2, h2.1, h2.2, ?_⟩
    simp only [not_true_eq_false, if_false] at h0
    rw [rsFinish_stamped cx m sc w2 hp (by rw [h2.1]; exact hrow) h0, h2.1, scriptOut_congr sc h2.2]
  · simp only [hrv, not_false_eq_true, if_true] at h0

theorem runScript_stamped (E : Engine) (d : Defects) (cx : Ctx) (m : Nat) (sc : Script) (w : World)
    (hp : PlainStamped sc) (hE : NestedLeave E m sc) (hrow : (w.recs m).row ≠ 0)
    (h0 : (runScript E d cx m sc w).1 = 0) :
    ∃ w2, w2.recs m = w.recs m ∧ (∀ f ∈ sc.reads, w2.fs f = w.fs f) ∧
      runScript E d cx m sc w =
        (0, some (scriptOut sc w), setRec w2 m (stampRec (w.recs m) cx.runid (scriptOut sc w))) := by
  have ha : rsAlways cx m sc w = w := by unfold rsAlways; simp [hp.noalways]
  rw [runScript_eq, ha, hp.noifcreate] at h0 ⊢
  simp only [List.any_nil, Bool.false_eq_true, if_false, List.foldl_nil] at h0 ⊢
  exact rsBody_stamped E cx m sc w hp hE hrow h0

theorem recordNewState_status_ne (cx : Ctx) (t : Nat) (sf : Rec) (rv : Status) (out : Option Content) (w : World)
    (h : rv ≠ 0) : (recordNewState cx t sf rv out w).1 = rv := by
  unfold recordNewState
  simp [h]

/-- Script + `record_new_state` for a plain stamped script: if the job's status is 0, the record of the target
is `stampRec` of the old record with the stamp refreshed. -/
theorem ssRun_stamped (E : Engine) (d : Defects) (cx : Ctx) (m : Nat) (sf : Rec) (sc : Script) (w : World)
    (hp : PlainStamped sc) (hE : NestedLeave E m sc) (hrow : (w.recs m).row ≠ 0) (hR : cx.runid ≠ 0)
    (h0 : (match runScript E d cx m sc w with
      | (rv, out, w') => if rv = CRASHED then (CRASHED, w') else recordNewState cx m sf rv out w').1 = 0) :
    (match runScript E d cx m sc w with
      | (rv, out, w') => if rv = CRASHED then (CRASHED, w') else recordNewState cx m sf rv out w').2.recs m =
      { stampRec (w.recs m) cx.runid (scriptOut sc w) with
        stamp := some (readStamp (match runScript E d cx m sc w with
          | (rv, out, w') => if rv = CRASHED then (CRASHED, w') else recordNewState cx m sf rv out w').2 m) } := by
  by_cases hz : (runScript E d cx m sc w).1 = 0
  · obtain ⟨w2, h1, h2, he⟩ := runScript_stamped E d cx m sc w hp hE hrow hz
    rw [he]
    have hc : ¬ ((0 : Status) = CRASHED) := by decide
    simp only [hc, if_false]
    have hs : (setRec w2 m (stampRec (w.recs m) cx.runid (scriptOut sc w))).recs m =
        stampRec (w.recs m) cx.runid (scriptOut sc w) := by simp [setRec]
    obtain ⟨g1, g2, _, _⟩ := stampRec_gen (w.recs m) cx.runid (scriptOut sc w)
    have key := recordNewState_stamped cx m sf (scriptOut sc w)
      (setRec w2 m (stampRec (w.recs m) cx.runid (scriptOut sc w)))
      (by rw [hs]; exact stampRec_marked _ _ _ hR) (by rw [hs]; exact g1) (by rw [hs]; exact g2)
    rw [key.2.1, hs]
  · exfalso
    generalize runScript E d cx m sc w = r at h0 hz
    obtain ⟨rv, out, w'⟩ := r
    dsimp only at h0 hz
    by_cases hc : rv = CRASHED
    · simp only [hc, if_true] at h0
      exact absurd h0 (by decide)
    · simp only [hc, if_false] at h0
      rw [recordNewState_status_ne _ _ _ _ _ _ hz] at h0
      exact hz h0

/-- The world in which the script of `m` starts when its first .do candidate `dof` exists. -/
def preScript (cx : Ctx) (m dof : Nat) (w : World) : World :=
  let w1 := addDep (zapDeps1 w m) m dof true
  ev (setRec w1 dof (setStatic w1 dof (w1.recs dof) cx.runid)) (.ran m)

theorem preScript_fs (cx : Ctx) (m dof : Nat) (w : World) : (preScript cx m dof w).fs = w.fs := by
  unfold preScript
  show (addDep (zapDeps1 w m) m dof true).fs = w.fs
  rw [addDep_fs]
  rfl

theorem preScript_progs (cx : Ctx) (m dof : Nat) (w : World) : (preScript cx m dof w).progs = w.progs := by
  unfold preScript
  show (addKnown (zapDeps1 w m) dof).progs = w.progs
  unfold addKnown
  split <;> rfl

theorem preScript_recs (cx : Ctx) (m dof : Nat) (w : World) (h : dof ≠ m) :
    (preScript cx m dof w).recs m = w.recs m := by
  unfold preScript
  show (setRec _ dof _).recs m = _
  simp only [setRec, Ne.symm h, if_false]
  show (addKnown (zapDeps1 w m) dof).recs m = w.recs m
  rw [addKnown_recs_ne _ _ _ (Ne.symm h)]
  rfl

theorem startSelf_first_do (E : Engine) (d : Defects) (cx : Ctx) (m : Nat) (sf0 : Rec) (w : World)
    (dof : Nat) (rest : List Nat) (n : FNode) (sc : Script)
    (hg : sf0.isGenerated = true) (ho : sf0.isOverride = false) (hst : sf0.stamp = some (readStamp w m))
    (hrules : w.rules m = dof :: rest) (hdo : w.fs dof = some n) (hprog : w.progs n.content = some sc) :
    startSelf E d cx m sf0 w =
      (match runScript E d cx m sc (preScript cx m dof w) with
       | (rv, out, w') => if rv = CRASHED then (CRASHED, w') else recordNewState cx m sf0 rv out w') := by
  rw [startSelf_eq]
  have hguard : ssGuard cx m sf0 w = (sf0, w) := by
    unfold ssGuard
    simp [hg, ho, hst, detectOverride]
  rw [hguard]
  simp only [ho, hg, Bool.not_true, Bool.or_self, Bool.and_false, Bool.false_eq_true, if_false]
  unfold ssBuild
  dsimp only
  have hr : (zapDeps1 w m).rules m = dof :: rest := hrules
  have hex : existsF (zapDeps1 w m) dof = true := by
    show (w.fs dof).isSome = true
    rw [hdo]; rfl
  rw [hr, findDoFile]
  simp only [hex, if_true]
  have hfs : (preScript cx m dof w).fs dof = some n := by rw [preScript_fs]; exact hdo
  have hpg : (preScript cx m dof w).progs n.content = some sc := by rw [preScript_progs]; exact hprog
  show (match runScript E d cx m (match (preScript cx m dof w).fs dof with
        | some n => ((preScript cx m dof w).progs n.content).getD {}
        | none => {}) (preScript cx m dof w) with
      | (rv, out, w') => if rv = CRASHED then (CRASHED, w') else recordNewState cx m sf0 rv out w') = _
  rw [hfs]
  dsimp only
  rw [hpg]
  rfl

/-- The setting of a rebuild of the checksummed target `m` by `start_self`: the job's copy `sf0` of the record
says "generated, file as recorded"; `m` is registered; the first .do candidate exists, is not `m` itself, and holds
the plain stamped script `sc`; nested commands of `E` do not touch `m`'s record nor the files `sc` reads. -/
structure StampedJob (E : Engine) (cx : Ctx) (m : Nat) (sf0 : Rec) (sc : Script) (w : World) : Prop where
  gen : sf0.isGenerated = true
  novr : sf0.isOverride = false
  stamp : sf0.stamp = some (readStamp w m)
  row : (w.recs m).row ≠ 0
  run : cx.runid ≠ 0
  plain : PlainStamped sc
  leaves : NestedLeave E m sc
  dofile : ∃ dof rest n, w.rules m = dof :: rest ∧ dof ≠ m ∧ w.fs dof = some n ∧ w.progs n.content = some sc

theorem startSelf_stamped (E : Engine) (d : Defects) (cx : Ctx) (m : Nat) (sf0 : Rec) (sc : Script) (w : World)
    (hj : StampedJob E cx m sf0 sc w) (h0 : (startSelf E d cx m sf0 w).1 = 0) :
    (startSelf E d cx m sf0 w).2.recs m =
      { stampRec (w.recs m) cx.runid (scriptOut sc w) with
        stamp := some (readStamp (startSelf E d cx m sf0 w).2 m) } := by
  obtain ⟨dof, rest, n, h1, h2, h3, h4⟩ := hj.dofile
  have he := startSelf_first_do E d cx m sf0 w dof rest n sc hj.gen hj.novr hj.stamp h1 h3 h4
  rw [he] at h0 ⊢
  have hrec := preScript_recs cx m dof w h2
  have hfs := preScript_fs cx m dof w
  have key := ssRun_stamped E d cx m sf0 sc (preScript cx m dof w) hj.plain hj.leaves
    (by rw [hrec]; exact hj.row) hj.run h0
  rw [key, hrec, scriptOut_congr sc (fun f _ => congrFun hfs f)]

/-- **Same checksum.**  The rebuild leaves `changed` alone and marks the target checked in this run. -/
theorem startSelf_same_checksum (E : Engine) (d : Defects) (cx : Ctx) (m : Nat) (sf0 : Rec) (sc : Script) (w : World)
    (hj : StampedJob E cx m sf0 sc w) (c0 : Content) (hcs : (w.recs m).csum = some c0)
    (hsame : scriptOut sc w = c0) (h0 : (startSelf E d cx m sf0 w).1 = 0) :
    ((startSelf E d cx m sf0 w).2.recs m).changed = (w.recs m).changed ∧
    ((startSelf E d cx m sf0 w).2.recs m).checked = some cx.runid ∧
    ((startSelf E d cx m sf0 w).2.recs m).csum = some c0 ∧
    ((startSelf E d cx m sf0 w).2.recs m).failed = none ∧
    ((startSelf E d cx m sf0 w).2.recs m).isGenerated = true ∧
    ((startSelf E d cx m sf0 w).2.recs m).isOverride = false ∧
    ((startSelf E d cx m sf0 w).2.recs m).stamp = some (readStamp (startSelf E d cx m sf0 w).2 m) := by
  rw [startSelf_stamped E d cx m sf0 sc w hj h0, hsame]
  simp [stampRec, hcs]

/-- **Changed checksum.**  The rebuild marks the target changed in this run and records the new checksum. -/
theorem startSelf_changed_checksum (E : Engine) (d : Defects) (cx : Ctx) (m : Nat) (sf0 : Rec) (sc : Script)
    (w : World) (hj : StampedJob E cx m sf0 sc w) (hdiff : (w.recs m).csum ≠ some (scriptOut sc w))
    (h0 : (startSelf E d cx m sf0 w).1 = 0) :
    ((startSelf E d cx m sf0 w).2.recs m).changed = some cx.runid ∧
    ((startSelf E d cx m sf0 w).2.recs m).csum = some (scriptOut sc w) ∧
    ((startSelf E d cx m sf0 w).2.recs m).failed = none ∧
    ((startSelf E d cx m sf0 w).2.recs m).isGenerated = true ∧
    ((startSelf E d cx m sf0 w).2.recs m).isOverride = false ∧
    ((startSelf E d cx m sf0 w).2.recs m).stamp = some (readStamp (startSelf E d cx m sf0 w).2 m) := by
  rw [startSelf_stamped E d cx m sf0 sc w hj h0]
  simp [stampRec, hdiff, setChanged]

theorem recordNewState_status_zero (cx : Ctx) (t : Nat) (sf : Rec) (out : Option Content) (w : World) :
    (recordNewState cx t sf 0 out w).1 = 0 := by
  unfold recordNewState
  simp

/-- A leaf script (no nested command) of a process tree that is not killed cannot fail. -/
theorem startSelf_stamped_leaf_status (E : Engine) (d : Defects) (cx : Ctx) (m : Nat) (sf0 : Rec) (sc : Script)
    (w : World) (hj : StampedJob E cx m sf0 sc w) (hleaf : sc.ifchange = []) (hcr : cx.crash = none) :
    (startSelf E d cx m sf0 w).1 = 0 := by
  obtain ⟨dof, rest, n, h1, h2, h3, h4⟩ := hj.dofile
  rw [startSelf_first_do E d cx m sf0 w dof rest n sc hj.gen hj.novr hj.stamp h1 h3 h4]
  have hp := hj.plain
  have hrow : ((preScript cx m dof w).recs m).row ≠ 0 := by rw [preScript_recs cx m dof w h2]; exact hj.row
  have ha : rsAlways cx m sc (preScript cx m dof w) = preScript cx m dof w := by unfold rsAlways; simp [hp.noalways]
  rw [runScript_eq, ha, hp.noifcreate]
  simp only [List.any_nil, Bool.false_eq_true, if_false, List.foldl_nil]
  unfold rsBody
  dsimp only
  simp only [hp.nocond, runScript.conds, hleaf, runScript.cmds, hcr, ne_eq, not_true_eq_false, if_false,
    reduceCtorEq]
  rw [rsFinish_stamped cx m sc _ hp hrow (by unfold rsFinish rsFailNow; simp [hp.nofail, hp.stamp, hp.exit0, hcr])]
  have hc : ¬ ((0 : Status) = CRASHED) := by decide
  simp only [hc, if_false]
  exact recordNewState_status_zero _ _ _ _ _

end RedoModel.Deps
