import RedoModel.Lemmas.DepsSoundK2
/-! Killed builds: the script of a target (`ssb_script` with the outcome "killed"). -/
namespace RedoModel.Deps
open RedoModel.Generated

theorem ssb_scriptK {rank R E t dof w2} {cx : Ctx} (hE : ESpecK rank R E) (hcx : cx.runid = R)
    (hS : SingleDo w2.rules) (hi2 : Inv rank R NoX w2) (hng2 : ¬ Good w2 R t)
    (hdm : dof ∈ w2.rules t) (hdex : existsF w2 dof = true) :
    Killed rank R w2 (runScript.cmds E cx t (childCx cx t)
        (scriptAt (ev (setRec w2 dof (setStatic w2 dof (w2.recs dof) R)) (.ran t)) dof).ifchange 0
        (ev (setRec w2 dof (setStatic w2 dof (w2.recs dof) R)) (.ran t))) ∨
    Ran rank R NoX t dof (scriptAt (ev (setRec w2 dof (setStatic w2 dof (w2.recs dof) R)) (.ran t)) dof) w2
      (runScript.cmds E cx t (childCx cx t)
        (scriptAt (ev (setRec w2 dof (setStatic w2 dof (w2.recs dof) R)) (.ran t)) dof).ifchange 0
        (ev (setRec w2 dof (setStatic w2 dof (w2.recs dof) R)) (.ran t))).2
      (runScript.cmds E cx t (childCx cx t)
        (scriptAt (ev (setRec w2 dof (setStatic w2 dof (w2.recs dof) R)) (.ran t)) dof).ifchange 0
        (ev (setRec w2 dof (setStatic w2 dof (w2.recs dof) R)) (.ran t))).1 := by
  have hdP : w2.rules dof = [] := (hi2.base.rulesOk.2 t dof hdm).1
  have hdlt : rank dof < rank t := hi2.base.ranked.1 t dof hdm
  obtain ⟨hi3, hg3, hb3, hn3⟩ := setStatic_spec (b := rank t) (po := some t) hi2 hdex
    (fun _ => hi2.base.srcNotGen dof hdP) hdlt
  have hd3 : (setRec w2 dof (setStatic w2 dof (w2.recs dof) R)).deps = w2.deps := rfl
  generalize setRec w2 dof (setStatic w2 dof (w2.recs dof) R) = w3 at hi3 hg3 hb3 hn3 hd3 ⊢
  have e4 := WEqv.ev w3 (.ran t)
  have hi4 := e4.inv hi3
  have hb4 : BExt rank R (rank t) (some t) w2 (ev w3 (.ran t)) := hb3.trans e4.toBExt
  have hng4 : ¬ Good (ev w3 (.ran t)) R t := fun h => hng2 (((hb4.sameT (Nat.le_refl _)).good R).1 h)
  have hdm4 : dof ∈ (ev w3 (.ran t)).rules t := by rw [hb4.rules]; exact hdm
  rcases cmdsK_spec (cx := cx) (cx' := childCx cx t) hE hcx rfl rfl rfl
    (scriptAt (ev w3 (.ran t)) dof).ifchange 0 (ev w3 (.ran t)) (by rw [hb4.rules]; exact hS) hi4 hng4
    (scriptAt_ranked hi4.base hdm4) with hk | ⟨a1, a2, a3, a4, a5, a6⟩
  · exact Or.inl (hk.from hb4.rc hb4.rules)
  right
  have hdeps : (ev w3 (.ran t)).deps = w2.deps := hd3
  have hdecl : RowsDecl t (scriptAt (ev w3 (.ran t)) dof).ifchange.flatten w2
      (runScript.cmds E cx t (childCx cx t) (scriptAt (ev w3 (.ran t)) dof).ifchange 0 (ev w3 (.ran t))).2 := by
    unfold RowsDecl HasRowU at a3 ⊢
    rw [hdeps] at a3; exact a3
  refine ⟨a1.weaken (fun x hx => Or.inl hx), hb4.trans a2, hdecl, a4, fun h hz => a5 ((hn3 h).eqv e4) hz, a6,
    a2.good ((e4.good R dof).2 hg3), ?_, scriptAt_plain hi4.base dof⟩
  exact scriptAt_congr (a2.plain dof (by rw [hb4.rules]; exact hdP)) a2.progs

end RedoModel.Deps
