import RedoModel.Lemmas.DepsSoundS6
/-! The cases of `isDirty`, then its specification. -/
namespace RedoModel.Deps.S

theorem isSome_false_iff {α} {o : Option α} : o.isSome = false ↔ o = none := by cases o <;> simp

theorem chk_checked {rank R w f r mx ch} (hi : Inv rank R X w) (hs : Snap w R f r) (hf : r.failed = none)
    (hch : r.changed = some ch) (hle : ¬ ch > mx) (hck : isCheckedR r R = true) :
    VerR w R f ∧ ¬ DetectM w mx f := by
  have hfail : (w.recs f).failed = none := by rw [← hs.failed]; exact hf
  have hcR : (w.recs f).checked = some R := by
    rcases hs.checked with h | h
    · unfold isCheckedR at hck
      cases hc : r.checked with
      | none => rw [hc] at hck; cases hck
      | some c =>
        rw [hc] at hck
        simp only [Bool.and_eq_true, bne_iff_ne, ne_eq, decide_eq_true_eq] at hck
        have := hs.ckLe c hc
        rw [← h, hc]; congr; omega
    · exact h
  have hv : VerR w R f := ⟨hfail, Or.inl hcR⟩
  have hrc := (hi.ver f hv).1
  have h0 := ne_always_of_stamp hi.base hfail (by rw [hrc.2.2]; simp)
  refine ⟨hv, ?_⟩
  rintro (h | h | ⟨c, h1, h2⟩ | h)
  · exact h hfail
  · exact hrc.2.1 h
  · rw [← hs.changed h0, hch] at h1; cases h1; exact hle h2
  · exact h hrc.2.2

theorem Snap.congr {w w' : World} {R f : Nat} {r : Rec} (h : w'.recs f = w.recs f) (hs : Snap w R f r) : Snap w' R f r := by
  obtain ⟨a1, a2, a3, a4, a5, a6, a7, a8, a9⟩ := hs
  exact ⟨by rw [h]; exact a1, by rw [h]; exact a2, by rw [h]; exact a3, by rw [h]; exact a4, by rw [h]; exact a5,
    by rw [h]; exact a6, fun h0 => by rw [h]; exact a7 h0, by rw [h]; exact a8, a9⟩

theorem isCheckedR_false_of {r : Rec} {R : Nat} (hle : ∀ c, r.checked = some c → c ≤ R) (hne : r.checked ≠ some R) :
    isCheckedR r R = false := by
  unfold isCheckedR
  cases hc : r.checked with
  | none => rfl
  | some c =>
    have := hle c hc
    simp only [Bool.and_eq_false_iff, bne_eq_false_iff_eq, decide_eq_false_iff_not]
    right; intro hge
    exact hne (by rw [hc]; congr; omega)

theorem DExt_vanished {rank R w f} (hi : Inv rank R X w) (hf : (w.recs f).failed = none)
    (hs : (w.recs f).stamp ≠ some (readStamp w f)) (hso : (w.recs f).stamp ≠ none) (hm : readStamp w f = .missing)
    (hgen : (w.recs f).isGenerated = true) :
    DExt rank R (rank f + 1) w (setRec w f { w.recs f with isGenerated := false, isOverride := false, failed := some 0 }) := by
  have hne : ∀ x, RecCur w x → x ≠ f := fun x hx e => hs (e ▸ hx.2.2)
  refine ⟨SameButRecs.setRec w f _, fun x hx => ?_, fun x hv => ?_, fun x hc hg => ?_, fun x => ?_, fun g r h2 => ?_⟩
  · have : x ≠ f := fun e => by subst e; omega
    exact setRec_recs_other _ _ _ this
  · have e := hne x (hi.ver x hv).1
    unfold VerR; rw [setRec_recs_other _ _ _ e]; exact ⟨hv, rfl⟩
  · have e := hne x hc
    unfold RecCur; rw [setRec_recs_other _ _ _ e]; exact ⟨hc, hg⟩
  · by_cases e : x = f
    · subst e; right; simp
    · left; rw [setRec_recs_other _ _ _ e]
  · by_cases e : g = f
    · subst e
      rcases h2 with h2 | h2
      · right
        have h0 := ne_always_of_stamp hi.base hf hso
        have hnR : (w.recs g).checked ≠ some R := fun h => hs (hi.ver g ⟨hf, Or.inl h⟩).1.2.2
        have hck : r.checked = (w.recs g).checked := h2.checked.resolve_right hnR
        have hr := h2.eq_of_checked h0 hck
        subst hr
        obtain ⟨old, ho⟩ := Option.ne_none_iff_exists'.1 hso
        refine ⟨hf, readStamp_missing.1 hm, ⟨old, ho, fun e => hs (by rw [ho, hm, e])⟩, hgen,
          isCheckedR_false_of (hi.base.ckLe g) hnR, by simp⟩
      · have := h2.recEq; rw [this] at hf; cases hf
    · rcases h2 with h2 | h2
      · exact Or.inl (h2.congr (setRec_recs_other _ _ _ e))
      · exact Or.inr ⟨h2.failed, h2.fs, h2.stamp, h2.gen, h2.nck, by rw [setRec_recs_other _ _ _ e]; exact h2.recEq⟩

theorem chk_vanished {rank R w f r old} (hi : Inv rank R X w) (hs : Snap w R f r) (hf : r.failed = none)
    (hst : r.stamp = some old) (hne : old ≠ readStamp w f) :
    Inv rank R X (if readStamp w f = .missing ∧ r.isGenerated = true then
        setRec w f { r with isGenerated := false, isOverride := false, failed := some 0 } else w) ∧
    DExt rank R (rank f + 1) w (if readStamp w f = .missing ∧ r.isGenerated = true then
        setRec w f { r with isGenerated := false, isOverride := false, failed := some 0 } else w) ∧
    OwnRel w (if readStamp w f = .missing ∧ r.isGenerated = true then
        setRec w f { r with isGenerated := false, isOverride := false, failed := some 0 } else w) f := by
  split
  · have hfail : (w.recs f).failed = none := by rw [← hs.failed]; exact hf
    have hstamp : (w.recs f).stamp ≠ some (readStamp w f) := by
      rw [← hs.stamp, hst]; intro h; exact hne (Option.some.inj h)
    have h0 := ne_always_of_stamp hi.base hfail (by rw [← hs.stamp, hst]; simp)
    have hck : r.checked = (w.recs f).checked := by
      rcases hs.checked with h | h
      · exact h
      · exact absurd (hi.ver f ⟨hfail, Or.inl h⟩).1.2.2 hstamp
    have hr := hs.eq_of_checked h0 hck
    subst hr
    rename_i hcond
    exact ⟨Inv_vanished hi hfail hstamp, DExt_vanished hi hfail hstamp (by rw [← hs.stamp, hst]; simp) hcond.1 (by rw [← hs.gen]; exact hcond.2),
      Or.inr ⟨by simp, readStamp_missing.1 hcond.1⟩⟩
  · exact ⟨hi, DExt.refl _ _ _ _, Or.inl rfl⟩

theorem CkExt.setChecked (rank : Nat → Nat) (R : Nat) (w : World) (f : Nat) (hf : (w.recs f).failed = none) :
    CkExt rank R (rank f + 1) w (setRec w f { w.recs f with checked := some R }) := by
  refine ⟨SameButRecs.setRec w f _, fun x => ?_⟩
  by_cases e : x = f
  · subst e; exact Or.inr ⟨Nat.lt_succ_self _, by simp, hf⟩
  · exact Or.inl (setRec_recs_other _ _ _ e)

theorem chk_mark {rank R w w' f r mx ch old} (hi : Inv rank R X w) (hi' : Inv rank R X w') (hx : ¬ X f)
    (hs : Snap w R f r)
    (hck : CkExt rank R (rank f) w w') (hf : r.failed = none) (hch : r.changed = some ch) (hle : ¬ ch > mx)
    (hst : r.stamp = some old) (heq : old = readStamp w f)
    (hall : ∀ p ∈ depsWithRecs w R r f,
      (p.1.modeM = true → VerR w' R p.1.source ∧ ¬ DetectM w' (max ch (r.checked.getD 0)) p.1.source) ∧
      (p.1.modeM = false → existsF w' p.1.source = false)) :
    Inv rank R X (setRec w' f { r with checked := some R }) ∧
    CkExt rank R (rank f + 1) w (setRec w' f { r with checked := some R }) ∧
    VerR (setRec w' f { r with checked := some R }) R f ∧ ¬ DetectM w mx f := by
  have hfail : (w.recs f).failed = none := by rw [← hs.failed]; exact hf
  have hstamp : (w.recs f).stamp = some (readStamp w f) := by rw [← hs.stamp, hst, heq]
  have h0 := ne_always_of_stamp hi.base hfail (by rw [hstamp]; simp)
  have hchg : (w.recs f).changed = some ch := by rw [← hs.changed h0]; exact hch
  have hsame : w'.recs f = w.recs f := hck.above (Nat.le_refl _)
  have hs' : Snap w' R f r := hs.ext hck
  rw [hs'.withChecked h0]
  have hrc : RecCur w' f := by
    refine ⟨by rw [hsame]; exact hfail, by rw [hsame, hchg]; simp, ?_⟩
    rw [hsame, hck.readStamp]; exact hstamp
  have hmx : max ch (r.checked.getD 0) ≤ Mof (w'.recs f) := by
    unfold Mof; rw [hsame, hchg]
    simp only [Option.getD_some]
    rcases hs.checked with h | h
    · rw [h]; exact Nat.le_refl _
    · rw [h]; simp only [Option.getD_some]
      have h1 : ch ≤ R := hi.base.chLe f ch hchg
      have h2 : r.checked.getD 0 ≤ R := by
        cases hc : r.checked with
        | none => simp
        | some c => simpa using hs.ckLe c hc
      omega
  have hrows : RowsClean w' R (max ch (r.checked.getD 0)) f := by
    intro hg d hd hdt
    rw [hsame] at hg
    have hm : d ∈ depsOf w r f :=
      mem_depsOf.2 ⟨⟨by rw [hs.ovr]; exact hi.base.noOvr f, by rw [hs.gen]; exact hg⟩, by rw [← hck.deps]; exact hd, hdt⟩
    exact hall (d, getRec w R d.source) (List.mem_map.2 ⟨d, hm, rfl⟩)
  refine ⟨Inv_setChecked hi' hx hrc hmx hrows, (hck.mono (Nat.le_succ _)).trans (CkExt.setChecked rank R w' f (by rw [hsame]; exact hfail)), ?_, ?_⟩
  · unfold VerR; simp only [setRec_recs_self]; exact ⟨by rw [hsame]; exact hfail, Or.inl trivial⟩
  · rintro (h | h | ⟨c, h1, h2⟩ | h)
    · exact h hfail
    · rw [hchg] at h; cases h
    · rw [hchg] at h1; cases h1; exact hle h2
    · exact h hstamp

theorem ChkPost.notClean {rank R mx f w dr w' c} (hi : Inv rank R X w') (hd : DExt rank R (rank f + 1) w w')
    (h1 : dr ≠ .clean) (hn : ∀ ts, dr = .need ts → NeedOk rank f (rank f) ts) (ho : OwnRel w w' f) :
    ChkPost rank X R mx f w (dr, w', c) :=
  ⟨hi, hd, hn, fun e => absurd e h1, fun _ => ho⟩

theorem setRec_self (w : World) (f : Nat) : setRec w f (w.recs f) = w := by
  unfold setRec
  have : (fun x => if x = f then w.recs f else w.recs x) = w.recs := by
    funext x; split
    · subst_vars; rfl
    · rfl
  rw [this]

/-- The check on a copy of the record taken before the file was found gone does nothing. -/
theorem isDirty_van {R w f r} (hv : Van w R f r) (fuel mx : Nat) (seen cache : List Nat) :
    VanPost f w (isDirty false R fuel w cache f mx seen (some r)) := by
  obtain ⟨hf, hfs, ⟨old, hst, hold⟩, hg, hnck, hrec⟩ := hv
  obtain ⟨row, gen, ovr, ck, chg, fl, st, cs⟩ := r
  dsimp only at hf hst hg hrec
  subst hf hst hg
  cases fuel with
  | zero => simp only [isDirty]; exact ⟨rfl, Or.inl rfl⟩
  | succ fuel =>
  rw [isDirty]
  by_cases hseen : f ∈ seen
  · simp only [hseen, if_true]; exact ⟨rfl, Or.inl rfl⟩
  simp only [hseen, if_false, Bool.false_eq_true, Option.getD_some, Option.isSome_none]
  cases chg with
  | none => exact ⟨rfl, Or.inr (Or.inl rfl)⟩
  | some ch =>
  dsimp only
  by_cases hgt : ch > mx
  · simp only [hgt, if_true]; exact ⟨rfl, Or.inr (Or.inl rfl)⟩
  simp only [hgt, if_false, hnck, Bool.false_eq_true]
  have hm : readStamp w f = .missing := readStamp_missing.2 hfs
  simp only [ne_eq, hm, hold, not_false_eq_true, if_true, and_self]
  rw [← hrec, setRec_self]
  refine ⟨rfl, ?_⟩
  dsimp only
  split
  · exact Or.inr (Or.inr rfl)
  · exact Or.inr (Or.inl rfl)

theorem isDirty_spec {rank R} : ∀ (fuel f mx : Nat) (seen : List Nat) (w : World) (cache : List Nat) (pre : Option Rec),
    Inv rank R X w → (∀ s, pre = some s → Snap w R f s) → (∀ x, X x → rank f < rank x) →
    ChkPost rank X R mx f w (isDirty false R fuel w cache f mx seen pre)
  | 0, f, mx, seen, w, cache, pre, hi, _, _ => by
    simp only [isDirty]
    exact ChkPost.notClean hi (DExt.refl _ _ _ _) (by intro e; cases e) (fun ts e => by cases e) (Or.inl rfl)
  | fuel + 1, f, mx, seen, w, cache, pre, hi, hpre, hXa => by
    have hs : Snap w R f (pre.getD (getRec w R f)) := by
      cases pre with
      | none => exact Snap.getRec hi.base f
      | some s => exact hpre s rfl
    rw [isDirty]
    by_cases hseen : f ∈ seen
    · simp only [hseen, if_true]
      exact ChkPost.notClean hi (DExt.refl _ _ _ _) (by intro e; cases e) (fun ts e => by cases e) (Or.inl rfl)
    simp only [hseen, if_false, Bool.false_eq_true]
    generalize pre.getD (getRec w R f) = r at hs
    have hdirty : ChkPost rank X R mx f w (DR.dirty, w, cache) :=
      ChkPost.notClean hi (DExt.refl _ _ _ _) (by intro e; cases e) (fun ts e => by cases e) (Or.inl rfl)
    obtain ⟨row, gen, ovr, ck, chg, fl, st, cs⟩ := r
    have hov : ovr = false := by have := hs.ovr; rw [hi.base.noOvr f] at this; exact this
    subst hov
    cases fl with
    | some x => simp only [Option.isSome_some, if_true]; exact hdirty
    | none =>
    simp only [Option.isSome_none, Bool.false_eq_true, if_false]
    cases chg with
    | none => exact hdirty
    | some ch =>
    dsimp only
    by_cases hgt : ch > mx
    · simp only [hgt, if_true]; exact hdirty
    simp only [hgt, if_false]
    split
    · rename_i hck
      obtain ⟨hv, hnd⟩ := chk_checked hi hs rfl rfl hgt hck
      exact ⟨hi, DExt.refl _ _ _ _, (fun ts e => by cases e), (fun _ => ⟨CkExt.refl _ _ _ _, hv, hnd⟩), fun h => absurd rfl h⟩
    rename_i hck
    cases st with
    | none => exact hdirty
    | some old =>
    dsimp only
    by_cases hne : old ≠ readStamp w f
    · simp only [hne, if_true, ne_eq, not_false_eq_true]
      obtain ⟨h1, h2, h3⟩ := chk_vanished hi hs rfl rfl hne
      refine ChkPost.notClean h1 h2 (by split <;> intro e <;> cases e) (fun ts e => ?_) h3
      split at e
      · cases e; exact Or.inl rfl
      · cases e
    have heq : old = readStamp w f := by simpa using hne
    simp only [hne, if_false, Bool.false_and, Bool.false_eq_true]
    have hg := goDeps_spec (rank := rank) (R := R) (mx := max ch (ck.getD 0))
      (fun w cache s snap => isDirty false R fuel w cache s (max ch (ck.getD 0)) (f :: seen) (some snap))
      (fun w1 c1 s snap hi1 hx1 => ⟨fun hs1 => isDirty_spec fuel s _ _ w1 c1 (some snap) hi1
        (fun s' e => by cases e; exact hs1) hx1, fun hv1 => isDirty_van hv1 _ _ _ _⟩)
      cs.isSome f (rank f) (fun x hx => Nat.le_of_lt (hXa x hx))
      (depsWithRecs w R { row := row, isGenerated := gen, checked := ck, changed := some ch, stamp := some old, csum := cs } f)
      w cache [] hi (by
        intro p hp
        obtain ⟨d, hd, rfl⟩ := List.mem_map.1 hp
        obtain ⟨_, hd1, hd2⟩ := mem_depsOf.1 hd
        exact ⟨Or.inl (Snap.getRec hi.base _), hd2 ▸ hi.base.rowsLt d hd1⟩) (by simp)
    generalize goDeps _ cs.isSome f _ w cache [] = res at hg ⊢
    obtain ⟨o, w', c'⟩ := res
    obtain ⟨hi', hdx, hnc, hnn, hr⟩ := hg
    dsimp only at hi' hdx hnc hnn hr
    cases o with
    | some dr =>
      exact ChkPost.notClean hi' (hdx.mono (Nat.le_succ _)) (fun e => hnc (by rw [e])) (fun ts e => hnn ts (by rw [e]))
        (Or.inl (hdx.above f (Nat.le_refl _)))
    | none =>
      obtain ⟨_, hckx, hall⟩ := hr rfl
      dsimp only
      obtain ⟨h1, h2, h3, h4⟩ := chk_mark hi hi' (fun h => Nat.lt_irrefl _ (hXa f h)) hs hckx rfl rfl hgt rfl heq hall
      exact ⟨h1, h2.toDExt, (fun ts e => by cases e), (fun _ => ⟨h2, h3, h4⟩), fun h => absurd rfl h⟩

end RedoModel.Deps.S
