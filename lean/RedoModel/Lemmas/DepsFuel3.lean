import RedoModel.Lemmas.DepsFuel2
/-!
# C12 — cycles are reported (part 3): a failing nested command fails every level above it
-/
namespace RedoModel.Deps
open RedoModel.Generated

/-! ### The step: nested failure ⇒ failure of the script, the job, the command -/

/-- `sh -e`: the first failing `redo-ifchange` is the script's status. -/
theorem cmds_head_nonzero (E : Engine) (cx : Ctx) (t : Nat) (cx' : Ctx) (c : List Nat) (cs : List (List Nat)) (k : Nat)
    (w : World) (h : (E.ifchangeCmd cx' c w).1 ≠ 0) : (runScript.cmds E cx t cx' (c :: cs) k w).1 ≠ 0 := by
  rw [runScript.cmds]
  split
  · simp [CRASHED]
  · generalize E.ifchangeCmd cx' c w = r at h
    obtain ⟨rv, w1⟩ := r
    split
    · rename_i heq
      cases heq
      exact absurd rfl h
    · rename_i heq
      cases heq
      exact h

/-- Any command of the script that fails in every world makes the command sequence fail. -/
theorem cmds_mem_nonzero (E : Engine) (cx : Ctx) (t : Nat) (cx' : Ctx) (c : List Nat)
    (h : ∀ w, (E.ifchangeCmd cx' c w).1 ≠ 0) :
    ∀ (cs : List (List Nat)) (k : Nat) (w : World), c ∈ cs → (runScript.cmds E cx t cx' cs k w).1 ≠ 0
  | [], _, _, hm => by cases hm
  | c0 :: cs, k, w, hm => by
    rw [runScript.cmds]
    split
    · simp [CRASHED]
    · have h0 := h w
      generalize hr : E.ifchangeCmd cx' c0 w = r
      obtain ⟨rv, w1⟩ := r
      split
      · rename_i heq
        cases heq
        rcases List.mem_cons.1 hm with e | e
        · subst e
          rw [hr] at h0
          exact absurd rfl h0
        · exact cmds_mem_nonzero E cx t cx' c h cs _ _ e
      · rename_i hne heq
        cases heq
        intro h1
        dsimp only at h1
        subst h1
        exact hne rfl

/-- The context a script's commands run in. -/
def scriptCtx (cx : Ctx) (t : Nat) : Ctx :=
  { runid := cx.runid, parent := some t, cycles := t :: cx.cycles, keepGoing := cx.keepGoing, crash := cx.crash }

theorem rsBody_nonzero (E : Engine) (cx : Ctx) (t : Nat) (sc : Script) (w : World)
    (h : ∀ w1, (runScript.conds E t (scriptCtx cx t) sc.cond w).2 = w1 →
      (runScript.cmds E cx t (scriptCtx cx t) sc.ifchange 0 w1).1 ≠ 0) :
    (rsBody E cx t sc w).1 ≠ 0 := by
  unfold rsBody
  dsimp only
  have h' := h _ rfl
  split
  · assumption
  · split
    · assumption
    · rename_i hn
      exact absurd h' hn

/-- The script fails if its `redo-ifchange` sequence fails (from whatever world the declarations
before it leave). -/
theorem runScript_nonzero (E : Engine) (d : Defects) (cx : Ctx) (t : Nat) (sc : Script) (w : World)
    (h : ∀ w1, (runScript.cmds E cx t (scriptCtx cx t) sc.ifchange 0 w1).1 ≠ 0) :
    (runScript E d cx t sc w).1 ≠ 0 := by
  rw [runScript_eq]
  split
  · simp
  · exact rsBody_nonzero E cx t sc _ (fun w1 _ => h w1)

theorem recordNewState_nonzero (cx : Ctx) (t : Nat) (sf : Rec) (rv : Status) (out : Option Content) (w : World)
    (hrv : rv ≠ 0) : (recordNewState cx t sf rv out w).1 ≠ 0 := by
  rw [(C05.failure_recorded cx t sf rv out w hrv).1]
  exact hrv


/-- The script fails if its `redo-ifchange` sequence fails in the world the declarations before it leave. -/
theorem runScript_nonzero' (E : Engine) (d : Defects) (cx : Ctx) (t : Nat) (sc : Script) (w : World)
    (h : (runScript.cmds E cx t (scriptCtx cx t) sc.ifchange 0
      (runScript.conds E t (scriptCtx cx t) sc.cond
        (sc.ifcreate.foldl (fun w f => addDep w t f false) (rsAlways cx t sc w))).2).1 ≠ 0) :
    (runScript E d cx t sc w).1 ≠ 0 := by
  rw [runScript_eq]
  split
  · simp
  · exact rsBody_nonzero E cx t sc _ (fun w1 e => e ▸ h)

/-- The script a .do file stands for. -/
def doScript (w : World) (dof : Nat) : Script :=
  match w.fs dof with
  | some n => (w.progs n.content).getD {}
  | none => {}

/-- The world in which the script of `t` starts, once its .do file `dof` is chosen. -/
def ssPre (cx : Ctx) (t dof : Nat) (w1 : World) : World :=
  ev (setRec w1 dof (setStatic w1 dof (w1.recs dof) cx.runid)) (.ran t)

/-- A job whose script fails is a failed job. -/
theorem ssBuild_nonzero (E : Engine) (d : Defects) (cx : Ctx) (t : Nat) (sf : Rec) (w : World) (dof : Nat) (w1 : World)
    (hf : findDoFile t ((zapDeps1 w t).rules t) (zapDeps1 w t) = (some dof, w1))
    (hs : (runScript E d cx t (doScript (ssPre cx t dof w1) dof) (ssPre cx t dof w1)).1 ≠ 0) :
    (ssBuild E d cx t sf w).1 ≠ 0 := by
  unfold ssBuild
  dsimp only
  rw [hf]
  dsimp only
  change (runScript E d cx t _ (ev (setRec w1 dof (setStatic w1 dof (w1.recs dof) cx.runid)) (.ran t))).1 ≠ 0 at hs
  unfold doScript ssPre at hs
  generalize runScript E d cx t _ _ = r at hs ⊢
  obtain ⟨rv, out, w4⟩ := r
  dsimp only at hs ⊢
  split
  · simp [CRASHED]
  · exact recordNewState_nonzero cx t sf rv out w4 hs

theorem startSelf_missing (E : Engine) (d : Defects) (cx : Ctx) (t : Nat) (sf0 : Rec) (w : World) (hm : w.fs t = none) :
    startSelf E d cx t sf0 w = ssBuild E d cx t sf0 w := by
  rw [startSelf_eq]
  have hr : readStamp w t = .missing := by simp [readStamp, hm]
  have hex : existsF w t = false := by simp [existsF, hm]
  simp [ssGuard, hr, hex]

/-- A target that has never been built, or whose last build failed, is not up to date: the check says
`dirty`, or refuses because the target already failed in this very run. -/
theorem shouldBuild_ds (cx : Ctx) (fuel t : Nat) (w : World) (h0 : t ≠ alwaysId)
    (hds : (w.recs t).failed.isSome = true ∨ (w.recs t).changed = none) (hfuel : 0 < fuel) :
    shouldBuild cx fuel t w = (some .dirty, w) ∨ shouldBuild cx fuel t w = (none, w) := by
  obtain ⟨n, rfl⟩ : ∃ n, fuel = n + 1 := ⟨fuel - 1, by omega⟩
  have hg : getRec w cx.runid t = w.recs t := by simp [getRec, h0]
  unfold shouldBuild
  split
  · exact Or.inl rfl
  · dsimp only
    split
    · exact Or.inr rfl
    · left
      rcases hds with hf | hc
      · simp (config := { zeta := true, zetaHave := true }) only [isDirty, hg, hf, Option.getD_none,
          if_true, List.not_mem_nil, if_false]
      · by_cases hf : (w.recs t).failed.isSome = true
        · simp (config := { zeta := true, zetaHave := true }) only [isDirty, hg, hf, Option.getD_none,
            if_true, List.not_mem_nil, if_false]
        · simp (config := { zeta := true, zetaHave := true }) only [isDirty, hg, hf, hc, Option.getD_none,
            Bool.false_eq_true, if_false, List.not_mem_nil]

/-! ### What stays put on the way down a chain of forced targets -/

/-- Files, programs and rules are the same, and the records of missing files keep `changed`/`failed`. -/
def Desc (w w' : World) : Prop :=
  w'.fs = w.fs ∧ w'.progs = w.progs ∧ w'.rules = w.rules ∧
  ∀ t, t ≠ alwaysId → w.fs t = none →
    (w'.recs t).changed = (w.recs t).changed ∧ (w'.recs t).failed = (w.recs t).failed

theorem Desc.refl (w : World) : Desc w w := ⟨rfl, rfl, rfl, fun _ _ _ => ⟨rfl, rfl⟩⟩

theorem Desc.trans {a b c : World} (h1 : Desc a b) (h2 : Desc b c) : Desc a c := by
  obtain ⟨a1, a2, a3, a4⟩ := h1
  obtain ⟨b1, b2, b3, b4⟩ := h2
  refine ⟨b1.trans a1, b2.trans a2, b3.trans a3, fun t h0 hm => ?_⟩
  have hb := b4 t h0 (by rw [a1]; exact hm)
  have ha := a4 t h0 hm
  exact ⟨hb.1.trans ha.1, hb.2.trans ha.2⟩

theorem Desc.addKnown (w : World) (f : Nat) : Desc w (addKnown w f) := by
  unfold RedoModel.Deps.addKnown
  split
  · exact Desc.refl w
  · refine ⟨rfl, rfl, rfl, fun t _ _ => ?_⟩
    simp only [setRec]
    split
    · subst_vars; exact ⟨rfl, rfl⟩
    · exact ⟨rfl, rfl⟩

theorem Desc.addDep (w : World) (t s : Nat) (m : Bool) : Desc w (addDep w t s m) := by
  obtain ⟨a1, a2, a3, a4⟩ := Desc.addKnown w s
  exact ⟨a1, a2, a3, a4⟩

theorem Desc.foldl_addDep (t : Nat) (m : Bool) : ∀ (l : List Nat) (w : World),
    Desc w (l.foldl (fun w f => RedoModel.Deps.addDep w t f m) w)
  | [], w => Desc.refl w
  | f :: l, w => (Desc.addDep w t f m).trans (Desc.foldl_addDep t m l _)

theorem Desc.foldl_addDep' (p : Nat) (m : Bool) : ∀ (l : List Nat) (w : World),
    Desc w (l.foldl (fun w t => RedoModel.Deps.addDep w p t m) w) := Desc.foldl_addDep p m

theorem Desc.zapDeps1 (w : World) (t : Nat) : Desc w (zapDeps1 w t) := ⟨rfl, rfl, rfl, fun _ _ _ => ⟨rfl, rfl⟩⟩

theorem Desc.ev (w : World) (e : Ev) : Desc w (ev w e) := ⟨rfl, rfl, rfl, fun _ _ _ => ⟨rfl, rfl⟩⟩

theorem Desc.setRec (w : World) (f : Nat) (r : Rec) (h : f = alwaysId ∨ w.fs f ≠ none) : Desc w (setRec w f r) := by
  refine ⟨rfl, rfl, rfl, fun t h0 hm => ?_⟩
  simp only [RedoModel.Deps.setRec]
  split
  · subst_vars
    rcases h with e | e
    · exact absurd e h0
    · exact absurd hm e
  · exact ⟨rfl, rfl⟩

theorem Desc.existsF {w w' : World} (h : Desc w w') : existsF w' = existsF w := by
  funext f
  simp [RedoModel.Deps.existsF, h.1]

theorem findDoFile_spec (t : Nat) : ∀ (cs : List Nat) (w : World),
    (findDoFile t cs w).1 = cs.find? (existsF w) ∧ Desc w (findDoFile t cs w).2
  | [], w => by simp [findDoFile, Desc.refl]
  | c :: cs, w => by
    rw [findDoFile]
    by_cases hex : existsF w c = true
    · simp only [hex, if_true, List.find?_cons_of_pos]
      exact ⟨trivial, Desc.addDep w t c true⟩
    · simp only [hex, Bool.false_eq_true, if_false]
      have ih := findDoFile_spec t cs (addDep w t c false)
      have hd := Desc.addDep w t c false
      rw [hd.existsF] at ih
      refine ⟨?_, hd.trans ih.2⟩
      rw [ih.1, List.find?_cons_of_neg hex]

theorem conds_missing (E : Engine) (t : Nat) (cx' : Ctx) : ∀ (fs : List Nat) (w : World), (∀ f ∈ fs, w.fs f = none) →
    runScript.conds E t cx' fs w = (0, fs.foldl (fun w f => addDep w t f false) w)
  | [], w, _ => by rw [runScript.conds]; rfl
  | f :: fs, w, h => by
    rw [runScript.conds]
    have hex : existsF w f = false := by simp [existsF, h f (by simp)]
    simp only [hex, Bool.false_eq_true, if_false, List.foldl_cons]
    apply conds_missing E t cx' fs
    intro g hg
    have := (Desc.addDep w t f false).1
    rw [this]
    exact h g (by simp [hg])

theorem rsAlways_desc (cx : Ctx) (t : Nat) (sc : Script) (w : World) : Desc w (rsAlways cx t sc w) := by
  unfold rsAlways
  split
  · exact (Desc.addDep w t alwaysId true).trans (Desc.setRec _ _ _ (Or.inl rfl))
  · exact Desc.refl w

end RedoModel.Deps
