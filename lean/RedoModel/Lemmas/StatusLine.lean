import RedoModel.StatusLine
/-!
Helper lemmas for `RedoModel/StatusLine.lean`: byte lengths of concatenations, the cut at a character boundary, and
the loop invariant of `tailLoop` (the status never grows past the terminal width when there is room for `... `).
-/
namespace RedoModel.StatusLine

@[simp] theorem blen_nil : blen [] = 0 := rfl

@[simp] theorem blen_cons (c : Char) (cs : List Char) : blen (c :: cs) = c.utf8Size + blen cs := rfl

@[simp] theorem blen_append (a b : List Char) : blen (a ++ b) = blen a + blen b := by
  induction a with
  | nil => simp
  | cons c cs ih => simp [ih, Nat.add_assoc]

@[simp] theorem utf8Size_space : (' ' : Char).utf8Size = 1 := by decide

@[simp] theorem utf8Size_dot : ('.' : Char).utf8Size = 1 := by decide

@[simp] theorem blen_dots : blen dots = 3 := by decide

theorem dropBytes_nil (k : Nat) : dropBytes k [] = [] := rfl

theorem dropBytes_cons (k : Nat) (c : Char) (cs : List Char) :
    dropBytes k (c :: cs) = if k = 0 then c :: cs else dropBytes (k - c.utf8Size) cs := rfl

theorem dropBytes_zero (s : List Char) : dropBytes 0 s = s := by
  cases s <;> simp [dropBytes]

theorem dropBytes_suffix (k : Nat) (s : List Char) : dropBytes k s <:+ s := by
  induction s generalizing k with
  | nil => exact List.suffix_refl _
  | cons c cs ih =>
    rw [dropBytes_cons]
    split
    · exact List.suffix_refl _
    · exact List.IsSuffix.trans (ih _) (List.suffix_cons c cs)

theorem dropBytes_blen (k : Nat) (s : List Char) (h : k ≤ blen s) : blen (dropBytes k s) + k ≤ blen s := by
  induction s generalizing k with
  | nil => simp [dropBytes_nil] at *; exact h
  | cons c cs ih =>
    rw [dropBytes_cons]
    split
    · omega
    · rw [blen_cons] at *
      have := ih (k - c.utf8Size) (by omega)
      omega

/-- What `dropBytes` drops is a prefix `p` of whole characters, of at least `k` bytes when the string has that many, and
no longer than needed: without its last character `p` has fewer than `k` bytes (the cut is at the FIRST character
boundary at or after byte `k`). -/
theorem dropBytes_split (k : Nat) (s : List Char) :
    ∃ p, s = p ++ dropBytes k s ∧ (k ≤ blen s → k ≤ blen p) ∧ ∀ q c, p = q ++ [c] → blen q < k := by
  induction s generalizing k with
  | nil => exact ⟨[], rfl, fun h => by simpa using h, fun q c h => by simp at h⟩
  | cons c cs ih =>
    rw [dropBytes_cons]
    split
    · exact ⟨[], rfl, fun _ => by omega, fun q c h => by simp at h⟩
    · obtain ⟨p, hp, hk, hm⟩ := ih (k - c.utf8Size)
      refine ⟨c :: p, by rw [List.cons_append, ← hp], fun h => ?_, fun q d hq => ?_⟩
      · rw [blen_cons] at *
        have := hk (by omega)
        omega
      · cases q with
        | nil => simp only [blen_nil]; omega
        | cons e q' =>
          simp only [List.cons_append, List.cons.injEq] at hq
          obtain ⟨rfl, hq⟩ := hq
          have := hm q' d hq
          rw [blen_cons]; omega

/-- Loop invariant of `tailLoop`: with room for a final `... `, head and tail together stay within `width` bytes. -/
theorem tailLoop_fits (width hlen : Nat) (names : List (List Char)) (tail : List Char)
    (h : hlen + blen tail + 4 ≤ width) : hlen + blen (tailLoop width hlen names tail) ≤ width := by
  induction names generalizing tail with
  | nil => simp only [tailLoop]; omega
  | cons n ns ih =>
    simp only [tailLoop]
    split
    · rename_i hc
      split
      · simp only [blen_append, blen_cons, blen_dots, utf8Size_space]; omega
      · rename_i hd
        simp only [Bool.or_eq_true, decide_eq_true_eq, not_or, Nat.not_lt] at hc hd
        have hk := dropBytes_blen (blen n - (width - (hlen + blen tail) - 3 - 1)) n (by omega)
        simp only [blen_append, blen_cons, blen_dots, utf8Size_space]
        omega
    · rename_i hc
      simp only [Bool.or_eq_true, decide_eq_true_eq, not_or, Nat.not_lt, Nat.not_le] at hc
      split
      · apply ih
        simp only [blen_append, blen_cons, utf8Size_space]
        omega
      · exact ih tail h

theorem shown_length (width : Nat) (s : List Char) : (shown width s).length = width := by
  simp only [shown, List.length_append, List.length_replicate, List.length_take]
  omega

end RedoModel.StatusLine
