import RedoModel.Deps
/-!
# Kernel evaluation of concrete histories of the `Deps` model

`depsOf` orders the dependency rows with `List.mergeSort`, whose helper `List.merge` is defined by well-founded
recursion on a pair: the kernel cannot unfold it, so `decide` gets stuck on every concrete history in which a
dirtiness check walks recorded dependencies.  This file gives a copy of the part of the engine that sits above
`depsOf`, parameterised by the sorting function (`…P`); with `msort` it *is* the model (`applyOpP_msort`, by `rfl`),
and `msort = isort` (a stable insertion sort by structural recursion, `msort_eq_isort`).  Hence
`applyOp = applyOpP isort` (`applyOp_eq`, `runCmd_eq`), and the right-hand side is evaluated by the kernel.
Everything below `depsOf` (`goDeps`, `startSelf`, `runScript`, `recordNewState`, …) is the model's own code.
-/
namespace RedoModel.Deps.KEval
open RedoModel.Generated

abbrev Sorter := (Dep → Nat) → List Dep → List Dep

def msort : Sorter := fun key l => l.mergeSort (fun a b => key a ≤ key b)

/-- Insert before the first element whose key is not smaller. -/
def ins (key : Dep → Nat) (a : Dep) : List Dep → List Dep
  | [] => [a]
  | b :: bs => if key a ≤ key b then a :: b :: bs else b :: ins key a bs

def isort : Sorter := fun key l => l.foldr (ins key) []

theorem ins_append (key : Dep → Nat) (a : Dep) (l₂ : List Dep) (h2 : ∀ b ∈ l₂, key a ≤ key b) :
    ∀ l₁ : List Dep, (∀ b ∈ l₁, key b < key a) → ins key a (l₁ ++ l₂) = l₁ ++ a :: l₂
  | [], _ => by
    cases l₂ with
    | nil => rfl
    | cons b bs => simp [ins, h2 b (by simp)]
  | c :: l₁, h1 => by
    have hc : ¬ key a ≤ key c := by have := h1 c (by simp); omega
    simp only [List.cons_append, ins, hc, if_false]
    rw [ins_append key a l₂ h2 l₁ (fun b hb => h1 b (by simp [hb]))]

theorem msort_eq_isort (key : Dep → Nat) : ∀ l : List Dep, msort key l = isort key l
  | [] => by simp [msort, isort]
  | a :: l => by
    have ih := msort_eq_isort key l
    have htrans : ∀ (a b c : Dep), decide (key a ≤ key b) = true → decide (key b ≤ key c) = true →
        decide (key a ≤ key c) = true := by
      intro a b c h1 h2; simp only [decide_eq_true_eq] at *; omega
    have htotal : ∀ (a b : Dep), (decide (key a ≤ key b) || decide (key b ≤ key a)) = true := by
      intro a b; simp only [Bool.or_eq_true, decide_eq_true_eq]; omega
    obtain ⟨l₁, l₂, e1, e2, h1⟩ := List.mergeSort_cons (le := fun a b => decide (key a ≤ key b)) htrans htotal a l
    have hs := List.pairwise_mergeSort (le := fun a b => decide (key a ≤ key b)) htrans htotal (a :: l)
    rw [e1] at hs
    have h2 : ∀ b ∈ l₂, key a ≤ key b := by
      intro b hb
      have := (List.pairwise_append.1 hs).2.1
      have := (List.pairwise_cons.1 this).1 b hb
      simpa using this
    have h1' : ∀ b ∈ l₁, key b < key a := by
      intro b hb
      have := h1 b hb
      simp only [Bool.not_eq_true', decide_eq_false_iff_not] at this
      omega
    show (a :: l).mergeSort (fun a b => decide (key a ≤ key b)) = ins key a (isort key l)
    rw [e1, ← ih]
    show _ = ins key a (l.mergeSort (fun a b => decide (key a ≤ key b)))
    rw [e2, ins_append key a l₂ h2 l₁ h1']

theorem msort_eq : msort = isort := by funext key l; exact msort_eq_isort key l

/-! ### The engine above `depsOf`, with the sorting function as a parameter (verbatim copies otherwise) -/

def depsOfP (S : Sorter) (w : World) (r : Rec) (f : Nat) : List Dep :=
  if r.isOverride || !r.isGenerated then []
  else S (fun d => (w.recs d.source).row) (w.deps.filter (fun d => d.target = f))

def depsWithRecsP (S : Sorter) (w : World) (R : Nat) (r : Rec) (f : Nat) : List (Dep × Rec) :=
  (depsOfP S w r f).map (fun d => (d, getRec w R d.source))

def isDirtyP (S : Sorter) (ood : Bool) (R : Nat) : Nat → World → List Nat → Nat → Nat → List Nat → Option Rec → DR × World × List Nat
  | 0, w, cache, _, _, _, _ => (.cyclic, w, cache)
  | fuel + 1, w, cache, f, mx, seen, pre =>
    if f ∈ seen then (.cyclic, w, cache) else
    let r := pre.getD (getRec w R f)
    if r.failed.isSome then (.dirty, w, cache) else
    match r.changed with
    | none => (.dirty, w, cache)
    | some ch =>
      if ch > mx then (.dirty, w, cache) else
      if (if ood then decide (f ∈ cache) else isCheckedR r R) then (.clean, w, cache) else
      match r.stamp with
      | none => (.dirty, w, cache)
      | some old =>
        let new := readStamp w f
        if old ≠ new then
          let w := if new = .missing ∧ r.isGenerated then
              setRec w f { r with isGenerated := false, isOverride := false, failed := some 0 } else w
          (if r.csum.isSome then .need [f] else .dirty, w, cache)
        else
          let mx' := max ch (r.checked.getD 0)
          match goDeps (fun w cache s snap => isDirtyP S ood R fuel w cache s mx' (f :: seen) (some snap)) r.csum.isSome f
              (depsWithRecsP S w R r f) w cache [] with
          | (some dr, w, cache) => (dr, w, cache)
          | (none, w, cache) =>
            let w := if r.isOverride && !ood then ev w (.warnOverride f) else w
            if ood then (.clean, w, f :: cache)
            else (.clean, setRec w f { r with checked := some R }, cache)

def shouldBuildP (S : Sorter) (cx : Ctx) (fuel : Nat) (t : Nat) (w : World) : Option DR × World :=
  if cx.isRedo then (some .dirty, w) else
  let r := getRec w cx.runid t
  if isFailedR r cx.runid then (none, w)
  else
    let (dr, w, _) := isDirtyP S false cx.runid fuel w [] t cx.runid [] none
    let dr := match dr with
      | .need [x] => if x = t then DR.dirty else dr
      | x => x
    (some dr, w)

def buildJobP (S : Sorter) (E : Engine) (d : Defects) (cx : Ctx) (fuel : Nat) (t : Nat) (w : World) : JobResult × World :=
  let sf0 := w.recs t
  match shouldBuildP S cx fuel t w with
  | (none, w) =>
    (if d.failedTargetAbortsRun then .abort EXIT_TARGET_FAILED else .done EXIT_TARGET_FAILED, w)
  | (some .cyclic, w) => (.abort EXIT_CYCLIC_DEPENDENCY, w)
  | (some .clean, w) => (.done 0, w)
  | (some .dirty, w) => let (rv, w) := startSelf E d cx t sf0 w; (.done rv, w)
  | (some (.need ts), w) =>
    if cx.noOob then let (rv, w) := startSelf E d cx t sf0 w; (.done rv, w)
    else
      let ts := if w.oobRev then ts.eraseDups.reverse else ts.eraseDups
      match E.ifchangeCmd { cx with noOob := true, unlocked := false, isRedo := false, cycles := t :: cx.cycles,
                                    parent := if d.oobRecordsDepsOnCaller then cx.parent else none } ts w with
      | (0, w) =>
        let second := if d.oobRebuildsDepsNotTarget then ts else [t]
        let (rv, w) := E.ifchangeCmd { cx with noOob := true, unlocked := true, isRedo := false } second w
        (.done rv, w)
      | (rv, w) => (.done rv, w)

def runTargetsP (S : Sorter) (E : Engine) (d : Defects) (cx : Ctx) (fuel : Nat) :
    List Nat → List Nat → Bool → World → Status × World
  | [], _, errored, w => (if errored then 1 else 0, w)
  | t :: ts, seen, errored, w =>
    if t ∈ seen then runTargetsP S E d cx fuel ts seen errored w else
    if errored && !cx.keepGoing then (1, w) else
    let w := addKnown w t
    if !cx.unlocked && t ∈ cx.cycles then (EXIT_CYCLIC_DEPENDENCY, w) else
    match buildJobP S E d cx fuel t w with
    | (.abort code, w) => (code, w)
    | (.done rv, w) =>
      if rv = CRASHED then (CRASHED, w)
      else runTargetsP S E d cx fuel ts (t :: seen) (errored || rv ≠ 0) w

def ifchangeWithP (S : Sorter) (E : Engine) (d : Defects) (fuel : Nat) (cx : Ctx) (ts : List Nat) (w : World) : Status × World :=
  if (match cx.parent with
      | some p => !cx.unlocked && ts.contains p
      | none => false) then (EXIT_CYCLIC_DEPENDENCY, w) else
  let w := match cx.parent with
    | some p => if cx.unlocked then w else
        let w := addKnown w p
        ts.foldl (fun w t => addDep w p t true) w
    | none => w
  runTargetsP S E d cx fuel ts [] false w

def engineP (S : Sorter) (d : Defects) : Nat → Engine
  | 0 => { ifchangeCmd := fun _ _ w => (EXIT_FAILURE, w) }
  | n + 1 => { ifchangeCmd := fun cx ts w => ifchangeWithP S (engineP S d n) d (n + 1) cx ts w }

def runCmdP (S : Sorter) (d : Defects) (nfiles : Nat) (c : Cmd) (w : World) : Result × World :=
  let (R, w) := allocRun w
  let fuel := 2 * nfiles + 4
  match c with
  | .redo ts kg =>
    let cx : Ctx := { runid := R, keepGoing := kg, isRedo := true }
    let (rv, w) := runTargetsP S (engineP S d fuel) d cx fuel ts [] false w
    ({ status := rv }, w)
  | .ifchange ts kg =>
    let cx : Ctx := { runid := R, keepGoing := kg }
    let (rv, w) := runTargetsP S (engineP S d fuel) d cx fuel ts [] false w
    ({ status := rv }, w)
  | .ood =>
    let tgts := (knownFiles w nfiles).filter (isTarget w R)
    let rec go : List Nat → World → List Nat → List Nat → List Nat × World
      | [], w, _, acc => (acc.reverse, w)
      | f :: fs, w, cache, acc =>
        let (dr, w, cache) := isDirtyP S true R fuel w cache f R [] none
        go fs w cache (if dr = .clean then acc else f :: acc)
    let (l, w') := go tgts w [] []
    ({ status := 0, listing := l }, { w' with recs := w.recs, deps := w.deps, trace := w'.trace })
  | .targets => ({ status := 0, listing := (knownFiles w nfiles).filter (isTarget w R) }, w)
  | .sources => ({ status := 0, listing := (knownFiles w nfiles).filter (isSource w R) }, w)

def applyOpP (S : Sorter) (d : Defects) (nfiles : Nat) (op : UserOp) (w : World) : Option Result × World :=
  match op with
  | .write f v => let (n, w) := newNode w (srcContent v); (none, setFile w f (some n))
  | .remove f => (none, setFile w f none)
  | .chmod f => (none, match w.fs f with
      | some n => setFile w f (some { n with rest := n.rest + 1 })
      | none => w)
  | .hide f => (none, match w.fs f with
      | some n => { setFile w f none with stash := fun x => if x = f then some n else w.stash x }
      | none => w)
  | .unhide f => (none, match w.stash f with
      | some n => { setFile w f (some n) with stash := fun x => if x = f then none else w.stash x }
      | none => w)
  | .setProg c s => (none, { w with progs := fun x => if x = c then some s else w.progs x })
  | .cmd c => let (r, w) := runCmdP S d nfiles c w; (some r, w)
  | .crashCmd ts t k =>
    let (R, w) := allocRun w
    let fuel := 2 * nfiles + 4
    let cx : Ctx := { runid := R, crash := some (t, k) }
    let (rv, w) := runTargetsP S (engineP S d fuel) d cx fuel ts [] false w
    (some { status := rv }, w)

/-! ### With `msort` the copy is the model -/

theorem depsOfP_msort : depsOfP msort = depsOf := rfl
theorem depsWithRecsP_msort : depsWithRecsP msort = depsWithRecs := rfl
theorem isDirtyP_msort : isDirtyP msort = isDirty := by
  funext ood R fuel
  induction fuel with
  | zero => funext w cache f mx seen pre; rfl
  | succ n ih =>
    funext w cache f mx seen pre
    simp only [isDirtyP, isDirty, ih, depsWithRecsP_msort]
    rfl

theorem shouldBuildP_msort : shouldBuildP msort = shouldBuild := by
  funext cx fuel t w
  simp only [shouldBuildP, shouldBuild, isDirtyP_msort]
  rfl

theorem buildJobP_msort : buildJobP msort = buildJob := by
  funext E d cx fuel t w
  simp only [buildJobP, buildJob, shouldBuildP_msort]
  rfl

theorem runTargetsP_msort : runTargetsP msort = runTargets := by
  funext E d cx fuel ts
  induction ts with
  | nil => funext seen errored w; rfl
  | cons t ts ih =>
    funext seen errored w
    simp only [runTargetsP, runTargets, ih, buildJobP_msort]
    rfl

theorem ifchangeWithP_msort : ifchangeWithP msort = ifchangeWith := by
  funext E d fuel cx ts w
  simp only [ifchangeWithP, ifchangeWith, runTargetsP_msort]
  rfl

theorem engineP_msort : engineP msort = engine := by
  funext d n
  induction n with
  | zero => rfl
  | succ n ih => simp only [engineP, engine, ih, ifchangeWithP_msort]

theorem runCmdP_go_msort (R fuel : Nat) : runCmdP.go msort R fuel = runCmd.go R fuel := by
  funext fs
  induction fs with
  | nil => funext w cache acc; rfl
  | cons f fs ih =>
    funext w cache acc
    simp only [runCmdP.go, runCmd.go, ih, isDirtyP_msort]

theorem runCmdP_msort : runCmdP msort = runCmd := by
  funext d nfiles c w
  simp only [runCmdP, runCmd, runTargetsP_msort, engineP_msort, runCmdP_go_msort]
  rfl

theorem applyOpP_msort : applyOpP msort = applyOp := by
  funext d nfiles op w
  simp only [applyOpP, applyOp, runTargetsP_msort, engineP_msort, runCmdP_msort]
  rfl

/-- **The model, in a form the kernel can evaluate.** -/
theorem applyOp_eq : applyOp = applyOpP isort := by rw [← msort_eq, applyOpP_msort]
theorem runCmd_eq : runCmd = runCmdP isort := by rw [← msort_eq, runCmdP_msort]

end RedoModel.Deps.KEval
