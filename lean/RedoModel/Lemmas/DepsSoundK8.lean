import RedoModel.Lemmas.DepsSoundK7
import RedoModel.Lemmas.DepsSoundK0b
/-!
**C10 on the full model, main theorems.**  The unrestricted statement is false (`not_noStalePlainK`,
`DepsSoundK0b`); it holds when every target has at most one .do candidate (`SingleDo`).
-/
namespace RedoModel.Deps
open RedoModel.Generated

/-- **No stale target after histories with killed builds** (partial: hypothesis `SingleDo rules` added, forced by
the counterexample `not_noStalePlainK`).  After ANY plain history interleaved with ANY number of killed
`redo-ifchange` runs (killed in any script, at any step), whenever a later `redo-ifchange ts` / `redo ts` exits 0,
every `t ∈ ts` is up to date. -/
theorem noStalePlainK_partial (n : Nat) (rules : Nat → List Nat) (rank : Nat → Nat) (ops : List UserOp) (ts : List Nat)
    (kg forced : Bool) (hr : RulesOk rules) (hS : SingleDo rules) (hp : ∀ op ∈ ops, PlainOpK rules op)
    (hrk : ∀ w ∈ worldsOf n {} (initWorld rules) ops, Ranked rank w) (hN : ∀ f, rank f < n)
    (hok : OpsOk n (initWorld rules) ops) :
    let w := ops.foldl (fun w op => (applyOp {} n op w).2) (initWorld rules)
    let r := runCmd {} n (if forced then .redo ts kg else .ifchange ts kg) w
    r.1.status = 0 → ∀ t ∈ ts, UpToDateD r.2 t := by
  intro w r
  have h0 : Btw rank (initWorld rules) := Btw_init hr (hrk _ (worldsOf_head n {} _ ops))
  obtain ⟨hb, _⟩ := history_btwK hN hS ops (initWorld rules) h0 rfl hp hrk hok
  exact runCmd_sound {} hN hb ts kg forced

/-- The companion with `UpToDate` of `DepsSoundSpec` (hypotheses `OpsOk`, `Meaningful` as in `noStalePlain_partial`). -/
theorem noStalePlainK_partial_upToDate (n : Nat) (rules : Nat → List Nat) (rank : Nat → Nat) (ops : List UserOp)
    (ts : List Nat) (kg forced : Bool) (hr : RulesOk rules) (hS : SingleDo rules)
    (hp : ∀ op ∈ ops, PlainOpK rules op)
    (hrk : ∀ w ∈ worldsOf n {} (initWorld rules) ops, Ranked rank w) (hN : ∀ f, rank f < n)
    (hok : OpsOk n (initWorld rules) ops) :
    let w := ops.foldl (fun w op => (applyOp {} n op w).2) (initWorld rules)
    let r := runCmd {} n (if forced then .redo ts kg else .ifchange ts kg) w
    r.1.status = 0 → Meaningful r.2 → ∀ t ∈ ts, UpToDate r.2 t := by
  intro w r hz hm t ht
  have h0 : Btw rank (initWorld rules) := Btw_init hr (hrk _ (worldsOf_head n {} _ ops))
  obtain ⟨hb, _⟩ := history_btwK hN hS ops (initWorld rules) h0 rfl hp hrk hok
  have hb' : Btw rank r.2 := (runCmd_btw {} hN hb _).1
  exact (noStalePlainK_partial n rules rank ops ts kg forced hr hS hp hrk hN hok hz t ht).toUpToDate hm hb'.plainProgs

/-- **Recovery is sound.**  In any state reachable as above (`Btw`), kill a `redo-ifchange ts` anywhere; then the
invariant holds again at once, it holds after the next `redo-ifchange ts'` / `redo ts'`, and if that command exits 0
its targets are up to date.  (Because `Btw` holds again, `noStalePlainK_partial` applies to every longer history:
later edits of sources are reacted to.) -/
theorem recovery_is_sound {rank N w} (hN : ∀ f, rank f < N) (hS : SingleDo w.rules) (h : Btw rank w)
    (ts : List Nat) (t k : Nat) (ts' : List Nat) (kg forced : Bool) :
    let w1 := (applyOp {} N (.crashCmd ts t k) w).2
    let r := runCmd {} N (if forced then .redo ts' kg else .ifchange ts' kg) w1
    Btw rank w1 ∧ Btw rank r.2 ∧ (r.1.status = 0 → ∀ x ∈ ts', UpToDateD r.2 x) := by
  intro w1 r
  obtain ⟨hb1, _⟩ := crashCmd_btw {} hN hS h ts t k
  exact ⟨hb1, (runCmd_btw {} hN hb1 _).1, runCmd_sound {} hN hb1 ts' kg forced⟩

#print axioms not_noStalePlainK
#print axioms crashCmd_btw
#print axioms noStalePlainK_partial
#print axioms noStalePlainK_partial_upToDate
#print axioms recovery_is_sound

end RedoModel.Deps
