import RedoModel.Lemmas.DepsSoundS32
/-! The top-level forced command `redo ts`. -/
namespace RedoModel.Deps.S
open RedoModel.Generated

theorem buildJob_forced_eq (E : Engine) (d : Defects) (cx : Ctx) (fuel t : Nat) (w : World) (h : cx.isRedo = true) :
    buildJob E d cx fuel t w = (.done (startSelf E d cx t (w.recs t) w).1, (startSelf E d cx t (w.recs t) w).2) := by
  unfold buildJob shouldBuild
  simp only [h, if_true]

theorem buildJob_forced_spec {rank R t w b n fuel} {cx : Ctx} (d : Defects)
    (hd1 : d.oobRecordsDepsOnCaller = false) (hd2 : d.oobRebuildsDepsNotTarget = false) (hcx : cx.runid = R)
    (hredo : cx.isRedo = true) (hcrash : cx.crash = none) (hcyc : cx.cycles = []) (hi : Inv rank R NoX w)
    (hfuel : rank t ≤ n + 1) (hlt : rank t < b) (po : Option Nat) (hnf : (w.recs t).failed ≠ some R) :
    JobPostW rank R NoX t b po w
      (jrStatus (buildJob (engine d (n + 1)) d cx fuel t w).1, (buildJob (engine d (n + 1)) d cx fuel t w).2) := by
  rw [buildJob_forced_eq _ _ _ _ _ _ hredo]
  simp only [jrStatus]
  by_cases hvg : VerR w R t ∧ (w.recs t).isGenerated = true
  · exact (startSelf_idem d hd1 hd2 hcx hcrash hcyc hi hvg.1 hvg.2 hfuel hlt po).weak
  · refine startSelf_spec (engine_spec rank R d hd1 hd2 (n + 1)) d hcx hcrash hi (fun hv => ?_) (fun _ h => h.elim) hlt po hnf
    cases hg : (w.recs t).isGenerated with
    | false => rfl
    | true => exact absurd ⟨hv, hg⟩ hvg

theorem runTargets_top {rank R b fuel} {E : Engine} {cx : Ctx} (d : Defects)
    (hkg : cx.isRedo = true → cx.keepGoing = false)
    (hjob : ∀ t w, Inv rank R NoX w → rank t < b → (cx.isRedo = true → NoFail R w) →
      JobPostW rank R NoX t b none w (jrStatus (buildJob E d cx fuel t w).1, (buildJob E d cx fuel t w).2)) :
    ∀ (ts seen : List Nat) (errored : Bool) (w : World), Inv rank R NoX w → (∀ t ∈ ts, rank t < b) →
      (errored = false → NoFail R w ∧ ∀ s ∈ seen, Good w R s) →
      (Inv rank R NoX (runTargets E d cx fuel ts seen errored w).2 ∧
        (runTargets E d cx fuel ts seen errored w).2.runCounter = w.runCounter ∧
        (runTargets E d cx fuel ts seen errored w).2.rules = w.rules) ∧
      ((runTargets E d cx fuel ts seen errored w).1 = 0 → errored = false ∧
        NoFail R (runTargets E d cx fuel ts seen errored w).2 ∧
        (∀ t ∈ ts, Good (runTargets E d cx fuel ts seen errored w).2 R t) ∧
        ∀ s ∈ seen, Good (runTargets E d cx fuel ts seen errored w).2 R s)
  | [], seen, errored, w, hi, _, hs => by
    simp only [runTargets]
    cases errored with
    | true => exact ⟨⟨hi, trivial, trivial⟩, fun h => absurd h one_ne_zero_status⟩
    | false => exact ⟨⟨hi, trivial, trivial⟩, fun _ => ⟨rfl, (hs rfl).1, fun t ht => by simp at ht, (hs rfl).2⟩⟩
  | t :: ts, seen, errored, w, hi, hts, hs => by
    obtain ⟨c1, c2, c3, c4, c5, c6⟩ := exit_codes
    have htl : ∀ t' ∈ ts, rank t' < b := fun t' h => hts t' (List.mem_cons_of_mem _ h)
    rw [runTargets]
    by_cases hin : t ∈ seen
    · simp only [hin, if_true]
      obtain ⟨a1, a2⟩ := runTargets_top d hkg hjob ts seen errored w hi htl hs
      refine ⟨a1, fun h => ?_⟩
      obtain ⟨b1, b2, b3, b4⟩ := a2 h
      refine ⟨b1, b2, fun t' ht' => ?_, b4⟩
      rcases List.mem_cons.1 ht' with rfl | ht'
      · exact b4 _ hin
      · exact b3 t' ht'
    simp only [hin, if_false]
    by_cases he : (errored && !cx.keepGoing) = true
    · simp only [he, if_true]
      exact ⟨⟨hi, trivial, trivial⟩, fun h => absurd h one_ne_zero_status⟩
    simp only [he]
    have e1 := WEqv.addKnown w t
    have hi1 := e1.inv hi
    by_cases hc : (!cx.unlocked && decide (t ∈ cx.cycles)) = true
    · simp only [hc, if_true]
      exact ⟨⟨hi1, e1.rc, e1.rules⟩, fun h => absurd h c3⟩
    simp only [hc]
    have hj := hjob t (addKnown w t) hi1 (hts t (by simp)) (fun hr => by
      have hk := hkg hr
      have he' : errored = false := by
        cases errored with
        | false => rfl
        | true => simp [hk] at he
      exact (hs he').1.eqv e1)
    generalize hbj : buildJob E d cx fuel t (addKnown w t) = res at hj ⊢
    obtain ⟨jr, w2⟩ := res
    obtain ⟨j1, j2, j3, j4, j5⟩ := hj
    dsimp only at j1 j2 j3 j4 j5
    cases jr with
    | abort code =>
      simp only
      have hne : code ≠ 0 := by
        rcases buildJob_abort_code E d cx fuel t _ code w2 hbj with h | h <;> rw [h]
        · exact c1
        · exact c3
      exact ⟨⟨j1, j2.rc.trans e1.rc, j2.rules.trans e1.rules⟩, fun h => absurd h hne⟩
    | done rv =>
      simp only [jrStatus] at j3 j4 j5 ⊢
      simp only [j5, if_false]
      obtain ⟨a1, a2⟩ := runTargets_top d hkg hjob ts (t :: seen) (errored || decide (rv ≠ 0)) w2 j1 htl (fun hf => by
        simp only [Bool.or_eq_false_iff, decide_eq_false_iff_not, ne_eq, Classical.not_not] at hf
        obtain ⟨hn, hsg⟩ := hs hf.1
        have hn1 : NoFail R (addKnown w t) := hn.eqv e1
        refine ⟨j4 hn1 hf.2, fun s hs' => ?_⟩
        rcases List.mem_cons.1 hs' with rfl | hs'
        · exact j3 hf.2 (hn1 _)
        · exact j2.good ((e1.good R s).2 (hsg s hs')))
      refine ⟨⟨a1.1, a1.2.1.trans (j2.rc.trans e1.rc), a1.2.2.trans (j2.rules.trans e1.rules)⟩, fun h => ?_⟩
      obtain ⟨b1, b2, b3, b4⟩ := a2 h
      simp only [Bool.or_eq_false_iff, decide_eq_false_iff_not, ne_eq, Classical.not_not] at b1
      refine ⟨b1.1, b2, fun t' ht' => ?_, fun s hs' => b4 s (List.mem_cons_of_mem _ hs')⟩
      rcases List.mem_cons.1 ht' with rfl | ht'
      · exact b4 _ (by simp)
      · exact b3 t' ht'

/-- Once a job has failed, the command's status is not 0. -/
theorem runTargets_errored (E : Engine) (d : Defects) (cx : Ctx) (fuel : Nat) :
    ∀ (ts seen : List Nat) (w : World), (runTargets E d cx fuel ts seen true w).1 ≠ 0
  | [], seen, w => by simp only [runTargets, if_true]; exact one_ne_zero_status
  | t :: ts, seen, w => by
    obtain ⟨c1, c2, c3, c4, c5, c6⟩ := exit_codes
    rw [runTargets]
    by_cases hin : t ∈ seen
    · simp only [hin, if_true]; exact runTargets_errored E d cx fuel ts seen w
    simp only [hin, if_false]
    by_cases he : (true && !cx.keepGoing) = true
    · simp only [he, if_true]; exact one_ne_zero_status
    simp only [he]
    by_cases hc : (!cx.unlocked && decide (t ∈ cx.cycles)) = true
    · simp only [hc, if_true]; exact c3
    simp only [hc]
    generalize hbj : buildJob E d cx fuel t (addKnown w t) = res
    obtain ⟨jr, w2⟩ := res
    cases jr with
    | abort code =>
      simp only
      rcases buildJob_abort_code E d cx fuel t _ code w2 hbj with h | h <;> rw [h]
      · exact c1
      · exact c3
    | done rv =>
      simp only
      by_cases hcr : rv = CRASHED
      · simp only [hcr, if_true]; intro h; exact CRASHED_ne_zero h.symm
      · simp only [hcr, if_false, Bool.true_or]; exact runTargets_errored E d cx fuel ts (t :: seen) w2

/-- The top-level loop, as far as exit status 0 is concerned: every job started in a run without failures. -/
theorem runTargets_top0 {rank R b fuel} {E : Engine} {cx : Ctx} (d : Defects)
    (hjob : ∀ t w, Inv rank R NoX w → rank t < b → NoFail R w →
      JobPostW rank R NoX t b none w (jrStatus (buildJob E d cx fuel t w).1, (buildJob E d cx fuel t w).2)) :
    ∀ (ts seen : List Nat) (w : World), Inv rank R NoX w → (∀ t ∈ ts, rank t < b) → NoFail R w →
      (∀ s ∈ seen, Good w R s) → (runTargets E d cx fuel ts seen false w).1 = 0 →
      (Inv rank R NoX (runTargets E d cx fuel ts seen false w).2 ∧
        (runTargets E d cx fuel ts seen false w).2.runCounter = w.runCounter ∧
        (runTargets E d cx fuel ts seen false w).2.rules = w.rules) ∧
      (∀ t ∈ ts, Good (runTargets E d cx fuel ts seen false w).2 R t) ∧
      ∀ s ∈ seen, Good (runTargets E d cx fuel ts seen false w).2 R s
  | [], seen, w, hi, _, _, hs, _ => by
    simp only [runTargets]
    exact ⟨⟨hi, trivial, trivial⟩, fun t ht => by simp at ht, hs⟩
  | t :: ts, seen, w, hi, hts, hn, hs, hz => by
    obtain ⟨c1, c2, c3, c4, c5, c6⟩ := exit_codes
    have htl : ∀ t' ∈ ts, rank t' < b := fun t' h => hts t' (List.mem_cons_of_mem _ h)
    rw [runTargets] at hz ⊢
    by_cases hin : t ∈ seen
    · simp only [hin, if_true] at hz ⊢
      obtain ⟨a1, a2, a3⟩ := runTargets_top0 d hjob ts seen w hi htl hn hs hz
      refine ⟨a1, fun t' ht' => ?_, a3⟩
      rcases List.mem_cons.1 ht' with rfl | ht'
      · exact a3 _ hin
      · exact a2 t' ht'
    simp only [hin, if_false, Bool.false_and, Bool.false_eq_true] at hz ⊢
    have e1 := WEqv.addKnown w t
    have hi1 := e1.inv hi
    by_cases hc : (!cx.unlocked && decide (t ∈ cx.cycles)) = true
    · simp only [hc, if_true] at hz; exact absurd hz c3
    simp only [hc] at hz ⊢
    have hn1 : NoFail R (addKnown w t) := hn.eqv e1
    have hj := hjob t (addKnown w t) hi1 (hts t (by simp)) hn1
    generalize hbj : buildJob E d cx fuel t (addKnown w t) = res at hj hz ⊢
    obtain ⟨jr, w2⟩ := res
    obtain ⟨j1, j2, j3, j4, j5⟩ := hj
    dsimp only at j1 j2 j3 j4 j5
    cases jr with
    | abort code =>
      simp only at hz
      exfalso
      rcases buildJob_abort_code E d cx fuel t _ code w2 hbj with h | h <;> rw [h] at hz
      · exact c1 hz
      · exact c3 hz
    | done rv =>
      simp only [jrStatus] at j3 j4 j5
      simp only [j5, if_false] at hz ⊢
      by_cases hrv : rv = 0
      · subst hrv
        simp only [ne_eq, not_true_eq_false, decide_false] at hz ⊢
        obtain ⟨a1, a2, a3⟩ := runTargets_top0 d hjob ts (t :: seen) w2 j1 htl (j4 hn1 rfl)
          (fun s hs' => by
            rcases List.mem_cons.1 hs' with rfl | hs'
            · exact j3 rfl (hn1 _)
            · exact j2.good ((e1.good R s).2 (hs s hs'))) hz
        refine ⟨⟨a1.1, a1.2.1.trans (j2.rc.trans e1.rc), a1.2.2.trans (j2.rules.trans e1.rules)⟩,
          fun t' ht' => ?_, fun s hs' => a3 s (List.mem_cons_of_mem _ hs')⟩
        rcases List.mem_cons.1 ht' with rfl | ht'
        · exact a3 _ (by simp)
        · exact a2 t' ht'
      · simp only [ne_eq, hrv, not_false_eq_true, decide_true] at hz
        exact absurd hz (runTargets_errored E d cx fuel ts (t :: seen) w2)

end RedoModel.Deps.S
