import RedoModel.Lemmas.DepsSoundS20
/-! `ssBuild` when a .do file is found: the state after the script has run. -/
namespace RedoModel.Deps.S

theorem scriptAt_plain {rank R X w} (hb : Base rank R X w) (dof : Nat) : (scriptAt w dof).PlainS := by
  have hd : ({} : Script).PlainS := ⟨rfl, rfl, rfl, Or.inl rfl, rfl, rfl, fun e => by cases e⟩
  unfold scriptAt
  cases w.fs dof with
  | none => exact hd
  | some n =>
    simp only
    cases h : w.progs n.content with
    | none => exact hd
    | some sc => exact hb.plainProgs _ sc h

theorem scriptAt_ranked {rank R X w t dof} (hb : Base rank R X w) (hd : dof ∈ w.rules t) :
    ∀ c ∈ (scriptAt w dof).ifchange, ∀ d ∈ c, rank d < rank t := by
  unfold scriptAt
  cases hn : w.fs dof with
  | none => intro c hc; simp at hc
  | some n =>
    simp only
    cases h : w.progs n.content with
    | none => intro c hc; simp at hc
    | some sc => exact hb.ranked.2 t dof hd n sc hn h

/-- The state after the script of `t` (chosen .do file `dof`, script `sc`) has run its commands. -/
structure Ran (rank : Nat → Nat) (R : Nat) (X : Nat → Prop) (t dof : Nat) (sc : Script) (w2 w5 : World) (rv : Status) : Prop where
  inv : Inv rank R (addX X t) w5
  bext : BExt rank R (rank t) (some t) w2 w5
  decl : RowsDecl t sc.ifchange.flatten w2 w5
  ok : rv = 0 → ∀ d ∈ sc.ifchange.flatten, Good w5 R d ∧ HasRowU w5 t d true
  noFail : NoFail R w2 → rv = 0 → NoFail R w5
  notCrashed : rv ≠ CRASHED
  dofGood : Good w5 R dof
  script : scriptAt w5 dof = sc
  plain : sc.PlainS

theorem ssb_script {rank R E t dof w2} {cx : Ctx} {X : Nat → Prop} (hE : ESpec rank R E) (hcx : cx.runid = R)
    (hcrash : cx.crash = none) (hi2 : Inv rank R (addX X t) w2) (hng2 : ¬ Good w2 R t)
    (hXa : ∀ x, X x → rank t < rank x) (hdm : dof ∈ w2.rules t) (hdex : existsF w2 dof = true) :
    Ran rank R X t dof (scriptAt (ev (setRec w2 dof (setStatic w2 dof (w2.recs dof) R)) (.ran t)) dof) w2
      (runScript.cmds E cx t (childCx cx t)
        (scriptAt (ev (setRec w2 dof (setStatic w2 dof (w2.recs dof) R)) (.ran t)) dof).ifchange 0
        (ev (setRec w2 dof (setStatic w2 dof (w2.recs dof) R)) (.ran t))).2
      (runScript.cmds E cx t (childCx cx t)
        (scriptAt (ev (setRec w2 dof (setStatic w2 dof (w2.recs dof) R)) (.ran t)) dof).ifchange 0
        (ev (setRec w2 dof (setStatic w2 dof (w2.recs dof) R)) (.ran t))).1 := by
  have hdP : w2.rules dof = [] := (hi2.base.rulesOk.2 t dof hdm).1
  have hdlt : rank dof < rank t := hi2.base.ranked.1 t dof hdm
  obtain ⟨hi3, hg3, hb3, hn3⟩ := setStatic_spec (b := rank t) (po := some t) hi2 hdex
    (fun _ => hi2.base.srcNotGen dof hdP) hdlt
  have hd3 : (setRec w2 dof (setStatic w2 dof (w2.recs dof) R)).deps = w2.deps := rfl
  generalize setRec w2 dof (setStatic w2 dof (w2.recs dof) R) = w3 at hi3 hg3 hb3 hn3 hd3 ⊢
  have e4 := WEqv.ev w3 (.ran t)
  have hi4 := e4.inv hi3
  have hb4 : BExt rank R (rank t) (some t) w2 (ev w3 (.ran t)) := hb3.trans e4.toBExt
  have hng4 : ¬ Good (ev w3 (.ran t)) R t := fun h => hng2 (((hb4.sameT (Nat.le_refl _)).good R).1 h)
  have hdm4 : dof ∈ (ev w3 (.ran t)).rules t := by rw [hb4.rules]; exact hdm
  obtain ⟨a1, a2, a3, a4, a5, a6⟩ := cmds_spec (cx := cx) (cx' := childCx cx t) hE hcx rfl rfl hcrash rfl hcrash
    (X := addX X t) (Or.inr rfl) (fun x hx => hx.elim (fun h => Nat.le_of_lt (hXa x h)) (fun h => by rw [h]; exact Nat.le_refl _))
    (scriptAt (ev w3 (.ran t)) dof).ifchange 0 (ev w3 (.ran t)) hi4 hng4 (scriptAt_ranked hi4.base hdm4)
  have hdeps : (ev w3 (.ran t)).deps = w2.deps := hd3
  have hdecl : RowsDecl t (scriptAt (ev w3 (.ran t)) dof).ifchange.flatten w2
      (runScript.cmds E cx t (childCx cx t) (scriptAt (ev w3 (.ran t)) dof).ifchange 0 (ev w3 (.ran t))).2 := by
    unfold RowsDecl HasRowU at a3 ⊢
    rw [hdeps] at a3; exact a3
  refine ⟨a1, hb4.trans a2, hdecl, a4, fun h hz => a5 ((hn3 h).eqv e4) hz, a6, a2.good ((e4.good R dof).2 hg3), ?_,
    scriptAt_plain hi4.base dof⟩
  exact scriptAt_congr (a2.plain dof (by rw [hb4.rules]; exact hdP)) a2.progs

end RedoModel.Deps.S
