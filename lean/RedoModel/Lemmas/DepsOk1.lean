import RedoModel.Lemmas.DepsOk0
/-!
# C09 — the file frame `FrU` holds across every function of the engine (any engine, any defect switch)
-/
namespace RedoModel.Deps.Rich
open RedoModel.Generated

theorem oddC_outContent (tag : Nat) (ins : List (Option Content)) : oddC (some (outContent tag ins)) = false := by
  unfold outContent
  generalize (ins.flatMap _) = l
  cases l with
  | nil =>
    have : (2 * tag + 2) % 2 = 0 := by omega
    simp [oddC, this]
  | cons a l => simp [oddC]

theorem frU_addKnown (w : World) (f : Nat) : FrU w (addKnown w f) := by
  unfold addKnown
  split <;> exact FrU.of_fs rfl rfl rfl

theorem addDep_fs (w : World) (t s : Nat) (m : Bool) : (addDep w t s m).fs = w.fs := by
  unfold addDep addKnown; split <;> rfl
theorem addDep_rules (w : World) (t s : Nat) (m : Bool) : (addDep w t s m).rules = w.rules := by
  unfold addDep addKnown; split <;> rfl
theorem addDep_progs (w : World) (t s : Nat) (m : Bool) : (addDep w t s m).progs = w.progs := by
  unfold addDep addKnown; split <;> rfl

theorem frU_addDep (w : World) (t s : Nat) (m : Bool) : FrU w (addDep w t s m) :=
  FrU.of_fs (addDep_fs w t s m) (addDep_rules w t s m) (addDep_progs w t s m)

theorem frU_foldl_addDep (p : Nat) (m : Bool) : ∀ (ts : List Nat) (w : World),
    FrU w (ts.foldl (fun w t => addDep w p t m) w)
  | [], w => FrU.refl w
  | t :: ts, w => by
    rw [List.foldl_cons]
    exact (frU_addDep w p t m).trans (frU_foldl_addDep p m ts _)

theorem findDoFile_frU (t : Nat) : ∀ (cs : List Nat) (w : World), FrU w (findDoFile t cs w).2
  | [], w => by rw [findDoFile]; exact FrU.refl w
  | c :: cs, w => by
    rw [findDoFile]
    split
    · exact frU_addDep w t c true
    · exact (frU_addDep w t c false).trans (findDoFile_frU t cs _)

/-- What a nested `redo-ifchange` must satisfy. -/
def EngineFr (E : Engine) : Prop := ∀ cx ts w, FrU w (E.ifchangeCmd cx ts w).2

theorem conds_frU (E : Engine) (hE : EngineFr E) (t : Nat) (cx' : Ctx) :
    ∀ (fs : List Nat) (w : World), FrU w (runScript.conds E t cx' fs w).2
  | [], w => by rw [runScript.conds]; exact FrU.refl w
  | f :: fs, w => by
    rw [runScript.conds]
    split
    · have h := hE cx' [f] w
      generalize E.ifchangeCmd cx' [f] w = r at h
      obtain ⟨rv, w1⟩ := r
      split
      · rename_i heq
        cases heq
        exact h.trans (conds_frU E hE t cx' fs _)
      · rename_i heq
        cases heq
        exact h
    · exact (frU_addDep w t f false).trans (conds_frU E hE t cx' fs _)

theorem cmds_frU (E : Engine) (hE : EngineFr E) (cx : Ctx) (t : Nat) (cx' : Ctx) :
    ∀ (cs : List (List Nat)) (k : Nat) (w : World), FrU w (runScript.cmds E cx t cx' cs k w).2
  | [], k, w => by rw [runScript.cmds]; exact FrU.refl w
  | c :: cs, k, w => by
    rw [runScript.cmds]
    split
    · exact FrU.refl w
    · have h := hE cx' c w
      generalize E.ifchangeCmd cx' c w = r at h
      obtain ⟨rv, w1⟩ := r
      split
      · rename_i heq
        cases heq
        exact h.trans (cmds_frU E hE cx t cx' cs _ _)
      · rename_i heq
        cases heq
        exact h

theorem rsAlways_frU (cx : Ctx) (t : Nat) (sc : Script) (w : World) : FrU w (rsAlways cx t sc w) := by
  unfold rsAlways
  split
  · exact FrU.of_fs (addDep_fs w t alwaysId true) (addDep_rules w t alwaysId true) (addDep_progs w t alwaysId true)
  · exact FrU.refl w

theorem rsFinish_frU (cx : Ctx) (t : Nat) (sc : Script) (w : World) : FrU w (rsFinish cx t sc w).2.2 := by
  rw [rsFinish_world]
  split
  · exact FrU.refl w
  · unfold rsStampW
    dsimp only
    split
    · exact FrU.refl w
    · exact (frU_addKnown w t).trans (FrU.of_fs rfl rfl rfl)

theorem rsFinish_out (cx : Ctx) (t : Nat) (sc : Script) (w : World) : oddC (rsFinish cx t sc w).2.1 = false := by
  rw [rsFinish_eq]
  split
  · rfl
  · split
    · rfl
    · dsimp only
      split
      · rfl
      · exact oddC_outContent _ _

theorem rsBody_frU (E : Engine) (hE : EngineFr E) (cx : Ctx) (t : Nat) (sc : Script) (w : World) :
    FrU w (rsBody E cx t sc w).2.2 ∧ oddC (rsBody E cx t sc w).2.1 = false := by
  unfold rsBody
  dsimp only
  have h1 := conds_frU E hE t
    { runid := cx.runid, parent := some t, cycles := t :: cx.cycles, keepGoing := cx.keepGoing, crash := cx.crash } sc.cond w
  generalize runScript.conds E t _ sc.cond w = r1 at h1
  obtain ⟨rvc, w1⟩ := r1
  dsimp only at h1 ⊢
  split
  · exact ⟨h1, rfl⟩
  · have h2 := cmds_frU E hE cx t
      { runid := cx.runid, parent := some t, cycles := t :: cx.cycles, keepGoing := cx.keepGoing, crash := cx.crash }
      sc.ifchange 0 w1
    generalize runScript.cmds E cx t _ sc.ifchange 0 w1 = r2 at h2
    obtain ⟨rv, w2⟩ := r2
    dsimp only at h2 ⊢
    split
    · exact ⟨h1.trans h2, rfl⟩
    · exact ⟨(h1.trans h2).trans (rsFinish_frU cx t sc w2), rsFinish_out cx t sc w2⟩

theorem runScript_frU (E : Engine) (hE : EngineFr E) (d : Defects) (cx : Ctx) (t : Nat) (sc : Script) (w : World) :
    FrU w (runScript E d cx t sc w).2.2 ∧ oddC (runScript E d cx t sc w).2.1 = false := by
  rw [runScript_eq]
  split
  · exact ⟨rsAlways_frU cx t sc w, rfl⟩
  · exact ⟨((rsAlways_frU cx t sc w).trans (frU_foldl_addDep t false _ _)).trans (rsBody_frU E hE cx t sc _).1,
      (rsBody_frU E hE cx t sc _).2⟩

/-- Recording the result of a script: the target's file is replaced only on success, by the script's output. -/
theorem recordNewState_frU (cx : Ctx) (t : Nat) (sf : Rec) (rv : Status) (out : Option Content) (w : World)
    (hout : oddC out = false) (hd : ∃ c ∈ w.rules t, existsF w c = true) :
    FrU w (recordNewState cx t sf rv out w).2 := by
  unfold recordNewState
  split
  · intro _
    cases out with
    | none =>
      refine ⟨rfl, rfl, fun x => ?_⟩
      by_cases hx : x = t
      · subst hx; exact Or.inr ⟨by simp [contentOf, setRec, setFile, zapDeps2, oddC], hd⟩
      · exact Or.inl (by simp [setRec, setFile, zapDeps2, hx])
    | some c =>
      refine ⟨rfl, rfl, fun x => ?_⟩
      by_cases hx : x = t
      · subst hx
        refine Or.inr ⟨?_, hd⟩
        simpa [contentOf, setRec, setFile, zapDeps2, newNode] using hout
      · exact Or.inl (by simp [setRec, setFile, zapDeps2, newNode, hx])
  · exact FrU.of_fs rfl rfl rfl

theorem ssGuard_frU (cx : Ctx) (t : Nat) (sf : Rec) (w : World) : FrU w (ssGuard cx t sf w).2 := by
  unfold ssGuard
  split <;> exact FrU.of_fs rfl rfl rfl

theorem ssRun_frU (E : Engine) (hE : EngineFr E) (d : Defects) (cx : Ctx) (t : Nat) (sf : Rec) (sc : Script)
    (w3 : World) (hd : ∃ c ∈ w3.rules t, existsF w3 c = true) :
    FrU w3 (match runScript E d cx t sc w3 with
      | (rv, out, w) => if rv = CRASHED then (CRASHED, w) else recordNewState cx t sf rv out w).2 := by
  obtain ⟨h4, ho⟩ := runScript_frU E hE d cx t sc w3
  generalize runScript E d cx t sc w3 = r4 at h4 ho
  obtain ⟨rv, out, w4⟩ := r4
  dsimp only at h4 ho ⊢
  split
  · exact h4
  · intro hr
    obtain ⟨c, hc, hex⟩ := hd
    have hr4 := (h4 hr).1
    refine (h4.trans (recordNewState_frU cx t sf rv out w4 ho ⟨c, by rw [hr4]; exact hc, ?_⟩)) hr
    rw [existsF_congr (h4.plain hr (hr.2 t c hc).1)]; exact hex

theorem findDoFile_some (t : Nat) (cs : List Nat) (w : World) (dof : Nat) (h : (findDoFile t cs w).1 = some dof) :
    dof ∈ cs ∧ existsF (findDoFile t cs w).2 dof = true := by
  rw [findDoFile_fst] at h
  obtain ⟨h1, h2⟩ := firstEx_mem _ _ h
  refine ⟨h1, ?_⟩
  have : ∀ (cs : List Nat) (w : World), (findDoFile t cs w).2.fs = w.fs := by
    intro cs
    induction cs with
    | nil => intro w; rfl
    | cons c cs ih =>
      intro w
      rw [findDoFile]
      split
      · exact addDep_fs w t c true
      · rw [ih]; exact addDep_fs w t c false
  rw [existsF_congr (congrFun (this cs w) dof)]; exact h2

theorem findDoFile_rules (t : Nat) : ∀ (cs : List Nat) (w : World), (findDoFile t cs w).2.rules = w.rules
  | [], w => rfl
  | c :: cs, w => by
    rw [findDoFile]
    split
    · exact addDep_rules w t c true
    · rw [findDoFile_rules t cs]; exact addDep_rules w t c false

theorem ssBuild_frU (E : Engine) (hE : EngineFr E) (d : Defects) (cx : Ctx) (t : Nat) (sf : Rec) (w : World) :
    FrU w (ssBuild E d cx t sf w).2 := by
  unfold ssBuild
  dsimp only
  have h1 : FrU w (findDoFile t ((zapDeps1 w t).rules t) (zapDeps1 w t)).2 :=
    (FrU.of_fs (w := w) (w' := zapDeps1 w t) rfl rfl rfl).trans (findDoFile_frU t _ _)
  have h0 := findDoFile_some t ((zapDeps1 w t).rules t) (zapDeps1 w t)
  have hru := findDoFile_rules t ((zapDeps1 w t).rules t) (zapDeps1 w t)
  generalize findDoFile t ((zapDeps1 w t).rules t) (zapDeps1 w t) = r at h1 h0 hru
  obtain ⟨o, w1⟩ := r
  dsimp only at h1 h0 hru
  cases o with
  | none =>
    dsimp only
    split <;> exact h1.trans (FrU.of_fs rfl rfl rfl)
  | some dof =>
    obtain ⟨hdm, hdex⟩ := h0 dof rfl
    refine (h1.trans (FrU.of_fs (w' := ev (setRec w1 dof (setStatic w1 dof (w1.recs dof) cx.runid)) (.ran t))
      rfl rfl rfl)).trans (ssRun_frU E hE d cx t sf _ _ ⟨dof, ?_, hdex⟩)
    show dof ∈ w1.rules t
    rw [hru]; exact hdm

theorem startSelf_frU (E : Engine) (hE : EngineFr E) (d : Defects) (cx : Ctx) (t : Nat) (sf0 : Rec) (w : World) :
    FrU w (startSelf E d cx t sf0 w).2 := by
  rw [startSelf_eq]
  have hk := ssGuard_frU cx t sf0 w
  generalize ssGuard cx t sf0 w = g at hk
  obtain ⟨sf, w1⟩ := g
  dsimp only at hk ⊢
  split
  · exact hk.trans (FrU.of_fs rfl rfl rfl)
  · exact hk.trans (ssBuild_frU E hE d cx t sf w1)

theorem frU_dirtyRel : DirtyRel FrU :=
  ⟨FrU.refl, FrU.trans, fun _ _ _ => FrU.of_fs rfl rfl rfl, fun _ _ => FrU.of_fs rfl rfl rfl⟩

theorem buildJob_frU (E : Engine) (hE : EngineFr E) (d : Defects) (cx : Ctx) (fuel t : Nat) (w : World) :
    FrU w (buildJob E d cx fuel t w).2 := by
  unfold buildJob
  dsimp only
  have hs := shouldBuild_rel frU_dirtyRel cx fuel t w
  generalize shouldBuild cx fuel t w = sb at hs
  obtain ⟨o, w1⟩ := sb
  dsimp only at hs
  have hst := startSelf_frU E hE d cx t (w.recs t) w1
  cases o with
  | none => exact hs
  | some dr =>
    cases dr with
    | cyclic => exact hs
    | clean => exact hs
    | dirty => exact hs.trans hst
    | need ts =>
      dsimp only
      split
      · exact hs.trans hst
      · have h1 := hE { cx with noOob := true, unlocked := false, isRedo := false, cycles := t :: cx.cycles,
                                parent := if d.oobRecordsDepsOnCaller then cx.parent else none }
          (if w1.oobRev then ts.eraseDups.reverse else ts.eraseDups) w1
        generalize E.ifchangeCmd _ (if w1.oobRev then ts.eraseDups.reverse else ts.eraseDups) w1 = r1 at h1
        obtain ⟨rv1, w2⟩ := r1
        dsimp only at h1
        split
        · rename_i heq
          cases heq
          have h2 := hE { cx with noOob := true, unlocked := true, isRedo := false }
            (if d.oobRebuildsDepsNotTarget then (if w1.oobRev then ts.eraseDups.reverse else ts.eraseDups) else [t]) w2
          exact (hs.trans h1).trans h2
        · rename_i heq
          cases heq
          exact hs.trans h1

theorem runTargets_frU (E : Engine) (hE : EngineFr E) (d : Defects) (cx : Ctx) (fuel : Nat) :
    ∀ (ts seen : List Nat) (errored : Bool) (w : World), FrU w (runTargets E d cx fuel ts seen errored w).2
  | [], _, _, w => by rw [runTargets]; exact FrU.refl w
  | t :: ts, seen, errored, w => by
    rw [runTargets]
    split
    · exact runTargets_frU E hE d cx fuel ts seen errored w
    · split
      · exact FrU.refl w
      · dsimp only
        have ha := frU_addKnown w t
        split
        · exact ha
        · have hb := buildJob_frU E hE d cx fuel t (addKnown w t)
          generalize buildJob E d cx fuel t (addKnown w t) = r at hb
          obtain ⟨jr, w1⟩ := r
          cases jr with
          | abort code => exact ha.trans hb
          | done rv =>
            dsimp only
            split
            · exact ha.trans hb
            · exact (ha.trans hb).trans (runTargets_frU E hE d cx fuel ts _ _ w1)

theorem ifchangeWith_frU (E : Engine) (hE : EngineFr E) (d : Defects) (fuel : Nat) (cx : Ctx) (ts : List Nat)
    (w : World) : FrU w (ifchangeWith E d fuel cx ts w).2 := by
  unfold ifchangeWith
  cases hp : cx.parent with
  | none =>
    simp only [Bool.false_eq_true, if_false]
    exact runTargets_frU E hE d cx fuel ts [] false w
  | some p =>
    dsimp only
    split
    · exact FrU.refl w
    · refine FrU.trans ?_ (runTargets_frU E hE d cx fuel ts [] false _)
      split
      · exact FrU.refl w
      · exact (frU_addKnown w _).trans (frU_foldl_addDep _ true ts _)

/-- Every nested `redo-ifchange` of the real engine satisfies the file frame. -/
theorem engine_frU (d : Defects) : ∀ n, EngineFr (engine d n)
  | 0 => fun _ _ w => FrU.refl w
  | n + 1 => fun cx ts w => ifchangeWith_frU (engine d n) (engine_frU d n) d (n + 1) cx ts w

end RedoModel.Deps.Rich
