import RedoModel.Lemmas.DepsSoundR6
/-! The cases of `isDirty`, then its specification. -/
namespace RedoModel.Deps.Rich

theorem isSome_false_iff {α} {o : Option α} : o.isSome = false ↔ o = none := by cases o <;> simp

theorem chk_checked {rank R w f r mx ch} (hi : Inv rank R X w) (hs : Snap w R f r) (hf : r.failed = none)
    (hch : r.changed = some ch) (hle : ¬ ch > mx) (hck : isCheckedR r R = true) :
    VerR w R f ∧ ¬ DetectM w mx f := by
  have hfail : (w.recs f).failed = none := by rw [← hs.failed]; exact hf
  have hcR : (w.recs f).checked = some R := by
    rcases hs.checked with h | h
    · unfold isCheckedR at hck
      cases hc : r.checked with
      | none => rw [hc] at hck; cases hck
      | some c =>
        rw [hc] at hck
        simp only [Bool.and_eq_true, bne_iff_ne, ne_eq, decide_eq_true_eq] at hck
        have := hs.ckLe c hc
        rw [← h, hc]; congr; omega
    · exact h
  have hv : VerR w R f := ⟨hfail, Or.inl hcR⟩
  have hrc := (hi.ver f hv).1
  refine ⟨hv, ?_⟩
  rintro (h | h | ⟨c, h1, h2⟩ | h)
  · exact h hfail
  · exact hrc.2.1 h
  · obtain ⟨ch', e1, e2, _⟩ := hs.chGe h1
    rw [hch] at e1; cases e1; omega
  · exact h hrc.2.2

theorem DExt_vanished {rank R w f} (hi : Inv rank R X w) (hs : (w.recs f).stamp ≠ some (readStamp w f)) (r : Rec)
    (hr : r.failed = some 0) :
    DExt rank R (rank f + 1) w (setRec w f r) := by
  have hne : ∀ x, RecCur w x → x ≠ f := fun x hx e => hs (e ▸ hx.2.2)
  refine ⟨SameButRecs.setRec w f _, fun x hx => ?_, fun x hv => ?_, fun x hc hg => ?_, fun x => ?_⟩
  · have : x ≠ f := fun e => by subst e; omega
    exact setRec_recs_other _ _ _ this
  · have e := hne x (hi.ver x hv).1
    unfold VerR; rw [setRec_recs_other _ _ _ e]; exact ⟨hv, rfl⟩
  · have e := hne x hc
    unfold RecCur; rw [setRec_recs_other _ _ _ e]; exact ⟨hc, hg⟩
  · by_cases e : x = f
    · subst e; right; simp [hr]
    · left; rw [setRec_recs_other _ _ _ e]

theorem chk_vanished {rank R w f r old} (hi : Inv rank R X w) (hs : Snap w R f r) (hf : r.failed = none)
    (hst : r.stamp = some old) (hne : old ≠ readStamp w f) :
    Inv rank R X (if readStamp w f = .missing ∧ r.isGenerated = true then
        setRec w f { r with isGenerated := false, isOverride := false, failed := some 0 } else w) ∧
    DExt rank R (rank f + 1) w (if readStamp w f = .missing ∧ r.isGenerated = true then
        setRec w f { r with isGenerated := false, isOverride := false, failed := some 0 } else w) ∧
    OwnRel w (if readStamp w f = .missing ∧ r.isGenerated = true then
        setRec w f { r with isGenerated := false, isOverride := false, failed := some 0 } else w) f := by
  split
  · have hfail : (w.recs f).failed = none := by rw [← hs.failed]; exact hf
    have hstamp : (w.recs f).stamp ≠ some (readStamp w f) := by
      rw [← hs.stamp, hst]; intro h; exact hne (Option.some.inj h)
    rename_i hcond
    have h0 : f ≠ alwaysId := ne_always_of_rawgen hi.base (by rw [← hs.gen]; exact hcond.2)
    have hck : r.checked = (w.recs f).checked := by
      rcases hs.checked with h | h
      · exact h
      · exact absurd (hi.ver f ⟨hfail, Or.inl h⟩).1.2.2 hstamp
    have hr := hs.eq_of_checked (hs.changed h0) hck
    subst hr
    exact ⟨Inv_vanished hi h0 hfail hstamp, DExt_vanished hi hstamp _ rfl, Or.inr ⟨by simp, readStamp_missing.1 hcond.1, by rw [← hcond.1]; exact hstamp⟩⟩
  · exact ⟨hi, DExt.refl _ _ _ _, Or.inl rfl⟩

theorem CkExt.setChecked (rank : Nat → Nat) (R : Nat) (w : World) (f : Nat) :
    CkExt rank R (rank f + 1) w (setRec w f { w.recs f with checked := some R }) := by
  refine ⟨SameButRecs.setRec w f _, fun x => ?_⟩
  by_cases e : x = f
  · subst e; exact Or.inr ⟨Nat.lt_succ_self _, by simp⟩
  · exact Or.inl (setRec_recs_other _ _ _ e)

theorem chk_mark {rank R w w' f r mx ch old} (hi : Inv rank R X w) (hi' : Inv rank R X w') (hx : ¬ X f)
    (hs : Snap w R f r)
    (hck : CkExt rank R (rank f) w w') (hf : r.failed = none) (hch : r.changed = some ch) (hle : ¬ ch > mx)
    (hst : r.stamp = some old) (heq : old = readStamp w f) (ha : A0 w R mx f)
    (hall : ∀ p ∈ depsWithRecs w R r f,
      (p.1.modeM = true → VerR w' R p.1.source ∧ ¬ DetectM w' (max ch (r.checked.getD 0)) p.1.source) ∧
      (p.1.modeM = false → existsF w' p.1.source = false)) :
    Inv rank R X (setRec w' f { r with checked := some R }) ∧
    CkExt rank R (rank f + 1) w (setRec w' f { r with checked := some R }) ∧
    VerR (setRec w' f { r with checked := some R }) R f ∧ ¬ DetectM w mx f := by
  have hfail : (w.recs f).failed = none := by rw [← hs.failed]; exact hf
  have hstamp : (w.recs f).stamp = some (readStamp w f) := by rw [← hs.stamp, hst, heq]
  have hceq := hs.changed_eq hi.base hch hle ha
  have hchg : (w.recs f).changed = some ch := by rw [← hceq]; exact hch
  have hsame : w'.recs f = w.recs f := hck.above (Nat.le_refl _)
  have hs' : Snap w' R f r := hs.ext hck
  rw [hs'.withChecked (by rw [hsame]; exact hceq)]
  have h0R : f = alwaysId → (w'.recs f).changed = some R := by
    intro e
    obtain ⟨ch', e1, _, e3⟩ := hs.chGe hchg
    rw [hch] at e1; cases e1
    have := hi.base.chLe f ch hchg
    have := e3 e
    rw [hsame, hchg]; congr; omega
  have hrc : RecCur w' f := by
    refine ⟨by rw [hsame]; exact hfail, by rw [hsame, hchg]; simp, ?_⟩
    rw [hsame, hck.readStamp]; exact hstamp
  have hmx : max ch (r.checked.getD 0) ≤ Mof (w'.recs f) := by
    unfold Mof; rw [hsame, hchg]
    simp only [Option.getD_some]
    rcases hs.checked with h | h
    · rw [h]; exact Nat.le_refl _
    · rw [h]; simp only [Option.getD_some]
      have h1 : ch ≤ R := hi.base.chLe f ch hchg
      have h2 : r.checked.getD 0 ≤ R := by
        cases hc : r.checked with
        | none => simp
        | some c => simpa using hs.ckLe c hc
      omega
  have hrows : RowsClean w' R (max ch (r.checked.getD 0)) f := by
    intro hg d hd hdt
    rw [hsame] at hg
    have hm : d ∈ depsOf w r f :=
      mem_depsOf.2 ⟨⟨by rw [hs.ovr]; exact (genT_true.1 hg).2, by rw [hs.gen]; exact (genT_true.1 hg).1⟩, by rw [← hck.deps]; exact hd, hdt⟩
    exact hall (d, getRec w R d.source) (List.mem_map.2 ⟨d, hm, rfl⟩)
  refine ⟨Inv_setChecked hi' hx hrc h0R hmx hrows, (hck.mono (Nat.le_succ _)).trans (CkExt.setChecked rank R w' f), ?_, ?_⟩
  · unfold VerR; simp only [setRec_recs_self]; exact ⟨by rw [hsame]; exact hfail, Or.inl trivial⟩
  · rintro (h | h | ⟨c, h1, h2⟩ | h)
    · exact h hfail
    · rw [hchg] at h; cases h
    · rw [hchg] at h1; cases h1; exact hle h2
    · exact h hstamp

/-- The rows of a file whose own marks reach `R` are those of a verified file: `//ALWAYS` among them is verified. -/
theorem A0_deps {rank R w f r ch} (hi : Inv rank R X w) (hs : Snap w R f r) (hf : r.failed = none)
    (hch : r.changed = some ch) {d : Dep} (hd : d ∈ depsOf w r f) (hm : d.modeM = true) :
    A0 w R (max ch (r.checked.getD 0)) d.source := by
  intro e hR
  obtain ⟨⟨ho, hg⟩, hd1, hd2⟩ := mem_depsOf.1 hd
  rw [hs.gen] at hg
  rw [hs.ovr] at ho
  have h0 := ne_always_of_rawgen hi.base hg
  have hg : genT (w.recs f) = true := genT_true.2 ⟨hg, ho⟩
  have hchg : (w.recs f).changed = some ch := by rw [← hs.changed h0]; exact hch
  have hfail : (w.recs f).failed = none := by rw [← hs.failed]; exact hf
  have h1 : ch ≤ R := hi.base.chLe f ch hchg
  have hv : VerR w R f := by
    refine ⟨hfail, ?_⟩
    cases hc : r.checked with
    | none => rw [hc] at hR; simp only [Option.getD_none] at hR; right; rw [hchg]; congr; omega
    | some c =>
      rw [hc] at hR; simp only [Option.getD_some] at hR
      have h2 := hs.ckLe c hc
      by_cases e1 : ch = R
      · right; rw [hchg, e1]
      · left
        have e2 : c = R := by omega
        rcases hs.checked with h | h
        · rw [← h, hc, e2]
        · exact h
  rcases ((hi.ver f hv).2.2 hg d hd1 hd2).1 hm with h | ⟨h, _⟩
  · exact e ▸ h
  · exact absurd e h

theorem ChkPost.notClean {rank R mx f w dr w' c} (hi : Inv rank R X w') (hd : DExt rank R (rank f + 1) w w')
    (h1 : dr = .dirty ∨ dr = .cyclic) (ho : OwnRel w w' f) : ChkPost rank X R mx f w (dr, w', c) := by
  refine ⟨hi, hd, ?_, ?_, fun _ => ho⟩
  · intro ts e; dsimp only at e; rcases h1 with h | h <;> rw [h] at e <;> cases e
  · intro e; dsimp only at e; rcases h1 with h | h <;> rw [h] at e <;> cases e

theorem isDirty_spec {rank R} : ∀ (fuel f mx : Nat) (seen : List Nat) (w : World) (cache : List Nat) (pre : Option Rec),
    Inv rank R X w → (∀ s, pre = some s → Snap w R f s) → (∀ x, X x → rank f < rank x) → A0 w R mx f →
    ChkPost rank X R mx f w (isDirty false R fuel w cache f mx seen pre)
  | 0, f, mx, seen, w, cache, pre, hi, _, _, _ => by
    simp only [isDirty]
    exact ChkPost.notClean hi (DExt.refl _ _ _ _) (Or.inr rfl) (Or.inl rfl)
  | fuel + 1, f, mx, seen, w, cache, pre, hi, hpre, hXa, ha0 => by
    have hs : Snap w R f (pre.getD (getRec w R f)) := by
      cases pre with
      | none => exact Snap.getRec hi.base f
      | some s => exact hpre s rfl
    rw [isDirty]
    by_cases hseen : f ∈ seen
    · simp only [hseen, if_true]
      exact ChkPost.notClean hi (DExt.refl _ _ _ _) (Or.inr rfl) (Or.inl rfl)
    simp only [hseen, if_false, Bool.false_eq_true]
    generalize pre.getD (getRec w R f) = r at hs
    have hdirty : ChkPost rank X R mx f w (DR.dirty, w, cache) :=
      ChkPost.notClean hi (DExt.refl _ _ _ _) (Or.inl rfl) (Or.inl rfl)
    obtain ⟨row, gen, ovr, ck, chg, fl, st, cs⟩ := r
    have hcs : cs = none := by have := hs.csum; rw [hi.base.noCsum f] at this; exact this
    subst hcs
    cases fl with
    | some x => simp only [Option.isSome_some, if_true]; exact hdirty
    | none =>
    simp only [Option.isSome_none, Bool.false_eq_true, if_false]
    cases chg with
    | none => exact hdirty
    | some ch =>
    dsimp only
    by_cases hgt : ch > mx
    · simp only [hgt, if_true]; exact hdirty
    simp only [hgt, if_false]
    split
    · rename_i hck
      obtain ⟨hv, hnd⟩ := chk_checked hi hs rfl rfl hgt hck
      exact ⟨hi, DExt.refl _ _ _ _, (fun ts e => by cases e), (fun _ => ⟨CkExt.refl _ _ _ _, hv, hnd⟩), fun h => absurd rfl h⟩
    rename_i hck
    cases st with
    | none => exact hdirty
    | some old =>
    dsimp only
    by_cases hne : old ≠ readStamp w f
    · simp only [hne, if_true, ne_eq, not_false_eq_true]
      obtain ⟨h1, h2, h3⟩ := chk_vanished hi hs rfl rfl hne
      exact ChkPost.notClean h1 h2 (Or.inl rfl) h3
    have heq : old = readStamp w f := by simpa using hne
    simp only [hne, if_false]
    have hg := goDeps_spec (rank := rank) (R := R) (mx := max ch (ck.getD 0))
      (fun w cache s snap => isDirty false R fuel w cache s (max ch (ck.getD 0)) (f :: seen) (some snap))
      (fun w1 c1 s snap hi1 hs1 hx1 ha1 => isDirty_spec fuel s _ _ w1 c1 (some snap) hi1
        (fun s' e => by cases e; exact hs1) hx1 ha1)
      f (rank f) (fun x hx => Nat.le_of_lt (hXa x hx)) (depsWithRecs w R { row := row, isGenerated := gen, isOverride := ovr, checked := ck, changed := some ch, stamp := some old } f)
      w cache hi (by
        intro p hp
        obtain ⟨d, hd, rfl⟩ := List.mem_map.1 hp
        obtain ⟨_, hd1, hd2⟩ := mem_depsOf.1 hd
        exact ⟨Snap.getRec hi.base _, hd2 ▸ hi.base.rowsLt d hd1, fun hm => A0_deps hi hs rfl rfl hd hm⟩)
    generalize goDeps _ false f _ w cache [] = res at hg ⊢
    obtain ⟨o, w', c'⟩ := res
    obtain ⟨hi', hdx, hr⟩ := hg
    dsimp only at hi' hdx hr
    rcases hr with hr | hr | ⟨hn, hckx, hall⟩
    · subst hr; exact ChkPost.notClean hi' (hdx.mono (Nat.le_succ _)) (Or.inl rfl) (Or.inl (hdx.above f (Nat.le_refl _)))
    · subst hr; exact ChkPost.notClean hi' (hdx.mono (Nat.le_succ _)) (Or.inr rfl) (Or.inl (hdx.above f (Nat.le_refl _)))
    · subst hn
      dsimp only
      cases ovr with
      | false =>
        simp only [Bool.false_and, Bool.false_eq_true, if_false]
        obtain ⟨h1, h2, h3, h4⟩ := chk_mark hi hi' (fun h => Nat.lt_irrefl _ (hXa f h)) hs hckx rfl rfl hgt rfl heq ha0 hall
        exact ⟨h1, h2.toDExt, (fun ts e => by cases e), (fun _ => ⟨h2, h3, h4⟩), fun h => absurd rfl h⟩
      | true =>
        simp only [Bool.not_false, Bool.and_self, if_true]
        obtain ⟨h1, h2, h3, h4⟩ := chk_mark (w' := ev w' (.warnOverride f)) hi ((WEqv.ev w' _).inv hi')
          (fun h => Nat.lt_irrefl _ (hXa f h)) hs (hckx.trans (CkExt.ev rank R _ w' _)) rfl rfl hgt rfl heq ha0 hall
        exact ⟨h1, h2.toDExt, (fun ts e => by cases e), (fun _ => ⟨h2, h3, h4⟩), fun h => absurd rfl h⟩

end RedoModel.Deps.Rich
