import RedoModel.Lemmas.DepsSoundR16
/-! A plain script: `runScript` is the loop over its `redo-ifchange` commands followed by the output. -/
namespace RedoModel.Deps.Rich

/-- The environment of the commands a script of `t` runs. -/
def childCx (cx : Ctx) (t : Nat) : Ctx :=
  { runid := cx.runid, parent := some t, cycles := t :: cx.cycles, keepGoing := cx.keepGoing, crash := cx.crash }

theorem rsFailNow_eq (sc : Script) (w : World) : rsFailNow sc w = failNowOf w sc := by
  unfold rsFailNow failNowOf contentOf
  cases sc.failIfOdd with
  | none => rfl
  | some f =>
    simp only
    cases w.fs f with
    | none => rfl
    | some n =>
      simp only [Option.map_some]
      rcases hn : n.content with _ | ⟨x, _ | ⟨y, l⟩⟩ <;> simp [oddC]

/-- A rich script without `redo-ifcreate`/conditional declarations: `redo-always`, the loop over its
`redo-ifchange` commands, the content-dependent failure, the output. -/
theorem runScript_richA (E : Engine) (d : Defects) (cx : Ctx) (t : Nat) (sc : Script) (w : World) (hp : sc.RichA) :
    runScript E d cx t sc w =
      (if (runScript.cmds E cx t (childCx cx t) sc.ifchange 0 (rsAlways cx t sc w)).1 ≠ 0 then
        ((runScript.cmds E cx t (childCx cx t) sc.ifchange 0 (rsAlways cx t sc w)).1, none,
          (runScript.cmds E cx t (childCx cx t) sc.ifchange 0 (rsAlways cx t sc w)).2)
       else if failNowOf (runScript.cmds E cx t (childCx cx t) sc.ifchange 0 (rsAlways cx t sc w)).2 sc then
        (1, none, (runScript.cmds E cx t (childCx cx t) sc.ifchange 0 (rsAlways cx t sc w)).2)
       else ((sc.exit : Int), outOf (runScript.cmds E cx t (childCx cx t) sc.ifchange 0 (rsAlways cx t sc w)).2 sc,
          (runScript.cmds E cx t (childCx cx t) sc.ifchange 0 (rsAlways cx t sc w)).2)) := by
  obtain ⟨⟨h4, _, _⟩, h2, h3⟩ := hp
  rw [runScript_eq]
  simp only [h2, List.any_nil, List.foldl_nil, Bool.false_eq_true, if_false]
  unfold rsBody
  simp only [h3, runScript.conds, ne_eq, not_true_eq_false, if_false]
  show (match runScript.cmds E cx t (childCx cx t) sc.ifchange 0 (rsAlways cx t sc w) with
    | (rv, w) => if rv ≠ 0 then (rv, none, w) else rsFinish cx t sc w) = _
  generalize runScript.cmds E cx t (childCx cx t) sc.ifchange 0 (rsAlways cx t sc w) = r
  obtain ⟨rv, w1⟩ := r
  simp only
  split
  · rfl
  · unfold rsFinish
    rw [rsFailNow_eq]
    split
    · rfl
    · simp only [h4]
      rfl

/-- The end of a script after its `redo-ifchange` commands returned `r`. -/
def scriptEnd (sc : Script) (r : Status × World) : Status × Option Content × World :=
  if r.1 ≠ 0 then (r.1, none, r.2)
  else if failNowOf r.2 sc then (1, none, r.2)
  else ((sc.exit : Int), outOf r.2 sc, r.2)

/-- The body of a rich script: conditional declarations, `redo-ifchange` commands, the end. -/
theorem rsBody_rich (E : Engine) (cx : Ctx) (t : Nat) (sc : Script) (w : World) (hp : sc.stamp = 0) :
    rsBody E cx t sc w =
      (if (runScript.conds E t (childCx cx t) sc.cond w).1 ≠ 0 then
        ((runScript.conds E t (childCx cx t) sc.cond w).1, none, (runScript.conds E t (childCx cx t) sc.cond w).2)
       else scriptEnd sc (runScript.cmds E cx t (childCx cx t) sc.ifchange 0
          (runScript.conds E t (childCx cx t) sc.cond w).2)) := by
  unfold rsBody
  show (match runScript.conds E t (childCx cx t) sc.cond w with
    | (rvc, w) => if rvc ≠ 0 then (rvc, none, w) else
      match runScript.cmds E cx t (childCx cx t) sc.ifchange 0 w with
      | (rv, w) => if rv ≠ 0 then (rv, none, w) else rsFinish cx t sc w) = _
  generalize runScript.conds E t (childCx cx t) sc.cond w = rc
  obtain ⟨rvc, w1⟩ := rc
  simp only
  split
  · rfl
  · generalize runScript.cmds E cx t (childCx cx t) sc.ifchange 0 w1 = r
    obtain ⟨rv, w2⟩ := r
    unfold scriptEnd
    simp only
    split
    · rfl
    · unfold rsFinish
      rw [rsFailNow_eq]
      split
      · rfl
      · simp only [hp]
        rfl

/-- The record of `//ALWAYS` after `redo-always`. -/
def alwRec (r : Rec) (R : Nat) : Rec := setChanged { r with stamp := some .missing } R

theorem alwRec_of_good {rank R X w} (hi : Inv rank R X w) (hv : VerR w R alwaysId) :
    alwRec (w.recs alwaysId) R = w.recs alwaysId := by
  have hc : (w.recs alwaysId).changed = some R := by
    rcases hv.2 with h | h
    · exact hi.base.rec0.ck h
    · exact h
  have hs := (hi.ver _ hv).1.2.2
  rw [readStamp_missing.2 hi.base.fs0] at hs
  have hf := hv.1
  have ho := hi.base.ovr0
  unfold alwRec setChanged
  generalize w.recs alwaysId = r at *
  cases r; simp_all

theorem alwRec_recOk {rank R X w} (hb : Base rank R X w) :
    RecOk R alwaysId (setRec w alwaysId (alwRec (w.recs alwaysId) R)) := by
  have o := hb.recOk alwaysId
  refine ⟨?_, ?_, ?_, ?_, ?_, ?_, ?_, ?_, ?_, ?_, ?_, ?_, ?_⟩ <;>
    simp only [setRec_recs_self, setRec_fs, setRec_rules, setRec_clock, alwRec, setChanged]
  · intro ch h; cases h; exact Nat.le_refl _
  · exact o.ckLe
  · exact o.noCsum
  · exact fun h => by cases h
  · exact fun _ => hb.rec0.gen
  · exact fun _ => ⟨rfl, hb.rec0.gen, fun _ => rfl, Or.inr rfl⟩
  · intro _ h; cases h
  · intro h; exact absurd rfl h
  · exact o.fsB
  · intro ms rest h; cases h
  · exact fun _ => trivial
  · exact fun _ => Or.inl trivial
  · intro k h; cases h

/-- `redo-always` re-stamps the `//ALWAYS` record: it becomes verified in this run. -/
theorem always_spec {rank R X w b po} (hi : Inv rank R X w) (hlt : rank alwaysId < b) :
    Inv rank R X (setRec w alwaysId (alwRec (w.recs alwaysId) R)) ∧
    BExt rank R b po w (setRec w alwaysId (alwRec (w.recs alwaysId) R)) ∧
    VerR (setRec w alwaysId (alwRec (w.recs alwaysId) R)) R alwaysId ∧
    (NoFail R w → NoFail R (setRec w alwaysId (alwRec (w.recs alwaysId) R))) := by
  have hnf : NoFail R w → NoFail R (setRec w alwaysId (alwRec (w.recs alwaysId) R)) :=
    fun h => h.setRec (by simp [alwRec, setChanged])
  have hv' : VerR (setRec w alwaysId (alwRec (w.recs alwaysId) R)) R alwaysId :=
    ⟨by simp [alwRec, setChanged], Or.inr (by simp [alwRec, setChanged])⟩
  by_cases hg : Good w R alwaysId
  · have hv : VerR w R alwaysId := by
      rcases hg with h | ⟨h, _⟩
      · exact h
      · exact absurd rfl h
    have e := WEqv.setRec_self w alwaysId
    rw [alwRec_of_good hi hv] at hv' ⊢
    exact ⟨e.inv hi, e.toBExt, hv', fun h => h.eqv e⟩
  · have off := OffT.setRec w alwaysId (alwRec (w.recs alwaysId) R)
    have hrc' : RecCur (setRec w alwaysId (alwRec (w.recs alwaysId) R)) alwaysId := by
      refine ⟨by simp [alwRec, setChanged], by simp [alwRec, setChanged], ?_⟩
      simp only [setRec_recs_self, setRec_readStamp, alwRec, setChanged]
      rw [readStamp_missing.2 hi.base.fs0]
    have hgen' : genT ((setRec w alwaysId (alwRec (w.recs alwaysId) R)).recs alwaysId) = false := by
      apply genT_of_gen_false
      simp only [setRec_recs_self, alwRec, setChanged]; exact hi.base.rec0.gen
    have hb' := Base_upd (X' := X) hi.base off (alwRec_recOk hi.base) (fun _ _ h => h) hi.base.rowsLt
      hi.base.cPlain (hdet_loud hi hg (by simp [alwRec, setChanged]))
      (fun _ _ hgen => by rw [hgen'] at hgen; cases hgen) (fun hgen _ => by rw [hgen'] at hgen; cases hgen)
    have hup : UpToDateR (setRec w alwaysId (alwRec (w.recs alwaysId) R)) alwaysId := by
      refine UpToDateR.source ?_
      show ∀ c ∈ w.rules alwaysId, _
      rw [hi.base.rulesOk.1]; intro c hc; cases hc
    refine ⟨⟨hb', hi.Rpos, Ver_upd hi off hg (fun _ => ⟨hrc', hup, fun hgen => by rw [hgen'] at hgen; cases hgen⟩)⟩,
      off.toBExt hi.base hlt (fun hv => absurd (Or.inl hv) hg) (fun _ _ => ⟨hrc', hgen', rfl⟩), hv', hnf⟩

end RedoModel.Deps.Rich
