import RedoModel.Lemmas.DepsSoundRK1
/-! Every step of the engine, killed or not, forced or not, respects the frame `Tr` (rules and scripts stay; when no
script watches, `c` rows stay confined to absent .do candidates). -/
namespace RedoModel.Deps.Rich
open RedoModel.Generated

/-- What a nested `redo-ifchange` must satisfy. -/
def ETr (E : Engine) : Prop := ∀ cx ts w, Tr w (E.ifchangeCmd cx ts w).2

theorem conds_tr (E : Engine) (hE : ETr E) (t : Nat) (cx' : Ctx) :
    ∀ (fs : List Nat) (w : World), (NoWatchP w → fs = []) → Tr w (runScript.conds E t cx' fs w).2
  | [], w, _ => by rw [runScript.conds]; exact Tr.refl w
  | f :: fs, w, hfs => by
    have hno : ¬ NoWatchP w := fun h => by have := hfs h; cases this
    rw [runScript.conds]
    split
    · have h := hE cx' [f] w
      generalize E.ifchangeCmd cx' [f] w = r at h
      obtain ⟨rv, w1⟩ := r
      split
      · rename_i heq
        cases heq
        exact h.trans (conds_tr E hE t cx' fs _ (fun hn => absurd (hn.congr h.progs.symm) hno))
      · rename_i heq
        cases heq
        exact h
    · have h1 : Tr w (addDep w t f false) := Tr.absurdM (addDep_rules _ _ _ _) (addDep_progs _ _ _ _) hno
      exact h1.trans (conds_tr E hE t cx' fs _ (fun hn => absurd (hn.congr h1.progs.symm) hno))

theorem cmds_tr (E : Engine) (hE : ETr E) (cx : Ctx) (t : Nat) (cx' : Ctx) :
    ∀ (cs : List (List Nat)) (k : Nat) (w : World), Tr w (runScript.cmds E cx t cx' cs k w).2
  | [], k, w => by rw [runScript.cmds]; exact Tr.refl w
  | c :: cs, k, w => by
    rw [runScript.cmds]
    split
    · exact Tr.refl w
    · have h := hE cx' c w
      generalize E.ifchangeCmd cx' c w = r at h
      obtain ⟨rv, w1⟩ := r
      split
      · rename_i heq
        cases heq
        exact h.trans (cmds_tr E hE cx t cx' cs _ _)
      · rename_i heq
        cases heq
        exact h

theorem rsAlways_tr (cx : Ctx) (t : Nat) (sc : Script) (w : World) : Tr w (rsAlways cx t sc w) := by
  unfold rsAlways
  split
  · dsimp only
    exact (Tr.addDepM w t alwaysId).trans (Tr.setRec _ _ _)
  · exact Tr.refl w

theorem rsFinish_tr (cx : Ctx) (t : Nat) (sc : Script) (w : World) : Tr w (rsFinish cx t sc w).2.2 := by
  rw [rsFinish_world]
  split
  · exact Tr.refl w
  · unfold rsStampW
    dsimp only
    split
    · exact Tr.refl w
    · exact (Tr.addKnown w t).trans (Tr.setRec _ t _)

theorem rsBody_tr (E : Engine) (hE : ETr E) (cx : Ctx) (t : Nat) (sc : Script) (w : World)
    (hsc : NoWatchP w → sc.cond = []) : Tr w (rsBody E cx t sc w).2.2 := by
  unfold rsBody
  dsimp only
  have h1 := conds_tr E hE t
    { runid := cx.runid, parent := some t, cycles := t :: cx.cycles, keepGoing := cx.keepGoing, crash := cx.crash }
    sc.cond w hsc
  generalize runScript.conds E t _ sc.cond w = r1 at h1
  obtain ⟨rvc, w1⟩ := r1
  dsimp only at h1 ⊢
  split
  · exact h1
  · have h2 := cmds_tr E hE cx t
      { runid := cx.runid, parent := some t, cycles := t :: cx.cycles, keepGoing := cx.keepGoing, crash := cx.crash }
      sc.ifchange 0 w1
    generalize runScript.cmds E cx t _ sc.ifchange 0 w1 = r2 at h2
    obtain ⟨rv, w2⟩ := r2
    dsimp only at h2 ⊢
    split
    · exact h1.trans h2
    · exact (h1.trans h2).trans (rsFinish_tr cx t sc w2)

theorem declareC_tr (t : Nat) : ∀ (fs : List Nat) (w : World), (NoWatchP w → fs = []) →
    Tr w (fs.foldl (fun w f => addDep w t f false) w)
  | [], w, _ => Tr.refl w
  | f :: fs, w, hfs => by
    have hno : ¬ NoWatchP w := fun h => by have := hfs h; cases this
    have h1 : Tr w (addDep w t f false) := Tr.absurdM (addDep_rules _ _ _ _) (addDep_progs _ _ _ _) hno
    exact h1.trans (declareC_tr t fs _ (fun hn => absurd (hn.congr h1.progs.symm) hno))

theorem runScript_tr (E : Engine) (hE : ETr E) (d : Defects) (cx : Ctx) (t : Nat) (sc : Script) (w : World)
    (hsc : NoWatchP w → sc.ifcreate = [] ∧ sc.cond = []) : Tr w (runScript E d cx t sc w).2.2 := by
  rw [runScript_eq]
  have ha := rsAlways_tr cx t sc w
  split
  · exact ha
  · have hc := declareC_tr t sc.ifcreate (rsAlways cx t sc w) (fun hn => (hsc (hn.congr ha.progs.symm)).1)
    exact (ha.trans hc).trans (rsBody_tr E hE cx t sc _
      (fun hn => (hsc (hn.congr (ha.trans hc).progs.symm)).2))

theorem ssBuild_tr (E : Engine) (hE : ETr E) (d : Defects) (cx : Ctx) (t : Nat) (sf : Rec) (w : World) :
    Tr w (ssBuild E d cx t sf w).2 := by
  unfold ssBuild
  dsimp only
  have h1 := (Tr.zapDeps1 w t).trans (Tr.findDoFile t ((zapDeps1 w t).rules t) (zapDeps1 w t) (fun _ h => h))
  generalize findDoFile t ((zapDeps1 w t).rules t) (zapDeps1 w t) = r at h1
  obtain ⟨o, w1⟩ := r
  dsimp only at h1
  cases o with
  | none =>
    dsimp only
    split
    · exact h1.trans (Tr.setRec _ t _)
    · exact h1.trans (Tr.setRec _ t _)
  | some dof =>
    dsimp only
    have h3 := (h1.trans (Tr.setRec w1 dof (setStatic w1 dof (w1.recs dof) cx.runid))).trans (Tr.ev _ (.ran t))
    generalize ev (setRec w1 dof (setStatic w1 dof (w1.recs dof) cx.runid)) (.ran t) = w3 at h3 ⊢
    have hsc : NoWatchP w3 → (scriptAt w3 dof).ifcreate = [] ∧ (scriptAt w3 dof).cond = [] :=
      fun hn => scriptAt_noWatch hn dof
    have h4 := runScript_tr E hE d cx t (scriptAt w3 dof) w3 hsc
    unfold scriptAt at h4
    generalize runScript E d cx t _ w3 = r4 at h4
    obtain ⟨rv, out, w4⟩ := r4
    dsimp only at h4 ⊢
    split
    · exact h3.trans h4
    · exact (h3.trans h4).trans (Tr.recordNewState cx t sf rv out w4)

theorem startSelf_tr (E : Engine) (hE : ETr E) (d : Defects) (cx : Ctx) (t : Nat) (sf0 : Rec) (w : World) :
    Tr w (startSelf E d cx t sf0 w).2 := by
  rw [startSelf_eq]
  have hk : Tr w (ssGuard cx t sf0 w).2 := by
    unfold ssGuard
    split
    · exact (Tr.ev w _).trans (Tr.setRec _ _ _)
    · exact Tr.refl w
  generalize ssGuard cx t sf0 w = g at hk
  obtain ⟨sf, w1⟩ := g
  dsimp only at hk ⊢
  split
  · exact hk.trans (Tr.setRec _ _ _)
  · exact hk.trans (ssBuild_tr E hE d cx t sf w1)

theorem shouldBuild_tr (cx : Ctx) (fuel t : Nat) (w : World) : Tr w (shouldBuild cx fuel t w).2 := by
  unfold shouldBuild
  split
  · exact Tr.refl w
  · dsimp only
    split
    · exact Tr.refl w
    · have h := isDirty_frame false cx.runid fuel w [] t cx.runid [] none
      generalize isDirty false cx.runid fuel w [] t cx.runid [] none = r at h
      obtain ⟨dr, w1, c⟩ := r
      exact Tr.sameButRecs h

theorem buildJob_tr (E : Engine) (hE : ETr E) (d : Defects) (cx : Ctx) (fuel t : Nat) (w : World) :
    Tr w (buildJob E d cx fuel t w).2 := by
  unfold buildJob
  dsimp only
  have hs := shouldBuild_tr cx fuel t w
  generalize shouldBuild cx fuel t w = sb at hs
  obtain ⟨o, w1⟩ := sb
  dsimp only at hs
  have hst := startSelf_tr E hE d cx t (w.recs t) w1
  cases o with
  | none => exact hs
  | some dr =>
    cases dr with
    | cyclic => exact hs
    | clean => exact hs
    | dirty => exact hs.trans hst
    | need ts =>
      dsimp only
      split
      · exact hs.trans hst
      · have h1 := hE { cx with noOob := true, unlocked := false, isRedo := false, cycles := t :: cx.cycles,
                                parent := if d.oobRecordsDepsOnCaller then cx.parent else none }
          (if w1.oobRev then ts.eraseDups.reverse else ts.eraseDups) w1
        generalize E.ifchangeCmd _ (if w1.oobRev then ts.eraseDups.reverse else ts.eraseDups) w1 = r1 at h1
        obtain ⟨rv1, w2⟩ := r1
        dsimp only at h1
        split
        · rename_i heq
          cases heq
          have h2 := hE { cx with noOob := true, unlocked := true, isRedo := false }
            (if d.oobRebuildsDepsNotTarget then (if w1.oobRev then ts.eraseDups.reverse else ts.eraseDups) else [t]) w2
          exact (hs.trans h1).trans h2
        · rename_i heq
          cases heq
          exact hs.trans h1

theorem runTargets_tr (E : Engine) (hE : ETr E) (d : Defects) (cx : Ctx) (fuel : Nat) :
    ∀ (ts seen : List Nat) (errored : Bool) (w : World), Tr w (runTargets E d cx fuel ts seen errored w).2
  | [], _, _, w => by rw [runTargets]; exact Tr.refl w
  | t :: ts, seen, errored, w => by
    rw [runTargets]
    split
    · exact runTargets_tr E hE d cx fuel ts seen errored w
    · split
      · exact Tr.refl w
      · dsimp only
        have ha := Tr.addKnown w t
        split
        · exact ha
        · have hb := buildJob_tr E hE d cx fuel t (addKnown w t)
          generalize buildJob E d cx fuel t (addKnown w t) = r at hb
          obtain ⟨jr, w1⟩ := r
          cases jr with
          | abort code => exact ha.trans hb
          | done rv =>
            dsimp only
            split
            · exact ha.trans hb
            · exact (ha.trans hb).trans (runTargets_tr E hE d cx fuel ts _ _ w1)

theorem ifchangeWith_tr (E : Engine) (hE : ETr E) (d : Defects) (fuel : Nat) (cx : Ctx) (ts : List Nat)
    (w : World) : Tr w (ifchangeWith E d fuel cx ts w).2 := by
  unfold ifchangeWith
  cases hp : cx.parent with
  | none =>
    simp only [Bool.false_eq_true, if_false]
    exact runTargets_tr E hE d cx fuel ts [] false w
  | some p =>
    dsimp only
    split
    · exact Tr.refl w
    · refine Tr.trans ?_ (runTargets_tr E hE d cx fuel ts [] false _)
      split
      · exact Tr.refl w
      · exact (Tr.addKnown w _).trans (Tr.declare _ ts _)

/-- Every nested `redo-ifchange` of the real engine respects the frame, for every defect switch. -/
theorem engine_tr (d : Defects) : ∀ n, ETr (engine d n)
  | 0 => fun _ _ w => Tr.refl w
  | n + 1 => fun cx ts w => ifchangeWith_tr (engine d n) (engine_tr d n) d (n + 1) cx ts w

end RedoModel.Deps.Rich
