import RedoModel.Lemmas.DepsSoundS27
/-! Forced rebuild of a verified generated target: `findDoFile`, the declarations and the nested commands
only re-declare what is recorded and find everything clean. -/
namespace RedoModel.Deps.S
open RedoModel.Generated

theorem findDoFile_good {rank R X t dof post} :
    ∀ (pre : List Nat) (w : World), Inv rank R X w → VerR w R t → (w.recs t).isGenerated = true →
      (∀ c ∈ pre, existsF w c = false ∧ HasRow w t c false) → existsF w dof = true → HasRow w t dof true →
      (findDoFile t (pre ++ dof :: post) w).1 = some dof ∧ Inv rank R X (findDoFile t (pre ++ dof :: post) w).2 ∧
      RowOp t w (findDoFile t (pre ++ dof :: post) w).2 ∧
      (∀ c ∈ pre, HasRowU (findDoFile t (pre ++ dof :: post) w).2 t c false) ∧
      HasRowU (findDoFile t (pre ++ dof :: post) w).2 t dof true ∧
      (∀ d ∈ (findDoFile t (pre ++ dof :: post) w).2.deps, d.target = t → d ∈ w.deps ∨ DoRow w (some dof) d) ∧
      SameTriples w (findDoFile t (pre ++ dof :: post) w).2
  | [], w, hi, hv, hg, _, hdex, hdrow => by
    simp only [List.nil_append, findDoFile, hdex, if_true]
    refine ⟨trivial, (Inv_readd hi hv hg hdrow).1, RowOp.addDep w t dof true, fun c hc => by simp at hc,
      addDep_hasRowU_new w t dof true, fun d hd _ => ?_, (Inv_readd hi hv hg hdrow).2⟩
    rcases addDep_mem hd with rfl | ⟨h, _⟩
    · exact Or.inr ⟨rfl, (fun h => by cases h), fun _ => rfl⟩
    · exact Or.inl h
  | c :: pre, w, hi, hv, hg, hpre, hdex, hdrow => by
    obtain ⟨hcabs, hcrow⟩ := hpre c (by simp)
    simp only [List.cons_append, findDoFile, hcabs, Bool.false_eq_true, if_false]
    have hro := RowOp.addDep w t c false
    obtain ⟨hi1, hst⟩ := Inv_readd hi hv hg hcrow
    obtain ⟨a1, a2, a3, a4, a5, a6, a7⟩ := findDoFile_good pre (addDep w t c false) hi1 ((hro.verR R t).2 hv)
      (by rw [hro.eqv.gen]; exact hg)
      (fun c' hc' => ⟨by rw [hro.existsF]; exact (hpre c' (List.mem_cons_of_mem _ hc')).1,
        (hst _ _ _).2 (hpre c' (List.mem_cons_of_mem _ hc')).2⟩)
      (by rw [hro.existsF]; exact hdex) ((hst _ _ _).2 hdrow)
    refine ⟨a1, a2, hro.trans a3, ?_, a5, ?_, hst.trans a7⟩
    · intro c' hc'
      rcases List.mem_cons.1 hc' with rfl | hc'
      · exact findDoFile_keeps t c' _ _ (addDep_hasRowU_new w t c' false) (by rw [hro.existsF]; exact hcabs)
      · exact a4 c' hc'
    · intro d hd hdt
      rcases a6 d hd hdt with h | ⟨q1, q2, q3⟩
      · rcases addDep_mem h with rfl | ⟨h, _⟩
        · exact Or.inr ⟨rfl, (fun _ => hcabs), (fun h => by cases h)⟩
        · exact Or.inl h
      · exact Or.inr ⟨q1, fun hm => by rw [← hro.existsF]; exact q2 hm, q3⟩

theorem declare_good {rank R X p} :
    ∀ (ts : List Nat) (w : World), Inv rank R X w → VerR w R p → (w.recs p).isGenerated = true →
      (∀ d ∈ ts, HasRow w p d true) →
      Inv rank R X (declare p ts w) ∧ RowOp p w (declare p ts w) ∧ RowsDecl p ts w (declare p ts w) ∧
      (∀ d ∈ ts, HasRowU (declare p ts w) p d true) ∧ SameTriples w (declare p ts w)
  | [], w, hi, _, _, _ => ⟨hi, RowOp.refl p w, RowsDecl.refl _ _ _, fun d hd => by simp at hd, SameTriples.refl w⟩
  | t :: ts, w, hi, hv, hg, hrows => by
    have hro := RowOp.addDep w p t true
    obtain ⟨hi1, hst⟩ := Inv_readd hi hv hg (hrows t (by simp))
    obtain ⟨a1, a2, a3, a4, a5⟩ := declare_good ts (addDep w p t true) hi1 ((hro.verR R p).2 hv)
      (by rw [hro.eqv.gen]; exact hg) (fun d hd => (hst _ _ _).2 (hrows d (List.mem_cons_of_mem _ hd)))
    have hstep : RowsDecl p [t] w (addDep w p t true) := by
      refine ⟨fun d hd _ => ?_, fun s m hr hm => ?_⟩
      · rcases addDep_mem hd with rfl | ⟨h, _⟩
        · exact Or.inr ⟨rfl, by simp, rfl⟩
        · exact Or.inl h
      · by_cases e : s = t
        · subst e; rw [hm (by simp)]; exact addDep_hasRowU_new w p s true
        · exact addDep_hasRowU_keep hr (fun ⟨_, h2⟩ => e h2)
    refine ⟨a1, hro.trans a2, hstep.trans a3, fun d hd => ?_, hst.trans a5⟩
    rcases List.mem_cons.1 hd with rfl | hd
    · exact a3.2 d true (addDep_hasRowU_new w p d true) (fun _ => rfl)
    · exact a4 d hd

theorem buildJob_good {rank R X t w fuel} {cx : Ctx} (E : Engine) (d : Defects) (hcx : cx.runid = R)
    (hredo : cx.isRedo = false) (hi : Inv rank R X w) (hg : Good w R t) (hXa : ∀ x, X x → rank t < rank x)
    (hfuel : rank t < fuel) : (buildJob E d cx fuel t w).1 = .done 0 := by
  subst hcx
  have hrc := hg.recCur hi
  have hfr : isFailedR (getRec w cx.runid t) cx.runid = false := by
    unfold isFailedR; rw [getRec_failed, hrc.1]
  have hgc := good_clean (rank := rank) (R := cx.runid) (X := X) fuel t [] w [] none hi hg (fun s e => by cases e) hXa
  unfold buildJob shouldBuild
  simp only [hredo, Bool.false_eq_true, if_false, hfr]
  generalize isDirty false cx.runid fuel w [] t cx.runid [] none = res at hgc
  obtain ⟨dr, w1, c⟩ := res
  rcases hgc with h | ⟨_, h⟩
  · dsimp only at h; subst h; rfl
  · exact absurd ⟨hfuel, fun x hx => by simp at hx⟩ h

theorem runTargets_good {rank R E b fuel} {cx : Ctx} {X : Nat → Prop} (hE : ESpec rank R E) (d : Defects)
    (hd1 : d.oobRecordsDepsOnCaller = false) (hd2 : d.oobRebuildsDepsNotTarget = false)
    (hcx : cx.runid = R) (hredo : cx.isRedo = false) (hcrash : cx.crash = none)
    (hXb : ∀ x, X x → b ≤ rank x) (hfuel : b ≤ fuel) :
    ∀ (ts seen : List Nat) (w : World), Inv rank R X w → (∀ t ∈ ts, rank t < b ∧ Good w R t ∧ t ∉ cx.cycles) →
      (runTargets E d cx fuel ts seen false w).1 = 0
  | [], seen, w, _, _ => by simp [runTargets]
  | t :: ts, seen, w, hi, hts => by
    obtain ⟨hlt, hg, hcy⟩ := hts t (by simp)
    have htl : ∀ t' ∈ ts, rank t' < b ∧ Good w R t' ∧ t' ∉ cx.cycles := fun t' h => hts t' (List.mem_cons_of_mem _ h)
    rw [runTargets]
    by_cases hin : t ∈ seen
    · simp only [hin, if_true]
      exact runTargets_good hE d hd1 hd2 hcx hredo hcrash hXb hfuel ts seen w hi htl
    simp only [hin, if_false, Bool.false_and, Bool.false_eq_true, hcy, decide_false, Bool.and_false]
    have e1 := WEqv.addKnown w t
    have hi1 := e1.inv hi
    have hXa : ∀ x, X x → rank t < rank x := fun x hx => Nat.lt_of_lt_of_le hlt (hXb x hx)
    have hj := buildJob_spec (fuel := fuel) (b := b) (t := t) hE d hd1 hd2 hcx hredo hcrash hi1 hXa hlt none
    have hgood := buildJob_good (fuel := fuel) E d hcx hredo hi1 ((e1.good R t).2 hg) hXa (Nat.lt_of_lt_of_le hlt hfuel)
    generalize buildJob E d cx fuel t (addKnown w t) = res at hj hgood
    obtain ⟨jr, w2⟩ := res
    dsimp only at hgood
    subst hgood
    obtain ⟨j1, j2, _, _, _⟩ := hj
    have hnc : (0 : Status) ≠ CRASHED := CRASHED_ne_zero
    simp only [hnc, if_false, ne_eq, not_true_eq_false, decide_false, Bool.or_false]
    exact runTargets_good hE d hd1 hd2 hcx hredo hcrash hXb hfuel ts (t :: seen) w2 j1
      (fun t' h => ⟨(htl t' h).1, j2.good ((e1.good R t').2 (htl t' h).2.1), (htl t' h).2.2⟩)

end RedoModel.Deps.S
