import RedoModel.Lemmas.Deps
/-!
# Run-id shift — part 0: the order embedding and how the primitive operations commute with it

`sh R` is the order embedding of the run ids that makes room at `R`: ids `< R` stay, ids `≥ R`
move up by one (so `R ↦ R + 1`).  `shW R` applies it to every record of a world.  A process with
run id `R + 1` on `shW R w` behaves like a process with run id `R` on `w` — every operation of the
engine commutes with the shift (the engine only compares run ids, takes maxima and writes its own).
-/
namespace RedoModel.Deps

def sh (R x : Nat) : Nat := if R ≤ x then x + 1 else x

def shRec (R : Nat) (r : Rec) : Rec :=
  { r with checked := r.checked.map (sh R), changed := r.changed.map (sh R), failed := r.failed.map (sh R) }

def shW (R : Nat) (w : World) : World :=
  { w with recs := fun f => shRec R (w.recs f), runCounter := w.runCounter + 1 }

def shCx (cx : Ctx) : Ctx := { cx with runid := cx.runid + 1 }

/-! ### The embedding -/

theorem sh_self (R : Nat) : sh R R = R + 1 := by simp [sh]

theorem sh_zero {R : Nat} (hR : 0 < R) : sh R 0 = 0 := by
  unfold sh; split <;> omega

theorem sh_lt_sh (R a b : Nat) : sh R a < sh R b ↔ a < b := by
  unfold sh; split <;> split <;> omega

theorem sh_gt_sh (R a b : Nat) : sh R a > sh R b ↔ a > b := sh_lt_sh R b a

theorem sh_le_sh (R a b : Nat) : sh R a ≤ sh R b ↔ a ≤ b := by
  unfold sh; split <;> split <;> omega

theorem sh_ge_succ (R a : Nat) : sh R a ≥ R + 1 ↔ a ≥ R := by
  unfold sh; split <;> omega

theorem sh_eq_zero {R : Nat} (hR : 0 < R) (a : Nat) : sh R a = 0 ↔ a = 0 := by
  unfold sh; split <;> omega

theorem sh_max (R a b : Nat) : max (sh R a) (sh R b) = sh R (max a b) := by
  unfold sh
  split <;> split <;> split <;> omega

theorem sh_of_lt {R x : Nat} (h : x < R) : sh R x = x := by
  unfold sh; split <;> omega

/-! ### Records -/

@[simp] theorem shRec_row (R : Nat) (r : Rec) : (shRec R r).row = r.row := rfl
@[simp] theorem shRec_isGenerated (R : Nat) (r : Rec) : (shRec R r).isGenerated = r.isGenerated := rfl
@[simp] theorem shRec_isOverride (R : Nat) (r : Rec) : (shRec R r).isOverride = r.isOverride := rfl
@[simp] theorem shRec_stamp (R : Nat) (r : Rec) : (shRec R r).stamp = r.stamp := rfl
@[simp] theorem shRec_csum (R : Nat) (r : Rec) : (shRec R r).csum = r.csum := rfl
@[simp] theorem shRec_checked (R : Nat) (r : Rec) : (shRec R r).checked = r.checked.map (sh R) := rfl
@[simp] theorem shRec_changed (R : Nat) (r : Rec) : (shRec R r).changed = r.changed.map (sh R) := rfl
@[simp] theorem shRec_failed (R : Nat) (r : Rec) : (shRec R r).failed = r.failed.map (sh R) := rfl

theorem markTest_sh {R : Nat} (hR : 0 < R) (c : Nat) :
    (sh R c != 0 && decide (sh R c ≥ R + 1)) = (c != 0 && decide (c ≥ R)) := by
  have h2 : decide (sh R c ≥ R + 1) = decide (c ≥ R) := decide_eq_decide.2 (sh_ge_succ R c)
  rw [h2]
  by_cases hc : c = 0
  · subst hc; rw [sh_zero hR]
  · have : sh R c ≠ 0 := fun h => hc ((sh_eq_zero hR c).1 h)
    have e1 : (sh R c != 0) = true := bne_iff_ne.2 this
    have e2 : (c != 0) = true := bne_iff_ne.2 hc
    rw [e1, e2]

theorem isCheckedR_sh {R : Nat} (hR : 0 < R) (r : Rec) : isCheckedR (shRec R r) (R + 1) = isCheckedR r R := by
  unfold isCheckedR
  simp only [shRec_checked]
  cases r.checked with
  | none => rfl
  | some c =>
    simp only [Option.map_some]
    exact markTest_sh hR c

theorem isChangedR_sh {R : Nat} (hR : 0 < R) (r : Rec) : isChangedR (shRec R r) (R + 1) = isChangedR r R := by
  unfold isChangedR
  simp only [shRec_changed]
  cases r.changed with
  | none => rfl
  | some c =>
    simp only [Option.map_some]
    exact markTest_sh hR c

theorem isFailedR_sh {R : Nat} (hR : 0 < R) (r : Rec) : isFailedR (shRec R r) (R + 1) = isFailedR r R := by
  unfold isFailedR
  simp only [shRec_failed]
  cases r.failed with
  | none => rfl
  | some c =>
    simp only [Option.map_some]
    exact markTest_sh hR c

theorem setChanged_sh (R : Nat) (r : Rec) : setChanged (shRec R r) (R + 1) = shRec R (setChanged r R) := by
  simp [setChanged, shRec, sh_self]

theorem stampRec_sh (R : Nat) (r : Rec) (data : Content) :
    stampRec (shRec R r) (R + 1) data = shRec R (stampRec r R data) := by
  by_cases h : r.csum = some data
  · simp [stampRec, shRec, sh_self, h]
  · simp [stampRec, setChanged, shRec, sh_self, h]

/-! ### Worlds -/

@[simp] theorem shW_fs (R : Nat) (w : World) : (shW R w).fs = w.fs := rfl
@[simp] theorem shW_deps (R : Nat) (w : World) : (shW R w).deps = w.deps := rfl
@[simp] theorem shW_recs (R : Nat) (w : World) (f : Nat) : (shW R w).recs f = shRec R (w.recs f) := rfl
@[simp] theorem shW_clock (R : Nat) (w : World) : (shW R w).clock = w.clock := rfl
@[simp] theorem shW_nextRow (R : Nat) (w : World) : (shW R w).nextRow = w.nextRow := rfl
@[simp] theorem shW_progs (R : Nat) (w : World) : (shW R w).progs = w.progs := rfl
@[simp] theorem shW_rules (R : Nat) (w : World) : (shW R w).rules = w.rules := rfl
@[simp] theorem shW_trace (R : Nat) (w : World) : (shW R w).trace = w.trace := rfl
@[simp] theorem shW_oobRev (R : Nat) (w : World) : (shW R w).oobRev = w.oobRev := rfl

@[simp] theorem readStamp_sh (R : Nat) (w : World) (f : Nat) : readStamp (shW R w) f = readStamp w f := rfl
@[simp] theorem existsF_sh (R : Nat) (w : World) (f : Nat) : existsF (shW R w) f = existsF w f := rfl

theorem getRec_sh (R : Nat) (w : World) (f : Nat) : getRec (shW R w) (R + 1) f = shRec R (getRec w R f) := by
  unfold getRec
  simp only [shW_recs]
  split
  · cases h : (w.recs f).changed with
    | none => simp [shRec, h, sh_self]
    | some c =>
      have := sh_max R R c
      rw [sh_self] at this
      simp [shRec, h, this]
  · rfl

theorem setRec_sh (R : Nat) (w : World) (f : Nat) (r : Rec) :
    setRec (shW R w) f (shRec R r) = shW R (setRec w f r) := by
  simp only [setRec, shW]
  congr 1
  funext x
  split <;> rfl

theorem setFile_sh (R : Nat) (w : World) (f : Nat) (n : Option FNode) :
    setFile (shW R w) f n = shW R (setFile w f n) := rfl

theorem ev_sh (R : Nat) (w : World) (e : Ev) : ev (shW R w) e = shW R (ev w e) := rfl

theorem addKnown_sh (R : Nat) (w : World) (f : Nat) : addKnown (shW R w) f = shW R (addKnown w f) := by
  by_cases h : (w.recs f).row ≠ 0
  · have h' : ((shW R w).recs f).row ≠ 0 := h
    rw [addKnown, addKnown, if_pos h, if_pos h']
  · have h' : ¬ ((shW R w).recs f).row ≠ 0 := h
    rw [addKnown, addKnown, if_neg h, if_neg h']
    have : ({ ((shW R w).recs f) with row := (shW R w).nextRow } : Rec) = shRec R { (w.recs f) with row := w.nextRow } := rfl
    rw [this, setRec_sh]
    rfl

theorem known_sh (R : Nat) (w : World) (f : Nat) : known (shW R w) f = known w f := rfl

theorem addDep_sh (R : Nat) (w : World) (t s : Nat) (m : Bool) : addDep (shW R w) t s m = shW R (addDep w t s m) := by
  unfold addDep
  simp only [addKnown_sh]
  rfl

theorem zapDeps1_sh (R : Nat) (w : World) (t : Nat) : zapDeps1 (shW R w) t = shW R (zapDeps1 w t) := rfl
theorem zapDeps2_sh (R : Nat) (w : World) (t : Nat) : zapDeps2 (shW R w) t = shW R (zapDeps2 w t) := rfl

theorem newNode_sh (R : Nat) (w : World) (c : Content) :
    newNode (shW R w) c = ((newNode w c).1, shW R (newNode w c).2) := rfl

theorem depsOf_sh (R : Nat) (w : World) (r : Rec) (f : Nat) : depsOf (shW R w) (shRec R r) f = depsOf w r f := rfl

theorem depsWithRecs_sh (R : Nat) (w : World) (r : Rec) (f : Nat) :
    depsWithRecs (shW R w) (R + 1) (shRec R r) f = (depsWithRecs w R r f).map (fun p => (p.1, shRec R p.2)) := by
  simp only [depsWithRecs, depsOf_sh, List.map_map]
  congr 1
  funext d
  simp [getRec_sh]

theorem updateStamp_sh (R : Nat) (w : World) (f : Nat) (r : Rec) :
    updateStamp (shW R w) f (shRec R r) (R + 1) = shRec R (updateStamp w f r R) := by
  by_cases h : r.stamp = some (readStamp w f)
  · simp [updateStamp, h]
  · simp [updateStamp, h, setChanged, shRec, sh_self]

theorem setFailed_sh (R : Nat) (w : World) (f : Nat) (r : Rec) :
    setFailed (shW R w) f (shRec R r) (R + 1) = shRec R (setFailed w f r R) := by
  unfold setFailed
  simp only [updateStamp_sh]
  simp [shRec, sh_self]

theorem setStatic_sh (R : Nat) (w : World) (f : Nat) (r : Rec) :
    setStatic (shW R w) f (shRec R r) (R + 1) = shRec R (setStatic w f r R) := by
  unfold setStatic
  simp only [updateStamp_sh]
  simp [shRec]

theorem setOverride_sh (R : Nat) (w : World) (f : Nat) (r : Rec) :
    setOverride (shW R w) f (shRec R r) (R + 1) = shRec R (setOverride w f r R) := by
  unfold setOverride
  simp only [updateStamp_sh]
  simp [shRec]

end RedoModel.Deps
