import RedoModel.Lemmas.DepsOodUp1
/-!
# redo-ood, upper bound — part 2: a "clean" answer of the builder's walk is a `PC` derivation

The builder's walk (`ood = false`) of a fresh run `R` (no record carries `checked ≥ R` yet) writes `checked := R` on
what it found clean and "vanished" conversions.  Invariant (`GInv`): every record is the original one, the original
one with `checked := R` *and the file has a `PC` derivation*, or one that is reported dirty (`failed` set).
-/
namespace RedoModel.Deps

def GRec (w : World) (R g : Nat) (r : Rec) : Prop :=
  r = getRec w R g ∨ (r = { getRec w R g with checked := some R } ∧ ∃ mx, PC w R g mx) ∨ r.failed.isSome = true

def GInv (w w' : World) (R : Nat) : Prop :=
  w'.fs = w.fs ∧ w'.deps = w.deps ∧ ∀ g, (w'.recs g).row = (w.recs g).row ∧ GRec w R g (getRec w' R g)

def GPost (w : World) (R f mx : Nat) (res : DR × World × List Nat) : Prop :=
  GInv w res.2.1 R ∧ (res.1 = .clean → PC w R f mx) ∧ res.1 ≠ .need []

theorem GInv.refl (w : World) (R : Nat) : GInv w w R := ⟨rfl, rfl, fun _ => ⟨rfl, .inl rfl⟩⟩

theorem GInv.rs {w w' : World} {R : Nat} (h : GInv w w' R) (f : Nat) : readStamp w' f = readStamp w f := by
  simp [readStamp, h.1]

theorem GInv.ex {w w' : World} {R : Nat} (h : GInv w w' R) (f : Nat) : existsF w' f = existsF w f := by
  simp [existsF, h.1]

theorem GInv.dp {w w' : World} {R : Nat} (h : GInv w w' R) (r : Rec) (f : Nat) : depsOf w' r f = depsOf w r f := by
  have : (fun (a b : Dep) => decide ((w'.recs a.source).row ≤ (w'.recs b.source).row))
      = (fun (a b : Dep) => decide ((w.recs a.source).row ≤ (w.recs b.source).row)) := by
    funext a b
    rw [(h.2.2 a.source).1, (h.2.2 b.source).1]
  simp only [depsOf, h.2.1, this]

theorem GInv.ev {w w' : World} {R : Nat} (h : GInv w w' R) (e : Ev) : GInv w (ev w' e) R := h

theorem GInv.vanish {w w' : World} {R : Nat} (h : GInv w w' R) (f : Nat) (r : Rec) (hr : r = getRec w R f) :
    GInv w (setRec w' f { r with isGenerated := false, isOverride := false, failed := some 0 }) R := by
  refine ⟨h.1, h.2.1, fun g => ?_⟩
  by_cases hg : g = f
  · subst hg
    refine ⟨?_, .inr (.inr ?_)⟩
    · simp only [setRec, if_true, hr]
      simp only [getRec]
      split <;> rfl
    · simp only [getRec, setRec, if_true]
      split <;> rfl
  · have e1 : (setRec w' f { r with isGenerated := false, isOverride := false, failed := some 0 }).recs g = w'.recs g := by
      simp [setRec, hg]
    rw [e1, getRec_setRec_ne w' R f g _ hg]
    exact h.2.2 g

theorem GInv.mark {w w' : World} {R : Nat} (h : GInv w w' R) (f mx : Nat) (hpc : PC w R f mx) :
    GInv w (setRec w' f { getRec w R f with checked := some R }) R := by
  refine ⟨h.1, h.2.1, fun g => ?_⟩
  by_cases hg : g = f
  · subst hg
    refine ⟨?_, .inr (.inl ⟨?_, mx, hpc⟩)⟩
    · have : (setRec w' g { getRec w R g with checked := some R }).recs g = { getRec w R g with checked := some R } := by
        simp [setRec]
      rw [this]
      simp only [getRec]
      split <;> rfl
    · by_cases h0 : g = alwaysId
      · subst h0
        obtain ⟨x, hx, hle⟩ := getRec_changed_ge w R
        exact getRec_setRec_always w' R _ x hx hle
      · exact getRec_setRec_self_ne w' R g _ h0
  · have e1 : (setRec w' f { getRec w R f with checked := some R }).recs g = w'.recs g := by
      simp [setRec, hg]
    rw [e1, getRec_setRec_ne w' R f g _ hg]
    exact h.2.2 g

theorem goDeps_builder_pc (w : World) (R mx' : Nat) (chk : World → List Nat → Nat → Rec → DR × World × List Nat)
    (hchk : ∀ w' cache s snap, GInv w w' R → GRec w R s snap → GPost w R s mx' (chk w' cache s snap))
    (hasCsum : Bool) (f : Nat) :
    ∀ (ds : List (Dep × Rec)) (w' : World) (cache must : List Nat),
      GInv w w' R → (∀ p ∈ ds, GRec w R p.1.source p.2) →
      GInv w (goDeps chk hasCsum f ds w' cache must).2.1 R ∧
      (∀ dr, (goDeps chk hasCsum f ds w' cache must).1 = some dr → dr ≠ .clean ∧ dr ≠ .need []) ∧
      ((goDeps chk hasCsum f ds w' cache must).1 = none → must = [] ∧
        ∀ p ∈ ds, (p.1.modeM = true → PC w R p.1.source mx') ∧ (p.1.modeM = false → existsF w p.1.source = false))
  | [], w', cache, must => by
    intro hi _
    rw [goDeps]
    refine ⟨hi, ?_, ?_⟩
    · cases must <;> simp
    · cases must <;> simp
  | (d, snap) :: ds, w', cache, must => by
    intro hi hds
    have hds' : ∀ p ∈ ds, GRec w R p.1.source p.2 := fun p hp => hds p (List.mem_cons_of_mem _ hp)
    rw [goDeps]
    by_cases hm : d.modeM = true
    · simp only [hm, if_true]
      have h1 := hchk w' cache d.source snap hi (hds (d, snap) List.mem_cons_self)
      generalize chk w' cache d.source snap = r at h1
      obtain ⟨sub, w1, c1⟩ := r
      obtain ⟨hi1, hpc, hne⟩ := h1
      dsimp only at hi1 hpc hne ⊢
      cases sub with
      | cyclic => exact ⟨hi1, (fun dr h => by cases h; simp), (fun h => by cases h)⟩
      | dirty => exact ⟨hi1, (fun dr h => by cases hasCsum <;> cases h <;> simp), (fun h => by cases h)⟩
      | clean =>
        obtain ⟨a, c0, c⟩ := goDeps_builder_pc w R mx' chk hchk hasCsum f ds w1 c1 must hi1 hds'
        refine ⟨a, c0, fun hn => ⟨(c hn).1, fun p hp => ?_⟩⟩
        rcases List.mem_cons.1 hp with rfl | hp
        · exact ⟨fun _ => hpc rfl, fun h => by simp [hm] at h⟩
        · exact (c hn).2 p hp
      | need ts =>
        obtain ⟨a, c0, c⟩ := goDeps_builder_pc w R mx' chk hchk hasCsum f ds w1 c1 (must ++ ts) hi1 hds'
        refine ⟨a, c0, fun hn => ?_⟩
        exfalso
        have := (c hn).1
        cases ts with
        | nil => exact hne rfl
        | cons x xs => simp at this
    · simp only [hm, Bool.false_eq_true, if_false]
      by_cases hex : existsF w' d.source = true
      · simp only [hex, if_true]
        exact ⟨hi, (fun dr h => by cases hasCsum <;> cases h <;> simp), (fun h => by cases h)⟩
      · simp only [hex, Bool.false_eq_true, if_false]
        obtain ⟨a, c0, c⟩ := goDeps_builder_pc w R mx' chk hchk hasCsum f ds w' cache must hi hds'
        refine ⟨a, c0, fun hn => ⟨(c hn).1, fun p hp => ?_⟩⟩
        rcases List.mem_cons.1 hp with rfl | hp
        · refine ⟨fun h => absurd h hm, fun _ => ?_⟩
          rw [← hi.ex]
          simpa using hex
        · exact (c hn).2 p hp

theorem GPost.triv {w : World} {R f mx : Nat} {w' : World} {cache : List Nat} {dr : DR}
    (hi : GInv w w' R) (h1 : dr ≠ .clean) (h2 : dr ≠ .need []) : GPost w R f mx (dr, w', cache) :=
  ⟨hi, fun h => absurd h h1, h2⟩

/-- **A "clean" answer of the builder's walk of a fresh run is a `PC` derivation.** -/
theorem isDirty_builder_pc (w : World) (R : Nat) (hR : R ≠ 0) (hfresh : ∀ g, isCheckedR (getRec w R g) R = false) :
    ∀ (fuel : Nat) (w' : World) (cache : List Nat) (f mx : Nat) (seen : List Nat) (pre : Option Rec),
      GInv w w' R → (∀ s, pre = some s → GRec w R f s) →
      GPost w R f mx (isDirty false R fuel w' cache f mx seen pre)
  | 0, w', cache, f, mx, seen, pre => by
    intro hi _
    rw [isDirty]
    exact GPost.triv hi (by simp) (by simp)
  | fuel + 1, w', cache, f, mx, seen, pre => by
    intro hi hpre
    have hr : GRec w R f (pre.getD (getRec w' R f)) := by
      cases pre with
      | none => exact (hi.2.2 f).2
      | some s => exact hpre s rfl
    simp (config := { zeta := true, zetaHave := true }) only [isDirty, Bool.false_eq_true, ↓reduceIte]
    generalize pre.getD (getRec w' R f) = r at hr ⊢
    split
    · exact GPost.triv hi (by simp) (by simp)
    split
    · exact GPost.triv hi (by simp) (by simp)
    rename_i hnf
    split
    · exact GPost.triv hi (by simp) (by simp)
    rename_i ch hch
    split
    · exact GPost.triv hi (by simp) (by simp)
    rename_i hle
    split
    · rename_i hck
      refine ⟨hi, fun _ => ?_, by simp⟩
      rcases hr with h | ⟨h, mx0, hpc⟩ | h
      · subst h; rw [hfresh f] at hck; cases hck
      · have hc' : (getRec w R f).changed = some ch := by rw [h] at hch; exact hch
        exact hpc.rebound hc' (by omega)
      · exact absurd h hnf
    rename_i hnck
    have hre : r = getRec w R f := by
      rcases hr with h | ⟨h, _⟩ | h
      · exact h
      · exfalso; apply hnck; subst h; simp [isCheckedR, hR]
      · exact absurd h hnf
    split
    · exact GPost.triv hi (by simp) (by simp)
    rename_i old hold
    split
    · refine GPost.triv ?_ (by split <;> simp) (by split <;> simp)
      split
      · exact hi.vanish f r hre
      · exact hi
    rename_i hsame
    have hsame' : old = readStamp w' f := by simpa using hsame
    have hgd := goDeps_builder_pc w R (max ch (r.checked.getD 0))
      (fun w cache s snap => isDirty false R fuel w cache s (max ch (r.checked.getD 0)) (f :: seen) (some snap))
      (fun w2 c2 s snap h1 h2 => isDirty_builder_pc w R hR hfresh fuel w2 c2 s _ (f :: seen) (some snap) h1
        (fun s' hs' => by cases hs'; exact h2))
      r.csum.isSome f (depsWithRecs w' R r f) w' cache [] hi
      (by
        intro p hp
        simp only [depsWithRecs, List.mem_map] at hp
        obtain ⟨d, _, rfl⟩ := hp
        exact (hi.2.2 d.source).2)
    generalize goDeps _ r.csum.isSome f (depsWithRecs w' R r f) w' cache [] = gr at hgd
    obtain ⟨o, w2, c2⟩ := gr
    obtain ⟨hi2, hne, hnone⟩ := hgd
    dsimp only at hi2 hne hnone
    cases o with
    | some dr =>
      dsimp only
      exact GPost.triv hi2 (hne dr rfl).1 (hne dr rfl).2
    | none =>
      dsimp only
      have hpc : PC w R f mx := by
        subst hre
        refine PC.mk f mx ch (by simpa using hnf) hch (by omega) ?_ ?_ ?_
        · rw [hold, hsame', hi.rs]
        · intro d hd hmode
          have := (hnone rfl).2 (d, getRec w' R d.source)
            (by simp only [depsWithRecs, List.mem_map]; exact ⟨d, by rw [hi.dp]; exact hd, rfl⟩)
          exact this.1 hmode
        · intro d hd hmode
          have := (hnone rfl).2 (d, getRec w' R d.source)
            (by simp only [depsWithRecs, List.mem_map]; exact ⟨d, by rw [hi.dp]; exact hd, rfl⟩)
          exact this.2 hmode
      refine ⟨?_, fun _ => hpc, by simp⟩
      subst hre
      split
      · exact (hi2.ev _).mark f mx hpc
      · exact hi2.mark f mx hpc

end RedoModel.Deps
