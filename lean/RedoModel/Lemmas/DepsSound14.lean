import RedoModel.Lemmas.DepsSound13
/-! `setStatic` on an existing file keeps the invariant and makes the file good. -/
namespace RedoModel.Deps

theorem readStamp_ne_missing {w : World} {t : Nat} (h : existsF w t = true) : readStamp w t ≠ .missing := by
  intro e; rw [existsF_eq_false.2 (readStamp_missing.1 e)] at h; cases h

theorem notFA_of_cur {w : World} {t : Nat} (hex : existsF w t = true)
    (hs : (w.recs t).stamp = some (readStamp w t)) : ¬ FailedAbsent w t := by
  intro h; have := h.2.2; rw [hs] at this; exact readStamp_ne_missing hex (Option.some.inj this)

theorem setStatic_recOk {rank R X w t} (hb : Base rank R X w) (hex : existsF w t = true) :
    RecOk R t (setRec w t (setStatic w t (w.recs t) R)) := by
  have o := hb.recOk t
  obtain ⟨n, hn⟩ := existsF_eq_true.1 hex
  have hrs : readStamp w t = .st n.ms n.rest := by unfold readStamp; rw [hn]
  refine ⟨?_, ?_, ?_, ?_, ?_, ?_, ?_, ?_, ?_, ?_, ?_, ?_, ?_, ?_⟩ <;>
    simp only [setRec_recs_self, setRec_fs, setRec_rules, setRec_clock, setStatic_failed, setStatic_ovr,
      setStatic_gen, setStatic_stamp, setStatic_checked, setStatic_csum]
  · intro ch h; rw [setStatic_changed] at h
    split at h
    · exact o.chLe ch h
    · cases h; exact Nat.le_refl _
  · exact o.ckLe
  · exact fun _ => trivial
  · intro e; subst e; rw [hb.fs0] at hn; cases hn
  · intro _; rw [setStatic_changed]
    split
    · rename_i h; exact o.stampCh (by rw [h]; simp)
    · simp
  · intro _ _; rw [hrs]; simp
  · intro h; cases h
  · exact o.fsB
  · intro ms rest h
    rw [hrs] at h; cases h
    refine ⟨o.fsB n hn, fun n' hn' => ?_⟩
    rw [hn] at hn'; cases hn'
    exact Or.inr ⟨rfl, Nat.le_refl _⟩
  · exact fun _ => trivial
  · exact fun _ => Or.inl trivial
  · intro k h; cases h

theorem setStatic_spec {rank R X w t b po} (hi : Inv rank R X w) (hex : existsF w t = true)
    (hgg : Good w R t → (w.recs t).isGenerated = false) (hlt : rank t < b) :
    Inv rank R X (setRec w t (setStatic w t (w.recs t) R)) ∧
    Good (setRec w t (setStatic w t (w.recs t) R)) R t ∧
    BExt rank R b po w (setRec w t (setStatic w t (w.recs t) R)) ∧
    (NoFail R w → NoFail R (setRec w t (setStatic w t (w.recs t) R))) := by
  have hnf : ∀ w0 : World, NoFail R w0 → NoFail R (setRec w0 t (setStatic w t (w.recs t) R)) :=
    fun w0 h => h.setRec (by simp)
  by_cases hg : Good w R t
  · have hrc := hg.recCur hi
    rw [setStatic_cur hrc (hgg hg) (hi.base.noOvr t) (hi.base.noCsum t)]
    have e := WEqv.setRec_self w t
    exact ⟨e.inv hi, (e.good R t).2 hg, e.toBExt, fun h => h.eqv e⟩
  · have off := OffT.setRec w t (setStatic w t (w.recs t) R)
    have hrc' : RecCur (setRec w t (setStatic w t (w.recs t) R)) t := by
      refine ⟨by simp, ?_, by simp⟩
      simp only [setRec_recs_self, setStatic_changed]
      split
      · rename_i h; exact hi.base.stampCh t (by rw [h]; simp)
      · simp
    have hgood' : Good (setRec w t (setStatic w t (w.recs t) R)) R t := Or.inr ⟨hrc', by simp⟩
    have hdet : ∀ u, u ≠ t → RecCur w u → (w.recs u).isGenerated = true → HasRow w u t true →
        DetectS (setRec w t (setStatic w t (w.recs t) R)) (Mof (w.recs u)) t ∨
        (contentOf (setRec w t (setStatic w t (w.recs t) R)) t = contentOf w t ∧ ¬ DetectS w (Mof (w.recs u)) t) := by
      by_cases hs : (w.recs t).stamp = some (readStamp w t)
      · exact hdet_quiet rfl (by simp [setStatic_changed, hs]) (fun h => absurd hs h)
          (fun h => absurd h (notFA_of_cur hex hs))
      · exact hdet_loud hi hg (by simp [setStatic_changed, hs])
    have hb' := Base_upd (X' := X) hi.base off (setStatic_recOk hi.base hex) (fun _ _ h => h) hi.base.rowsLt
      hi.base.cPlain hdet (fun _ _ hgen => by simp at hgen)
    refine ⟨⟨hb', hi.Rpos, Ver_upd hi off hg (fun _ => ⟨hrc', UpToDateD.user (by simp) hex, fun hgen => by simp at hgen⟩)⟩,
      hgood', off.toBExt hi.base hlt (fun hv => absurd (Or.inl hv) hg) (fun hc hgen => absurd (Or.inr ⟨hc, hgen⟩) hg),
      hnf w⟩

theorem setFailed_recOk {rank R X w t} (hi : Inv rank R X w) (hng : ¬ Good w R t)
    (hpl : w.rules t = [] → existsF w t = false) :
    RecOk R t (setRec w t (setFailed w t (w.recs t) R)) := by
  have hb := hi.base
  have o := hb.recOk t
  refine ⟨?_, ?_, ?_, ?_, ?_, ?_, ?_, ?_, ?_, ?_, ?_, ?_, ?_, ?_⟩ <;>
    simp only [setRec_recs_self, setRec_fs, setRec_rules, setRec_clock, setFailed_failed,
      setFailed_stamp, setFailed_checked, setFailed_csum, setFailed_gen]
  · intro ch h; rw [setFailed_changed] at h
    split at h
    · exact o.chLe ch h
    · cases h; exact Nat.le_refl _
  · exact o.ckLe
  · exact o.noCsum
  · exact setFailed_ovr w t _ R o.noOvr
  · intro h
    have := hpl h
    rw [readStamp_missing.2 (existsF_eq_false.1 this)]; rfl
  · exact fun _ => Or.inl (by simp)
  · intro _; rw [setFailed_changed]
    split
    · rename_i h; exact o.stampCh (by rw [h]; simp)
    · simp
  · intro h; cases h
  · intro _ n hn
    exact ⟨n.rest, by unfold readStamp; rw [hn]⟩
  · exact o.fsB
  · intro ms rest h
    cases hn : w.fs t with
    | none => rw [readStamp_missing.2 hn] at h; cases h
    | some n =>
      have hrs : readStamp w t = .st n.ms n.rest := by unfold readStamp; rw [hn]
      rw [hrs] at h; cases h
      exact ⟨o.fsB n hn, fun n' hn' => by cases hn'; exact Or.inr ⟨rfl, Nat.le_refl _⟩⟩
  · intro h
    exact absurd (Or.inl ⟨hb.ckFail t h, Or.inl h⟩) hng
  · exact fun _ => Or.inr trivial
  · intro k h; cases h; exact Nat.le_refl _

/-- Recording a failure for a target that is not good. -/
theorem setFailed_spec {rank R w w' t b po} {X X' : Nat → Prop} (hi : Inv rank R X w) (hng : ¬ Good w R t)
    (hX : ∀ u, u ≠ t → ¬ X' u → ¬ X u) (off : OffT t w w') (hfs : w'.fs t = w.fs t)
    (hsub : ∀ d ∈ w'.deps, d ∈ w.deps) (hrec : Flds (w'.recs t) (setFailed w t (w.recs t) R))
    (hpl : w.rules t = [] → existsF w t = false) (hlt : rank t < b) :
    Inv rank R X' w' ∧ BExt rank R b po w w' ∧ (w'.recs t).failed = some R := by
  have hfail : (w'.recs t).failed = some R := by rw [hrec.failed]; rfl
  have hok : RecOk R t w' :=
    (setFailed_recOk hi hng hpl).congr (by simpa using hrec) hfs off.rules off.clock
  have hdet : ∀ u, u ≠ t → RecCur w u → (w.recs u).isGenerated = true → HasRow w u t true →
      DetectS w' (Mof (w.recs u)) t ∨ (contentOf w' t = contentOf w t ∧ ¬ DetectS w (Mof (w.recs u)) t) := by
    by_cases hs : (w.recs t).stamp = some (readStamp w t)
    · refine hdet_quiet (contentOf_congr hfs) ?_ (fun h => absurd hs h) (fun h => ?_)
      · rw [hrec.changed, setFailed_changed, if_pos hs]
      · have hm : readStamp w t = .missing := by
          have := h.2.2; rw [hs] at this; exact Option.some.inj this
        refine ⟨by rw [hfail]; simp, by rw [hrec.gen, setFailed_gen, hm]; rfl, by rw [hrec.stamp, setFailed_stamp, hm]⟩
    · exact hdet_loud hi hng (by rw [hrec.changed, setFailed_changed, if_neg hs])
  have hb' := Base_upd (X' := X') hi.base off hok hX (fun d hd => hi.base.rowsLt d (hsub d hd))
    (fun d hd hm => by rw [off.rules]; exact hi.base.cPlain d (hsub d hd) hm) hdet
    (fun _ hrc _ => by rw [hrc.1] at hfail; cases hfail)
  exact ⟨⟨hb', hi.Rpos, Ver_upd hi off hng (fun hv => by rw [hv.1] at hfail; cases hfail)⟩,
    off.toBExt hi.base hlt (fun hv => absurd (Or.inl hv) hng) (fun hc hg => absurd (Or.inr ⟨hc, hg⟩) hng), hfail⟩

/-- Recording "static" for a file that exists and is not good (general form). -/
theorem setStatic_spec' {rank R w w' t b po} {X X' : Nat → Prop} (hi : Inv rank R X w) (hng : ¬ Good w R t)
    (hX : ∀ u, u ≠ t → ¬ X' u → ¬ X u) (off : OffT t w w') (hfs : w'.fs t = w.fs t)
    (hsub : ∀ d ∈ w'.deps, d ∈ w.deps) (hrec : Flds (w'.recs t) (setStatic w t (w.recs t) R))
    (hex : existsF w t = true) (hlt : rank t < b) :
    Inv rank R X' w' ∧ Good w' R t ∧ BExt rank R b po w w' ∧ (w'.recs t).failed = none := by
  have hfail : (w'.recs t).failed = none := by rw [hrec.failed]; rfl
  have hgen : (w'.recs t).isGenerated = false := by rw [hrec.gen]; rfl
  have hok : RecOk R t w' :=
    (setStatic_recOk hi.base hex).congr (by simpa using hrec) hfs off.rules off.clock
  have hrs : readStamp w' t = readStamp w t := readStamp_congr hfs
  have hrc' : RecCur w' t := by
    refine ⟨hfail, ?_, by rw [hrec.stamp, hrs]; simp⟩
    rw [hrec.changed, setStatic_changed]
    split
    · rename_i h; exact hi.base.stampCh t (by rw [h]; simp)
    · simp
  have hdet : ∀ u, u ≠ t → RecCur w u → (w.recs u).isGenerated = true → HasRow w u t true →
      DetectS w' (Mof (w.recs u)) t ∨ (contentOf w' t = contentOf w t ∧ ¬ DetectS w (Mof (w.recs u)) t) := by
    by_cases hs : (w.recs t).stamp = some (readStamp w t)
    · refine hdet_quiet (contentOf_congr hfs) ?_ (fun h => absurd hs h) (fun h => absurd h (notFA_of_cur hex hs))
      rw [hrec.changed, setStatic_changed, if_pos hs]
    · exact hdet_loud hi hng (by rw [hrec.changed, setStatic_changed, if_neg hs])
  have hb' := Base_upd (X' := X') hi.base off hok hX (fun d hd => hi.base.rowsLt d (hsub d hd))
    (fun d hd hm => by rw [off.rules]; exact hi.base.cPlain d (hsub d hd) hm) hdet
    (fun _ _ hg => by rw [hgen] at hg; cases hg)
  have hex' : existsF w' t = true := by rw [existsF_congr hfs]; exact hex
  exact ⟨⟨hb', hi.Rpos, Ver_upd hi off hng (fun _ => ⟨hrc', UpToDateD.user hgen hex', fun hg => by rw [hgen] at hg; cases hg⟩)⟩,
    Or.inr ⟨hrc', hgen⟩,
    off.toBExt hi.base hlt (fun hv => absurd (Or.inl hv) hng) (fun hc hg => absurd (Or.inr ⟨hc, hg⟩) hng), hfail⟩

theorem setStatic_flds {a b : Rec} (h : Flds a b) (w : World) (t R : Nat) :
    Flds (setStatic w t a R) (setStatic w t b R) := by
  refine ⟨rfl, rfl, ?_, ?_, rfl, ?_, ?_⟩
  · simp [h.checked]
  · rw [setStatic_changed, setStatic_changed, h.stamp, h.changed]
  · simp
  · simp

theorem setFailed_flds {a b : Rec} (h : Flds a b) (w : World) (t R : Nat) :
    Flds (setFailed w t a R) (setFailed w t b R) := by
  refine ⟨?_, ?_, ?_, ?_, rfl, ?_, ?_⟩
  · rw [setFailed_gen, setFailed_gen]
  · unfold setFailed updateStamp setChanged; simp only [h.stamp]; split <;> simp [h.ovr]
  · simp [h.checked]
  · rw [setFailed_changed, setFailed_changed, h.stamp, h.changed]
  · simp
  · simp [h.csum]

end RedoModel.Deps
