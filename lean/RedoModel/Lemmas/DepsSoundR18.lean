import RedoModel.Lemmas.DepsSoundR17
/-! `recordNewState` after a successful script: the fields of the resulting world. -/
namespace RedoModel.Deps.Rich

structure OkFields (R t : Nat) (out : Option Content) (w w' : World) : Prop where
  rules : w'.rules = w.rules
  progs : w'.progs = w.progs
  fs : ∀ x, x ≠ t → w'.fs x = w.fs x
  content : contentOf w' t = out
  recs : ∀ x, x ≠ t → w'.recs x = w.recs x
  deps : w'.deps = w.deps.filter (fun d => !(d.target = t && d.deleteMe))
  clock : w.clock ≤ w'.clock
  rc : w'.runCounter = w.runCounter
  fsB : ∀ n, w'.fs t = some n → n.ms ≤ w'.clock
  gen : (w'.recs t).isGenerated = true
  ovr : (w'.recs t).isOverride = false
  checked : (w'.recs t).checked = (w.recs t).checked
  changed : (w'.recs t).changed = some R
  failed : (w'.recs t).failed = none
  stamp : (w'.recs t).stamp = some (readStamp w' t)
  csum : (w'.recs t).csum = none

theorem isCheckedR_ext (r : Rec) (R : Nat) (g o : Bool) :
    isCheckedR { r with isGenerated := g, isOverride := o } R = isCheckedR r R := rfl
theorem isChangedR_ext (r : Rec) (R : Nat) (g o : Bool) :
    isChangedR { r with isGenerated := g, isOverride := o } R = isChangedR r R := rfl

theorem updateStamp_gen (w : World) (t : Nat) (r : Rec) (R : Nat) : (updateStamp w t r R).isGenerated = r.isGenerated := by
  unfold updateStamp setChanged; simp only; split <;> rfl

/-- The record written after a successful build. -/
def okRec (w : World) (t : Nat) (r : Rec) (R : Nat) : Rec :=
  setChanged (updateStamp w t { r with isGenerated := true, isOverride := false, csum := none } R) R

theorem okRec_gen (w t r R) : (okRec w t r R).isGenerated = true := by
  unfold okRec setChanged; simp only [updateStamp_gen]
theorem okRec_ovr (w t r R) : (okRec w t r R).isOverride = false := rfl
theorem okRec_failed (w t r R) : (okRec w t r R).failed = none := rfl
theorem okRec_changed (w t r R) : (okRec w t r R).changed = some R := rfl
theorem okRec_checked (w t r R) : (okRec w t r R).checked = r.checked := by
  unfold okRec setChanged; simp only [updateStamp_checked]
theorem okRec_stamp (w t r R) : (okRec w t r R).stamp = some (readStamp w t) := by
  unfold okRec setChanged; simp only [updateStamp_stamp]
theorem okRec_csum (w t r R) : (okRec w t r R).csum = none := by
  unfold okRec setChanged; simp only [updateStamp_csum]

theorem recordOk_eq (cx : Ctx) (t : Nat) (sf : Rec) (out : Option Content) (w : World)
    (hck : isCheckedR (w.recs t) cx.runid = false) (hch : isChangedR (w.recs t) cx.runid = false) :
    recordNewState cx t sf 0 out w =
      (0, match out with
        | some c => setRec (zapDeps2 (setFile { w with clock := w.clock + 1 } t
              (some { content := c, ms := w.clock + 1, rest := 0 })) t) t
            (okRec (setFile { w with clock := w.clock + 1 } t (some { content := c, ms := w.clock + 1, rest := 0 })) t
              (w.recs t) cx.runid)
        | none => setRec (zapDeps2 (setFile w t none) t) t (okRec (setFile w t none) t (w.recs t) cx.runid)) := by
  unfold isCheckedR at hck
  unfold isChangedR at hch
  unfold recordNewState
  simp only [if_true]
  cases out with
  | none =>
    have e : (setFile w t none).recs t = w.recs t := rfl
    simp only [e, isCheckedR, isChangedR, hck, hch, Bool.or_self, Bool.false_eq_true, if_false]
    rfl
  | some c =>
    have e : (setFile { w with clock := w.clock + 1 } t (some { content := c, ms := w.clock + 1, rest := 0 })).recs t
        = w.recs t := rfl
    simp only [newNode, e, isCheckedR, isChangedR, hck, hch, Bool.or_self, Bool.false_eq_true, if_false]
    rfl

theorem recordOk_fields (cx : Ctx) (t : Nat) (sf : Rec) (out : Option Content) (w : World)
    (hck : isCheckedR (w.recs t) cx.runid = false) (hch : isChangedR (w.recs t) cx.runid = false) :
    (recordNewState cx t sf 0 out w).1 = 0 ∧ OkFields cx.runid t out w (recordNewState cx t sf 0 out w).2 := by
  rw [recordOk_eq cx t sf out w hck hch]
  refine ⟨rfl, ?_⟩
  cases out with
  | none =>
    refine ⟨rfl, rfl, fun x hx => by simp [zapDeps2, setFile, hx], ?_, fun x hx => setRec_recs_other _ _ _ hx,
      rfl, Nat.le_refl _, rfl, ?_, ?_, ?_, ?_, ?_, ?_, ?_, ?_⟩
    · simp [contentOf, zapDeps2, setFile]
    · intro n hn; simp [zapDeps2, setFile] at hn
    all_goals simp only [setRec_recs_self]
    · exact okRec_gen _ _ _ _
    · exact okRec_ovr _ _ _ _
    · exact okRec_checked _ _ _ _
    · exact okRec_changed _ _ _ _
    · exact okRec_failed _ _ _ _
    · exact okRec_stamp _ _ _ _
    · exact okRec_csum _ _ _ _
  | some c =>
    refine ⟨rfl, rfl, fun x hx => by simp [zapDeps2, setFile, hx], ?_, fun x hx => setRec_recs_other _ _ _ hx,
      rfl, Nat.le_succ _, rfl, ?_, ?_, ?_, ?_, ?_, ?_, ?_, ?_⟩
    · simp [contentOf, zapDeps2, setFile]
    · intro n hn
      simp only [setRec_fs, zapDeps2, setFile, if_true, Option.some.injEq] at hn
      subst hn; exact Nat.le_refl _
    all_goals simp only [setRec_recs_self]
    · exact okRec_gen _ _ _ _
    · exact okRec_ovr _ _ _ _
    · exact okRec_checked _ _ _ _
    · exact okRec_changed _ _ _ _
    · exact okRec_failed _ _ _ _
    · exact okRec_stamp _ _ _ _
    · exact okRec_csum _ _ _ _

/-- The other branch of `recordNewState`: the record was already marked in this run; only its stamp moves. -/
structure KeepFields (t : Nat) (out : Option Content) (w w' : World) : Prop where
  rules : w'.rules = w.rules
  progs : w'.progs = w.progs
  fs : ∀ x, x ≠ t → w'.fs x = w.fs x
  content : contentOf w' t = out
  recs : ∀ x, x ≠ t → w'.recs x = w.recs x
  deps : w'.deps = w.deps.filter (fun d => !(d.target = t && d.deleteMe))
  clock : w.clock ≤ w'.clock
  rc : w'.runCounter = w.runCounter
  fsB : ∀ n, w'.fs t = some n → n.ms ≤ w'.clock
  gen : (w'.recs t).isGenerated = true
  ovr : (w'.recs t).isOverride = false
  checked : (w'.recs t).checked = (w.recs t).checked
  changed : (w'.recs t).changed = (w.recs t).changed
  failed : (w'.recs t).failed = (w.recs t).failed
  stamp : (w'.recs t).stamp = some (readStamp w' t)
  csum : (w'.recs t).csum = (w.recs t).csum

theorem recordKeep_fields (cx : Ctx) (t : Nat) (sf : Rec) (out : Option Content) (w : World)
    (hm : (isCheckedR (w.recs t) cx.runid || isChangedR (w.recs t) cx.runid) = true) :
    (recordNewState cx t sf 0 out w).1 = 0 ∧ KeepFields t out w (recordNewState cx t sf 0 out w).2 := by
  unfold isCheckedR isChangedR at hm
  unfold recordNewState
  simp only [if_true]
  cases out with
  | none =>
    have e : (setFile w t none).recs t = w.recs t := rfl
    simp only [e, isCheckedR, isChangedR, hm, if_true]
    refine ⟨trivial, rfl, rfl, fun x hx => by simp [zapDeps2, setFile, hx], ?_, fun x hx => setRec_recs_other _ _ _ hx,
      rfl, Nat.le_refl _, rfl, ?_, ?_, ?_, ?_, ?_, ?_, ?_, ?_⟩
    · simp [contentOf, zapDeps2, setFile]
    · intro n hn; simp [zapDeps2, setFile] at hn
    all_goals simp only [setRec_recs_self]
    · rfl
  | some c =>
    have e : (setFile { w with clock := w.clock + 1 } t (some { content := c, ms := w.clock + 1, rest := 0 })).recs t
        = w.recs t := rfl
    simp only [newNode, e, isCheckedR, isChangedR, hm, if_true]
    refine ⟨trivial, rfl, rfl, fun x hx => by simp [zapDeps2, setFile, hx], ?_, fun x hx => setRec_recs_other _ _ _ hx,
      rfl, Nat.le_succ _, rfl, ?_, ?_, ?_, ?_, ?_, ?_, ?_, ?_⟩
    · simp [contentOf, zapDeps2, setFile]
    · intro n hn
      simp only [setRec_fs, zapDeps2, setFile, if_true, Option.some.injEq] at hn
      subst hn; exact Nat.le_refl _
    all_goals simp only [setRec_recs_self]
    · rfl

theorem OkFields.genT {R t out w w'} (h : OkFields R t out w w') : Rich.genT (w'.recs t) = true :=
  genT_true.2 ⟨h.gen, h.ovr⟩

theorem KeepFields.genT {t out w w'} (h : KeepFields t out w w') : Rich.genT (w'.recs t) = true :=
  genT_true.2 ⟨h.gen, h.ovr⟩

end RedoModel.Deps.Rich
