import RedoModel.Lemmas.WaitsProgress
/-!
# Deadlock freedom, part 2: the descent

From `Inv` and "no alive process is enabled" every alive process `x` has a *successor*: an alive process
`y` spawned under an execution `k` such that, if `x` itself was spawned under `u`, `k` ranks strictly below
`u`.  Iterating is impossible in a well-founded rank, so some process is enabled.

The measure `m` on execution keys has to satisfy
* `R1`: `f ∈ reach u → m (oobKey f) < m u`  (both executions that keep `f` busy rank below the spawner), and
* `R2`: `m f < m (oobKey f)`                 (phase 2 of the out-of-band rebuild ranks below phase 1).
`progress_measure` is stated with such an `m`; `progress` derives `m k = 2 * rank k + k / 1000000` from a
rank of the declared graph that does not distinguish `f` and `oobKey f`.
-/
namespace RedoModel.Waits

section descent
variable {reach : Nat → List Nat} {univ : List Nat} {s : State}

theorem not_enabled_blocked {x : Proc} {h : Nat} (hb : x.blocked = some h)
    (hne : enabled s univ x = false) : ∃ q, s.owner h = some q := by
  simp only [enabled, hb] at hne
  cases ho : s.owner h with
  | none => simp [ho] at hne
  | some q => exact ⟨q, rfl⟩

theorem not_enabled_unblocked {x : Proc} (hb : x.blocked = none) (hne : enabled s univ x = false) :
    (∃ e ∈ s.scripts, e.2 = x.pid) ∧
    (∀ e ∈ s.scripts, e.2 = x.pid → ∃ y ∈ s.procs, y.under = some e.1) ∧
    (∀ f ∈ univ, s.owner f = some x.pid → ∃ e ∈ s.scripts, covers e f = true) := by
  simp only [enabled, hb, Bool.or_eq_false_iff] at hne
  obtain ⟨⟨h1, h2⟩, h3⟩ := hne
  refine ⟨?_, ?_, ?_⟩
  · cases hm : s.scripts.filter (fun e => e.2 == x.pid) with
    | nil => simp [hm] at h1
    | cons e l =>
      have : e ∈ s.scripts.filter (fun e => e.2 == x.pid) := by rw [hm]; exact List.mem_cons_self ..
      rw [List.mem_filter] at this
      exact ⟨e, this.1, by simpa using this.2⟩
  · intro e he hep
    have hmem : e ∈ s.scripts.filter (fun e => e.2 == x.pid) := by
      rw [List.mem_filter]; exact ⟨he, by simpa using hep⟩
    have := List.any_eq_false.1 h2 e hmem
    simpa using this
  · intro f hf ho
    have := List.any_eq_false.1 h3 f hf
    simpa [ho] using this

/-- The successor step of the descent. -/
theorem successor (m : Nat → Nat)
    (R1 : ∀ u f, f ∈ reach u → m (oobKey f) < m u) (R2 : ∀ f, m f < m (oobKey f))
    (hI : Inv reach univ s) (hne : ∀ x ∈ s.procs, enabled s univ x = false)
    {x : Proc} (hx : x ∈ s.procs) :
    ∃ y ∈ s.procs, ∃ k, y.under = some k ∧ ∀ u, x.under = some u → m k < m u := by
  have keyOk : ∀ u k, KeyOk reach u k → m k < m u := by
    intro u k hk
    rcases hk with hk | ⟨f, hf, rfl⟩ | rfl
    · exact Nat.lt_trans (R2 k) (R1 u k hk)
    · exact R1 u f hf
    · exact R2 k
  cases hb : x.blocked with
  | some h =>
    obtain ⟨hin, hal, _, _⟩ := hI.blocked x hx h hb
    obtain ⟨q, hq⟩ := not_enabled_blocked hb (hne x hx)
    obtain ⟨xq, hxq, hqp, _⟩ := hI.owner h q hq
    -- the owner is not blocked
    have hqb : xq.blocked = none := by
      cases hqb : xq.blocked with
      | none => rfl
      | some h' =>
        obtain ⟨_, _, hno, _⟩ := hI.blocked xq hxq h' hqb
        exact absurd (hqp ▸ hq) (hno h hin)
    obtain ⟨_, _, hcov⟩ := not_enabled_unblocked hqb (hne xq hxq)
    obtain ⟨e, he, hce⟩ := hcov h hin (hqp ▸ hq)
    -- the runner of the covering execution is alive and not blocked
    obtain ⟨xr, hxr, hrp, _⟩ := hI.runner e he
    have hrb : xr.blocked = none := by
      cases hrb : xr.blocked with
      | none => rfl
      | some h' =>
        obtain ⟨_, _, _, hno⟩ := hI.blocked xr hxr h' hrb
        exact absurd hrp.symm (hno e he)
    obtain ⟨_, hch, _⟩ := not_enabled_unblocked hrb (hne xr hxr)
    obtain ⟨y, hy, hyu⟩ := hch e he hrp.symm
    refine ⟨y, hy, e.1, hyu, ?_⟩
    intro u hu
    have hr : h ∈ reach u := by simpa [allowed, hu] using hal
    simp only [covers, Bool.or_eq_true, beq_iff_eq] at hce
    rcases hce with hce | hce
    · rw [hce]; exact Nat.lt_trans (R2 h) (R1 u h hr)
    · rw [hce]; exact R1 u h hr
  | none =>
    obtain ⟨⟨e, he, hep⟩, hch, _⟩ := not_enabled_unblocked hb (hne x hx)
    obtain ⟨y, hy, hyu⟩ := hch e he hep
    refine ⟨y, hy, e.1, hyu, ?_⟩
    intro u hu
    obtain ⟨z, hz, hzp, hzk⟩ := hI.runner e he
    have : z = x := pid_inj hI.pids hz hx (by rw [hzp, hep])
    subst this
    exact keyOk u e.1 (hzk u hu)

theorem no_descent (m : Nat → Nat)
    (R1 : ∀ u f, f ∈ reach u → m (oobKey f) < m u) (R2 : ∀ f, m f < m (oobKey f))
    (hI : Inv reach univ s) (hne : ∀ x ∈ s.procs, enabled s univ x = false) :
    ∀ n, ∀ y ∈ s.procs, ∀ k, y.under = some k → m k = n → False := by
  intro n
  induction n using Nat.strongRecOn with
  | _ n ih =>
    intro y hy k hk hm
    obtain ⟨y', hy', k', hk', hlt⟩ := successor m R1 R2 hI hne hy
    exact ih (m k') (hm ▸ hlt k hk) y' hy' k' hk' rfl

/-- In a state satisfying the invariant, if a process is alive then one is enabled. -/
theorem inv_not_deadlocked (m : Nat → Nat)
    (R1 : ∀ u f, f ∈ reach u → m (oobKey f) < m u) (R2 : ∀ f, m f < m (oobKey f))
    (hI : Inv reach univ s) : deadlocked s univ = false := by
  cases hd : deadlocked s univ with
  | false => rfl
  | true =>
    exfalso
    simp only [deadlocked, Bool.and_eq_true, Bool.not_eq_true', List.all_eq_true] at hd
    obtain ⟨hne0, hall⟩ := hd
    have hne : ∀ x ∈ s.procs, enabled s univ x = false := hall
    cases hp : s.procs with
    | nil => simp [hp] at hne0
    | cons x l =>
      have hx : x ∈ s.procs := by rw [hp]; exact List.mem_cons_self ..
      obtain ⟨y, hy, k, hk, _⟩ := successor m R1 R2 hI hne hx
      exact no_descent m R1 R2 hI hne (m k) y hy k hk rfl

end descent

/-- **Progress**, with an explicit measure on execution keys. -/
theorem progress_measure (reach : Nat → List Nat) (univ : List Nat) (m : Nat → Nat)
    (R1 : ∀ u f, f ∈ reach u → m (oobKey f) < m u) (R2 : ∀ f, m f < m (oobKey f))
    (es : List Ev) (hin : ∀ ev ∈ es, evIn univ ev = true) (s : State)
    (h : runG reach univ {} es = .ok s) : deadlocked s univ = false :=
  inv_not_deadlocked m R1 R2 (runG_inv (inv_init reach univ) hin h)

/-- **Progress.**  `rank` makes the declared relation well-founded (`H1`), does not distinguish a target
from its out-of-band key (`H2`), and declared dependencies are targets, not out-of-band keys (`H0`). -/
theorem progress (reach : Nat → List Nat) (univ : List Nat) (rank : Nat → Nat)
    (H0 : ∀ u f, f ∈ reach u → f < 1000000)
    (H1 : ∀ u f, f ∈ reach u → rank f < rank u)
    (H2 : ∀ f, rank (oobKey f) = rank f)
    (es : List Ev) (hin : ∀ ev ∈ es, evIn univ ev = true) (s : State)
    (h : runG reach univ {} es = .ok s) : deadlocked s univ = false := by
  refine progress_measure reach univ (fun k => 2 * rank k + k / 1000000) ?_ ?_ es hin s h
  · intro u f hf
    have h0 := H0 u f hf
    have h1 := H1 u f hf
    have h2 := H2 f
    simp only [oobKey] at *
    omega
  · intro f
    have h2 := H2 f
    simp only [oobKey] at *
    omega

/-- **Progress**, stated with a rank on *targets* only: the execution key `u` (the script of `u`, or the
out-of-band rebuild `oobKey g`) belongs to the target `u % 1000000`, declared dependencies are targets
(`< 1000000`) and rank strictly below the target of the execution that declares them. -/
theorem progress_targets (reach : Nat → List Nat) (univ : List Nat) (rank : Nat → Nat)
    (H : ∀ u f, f ∈ reach u → f < 1000000 ∧ rank f < rank (u % 1000000))
    (es : List Ev) (hin : ∀ ev ∈ es, evIn univ ev = true) (s : State)
    (h : runG reach univ {} es = .ok s) : deadlocked s univ = false := by
  refine progress_measure reach univ (fun k => 2 * rank (k % 1000000) + k / 1000000) ?_ ?_ es hin s h
  · intro u f hf
    obtain ⟨h0, h1⟩ := H u f hf
    have e : oobKey f % 1000000 = f := by simp only [oobKey]; omega
    have e2 : oobKey f / 1000000 = 1 := by simp only [oobKey]; omega
    simp only [e, e2]
    omega
  · intro f
    have e : oobKey f % 1000000 = f % 1000000 := by simp only [oobKey]; omega
    have e2 : oobKey f / 1000000 = f / 1000000 + 1 := by simp only [oobKey]; omega
    simp only [e, e2]
    omega

/-! ## `enabled` means what it says: an enabled process has an event of its own that the acceptor takes -/

/-- The process an event belongs to. -/
def actor : Ev → Nat
  | .start p _ | .lockOk p _ | .waitBegin p _ | .waitEnd p _ | .unlock p _ | .script p _
  | .scriptEnd p _ | .exit p => p

theorem find_of_mem {s : State} (hp : s.procs.Pairwise (fun a b => a.pid ≠ b.pid)) {x : Proc}
    (hx : x ∈ s.procs) : find s x.pid = some x := by
  cases hf : find s x.pid with
  | none => exact absurd rfl (find_none hf x hx)
  | some z =>
    obtain ⟨hz, hzp⟩ := find_some hf
    rw [pid_inj hp hz hx hzp]

theorem enabled_can_step {reach : Nat → List Nat} {univ : List Nat} {s : State}
    (hI : Inv reach univ s) {x : Proc} (hx : x ∈ s.procs) (he : enabled s univ x = true) :
    ∃ ev s', actor ev = x.pid ∧ stepG reach univ s ev = .ok s' := by
  have hfx := find_of_mem hI.pids hx
  cases hb : x.blocked with
  | some f =>
    simp only [enabled, hb, Option.isNone_iff_eq_none] at he
    refine ⟨.waitEnd x.pid f, ?_⟩
    simp only [stepG, step, hfx, hb, he, ne_eq, not_true_eq_false, if_false]
    exact ⟨_, rfl, rfl⟩
  | none =>
    simp only [enabled, hb, Bool.or_eq_true] at he
    rcases he with (he | he) | he
    · refine ⟨.exit x.pid, ?_⟩
      have : s.scripts.any (fun e => e.2 == x.pid) = false := by
        rw [List.any_eq_false]
        intro e hes hep
        have hm : e ∈ s.scripts.filter (fun e => e.2 == x.pid) := List.mem_filter.2 ⟨hes, hep⟩
        rw [List.isEmpty_iff.1 he] at hm
        cases hm
      simp only [stepG, step, hfx, this, Bool.false_eq_true, if_false]
      exact ⟨_, rfl, rfl⟩
    · simp only [List.any_eq_true, List.mem_filter] at he
      obtain ⟨e, ⟨hes, hep⟩, hch⟩ := he
      have hep : e.2 = x.pid := by simpa using hep
      refine ⟨.scriptEnd x.pid e.1, ?_⟩
      have h1 : s.scripts.contains (e.1, x.pid) = true := by
        rw [← hep]; exact List.contains_iff_mem.2 hes
      have h2 : s.procs.any (fun y => y.under == some e.1) = false := by simpa using hch
      simp only [stepG, step, h1, h2, Bool.not_true, Bool.false_eq_true, if_false]
      exact ⟨_, rfl, rfl⟩
    · simp only [List.any_eq_true, Bool.and_eq_true, beq_iff_eq] at he
      obtain ⟨f, _, ho, hc⟩ := he
      have hc : s.scripts.any (fun e => covers e f) = false := by simpa using hc
      have hk : s.scripts.any (fun e => e.1 == f) = false := by
        rw [List.any_eq_false] at hc ⊢
        intro e hes hef
        apply hc e hes
        simp only [covers, Bool.or_eq_true]
        exact Or.inl hef
      refine ⟨.script x.pid f, ?_⟩
      have hg : scriptGuard s x.pid f = true := by simp [scriptGuard, ho]
      simp only [stepG, hg, if_true, step, hfx, hb, Option.isSome_none, Bool.false_eq_true, if_false, hk]
      exact ⟨_, rfl, rfl⟩

/-- **Progress, operationally.**  After every accepted run in which a process is still alive, the
acceptor takes a further event (of a process that is alive). -/
theorem progress_step (reach : Nat → List Nat) (univ : List Nat) (m : Nat → Nat)
    (R1 : ∀ u f, f ∈ reach u → m (oobKey f) < m u) (R2 : ∀ f, m f < m (oobKey f))
    (es : List Ev) (hin : ∀ ev ∈ es, evIn univ ev = true) (s : State)
    (h : runG reach univ {} es = .ok s) (halive : s.procs ≠ []) :
    ∃ ev s', (∃ x ∈ s.procs, x.pid = actor ev) ∧ stepG reach univ s ev = .ok s' := by
  have hI := runG_inv (inv_init reach univ) hin h
  have hd := inv_not_deadlocked m R1 R2 hI
  simp only [deadlocked, Bool.and_eq_false_iff, Bool.not_eq_false', List.isEmpty_iff,
    List.all_eq_false] at hd
  rcases hd with hd | ⟨x, hx, hex⟩
  · exact absurd hd halive
  · have hex : enabled s univ x = true := by simpa using hex
    obtain ⟨ev, s', ha, hs⟩ := enabled_can_step (reach := reach) hI hx hex
    exact ⟨ev, s', ⟨x, hx, ha.symm⟩, hs⟩

/-! ## Helpers to evaluate concrete runs by `decide` (`State` holds a function, so has no `DecidableEq`) -/

/-- The run was accepted and its final state satisfies `P`. -/
def endsWith (r : Except (Nat × Reject) State) (P : State → Bool) : Bool :=
  match r with
  | .ok s => P s
  | .error _ => false

theorem exists_of_endsWith {r : Except (Nat × Reject) State} {P : State → Bool} (h : endsWith r P = true) :
    ∃ s, r = .ok s ∧ P s = true := by
  cases r with
  | ok s => exact ⟨s, rfl, h⟩
  | error e => cases h

/-- The run was refused. -/
def refused (r : Except (Nat × Reject) State) : Bool :=
  match r with
  | .ok _ => false
  | .error _ => true

theorem not_ok_of_refused {r : Except (Nat × Reject) State} (h : refused r = true) : ∀ s, r ≠ .ok s := by
  cases r with
  | ok s => cases h
  | error e => intro s hs; cases hs

/-- pid and enabledness of every alive process (newest first). -/
def enabledTable (univ : List Nat) (s : State) : List (Nat × Bool) :=
  s.procs.map (fun x => (x.pid, enabled s univ x))

end RedoModel.Waits
