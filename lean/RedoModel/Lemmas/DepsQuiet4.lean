import RedoModel.Lemmas.DepsQuiet3
import RedoModel.Lemmas.DepsShift4
/-! C02, converse direction: the main theorems at history level. -/
namespace RedoModel.Deps.Rich
open RedoModel.Generated

/-- What the user may do between the two commands without making the second one run anything: touch (create, edit,
remove, chmod, move away, move back) files outside the closure `C`, give meaning to .do contents, and ask
`redo-ood` / `redo-targets` / `redo-sources`. -/
def Unrelated (C : Nat → Prop) : UserOp → Prop
  | .write f _ => ¬ C f
  | .remove f => ¬ C f
  | .chmod f => ¬ C f
  | .hide f => ¬ C f
  | .unhide f => ¬ C f
  | .setProg _ _ => True
  | .cmd c => c = .ood ∨ c = .targets ∨ c = .sources
  | .crashCmd _ _ _ => False

theorem setFile_userRel (C : Nat → Prop) (w : World) (f : Nat) (x : Option FNode) (h : ¬ C f) :
    UserRel C w (setFile w f x) :=
  ⟨rfl, rfl, fun g hg => by
    have : g ≠ f := fun e => h (e ▸ hg)
    simp [setFile, this], Nat.le_refl _⟩

theorem applyOp_userRel (C : Nat → Prop) (d : Defects) (n : Nat) (op : UserOp) (h : Unrelated C op) (w : World) :
    UserRel C w (applyOp d n op w).2 := by
  cases op with
  | write f v =>
    exact (⟨rfl, rfl, fun _ _ => rfl, Nat.le_refl _⟩ : UserRel C w { w with clock := w.clock + 1 }).trans
      (setFile_userRel C _ f _ h)
  | remove f => exact setFile_userRel C w f none h
  | chmod f =>
    simp only [applyOp]
    split
    · exact setFile_userRel C w f _ h
    · exact UserRel.refl C w
  | hide f =>
    simp only [applyOp]
    split
    · exact (setFile_userRel C w f none h).trans ⟨rfl, rfl, fun _ _ => rfl, Nat.le_refl _⟩
    · exact UserRel.refl C w
  | unhide f =>
    simp only [applyOp]
    split
    · exact (setFile_userRel C w f _ h).trans ⟨rfl, rfl, fun _ _ => rfl, Nat.le_refl _⟩
    · exact UserRel.refl C w
  | setProg c s => exact ⟨rfl, rfl, fun _ _ => rfl, Nat.le_refl _⟩
  | cmd c =>
    simp only [applyOp]
    rw [query_world d n w c h]
    exact ⟨rfl, rfl, fun _ _ => rfl, Nat.le_succ _⟩
  | crashCmd ts t k => exact h.elim

theorem foldl_userRel (C : Nat → Prop) (d : Defects) (n : Nat) : ∀ (us : List UserOp) (w : World),
    (∀ u ∈ us, Unrelated C u) → UserRel C w (us.foldl (fun w op => (applyOp d n op w).2) w)
  | [], w, _ => UserRel.refl C w
  | u :: us, w, h => by
    rw [List.foldl_cons]
    exact (applyOp_userRel C d n u (h u (by simp)) w).trans
      (foldl_userRel C d n us _ (fun u' hu' => h u' (List.mem_cons_of_mem _ hu')))

/-- `redo-ifchange ts` over members of a settled set: exit 0, nothing executed, no file touched. -/
theorem ifchange_quiet {rank R S n w} (d : Defects) (hq : QSet rank R S w) (hrc : R ≤ w.runCounter)
    (hN : ∀ f, rank f < n) (ts : List Nat) (kg : Bool) (hts : ∀ t ∈ ts, S t) :
    (runCmd d n (.ifchange ts kg) w).1.status = 0 ∧
    (∀ t, Ev.ran t ∈ (runCmd d n (.ifchange ts kg) w).2.trace → Ev.ran t ∈ w.trace) ∧
    (runCmd d n (.ifchange ts kg) w).2.fs = w.fs := by
  have hq1 : QSet rank R S (allocRun w).2 :=
    hq.congr rfl (fun _ _ => rfl) (fun _ _ => rfl) (fun _ _ => rfl) (fun _ _ => rfl) (fun _ _ => rfl) (fun _ _ => rfl)
      (fun _ _ => rfl)
  obtain ⟨a1, a2, _⟩ := runTargets_quiet (rank := rank) (R := R) (R' := w.runCounter + 1) (S := S) (fuel := 2 * n + 4)
    (cx := { runid := w.runCounter + 1, keepGoing := kg }) (engine d (2 * n + 4)) d (by omega) rfl rfl rfl ts []
    (allocRun w).2 hq1 (fun t ht => ⟨hts t ht, by have := hN t; omega⟩)
  exact ⟨a1, a2.ran, a2.fs⟩

/-- The world-level core of the theorems below: from a between-commands world, after a successful `redo-ifchange ts` /
`redo ts` whose recorded closure holds no `//ALWAYS` row, and any unrelated user activity, `redo-ifchange ts` runs
nothing. -/
theorem second_run_quiet {rank n w} (hN : ∀ f, rank f < n) (hb : Btw rank w) (ts : List Nat) (kg forced : Bool)
    (hts0 : ∀ t ∈ ts, t ≠ alwaysId)
    (hz : (runCmd {} n (if forced then .redo ts kg else .ifchange ts kg) w).1.status = 0)
    (hna : ¬ RecReach (runCmd {} n (if forced then .redo ts kg else .ifchange ts kg) w).2 ts alwaysId)
    (us : List UserOp)
    (hus : ∀ u ∈ us, Unrelated (RecReach (runCmd {} n (if forced then .redo ts kg else .ifchange ts kg) w).2 ts) u)
    (kg2 : Bool) (tr : List Ev) :
    let w2 := us.foldl (fun w op => (applyOp {} n op w).2) (runCmd {} n (if forced then .redo ts kg else .ifchange ts kg) w).2
    (runCmd {} n (.ifchange ts kg2) { w2 with trace := tr }).1.status = 0 ∧
    (∀ t, Ev.ran t ∈ (runCmd {} n (.ifchange ts kg2) { w2 with trace := tr }).2.trace → Ev.ran t ∈ tr) ∧
    (runCmd {} n (.ifchange ts kg2) { w2 with trace := tr }).2.fs = w2.fs := by
  intro w2
  have key : ∃ w1, (runCmd {} n (if forced then .redo ts kg else .ifchange ts kg) w).2 = w1 ∧
      Inv rank (w.runCounter + 1) NoX w1 ∧ w1.runCounter = w.runCounter + 1 ∧
      ∀ t ∈ ts, Good w1 (w.runCounter + 1) t := by
    cases forced with
    | true =>
      obtain ⟨a1, a2, a3⟩ := top_runG (cx := { runid := w.runCounter + 1, keepGoing := kg, isRedo := true }) {} hN hb
        rfl rfl rfl ts hts0
      exact ⟨_, rfl, a1, a2, a3 hz⟩
    | false =>
      obtain ⟨a1, a2, a3⟩ := top_runG (cx := { runid := w.runCounter + 1, keepGoing := kg }) {} hN hb
        rfl rfl rfl ts hts0
      exact ⟨_, rfl, a1, a2, a3 hz⟩
  obtain ⟨w1, e, hi, hrc, hg⟩ := key
  rw [e] at hna hus
  have hw2 : w2 = us.foldl (fun w op => (applyOp {} n op w).2) w1 := by rw [← e]
  clear_value w2
  subst hw2
  have hq := QSet_of_good hi hna
  have hu := foldl_userRel _ {} n us w1 hus
  have hq2 := hq.user hu
  have hq3 : QSet rank (w.runCounter + 1) (GoodReach w1 (w.runCounter + 1) ts)
      { us.foldl (fun w op => (applyOp {} n op w).2) w1 with trace := tr } :=
    hq2.congr rfl (fun _ _ => rfl) (fun _ _ => rfl) (fun _ _ => rfl) (fun _ _ => rfl) (fun _ _ => rfl) (fun _ _ => rfl)
      (fun _ _ => rfl)
  exact ifchange_quiet {} hq3 (by have := hu.rc; simp only; omega) hN ts kg2
    (fun t ht => ⟨RecReach.base ht, hg t ht⟩)

end RedoModel.Deps.Rich
