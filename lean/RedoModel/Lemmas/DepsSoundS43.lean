import RedoModel.Lemmas.DepsSoundS42
/-! Non-vacuity of `noStaleStamp_partial`, two more histories: the source is edited (the checksum of `mid` changes, so
`top` is rebuilt in the same command); `mid` is rebuilt by force with the same content (nothing runs afterwards). -/
namespace RedoModel.Deps.S
open RedoModel.Generated

def sOpsB : List UserOp := sOps0 ++ [.write 5 1]
def sResB : Result × World := runCmd {} 3 (.ifchange [4] false) (sW sOpsB)

set_option maxRecDepth 20000 in
set_option maxHeartbeats 4000000 in
theorem sB_status : sResB.1.status = 0 := by
  unfold sResB sOpsB
  eval_runS

set_option maxRecDepth 20000 in
set_option maxHeartbeats 4000000 in
/-- `mid` (3), then `top` (4) ran in the last command. -/
theorem sB_trace : sResB.2.trace = [.ran 4, .ran 3, .ran 3, .ran 4] := by
  unfold sResB sOpsB
  eval_runS

theorem sB_hyps : (∀ op ∈ sOpsB, PlainOpS sRules op) ∧
    (∀ w ∈ worldsOf 3 {} (initWorld sRules) sOpsB, Ranked sRank w) ∧
    OpsOk 3 (initWorld sRules) sOpsB ∧ RedoKOk 3 (initWorld sRules) sOpsB :=
  sFull_hyps (.write 5 1) (by simp [PlainOpS, alwaysId, sRules]) trivial trivial
    (s_ranked_setFile 5 (by decide) (sW sOps0) sOps0_btw.1.ranked sOps0_btw.2 _ rfl rfl
      (fun x hx => by
        show (setFile { sW sOps0 with clock := (sW sOps0).clock + 1 } 5 _).fs x = _
        simp [setFile, hx]))

/-- Non-vacuity (changed checksum: the dependent is rebuilt in the same command). -/
example : UpToDateD sResB.2 4 :=
  noStaleStamp_partial 3 sRules sRank sOpsB [4] false false s_rulesOk sB_hyps.1 sB_hyps.2.1 s_rankLt sB_hyps.2.2.1
    sB_hyps.2.2.2 sB_status 4 (by simp)

def sOpsC : List UserOp := sOps0 ++ [.cmd (.redo [3] false)]
def sResC : Result × World := runCmd {} 3 (.ifchange [4] false) (sW sOpsC)

set_option maxRecDepth 20000 in
set_option maxHeartbeats 4000000 in
theorem sC_status : sResC.1.status = 0 := by
  unfold sResC sOpsC
  eval_runS

set_option maxRecDepth 20000 in
set_option maxHeartbeats 4000000 in
/-- Nothing ran in the last command (the forced `redo mid` before it is the second `ran 3`). -/
theorem sC_trace : sResC.2.trace = [.ran 3, .ran 3, .ran 4] ∧ (sW sOpsC).trace = [.ran 3, .ran 3, .ran 4] := by
  unfold sResC sOpsC
  constructor <;> eval_runS

theorem sC_hyps : (∀ op ∈ sOpsC, PlainOpS sRules op) ∧
    (∀ w ∈ worldsOf 3 {} (initWorld sRules) sOpsC, Ranked sRank w) ∧
    OpsOk 3 (initWorld sRules) sOpsC ∧ RedoKOk 3 (initWorld sRules) sOpsC :=
  sFull_hyps (.cmd (.redo [3] false)) trivial trivial trivial
    (runCmd_btw {} rfl rfl s_rankLt sOps0_btw.1 (.redo [3] false) trivial).1.ranked

/-- Non-vacuity (forced rebuild of the checksummed target with unchanged content: the dependent stays clean). -/
example : UpToDateD sResC.2 4 :=
  noStaleStamp_partial 3 sRules sRank sOpsC [4] false false s_rulesOk sC_hyps.1 sC_hyps.2.1 s_rankLt sC_hyps.2.2.1
    sC_hyps.2.2.2 sC_status 4 (by simp)

end RedoModel.Deps.S
