import RedoModel.Lemmas.ParFSerial
/-!
A concrete instance of `RedoModel.ParF`: one failing leaf shared by two branches.

    5 (top)  asks for 1 and 2 in one command
    1 (a)    asks for 3
    2 (b)    asks for 4, then (second command) for 3
    3        asks for the source 0, then fails          (requested by 1 and by 2)
    4        asks for the source 0

All facts below are checked by evaluation in the kernel (`rfl` / `decide`).
-/
namespace RedoModel.ParF.Ex

def g : Graph where
  script
    | 1 => some { cmds := [[3]], reads := [3], tag := 1 }
    | 2 => some { cmds := [[4], [3]], reads := [4, 3], tag := 2 }
    | 3 => some { cmds := [[0]], reads := [0], tag := 3, fails := true }
    | 4 => some { cmds := [[0]], reads := [0], tag := 4 }
    | 5 => some { cmds := [[1, 2]], reads := [1, 2], tag := 5 }
    | _ => none
  src := fun _ => [7]

/-- The same project built with `--keep-going`. -/
def gK : Graph := { g with keepGoing := true }

def rank : Nat → Nat
  | 5 => 3
  | 1 => 2
  | 2 => 2
  | 3 => 1
  | 4 => 1
  | _ => 0

def s0 : State := { st := fun _ => .idle, content := fun _ => [] }

/-- Branch 1 meets the failure: the serial schedule without `--keep-going`; 2 and 4 are never started. -/
def esA : List Ev :=
  [.start 5 none, .start 1 (some 5), .start 3 (some 1), .ret 3 true, .fail 3, .ret 1 false, .fail 1,
   .ret 5 false, .fail 5]

/-- Branch 2 meets the failure (it is 2 that runs the script of 3); 1 only learns of it. -/
def esB : List Ev :=
  [.start 5 none, .start 2 (some 5), .start 1 (some 5), .start 4 (some 2), .ret 4 true, .finish 4,
   .ret 2 true, .start 3 (some 2), .ret 3 true, .fail 3, .ret 2 false, .fail 2, .ret 1 false, .fail 1,
   .ret 5 false, .fail 5]

/-- The serial schedule with `--keep-going`: after 1 has failed, 2 is still tried. -/
def esK : List Ev :=
  [.start 5 none, .start 1 (some 5), .start 3 (some 1), .ret 3 true, .fail 3, .ret 1 false, .fail 1,
   .start 2 (some 5), .start 4 (some 2), .ret 4 true, .finish 4, .ret 2 true, .ret 2 false, .fail 2,
   .ret 5 false, .fail 5]

theorem wellFormed : WellFormed g := by
  intro t sc hsc
  unfold g at hsc
  simp only at hsc
  split at hsc <;> cases hsc <;> decide

theorem ranked : Ranked g rank := by
  intro t sc hsc
  unfold g at hsc
  simp only at hsc
  split at hsc <;> cases hsc <;> decide

theorem rankedK : Ranked gK rank := ranked

theorem allIdle : AllIdle s0 := ⟨rfl, fun _ => rfl⟩

theorem bad3 : Bad g 3 :=
  Bad.self (g := g) (t := 3) (sc := { cmds := [[0]], reads := [0], tag := 3, fails := true }) rfl rfl

theorem bad2 : Bad g 2 :=
  Bad.dep (g := g) (t := 2) (sc := { cmds := [[4], [3]], reads := [4, 3], tag := 2 }) (d := 3) rfl
    (by decide) bad3

theorem bad5 : Bad g 5 :=
  Bad.dep (g := g) (t := 5) (sc := { cmds := [[1, 2]], reads := [1, 2], tag := 5 }) (d := 1) rfl (by decide)
    (Bad.dep (g := g) (t := 1) (sc := { cmds := [[3]], reads := [3], tag := 1 }) (d := 3) rfl (by decide)
      bad3)

theorem serial_schedule : (serialTop g 4 [5] s0).1 = esA := rfl
theorem serial_schedule_keepGoing : (serialTop gK 4 [5] s0).1 = esK := rfl

theorem a_accepted : (run g s0 esA).isSome = true := rfl
theorem b_accepted : (run g s0 esB).isSome = true := rfl
theorem k_accepted : (run gK s0 esK).isSome = true := rfl

/-- Both schedules end where the top level returns, with the same (non-zero) status; which targets were
attempted differs: in A the (unbuildable) 2 and the buildable 4 stay idle, in B all are settled. -/
theorem same_status :
    (run g s0 esA).map (fun s => (topReturns g s [5], status g s [5])) = some (true, 1) ∧
    (run g s0 esB).map (fun s => (topReturns g s [5], status g s [5])) = some (true, 1) ∧
    (run gK s0 esK).map (fun s => (topReturns gK s [5], status gK s [5])) = some (true, 1) ∧
    (run g s0 esA).map (fun s => [1, 2, 3, 4, 5].map s.st)
      = some [.failed, .idle, .failed, .idle, .failed] ∧
    (run g s0 esB).map (fun s => [1, 2, 3, 4, 5].map s.st)
      = some [.failed, .failed, .failed, .done, .failed] := by
  decide

/-- The failing script ran once in each although 3 was asked for twice. -/
theorem starts : (run g s0 esA).map (·.starts) = some [3, 1, 5] ∧
    (run g s0 esB).map (·.starts) = some [3, 4, 1, 2, 5] := by decide

/-- Asking for the buildable 4 at the top gives status 0. -/
theorem good_status :
    (run g s0 [.start 4 none, .ret 4 true, .finish 4]).map (fun s => (topReturns g s [4], status g s [4]))
      = some (true, 0) := by decide

/-- A failing script cannot `finish`. -/
theorem finish_of_failing_rejected :
    (run g s0 [.start 3 none, .ret 3 true, .finish 3]).isNone = true := rfl

/-- A command naming a failed target cannot return zero. -/
theorem ok_after_failure_rejected :
    (run g s0 [.start 5 none, .start 1 (some 5), .start 3 (some 1), .ret 3 true, .fail 3,
               .ret 1 true]).isNone = true := rfl

/-- A command cannot return non-zero while nothing it names has failed. -/
theorem bad_return_without_failure_rejected :
    (run g s0 [.start 5 none, .start 1 (some 5), .start 3 (some 1), .ret 1 false]).isNone = true := rfl

/-- After a non-zero return the script cannot go on (`sh -e`): no `finish`, no further `ret`. -/
theorem continue_after_bad_return_rejected :
    (run g s0 [.start 5 none, .start 1 (some 5), .start 3 (some 1), .ret 3 true, .fail 3, .ret 1 false,
               .finish 1]).isNone = true ∧
    (run g s0 [.start 5 none, .start 1 (some 5), .start 3 (some 1), .ret 3 true, .fail 3, .ret 1 false,
               .ret 1 true]).isNone = true := ⟨rfl, rfl⟩

/-- A failed target is not run again for the second requester. -/
theorem restart_of_failed_rejected :
    (run g s0 [.start 5 none, .start 1 (some 5), .start 2 (some 5), .start 3 (some 1), .ret 3 true,
               .fail 3, .start 4 (some 2), .ret 4 true, .finish 4, .ret 2 true,
               .start 3 (some 2)]).isNone = true := rfl

/-- With `--keep-going` the top level may not return while 2 has no answer: schedule A is rejected at
its `ret 5 false`, although accepted without `--keep-going`. -/
theorem early_return_rejected_with_keepGoing : (run gK s0 esA).isNone = true := rfl

end RedoModel.ParF.Ex
