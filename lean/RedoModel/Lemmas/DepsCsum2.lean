import RedoModel.Lemmas.DepsCsum
/-!
# C03 — checksum cut-off, part 2: a dependency that was re-checked/rebuilt in this run with an unchanged
`changed` mark is clean for its dependents (no writes), so the dependent's verdict is that of its other rows.
-/
namespace RedoModel.Deps
open RedoModel.Generated

/-- The memoised answer: a snapshot that is not failed, whose `changed` is not newer than the dependent's mark
and that was checked in this run is clean — whatever the state, and nothing is written. -/
theorem isDirty_memo_clean (R n : Nat) (w : World) (c : List Nat) (s mx : Nat) (seen : List Nat) (snap : Rec) (ca : Nat)
    (hs : s ∉ seen) (hf : snap.failed = none) (hch : snap.changed = some ca) (hle : ca ≤ mx)
    (hck : isCheckedR snap R = true) :
    isDirty false R (n + 1) w c s mx seen (some snap) = (.clean, w, c) := by
  have hgt : ¬ (ca > mx) := by omega
  simp (config := { zeta := true, zetaHave := true }) only [isDirty, Option.getD_some, hs, hf, hch, hgt, hck,
    if_true, if_false, Option.isSome_none, Bool.false_eq_true]

/-- An `m` row whose source was checked (or rebuilt with an unchanged checksum) in this run and whose `changed`
mark is not newer than `mx`. -/
def MemoRow (R : Nat) (seen : List Nat) (mx : Nat) (p : Dep × Rec) : Prop :=
  p.1.modeM = true ∧ p.1.source ∉ seen ∧ p.2.failed = none ∧ (∃ c, p.2.changed = some c ∧ c ≤ mx) ∧
  isCheckedR p.2 R = true

theorem goDeps_cut (R n mx : Nat) (seen : List Nat) (hc : Bool) (f : Nat) (w0 : World) :
    ∀ (ds : List (Dep × Rec)) (w : World) (cache : List Nat), w.fs = w0.fs →
      (∀ p ∈ ds, QuietRow w0 seen mx p ∨ MemoRow R seen mx p) →
      (goDeps (fun w1 c1 s snap => isDirty false R (n + 1) w1 c1 s mx seen (some snap)) hc f ds w cache []).1 = none
  | [], w, cache, _, _ => by simp [goDeps]
  | (d, snap) :: ds, w, cache, hfs, hq => by
    have hq' : ∀ p ∈ ds, QuietRow w0 seen mx p ∨ MemoRow R seen mx p := fun p hp => hq p (List.mem_cons_of_mem _ hp)
    rcases hq (d, snap) (List.mem_cons_self ..) with hq0 | ⟨hm, hs, hf, ⟨ca, hch, hle⟩, hck⟩
    · -- a quiet row: as in `goDeps_quiet`
      rw [goDeps]
      by_cases hm : d.modeM = true
      · simp only [hm, if_true]
        obtain ⟨hs, hf, ⟨ca, hch, hle⟩, hg, hst⟩ := hq0.2 hm
        have h1 := isDirty_plain_clean R n w cache d.source mx seen snap ca hs hf hch hle hg
          (by rw [hst]; congr 1; exact (readStamp_congr (congrFun hfs _)).symm)
        have h2 := (isDirty_frame false R (n + 1) w cache d.source mx seen (some snap)).1
        generalize isDirty false R (n + 1) w cache d.source mx seen (some snap) = r at h1 h2
        obtain ⟨sub, w1, c1⟩ := r
        dsimp only at h1 h2
        subst h1
        exact goDeps_cut R n mx seen hc f w0 ds w1 c1 (h2.trans hfs) hq'
      · have hex : existsF w d.source = false := by
          rw [existsF_congr (congrFun hfs _)]
          exact hq0.1 (by simpa using hm)
        simp only [hm, Bool.false_eq_true, if_false, hex]
        exact goDeps_cut R n mx seen hc f w0 ds w cache hfs hq'
    · rw [goDeps]
      dsimp only at hm hs hf hch hck
      simp only [hm, if_true, isDirty_memo_clean R n w cache d.source mx seen snap ca hs hf hch hle hck]
      exact goDeps_cut R n mx seen hc f w0 ds w cache hfs hq'

/-- The check of a target whose record is current and all of whose rows are quiet or memoised: clean. -/
theorem isDirty_cut (R m : Nat) (hm : 0 < m) (w : World) (cache : List Nat) (t mx ch : Nat)
    (hf : (getRec w R t).failed = none) (hch : (getRec w R t).changed = some ch) (hmx : ch ≤ mx)
    (hck : isCheckedR (getRec w R t) R = false)
    (hst : (getRec w R t).stamp = some (readStamp w t))
    (hq : ∀ p ∈ depsWithRecs w R (getRec w R t) t,
      QuietRow w [t] (max ch ((getRec w R t).checked.getD 0)) p ∨
      MemoRow R [t] (max ch ((getRec w R t).checked.getD 0)) p) :
    (isDirty false R (m + 1) w cache t mx [] none).1 = .clean := by
  have hgt : ¬ (ch > mx) := by omega
  simp (config := { zeta := true, zetaHave := true }) only [isDirty, Option.getD_none, List.not_mem_nil, hf, hch,
    hgt, hck, hst, if_false, Option.isSome_none, Bool.false_eq_true, ne_eq, not_true_eq_false]
  obtain ⟨n, rfl⟩ : ∃ n, m = n + 1 := ⟨m - 1, by omega⟩
  have key := goDeps_cut R n (max ch ((getRec w R t).checked.getD 0)) [t] (getRec w R t).csum.isSome t w
    (depsWithRecs w R (getRec w R t) t) w cache rfl hq
  split
  · rename_i dr w' c' heq
    rw [heq] at key
    cases key
  · rfl

/-- A recorded `m` row of `t` whose source was checked or rebuilt-with-unchanged-checksum in run `R`: not failed,
`changed` no later than `t`'s mark, `checked = R`. -/
def MemoDep (w : World) (R t : Nat) (d0 : Dep) : Prop :=
  d0.modeM = true ∧ d0.source ≠ alwaysId ∧ d0.source ≠ t ∧ (w.recs d0.source).failed = none ∧
  (∃ c, (w.recs d0.source).changed = some c ∧ c ≤ mark (w.recs t)) ∧ (w.recs d0.source).checked = some R

theorem memoRow_of_memoDep (w : World) (R t mx : Nat) (hR : R ≠ 0) (hmx : mark (w.recs t) ≤ mx) (d0 : Dep)
    (hq : MemoDep w R t d0) : MemoRow R [t] mx (d0, getRec w R d0.source) := by
  obtain ⟨h1, h0, hne, hf, ⟨c, hc, hle⟩, hck⟩ := hq
  dsimp only [MemoRow]
  rw [getRec_ne _ _ _ h0]
  exact ⟨h1, by simpa using hne, hf, ⟨c, hc, by omega⟩, by simp [isCheckedR, hck, hR]⟩

/-- **Cut-off, at `should_build`.**  `t`'s record is current (not yet checked in this run) and every row of `t`
is quiet or memoised: the answer is `clean`. -/
theorem shouldBuild_cut (cx : Ctx) (m : Nat) (hm : 0 < m) (t : Nat) (w : World) (ch : Nat) (hr : cx.isRedo = false)
    (hR : cx.runid ≠ 0) (ht : t ≠ alwaysId) (hg : (w.recs t).isGenerated = true) (hf : (w.recs t).failed = none)
    (hch : (w.recs t).changed = some ch) (hle : ch ≤ cx.runid)
    (hst : (w.recs t).stamp = some (readStamp w t))
    (hq : ∀ d0 ∈ w.deps, d0.target = t → QuietDep w t d0 ∨ MemoDep w cx.runid t d0) :
    (shouldBuild cx (m + 1) t w).1 = some .clean := by
  by_cases hck : isCheckedR (w.recs t) cx.runid = true
  · exact shouldBuild_quiet cx m hm t w ch hr ht hf hch hle (Or.inl hck)
  have hget : getRec w cx.runid t = w.recs t := getRec_ne w _ t ht
  have hnf : isFailedR (w.recs t) cx.runid = false := by simp [isFailedR, hf]
  have hmark : mark (w.recs t) = max ch ((w.recs t).checked.getD 0) := by simp [mark, hch]
  have key := isDirty_cut cx.runid m hm w [] t cx.runid ch (by rw [hget]; exact hf) (by rw [hget]; exact hch) hle
    (by rw [hget]; simpa using hck) (by rw [hget]; exact hst)
    (by
      rw [hget]
      intro p hp
      obtain ⟨d0, hd, hdt, rfl⟩ := of_mem_depsWithRecs w _ _ t p hp
      rcases hq d0 hd hdt with h | h
      · exact Or.inl (quietRow_of_quietDep w cx.runid t _ hg (by rw [hmark]; exact Nat.le_refl _) d0 h)
      · exact Or.inr (memoRow_of_memoDep w cx.runid t _ hR (by rw [hmark]; exact Nat.le_refl _) d0 h))
  unfold shouldBuild
  simp only [hr, Bool.false_eq_true, if_false, hget, hnf]
  generalize isDirty false cx.runid (m + 1) w [] t cx.runid [] none = res at key ⊢
  obtain ⟨dr, w', c'⟩ := res
  dsimp only at key ⊢
  subst key
  rfl

theorem MemoDep.transfer {R t : Nat} {w w' : World} (h : RowsOnly t w w') (d0 : Dep) (hq : MemoDep w R t d0) :
    MemoDep w' R t d0 := by
  obtain ⟨h1, h0, hne, hf, ⟨c, hc, hle⟩, hck⟩ := hq
  obtain ⟨_, _, s3, s4, s5, _, _⟩ := h.recs d0.source
  obtain ⟨_, _, t3, t4, _, _, _⟩ := h.recs t
  refine ⟨h1, h0, hne, by rw [s5]; exact hf, ⟨c, by rw [s4]; exact hc, ?_⟩, by rw [s3]; exact hck⟩
  unfold mark at hle ⊢
  rw [t3, t4]
  exact hle

/-- Status of a one-target command from the result of its single job. -/
def finishS (jr : JobResult × World) : Status × World :=
  match jr with
  | (.abort code, w) => (code, w)
  | (.done rv, w) => (if rv = CRASHED then CRASHED else if rv ≠ 0 then 1 else 0, w)

/-- `redo-ifchange t` at top level (`parent = none`) or as the second phase of `redo-unlocked`
(`unlocked = true`): one job for `t`. -/
theorem ifchangeWith_single (E : Engine) (d : Defects) (fuel : Nat) (cx : Ctx) (t : Nat) (w : World)
    (hp : cx.parent = none ∨ cx.unlocked = true) (hcy : cx.unlocked = true ∨ t ∉ cx.cycles) :
    ifchangeWith E d fuel cx [t] w = finishS (buildJob E d cx fuel t (addKnown w t)) := by
  have h1 : ifchangeWith E d fuel cx [t] w = runTargets E d cx fuel [t] [] false w := by
    unfold ifchangeWith
    rcases hp with hp | hp
    · simp [hp]
    · cases hpar : cx.parent <;> simp [hp]
  have h2 : (!cx.unlocked && decide (t ∈ cx.cycles)) = false := by
    rcases hcy with h | h <;> simp [h]
  rw [h1, runTargets]
  simp only [List.not_mem_nil, if_false, Bool.false_and, Bool.false_eq_true, h2]
  unfold finishS
  generalize buildJob _ _ _ _ _ _ = r
  obtain ⟨jr, w1⟩ := r
  cases jr with
  | abort code => rfl
  | done rv =>
    dsimp only
    by_cases hc : rv = CRASHED
    · simp [hc]
    · simp only [hc, if_false]
      rw [runTargets]
      by_cases h0 : rv = 0 <;> simp [h0]

/-- The record of `t` says "built successfully in an earlier run, file as recorded": its mark
`max changed checked` is `< R`. -/
structure CurrentBefore (w : World) (R t : Nat) : Prop where
  gen : (w.recs t).isGenerated = true
  novr : (w.recs t).isOverride = false
  nofail : (w.recs t).failed = none
  changed : ∃ ch, (w.recs t).changed = some ch ∧ ch < R
  checked : ∀ c, (w.recs t).checked = some c → c < R
  stamp : (w.recs t).stamp = some (readStamp w t)

theorem CurrentBefore.transfer {R t : Nat} {w w' : World} (h : RowsOnly t w w') (hc : CurrentBefore w R t) :
    CurrentBefore w' R t := by
  obtain ⟨t1, t2, t3, t4, t5, t6, _⟩ := h.recs t
  exact ⟨by rw [t1]; exact hc.gen, by rw [t2]; exact hc.novr, by rw [t5]; exact hc.nofail,
    by rw [t4]; exact hc.changed, fun c hcc => hc.checked c (by rw [← t3]; exact hcc),
    by rw [t6, hc.stamp, readStamp_congr (congrFun h.fs _)]⟩

theorem CurrentBefore.mark_lt {R t : Nat} {w : World} (hc : CurrentBefore w R t) : mark (w.recs t) < R := by
  obtain ⟨ch, h1, h2⟩ := hc.changed
  unfold mark
  rw [h1]
  cases h : (w.recs t).checked with
  | none => simp; omega
  | some c => have := hc.checked c h; simp; omega

/-- **Cut-off, at the command.**  `redo-ifchange t` (top level, or the second phase of `redo-unlocked`) in run
`R`, when `t`'s record is current and each of its rows is quiet or points to a source that was checked / rebuilt
with an unchanged checksum in this run: exit 0, no script runs, no file changes. -/
theorem ifchangeWith_cutoff (E : Engine) (d : Defects) (m : Nat) (hm : 0 < m) (cx : Ctx) (t : Nat) (w : World)
    (hp : cx.parent = none ∨ cx.unlocked = true) (hcy : cx.unlocked = true ∨ t ∉ cx.cycles)
    (hr : cx.isRedo = false) (hR : cx.runid ≠ 0) (ht : t ≠ alwaysId) (hcur : CurrentBefore w cx.runid t)
    (hq : ∀ d0 ∈ w.deps, d0.target = t → QuietDep w t d0 ∨ MemoDep w cx.runid t d0) :
    (ifchangeWith E d (m + 1) cx [t] w).1 = 0 ∧ QuietExt w (ifchangeWith E d (m + 1) cx [t] w).2 := by
  have hrel : RowsOnly t w (addKnown w t) := RowsOnly.addKnown t w t
  have hcur' := hcur.transfer hrel
  obtain ⟨ch, hch, hlt⟩ := hcur'.changed
  have hsb := shouldBuild_cut cx m hm t (addKnown w t) ch hr hR ht hcur'.gen hcur'.nofail hch (by omega) hcur'.stamp
    (fun d0 hd hdt => by
      rcases hq d0 (hrel.deps d0 hd hdt) hdt with h | h
      · exact Or.inl (h.transfer hrel d0)
      · exact Or.inr (h.transfer hrel d0))
  rw [ifchangeWith_single E d (m + 1) cx t w hp hcy, buildJob_of_clean E d cx (m + 1) t _ hsb]
  have hc : ¬ ((0 : Status) = CRASHED) := by decide
  exact ⟨by simp [finishS, hc], (QuietExt.addKnown w t).trans (shouldBuild_rel QuietExt.dirtyRel cx _ t _)⟩

end RedoModel.Deps
