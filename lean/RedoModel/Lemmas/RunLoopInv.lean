import RedoModel.Lemmas.RunLoopStep
/-! Helper lemmas (invariants of the `RunLoop` acceptor) for Props/C05c, C06b, C07d, C09d. -/
set_option linter.unusedSimpArgs false
namespace RedoModel.RunLoop

/-! ## Invariant 1: locks, token and jobs as functions of the program counter -/

def heldAtPc : Pc → List Nat
  | .l1own f => [f] | .l1started f => [f] | .l2own f => [f] | .l2started f => [f] | .l2got f => [f]
  | _ => []

def needsTokenPc : Pc → Bool
  | .l1tok => true | .l1go => true | .l1lock _ => true | .l1own _ => true | .l1started _ => true
  | .l2try _ => true | .l2rel _ => true | .l2own _ => true | .l2started _ => true
  | _ => false

def inSecondBodyPc : Pc → Bool
  | .l2all => true | .l2go => true | .l2try _ => true | .l2rel _ => true | .l2wait _ => true | .l2got _ => true
  | .l2retok _ => true | .l2own _ => true | .l2started _ => true
  | _ => false

structure Inv1 (s : St) : Prop where
  held : s.held = heldAtPc s.pc
  tok : needsTokenPc s.pc = true → s.tokHeld = true
  body : inSecondBodyPc s.pc = true → s.jobs = []
  ended : ∀ ok, s.pc = .ended ok → s.jobs = []
  wait : ∀ f, s.pc = .l2wait f → s.tokHeld = false

theorem Inv1.init : Inv1 {} := ⟨rfl, by simp [needsTokenPc], by simp [inSecondBodyPc], by simp, by simp⟩

theorem Inv1.step {c : Cfg} {s s' : St} {ev : Ev} (h : step c s ev = .ok s') (hi : Inv1 s) : Inv1 s' := by
  obtain ⟨h1, h2, h3, h4, h5⟩ := hi
  cases step_Step h <;> constructor <;> simp_all [heldAtPc, needsTokenPc, inSecondBodyPc, poll]

/-! ## Invariant 2: failures, the stop rule, the exit status -/

/-- Where an unpolled immediate failure can exist. -/
def pendingPc : Pc → Bool
  | .l1 => true | .l2 => true | .drain => true
  | _ => false

/-- Where the control flow can be once a failure is known and `-k` is not given: never on the way to a start. -/
def quietPc : Pc → Bool
  | .l1 => true | .l1tok => true | .l2 => true | .l2all => true | .drain => true | .ended _ => true
  | _ => false

def leftPc : Pc → Bool
  | .drain => true | .ended _ => true
  | _ => false

structure Inv2 (c : Cfg) (s : St) : Prop where
  failed : s.failed = (s.errored || s.pending)
  pend : s.pending = true → pendingPc s.pc = true
  abrt : s.aborted = true → leftPc s.pc = true
  quiet : c.keepGoing = false → s.failed = true → quietPc s.pc = true
  drain : s.pc = .drain → s.aborted = true ∨ (c.keepGoing = false ∧ s.failed = true)
  ended : ∀ ok, s.pc = .ended ok →
    ok = (!s.failed && !s.aborted) ∧ (s.aborted = true ∨ (c.keepGoing = false ∧ s.failed = true) ∨ s.queue = [])

theorem Inv2.init (c : Cfg) : Inv2 c {} := by
  constructor <;> simp

theorem Inv2.step {c : Cfg} {s s' : St} {ev : Ev} (h : step c s ev = .ok s') (hi : Inv2 c s) : Inv2 c s' := by
  obtain ⟨h1, h2, h3, h4, h5, h6⟩ := hi
  have hS := step_Step h; clear h
  cases hS with
  | _ =>
    constructor <;> grind [pendingPc, quietPc, leftPc, poll, stop]

/-! ## Invariant 3: one decision per file id -/

/-- The target being handled, between its announcement (or its removal from the queue) and `BuildJob::start`. -/
def curPc : Pc → Option Nat
  | .l1lock f => some f | .l1own f => some f
  | .l2try f => some f | .l2rel f => some f | .l2wait f => some f | .l2got f => some f | .l2retok f => some f
  | .l2own f => some f
  | _ => none

structure Inv3 (s : St) : Prop where
  startedSeen : ∀ f ∈ s.started, f ∈ s.seen
  queueSeen : ∀ f ∈ s.queue, f ∈ s.seen
  queueNodup : s.queue.Nodup
  queueFresh : ∀ f ∈ s.queue, f ∉ s.started
  startedNodup : s.started.Nodup
  cur : ∀ f, curPc s.pc = some f → f ∈ s.seen ∧ f ∉ s.started ∧ f ∉ s.queue
  decided : s.aborted = false → ∀ f ∈ s.seen, f ∈ s.started ∨ f ∈ s.elsewhere ∨ f ∈ s.queue ∨ curPc s.pc = some f

theorem Inv3.init : Inv3 {} := by
  constructor <;> simp [curPc]

/-- `Inv3` only reads the target lists, the abort flag and the target named by the program counter. -/
theorem Inv3.frame {s s' : St} (hi : Inv3 s) (e1 : s'.started = s.started) (e2 : s'.queue = s.queue)
    (e3 : s'.seen = s.seen) (e4 : s'.elsewhere = s.elsewhere) (e5 : s'.aborted = s.aborted)
    (e6 : curPc s'.pc = curPc s.pc) : Inv3 s' := by
  obtain ⟨h1, h2, h3, h4, h5, h6, h7⟩ := hi
  constructor <;> simp only [e1, e2, e3, e4, e5, e6] <;> assumption

theorem Inv3.step {c : Cfg} {s s' : St} {ev : Ev} (h : step c s ev = .ok s') (hi : Inv3 s) : Inv3 s' := by
  have hS := step_Step h; clear h
  cases hS with
  | abort hd he =>
    obtain ⟨h1, h2, h3, h4, h5, h6, h7⟩ := hi
    exact ⟨h1, h2, h3, h4, h5, by simp [curPc], by simp⟩
  | l1goTarget hf hpc =>
    obtain ⟨h1, h2, h3, h4, h5, h6, h7⟩ := hi
    constructor <;> simp only [curPc, hpc] at * <;> grind
  | l1lockFail hpc =>
    obtain ⟨h1, h2, h3, h4, h5, h6, h7⟩ := hi
    constructor <;> simp only [curPc, hpc] at * <;> grind
  | l1ownBegin hpc =>
    obtain ⟨h1, h2, h3, h4, h5, h6, h7⟩ := hi
    constructor <;> simp only [curPc, hpc] at * <;> grind
  | l2ownBegin hpc =>
    obtain ⟨h1, h2, h3, h4, h5, h6, h7⟩ := hi
    constructor <;> simp only [curPc, hpc] at * <;> grind
  | l2goTok hq hpc =>
    obtain ⟨h1, h2, h3, h4, h5, h6, h7⟩ := hi
    constructor <;> simp only [curPc, hpc, hq] at * <;> grind
  | l2ownElsewhere hpc =>
    obtain ⟨h1, h2, h3, h4, h5, h6, h7⟩ := hi
    constructor <;> simp only [curPc, hpc] at * <;> grind
  | _ =>
    apply Inv3.frame hi <;> simp [curPc, poll, *]

/-! ## The ghost fields and the event list -/

def evBegin : Ev → Option Nat
  | .begin f => some f
  | _ => none

def evTarget : Ev → Option Nat
  | .target f => some f
  | _ => none

def evElsewhere : Ev → Option Nat
  | .failedElsewhere f => some f
  | _ => none

def evFork : Ev → Option Nat
  | .forked f => some f
  | _ => none

def failEv : Ev → Bool
  | .immediate _ fail => fail
  | .jobEnd _ fail => fail
  | .failedElsewhere _ => true
  | .badTarget => true
  | _ => false

def isAbort : Ev → Bool
  | .abort => true
  | _ => false

theorem beginOf_eq_some {e : Ev} {f : Nat} : evBegin e = some f ↔ e = .begin f := by
  cases e <;> simp [evBegin]

theorem targetOf_eq_some {e : Ev} {f : Nat} : evTarget e = some f ↔ e = .target f := by
  cases e <;> simp [evTarget]

theorem elsewhereOf_eq_some {e : Ev} {f : Nat} : evElsewhere e = some f ↔ e = .failedElsewhere f := by
  cases e <;> simp [evElsewhere]

theorem isAbort_eq_true {e : Ev} : isAbort e = true ↔ e = .abort := by
  cases e <;> simp [isAbort]

theorem step_ghost {c : Cfg} {s s' : St} {ev : Ev} (h : step c s ev = .ok s') :
    s'.started = (evBegin ev).toList ++ s.started ∧ s'.seen = (evTarget ev).toList ++ s.seen ∧
    s'.elsewhere = (evElsewhere ev).toList ++ s.elsewhere ∧ s'.failed = (s.failed || failEv ev) ∧
    s'.aborted = (s.aborted || isAbort ev) := by
  cases step_Step h <;> simp [evBegin, evTarget, evElsewhere, failEv, isAbort, poll]

/-- A list-valued ghost field that every step extends by what the event names. -/
theorem run_ghost_list {c : Cfg} (proj : St → List Nat) (g : Ev → Option Nat)
    (hstep : ∀ s ev s', step c s ev = .ok s' → proj s' = (g ev).toList ++ proj s)
    {s s' : St} {es : List Ev} (h : run c s es = .ok s') : proj s' = (es.filterMap g).reverse ++ proj s := by
  induction es generalizing s with
  | nil => cases h; simp
  | cons e es ih =>
    obtain ⟨s1, h1, h2⟩ := run_cons_ok h
    rw [ih h2, hstep s e s1 h1]
    cases hg : g e <;> simp [List.filterMap_cons, hg]

theorem run_ghost_bool {c : Cfg} (proj : St → Bool) (g : Ev → Bool)
    (hstep : ∀ s ev s', step c s ev = .ok s' → proj s' = (proj s || g ev))
    {s s' : St} {es : List Ev} (h : run c s es = .ok s') : proj s' = (proj s || es.any g) := by
  induction es generalizing s with
  | nil => cases h; simp
  | cons e es ih =>
    obtain ⟨s1, h1, h2⟩ := run_cons_ok h
    rw [ih h2, hstep s e s1 h1]
    simp [Bool.or_assoc]

theorem run_started {c : Cfg} {s s' : St} {es : List Ev} (h : run c s es = .ok s') :
    s'.started = (es.filterMap evBegin).reverse ++ s.started :=
  run_ghost_list (·.started) evBegin (fun _ _ _ h => (step_ghost h).1) h

theorem run_seen {c : Cfg} {s s' : St} {es : List Ev} (h : run c s es = .ok s') :
    s'.seen = (es.filterMap evTarget).reverse ++ s.seen :=
  run_ghost_list (·.seen) evTarget (fun _ _ _ h => (step_ghost h).2.1) h

theorem run_elsewhere {c : Cfg} {s s' : St} {es : List Ev} (h : run c s es = .ok s') :
    s'.elsewhere = (es.filterMap evElsewhere).reverse ++ s.elsewhere :=
  run_ghost_list (·.elsewhere) evElsewhere (fun _ _ _ h => (step_ghost h).2.2.1) h

theorem run_failed {c : Cfg} {s s' : St} {es : List Ev} (h : run c s es = .ok s') :
    s'.failed = (s.failed || es.any failEv) :=
  run_ghost_bool (·.failed) failEv (fun _ _ _ h => (step_ghost h).2.2.2.1) h

theorem run_aborted {c : Cfg} {s s' : St} {es : List Ev} (h : run c s es = .ok s') :
    s'.aborted = (s.aborted || es.any isAbort) :=
  run_ghost_bool (·.aborted) isAbort (fun _ _ _ h => (step_ghost h).2.2.2.2) h

theorem any_failEv_false {es : List Ev} : es.any failEv = false ↔ ∀ e ∈ es, failEv e = false := by
  simp [List.any_eq_false]

theorem any_isAbort_false {es : List Ev} : es.any isAbort = false ↔ Ev.abort ∉ es := by
  rw [List.any_eq_false]
  constructor
  · intro h hm; have := h _ hm; simp [isAbort] at this
  · intro h e he; cases e <;> simp [isAbort]; exact h he

/-! ## Invariants over accepted runs -/

theorem run_inv1 {c : Cfg} {s : St} {es : List Ev} (h : run c {} es = .ok s) : Inv1 s :=
  run_inv Inv1 (fun _ _ _ h hi => Inv1.step h hi) h Inv1.init

theorem run_inv2 {c : Cfg} {s : St} {es : List Ev} (h : run c {} es = .ok s) : Inv2 c s :=
  run_inv (Inv2 c) (fun _ _ _ h hi => Inv2.step h hi) h (Inv2.init c)

theorem run_inv3 {c : Cfg} {s : St} {es : List Ev} (h : run c {} es = .ok s) : Inv3 s :=
  run_inv Inv3 (fun _ _ _ h hi => Inv3.step h hi) h Inv3.init

/-! ## At most one start and one fork per file id -/

theorem begins_nodup {c : Cfg} {s : St} {es : List Ev} (h : run c {} es = .ok s) : (es.filterMap evBegin).Nodup := by
  have h1 := (run_inv3 h).startedNodup
  rw [run_started h] at h1
  exact (List.reverse_perm _).nodup_iff.1 (by simpa using h1)

/-- The target whose `BuildJob::start` has been entered and has not answered yet. -/
def startedPc : Pc → Option Nat
  | .l1started f => some f | .l2started f => some f
  | _ => none

theorem step_fork {c : Cfg} {s s' : St} {ev : Ev} (h : step c s ev = .ok s') :
    (∀ f, evFork ev = some f → startedPc s.pc = some f ∧ startedPc s'.pc = none ∧ evBegin ev = none) ∧
    (∀ f, evBegin ev = some f → startedPc s.pc = none ∧ startedPc s'.pc = some f ∧ evFork ev = none) ∧
    (evFork ev = none → evBegin ev = none → startedPc s'.pc = none) := by
  cases step_Step h <;> simp_all [evFork, evBegin, startedPc, poll]

theorem forks_sublist {c : Cfg} {s s' : St} {es : List Ev} (h : run c s es = .ok s') :
    (es.filterMap evFork).Sublist ((startedPc s.pc).toList ++ es.filterMap evBegin) := by
  induction es generalizing s with
  | nil => simp
  | cons e es ih =>
    obtain ⟨s1, h1, h2⟩ := run_cons_ok h
    have ih := ih h2
    obtain ⟨hf, hb, hn⟩ := step_fork h1
    cases hfe : evFork e with
    | some f =>
      obtain ⟨a, b, d⟩ := hf f hfe
      simp only [List.filterMap_cons, hfe, d, a, b, Option.toList] at ih ⊢
      simpa using ih
    | none =>
      cases hbe : evBegin e with
      | some f =>
        obtain ⟨a, b, d⟩ := hb f hbe
        simp only [List.filterMap_cons, hfe, hbe, a, b, Option.toList] at ih ⊢
        simpa using ih
      | none =>
        have b := hn hfe hbe
        simp only [List.filterMap_cons, hfe, hbe, b, Option.toList] at ih ⊢
        exact ih.trans (List.sublist_append_right _ _)

theorem forks_nodup {c : Cfg} {s : St} {es : List Ev} (h : run c {} es = .ok s) : (es.filterMap evFork).Nodup := by
  have := forks_sublist h
  simp only [startedPc, Option.toList, List.nil_append] at this
  exact (begins_nodup h).sublist this

/-! ## The stop rule, the exit status, every target decided -/

theorem step_begin_pc {c : Cfg} {s s' : St} {ev : Ev} (h : step c s ev = .ok s') (f : Nat)
    (hb : evBegin ev = some f) : quietPc s.pc = false := by
  cases step_Step h <;> simp_all [evBegin, quietPc]

/-- Without `-k`, from a state in which a failure is known no accepted run enters `BuildJob::start`. -/
theorem no_begin_when_failed {c : Cfg} (hk : c.keepGoing = false) {s s' : St} {es : List Ev}
    (hi : Inv2 c s) (hf : s.failed = true) (h : run c s es = .ok s') : ∀ e ∈ es, evBegin e = none := by
  induction es generalizing s with
  | nil => simp
  | cons e es ih =>
    obtain ⟨s1, h1, h2⟩ := run_cons_ok h
    have hf1 : s1.failed = true := by rw [(step_ghost h1).2.2.2.1, hf]; rfl
    intro e' he'
    rcases List.mem_cons.1 he' with rfl | he'
    · cases hb : evBegin e' with
      | none => rfl
      | some f =>
        have := step_begin_pc h1 f hb
        rw [hi.quiet hk hf] at this
        cases this
    · exact ih (Inv2.step h1 hi) hf1 h2 e' he'

theorem no_begin_after_failure {c : Cfg} (hk : c.keepGoing = false) {pre post : List Ev} {e : Ev} {s : St}
    (h : run c {} (pre ++ e :: post) = .ok s) (hf : failEv e = true) : ∀ e' ∈ post, evBegin e' = none := by
  obtain ⟨s0, h0, h1⟩ := run_append_ok h
  obtain ⟨s1, h2, h3⟩ := run_cons_ok h1
  have hi1 : Inv2 c s1 := Inv2.step h2 (run_inv2 h0)
  have hf1 : s1.failed = true := by rw [(step_ghost h2).2.2.2.1, hf]; simp
  exact no_begin_when_failed hk hi1 hf1 h3

theorem exit_status_iff {c : Cfg} {es : List Ev} {s : St} {ok : Bool} (h : run c {} es = .ok s)
    (hp : s.pc = .ended ok) : ok = true ↔ ((∀ e ∈ es, failEv e = false) ∧ Ev.abort ∉ es) := by
  have h1 := ((run_inv2 h).ended ok hp).1
  have h2 := run_failed h
  have h3 := run_aborted h
  rw [← any_failEv_false, ← any_isAbort_false]
  simp only [Bool.false_or] at h2 h3
  rw [h1, ← h2, ← h3]
  cases s.failed <;> cases s.aborted <;> simp

theorem targets_decided {c : Cfg} {es : List Ev} {s : St} {ok : Bool} (h : run c {} es = .ok s)
    (hp : s.pc = .ended ok) (ha : Ev.abort ∉ es) (hk : c.keepGoing = true ∨ ∀ e ∈ es, failEv e = false) :
    ∀ f, Ev.target f ∈ es → (Ev.begin f ∈ es ∨ Ev.failedElsewhere f ∈ es) := by
  intro f hf
  have hab : s.aborted = false := by
    rw [run_aborted h]; simpa using any_isAbort_false.2 ha
  have hq : s.queue = [] := by
    rcases ((run_inv2 h).ended ok hp).2 with h1 | ⟨h1, h2⟩ | h1
    · rw [hab] at h1; cases h1
    · rcases hk with hk | hk
      · rw [hk] at h1; cases h1
      · rw [run_failed h] at h2
        have := any_failEv_false.2 hk
        simp [this] at h2
    · exact h1
  have hseen : f ∈ s.seen := by
    rw [run_seen h]
    simp only [List.append_nil, List.mem_reverse, List.mem_filterMap]
    exact ⟨_, hf, rfl⟩
  rcases (run_inv3 h).decided hab f hseen with h1 | h1 | h1 | h1
  · left
    rw [run_started h] at h1
    simp only [List.append_nil, List.mem_reverse, List.mem_filterMap] at h1
    obtain ⟨e, he, hb⟩ := h1
    rw [beginOf_eq_some.1 hb] at he; exact he
  · right
    rw [run_elsewhere h] at h1
    simp only [List.append_nil, List.mem_reverse, List.mem_filterMap] at h1
    obtain ⟨e, he, hb⟩ := h1
    rw [elsewhereOf_eq_some.1 hb] at he; exact he
  · rw [hq] at h1; cases h1
  · rw [hp] at h1; simp [curPc] at h1

end RedoModel.RunLoop
