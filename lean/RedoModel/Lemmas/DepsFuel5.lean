import RedoModel.Lemmas.DepsFuel2
/-!
# C12 — the fuel of the engine is an artefact (part 5: the invariant, scripts)

`WInv nc N w`: every id the engine can come across in `w` is below `N` — sources of dependency rows,
.do candidates, and every name in every program.  Programs and rules never change during a command;
rows are only added for such names.  `Agree nc N r1 r2`: two runs gave the same result and the invariant
still holds.
-/
namespace RedoModel.Deps
open RedoModel.Generated

variable {nc : Bool}

/-- All names in a program are below `N`; with `nc` ("no checksums"), it does not call `redo-stamp`. -/
def ScriptBelow (nc : Bool) (N : Nat) (sc : Script) : Prop :=
  (∀ c ∈ sc.ifchange, ∀ x ∈ c, x < N) ∧ (∀ x ∈ sc.cond, x < N) ∧ (∀ x ∈ sc.ifcreate, x < N) ∧
  (nc = true → sc.stamp = 0)

theorem ScriptBelow.default (N : Nat) : ScriptBelow nc N {} := by
  refine ⟨?_, ?_, ?_, fun _ => rfl⟩ <;> intro x h <;> cases h

/-- The invariant.  `nc = true` adds: no record carries a checksum (and no program calls `redo-stamp`), so the
dirtiness check never asks for an out-of-band rebuild. -/
structure WInv (nc : Bool) (N : Nat) (w : World) : Prop where
  pos : 0 < N
  deps : DepsBelow N w
  rules : ∀ t c, c ∈ w.rules t → c < N
  progs : ∀ c sc, w.progs c = some sc → ScriptBelow nc N sc
  nocsum : nc = true → NoCsum w

theorem WInv.same {N : Nat} {w w' : World} (h : WInv nc N w) (hd : w'.deps = w.deps) (hr : w'.rules = w.rules)
    (hp : w'.progs = w.progs) (hrec : w'.recs = w.recs) : WInv nc N w' :=
  ⟨h.pos, fun d hd' => h.deps d (hd ▸ hd'), fun t c hc => h.rules t c (hr ▸ hc), fun c sc hs => h.progs c sc (hp ▸ hs),
    fun hn => (h.nocsum hn).of_recs hrec⟩

theorem WInv.setRec {N : Nat} {w : World} (h : WInv nc N w) (f : Nat) (r : Rec) (hr : nc = true → r.csum = none) :
    WInv nc N (setRec w f r) :=
  ⟨h.pos, h.deps, h.rules, h.progs, fun hn => (h.nocsum hn).setRec f r (hr hn)⟩

theorem addKnown_static (w : World) (f : Nat) :
    (addKnown w f).deps = w.deps ∧ (addKnown w f).rules = w.rules ∧ (addKnown w f).progs = w.progs := by
  unfold addKnown
  split
  · exact ⟨rfl, rfl, rfl⟩
  · exact ⟨rfl, rfl, rfl⟩

theorem NoCsum.addKnown {w : World} (h : NoCsum w) (f : Nat) : NoCsum (addKnown w f) := by
  unfold RedoModel.Deps.addKnown
  split
  · exact h
  · exact NoCsum.of_recs (w := RedoModel.Deps.setRec w f { (w.recs f) with row := w.nextRow }) (h.setRec f _ (h f)) rfl

theorem WInv.addKnown {N : Nat} {w : World} (h : WInv nc N w) (f : Nat) : WInv nc N (addKnown w f) :=
  ⟨h.pos, fun d hd => h.deps d ((addKnown_static w f).1 ▸ hd), fun t c hc => h.rules t c ((addKnown_static w f).2.1 ▸ hc),
    fun c sc hs => h.progs c sc ((addKnown_static w f).2.2 ▸ hs), fun hn => (h.nocsum hn).addKnown f⟩

theorem WInv.setFile {N : Nat} {w : World} (h : WInv nc N w) (f : Nat) (n : Option FNode) : WInv nc N (setFile w f n) :=
  h.same rfl rfl rfl rfl

theorem WInv.ev {N : Nat} {w : World} (h : WInv nc N w) (e : Ev) : WInv nc N (ev w e) :=
  h.same rfl rfl rfl rfl

theorem WInv.addDep {N : Nat} {w : World} (h : WInv nc N w) (t s : Nat) (m : Bool) (hs : s < N) :
    WInv nc N (addDep w t s m) := by
  have ha := addKnown_static w s
  refine ⟨h.pos, ?_, fun t c hc => h.rules t c (ha.2.1 ▸ hc), fun c sc hsc => h.progs c sc (ha.2.2 ▸ hsc),
    fun hn => ((h.nocsum hn).addKnown s).of_recs rfl⟩
  intro dp hdp
  simp only [RedoModel.Deps.addDep, List.mem_cons, List.mem_filter] at hdp
  rcases hdp with e | e
  · subst e; exact hs
  · exact h.deps dp (ha.1 ▸ e.1)

theorem WInv.foldl_addDep {N : Nat} (t : Nat) (m : Bool) : ∀ (l : List Nat) (w : World), (∀ x ∈ l, x < N) → WInv nc N w →
    WInv nc N (l.foldl (fun w f => RedoModel.Deps.addDep w t f m) w)
  | [], _, _, h => h
  | f :: l, w, hl, h =>
    WInv.foldl_addDep t m l _ (fun x hx => hl x (by simp [hx])) (h.addDep t f m (hl f (by simp)))

theorem WInv.zapDeps1 {N : Nat} {w : World} (h : WInv nc N w) (t : Nat) : WInv nc N (zapDeps1 w t) := by
  refine ⟨h.pos, ?_, h.rules, h.progs, h.nocsum⟩
  intro dp hdp
  simp only [RedoModel.Deps.zapDeps1, List.mem_map] at hdp
  obtain ⟨d0, hd0, rfl⟩ := hdp
  have := h.deps d0 hd0
  split <;> exact this

theorem WInv.zapDeps2 {N : Nat} {w : World} (h : WInv nc N w) (t : Nat) : WInv nc N (zapDeps2 w t) := by
  refine ⟨h.pos, ?_, h.rules, h.progs, h.nocsum⟩
  intro dp hdp
  simp only [RedoModel.Deps.zapDeps2, List.mem_filter] at hdp
  exact h.deps dp hdp.1

/-! Checksums are only copied by the record operations. -/

theorem updateStamp_csum (w : World) (f : Nat) (r : Rec) (R : Nat) : (updateStamp w f r R).csum = r.csum := by
  unfold updateStamp
  dsimp only
  split <;> rfl

theorem setStatic_csum (w : World) (f : Nat) (r : Rec) (R : Nat) : (setStatic w f r R).csum = none := rfl

theorem setFailed_csum (w : World) (f : Nat) (r : Rec) (R : Nat) : (setFailed w f r R).csum = r.csum :=
  updateStamp_csum w f r R

theorem setOverride_csum (w : World) (f : Nat) (r : Rec) (R : Nat) : (setOverride w f r R).csum = none := rfl

/-- Two runs agree and leave the invariant intact. -/
def Agree (nc : Bool) (N : Nat) (r1 r2 : Status × World) : Prop := r1 = r2 ∧ WInv nc N r1.2

/-- … for the results of scripts. -/
def Agree3 (nc : Bool) (N : Nat) (r1 r2 : Status × Option Content × World) : Prop := r1 = r2 ∧ WInv nc N r1.2.2

theorem Agree.rfl' {N : Nat} {r : Status × World} (h : WInv nc N r.2) : Agree nc N r r := ⟨rfl, h⟩

/-- What the script-level lemmas need of the two engines: they agree, and keep the invariant, on every
command line with names below `N`, in the script's context `cx'`. -/
def AgreeAt (nc : Bool) (N : Nat) (E1 E2 : Engine) (cx' : Ctx) : Prop :=
  ∀ c w, (∀ x ∈ c, x < N) → WInv nc N w → Agree nc N (E1.ifchangeCmd cx' c w) (E2.ifchangeCmd cx' c w)

theorem cmds_agree (N : Nat) (E1 E2 : Engine) (cx : Ctx) (t : Nat) (cx' : Ctx) (hE : AgreeAt nc N E1 E2 cx') :
    ∀ (cs : List (List Nat)) (k : Nat) (w : World), (∀ c ∈ cs, ∀ x ∈ c, x < N) → WInv nc N w →
      Agree nc N (runScript.cmds E1 cx t cx' cs k w) (runScript.cmds E2 cx t cx' cs k w)
  | [], k, w, _, hw => by
    rw [runScript.cmds, runScript.cmds]
    exact ⟨rfl, hw⟩
  | c :: cs, k, w, hcs, hw => by
    rw [runScript.cmds, runScript.cmds]
    by_cases hc : cx.crash = some (t, k)
    · simp only [hc, if_true]
      exact ⟨rfl, hw⟩
    · simp only [hc, if_false]
      obtain ⟨he, hw1⟩ := hE c w (hcs c (by simp)) hw
      rw [he] at hw1 ⊢
      generalize E2.ifchangeCmd cx' c w = r at hw1 ⊢
      obtain ⟨rv, w1⟩ := r
      have ih := cmds_agree N E1 E2 cx t cx' hE cs (k + 1) w1 (fun c' hc' => hcs c' (by simp [hc'])) hw1
      split
      · rename_i heq
        cases heq
        exact ih
      · rename_i heq
        cases heq
        exact ⟨rfl, hw1⟩


theorem conds_agree (N : Nat) (E1 E2 : Engine) (t : Nat) (cx' : Ctx) (hE : AgreeAt nc N E1 E2 cx') :
    ∀ (fs : List Nat) (w : World), (∀ x ∈ fs, x < N) → WInv nc N w →
      Agree nc N (runScript.conds E1 t cx' fs w) (runScript.conds E2 t cx' fs w)
  | [], w, _, hw => by
    rw [runScript.conds, runScript.conds]
    exact ⟨rfl, hw⟩
  | f :: fs, w, hfs, hw => by
    have hf : f < N := hfs f (by simp)
    have hfs' : ∀ x ∈ fs, x < N := fun x hx => hfs x (by simp [hx])
    rw [runScript.conds, runScript.conds]
    by_cases hex : existsF w f = true
    · simp only [hex, if_true]
      obtain ⟨he, hw1⟩ := hE [f] w (fun x hx => by simp at hx; exact hx ▸ hf) hw
      rw [he] at hw1 ⊢
      generalize E2.ifchangeCmd cx' [f] w = r at hw1 ⊢
      obtain ⟨rv, w1⟩ := r
      have ih := conds_agree N E1 E2 t cx' hE fs w1 hfs' hw1
      split
      · rename_i heq
        cases heq
        exact ih
      · rename_i heq
        cases heq
        exact ⟨rfl, hw1⟩
    · simp only [hex, Bool.false_eq_true, if_false]
      exact conds_agree N E1 E2 t cx' hE fs _ hfs' (hw.addDep t f false hf)

theorem rsFinish_winv {N : Nat} (cx : Ctx) (t : Nat) (sc : Script) (w : World) (hsc : ScriptBelow nc N sc)
    (hw : WInv nc N w) : WInv nc N (rsFinish cx t sc w).2.2 := by
  rw [rsFinish_world]
  split
  · exact hw
  · unfold rsStampW
    dsimp only
    split
    · exact hw
    · rename_i hst
      exact (hw.addKnown t).setRec t _ (fun hn => absurd (hsc.2.2.2 hn) hst)

theorem rsAlways_winv {N : Nat} (cx : Ctx) (t : Nat) (sc : Script) (w : World) (hw : WInv nc N w) :
    WInv nc N (rsAlways cx t sc w) := by
  unfold rsAlways
  split
  · refine (hw.addDep t alwaysId true hw.pos).setRec _ _ (fun hn => ?_)
    exact ((hw.addDep t alwaysId true hw.pos).nocsum hn) alwaysId
  · exact hw

theorem rsBody_agree (N : Nat) (E1 E2 : Engine) (cx : Ctx) (t : Nat) (sc : Script) (w : World)
    (hE : AgreeAt nc N E1 E2 { runid := cx.runid, parent := some t, cycles := t :: cx.cycles, keepGoing := cx.keepGoing, crash := cx.crash })
    (hsc : ScriptBelow nc N sc) (hw : WInv nc N w) : Agree3 nc N (rsBody E1 cx t sc w) (rsBody E2 cx t sc w) := by
  unfold rsBody
  dsimp only
  obtain ⟨he, hw1⟩ := conds_agree N E1 E2 t _ hE sc.cond w hsc.2.1 hw
  rw [he] at hw1 ⊢
  generalize runScript.conds E2 t _ sc.cond w = r1 at hw1 ⊢
  obtain ⟨rvc, w1⟩ := r1
  dsimp only at hw1 ⊢
  split
  · exact ⟨rfl, hw1⟩
  · obtain ⟨he2, hw2⟩ := cmds_agree N E1 E2 cx t _ hE sc.ifchange 0 w1 hsc.1 hw1
    rw [he2] at hw2 ⊢
    generalize runScript.cmds E2 cx t _ sc.ifchange 0 w1 = r2 at hw2 ⊢
    obtain ⟨rv, w2⟩ := r2
    dsimp only at hw2 ⊢
    split
    · exact ⟨rfl, hw2⟩
    · exact ⟨rfl, rsFinish_winv cx t sc w2 hsc hw2⟩

theorem runScript_agree (N : Nat) (E1 E2 : Engine) (d : Defects) (cx : Ctx) (t : Nat) (sc : Script) (w : World)
    (hE : AgreeAt nc N E1 E2 { runid := cx.runid, parent := some t, cycles := t :: cx.cycles, keepGoing := cx.keepGoing, crash := cx.crash })
    (hsc : ScriptBelow nc N sc) (hw : WInv nc N w) : Agree3 nc N (runScript E1 d cx t sc w) (runScript E2 d cx t sc w) := by
  rw [runScript_eq, runScript_eq]
  have ha := rsAlways_winv cx t sc w hw
  split
  · exact ⟨rfl, ha⟩
  · exact rsBody_agree N E1 E2 cx t sc _ hE hsc (WInv.foldl_addDep t false sc.ifcreate _ hsc.2.2.1 ha)

theorem recordNewState_winv {N : Nat} (cx : Ctx) (t : Nat) (sf : Rec) (rv : Status) (out : Option Content) (w : World)
    (hsf : nc = true → sf.csum = none) (hw : WInv nc N w) : WInv nc N (recordNewState cx t sf rv out w).2 := by
  have key : ∀ w1 : World, WInv nc N w1 → WInv nc N (setRec (zapDeps2 w1 t)
      t (if (isCheckedR { (w1.recs t) with isGenerated := true, isOverride := false } cx.runid ||
              isChangedR { (w1.recs t) with isGenerated := true, isOverride := false } cx.runid) = true then
            { ({ (w1.recs t) with isGenerated := true, isOverride := false } : Rec) with stamp := some (readStamp w1 t) }
          else setChanged (updateStamp w1 t { ({ (w1.recs t) with isGenerated := true, isOverride := false } : Rec)
              with csum := none } cx.runid) cx.runid)) := by
    intro w1 hw1
    refine (hw1.zapDeps2 t).setRec t _ (fun hn => ?_)
    split
    · exact hw1.nocsum hn t
    · show (updateStamp w1 t _ cx.runid).csum = none
      rw [updateStamp_csum]
  unfold recordNewState
  dsimp only
  split
  · cases out with
    | none => exact key _ (hw.setFile t none)
    | some c =>
      dsimp only [newNode]
      exact key _ ((hw.same (w' := { w with clock := w.clock + 1 }) rfl rfl rfl rfl).setFile t _)
  · exact (hw.zapDeps2 t).setRec t _ (fun hn => by rw [setFailed_csum]; exact hsf hn)

theorem findDoFile_winv {N : Nat} (t : Nat) : ∀ (cs : List Nat) (w : World), (∀ c ∈ cs, c < N) → WInv nc N w →
    WInv nc N (findDoFile t cs w).2
  | [], w, _, hw => by rw [findDoFile]; exact hw
  | c :: cs, w, hcs, hw => by
    rw [findDoFile]
    split
    · exact hw.addDep t c true (hcs c (by simp))
    · exact findDoFile_winv t cs _ (fun x hx => hcs x (by simp [hx])) (hw.addDep t c false (hcs c (by simp)))

theorem ssRun_agree (N : Nat) (E1 E2 : Engine) (d : Defects) (cx : Ctx) (t : Nat) (sf : Rec) (sc : Script) (w3 : World)
    (hE : AgreeAt nc N E1 E2 { runid := cx.runid, parent := some t, cycles := t :: cx.cycles, keepGoing := cx.keepGoing, crash := cx.crash })
    (hsc : ScriptBelow nc N sc) (hsf : nc = true → sf.csum = none) (h3 : WInv nc N w3) :
    Agree nc N
      (match runScript E1 d cx t sc w3 with
       | (rv, out, w) => if rv = CRASHED then (CRASHED, w) else recordNewState cx t sf rv out w)
      (match runScript E2 d cx t sc w3 with
       | (rv, out, w) => if rv = CRASHED then (CRASHED, w) else recordNewState cx t sf rv out w) := by
  obtain ⟨he, h4⟩ := runScript_agree N E1 E2 d cx t sc w3 hE hsc h3
  rw [he] at h4 ⊢
  generalize runScript E2 d cx t sc w3 = r4 at h4 ⊢
  obtain ⟨rv, out, w4⟩ := r4
  dsimp only at h4 ⊢
  split
  · exact ⟨rfl, h4⟩
  · exact ⟨rfl, recordNewState_winv cx t sf rv out w4 hsf h4⟩

theorem ssBuild_agree (N : Nat) (E1 E2 : Engine) (d : Defects) (cx : Ctx) (t : Nat) (sf : Rec) (w : World)
    (hE : AgreeAt nc N E1 E2 { runid := cx.runid, parent := some t, cycles := t :: cx.cycles, keepGoing := cx.keepGoing, crash := cx.crash })
    (hsf : nc = true → sf.csum = none) (hw : WInv nc N w) : Agree nc N (ssBuild E1 d cx t sf w) (ssBuild E2 d cx t sf w) := by
  unfold ssBuild
  dsimp only
  have h1 := findDoFile_winv t ((zapDeps1 w t).rules t) (zapDeps1 w t) (fun c hc => hw.rules t c hc) (hw.zapDeps1 t)
  generalize findDoFile t ((zapDeps1 w t).rules t) (zapDeps1 w t) = r at h1
  obtain ⟨o, w1⟩ := r
  dsimp only at h1
  cases o with
  | none =>
    dsimp only
    split
    · exact ⟨rfl, h1.setRec t _ (fun _ => setStatic_csum _ _ _ _)⟩
    · exact ⟨rfl, h1.setRec t _ (fun hn => by rw [setFailed_csum]; exact hsf hn)⟩
  | some dof =>
    dsimp only
    have h3 : WInv nc N (ev (setRec w1 dof (setStatic w1 dof (w1.recs dof) cx.runid)) (.ran t)) :=
      (h1.setRec dof _ (fun _ => setStatic_csum _ _ _ _)).ev _
    generalize ev (setRec w1 dof (setStatic w1 dof (w1.recs dof) cx.runid)) (.ran t) = w3 at h3 ⊢
    refine ssRun_agree N E1 E2 d cx t sf _ w3 hE ?_ hsf h3
    split
    · rename_i n _
      cases hp : w3.progs n.content with
      | none => exact ScriptBelow.default N
      | some sc => exact h3.progs _ sc hp
    · exact ScriptBelow.default N

theorem startSelf_agree (N : Nat) (E1 E2 : Engine) (d : Defects) (cx : Ctx) (t : Nat) (sf0 : Rec) (w : World)
    (hE : AgreeAt nc N E1 E2 { runid := cx.runid, parent := some t, cycles := t :: cx.cycles, keepGoing := cx.keepGoing, crash := cx.crash })
    (hsf0 : nc = true → sf0.csum = none) (hw : WInv nc N w) :
    Agree nc N (startSelf E1 d cx t sf0 w) (startSelf E2 d cx t sf0 w) := by
  rw [startSelf_eq, startSelf_eq]
  have hg : WInv nc N (ssGuard cx t sf0 w).2 ∧ (nc = true → (ssGuard cx t sf0 w).1.csum = none) := by
    unfold ssGuard
    split
    · dsimp only
      have hc : nc = true → (setOverride (ev w (.warnOverride t)) t sf0 cx.runid).csum = none := by
        intro hn
        exact setOverride_csum _ _ _ _
      exact ⟨(hw.ev _).setRec t _ hc, hc⟩
    · exact ⟨hw, hsf0⟩
  generalize ssGuard cx t sf0 w = g at hg
  obtain ⟨sf, w1⟩ := g
  obtain ⟨hg, hsf⟩ := hg
  dsimp only at hg hsf ⊢
  split
  · refine ⟨rfl, hg.setRec t _ (fun hn => ?_)⟩
    split
    · exact setStatic_csum _ _ _ _
    · exact hsf hn
  · exact ssBuild_agree N E1 E2 d cx t sf w1 hE hsf hg

end RedoModel.Deps
