import RedoModel.Lemmas.DepsSoundRK9
/-! Non-vacuity, stage 3 flavour: the history of `DepsSoundRK9` continued by a hand edit of the generated target 2
(an override) and a second killed run: every hypothesis of `recoversRichK_partial` still holds. -/
namespace RedoModel.Deps.Rich
open RedoModel.Generated

/-- … then the user overwrites the generated file 2 by hand, and a second `redo-ifchange 3` is killed at step 0. -/
def kbOps : List UserOp := kaOps ++ [.write 2 9, .crashCmd [3] 3 0]

def kaW10 : World := (applyOp {} 3 (.write 2 9) kaW9).2
def kaW11 : World := (applyOp {} 3 (.crashCmd [3] 3 0) kaW10).2

theorem ka_ranked10 : RankedR r3Rank kaW10 := by
  refine RankedR_same ka_btw9.2.1.ranked rfl rfl (fun t dof hd => ?_)
  rw [ka_btw9.2.2] at hd
  have hne : dof ≠ 2 := by
    unfold r3Rules at hd
    split at hd
    · simp at hd; omega
    · split at hd
      · simp at hd; omega
      · simp at hd
  show (setFile _ 2 _).fs dof = _
  simp [setFile, hne]

theorem ka_btw10 : SK kaW10 ∧ Btw r3Rank kaW10 ∧ kaW10.rules = r3Rules := by
  obtain ⟨a1, a2⟩ := applyOp_btwK ka_rank_lt ka_btw9.1 ka_btw9.2.1 ka_btw9.2.2 (.write 2 9)
    (by simp [RichOpK, RichOp, alwaysId]) trivial ka_ranked10
  exact ⟨applyOp_sk {} 3 _ kaW9 trivial ka_btw9.1, a1, a2⟩

theorem ka_btw11 : SK kaW11 ∧ Btw r3Rank kaW11 ∧ kaW11.rules = r3Rules := by
  obtain ⟨a1, a2⟩ := crashCmd_btw {} ka_rank_lt ka_btw10.1 ka_btw10.2.1 [3] 3 0
    (by intro t ht; simp only [List.mem_singleton] at ht; subst ht; simp [alwaysId])
  exact ⟨ka_btw10.1.tr (crashCmd_tr {} 3 [3] 3 0 kaW10), a1, a2.trans ka_btw10.2.2⟩

theorem worldsOf_append (n : Nat) (d : Defects) : ∀ (ops1 ops2 : List UserOp) (w : World) (w' : World),
    w' ∈ worldsOf n d w (ops1 ++ ops2) →
    w' ∈ worldsOf n d w ops1 ∨ w' ∈ worldsOf n d (ops1.foldl (fun w op => (applyOp d n op w).2) w) ops2
  | [], ops2, w, w', h => Or.inr h
  | op :: ops1, ops2, w, w', h => by
    simp only [List.cons_append, worldsOf, List.mem_cons] at h ⊢
    rcases h with rfl | h
    · exact Or.inl (Or.inl rfl)
    · rcases worldsOf_append n d ops1 ops2 _ w' h with h1 | h1
      · exact Or.inl (Or.inr h1)
      · exact Or.inr h1

theorem kb_ranked : ∀ w ∈ worldsOf 3 {} (initWorld r3Rules) kbOps, RankedR r3Rank w := by
  intro w hw
  rcases worldsOf_append 3 {} kaOps _ _ w hw with h | h
  · exact ka_ranked w h
  · have e : kaOps.foldl (fun w op => (applyOp {} 3 op w).2) (initWorld r3Rules) = kaW9 := by
      simp only [kaOps, List.foldl_append, List.foldl_cons, List.foldl_nil]
      rfl
    rw [e] at h
    simp only [worldsOf, List.mem_cons, List.not_mem_nil, or_false] at h
    rcases h with rfl | rfl | rfl
    · exact ka_btw9.2.1.ranked
    · exact ka_ranked10
    · exact ka_btw11.2.1.ranked

theorem kb_richK : ∀ op ∈ kbOps, RichOpK r3Rules op := by
  intro op hop
  rcases List.mem_append.1 hop with h | h
  · exact ka_richK op h
  · simp only [List.mem_cons, List.not_mem_nil, or_false] at h
    rcases h with rfl | rfl
    · simp [RichOpK, RichOp, alwaysId]
    · intro t ht; simp only [List.mem_singleton] at ht; subst ht; simp [alwaysId]

theorem kb_noWatch : ∀ op ∈ kbOps, NoWatchOp op := by
  intro op hop
  rcases List.mem_append.1 hop with h | h
  · exact ka_noWatch op h
  · simp only [List.mem_cons, List.not_mem_nil, or_false] at h
    rcases h with rfl | rfl <;> trivial

theorem kb_opsOk : OpsOkW 3 (initWorld r3Rules) kbOps := by
  refine ⟨?_, ?_, trivial, trivial, trivial, trivial, trivial, trivial, trivial, trivial, trivial⟩
  · intro t dof _ n hn; cases hn
  · intro t dof _ n hn; cases hn

/-- **Non-vacuity with a hand edit of a generated target and two kills**: every hypothesis of
`recoversRichK_partial` holds for `kbOps`. -/
example : let w := kbOps.foldl (fun w op => (applyOp {} 3 op w).2) (initWorld r3Rules)
    let r := runCmd {} 3 (.ifchange [3] false) w
    r.1.status = 0 → ∀ t ∈ [3], UpToDateR r.2 t :=
  recoversRichK_partial 3 r3Rules r3Rank kbOps [3] false false r3_rulesOk ka_single kb_richK kb_noWatch kb_ranked
    ka_rank_lt kb_opsOk (by simp [alwaysId])

end RedoModel.Deps.Rich
