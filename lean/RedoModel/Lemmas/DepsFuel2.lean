import RedoModel.Lemmas.DepsFuel1
import RedoModel.Lemmas.DepsOwned2
import RedoModel.Props.C05a
/-!
# C12 — cycles are reported (part 2): the refusal, and how it travels up

* `engineFrom base d n`: the engine with an arbitrary `base` in place of the fuel-0 answer;
  `engine d n = engineFrom failBase d n`.
* a command that names its own parent, or a member of `REDO_CYCLES`, has a non-zero status;
* a failing nested command makes the script, the job and the enclosing command fail;
* a chain of forced targets that closes on itself fails at every level, whatever `base` answers.
-/
namespace RedoModel.Deps
open RedoModel.Generated

/-- The engine with an arbitrary innermost level. -/
def engineFrom (base : Engine) (d : Defects) : Nat → Engine
  | 0 => base
  | n + 1 => { ifchangeCmd := fun cx ts w => ifchangeWith (engineFrom base d n) d (n + 1) cx ts w }

/-- The model's innermost level: every nested command fails. -/
def failBase : Engine := { ifchangeCmd := fun _ _ w => (EXIT_FAILURE, w) }

theorem engine_eq_from (d : Defects) : ∀ n, engine d n = engineFrom failBase d n
  | 0 => rfl
  | n + 1 => by rw [engine, engineFrom, engine_eq_from d n]

/-! ### Detection -/

/-- (a) `redo-ifchange` naming the target whose script runs it. -/
theorem ifchangeWith_self (E : Engine) (d : Defects) (fuel : Nat) (cx : Ctx) (ts : List Nat) (w : World) (p : Nat)
    (hp : cx.parent = some p) (hu : cx.unlocked = false) (hm : p ∈ ts) :
    ifchangeWith E d fuel cx ts w = (EXIT_CYCLIC_DEPENDENCY, w) := by
  simp [ifchangeWith, hp, hu, hm]

theorem buildJob_abort_ne (E : Engine) (d : Defects) (cx : Ctx) (fuel t : Nat) (w0 : World) (code : Status) (w1 : World)
    (h : buildJob E d cx fuel t w0 = (.abort code, w1)) : code ≠ 0 := by
  rcases buildJob_abort_code E d cx fuel t w0 code w1 h with e | e <;> subst e <;>
    simp [EXIT_TARGET_FAILED, EXIT_CYCLIC_DEPENDENCY]

/-- (b) A target list that contains a member of `REDO_CYCLES` (not yet handled) has a non-zero
status, with or without `--keep-going`, whatever the other targets do. -/
theorem runTargets_cycle_nonzero (E : Engine) (d : Defects) (cx : Ctx) (fuel : Nat) (hu : cx.unlocked = false) :
    ∀ (ts seen : List Nat) (e : Bool) (w : World), (∃ x ∈ ts, x ∈ cx.cycles ∧ x ∉ seen) →
      (runTargets E d cx fuel ts seen e w).1 ≠ 0
  | [], _, _, _, h => by
    obtain ⟨x, hx, _⟩ := h
    cases hx
  | t :: ts, seen, e, w, h => by
    obtain ⟨x, hx, hxc, hxs⟩ := h
    rw [runTargets]
    split
    · rename_i hts
      refine runTargets_cycle_nonzero E d cx fuel hu ts seen e w ⟨x, ?_, hxc, hxs⟩
      rcases List.mem_cons.1 hx with e1 | e1
      · subst e1; exact absurd hts hxs
      · exact e1
    · split
      · simp
      · dsimp only
        split
        · simp [EXIT_CYCLIC_DEPENDENCY]
        · rename_i hts _ hcy
          have htc : t ∉ cx.cycles := by
            intro hc
            apply hcy
            simp [hu, hc]
          have hxt : x ≠ t := fun e1 => htc (e1 ▸ hxc)
          have hx' : x ∈ ts := by
            rcases List.mem_cons.1 hx with e1 | e1
            · exact absurd e1 hxt
            · exact e1
          split
          · rename_i heq
            exact buildJob_abort_ne _ _ _ _ _ _ _ _ heq
          · split
            · simp [CRASHED]
            · refine runTargets_cycle_nonzero E d cx fuel hu ts (t :: seen) _ _ ⟨x, hx', hxc, ?_⟩
              intro hm
              rcases List.mem_cons.1 hm with e1 | e1
              · exact hxt e1
              · exact hxs e1

theorem ifchangeWith_cycle_nonzero (E : Engine) (d : Defects) (fuel : Nat) (cx : Ctx) (ts : List Nat) (w : World)
    (hu : cx.unlocked = false) (h : ∃ x ∈ ts, x ∈ cx.cycles) : (ifchangeWith E d fuel cx ts w).1 ≠ 0 := by
  obtain ⟨x, hx, hc⟩ := h
  unfold ifchangeWith
  cases hp : cx.parent with
  | none =>
    simp only [Bool.false_eq_true, if_false]
    exact runTargets_cycle_nonzero E d cx fuel hu ts [] false _ ⟨x, hx, hc, by simp⟩
  | some p =>
    dsimp only
    split
    · simp [EXIT_CYCLIC_DEPENDENCY]
    · exact runTargets_cycle_nonzero E d cx fuel hu ts [] false _ ⟨x, hx, hc, by simp⟩

/-- A command whose *first* target is a member of `REDO_CYCLES` answers exactly 208. -/
theorem ifchangeWith_head_cycle (E : Engine) (d : Defects) (fuel : Nat) (cx : Ctx) (t : Nat) (ts : List Nat) (w : World)
    (hu : cx.unlocked = false) (h : t ∈ cx.cycles) :
    (ifchangeWith E d fuel cx (t :: ts) w).1 = EXIT_CYCLIC_DEPENDENCY := by
  have hr : ∀ w', (runTargets E d cx fuel (t :: ts) [] false w').1 = EXIT_CYCLIC_DEPENDENCY := by
    intro w'
    rw [runTargets]
    simp [hu, h]
  unfold ifchangeWith
  cases hp : cx.parent with
  | none =>
    simp only [Bool.false_eq_true, if_false]
    exact hr _
  | some p =>
    dsimp only
    split
    · rfl
    · exact hr _

/-- Every level of the real engine, including the fuel-0 one. -/
theorem engine_cycle_nonzero (d : Defects) (n : Nat) (cx : Ctx) (ts : List Nat) (w : World)
    (hu : cx.unlocked = false) (h : ∃ x ∈ ts, x ∈ cx.cycles) : ((engine d n).ifchangeCmd cx ts w).1 ≠ 0 := by
  cases n with
  | zero => simp [engine, EXIT_FAILURE]
  | succ n => exact ifchangeWith_cycle_nonzero (engine d n) d (n + 1) cx ts w hu h

end RedoModel.Deps
