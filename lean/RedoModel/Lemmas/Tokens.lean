import RedoModel.Tokens
namespace RedoModel.Tokens

theorem sumProcs_cons (k : Nat) (x : Proc) (l : List (Nat × Proc)) :
    sumProcs ((k, x) :: l) = contrib x + sumProcs l := by
  simp [sumProcs]

theorem sumProcs_set (l : List (Nat × Proc)) (k : Nat) (x y : Proc) (h : find? l k = some x) :
    sumProcs (set l k y) = sumProcs l - contrib x + contrib y := by
  induction l with
  | nil => simp [find?] at h
  | cons e r ih =>
    obtain ⟨k', v'⟩ := e
    by_cases hk : k' = k
    · simp only [find?, hk, if_true, Option.some.injEq] at h
      subst h
      simp only [set, hk, if_true, sumProcs_cons]
      omega
    · simp only [find?, hk, if_false] at h
      simp only [set, hk, if_false, sumProcs_cons, ih h]
      omega

theorem sumProcs_del (l : List (Nat × Proc)) (k : Nat) (x : Proc) (h : find? l k = some x) :
    sumProcs (del l k) = sumProcs l - contrib x := by
  induction l with
  | nil => simp [find?] at h
  | cons e r ih =>
    obtain ⟨k', v'⟩ := e
    by_cases hk : k' = k
    · simp only [find?, hk, if_true, Option.some.injEq] at h
      subst h
      simp only [del, hk, if_true, sumProcs_cons]
      omega
    · simp only [find?, hk, if_false] at h
      simp only [del, hk, if_false, sumProcs_cons, ih h]
      omega

def jobVal (j : JobSt) : Int := if j.delegated then 0 else 1

theorem freeJobs_cons (k : Nat) (j : JobSt) (l : List (Nat × JobSt)) :
    freeJobs ((k, j) :: l) = jobVal j + freeJobs l := by
  unfold freeJobs jobVal
  cases h : j.delegated <;> simp [List.filter, h] <;> omega

theorem freeJobs_set (l : List (Nat × JobSt)) (k : Nat) (x y : JobSt) (h : find? l k = some x) :
    freeJobs (set l k y) = freeJobs l - jobVal x + jobVal y := by
  induction l with
  | nil => simp [find?] at h
  | cons e r ih =>
    obtain ⟨k', v'⟩ := e
    by_cases hk : k' = k
    · simp only [find?, hk, if_true, Option.some.injEq] at h
      subst h
      simp only [set, hk, if_true, freeJobs_cons]
      omega
    · simp only [find?, hk, if_false] at h
      simp only [set, hk, if_false, freeJobs_cons, ih h]
      omega

theorem freeJobs_del (l : List (Nat × JobSt)) (k : Nat) (x : JobSt) (h : find? l k = some x) :
    freeJobs (del l k) = freeJobs l - jobVal x := by
  induction l with
  | nil => simp [find?] at h
  | cons e r ih =>
    obtain ⟨k', v'⟩ := e
    by_cases hk : k' = k
    · simp only [find?, hk, if_true, Option.some.injEq] at h
      subst h
      simp only [del, hk, if_true, freeJobs_cons]
      omega
    · simp only [find?, hk, if_false] at h
      simp only [del, hk, if_false, freeJobs_cons, ih h]
      omega

theorem contrib_createN (x : Proc) (n : Nat) : contrib (createN x n) = contrib x := by
  induction n with
  | zero => rfl
  | succ n ih =>
    simp only [createN]
    split <;> simp only [contrib] at ih ⊢ <;> omega

/-- `check` either fails or returns exactly the state it was given. -/
theorem check_ok {w : String} {p : Nat} {x : Proc} {my cheats : Int} {s s' : State}
    (h : check w p x my cheats s = .ok s') : s' = s := by
  unfold check at h
  split at h
  · cases h; rfl
  · cases h

end RedoModel.Tokens
