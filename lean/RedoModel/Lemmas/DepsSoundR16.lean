import RedoModel.Lemmas.DepsSoundR15
/-! Specification of nested `redo-ifchange` commands (`ESpec`) and of the loop of a script over them. -/
namespace RedoModel.Deps.Rich

/-- How the rows of the parent `p` change in a command that declares `ts`. -/
def RowsDecl (p : Nat) (ts : List Nat) (w w' : World) : Prop :=
  (∀ d ∈ w'.deps, d.target = p → d ∈ w.deps ∨ (d.modeM = true ∧ d.source ∈ ts ∧ d.deleteMe = false)) ∧
  (∀ s m, HasRowU w p s m → (s ∈ ts → m = true) → HasRowU w' p s m)

theorem RowsDecl.refl (p : Nat) (ts : List Nat) (w : World) : RowsDecl p ts w w :=
  ⟨fun _ hd _ => Or.inl hd, fun _ _ h _ => h⟩

theorem RowsDecl.trans {p ts1 ts2 w w1 w2} (h1 : RowsDecl p ts1 w w1) (h2 : RowsDecl p ts2 w1 w2) :
    RowsDecl p (ts1 ++ ts2) w w2 := by
  refine ⟨fun d hd hdt => ?_, fun s m h hm => ?_⟩
  · rcases h2.1 d hd hdt with h | ⟨a, b, c⟩
    · rcases h1.1 d h hdt with h | ⟨a, b, c⟩
      · exact Or.inl h
      · exact Or.inr ⟨a, List.mem_append_left _ b, c⟩
    · exact Or.inr ⟨a, List.mem_append_right _ b, c⟩
  · exact h2.2 s m (h1.2 s m h (fun hs => hm (List.mem_append_left _ hs))) (fun hs => hm (List.mem_append_right _ hs))

theorem RowsDecl.mono {p ts ts' w w'} (h : RowsDecl p ts w w') (hs : ∀ x ∈ ts, x ∈ ts') : RowsDecl p ts' w w' :=
  ⟨fun d hd hdt => (h.1 d hd hdt).imp id (fun ⟨a, b, c⟩ => ⟨a, hs _ b, c⟩),
   fun s m hr hm => h.2 s m hr (fun hx => hm (hs _ hx))⟩

/-- How the rows of the parent `p` change while its script declares `tm` with `m` rows (`redo-ifchange`,
`redo-always`) and `tc` with `c` rows (`redo-ifcreate`). -/
def RowsDecl2 (p : Nat) (tm tc : List Nat) (w w' : World) : Prop :=
  (∀ d ∈ w'.deps, d.target = p → d ∈ w.deps ∨ (d.modeM = true ∧ d.source ∈ tm ∧ d.deleteMe = false) ∨
    (d.modeM = false ∧ d.source ∈ tc ∧ d.deleteMe = false)) ∧
  (∀ s m, HasRowU w p s m → (s ∈ tm → m = true) → (s ∈ tc → m = false) → HasRowU w' p s m)

theorem RowsDecl2.refl (p : Nat) (tm tc : List Nat) (w : World) : RowsDecl2 p tm tc w w :=
  ⟨fun _ hd _ => Or.inl hd, fun _ _ h _ _ => h⟩

theorem RowsDecl.to2 {p ts w w'} (h : RowsDecl p ts w w') : RowsDecl2 p ts [] w w' :=
  ⟨fun d hd hdt => (h.1 d hd hdt).imp id Or.inl, fun s m hr hm _ => h.2 s m hr hm⟩

theorem RowsDecl2.trans {p tm1 tc1 tm2 tc2 w w1 w2} (h1 : RowsDecl2 p tm1 tc1 w w1) (h2 : RowsDecl2 p tm2 tc2 w1 w2) :
    RowsDecl2 p (tm1 ++ tm2) (tc1 ++ tc2) w w2 := by
  refine ⟨fun d hd hdt => ?_, fun s m h hm hc => ?_⟩
  · rcases h2.1 d hd hdt with h | ⟨a, b, c⟩ | ⟨a, b, c⟩
    · rcases h1.1 d h hdt with h | ⟨a, b, c⟩ | ⟨a, b, c⟩
      · exact Or.inl h
      · exact Or.inr (Or.inl ⟨a, List.mem_append_left _ b, c⟩)
      · exact Or.inr (Or.inr ⟨a, List.mem_append_left _ b, c⟩)
    · exact Or.inr (Or.inl ⟨a, List.mem_append_right _ b, c⟩)
    · exact Or.inr (Or.inr ⟨a, List.mem_append_right _ b, c⟩)
  · exact h2.2 s m (h1.2 s m h (fun hs => hm (List.mem_append_left _ hs)) (fun hs => hc (List.mem_append_left _ hs)))
      (fun hs => hm (List.mem_append_right _ hs)) (fun hs => hc (List.mem_append_right _ hs))

theorem RowsDecl2.mono {p tm tc tm' tc' w w'} (h : RowsDecl2 p tm tc w w') (hm : ∀ x ∈ tm, x ∈ tm')
    (hc : ∀ x ∈ tc, x ∈ tc') : RowsDecl2 p tm' tc' w w' :=
  ⟨fun d hd hdt => (h.1 d hd hdt).imp id (fun h' => h'.imp (fun ⟨a, b, c⟩ => ⟨a, hm _ b, c⟩) (fun ⟨a, b, c⟩ => ⟨a, hc _ b, c⟩)),
   fun s m hr h1 h2 => h.2 s m hr (fun hx => h1 (hm _ hx)) (fun hx => h2 (hc _ hx))⟩

theorem BExt.good_above {rank R b po w w'} (h : BExt rank R b po w w') {t} (ht : b ≤ rank t) :
    Good w' R t ↔ Good w R t := by
  obtain ⟨a1, a2, a3, a4, a5, a6, a7, _⟩ := h.above t ht
  unfold Good VerR RecCur
  rw [genT_congr a2 a3, a4, a5, a6, a7, readStamp_congr a1]

def ESpec (rank : Nat → Nat) (R : Nat) (E : Engine) : Prop :=
  ∀ (X : Nat → Prop) (cx : Ctx) (ts : List Nat) (w : World) (b : Nat),
    cx.runid = R → cx.isRedo = false → cx.unlocked = false → cx.crash = none →
    Inv rank R X w → (∀ t ∈ ts, rank t < b ∧ t ≠ alwaysId) → (∀ x, X x → b ≤ rank x) →
    (∀ p, cx.parent = some p → b ≤ rank p ∧ X p ∧ ¬ Good w R p) →
    Inv rank R X (E.ifchangeCmd cx ts w).2 ∧ BExt rank R b cx.parent w (E.ifchangeCmd cx ts w).2 ∧
    (∀ p, cx.parent = some p → RowsDecl p ts w (E.ifchangeCmd cx ts w).2 ∧
      ((E.ifchangeCmd cx ts w).1 = 0 → ∀ d ∈ ts, HasRowU (E.ifchangeCmd cx ts w).2 p d true)) ∧
    ((E.ifchangeCmd cx ts w).1 = 0 → ∀ t ∈ ts, Good (E.ifchangeCmd cx ts w).2 R t) ∧
    (NoFail R w → (E.ifchangeCmd cx ts w).1 = 0 → NoFail R (E.ifchangeCmd cx ts w).2) ∧
    (E.ifchangeCmd cx ts w).1 ≠ CRASHED

theorem CRASHED_ne_zero : (0 : Status) ≠ CRASHED := by decide

theorem cmds_spec {rank R E} (hE : ESpec rank R E) {X : Nat → Prop} {t : Nat} {cx cx' : Ctx}
    (h1 : cx'.runid = R) (h2 : cx'.isRedo = false) (h3 : cx'.unlocked = false) (h4 : cx'.crash = none)
    (h5 : cx'.parent = some t) (hcrash : cx.crash = none) (hX : X t) (hXa : ∀ x, X x → rank t ≤ rank x) :
    ∀ (cs : List (List Nat)) (k : Nat) (w : World), Inv rank R X w → ¬ Good w R t →
      (∀ c ∈ cs, ∀ d ∈ c, rank d < rank t ∧ d ≠ alwaysId) →
      Inv rank R X (runScript.cmds E cx t cx' cs k w).2 ∧
      BExt rank R (rank t) (some t) w (runScript.cmds E cx t cx' cs k w).2 ∧
      RowsDecl t cs.flatten w (runScript.cmds E cx t cx' cs k w).2 ∧
      ((runScript.cmds E cx t cx' cs k w).1 = 0 → ∀ d ∈ cs.flatten,
        Good (runScript.cmds E cx t cx' cs k w).2 R d ∧ HasRowU (runScript.cmds E cx t cx' cs k w).2 t d true) ∧
      (NoFail R w → (runScript.cmds E cx t cx' cs k w).1 = 0 → NoFail R (runScript.cmds E cx t cx' cs k w).2) ∧
      (runScript.cmds E cx t cx' cs k w).1 ≠ CRASHED
  | [], k, w, hi, _, _ => by
    simp only [runScript.cmds, hcrash, reduceCtorEq, if_false]
    exact ⟨hi, BExt.refl _ _ _ _ _, RowsDecl.refl _ _ _, fun _ d hd => by simp at hd, fun h _ => h, CRASHED_ne_zero⟩
  | c :: cs, k, w, hi, hng, hr => by
    rw [runScript.cmds]
    simp only [hcrash, reduceCtorEq, if_false]
    have hs := hE X cx' c w (rank t) h1 h2 h3 h4 hi (hr c (by simp)) hXa
      (fun p hp => by rw [h5] at hp; cases hp; exact ⟨Nat.le_refl _, hX, hng⟩)
    rw [h5] at hs
    generalize E.ifchangeCmd cx' c w = res at hs
    obtain ⟨rv, w1⟩ := res
    obtain ⟨hi1, hb1, hrows, hgood, hnf, hnc⟩ := hs
    obtain ⟨hrd, hhas⟩ := hrows t rfl
    dsimp only at hi1 hb1 hrd hhas hgood hnf hnc
    split
    · rename_i w1' heq
      simp only [Prod.mk.injEq] at heq
      obtain ⟨hrv, rfl⟩ := heq
      subst hrv
      have hng1 : ¬ Good w1 R t := fun h => hng ((hb1.good_above (Nat.le_refl _)).1 h)
      obtain ⟨a1, a2, a3, a4, a5, a6⟩ := cmds_spec hE h1 h2 h3 h4 h5 hcrash hX hXa cs (k + 1) w1 hi1 hng1
        (fun c' hc' => hr c' (List.mem_cons_of_mem _ hc'))
      refine ⟨a1, hb1.trans a2, by rw [List.flatten_cons]; exact hrd.trans a3, ?_, fun h0 hz => a5 (hnf h0 rfl) hz, a6⟩
      intro hz d hd
      rw [List.flatten_cons, List.mem_append] at hd
      rcases hd with hd | hd
      · exact ⟨a2.good (hgood rfl d hd), a3.2 d true (hhas rfl d hd) (fun _ => rfl)⟩
      · exact a4 hz d hd
    · rename_i rv' w1' hne heq
      simp only [Prod.mk.injEq] at heq
      obtain ⟨rfl, rfl⟩ := heq
      have hrv : rv ≠ 0 := fun e => by first | exact hne e | exact hne e rfl | exact hne w1 e
      exact ⟨hi1, hb1, hrd.mono (fun x hx => by rw [List.flatten_cons]; exact List.mem_append_left _ hx),
        fun h => absurd h hrv, fun _ h => absurd h hrv, hnc⟩

theorem addDep_rowsDecl2c (w : World) (p t : Nat) : RowsDecl2 p [] [t] w (addDep w p t false) := by
  refine ⟨fun d hd _ => ?_, fun s m hr _ hc => ?_⟩
  · rcases addDep_mem hd with rfl | ⟨h, _⟩
    · exact Or.inr (Or.inr ⟨rfl, by simp, rfl⟩)
    · exact Or.inl h
  · by_cases e : s = t
    · subst e; rw [hc (by simp)]; exact addDep_hasRowU_new w p s false
    · exact addDep_hasRowU_keep hr (fun ⟨_, h2⟩ => e h2)

/-- What the loop over the conditional declarations of the script of `t` establishes. -/
structure CondsPost (rank : Nat → Nat) (R : Nat) (X : Nat → Prop) (t : Nat) (fs : List Nat) (w : World)
    (res : Status × World) : Prop where
  inv : Inv rank R X res.2
  bext : BExt rank R (rank t) (some t) w res.2
  decl : RowsDecl2 t (fs.filter (existsF w)) (fs.filter (fun f => !existsF w f)) w res.2
  okM : res.1 = 0 → ∀ d ∈ fs, existsF w d = true → Good res.2 R d ∧ HasRowU res.2 t d true
  okC : res.1 = 0 → ∀ d ∈ fs, existsF w d = false → HasRowU res.2 t d false
  noFail : NoFail R w → res.1 = 0 → NoFail R res.2
  notCrashed : res.1 ≠ CRASHED

theorem filter_congr_exists {w w' : World} (fs : List Nat) (h : ∀ d ∈ fs, existsF w' d = existsF w d) :
    fs.filter (existsF w') = fs.filter (existsF w) ∧
    fs.filter (fun f => !existsF w' f) = fs.filter (fun f => !existsF w f) :=
  ⟨List.filter_congr (fun d hd => h d hd), List.filter_congr (fun d hd => by rw [h d hd])⟩

theorem CondsPost.absent {rank R X t f fs w res} (hex : existsF w f = false)
    (h : CondsPost rank R X t fs (addDep w t f false) res) : CondsPost rank R X t (f :: fs) w res := by
  have hro := RowOp.addDep w t f false
  have hexs : ∀ d, existsF (addDep w t f false) d = existsF w d := fun d => hro.existsF d
  obtain ⟨e1, e2⟩ := filter_congr_exists (w := w) (w' := addDep w t f false) fs (fun d _ => hexs d)
  have hdecl := h.decl
  rw [e1, e2] at hdecl
  refine ⟨h.inv, hro.toBExtP.trans h.bext, ?_, fun hz d hd hde => ?_, fun hz d hd hde => ?_,
    fun hn hz => h.noFail (hn.eqv hro.eqv : NoFail R { addDep w t f false with deps := w.deps }) hz, h.notCrashed⟩
  · have := (addDep_rowsDecl2c w t f).trans hdecl
    simp only [List.filter_cons, hex, Bool.false_eq_true, if_false, Bool.not_false, if_true]
    simpa using this
  · rcases List.mem_cons.1 hd with rfl | hd
    · rw [hex] at hde; cases hde
    · exact h.okM hz d hd (by rw [hexs]; exact hde)
  · rcases List.mem_cons.1 hd with rfl | hd
    · refine hdecl.2 d false (addDep_hasRowU_new w t d false) (fun hin => ?_) (fun _ => rfl)
      have := (List.mem_filter.1 hin).2
      rw [hex] at this; cases this
    · exact h.okC hz d hd (by rw [hexs]; exact hde)

theorem CondsPost.present {rank R X t f fs w w1 res} (hex : existsF w f = true)
    (hb1 : BExt rank R (rank t) (some t) w w1) (hrd : RowsDecl t [f] w w1) (hrow : HasRowU w1 t f true)
    (hgood : Good w1 R f) (hnf : NoFail R w → NoFail R w1) (hpl : ∀ d ∈ f :: fs, w.rules d = [])
    (h : CondsPost rank R X t fs w1 res) : CondsPost rank R X t (f :: fs) w res := by
  have hexs : ∀ d ∈ f :: fs, existsF w1 d = existsF w d := fun d hd => existsF_congr (hb1.plain d (hpl d hd))
  obtain ⟨e1, e2⟩ := filter_congr_exists (w := w) (w' := w1) fs (fun d hd => hexs d (List.mem_cons_of_mem _ hd))
  have hdecl := h.decl
  rw [e1, e2] at hdecl
  refine ⟨h.inv, hb1.trans h.bext, ?_, fun hz d hd hde => ?_, fun hz d hd hde => ?_,
    fun hn hz => h.noFail (hnf hn) hz, h.notCrashed⟩
  · have := hrd.to2.trans hdecl
    simp only [List.filter_cons, hex, if_true, Bool.not_true, Bool.false_eq_true, if_false]
    simpa using this
  · rcases List.mem_cons.1 hd with rfl | hd
    · refine ⟨h.bext.good hgood, hdecl.2 d true hrow (fun _ => rfl) (fun hin => ?_)⟩
      have := (List.mem_filter.1 hin).2
      rw [hex] at this; cases this
    · exact h.okM hz d hd (by rw [hexs d (List.mem_cons_of_mem _ hd)]; exact hde)
  · rcases List.mem_cons.1 hd with rfl | hd
    · rw [hex] at hde; cases hde
    · exact h.okC hz d hd (by rw [hexs d (List.mem_cons_of_mem _ hd)]; exact hde)

theorem conds_spec {rank R E} (hE : ESpec rank R E) {X : Nat → Prop} {t : Nat} {cx' : Ctx}
    (h1 : cx'.runid = R) (h2 : cx'.isRedo = false) (h3 : cx'.unlocked = false) (h4 : cx'.crash = none)
    (h5 : cx'.parent = some t) (hX : X t) (hXa : ∀ x, X x → rank t ≤ rank x) :
    ∀ (fs : List Nat) (w : World), Inv rank R X w → ¬ Good w R t →
      (∀ d ∈ fs, (rank d < rank t ∧ d ≠ alwaysId) ∧ w.rules d = []) →
      CondsPost rank R X t fs w (runScript.conds E t cx' fs w)
  | [], w, hi, _, _ => by
    simp only [runScript.conds]
    exact ⟨hi, BExt.refl _ _ _ _ _, RowsDecl2.refl _ _ _ _, fun _ d hd => by simp at hd, fun _ d hd => by simp at hd,
      fun h _ => h, CRASHED_ne_zero⟩
  | f :: fs, w, hi, hng, hr => by
    obtain ⟨hrk, hpf⟩ := hr f (by simp)
    rw [runScript.conds]
    cases hex : existsF w f with
    | false =>
      simp only [Bool.false_eq_true, if_false]
      have hro := RowOp.addDep w t f false
      have hi1 := Inv_addDep (m := false) hi hX hng hrk.1 (fun _ => ⟨hpf, hrk.2⟩)
      have hng1 : ¬ Good (addDep w t f false) R t := fun h => hng ((hro.good R t).1 h)
      exact (conds_spec hE h1 h2 h3 h4 h5 hX hXa fs (addDep w t f false) hi1 hng1
        (fun d hd => by rw [hro.rules]; exact hr d (List.mem_cons_of_mem _ hd))).absent hex
    | true =>
      simp only [if_true]
      have hs := hE X cx' [f] w (rank t) h1 h2 h3 h4 hi (fun x hx => by simp at hx; subst hx; exact hrk) hXa
        (fun p hp => by rw [h5] at hp; cases hp; exact ⟨Nat.le_refl _, hX, hng⟩)
      rw [h5] at hs
      generalize E.ifchangeCmd cx' [f] w = res at hs
      obtain ⟨rv, w1⟩ := res
      obtain ⟨hi1, hb1, hrows, hgood, hnf, hnc⟩ := hs
      obtain ⟨hrd, hhas⟩ := hrows t rfl
      dsimp only at hi1 hb1 hrd hhas hgood hnf hnc
      split
      · rename_i w1' heq
        simp only [Prod.mk.injEq] at heq
        obtain ⟨hrv, rfl⟩ := heq
        subst hrv
        have hng1 : ¬ Good w1 R t := fun h => hng ((hb1.good_above (Nat.le_refl _)).1 h)
        exact (conds_spec hE h1 h2 h3 h4 h5 hX hXa fs w1 hi1 hng1
          (fun d hd => by rw [hb1.rules]; exact hr d (List.mem_cons_of_mem _ hd))).present hex hb1 hrd
          (hhas rfl f (by simp)) (hgood rfl f (by simp)) (fun h => hnf h rfl) (fun d hd => (hr d hd).2)
      · rename_i rv' w1' hne heq
        simp only [Prod.mk.injEq] at heq
        obtain ⟨rfl, rfl⟩ := heq
        have hrv : rv ≠ 0 := fun e => by first | exact hne e | exact hne e rfl | exact hne w1 e
        refine ⟨hi1, hb1, ?_, fun h => absurd h hrv, fun h => absurd h hrv, fun _ h => absurd h hrv, hnc⟩
        exact hrd.to2.mono (fun x hx => by
          simp only [List.mem_singleton] at hx; subst hx
          exact List.mem_filter.2 ⟨by simp, hex⟩) (fun x hx => by cases hx)

/-- The declarations of `redo-ifcreate fs` run by the script of `p` (none of `fs` exists). -/
def declareC (p : Nat) (fs : List Nat) (w : World) : World := fs.foldl (fun w f => addDep w p f false) w

theorem declareC_spec {rank R X p} (hX : X p) :
    ∀ (fs : List Nat) (w : World), Inv rank R X w → ¬ Good w R p →
      (∀ d ∈ fs, (rank d < rank p ∧ d ≠ alwaysId) ∧ w.rules d = []) →
      Inv rank R X (declareC p fs w) ∧ RowOp p w (declareC p fs w) ∧ RowsDecl2 p [] fs w (declareC p fs w) ∧
      ∀ d ∈ fs, HasRowU (declareC p fs w) p d false
  | [], w, hi, _, _ => ⟨hi, RowOp.refl p w, RowsDecl2.refl _ _ _ _, fun d hd => by simp at hd⟩
  | f :: fs, w, hi, hng, hfs => by
    obtain ⟨hrk, hpf⟩ := hfs f (by simp)
    have hro := RowOp.addDep w p f false
    have hi1 := Inv_addDep (m := false) hi hX hng hrk.1 (fun _ => ⟨hpf, hrk.2⟩)
    have hng1 : ¬ Good (addDep w p f false) R p := fun h => hng ((hro.good R p).1 h)
    obtain ⟨a1, a2, a3, a4⟩ := declareC_spec hX fs (addDep w p f false) hi1 hng1
      (fun d hd => by rw [hro.rules]; exact hfs d (List.mem_cons_of_mem _ hd))
    have he : declareC p (f :: fs) w = declareC p fs (addDep w p f false) := rfl
    rw [he]
    refine ⟨a1, hro.trans a2, ?_, fun d hd => ?_⟩
    · have := (addDep_rowsDecl2c w p f).trans a3
      simpa using this
    · rcases List.mem_cons.1 hd with rfl | hd
      · exact a3.2 d false (addDep_hasRowU_new w p d false) (fun h => by cases h) (fun _ => rfl)
      · exact a4 d hd

end RedoModel.Deps.Rich
