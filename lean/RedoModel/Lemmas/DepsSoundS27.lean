import RedoModel.Lemmas.DepsSoundS26
/-! The invariant looks at the dependency table only through (target, source, mode) triples. -/
namespace RedoModel.Deps.S

/-- Same (target, source, mode) triples. -/
def SameTriples (w w' : World) : Prop := ∀ x s m, HasRow w' x s m ↔ HasRow w x s m

theorem SameTriples.refl (w : World) : SameTriples w w := fun _ _ _ => Iff.rfl
theorem SameTriples.trans {a b c : World} (h1 : SameTriples a b) (h2 : SameTriples b c) : SameTriples a c :=
  fun x s m => (h2 x s m).trans (h1 x s m)

theorem mem_hasRow {w : World} {d : Dep} (h : d ∈ w.deps) : HasRow w d.target d.source d.modeM := ⟨d, h, rfl, rfl, rfl⟩

theorem RecTruth_triples {w : World} {ds : List Dep} (ht : SameTriples w { w with deps := ds }) {t : Nat}
    (h : RecTruth w t) : RecTruth { w with deps := ds } t := by
  obtain ⟨pre, dof, post, sc, hr, hpre, hdof, hreads, hexit, hsc, cs, hcont, hlen, hz⟩ := h
  exact ⟨pre, dof, post, sc, hr, fun c hc => (ht _ _ _).2 (hpre c hc), (ht _ _ _).2 hdof,
    fun d hd => (ht _ _ _).2 (hreads d hd), hexit, hsc, cs, hcont, hlen, hz⟩

theorem Inv_triples {rank R X w} {ds : List Dep} (hi : Inv rank R X w) (ht : SameTriples w { w with deps := ds }) :
    Inv rank R X { w with deps := ds } := by
  have hb := hi.base
  have hback : ∀ d ∈ ds, ∃ d0 ∈ w.deps, d0.target = d.target ∧ d0.source = d.source ∧ d0.modeM = d.modeM := by
    intro d hd
    exact (ht _ _ _).1 (mem_hasRow (w := { w with deps := ds }) hd)
  refine ⟨⟨hb.rulesOk, hb.ranked, hb.plainProgs, hb.chLe, hb.ckLe, hb.csumFile, hb.csumEx, hb.srcNoCsum, hb.csumCh, hb.noOvr,
    hb.srcNotGen, hb.fs0, hb.rec0, ?_, ?_, hb.stampCh, hb.staticEx, hb.genMs, hb.fsB, hb.stB, hb.ckFail, hb.markFail, hb.flLe, ?_⟩, hi.Rpos, ?_⟩
  · intro d hd
    obtain ⟨d0, h0, e1, e2, _⟩ := hback d hd
    rw [← e1, ← e2]; exact hb.rowsLt d0 h0
  · intro d hd hm
    obtain ⟨d0, h0, _, e2, e3⟩ := hback d hd
    have := hb.cPlain d0 h0 (by rw [e3]; exact hm)
    rw [e2] at this; exact this
  · intro t hx hrc hg
    exact RecTruth_triples ht (hb.recA t hx hrc hg)
  · intro f hv
    obtain ⟨h1, _, h3⟩ := hi.ver f hv
    refine ⟨h1, ?_, ?_⟩
    · exact good_upToDate (w' := { w with deps := ds }) hi rfl rfl (fun _ _ => rfl) (fun _ _ => ⟨rfl, rfl⟩)
        (rank f + 1) f (Nat.lt_succ_self _) (Or.inl hv)
    · intro hg d hd hdt
      obtain ⟨d0, h0, e1, e2, e3⟩ := hback d hd
      have := h3 hg d0 h0 (by rw [e1]; exact hdt)
      rw [e2, e3] at this
      exact this

theorem verR_modeUniq {rank R X w t s} (hi : Inv rank R X w) (hv : VerR w R t) (hg : (w.recs t).isGenerated = true)
    (h1 : HasRow w t s true) (h2 : HasRow w t s false) : False := by
  have hgood := h1.good hi hv hg
  have habs := h2.absent hi hv hg
  obtain ⟨d, hd, _, e2, e3⟩ := h2
  have hpl : w.rules s = [] := e2 ▸ hi.base.cPlain d hd e3
  have := static_exists hi.base (hgood.recCur hi) (hi.base.srcNotGen s hpl)
  rw [habs] at this; cases this

theorem SameTriples.zapDeps1 (w : World) (t : Nat) : SameTriples w (zapDeps1 w t) := by
  intro x s m
  unfold HasRow Deps.zapDeps1
  simp only [List.mem_map]
  constructor
  · rintro ⟨d, ⟨a, ha, e⟩, h1, h2, h3⟩
    refine ⟨a, ha, ?_⟩
    split at e <;> subst e <;> exact ⟨h1, h2, h3⟩
  · rintro ⟨d, hd, h1, h2, h3⟩
    by_cases e : d.target = t
    · exact ⟨{ d with deleteMe := true }, ⟨d, hd, by simp [e]⟩, h1, h2, h3⟩
    · exact ⟨d, ⟨d, hd, by simp [e]⟩, h1, h2, h3⟩

theorem Inv_zapDeps1_good {rank R X w} (hi : Inv rank R X w) (t : Nat) : Inv rank R X (zapDeps1 w t) :=
  Inv_triples hi (SameTriples.zapDeps1 w t)

/-- Re-declaring a row that is already there (same mode) changes no triple. -/
theorem SameTriples.readd {rank R X w t s m} (hi : Inv rank R X w) (hv : VerR w R t)
    (hg : (w.recs t).isGenerated = true) (hrow : HasRow w t s m) (w' : World)
    (hdeps : w'.deps = { target := t, source := s, modeM := m, deleteMe := false } ::
      w.deps.filter (fun d => !(d.target = t && d.source = s))) : SameTriples w w' := by
  intro x s' m'
  unfold HasRow
  rw [hdeps]
  simp only [List.mem_cons, List.mem_filter, Bool.not_eq_true', Bool.and_eq_false_iff, decide_eq_false_iff_not]
  constructor
  · rintro ⟨d, (rfl | ⟨hd, _⟩), h1, h2, h3⟩
    · simp only at h1 h2 h3; subst h1 h2 h3; exact hrow
    · exact ⟨d, hd, h1, h2, h3⟩
  · rintro ⟨d, hd, h1, h2, h3⟩
    by_cases e : d.target = t ∧ d.source = s
    · have hm : m' = m := by
        cases hm' : m' <;> cases hm0 : m <;> try rfl
        · exfalso; subst hm' hm0
          exact verR_modeUniq hi hv hg hrow ⟨d, hd, e.1, e.2, h3⟩
        · exfalso; subst hm' hm0
          exact verR_modeUniq hi hv hg ⟨d, hd, e.1, e.2, h3⟩ hrow
      refine ⟨_, Or.inl rfl, ?_, ?_, ?_⟩
      · exact e.1.symm.trans h1
      · exact e.2.symm.trans h2
      · exact hm.symm
    · refine ⟨d, Or.inr ⟨hd, ?_⟩, h1, h2, h3⟩
      by_cases e1 : d.target = t
      · exact Or.inr (fun e2 => e ⟨e1, e2⟩)
      · exact Or.inl e1

theorem Inv_readd {rank R X w t s m} (hi : Inv rank R X w) (hv : VerR w R t)
    (hg : (w.recs t).isGenerated = true) (hrow : HasRow w t s m) :
    Inv rank R X (addDep w t s m) ∧ SameTriples w (addDep w t s m) := by
  have e := WEqv.addKnown w s
  have hi1 := e.inv hi
  have hst := SameTriples.readd hi hv hg hrow (addDep w t s m) (addDep_deps w t s m)
  refine ⟨?_, hst⟩
  have : addDep w t s m = { addKnown w s with deps := (addDep w t s m).deps } := rfl
  rw [this]
  refine Inv_triples hi1 (fun x s' m' => ?_)
  have h1 : HasRow { addKnown w s with deps := (addDep w t s m).deps } x s' m' ↔ HasRow (addDep w t s m) x s' m' := Iff.rfl
  rw [h1, hst x s' m']
  exact (e.hasRow x s' m').symm

end RedoModel.Deps.S
