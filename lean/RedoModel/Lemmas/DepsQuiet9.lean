import RedoModel.Lemmas.DepsQuiet8
/-! Asked about a member of a settled set, with a bound that covers the member's `changed` mark, the dirtiness check
answers clean (or gives up for lack of fuel / on a cycle: `cyclic`) — never dirty. -/
namespace RedoModel.Deps.Rich

/-- A working copy that still shows every recorded `m` dependency to be no newer than the copy. -/
def SnapQ (w : World) (f : Nat) (r : Rec) : Prop :=
  SnapS w f r ∧ (genT r = true → ∀ d ∈ w.deps, d.target = f → d.modeM = true →
    ∀ c, (w.recs d.source).changed = some c → c ≤ Mof r)

theorem SnapQ.self {R' S w f} (hq : SAt R' S w f) : SnapQ w f (w.recs f) :=
  ⟨⟨_, rfl⟩, fun hg d hd ht hm => (hq.rowsM hg d hd ht hm).2⟩

theorem DExtS.changed {R' S w w'} (h : DExtS R' S w w') {x : Nat} (hx : S x) :
    (w'.recs x).changed = (w.recs x).changed := by
  rcases h.recs x hx with e | e <;> rw [e]

theorem SnapQ.ext {R' S w w' f r} (hs : SnapQ w f r) (hq : SSet R' S w) (h : DExtS R' S w w') (hf : S f) :
    SnapQ w' f r := by
  refine ⟨hs.1.ext h hf, fun hg d hd ht hm c hc => ?_⟩
  rw [h.same.2.1] at hd
  obtain ⟨c0, e⟩ := hs.1
  have hgw : genT (w.recs f) = true := by rw [e] at hg; exact hg
  have hS := ((hq f hf).rowsM hgw d hd ht hm).1
  rw [h.changed hS] at hc
  exact hs.2 hg d hd ht hm c hc

/-- The recorded `m` rows of members lead strictly downwards in `rank` (what bounds the depth of the check). -/
def RowsLt (rank : Nat → Nat) (S : Nat → Prop) (D : List Dep) : Prop :=
  ∀ d ∈ D, S d.target → d.modeM = true → rank d.source < rank d.target

theorem goDeps_quietS {R' S} (D : List Dep) (Q : Prop) (P : Nat → Prop) (mx' : Nat)
    (chk : World → List Nat → Nat → Rec → DR × World × List Nat)
    (hchk : ∀ w cache s snap, SSet R' S w → w.deps = D → S s → SnapQ w s snap → (∀ c, (w.recs s).changed = some c → c ≤ mx') →
      DExtS R' S w (chk w cache s snap).2.1 ∧
      ((chk w cache s snap).1 = .clean ∨ ((chk w cache s snap).1 = .cyclic ∧ (Q → ¬ P s)))) (hc : Bool) (f : Nat) :
    ∀ (ds : List (Dep × Rec)) (w : World) (cache : List Nat), SSet R' S w → w.deps = D →
      (∀ p ∈ ds, (p.1.modeM = true → S p.1.source ∧ SnapQ w p.1.source p.2 ∧
          ∀ c, (w.recs p.1.source).changed = some c → c ≤ mx') ∧
        (p.1.modeM = false → existsF w p.1.source = false)) →
      DExtS R' S w (goDeps chk hc f ds w cache []).2.1 ∧
      ((goDeps chk hc f ds w cache []).1 = none ∨
        ((goDeps chk hc f ds w cache []).1 = some .cyclic ∧ (Q → ∃ p ∈ ds, p.1.modeM = true ∧ ¬ P p.1.source)))
  | [], w, cache, _, _, _ => by simp [goDeps, DExtS.refl]
  | (d, snap) :: ds, w, cache, hq, hD, hds => by
    obtain ⟨hm1, hm0⟩ := hds (d, snap) (by simp)
    rw [goDeps]
    by_cases hm : d.modeM = true
    · simp only [hm, if_true]
      have h2 := hchk w cache d.source snap hq hD (hm1 hm).1 (hm1 hm).2.1 (hm1 hm).2.2
      generalize chk w cache d.source snap = r at h2
      obtain ⟨sub, w1, c1⟩ := r
      obtain ⟨hx, h2⟩ := h2
      dsimp only at hx h2
      rcases h2 with h2 | ⟨h2, h3⟩
      · subst h2
        have := goDeps_quietS D Q P mx' chk hchk hc f ds w1 c1 (hq.step hx.toRel) (hx.same.2.1.trans hD) (fun p hp => by
          obtain ⟨a, b⟩ := hds p (List.mem_cons_of_mem _ hp)
          refine ⟨fun h => ⟨(a h).1, (a h).2.1.ext hq hx (a h).1, fun c hc => ?_⟩, fun h => ?_⟩
          · rw [hx.changed (a h).1] at hc; exact (a h).2.2 c hc
          · rw [existsF_congr (congrFun hx.same.1 _)]; exact b h)
        dsimp only
        refine ⟨hx.trans this.1, ?_⟩
        rcases this.2 with h | ⟨h, hpp⟩
        · exact Or.inl h
        · exact Or.inr ⟨h, fun hQ => by
            obtain ⟨p, hp, hpp⟩ := hpp hQ
            exact ⟨p, List.mem_cons_of_mem _ hp, hpp⟩⟩
      · subst h2
        exact ⟨hx, Or.inr ⟨rfl, fun hQ => ⟨(d, snap), by simp, hm, h3 hQ⟩⟩⟩
    · have hm' : d.modeM = false := by simpa using hm
      simp only [hm', Bool.false_eq_true, if_false, hm0 hm']
      have := goDeps_quietS D Q P mx' chk hchk hc f ds w cache hq hD (fun p hp => hds p (List.mem_cons_of_mem _ hp))
      refine ⟨this.1, ?_⟩
      rcases this.2 with h | ⟨h, hpp⟩
      · exact Or.inl h
      · exact Or.inr ⟨h, fun hQ => by
          obtain ⟨p, hp, hpp⟩ := hpp hQ
          exact ⟨p, List.mem_cons_of_mem _ hp, hpp⟩⟩

theorem isDirty_quietS {R' S} (rank : Nat → Nat) (D : List Dep) (ood : Bool) :
    ∀ (fuel f : Nat) (seen : List Nat) (w : World) (cache : List Nat) (pre : Option Rec) (mx : Nat),
    SSet R' S w → w.deps = D → S f → (∀ c, (w.recs f).changed = some c → c ≤ mx) → (∀ s, pre = some s → SnapQ w f s) →
    DExtS R' S w (isDirty ood R' fuel w cache f mx seen pre).2.1 ∧
    ((isDirty ood R' fuel w cache f mx seen pre).1 = .clean ∨
      ((isDirty ood R' fuel w cache f mx seen pre).1 = .cyclic ∧ (RowsLt rank S D → ¬ FuelOk rank fuel seen f)))
  | 0, f, seen, w, cache, pre, mx, _, _, _, _, _ => by
    simp only [isDirty]
    exact ⟨DExtS.refl _ _ _, Or.inr ⟨trivial, fun _ h => by have := h.1; omega⟩⟩
  | fuel + 1, f, seen, w, cache, pre, mx, hq, hD, hf, hmx, hpre => by
    have hqa := hq f hf
    refine ⟨isDirty_frameS ood (fuel + 1) w cache f mx seen pre hq (fun _ s e => (hpre s e).1), ?_⟩
    have hs : SnapQ w f (pre.getD (getRec w R' f)) := by
      cases pre with
      | none => simp only [Option.getD_none]; rw [getRec_ne w R' hqa.ne0]; exact SnapQ.self hqa
      | some s => exact hpre s rfl
    rw [isDirty]
    by_cases hseen : f ∈ seen
    · simp only [hseen, if_true]; exact Or.inr ⟨trivial, fun _ h => by have := h.2 f hseen; omega⟩
    simp only [hseen, if_false]
    generalize pre.getD (getRec w R' f) = r at hs
    obtain ⟨⟨c, hre⟩, hmof⟩ := hs
    obtain ⟨ch, hch, _⟩ := hqa.ch
    have hfl : r.failed = none := by rw [hre]; exact hqa.failed
    have hrch : r.changed = some ch := by rw [hre]; exact hch
    have hst : r.stamp = some (readStamp w f) := by rw [hre]; exact hqa.stamp
    have hgen : genT r = genT (w.recs f) := by rw [hre]; rfl
    simp only [hfl, Option.isSome_none, Bool.false_eq_true, if_false, hrch]
    have hle : ¬ ch > mx := by have := hmx ch hch; omega
    simp only [hle, if_false]
    by_cases hck : (if ood = true then decide (f ∈ cache) else isCheckedR r R') = true
    · simp only [hck, if_true]; exact Or.inl trivial
    simp only [hck, hst, ne_eq, not_true_eq_false, if_false, Bool.false_eq_true]
    cases hg : genT r with
    | false =>
      have hnil : depsWithRecs w R' r f = [] := by
        unfold depsWithRecs depsOf
        rcases genT_false.1 hg with h | h <;> simp [h]
      rw [hnil]
      simp only [goDeps, List.isEmpty_nil, if_true]
      cases ood <;> simp
    | true =>
    have hgw : genT (w.recs f) = true := by rw [← hgen]; exact hg
    have hgo := goDeps_quietS (R' := R') (S := S) D (RowsLt rank S D) (FuelOk rank fuel (f :: seen))
      (max ch (r.checked.getD 0))
      (fun w cache s snap => isDirty ood R' fuel w cache s (max ch (r.checked.getD 0)) (f :: seen) (some snap))
      (fun w1 c1 s snap hq1 hD1 hs1 hsn1 hc1 => isDirty_quietS rank D ood fuel s (f :: seen) w1 c1 (some snap) _ hq1
        hD1 hs1 hc1 (fun s' e => by cases e; exact hsn1))
      r.csum.isSome f (depsWithRecs w R' r f) w cache hq hD (by
        intro p hp
        obtain ⟨d, hd, rfl⟩ := List.mem_map.1 hp
        obtain ⟨_, hd1, hd2⟩ := mem_depsOf.1 hd
        refine ⟨fun hm => ?_, fun hm => (hqa.rowsC hgw d hd1 hd2 hm).1⟩
        have hS := (hqa.rowsM hgw d hd1 hd2 hm).1
        have hqs := hq _ hS
        refine ⟨hS, ?_, fun c' hc' => ?_⟩
        · dsimp only
          rw [getRec_ne w R' hqs.ne0]
          exact SnapQ.self hqs
        · have := hmof hg d hd1 hd2 hm c' hc'
          unfold Mof at this; rw [hrch] at this; simpa using this)
    generalize goDeps _ r.csum.isSome f _ w cache [] = res at hgo ⊢
    obtain ⟨o, w', c'⟩ := res
    obtain ⟨_, hgo⟩ := hgo
    dsimp only at hgo
    rcases hgo with h | ⟨h, hpp⟩
    · subst h
      cases ood <;> simp
    · subst h
      refine Or.inr ⟨rfl, fun hlt hfo => ?_⟩
      obtain ⟨p, hp, hpm, hpf⟩ := hpp hlt
      apply hpf
      obtain ⟨d, hd, rfl⟩ := List.mem_map.1 hp
      obtain ⟨_, hd1, hd2⟩ := mem_depsOf.1 hd
      have hl := hlt d (hD ▸ hd1) (by rw [hd2]; exact hf) hpm
      rw [hd2] at hl
      show rank d.source < fuel ∧ ∀ x ∈ f :: seen, rank d.source < rank x
      refine ⟨by have := hfo.1; omega, fun x hx => ?_⟩
      rcases List.mem_cons.1 hx with rfl | hx
      · exact hl
      · have := hfo.2 x hx; omega

end RedoModel.Deps.Rich
