import RedoModel.Lemmas.DepsSoundS36
/-! The plain user operations keep `Btw`. -/
namespace RedoModel.Deps.S
open RedoModel.Generated

theorem setFile_fsUpd (w : World) (f : Nat) (n : Option FNode) : FsUpd f w (setFile w f n) :=
  ⟨rfl, rfl, rfl, rfl, rfl, fun x hx => by simp [setFile, hx], Nat.le_refl _⟩

def writeW (w : World) (f v : Nat) : World :=
  setFile { w with clock := w.clock + 1 } f (some { content := srcContent v, ms := w.clock + 1, rest := 0 })

theorem applyOp_write (d : Defects) (n f v : Nat) (w : World) : (applyOp d n (.write f v) w).2 = writeW w f v := rfl

theorem Btw_write {rank w f v} (h : Btw rank w) (hp : w.rules f = []) (h0 : f ≠ alwaysId)
    (hrk : Ranked rank (writeW w f v)) : Btw rank (writeW w f v) := by
  have hb : Base rank w.runCounter NoX w := h
  have hup : FsUpd f w (writeW w f v) :=
    ⟨rfl, rfl, rfl, rfl, rfl, fun x hx => by simp [writeW, setFile, hx], Nat.le_succ _⟩
  have hfs : (writeW w f v).fs f = some { content := srcContent v, ms := w.clock + 1, rest := 0 } := by
    simp [writeW, setFile]
  have hck : (writeW w f v).clock = w.clock + 1 := rfl
  refine Base_user hb hup hrk h0 (fun hg => ?_) (fun n hn => ?_) (fun ms rest hs n hn => ?_) (fun _ => Or.inl ?_)
    (fun hc => absurd (hb.srcNoCsum f hp) hc)
  · rw [hb.srcNotGen f hp] at hg; cases hg
  · rw [hfs] at hn; cases hn; rw [hck]; exact Nat.le_refl _
  · rw [hfs] at hn; cases hn
    have := (hb.stB f ms rest hs).1
    exact Or.inl (by show ms < w.clock + 1; omega)
  · intro e
    have hrs : readStamp (writeW w f v) f = .st (w.clock + 1) 0 := by unfold readStamp; rw [hfs]
    rw [hrs] at e
    have := (hb.stB f _ _ e).1
    omega

theorem applyOp_remove (d : Defects) (n f : Nat) (w : World) : (applyOp d n (.remove f) w).2 = setFile w f none := rfl

theorem Btw_remove {rank w f} (h : Btw rank w) (h0 : f ≠ alwaysId) (hrk : Ranked rank (setFile w f none)) :
    Btw rank (setFile w f none) := by
  have hb : Base rank w.runCounter NoX w := h
  have hfs : (setFile w f none).fs f = none := by simp [setFile]
  refine Base_user hb (setFile_fsUpd w f none) hrk h0 (fun _ => Or.inl hfs) (fun n hn => ?_) (fun ms rest _ n hn => ?_)
    (fun hd => ?_) (fun _ => Or.inl hfs)
  · rw [hfs] at hn; cases hn
  · rw [hfs] at hn; cases hn
  · have hrs : readStamp (setFile w f none) f = .missing := readStamp_missing.2 hfs
    rw [hrs]
    rw [hfs] at hd
    cases hn : w.fs f with
    | none => exact absurd hn.symm hd
    | some n =>
      by_cases hst : (w.recs f).stamp = some .missing
      · right
        cases hg : (w.recs f).isGenerated with
        | true =>
          obtain ⟨rest, e⟩ := hb.genMs f hg n hn
          rw [e] at hst; cases hst
        | false =>
          exact ⟨fun hf => hb.staticEx f hf hg hst, hg, hst⟩
      · exact Or.inl hst

def chmodW (w : World) (f : Nat) : World :=
  match w.fs f with
  | some n => setFile w f (some { n with rest := n.rest + 1 })
  | none => w

theorem applyOp_chmod (d : Defects) (n f : Nat) (w : World) : (applyOp d n (.chmod f) w).2 = chmodW w f := rfl

theorem Btw_chmod {rank w f} (h : Btw rank w) (hp : w.rules f = []) (h0 : f ≠ alwaysId)
    (hrk : Ranked rank (chmodW w f)) : Btw rank (chmodW w f) := by
  have hb : Base rank w.runCounter NoX w := h
  unfold chmodW at hrk ⊢
  cases hn : w.fs f with
  | none => exact h
  | some n =>
    rw [hn] at hrk
    simp only at hrk ⊢
    have hfs : (setFile w f (some { n with rest := n.rest + 1 })).fs f = some { n with rest := n.rest + 1 } := by
      simp [setFile]
    refine Base_user hb (setFile_fsUpd w f _) hrk h0 (fun hg => ?_) (fun n' hn' => ?_) (fun ms rest hs n' hn' => ?_)
      (fun _ => Or.inl ?_) (fun hc => absurd (hb.srcNoCsum f hp) hc)
    · rw [hb.srcNotGen f hp] at hg; cases hg
    · rw [hfs] at hn'; cases hn'; exact hb.fsB f n hn
    · rw [hfs] at hn'; cases hn'
      rcases (hb.stB f ms rest hs).2 n hn with h1 | ⟨h1, h2⟩
      · exact Or.inl h1
      · exact Or.inr ⟨h1, Nat.le_succ_of_le h2⟩
    · intro e
      have hrs : readStamp (setFile w f (some { n with rest := n.rest + 1 })) f = .st n.ms (n.rest + 1) := by
        unfold readStamp; rw [hfs]
      rw [hrs] at e
      rcases (hb.stB f _ _ e).2 n hn with h1 | ⟨_, h2⟩
      · exact Nat.lt_irrefl _ h1
      · omega

end RedoModel.Deps.S
