import RedoModel.Lemmas.DepsOwned1
/-!
# C11 at the level of whole commands — part 2: scripts, jobs, commands
-/
namespace RedoModel.Deps
open RedoModel.Generated

/-! ### should_build, find_do_file -/

theorem shouldBuild_sameOwn (cx : Ctx) (fuel t : Nat) (w : World) : SameOwn w (shouldBuild cx fuel t w).2 := by
  unfold shouldBuild
  split
  · exact SameOwn.refl w
  · dsimp only
    split
    · exact SameOwn.refl w
    · have h := isDirty_sameOwn false cx.runid fuel w [] t cx.runid [] none (fun s hs => by cases hs)
      generalize isDirty false cx.runid fuel w [] t cx.runid [] none = r at h
      obtain ⟨dr, w1, c⟩ := r
      exact h

theorem findDoFile_sameOwn (t : Nat) : ∀ (cs : List Nat) (w : World), SameOwn w (findDoFile t cs w).2
  | [], w => by rw [findDoFile]; exact SameOwn.refl w
  | c :: cs, w => by
    rw [findDoFile]
    split
    · exact SameOwn.addDep w t c true
    · exact (SameOwn.addDep w t c false).trans (findDoFile_sameOwn t cs _)

/-! ### The script -/

/-- What a nested `redo-ifchange` must satisfy. -/
def EngineKeeps (E : Engine) : Prop := ∀ cx ts w, KeepsUser w (E.ifchangeCmd cx ts w).2

theorem conds_keepsUser (E : Engine) (hE : EngineKeeps E) (t : Nat) (cx' : Ctx) :
    ∀ (fs : List Nat) (w : World), KeepsUser w (runScript.conds E t cx' fs w).2
  | [], w => by rw [runScript.conds]; exact KeepsUser.refl w
  | f :: fs, w => by
    rw [runScript.conds]
    split
    · have h := hE cx' [f] w
      generalize E.ifchangeCmd cx' [f] w = r at h
      obtain ⟨rv, w1⟩ := r
      split
      · rename_i heq
        cases heq
        exact h.trans (conds_keepsUser E hE t cx' fs _)
      · rename_i heq
        cases heq
        exact h
    · exact (SameOwn.addDep w t f false).keeps.trans (conds_keepsUser E hE t cx' fs _)

theorem cmds_keepsUser (E : Engine) (hE : EngineKeeps E) (cx : Ctx) (t : Nat) (cx' : Ctx) :
    ∀ (cs : List (List Nat)) (k : Nat) (w : World), KeepsUser w (runScript.cmds E cx t cx' cs k w).2
  | [], k, w => by rw [runScript.cmds]; exact KeepsUser.refl w
  | c :: cs, k, w => by
    rw [runScript.cmds]
    split
    · exact KeepsUser.refl w
    · have h := hE cx' c w
      generalize E.ifchangeCmd cx' c w = r at h
      obtain ⟨rv, w1⟩ := r
      split
      · rename_i heq
        cases heq
        exact h.trans (cmds_keepsUser E hE cx t cx' cs _ _)
      · rename_i heq
        cases heq
        exact h

/-- `redo-always`. -/
def rsAlways (cx : Ctx) (t : Nat) (sc : Script) (w : World) : World :=
  if sc.always then
      let w := addDep w t alwaysId true
      setRec w alwaysId (setChanged { (w.recs alwaysId) with stamp := some .missing } cx.runid)
    else w

def rsFailNow (sc : Script) (w : World) : Bool :=
  match sc.failIfOdd with
      | none => false
      | some f => match w.fs f with
        | some n => (match n.content with
          | [x] => x ≥ 3 && x % 2 == 1 && ((x - 3) / 2) % 2 == 1
          | _ => false)
        | none => false

/-- The end of the script: the optional failure, the output, `redo-stamp`. -/
def rsFinish (cx : Ctx) (t : Nat) (sc : Script) (w : World) : Status × Option Content × World :=
    if rsFailNow sc w then (1, none, w) else
    let out := outContent sc.tag (sc.reads.map (fun f => (w.fs f).map (·.content)))
    let w := if sc.stamp = 0 then w else
      let data : Content := if sc.stamp = 1 then out else [sc.stamp - 2]
      let w := addKnown w t
      setRec w t (stampRec (w.recs t) cx.runid data)
    if sc.stamp != 0 && decide (cx.crash = some (t, sc.ifchange.length + 1)) then (CRASHED, none, w) else
    ((sc.exit : Int), if sc.outMode = 2 then none else some out, w)

/-- The world after the `redo-stamp` step (the same whether or not the kill point after it fires). -/
def rsStampW (cx : Ctx) (t : Nat) (sc : Script) (w : World) : World :=
    let out := outContent sc.tag (sc.reads.map (fun f => (w.fs f).map (·.content)))
    if sc.stamp = 0 then w else
      let data : Content := if sc.stamp = 1 then out else [sc.stamp - 2]
      let w := addKnown w t
      setRec w t (stampRec (w.recs t) cx.runid data)

/-- Whether the kill point after `redo-stamp` fires. -/
def rsKill (cx : Ctx) (t : Nat) (sc : Script) : Bool :=
  sc.stamp != 0 && decide (cx.crash = some (t, sc.ifchange.length + 1))

theorem rsFinish_world (cx : Ctx) (t : Nat) (sc : Script) (w : World) :
    (rsFinish cx t sc w).2.2 = if rsFailNow sc w then w else rsStampW cx t sc w := by
  unfold rsFinish rsStampW
  split
  · rfl
  · dsimp only
    split <;> rfl

theorem rsFinish_eq (cx : Ctx) (t : Nat) (sc : Script) (w : World) :
    rsFinish cx t sc w = if rsFailNow sc w then (1, none, w) else
      if rsKill cx t sc then (CRASHED, none, rsStampW cx t sc w) else
      ((sc.exit : Int), (if sc.outMode = 2 then none else
        some (outContent sc.tag (sc.reads.map (fun f => (w.fs f).map (·.content))))), rsStampW cx t sc w) := rfl

theorem rsKill_of_stamp0 (cx : Ctx) (t : Nat) (sc : Script) (h : sc.stamp = 0) : rsKill cx t sc = false := by
  simp [rsKill, h]

theorem rsKill_of_nocrash (cx : Ctx) (t : Nat) (sc : Script) (h : cx.crash = none) : rsKill cx t sc = false := by
  simp [rsKill, h]

/-- The declarations and nested commands, then the end. -/
def rsBody (E : Engine) (cx : Ctx) (t : Nat) (sc : Script) (w : World) : Status × Option Content × World :=
  let cx' : Ctx := { runid := cx.runid, parent := some t, cycles := t :: cx.cycles, keepGoing := cx.keepGoing, crash := cx.crash }
  match runScript.conds E t cx' sc.cond w with
  | (rvc, w) =>
  if rvc ≠ 0 then (rvc, none, w) else
  match runScript.cmds E cx t cx' sc.ifchange 0 w with
  | (rv, w) =>
    if rv ≠ 0 then (rv, none, w) else rsFinish cx t sc w

theorem runScript_eq (E : Engine) (d : Defects) (cx : Ctx) (t : Nat) (sc : Script) (w : World) :
    runScript E d cx t sc w =
      (if sc.ifcreate.any (fun f => existsF (rsAlways cx t sc w) f) then (1, none, rsAlways cx t sc w)
       else rsBody E cx t sc (sc.ifcreate.foldl (fun w f => addDep w t f false) (rsAlways cx t sc w))) := rfl

theorem detectOverride_missing_exists {w : World} {f : Nat} (hex : existsF w f = true) :
    detectOverride .missing (readStamp w f) = true := by
  unfold existsF at hex
  unfold readStamp
  cases h : w.fs f with
  | none => rw [h] at hex; cases hex
  | some n => rfl

theorem rsAlways_keepsUser (cx : Ctx) (t : Nat) (sc : Script) (w : World) : KeepsUser w (rsAlways cx t sc w) := by
  unfold rsAlways
  split
  · dsimp only
    refine (SameOwn.addDep w t alwaysId true).keeps.trans (KeepsUser.setRec _ _ _ (fun ho => ?_))
    have hex : existsF (addDep w t alwaysId true) alwaysId = true := ho.1
    refine ⟨hex, ?_⟩
    right; right
    simp only [setRec, if_true, setChanged, Option.getD_some]
    exact detectOverride_missing_exists hex
  · exact KeepsUser.refl w

theorem rsFinish_keepsEx (cx : Ctx) (t : Nat) (sc : Script) (w : World) :
    KeepsUserEx t w (rsFinish cx t sc w).2.2 := by
  rw [rsFinish_world]
  split
  · exact KeepsUserEx.refl t w
  · unfold rsStampW
    dsimp only
    split
    · exact KeepsUserEx.refl t w
    · exact ((SameOwn.addKnown w t).keeps.ex t).trans (KeepsUserEx.setRec _ t _)

theorem rsBody_keepsEx (E : Engine) (hE : EngineKeeps E) (cx : Ctx) (t : Nat) (sc : Script) (w : World) :
    KeepsUserEx t w (rsBody E cx t sc w).2.2 := by
  unfold rsBody
  dsimp only
  have h1 := conds_keepsUser E hE t
    { runid := cx.runid, parent := some t, cycles := t :: cx.cycles, keepGoing := cx.keepGoing, crash := cx.crash } sc.cond w
  generalize runScript.conds E t _ sc.cond w = r1 at h1
  obtain ⟨rvc, w1⟩ := r1
  dsimp only at h1 ⊢
  split
  · exact h1.ex t
  · have h2 := cmds_keepsUser E hE cx t
      { runid := cx.runid, parent := some t, cycles := t :: cx.cycles, keepGoing := cx.keepGoing, crash := cx.crash }
      sc.ifchange 0 w1
    generalize runScript.cmds E cx t _ sc.ifchange 0 w1 = r2 at h2
    obtain ⟨rv, w2⟩ := r2
    dsimp only at h2 ⊢
    split
    · exact (h1.trans h2).ex t
    · exact ((h1.trans h2).ex t).trans (rsFinish_keepsEx cx t sc w2)

/-- A script keeps every user-owned file other than its own target. -/
theorem runScript_keepsEx (E : Engine) (hE : EngineKeeps E) (d : Defects) (cx : Ctx) (t : Nat) (sc : Script) (w : World) :
    KeepsUserEx t w (runScript E d cx t sc w).2.2 := by
  rw [runScript_eq]
  split
  · exact (rsAlways_keepsUser cx t sc w).ex t
  · exact ((rsAlways_keepsUser cx t sc w).trans (SameOwn.foldl_addDep t false _ _).keeps).ex t |>.trans
      (rsBody_keepsEx E hE cx t sc _)

/-! ### Recording the result -/

theorem recordNewState_off (cx : Ctx) (t : Nat) (sf : Rec) (rv : Status) (out : Option Content) (w : World)
    (f : Nat) (hf : f ≠ t) :
    (recordNewState cx t sf rv out w).2.fs f = w.fs f ∧ (recordNewState cx t sf rv out w).2.recs f = w.recs f := by
  unfold recordNewState
  split
  · cases out <;> simp [setRec, setFile, zapDeps2, newNode, hf]
  · simp [setRec, zapDeps2, hf]

theorem recordNewState_keepsEx (cx : Ctx) (t : Nat) (sf : Rec) (rv : Status) (out : Option Content) (w : World) :
    KeepsUserEx t w (recordNewState cx t sf rv out w).2 :=
  KeepsUserEx.of_off (recordNewState_off cx t sf rv out w)

/-! ### start_self -/

/-- The override detection at the head of `start_self`. -/
def ssGuard (cx : Ctx) (t : Nat) (sf : Rec) (w : World) : Rec × World :=
    if sf.isGenerated && readStamp w t != .missing && (sf.isOverride || detectOverride (sf.stamp.getD .missing) (readStamp w t)) then
      let w := ev w (.warnOverride t)
      let sf := setOverride w t sf cx.runid
      (sf, setRec w t sf)
    else (sf, w)

/-- The part of `start_self` that runs a .do file. -/
def ssBuild (E : Engine) (d : Defects) (cx : Ctx) (t : Nat) (sf : Rec) (w : World) : Status × World :=
    let R := cx.runid
    let w := zapDeps1 w t
    match findDoFile t (w.rules t) w with
    | (none, w) =>
      if existsF w t then (0, setRec w t (setStatic w t sf R))
      else (1, setRec w t (setFailed w t sf R))
    | (some dof, w) =>
      let w := setRec w dof (setStatic w dof (w.recs dof) R)
      let w := ev w (.ran t)
      let sc : Script := match w.fs dof with
        | some n => (w.progs n.content).getD {}
        | none => {}
      match runScript E d cx t sc w with
      | (rv, out, w) => if rv = CRASHED then (CRASHED, w) else recordNewState cx t sf rv out w

theorem startSelf_eq (E : Engine) (d : Defects) (cx : Ctx) (t : Nat) (sf0 : Rec) (w : World) :
    startSelf E d cx t sf0 w =
      (match ssGuard cx t sf0 w with
       | (sf, w) =>
         if existsF w t && (sf.isOverride || !sf.isGenerated) then
           (0, setRec w t (if !sf.isOverride then setStatic w t sf cx.runid else sf))
         else ssBuild E d cx t sf w) := rfl

theorem existsF_of_readStamp_ne {w : World} {t : Nat} (h : (readStamp w t != .missing) = true) :
    existsF w t = true := by
  unfold readStamp at h; unfold existsF
  cases hfs : w.fs t with
  | none => rw [hfs] at h; simp at h
  | some n => rfl

/-- After the override detection: user files are kept, and if the job goes on to build, its target
is not a user-owned file. -/
theorem ssGuard_spec (cx : Ctx) (t : Nat) (sf0 : Rec) (w : World)
    (hsf : existsF w t = true → KeyEq sf0 (w.recs t)) :
    KeepsUser w (ssGuard cx t sf0 w).2 ∧
    ((existsF (ssGuard cx t sf0 w).2 t && ((ssGuard cx t sf0 w).1.isOverride || !(ssGuard cx t sf0 w).1.isGenerated)) = false →
      ¬ UserOwned (ssGuard cx t sf0 w).2 t) := by
  unfold ssGuard
  split
  · rename_i hc
    simp only [Bool.and_eq_true] at hc
    obtain ⟨⟨_, hns⟩, _⟩ := hc
    have hex : existsF w t = true := existsF_of_readStamp_ne hns
    dsimp only
    have hov : (setOverride (ev w (.warnOverride t)) t sf0 cx.runid).isOverride = true := rfl
    constructor
    · refine (SameOwn.ev w _).keeps.trans (KeepsUser.setRec _ _ _ (fun _ => ⟨hex, ?_⟩))
      right; left
      simp only [setRec, if_true]
      exact hov
    · intro hg
      exfalso
      have hex' : existsF (setRec (ev w (.warnOverride t)) t
          (setOverride (ev w (.warnOverride t)) t sf0 cx.runid)) t = true := hex
      rw [hex', hov] at hg
      simp at hg
  · rename_i hc
    refine ⟨KeepsUser.refl w, ?_⟩
    dsimp only
    intro hg ho
    obtain ⟨hex, hor⟩ := ho
    have hk := hsf hex
    have hns : (readStamp w t != .missing) = true := by
      unfold existsF at hex; unfold readStamp
      cases hfs : w.fs t with
      | none => rw [hfs] at hex; cases hex
      | some n => rfl
    rw [hex] at hg
    rw [← hk.1, ← hk.2.1, ← hk.2.2] at hor
    rw [hns] at hc
    cases hgen : sf0.isGenerated <;> cases hovr : sf0.isOverride <;>
      simp [hgen, hovr] at hg hc hor
    simp [hor] at hc

theorem ssBuild_keepsEx (E : Engine) (hE : EngineKeeps E) (d : Defects) (cx : Ctx) (t : Nat) (sf : Rec) (w : World) :
    KeepsUserEx t w (ssBuild E d cx t sf w).2 := by
  unfold ssBuild
  dsimp only
  have h1 := (SameOwn.zapDeps1 w t).trans (findDoFile_sameOwn t ((zapDeps1 w t).rules t) (zapDeps1 w t))
  generalize findDoFile t ((zapDeps1 w t).rules t) (zapDeps1 w t) = r at h1
  obtain ⟨o, w1⟩ := r
  dsimp only at h1
  cases o with
  | none =>
    dsimp only
    split
    · exact (h1.keeps.ex t).trans (KeepsUserEx.setRec _ t _)
    · exact (h1.keeps.ex t).trans (KeepsUserEx.setRec _ t _)
  | some dof =>
    dsimp only
    have h2 : KeepsUser w1 (setRec w1 dof (setStatic w1 dof (w1.recs dof) cx.runid)) :=
      KeepsUser.setRec _ _ _ (fun ho => ⟨ho.1, Or.inl (by simp [setRec, setStatic])⟩)
    have h3 := (h1.keeps.trans h2).trans (SameOwn.ev _ (.ran t)).keeps
    generalize ev (setRec w1 dof (setStatic w1 dof (w1.recs dof) cx.runid)) (.ran t) = w3 at h3 ⊢
    generalize (match w3.fs dof with
        | some n => (w3.progs n.content).getD {}
        | none => ({} : Script)) = sc
    have h4 := runScript_keepsEx E hE d cx t sc w3
    generalize runScript E d cx t sc w3 = r4 at h4
    obtain ⟨rv, out, w4⟩ := r4
    dsimp only at h4 ⊢
    split
    · exact (h3.ex t).trans h4
    · exact ((h3.ex t).trans h4).trans (recordNewState_keepsEx cx t sf rv out w4)

/-- `start_self` keeps every user-owned file, provided the record copy the job holds agrees with the
database on the ownership fields (which `buildJob` guarantees). -/
theorem startSelf_keepsUser (E : Engine) (hE : EngineKeeps E) (d : Defects) (cx : Ctx) (t : Nat) (sf0 : Rec) (w : World)
    (hsf : existsF w t = true → KeyEq sf0 (w.recs t)) :
    KeepsUser w (startSelf E d cx t sf0 w).2 := by
  rw [startSelf_eq]
  obtain ⟨hk, hno⟩ := ssGuard_spec cx t sf0 w hsf
  generalize ssGuard cx t sf0 w = g at hk hno
  obtain ⟨sf, w1⟩ := g
  dsimp only at hk hno ⊢
  split
  · rename_i hg
    refine hk.trans (KeepsUser.setRec _ _ _ (fun ho => ⟨ho.1, ?_⟩))
    simp only [setRec, if_true]
    cases hovr : sf.isOverride
    · left; simp [setStatic]
    · right; left; simpa using hovr
  · rename_i hg
    have hg' : (existsF w1 t && (sf.isOverride || !sf.isGenerated)) = false := by simpa using hg
    exact hk.trans ((ssBuild_keepsEx E hE d cx t sf w1).toKeeps (hno hg'))

/-! ### Jobs, target lists, commands -/

theorem buildJob_keepsUser (E : Engine) (hE : EngineKeeps E) (d : Defects) (cx : Ctx) (fuel t : Nat) (w : World) :
    KeepsUser w (buildJob E d cx fuel t w).2 := by
  unfold buildJob
  dsimp only
  have hs := shouldBuild_sameOwn cx fuel t w
  generalize shouldBuild cx fuel t w = sb at hs
  obtain ⟨o, w1⟩ := sb
  dsimp only at hs
  have hsf : existsF w1 t = true → KeyEq (w.recs t) (w1.recs t) := by
    intro hex
    have hex0 : existsF w t = true := by rw [← existsF_congr (congrFun hs.1 t)]; exact hex
    exact (hs.2 t hex0).symm
  have hst := startSelf_keepsUser E hE d cx t (w.recs t) w1 hsf
  cases o with
  | none => exact hs.keeps
  | some dr =>
    cases dr with
    | cyclic => exact hs.keeps
    | clean => exact hs.keeps
    | dirty => exact hs.keeps.trans hst
    | need ts =>
      dsimp only
      split
      · exact hs.keeps.trans hst
      · have h1 := hE { cx with noOob := true, unlocked := false, isRedo := false, cycles := t :: cx.cycles,
                                parent := if d.oobRecordsDepsOnCaller then cx.parent else none }
          (if w1.oobRev then ts.eraseDups.reverse else ts.eraseDups) w1
        generalize E.ifchangeCmd _ (if w1.oobRev then ts.eraseDups.reverse else ts.eraseDups) w1 = r1 at h1
        obtain ⟨rv1, w2⟩ := r1
        dsimp only at h1
        split
        · rename_i heq
          cases heq
          have h2 := hE { cx with noOob := true, unlocked := true, isRedo := false }
            (if d.oobRebuildsDepsNotTarget then (if w1.oobRev then ts.eraseDups.reverse else ts.eraseDups) else [t]) w2
          exact (hs.keeps.trans h1).trans h2
        · rename_i heq
          cases heq
          exact hs.keeps.trans h1

theorem runTargets_keepsUser (E : Engine) (hE : EngineKeeps E) (d : Defects) (cx : Ctx) (fuel : Nat) :
    ∀ (ts seen : List Nat) (errored : Bool) (w : World), KeepsUser w (runTargets E d cx fuel ts seen errored w).2
  | [], _, _, w => by rw [runTargets]; exact KeepsUser.refl w
  | t :: ts, seen, errored, w => by
    rw [runTargets]
    split
    · exact runTargets_keepsUser E hE d cx fuel ts seen errored w
    · split
      · exact KeepsUser.refl w
      · dsimp only
        have ha := (SameOwn.addKnown w t).keeps
        split
        · exact ha
        · have hb := buildJob_keepsUser E hE d cx fuel t (addKnown w t)
          generalize buildJob E d cx fuel t (addKnown w t) = r at hb
          obtain ⟨jr, w1⟩ := r
          cases jr with
          | abort code => exact ha.trans hb
          | done rv =>
            dsimp only
            split
            · exact ha.trans hb
            · exact (ha.trans hb).trans (runTargets_keepsUser E hE d cx fuel ts _ _ w1)

theorem ifchangeWith_keepsUser (E : Engine) (hE : EngineKeeps E) (d : Defects) (fuel : Nat) (cx : Ctx) (ts : List Nat)
    (w : World) : KeepsUser w (ifchangeWith E d fuel cx ts w).2 := by
  unfold ifchangeWith
  cases hp : cx.parent with
  | none =>
    simp only [Bool.false_eq_true, if_false]
    exact runTargets_keepsUser E hE d cx fuel ts [] false w
  | some p =>
    dsimp only
    split
    · exact KeepsUser.refl w
    · refine KeepsUser.trans ?_ (runTargets_keepsUser E hE d cx fuel ts [] false _)
      split
      · exact KeepsUser.refl w
      · exact ((SameOwn.addKnown w _).trans (SameOwn.foldl_addDep _ true ts _)).keeps

/-- Every nested `redo-ifchange` of the real engine keeps user-owned files, for every defect switch. -/
theorem engine_keeps (d : Defects) : ∀ n, EngineKeeps (engine d n)
  | 0 => fun _ _ w => KeepsUser.refl w
  | n + 1 => fun cx ts w => ifchangeWith_keepsUser (engine d n) (engine_keeps d n) d (n + 1) cx ts w

end RedoModel.Deps
