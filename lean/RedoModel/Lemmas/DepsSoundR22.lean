import RedoModel.Lemmas.DepsSoundR21
/-! `ssBuild` when a .do file is found: recording the failure or the success. -/
namespace RedoModel.Deps.Rich

theorem recordFail_eq (cx : Ctx) (t : Nat) (sf : Rec) (rv : Status) (out : Option Content) (w : World) (h : rv ≠ 0) :
    recordNewState cx t sf rv out w = (rv, setRec (zapDeps2 w t) t (setFailed w t sf cx.runid)) := by
  unfold recordNewState
  simp only [h, if_false]

theorem zapDeps2_off (w : World) (t : Nat) (r : Rec) : OffT t w (setRec (zapDeps2 w t) t r) := by
  refine ⟨rfl, rfl, fun _ _ => rfl, fun _ => rfl, fun x hx => setRec_recs_other _ _ _ hx, fun d hd => ?_, Nat.le_refl _, rfl⟩
  show d ∈ (zapDeps2 w t).deps ↔ d ∈ w.deps
  unfold zapDeps2
  simp only [List.mem_filter]
  simp [hd]

theorem zapDeps2_sub (w : World) (t : Nat) (r : Rec) : ∀ d ∈ (setRec (zapDeps2 w t) t r).deps, d ∈ w.deps := by
  intro d hd
  have : d ∈ (zapDeps2 w t).deps := hd
  unfold zapDeps2 at this
  exact (List.mem_filter.1 this).1

/-- The script failed (or a nested command did): the failure is recorded. -/
theorem ssb_fail {rank R t w w2 w5 b dof} {X : Nat → Prop} {cx : Ctx} {sf : Rec} (hsf : StaleOk w t sf)
    (hcx : cx.runid = R) (hng : ¬ Good w R t)
    (hro : RowOp t w w2) (hi5 : Inv rank R (addX X t) w5) (hb5 : BExt rank R (rank t) (some t) w2 w5)
    (hdm : dof ∈ w.rules t) (hlt : rank t < b) (po : Option Nat) (rv : Status) (out : Option Content)
    (hrv : rv ≠ 0) (hnc : rv ≠ CRASHED) :
    JobPost rank R X t b po w (recordNewState cx t sf rv out w5) := by
  rw [recordFail_eq _ _ _ _ _ _ hrv, hcx]
  have hst : SameT t w w5 := (hro.sameT t).trans (hb5.sameT (Nat.le_refl _))
  have hng5 : ¬ Good w5 R t := fun h => hng ((hst.good R).1 h)
  have hr5 : w5.rules t ≠ [] := by
    rw [hb5.rules, hro.rules]; intro h; rw [h] at hdm; simp at hdm
  have h0 : t ≠ alwaysId := fun e => hr5 (e ▸ hi5.base.rulesOk.1)
  obtain ⟨a1, a2, _⟩ := setFailed_spec (b := b) (po := po) (X' := X) hi5 h0 hng5 addX_drop
    (zapDeps2_off w5 t _) rfl (zapDeps2_sub w5 t _)
    (by
      have hav : AgreeV sf (w5.recs t) := hsf.agreeV.trans_flds hst.flds.symm
      have hov : sf.isOverride = (w5.recs t).isOverride ∨ sf.stamp ≠ some (readStamp w5 t) := by
        rcases hsf.ovr with h | ⟨h1, h2⟩
        · exact Or.inl (h.trans hst.flds.ovr.symm)
        · right
          have : readStamp w5 t = .missing := readStamp_missing.2 (by rw [hst.fs]; exact h1)
          rw [this]; exact h2
      simpa using setFailed_flds hav w5 t R hov) (fun h => absurd h hr5) hlt
  have hb05 : BExt rank R b po w w5 := (hro.toBExt hlt).trans (hb5.lift hlt)
  exact ⟨a1, hb05.trans a2, fun h => absurd h hrv, fun _ h => absurd h hrv, hnc⟩

theorem notMarked {rank R X w t} (hi : Inv rank R X w) (hng : ¬ Good w R t) (hnf : (w.recs t).failed ≠ some R) :
    isCheckedR (w.recs t) R = false ∧ isChangedR (w.recs t) R = false := by
  have hb := hi.base
  constructor
  · unfold isCheckedR
    cases hc : (w.recs t).checked with
    | none => rfl
    | some c =>
      simp only
      cases hx : (c != 0 && decide (c ≥ R)) with
      | false => rfl
      | true =>
        exfalso
        simp only [Bool.and_eq_true, bne_iff_ne, ne_eq, decide_eq_true_eq] at hx
        have hle := hb.ckLe t c hc
        have : c = R := by omega
        subst this
        exact hng (Or.inl ⟨hb.ckFail t hc, Or.inl hc⟩)
  · unfold isChangedR
    cases hc : (w.recs t).changed with
    | none => rfl
    | some c =>
      simp only
      cases hx : (c != 0 && decide (c ≥ R)) with
      | false => rfl
      | true =>
        exfalso
        simp only [Bool.and_eq_true, bne_iff_ne, ne_eq, decide_eq_true_eq] at hx
        have hle := hb.chLe t c hc
        have : c = R := by omega
        subst this
        rcases hb.markFail t hc with h | h
        · exact hng (Or.inl ⟨h, Or.inr hc⟩)
        · exact hnf h

theorem ssb_built {rank R t w w2 w5 dof sc pre post} {X : Nat → Prop} (hi : Inv rank R X w) (hng : ¬ Good w R t)
    (hro : RowOp t w w2) (hr : w.rules t = pre ++ dof :: post) (hpre : ∀ c ∈ pre, existsF w c = false)
    (hdex : existsF w dof = true)
    (hshape : ∀ d ∈ w2.deps, d.target = t → d.deleteMe = false → DoRow w (some dof) d)
    (hrows : (∀ c ∈ pre, HasRowU w2 t c false) ∧ HasRowU w2 t dof true)
    (hi5 : Inv rank R (addX X t) w5) (hb5 : BExt rank R (rank t) (some t) w2 w5)
    (ran : RanOk rank R t dof sc w2 w5) : Built rank R t pre dof post sc w5 := by
  have hst : SameT t w w5 := (hro.sameT t).trans (hb5.sameT (Nat.le_refl _))
  have hrules : w5.rules = w.rules := hb5.rules.trans hro.rules
  have hplain : ∀ x, w.rules x = [] → w5.fs x = w.fs x := fun x hx =>
    (hb5.plain x (by rw [hro.rules]; exact hx)).trans (congrFun hro.fs x)
  have hcand : ∀ c ∈ w.rules t, w5.fs c = w.fs c := fun c hc => hplain c (hi.base.rulesOk.2 t c hc).1
  refine ⟨fun h => hng ((hst.good R).1 h), by rw [hrules]; exact hr, ?_, ?_, ?_, ran.dofGood, ran.script, ran.exit,
    ran.noFail, ran.decl, ran.alw, ran.ic, ran.cond, ?_⟩
  · intro c hc
    have hcm : c ∈ w.rules t := by rw [hr]; simp [hc]
    have hc0 : c ≠ alwaysId := (hi.base.rulesOk.2 t c hcm).2.1
    have habs : existsF w5 c = false := by rw [existsF_congr (hcand c hcm)]; exact hpre c hc
    exact ⟨habs, ran.keepC c (hrows.1 c hc) (by rw [hro.existsF]; exact hpre c hc)
      (by rw [hro.rules]; exact (hi.base.rulesOk.2 t c hcm).1) hc0⟩
  · rw [existsF_congr (hcand dof (by rw [hr]; simp))]; exact hdex
  · exact ran.keepM dof hrows.2 (by rw [hro.existsF]; exact hdex)
  · intro d hd hdt hdm
    rcases ran.newRows d hd hdt with h | ⟨_, h2, h3⟩
    · obtain ⟨_, s1, s2⟩ := hshape d h hdt hdm
      refine ⟨fun hm => ?_, fun hm => ?_⟩
      · have hsP : w.rules d.source = [] := by rw [← hrules]; exact (hi5.base.cPlain d hd hm).1
        rw [existsF_congr (hplain _ hsP)]; exact s1 hm
      · rw [← Option.some.inj (s2 hm)]; exact ran.dofGood
    · exact ⟨h3, h2⟩

end RedoModel.Deps.Rich
