import RedoModel.Lemmas.DepsSoundS42
/-!
# redo-ood, upper bound — part 8: the over-approximation is real, and of the allowed kind

(This file cannot import `DepsOod1`, hence none of `DepsOodUp*`, nor `DepsShift4`: `DepsOod1` and `DepsSound4` both
define `RedoModel.Deps.RecOk`, `DepsShift3` and `DepsCsum4` both define `RedoModel.Deps.oobCx1`.  The same history is
evaluated again, inside the `DepsOodUp` universe, in `DepsOodUp9`, where the general theorems are applied to it.
That a query between does not change what the following build does is `C17.queries_do_not_change_builds_obs`.)

The history of `DepsSoundS42`: source 5, checksummed `mid` (3, `redo-stamp`) reading it, `top` (4) reading `mid`;
everything is built, then the file of `mid` is removed.  `redo-ood` lists `mid` AND `top`; the following
`redo-ifchange top` rebuilds only `mid` (its checksum is unchanged).  The verdict of redo-ood's walk for `top` is
`need [mid]`: `top` is listed as a dependent of a checksummed target that needs rebuilding.
-/
namespace RedoModel.Deps.S
open RedoModel.Generated

set_option linter.unusedSimpArgs false in
set_option maxHeartbeats 400000 in
/-- `redo-ood` (scenario size 5) lists `mid` and `top`. -/
theorem sA_ood : (runCmd {} 5 .ood (sW sOpsA)).1.listing = [3, 4] := by
  unfold sOpsA
  simp (config := { zeta := true, zetaHave := true, decide := true, maxSteps := 2000000 }) [sW, sOps0, midS, topS,
    sRules, runCmd, runCmd.go, knownFiles, known, isTarget, isSource, allocRun, applyOp, initWorld, engine,
    runTargets, buildJob, shouldBuild, isDirty, goDeps, startSelf, recordNewState, runScript, runScript.cmds,
    runScript.conds, ifchangeWith, findDoFile, addDep, addKnown, setRec, setFile, ev, getRec, readStamp, existsF,
    newNode, srcContent, outContent, depsWithRecs, depsOf, zapDeps1, zapDeps2, updateStamp, setChanged, setStatic,
    setFailed, setOverride, detectOverride, isCheckedR, isChangedR, isFailedR, alwaysId, mergeSort_pairS, CRASHED,
    EXIT_CYCLIC_DEPENDENCY, EXIT_TARGET_FAILED, EXIT_FAILURE, stampRec, List.eraseDups_cons, List.eraseDups_nil,
    List.range, List.range.loop]

theorem sA_trace0 : (sW sOpsA).trace = [.ran 3, .ran 4] := by decide +kernel
theorem sA_rc : (sW sOpsA).runCounter = 1 := by decide +kernel
theorem sA_mid_csum : ((sW sOpsA).recs 3).csum.isSome = true := by decide +kernel

set_option linter.unusedSimpArgs false in
set_option maxHeartbeats 400000 in
/-- The verdict of redo-ood's walk for `top` (run id 2, fuel 2·5+4): `need [mid]`. -/
theorem sA_need : (isDirty true 2 14 { sW sOpsA with runCounter := 2 } [] 4 2 [] none).1 = .need [3] := by
  unfold sOpsA
  simp (config := { zeta := true, zetaHave := true, decide := true, maxSteps := 2000000 }) [sW, sOps0, midS, topS,
    sRules, runCmd, allocRun, applyOp, initWorld, engine, runTargets, buildJob, shouldBuild, isDirty, goDeps,
    startSelf, recordNewState, runScript, runScript.cmds, runScript.conds, ifchangeWith, findDoFile, addDep,
    addKnown, setRec, setFile, ev, getRec, readStamp, existsF, newNode, srcContent, outContent, depsWithRecs, depsOf,
    zapDeps1, zapDeps2, updateStamp, setChanged, setStatic, setFailed, setOverride, detectOverride, isCheckedR,
    isChangedR, isFailedR, alwaysId, mergeSort_pairS, CRASHED, EXIT_CYCLIC_DEPENDENCY, EXIT_TARGET_FAILED,
    EXIT_FAILURE, stampRec, List.eraseDups_cons, List.eraseDups_nil]

/-- `redo-ifchange top` on that world exits 0 and executes `mid` only (`sA_status`, `sA_trace` of `DepsSoundS42`; the
trace before the command was `[ran 3, ran 4]`). -/
theorem sA_build : sResA.1.status = 0 ∧ sResA.2.trace = .ran 3 :: (sW sOpsA).trace := by
  rw [sA_trace0]; exact ⟨sA_status, sA_trace⟩

end RedoModel.Deps.S
