import RedoModel.Lemmas.DepsSoundS40
/-! Non-vacuity of `noStaleStamp_partial`: a source `s` (5), a checksummed target `mid` (3, built by 1 = `mid.do`, reads `s`,
pipes its output to `redo-stamp`), a plain target `top` (4, built by 2 = `top.do`, reads `mid`). -/
namespace RedoModel.Deps.S
open RedoModel.Generated

def sRules : Nat → List Nat := fun t => if t = 3 then [1] else if t = 4 then [2] else []
def sRank : Nat → Nat := fun f => if f = 3 then 1 else if f = 4 then 2 else 0
def midS : Script := { ifchange := [[5]], reads := [5], tag := 1, stamp := 1 }
def topS : Script := { ifchange := [[3]], reads := [3], tag := 2 }

/-- Give the two .do contents their meaning, write the source and the .do files, build `top`. -/
def sOps0 : List UserOp :=
  [.setProg (srcContent 7) midS, .setProg (srcContent 8) topS, .write 5 0, .write 1 7, .write 2 8,
   .cmd (.ifchange [4] false)]

def sW (ops : List UserOp) : World := ops.foldl (fun w op => (applyOp {} 3 op w).2) (initWorld sRules)

theorem s_rulesOk : RulesOk sRules := by
  refine ⟨by simp [sRules, alwaysId], fun t c hc => ?_⟩
  unfold sRules at hc ⊢
  split at hc
  · simp at hc; subst hc; subst_vars; simp [alwaysId]
  · split at hc
    · simp at hc; subst hc; subst_vars; simp [alwaysId]
    · simp at hc

theorem s_rankLt : ∀ f, sRank f < 3 := by intro f; unfold sRank; split <;> (try split) <;> omega

theorem midS_plainS : midS.PlainS := ⟨rfl, rfl, rfl, Or.inr rfl, rfl, rfl, fun _ => by decide⟩
theorem topS_plainS : topS.PlainS := ⟨rfl, rfl, rfl, Or.inl rfl, rfl, rfl, fun h => by cases h⟩

/-- What `Ranked sRank` needs of a world: the rule table, and that `mid.do` / `top.do`, if present with a meaning,
mean `midS` / `topS`. -/
theorem s_ranked_of (w : World) (hr : w.rules = sRules)
    (h1 : ∀ n sc, w.fs 1 = some n → w.progs n.content = some sc → sc = midS)
    (h2 : ∀ n sc, w.fs 2 = some n → w.progs n.content = some sc → sc = topS) : Ranked sRank w := by
  refine ⟨fun t c hc => ?_, fun t dof hd n sc hn hp => ?_⟩
  · rw [hr] at hc; unfold sRules at hc
    split at hc
    · simp at hc; subst hc; subst_vars; simp [sRank]
    · split at hc
      · simp at hc; subst hc; subst_vars; simp [sRank]
      · simp at hc
  · rw [hr] at hd; unfold sRules at hd
    split at hd
    · simp at hd; subst hd; subst_vars
      have := h1 n sc hn hp; subst this
      intro c hc d hdm
      simp only [midS, List.mem_singleton] at hc; subst hc
      simp only [List.mem_singleton] at hdm; subst hdm
      simp [sRank]
    · split at hd
      · simp at hd; subst hd; subst_vars
        have := h2 n sc hn hp; subst this
        intro c hc d hdm
        simp only [topS, List.mem_singleton] at hc; subst hc
        simp only [List.mem_singleton] at hdm; subst hdm
        simp [sRank]
      · simp at hd

theorem ranked_frame {rank : Nat → Nat} {w w' : World} (h : Ranked rank w) (hr : w'.rules = w.rules) (hp : w'.progs = w.progs)
    (hf : ∀ t, ∀ dof ∈ w.rules t, w'.fs dof = w.fs dof) : Ranked rank w' := by
  refine ⟨fun t c hc => h.1 t c (by rw [← hr]; exact hc), fun t dof hd n sc hn hsc => ?_⟩
  rw [hr] at hd
  rw [hf t dof hd] at hn
  rw [hp] at hsc
  exact h.2 t dof hd n sc hn hsc

/-- The worlds before the first command. -/
def sPre : List UserOp := [.setProg (srcContent 7) midS, .setProg (srcContent 8) topS, .write 5 0, .write 1 7, .write 2 8]

theorem sPre_plain : ∀ op ∈ sPre, PlainOpS sRules op := by
  intro op hop
  simp only [sPre, List.mem_cons, List.not_mem_nil, or_false] at hop
  rcases hop with rfl | rfl | rfl | rfl | rfl
  · exact midS_plainS
  · exact topS_plainS
  · exact ⟨by simp [sRules], by simp [alwaysId]⟩
  · exact ⟨by simp [sRules], by simp [alwaysId]⟩
  · exact ⟨by simp [sRules], by simp [alwaysId]⟩

theorem s_progs_mid {p : Content → Option Script} (h : ∀ x, p x = if x = srcContent 8 then some topS else if x = srcContent 7 then some midS else none)
    (sc : Script) (hs : p (srcContent 7) = some sc) : sc = midS := by
  rw [h] at hs
  simp [srcContent] at hs
  exact hs.symm

theorem s_progs_top {p : Content → Option Script} (h : ∀ x, p x = if x = srcContent 8 then some topS else if x = srcContent 7 then some midS else none)
    (sc : Script) (hs : p (srcContent 8) = some sc) : sc = topS := by
  rw [h] at hs
  simp at hs
  exact hs.symm

theorem sPre_ranked : ∀ w ∈ worldsOf 3 {} (initWorld sRules) sPre, Ranked sRank w := by
  intro w hw
  simp only [sPre, worldsOf, List.mem_cons, List.not_mem_nil, or_false] at hw
  rcases hw with rfl | rfl | rfl | rfl | rfl | rfl
  · exact s_ranked_of _ rfl (fun n sc hn _ => by cases hn) (fun n sc hn _ => by cases hn)
  · exact s_ranked_of _ rfl (fun n sc hn _ => by cases hn) (fun n sc hn _ => by cases hn)
  · exact s_ranked_of _ rfl (fun n sc hn _ => by cases hn) (fun n sc hn _ => by cases hn)
  · exact s_ranked_of _ rfl (fun n sc hn _ => by cases hn) (fun n sc hn _ => by cases hn)
  · refine s_ranked_of _ rfl (fun n sc hn hp => ?_) (fun n sc hn _ => by cases hn)
    cases hn
    exact s_progs_mid (fun x => rfl) sc hp
  · refine s_ranked_of _ rfl (fun n sc hn hp => ?_) (fun n sc hn hp => ?_)
    · cases hn; exact s_progs_mid (fun x => rfl) sc hp
    · cases hn; exact s_progs_top (fun x => rfl) sc hp

theorem mem_worldsOf_snoc (n : Nat) (d : Defects) (op : UserOp) : ∀ (ops : List UserOp) (w w' : World),
    w' ∈ worldsOf n d w (ops ++ [op]) ↔
      w' ∈ worldsOf n d w ops ∨ w' = (applyOp d n op (ops.foldl (fun w op => (applyOp d n op w).2) w)).2
  | [], w, w' => by simp [worldsOf]
  | o :: ops, w, w' => by
    simp only [List.cons_append, worldsOf, List.mem_cons, List.foldl_cons]
    rw [mem_worldsOf_snoc n d op ops]
    exact or_assoc.symm

theorem opsOk_snoc (n : Nat) (op : UserOp) : ∀ (ops : List UserOp) (w : World),
    OpsOk n w (ops ++ [op]) ↔ OpsOk n w ops ∧ OpOk (ops.foldl (fun w op => (applyOp {} n op w).2) w) op
  | [], w => by simp [OpsOk]
  | o :: ops, w => by
    simp only [List.cons_append, OpsOk, List.foldl_cons]
    rw [opsOk_snoc n op ops]
    exact and_assoc.symm

theorem sPre_opsOk : OpsOk 3 (initWorld sRules) sPre := by
  refine ⟨?_, ?_, trivial, trivial, trivial, trivial⟩
  · intro t dof _ n hn; cases hn
  · intro t dof _ n hn; cases hn

theorem sPre_btw : Btw sRank (sW sPre) ∧ (sW sPre).rules = sRules :=
  history_btw s_rankLt sPre (initWorld sRules) (Btw_init s_rulesOk (sPre_ranked _ (worldsOf_head 3 {} _ sPre))) rfl
    sPre_plain sPre_ranked sPre_opsOk ⟨trivial, trivial, trivial, trivial, trivial, trivial⟩

/-- The history up to and including the first build of `top`. -/
theorem sOps0_eq : sOps0 = sPre ++ [.cmd (.ifchange [4] false)] := rfl

theorem sW_snoc (ops : List UserOp) (op : UserOp) : sW (ops ++ [op]) = (applyOp {} 3 op (sW ops)).2 := by
  unfold sW; rw [List.foldl_append]; rfl

theorem sOps0_btw : Btw sRank (sW sOps0) ∧ (sW sOps0).rules = sRules := by
  rw [sOps0_eq, sW_snoc]
  obtain ⟨a1, a2⟩ := runCmd_btw {} rfl rfl s_rankLt sPre_btw.1 (.ifchange [4] false) trivial
  exact ⟨a1, a2.trans sPre_btw.2⟩

theorem sOps0_ranked : ∀ w ∈ worldsOf 3 {} (initWorld sRules) sOps0, Ranked sRank w := by
  intro w hw
  rw [sOps0_eq, mem_worldsOf_snoc] at hw
  rcases hw with hw | rfl
  · exact sPre_ranked w hw
  · have := sOps0_btw.1.ranked
    rw [sOps0_eq, sW_snoc] at this
    exact this

theorem sOps0_plain : ∀ op ∈ sOps0, PlainOpS sRules op := by
  intro op hop
  rw [sOps0_eq, List.mem_append] at hop
  rcases hop with hop | hop
  · exact sPre_plain op hop
  · simp only [List.mem_singleton] at hop; subst hop; trivial

/-- The hypotheses of `noStaleStamp_partial` for the history `sOps0` followed by one more operation `x`. -/
theorem redoKOk_snoc (n : Nat) (op : UserOp) : ∀ (ops : List UserOp) (w : World),
    S.RedoKOk n w (ops ++ [op]) ↔ S.RedoKOk n w ops ∧ OpCmdOk n (ops.foldl (fun w op => (applyOp {} n op w).2) w) op
  | [], w => by simp [S.RedoKOk]
  | o :: ops, w => by
    simp only [List.cons_append, S.RedoKOk, List.foldl_cons]
    rw [redoKOk_snoc n op ops]
    exact and_assoc.symm

theorem sFull_hyps (x : UserOp) (hx : PlainOpS sRules x) (hxc : OpCmdOk 3 (sW sOps0) x) (hxo : OpOk (sW sOps0) x)
    (hrk : Ranked sRank (applyOp {} 3 x (sW sOps0)).2) :
    (∀ op ∈ sOps0 ++ [x], PlainOpS sRules op) ∧
    (∀ w ∈ worldsOf 3 {} (initWorld sRules) (sOps0 ++ [x]), Ranked sRank w) ∧
    OpsOk 3 (initWorld sRules) (sOps0 ++ [x]) ∧ RedoKOk 3 (initWorld sRules) (sOps0 ++ [x]) := by
  refine ⟨fun op hop => ?_, fun w hw => ?_, ?_, ?_⟩
  · rcases List.mem_append.1 hop with h | h
    · exact sOps0_plain op h
    · simp only [List.mem_singleton] at h; subst h; exact hx
  · rcases (mem_worldsOf_snoc 3 {} x sOps0 _ w).1 hw with h | rfl
    · exact sOps0_ranked w h
    · exact hrk
  · refine (opsOk_snoc 3 x sOps0 _).2 ⟨?_, hxo⟩
    rw [sOps0_eq]
    exact (opsOk_snoc 3 _ sPre _).2 ⟨sPre_opsOk, trivial⟩
  · refine (redoKOk_snoc 3 x sOps0 _).2 ⟨?_, hxc⟩
    rw [sOps0_eq]
    exact (redoKOk_snoc 3 _ sPre _).2 ⟨⟨trivial, trivial, trivial, trivial, trivial, trivial⟩, trivial⟩

theorem s_ranked_setFile (f : Nat) (hf : f ≠ 1 ∧ f ≠ 2) (w : World) (h : Ranked sRank w) (hr : w.rules = sRules)
    (w' : World) (hr' : w'.rules = w.rules) (hp' : w'.progs = w.progs) (hfs : ∀ x, x ≠ f → w'.fs x = w.fs x) :
    Ranked sRank w' := by
  refine ranked_frame h hr' hp' (fun t dof hd => hfs dof ?_)
  rw [hr] at hd; unfold sRules at hd
  split at hd
  · simp at hd; subst hd; exact fun e => hf.1 e.symm
  · split at hd
    · simp at hd; subst hd; exact fun e => hf.2 e.symm
    · simp at hd

end RedoModel.Deps.S
