import RedoModel.Lemmas.DepsQuiet9
/-! Building a target outside a settled set `S` leaves `S` settled and runs no member: scripts, `start_self`. -/
namespace RedoModel.Deps.Rich
open RedoModel.Generated

/-- The context of a `redo-ifchange` of run `R'` whose calling script (if any) is not a member. -/
def CxOk (R' : Nat) (S : Nat → Prop) (cx : Ctx) : Prop :=
  cx.runid = R' ∧ cx.isRedo = false ∧ ∀ p, cx.parent = some p → ¬ S p

/-- What a nested `redo-ifchange` must satisfy. -/
def FSpec (R' : Nat) (S : Nat → Prop) (E : Engine) : Prop :=
  ∀ cx ts w, CxOk R' S cx → SSet R' S w → SRel R' S w (E.ifchangeCmd cx ts w).2

theorem SSet.not0 {R' S w} (hq : SSet R' S w) : ¬ S alwaysId := fun h => (hq _ h).ne0 rfl

theorem findDoFile_srel {R' S} {t : Nat} (ht : ¬ S t) : ∀ (cs : List Nat) (w : World),
    SRel R' S w (findDoFile t cs w).2
  | [], w => by rw [findDoFile]; exact SRel.refl _ _ _
  | c :: cs, w => by
    rw [findDoFile]
    split
    · exact SRel.addDep w c true ht
    · exact (SRel.addDep w c false ht).trans (findDoFile_srel ht cs _)

theorem findDoFile_some_ne_nil {t : Nat} {cs : List Nat} {w : World} {dof : Nat}
    (h : (findDoFile t cs w).1 = some dof) : cs ≠ [] := by
  rintro rfl
  simp [findDoFile] at h

theorem foldl_addDep_srel {R' S} {p : Nat} (m : Bool) (hp : ¬ S p) : ∀ (ts : List Nat) (w : World),
    SRel R' S w (ts.foldl (fun w t => Deps.addDep w p t m) w)
  | [], w => SRel.refl _ _ _
  | t :: ts, w => by
    rw [List.foldl_cons]
    exact (SRel.addDep w t m hp).trans (foldl_addDep_srel m hp ts _)

theorem conds_srel {R' S} (E : Engine) (hE : FSpec R' S E) {t : Nat} (ht : ¬ S t) {cx' : Ctx} (hcx : CxOk R' S cx') :
    ∀ (fs : List Nat) (w : World), SSet R' S w → SRel R' S w (runScript.conds E t cx' fs w).2
  | [], w, _ => by rw [runScript.conds]; exact SRel.refl _ _ _
  | f :: fs, w, hq => by
    rw [runScript.conds]
    split
    · have h := hE cx' [f] w hcx hq
      generalize E.ifchangeCmd cx' [f] w = r at h
      obtain ⟨rv, w1⟩ := r
      split
      · rename_i heq
        cases heq
        exact h.trans (conds_srel E hE ht hcx fs _ (hq.step h))
      · rename_i heq
        cases heq
        exact h
    · have h := SRel.addDep (R' := R') (S := S) w f false ht
      exact h.trans (conds_srel E hE ht hcx fs _ (hq.step h))

theorem cmds_srel {R' S} (E : Engine) (hE : FSpec R' S E) (cx : Ctx) (t : Nat) {cx' : Ctx} (hcx : CxOk R' S cx') :
    ∀ (cs : List (List Nat)) (k : Nat) (w : World), SSet R' S w → SRel R' S w (runScript.cmds E cx t cx' cs k w).2
  | [], k, w, _ => by rw [runScript.cmds]; exact SRel.refl _ _ _
  | c :: cs, k, w, hq => by
    rw [runScript.cmds]
    split
    · exact SRel.refl _ _ _
    · have h := hE cx' c w hcx hq
      generalize E.ifchangeCmd cx' c w = r at h
      obtain ⟨rv, w1⟩ := r
      split
      · rename_i heq
        cases heq
        exact h.trans (cmds_srel E hE cx t hcx cs _ _ (hq.step h))
      · rename_i heq
        cases heq
        exact h

theorem rsAlways_srel {R' S w} (hq : SSet R' S w) (cx : Ctx) {t : Nat} (ht : ¬ S t) (sc : Script) :
    SRel R' S w (rsAlways cx t sc w) := by
  unfold rsAlways
  split
  · exact (SRel.addDep w alwaysId true ht).trans (SRel.setRec_out _ _ hq.not0)
  · exact SRel.refl _ _ _

theorem rsFinish_srel {R' S} (w : World) (cx : Ctx) {t : Nat} (ht : ¬ S t) (sc : Script) :
    SRel R' S w (rsFinish cx t sc w).2.2 := by
  rw [rsFinish_world]
  split
  · exact SRel.refl _ _ _
  · unfold rsStampW
    dsimp only
    split
    · exact SRel.refl _ _ _
    · exact (SRel.addKnown w t).trans (SRel.setRec_out _ _ ht)

theorem rsBody_srel {R' S w} (E : Engine) (hE : FSpec R' S E) (hq : SSet R' S w) {cx : Ctx} (hcx : cx.runid = R')
    {t : Nat} (ht : ¬ S t) (sc : Script) : SRel R' S w (rsBody E cx t sc w).2.2 := by
  unfold rsBody
  dsimp only
  have hcx' : CxOk R' S (childCx cx t) := ⟨hcx, rfl, (fun p hp => by cases hp; exact ht)⟩
  unfold childCx at hcx'
  have h1 := conds_srel E hE ht hcx' sc.cond w hq
  generalize runScript.conds E t _ sc.cond w = r1 at h1
  obtain ⟨rvc, w1⟩ := r1
  dsimp only at h1 ⊢
  split
  · exact h1
  · have h2 := cmds_srel E hE cx t hcx' sc.ifchange 0 w1 (hq.step h1)
    generalize runScript.cmds E cx t _ sc.ifchange 0 w1 = r2 at h2
    obtain ⟨rv, w2⟩ := r2
    dsimp only at h2 ⊢
    split
    · exact h1.trans h2
    · exact (h1.trans h2).trans (rsFinish_srel w2 cx ht sc)

theorem runScript_srel {R' S w} (E : Engine) (hE : FSpec R' S E) (d : Defects) (hq : SSet R' S w) {cx : Ctx}
    (hcx : cx.runid = R') {t : Nat} (ht : ¬ S t) (sc : Script) : SRel R' S w (runScript E d cx t sc w).2.2 := by
  rw [runScript_eq]
  have h1 := rsAlways_srel hq cx ht sc
  split
  · exact h1
  · have h2 := h1.trans (foldl_addDep_srel false ht sc.ifcreate _)
    exact h2.trans (rsBody_srel E hE (hq.step h2) hcx ht sc)

theorem recordNewState_srel {R' S} (w : World) (cx : Ctx) {t : Nat} (ht : ¬ S t) (hr : w.rules t ≠ []) (sf : Rec)
    (rv : Status) (out : Option Content) : SRel R' S w (recordNewState cx t sf rv out w).2 := by
  unfold recordNewState
  split
  · cases out with
    | none =>
      exact ((SRel.setFile w none ht hr).trans (SRel.zapDeps2 _ ht)).trans (SRel.setRec_out _ _ ht)
    | some c =>
      exact (((SRel.clock w (w.clock + 1)).trans (SRel.setFile _ _ ht hr)).trans (SRel.zapDeps2 _ ht)).trans
        (SRel.setRec_out _ _ ht)
  · exact (SRel.zapDeps2 w ht).trans (SRel.setRec_out _ _ ht)

theorem ssGuard_srel {R' S} (w : World) (cx : Ctx) {t : Nat} (ht : ¬ S t) (sf : Rec) :
    SRel R' S w (ssGuard cx t sf w).2 := by
  unfold ssGuard
  split
  · exact (SRel.evWarn w t).trans (SRel.setRec_out _ _ ht)
  · exact SRel.refl _ _ _

theorem ssRun_srel {R' S w3} (E : Engine) (hE : FSpec R' S E) (d : Defects) (hq : SSet R' S w3) {cx : Ctx}
    (hcx : cx.runid = R') {t : Nat} (ht : ¬ S t) (hr : w3.rules t ≠ []) (sf : Rec) (sc : Script) :
    SRel R' S w3 (match runScript E d cx t sc w3 with
      | (rv, out, w) => if rv = CRASHED then (CRASHED, w) else recordNewState cx t sf rv out w).2 := by
  have h4 := runScript_srel E hE d hq hcx ht sc
  generalize runScript E d cx t sc w3 = r4 at h4
  obtain ⟨rv, out, w4⟩ := r4
  dsimp only at h4 ⊢
  split
  · exact h4
  · exact h4.trans (recordNewState_srel w4 cx ht (by rw [h4.rules]; exact hr) sf rv out)

theorem ssBuild_srel {R' S w} (E : Engine) (hE : FSpec R' S E) (d : Defects) (hq : SSet R' S w) {cx : Ctx}
    (hcx : cx.runid = R') {t : Nat} (ht : ¬ S t) (sf : Rec) : SRel R' S w (ssBuild E d cx t sf w).2 := by
  subst hcx
  unfold ssBuild
  dsimp only
  have h1 : SRel cx.runid S w (findDoFile t ((zapDeps1 w t).rules t) (zapDeps1 w t)).2 :=
    (SRel.zapDeps1 w ht).trans (findDoFile_srel ht _ _)
  have hne : ∀ dof, (findDoFile t ((zapDeps1 w t).rules t) (zapDeps1 w t)).1 = some dof → w.rules t ≠ [] :=
    fun dof h => findDoFile_some_ne_nil h
  generalize findDoFile t ((zapDeps1 w t).rules t) (zapDeps1 w t) = r at h1 hne
  obtain ⟨o, w1⟩ := r
  dsimp only at h1 hne
  cases o with
  | none =>
    dsimp only
    split <;> exact h1.trans (SRel.setRec_out _ _ ht)
  | some dof =>
    have hq1 := hq.step h1
    have h2 := h1.trans (SRel.setStatic hq1 dof)
    have h3 := h2.trans (SRel.evRan _ ht)
    exact h3.trans (ssRun_srel E hE d (hq.step h3) rfl ht (by rw [h3.rules]; exact hne dof rfl) sf _)

theorem startSelf_srel {R' S w} (E : Engine) (hE : FSpec R' S E) (d : Defects) (hq : SSet R' S w) {cx : Ctx}
    (hcx : cx.runid = R') {t : Nat} (ht : ¬ S t) (sf0 : Rec) : SRel R' S w (startSelf E d cx t sf0 w).2 := by
  rw [startSelf_eq]
  have hk := ssGuard_srel (R' := R') (S := S) w cx ht sf0
  generalize ssGuard cx t sf0 w = g at hk
  obtain ⟨sf, w1⟩ := g
  dsimp only at hk ⊢
  split
  · exact hk.trans (SRel.setRec_out _ _ ht)
  · exact hk.trans (ssBuild_srel E hE d (hq.step hk) hcx ht sf)

end RedoModel.Deps.Rich
