import RedoModel.LogFollow
/-!
# `redo-log --follow` — basic facts and the prefix invariant (all interleavings, also with `create`)

`Pre s`: what the follower has shown is exactly the first `pos` lines of the instance its descriptor refers to.
-/
namespace RedoModel.LogFollow

/-! ### `appendLast`, `getD` -/

theorem appendLast_length (I : List (List Nat)) (l : Nat) : (appendLast I l).length = I.length := by
  fun_induction appendLast I l <;> simp_all

theorem appendLast_eq_nil (I : List (List Nat)) (l : Nat) : appendLast I l = [] ↔ I = [] := by
  fun_induction appendLast I l <;> simp_all

theorem appendLast_getD (I : List (List Nat)) (l : Nat) :
    ∀ g, (appendLast I l).getD g [] = if g + 1 = I.length then I.getD g [] ++ [l] else I.getD g [] := by
  fun_induction appendLast I l with
  | case1 => intro g; simp
  | case2 x l =>
    intro g
    cases g with
    | zero => simp
    | succ n => simp
  | case3 x y r l ih =>
    intro g
    cases g with
    | zero => simp
    | succ n => simpa using ih n

theorem getD_append_left (I J : List (List Nat)) (g : Nat) (h : g < I.length) : (I ++ J).getD g [] = I.getD g [] := by
  simp [List.getD_eq_getElem?_getD, List.getElem?_append_left h]

/-- The last instance, by index. -/
theorem getD_last (I : List (List Nat)) : I.getD (I.length - 1) [] = I.getLast?.getD [] := by
  simp [List.getD_eq_getElem?_getD, List.getLast?_eq_getElem?]

theorem current_append (s : Sys) (l : Nat) (h : s.insts ≠ []) :
    (appendLast s.insts l).getLast?.getD [] = s.insts.getLast?.getD [] ++ [l] := by
  have hl := appendLast_length s.insts l
  have hpos : 0 < s.insts.length := List.length_pos_iff.mpr h
  rw [← getD_last, ← getD_last, hl, appendLast_getD]
  have : s.insts.length - 1 + 1 = s.insts.length := by omega
  simp [this]

/-! ### `run` -/

theorem run_append (s : Sys) (es es' : List Ev) :
    run s (es ++ es') = match run s es with | none => none | some s' => run s' es' := by
  induction es generalizing s with
  | nil => rfl
  | cons e es ih =>
    simp only [List.cons_append, run]
    cases step s e with
    | none => rfl
    | some s1 => exact ih s1

theorem run_append_some {s s1 s2 : Sys} {es es' : List Ev} (h1 : run s es = some s1) (h2 : run s1 es' = some s2) :
    run s (es ++ es') = some s2 := by
  rw [run_append, h1]; exact h2

theorem run_append_inv {s s2 : Sys} {es es' : List Ev} (h : run s (es ++ es') = some s2) :
    ∃ s1, run s es = some s1 ∧ run s1 es' = some s2 := by
  rw [run_append] at h
  cases h1 : run s es with
  | none => rw [h1] at h; cases h
  | some s1 => rw [h1] at h; exact ⟨s1, rfl, h⟩

/-- An invariant of single steps is an invariant of runs. -/
theorem run_induct (P : Sys → Prop) (ok : Ev → Prop)
    (hstep : ∀ s e s', P s → ok e → step s e = some s' → P s')
    {s s' : Sys} {es : List Ev} (h : run s es = some s') (hok : ∀ e ∈ es, ok e) (hp : P s) : P s' := by
  induction es generalizing s with
  | nil => simp only [run, Option.some.injEq] at h; exact h ▸ hp
  | cons e es ih =>
    simp only [run] at h
    cases hs : step s e with
    | none => rw [hs] at h; cases h
    | some s1 =>
      rw [hs] at h
      exact ih h (fun e' he' => hok e' (List.mem_cons_of_mem _ he'))
        (hstep s e s1 hp (hok e List.mem_cons_self) hs)

/-! ### The prefix invariant -/

/-- The descriptor's index is valid, the position is inside the instance, and what was shown (oldest first) is the
first `pos` lines of that instance.  Nothing open: nothing shown. -/
def Pre (s : Sys) : Prop :=
  match s.opened with
  | some g => g < s.insts.length ∧ s.pos ≤ (s.insts.getD g []).length ∧
      s.emitted.reverse = (s.insts.getD g []).take s.pos
  | none => s.emitted = []

theorem Pre_enter (insts : List (List Nat)) (ph : Phase) : Pre (enter insts ph) := by
  simp [Pre, enter]

theorem Pre_step (s : Sys) (e : Ev) (s' : Sys) (hp : Pre s) (h : step s e = some s') : Pre s' := by
  cases e with
  | lock =>
    simp only [step] at h; split at h
    · cases h; exact hp
    · cases h
  | unlock =>
    simp only [step] at h; split at h
    · cases h
    · cases h; exact hp
  | create =>
    simp only [step] at h; split at h
    · cases h
      unfold Pre at hp ⊢
      dsimp only at hp ⊢
      split at hp
      · next g hg =>
        obtain ⟨h1, h2, h3⟩ := hp
        simp only [List.length_append, List.length_cons, List.length_nil, getD_append_left _ _ _ h1]
        exact ⟨by omega, h2, h3⟩
      · exact hp
    · cases h
  | append l =>
    simp only [step] at h; split at h
    · cases h
      unfold Pre at hp ⊢
      dsimp only at hp ⊢
      split at hp
      · next g hg =>
        obtain ⟨h1, h2, h3⟩ := hp
        simp only [appendLast_length, appendLast_getD]
        refine ⟨h1, ?_, ?_⟩
        · split
          · simp only [List.length_append, List.length_cons, List.length_nil]; omega
          · exact h2
        · split
          · rw [List.take_append_of_le_length h2]; exact h3
          · exact h3
      · exact hp
    · cases h
  | fol =>
    simp only [step] at h
    split at h
    · cases h; exact hp
    · split at h
      · cases h; exact hp
      · next hnone =>
        split at h
        · cases h; exact hp
        · next hne =>
          cases h
          unfold Pre at hp ⊢
          simp only [hnone] at hp
          have : s.insts ≠ [] := by intro h0; simp [h0] at hne
          have hpos : 0 < s.insts.length := List.length_pos_iff.mpr this
          dsimp only
          exact ⟨by omega, Nat.zero_le _, by simp [hp]⟩
    · unfold Pre at hp ⊢
      split at h
      · next l hl =>
        cases h
        dsimp only at hl ⊢
        split at hl
        · next g hg =>
          simp only [hg] at hp ⊢
          obtain ⟨h1, h2, h3⟩ := hp
          have hlt : s.pos < (s.insts.getD g []).length := by
            rcases List.getElem?_eq_some_iff.mp hl with ⟨hlt, _⟩; exact hlt
          refine ⟨h1, hlt, ?_⟩
          rw [List.reverse_cons, h3, List.take_add_one, hl]; rfl
        · cases hl
      · split at h <;> (cases h; exact hp)
    · cases h; exact hp
    · cases h

theorem Pre_run {s s' : Sys} {es : List Ev} (h : run s es = some s') (hp : Pre s) : Pre s' :=
  run_induct Pre (fun _ => True) (fun s e s' hp _ h => Pre_step s e s' hp h) h (fun _ _ => trivial) hp

/-- Main statement 1. -/
theorem follow_prefix_core (insts : List (List Nat)) (ph : Phase) (es : List Ev) (s : Sys)
    (h : run (enter insts ph) es = some s) :
    (∀ g, s.opened = some g → g < s.insts.length ∧ s.pos ≤ (s.insts.getD g []).length ∧
        s.emitted.reverse = (s.insts.getD g []).take s.pos) ∧
    (s.opened = none → s.emitted = []) := by
  have hp := Pre_run h (Pre_enter insts ph)
  unfold Pre at hp
  constructor
  · intro g hg; simpa [hg] using hp
  · intro hg; simpa [hg] using hp

end RedoModel.LogFollow
