import RedoModel.Lemmas.DepsOodUp2
/-!
# redo-ood, upper bound — part 3: what `redo-ood` lists is not found clean by the next command's check; exactness
-/
namespace RedoModel.Deps

theorem isCheckedR_fresh {w : World} (hwf : WF w) {R : Nat} (hR : w.runCounter < R) (g : Nat) :
    isCheckedR (getRec w R g) R = false := by
  have hf : (getRec w R g).checked = (w.recs g).checked := by
    simp only [getRec]; split <;> rfl
  obtain ⟨h1, _, _⟩ := hwf g
  unfold isCheckedR
  rw [hf]
  cases hx : (w.recs g).checked with
  | none => rfl
  | some c =>
    have := h1 c hx
    simp only [Bool.and_eq_false_imp, bne_iff_ne, ne_eq, decide_eq_false_iff_not]
    intro _; omega

/-- The builder's check of a later run answering "clean" yields a `PC` derivation for the run id of the query. -/
theorem builder_clean_pc {w : World} (hwf : WF w) (w2 : World) (hfs : w2.fs = w.fs) (hrecs : w2.recs = w.recs)
    (hdeps : w2.deps = w.deps) (t fuel : Nat)
    (hcl : (isDirty false (w.runCounter + 2) fuel w2 [] t (w.runCounter + 2) [] none).1 = .clean) :
    PC w (w.runCounter + 1) t (w.runCounter + 1) := by
  have hfresh : ∀ g, isCheckedR (getRec w2 (w.runCounter + 2) g) (w.runCounter + 2) = false := fun g => by
    have : getRec w2 (w.runCounter + 2) g = getRec w (w.runCounter + 2) g := by simp [getRec, hrecs]
    rw [this]; exact isCheckedR_fresh hwf (by omega) g
  have h := isDirty_builder_pc w2 (w.runCounter + 2) (by omega) hfresh fuel w2 [] t (w.runCounter + 2) [] none
    (GInv.refl _ _) (fun s hs => by cases hs)
  have hpc2 : PC w2 (w.runCounter + 2) t (w.runCounter + 2) := h.2.1 hcl
  have hpc : PC w (w.runCounter + 2) t (w.runCounter + 2) :=
    PC.congr (w := w2) (w2 := w) hfs.symm hrecs.symm hdeps.symm hpc2
  exact hpc.shift hwf (by omega) (by omega) (Nat.le_refl _) _ (fun h => absurd h (Nat.lt_irrefl _))
    (fun _ => Nat.le_refl _)

/-- **Upper bound (core)**: what `redo-ood` lists is a known target that the check of the following command (run id
`runCounter + 2`; any world with the files, records and rows of `w`) does not find clean. -/
theorem ood_upper_core (d : Defects) (n : Nat) (w : World) (hwf : WF w) {Fu : Nat → List Nat → Nat → Prop}
    (hF : FuelCert { w with runCounter := w.runCounter + 1 } (w.runCounter + 1) Fu)
    (hfu : ∀ t, t < n → Fu (2 * n + 4) [] t) (t : Nat) (ht : t ∈ (runCmd d n .ood w).1.listing)
    (w2 : World) (hfs : w2.fs = w.fs) (hrecs : w2.recs = w.recs) (hdeps : w2.deps = w.deps) (fuel : Nat) :
    (t < n ∧ known w t = true ∧ isTarget w (w.runCounter + 1) t = true) ∧
    (isDirty false (w.runCounter + 2) fuel w2 [] t (w.runCounter + 2) [] none).1 ≠ .clean := by
  obtain ⟨h1, h2⟩ := ood_listed_notPC d n w hF hfu t ht
  exact ⟨h1, fun hcl => h2 (builder_clean_pc hwf w2 hfs hrecs hdeps t fuel hcl)⟩

/-- `should_build` of a fresh run answers "clean" exactly when the walk does. -/
theorem shouldBuild_clean_iff {w : World} (hwf : WF w) (w2 : World) (hrecs : w2.recs = w.recs)
    (cx : Ctx) (hredo : cx.isRedo = false) (hR : w.runCounter < cx.runid) (fuel t : Nat) :
    (shouldBuild cx fuel t w2).1 = some .clean ↔ (isDirty false cx.runid fuel w2 [] t cx.runid [] none).1 = .clean := by
  refine ⟨fun h => ?_, shouldBuild_clean_of_isDirty hwf w2 hrecs cx hredo hR fuel t⟩
  unfold shouldBuild at h
  simp only [hredo, Bool.false_eq_true, if_false] at h
  have hg : getRec w2 cx.runid t = getRec w cx.runid t := by simp [getRec, hrecs]
  rw [hg, isFailedR_fresh hwf hR] at h
  simp only [Bool.false_eq_true, if_false] at h
  generalize isDirty false cx.runid fuel w2 [] t cx.runid [] none = r at h ⊢
  obtain ⟨dr, w3, c⟩ := r
  dsimp only at h ⊢
  cases dr with
  | clean => rfl
  | dirty => cases h
  | cyclic => cases h
  | need ts =>
    exfalso
    split at h
    · split at h <;> cases h
    · cases h

theorem ood_upper_shouldBuild_core (d : Defects) (n : Nat) (w : World) (hwf : WF w)
    {Fu : Nat → List Nat → Nat → Prop}
    (hF : FuelCert { w with runCounter := w.runCounter + 1 } (w.runCounter + 1) Fu)
    (hfu : ∀ t, t < n → Fu (2 * n + 4) [] t) (t : Nat) (ht : t ∈ (runCmd d n .ood w).1.listing) (kg : Bool)
    (hro : (runCmd d n .ood w).2.fs = w.fs ∧ (runCmd d n .ood w).2.recs = w.recs ∧
      (runCmd d n .ood w).2.deps = w.deps ∧ (runCmd d n .ood w).2.runCounter = w.runCounter + 1 ∧
      (runCmd d n .ood w).1.status = 0) :
    (shouldBuild { runid := (allocRun (runCmd d n .ood w).2).1, keepGoing := kg } (2 * n + 4) t
      (allocRun (runCmd d n .ood w).2).2).1 ≠ some .clean := by
  have hrc : (allocRun (runCmd d n .ood w).2).1 = w.runCounter + 2 := by simp [allocRun, hro.2.2.2.1]
  rw [hrc]
  intro hcl
  have := (shouldBuild_clean_iff hwf (allocRun (runCmd d n .ood w).2).2 hro.2.1
    { runid := w.runCounter + 2, keepGoing := kg } rfl (by show w.runCounter < w.runCounter + 2; omega) _ t).1 hcl
  exact (ood_upper_core d n w hwf hF hfu t ht (allocRun (runCmd d n .ood w).2).2 hro.1 hro.2.1 hro.2.2.1 _).2 this

end RedoModel.Deps
