import RedoModel.Lemmas.DepsSoundS2
import RedoModel.Core.Build
/-! Consequences of the invariant for verified files: their script, their cone. -/
namespace RedoModel.Deps.S

theorem Base.Mof_le {rank R w} (hb : Base rank R X w) (u : Nat) : Mof (w.recs u) ≤ R := by
  unfold Mof
  have h1 : (w.recs u).changed.getD 0 ≤ R := by
    cases h : (w.recs u).changed with
    | none => simp
    | some c => simpa using hb.chLe u c h
  have h2 : (w.recs u).checked.getD 0 ≤ R := by
    cases h : (w.recs u).checked with
    | none => simp
    | some c => simpa using hb.ckLe u c h
  exact Nat.max_le.2 ⟨h1, h2⟩

theorem Mof_eq_R {R : Nat} {r : Rec} (h : Mof r = R) (hR : 0 < R) : r.changed = some R ∨ r.checked = some R := by
  unfold Mof at h
  cases hc : r.changed with
  | none =>
    cases hk : r.checked with
    | none => rw [hc, hk] at h; simp at h; omega
    | some k => rw [hc, hk] at h; simp at h; right; rw [h]
  | some c =>
    cases hk : r.checked with
    | none => rw [hc, hk] at h; simp at h; left; rw [h]
    | some k =>
      rw [hc, hk] at h; simp only [Option.getD_some] at h
      rcases Nat.le_total c k with hck | hck
      · right; rw [← h, Nat.max_eq_right hck]
      · left; rw [← h, Nat.max_eq_left hck]

theorem VerR.Mof_eq {rank R w f} (hb : Base rank R X w) (hv : VerR w R f) : Mof (w.recs f) = R := by
  have hle := hb.Mof_le f
  unfold Mof at hle ⊢
  rcases hv.2 with h | h
  · rw [h] at hle ⊢; simp only [Option.getD_some] at hle ⊢; omega
  · rw [h] at hle ⊢; simp only [Option.getD_some] at hle ⊢; omega

theorem RecCur.notDetectS {rank R w d} (hb : Base rank R X w) (hc : RecCur w d) : ¬ DetectS w R d := by
  rintro (h | ⟨ch, h1, h2⟩ | h | h)
  · exact hc.2.1 h
  · have := hb.chLe d ch h1; omega
  · exact h hc.2.2
  · exact h.1 hc.1

theorem Good.recCur {rank R w d} (hi : Inv rank R X w) (hg : Good w R d) : RecCur w d := by
  rcases hg with hv | ⟨hc, _⟩
  · exact (hi.ver d hv).1
  · exact hc

theorem Good.notDetectM {rank R w d} (hi : Inv rank R X w) (hg : Good w R d) : ¬ DetectM w R d := by
  have hc := hg.recCur hi
  rintro (h | h | h | h)
  · exact h hc.1
  · exact hc.notDetectS hi.base (Or.inl h)
  · exact hc.notDetectS hi.base (Or.inr (Or.inl h))
  · exact hc.notDetectS hi.base (Or.inr (Or.inr (Or.inl h)))

/-- A current record of a file redo does not own: the file exists. -/
theorem static_exists {rank R w d} (hb : Base rank R X w) (hc : RecCur w d) (hg : (w.recs d).isGenerated = false) :
    existsF w d = true := by
  have h1 := hb.staticEx d hc.1 hg
  rw [hc.2.2] at h1
  cases hx : existsF w d with
  | true => rfl
  | false =>
    exfalso; apply h1
    rw [readStamp_missing.2 (existsF_eq_false.1 hx)]

theorem HasRow.good {rank R w x s} (hi : Inv rank R X w) (hv : VerR w R x) (hg : (w.recs x).isGenerated = true)
    (h : HasRow w x s true) : Good w R s := by
  obtain ⟨d, hd, h1, h2, h3⟩ := h
  have := ((hi.ver x hv).2.2 hg d hd h1).1 h3
  rwa [h2] at this

theorem HasRow.absent {rank R w x s} (hi : Inv rank R X w) (hv : VerR w R x) (hg : (w.recs x).isGenerated = true)
    (h : HasRow w x s false) : existsF w s = false := by
  obtain ⟨d, hd, h1, h2, h3⟩ := h
  have := ((hi.ver x hv).2.2 hg d hd h1).2 h3
  rwa [h2] at this

/-- The script of a verified generated target is the one in place, its declared files are good, and its
content is what that script produces from their current contents. -/
theorem verR_script {rank R w x} (hi : Inv rank R X w) (hv : VerR w R x) (hg : (w.recs x).isGenerated = true) :
    ∃ pre dof post, w.rules x = pre ++ dof :: post ∧ (∀ c ∈ pre, existsF w c = false ∧ HasRow w x c false) ∧
      existsF w dof = true ∧ Good w R dof ∧ HasRow w x dof true ∧ firstEx w (w.rules x) = some dof ∧
      (∀ d ∈ (scriptAt w dof).reads, Good w R d ∧ HasRow w x d true) ∧ (scriptAt w dof).exit = 0 ∧
      contentOf w x = outOf w (scriptAt w dof) := by
  have hrc := (hi.ver x hv).1
  obtain ⟨pre, dof, post, sc, hr, hpre, hdof, hreads, hexit, hsc, cs, hcont, hlen, hz⟩ := hi.base.recA x (Or.inr hv) hrc hg
  have hM := hv.Mof_eq hi.base
  rw [hM] at hsc hz
  have hgd : Good w R dof := hdof.good hi hv hg
  have hnd : ¬ DetectS w R dof := (hgd.recCur hi).notDetectS hi.base
  obtain ⟨hex, hsceq⟩ : existsF w dof = true ∧ scriptAt w dof = sc := by
    rcases hsc with h | h
    · exact h
    · exact absurd h hnd
  have hpre' : ∀ c ∈ pre, existsF w c = false ∧ HasRow w x c false :=
    fun c hc => ⟨(hpre c hc).absent hi hv hg, hpre c hc⟩
  have hgr : ∀ d ∈ sc.reads, Good w R d := fun d hd => (hreads d hd).good hi hv hg
  have hall : ∀ p ∈ List.zip sc.reads cs, p.2 = contentOf w p.1 := by
    intro p hp
    by_cases he : p.2 = contentOf w p.1
    · exact he
    · exact absurd ((hz p hp).1 he) (((hgr p.1 (P.zip_fst_mem _ _ p hp)).recCur hi).notDetectS hi.base)
  have hcs := P.zip_all_eq (contentOf w) sc.reads cs hlen hall
  refine ⟨pre, dof, post, hr, hpre', hex, hgd, hdof, ?_, ?_, ?_, ?_⟩
  · rw [hr]; exact firstEx_split pre dof post (fun c hc => (hpre' c hc).1) hex
  · rw [hsceq]; exact fun d hd => ⟨hgr d hd, hreads d hd⟩
  · rw [hsceq]; exact hexit
  · rw [hsceq, hcont, hcs]; rfl

theorem existsF_of_contentOf {w w' : World} {f : Nat} (h : contentOf w' f = contentOf w f) :
    existsF w' f = existsF w f := by
  unfold contentOf at h; unfold existsF
  cases h1 : w'.fs f <;> cases h2 : w.fs f <;> simp_all

theorem scriptAt_of_contentOf {w w' : World} {f : Nat} (h : contentOf w' f = contentOf w f)
    (hp : w'.progs = w.progs) : scriptAt w' f = scriptAt w f := by
  unfold contentOf at h; unfold scriptAt
  cases h1 : w'.fs f <;> cases h2 : w.fs f <;> simp_all

theorem firstEx_of_contentOf {w w' : World} : ∀ (cs : List Nat), (∀ c ∈ cs, contentOf w' c = contentOf w c) →
    firstEx w' cs = firstEx w cs
  | [], _ => rfl
  | c :: cs, h => by
    simp only [firstEx]
    rw [existsF_of_contentOf (h c (by simp)),
      firstEx_of_contentOf cs (fun c' hc' => h c' (List.mem_cons_of_mem _ hc'))]

theorem HasRow.rank_lt {rank R w t s m} (hb : Base rank R X w) (h : HasRow w t s m) : rank s < rank t := by
  obtain ⟨d, hd, h1, h2, _⟩ := h
  have := hb.rowsLt d hd
  rwa [h1, h2] at this

/-- Good files are up to date, also in any world where good files and plain files kept their contents. -/
theorem good_upToDate {rank R w w'} (hi : Inv rank R X w) (hr : w'.rules = w.rules) (hp : w'.progs = w.progs)
    (hpl : ∀ x, w.rules x = [] → contentOf w' x = contentOf w x)
    (hfro : ∀ x, Good w R x → contentOf w' x = contentOf w x ∧ (w'.recs x).isGenerated = (w.recs x).isGenerated) :
    ∀ n x, rank x < n → Good w R x → UpToDateD w' x
  | 0, _, h, _ => by omega
  | n + 1, x, hx, hg => by
    have hrc := hg.recCur hi
    cases hgen : (w.recs x).isGenerated with
    | false =>
      refine UpToDateD.user (by rw [(hfro x hg).2]; exact hgen) ?_
      rw [existsF_of_contentOf (hfro x hg).1]; exact static_exists hi.base hrc hgen
    | true =>
      have hv : VerR w R x := by
        rcases hg with h | ⟨_, h⟩
        · exact h
        · rw [hgen] at h; cases h
      obtain ⟨pre, dof, post, hrx, hpre, hex, hgd, hrow, hfe, hreads, _, hcont⟩ := verR_script hi hv hgen
      have hplain : ∀ c ∈ w.rules x, contentOf w' c = contentOf w c :=
        fun c hc => hpl c (hi.base.rulesOk.2 x c hc).1
      have hsc : scriptAt w' dof = scriptAt w dof :=
        scriptAt_of_contentOf (hplain dof (by rw [hrx]; simp)) hp
      refine UpToDateD.target (dof := dof) ?_ ?_ ?_
      · rw [hr, firstEx_of_contentOf _ hplain]; exact hfe
      · rw [hsc]; intro d hd
        have := (hreads d hd).2.rank_lt hi.base
        exact good_upToDate hi hr hp hpl hfro n d (by omega) (hreads d hd).1
      · rw [hsc, (hfro x hg).1, hcont]
        unfold outOf
        have : (scriptAt w dof).reads.map (contentOf w') = (scriptAt w dof).reads.map (contentOf w) :=
          List.map_congr_left (fun d hd => (hfro d (hreads d hd).1).1)
        rw [this]

end RedoModel.Deps.S
