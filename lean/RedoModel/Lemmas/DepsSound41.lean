import RedoModel.Lemmas.DepsSound40
/-! Non-vacuity: a concrete plain history satisfying every hypothesis of the main theorems, ending in a real build
(target 2, built by the .do file 1 whose script declares and reads the source 5). -/
namespace RedoModel.Deps
open RedoModel.Generated

def nvScript : Script := { ifchange := [[5]], reads := [5], tag := 1 }
def nvOps : List UserOp := [.setProg [17] nvScript, .write 5 0, .write 1 7]
def nvW : World := nvOps.foldl (fun w op => (applyOp {} 2 op w).2) (initWorld cxRules)
def nvRes : Result × World := runCmd {} 2 (.ifchange [2] false) nvW

theorem nv_status : nvRes.1.status = 0 := by decide +kernel
theorem nv_ran : nvRes.2.trace = [.ran 2] := by decide +kernel

theorem nv_plainOps : ∀ op ∈ nvOps, PlainOp cxRules op := by
  intro op hop
  simp only [nvOps, List.mem_cons, List.not_mem_nil, or_false] at hop
  rcases hop with rfl | rfl | rfl
  · exact ⟨rfl, rfl, rfl, rfl, rfl, rfl⟩
  · exact ⟨by simp [cxRules], by simp [alwaysId]⟩
  · exact ⟨by simp [cxRules], by simp [alwaysId]⟩

theorem nv_ranked_of (w : World) (hr : w.rules = cxRules)
    (hp : ∀ c sc, w.progs c = some sc → sc = nvScript) : Ranked cxRank w := by
  refine ⟨fun t c hc => ?_, fun t dof hd n sc _ h => ?_⟩
  · rw [hr] at hc; unfold cxRules at hc
    split at hc
    · simp at hc; subst hc; subst_vars; simp [cxRank]
    · simp at hc
  · rw [hr] at hd; unfold cxRules at hd
    split at hd
    · have := hp _ _ h; subst this; subst_vars
      intro c hc d hdm
      simp only [nvScript, List.mem_singleton] at hc; subst hc
      simp only [List.mem_singleton] at hdm; subst hdm
      simp [cxRank]
    · simp at hd

theorem nv_progs_of (w : World) (hp : w.progs = fun x => if x = [17] then some nvScript else none) :
    ∀ c sc, w.progs c = some sc → sc = nvScript := by
  intro c sc h
  rw [hp] at h
  simp only at h
  split at h
  · exact (Option.some.inj h).symm
  · cases h

theorem nv_ranked : ∀ w ∈ worldsOf 2 {} (initWorld cxRules) nvOps, Ranked cxRank w := by
  intro w hw
  simp only [nvOps, worldsOf, List.mem_cons, List.not_mem_nil, or_false] at hw
  rcases hw with rfl | rfl | rfl | rfl
  · exact nv_ranked_of _ rfl (fun c sc h => by cases h)
  · exact nv_ranked_of _ rfl (nv_progs_of _ rfl)
  · exact nv_ranked_of _ rfl (nv_progs_of _ rfl)
  · exact nv_ranked_of _ rfl (nv_progs_of _ rfl)

theorem nv_opsOk : OpsOk 2 (initWorld cxRules) nvOps := by
  refine ⟨?_, trivial, trivial, trivial⟩
  intro t dof _ n hn
  cases hn

theorem nv_rankLt : ∀ f, cxRank f < 2 := by intro f; unfold cxRank; split <;> omega

/-- Non-vacuity of `noStalePlainD`: all hypotheses hold, the command exits 0 after really running the script. -/
example : UpToDateD nvRes.2 2 :=
  noStalePlainD 2 cxRules cxRank nvOps [2] false false cx_rulesOk nv_plainOps nv_ranked nv_rankLt nv_opsOk
    nv_status 2 (by simp)

theorem nv_meaningful : Meaningful nvRes.2 := by
  intro t dof hd nd hn
  have hr : nvRes.2.rules = cxRules := rfl
  rw [hr] at hd
  unfold cxRules at hd
  split at hd
  · simp only [List.mem_singleton] at hd; subst hd
    have h1 : nvRes.2.fs 1 = some { content := [17], ms := 2, rest := 0 } := by decide +kernel
    rw [h1] at hn; cases hn
    have h2 : nvRes.2.progs [17] = some nvScript := by decide +kernel
    rw [h2]; simp
  · simp at hd

/-- Non-vacuity of `noStalePlain_partial`. -/
example : UpToDate nvRes.2 2 :=
  noStalePlain_partial 2 cxRules cxRank nvOps [2] false false cx_rulesOk nv_plainOps nv_ranked nv_rankLt nv_opsOk
    nv_status nv_meaningful 2 (by simp)

/-- The second counterexample history violates exactly the added hypothesis `OpsOk`. -/
theorem cx2_not_opsOk : ¬ OpsOk 5 (initWorld cxRules) cx2Ops := by
  intro h
  have h4 := h.2.2.2.1
  have := h4 2 1 (by decide +kernel) { content := [17], ms := 1, rest := 0 } (by decide +kernel) rfl
  revert this
  decide +kernel

/-- The first counterexample violates exactly the added hypothesis `Meaningful`. -/
theorem cx_not_meaningful : ¬ Meaningful cxRes.2 := by
  intro h
  have h1 : cxRes.2.fs 1 = some { content := [17], ms := 1, rest := 0 } := by decide +kernel
  exact h 2 1 (by decide +kernel) _ h1 (by rw [cx_progs])

end RedoModel.Deps
