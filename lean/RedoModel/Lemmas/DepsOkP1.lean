import RedoModel.Lemmas.DepsOkP0
/-!
# C10 — plain development: `ssBuild`, `startSelf`, `buildJob`, `runTargets`, `ifchangeWith`, the engine knot
(port of `DepsOk5/6`).
-/
namespace RedoModel.Deps
open RedoModel.Generated
open Rich (Buildable FrU Tr EngineFr)

theorem buildable_casesP {w : World} {f : Nat} (h : Buildable w f) :
    UserOwned w f ∨ ((∀ c ∈ w.rules f, existsF w c = false) ∧ existsF w f = true) ∨
    ∃ dof, firstEx w (w.rules f) = some dof ∧
      (∀ d ∈ (scriptAt w dof).ifchange.flatten, Buildable w d) ∧ (scriptAt w dof).exit = 0 := by
  rcases h.cases with h | h | ⟨dof, h1, h2, _, _, h5, _⟩
  · exact Or.inl h
  · exact Or.inr (Or.inl h)
  · exact Or.inr (Or.inr ⟨dof, by rw [← firstEx_rich_eq]; exact h1, h2, h5⟩)

theorem ssBuild_succP {rank R k E t w} {cx : Ctx} {X : Nat → Prop} (hE : EOkP rank R k E) (d : Defects)
    (hcx : cx.runid = R) (hcrash : cx.crash = none) (hi : Inv rank R X w) (hng : ¬ Good w R t)
    (hXa : ∀ x, X x → rank t < rank x) (sf : Rec)
    (hcyc : ∀ c ∈ cx.cycles, rank t < rank c) (hk : rank t < k) (hnf : NoFail R w) (hB : Buildable w t)
    (hno : ¬ UserOwned w t) :
    (ssBuild E d cx t sf w).1 = 0 := by
  subst hcx
  obtain ⟨p1, p2, p3, _, _⟩ := ssb_prep hi hng
  unfold ssBuild
  simp only
  generalize findDoFile t ((zapDeps1 w t).rules t) (zapDeps1 w t) = fr at p1 p2 p3 ⊢
  obtain ⟨o, w2⟩ := fr
  dsimp only at p1 p2 p3
  have htr : Tr w w2 := trP_ofRowOp p3
  cases o with
  | none =>
    simp only
    rcases buildable_casesP hB with h | ⟨_, hex⟩ | ⟨dof, hfe, _⟩
    · exact absurd h hno
    · have : existsF w2 t = true := by rw [p3.existsF]; exact hex
      simp only [this, if_true]
    · rw [hfe] at p1; cases p1
  | some dof =>
    simp only
    obtain ⟨hdm, hdex⟩ := firstEx_mem _ _ p1.symm
    rcases buildable_casesP hB with h | ⟨hnone, _⟩ | ⟨dof', hfe, hB1, hex⟩
    · exact absurd h hno
    · rw [hnone dof hdm] at hdex; cases hdex
    · rw [hfe] at p1; cases p1
      have hsc : scriptAt w2 dof = scriptAt w dof := p3.scriptAt dof
      have run := ssb_script_succ (E := E) (cx := cx) (dof := dof) hE d rfl hcrash p2 (fun h => hng ((p3.good _ t).1 h)) hXa
        (by rw [p3.rules]; exact hdm) (by rw [p3.existsF]; exact hdex) hcyc hk
        ((hnf.eqv p3.eqv : NoFail cx.runid { w2 with deps := w.deps }))
        (by rw [hsc]; exact fun x hx => buildable_trP hi.base htr (hB1 x hx))
        (by rw [hsc]; exact hex)
      show (if (runScript E d cx t (scriptAt (ev (setRec w2 dof (setStatic w2 dof (w2.recs dof) cx.runid)) (Ev.ran t)) dof)
            (ev (setRec w2 dof (setStatic w2 dof (w2.recs dof) cx.runid)) (Ev.ran t))).fst = CRASHED then
        (CRASHED, (runScript E d cx t (scriptAt (ev (setRec w2 dof (setStatic w2 dof (w2.recs dof) cx.runid)) (Ev.ran t)) dof)
            (ev (setRec w2 dof (setStatic w2 dof (w2.recs dof) cx.runid)) (Ev.ran t))).2.snd)
      else recordNewState cx t sf
        (runScript E d cx t (scriptAt (ev (setRec w2 dof (setStatic w2 dof (w2.recs dof) cx.runid)) (Ev.ran t)) dof)
            (ev (setRec w2 dof (setStatic w2 dof (w2.recs dof) cx.runid)) (Ev.ran t))).fst
        (runScript E d cx t (scriptAt (ev (setRec w2 dof (setStatic w2 dof (w2.recs dof) cx.runid)) (Ev.ran t)) dof)
            (ev (setRec w2 dof (setStatic w2 dof (w2.recs dof) cx.runid)) (Ev.ran t))).2.fst
        (runScript E d cx t (scriptAt (ev (setRec w2 dof (setStatic w2 dof (w2.recs dof) cx.runid)) (Ev.ran t)) dof)
            (ev (setRec w2 dof (setStatic w2 dof (w2.recs dof) cx.runid)) (Ev.ran t))).2.snd).1 = 0
      generalize runScript E d cx t (scriptAt (ev (setRec w2 dof (setStatic w2 dof (w2.recs dof) cx.runid)) (Ev.ran t)) dof)
        (ev (setRec w2 dof (setStatic w2 dof (w2.recs dof) cx.runid)) (Ev.ran t)) = res at run ⊢
      obtain ⟨rv, out, w5⟩ := res
      dsimp only at run ⊢
      subst run
      simp only [CRASHED_ne_zero, if_false]
      exact recordNewState_zeroP cx t sf out w5

/-- In the plain class a file that exists and is recorded as generated carries its recorded (mtime, size). -/
theorem not_owned_plain {rank R} {X : Nat → Prop} {w : World} (hb : Base rank R X w) {t : Nat}
    (hc : ¬ (existsF w t && !(w.recs t).isGenerated) = true) : ¬ UserOwned w t := by
  rintro ⟨hex, h⟩
  obtain ⟨n, hn⟩ := existsF_eq_true.1 hex
  have hg : (w.recs t).isGenerated = true := by
    cases hg : (w.recs t).isGenerated with
    | true => rfl
    | false => exact absurd (by simp [hex, hg]) hc
  obtain ⟨rest, hst⟩ := hb.genMs t hg n hn
  rcases h with h | h | h
  · rw [hg] at h; cases h
  · rw [hb.noOvr t] at h; cases h
  · rw [hst] at h
    simp [detectOverride, readStamp, hn] at h

theorem startSelf_succP {rank R k E t w} {cx : Ctx} {X : Nat → Prop} (hE : EOkP rank R k E) (d : Defects)
    (hcx : cx.runid = R) (hcrash : cx.crash = none) (hi : Inv rank R X w)
    (hV : VerR w R t → (w.recs t).isGenerated = false) (hXa : ∀ x, X x → rank t < rank x)
    (hcyc : ∀ c ∈ cx.cycles, rank t < rank c) (hk : rank t < k) (hnf : NoFail R w) (hB : Buildable w t) :
    (startSelf E d cx t (w.recs t) w).1 = 0 := by
  rw [startSelf_eq, ssGuard_noop hi.base]
  simp only [hi.base.noOvr t, Bool.false_or, Bool.not_false]
  have hgg : Good w R t → (w.recs t).isGenerated = false := fun h => h.elim hV (fun h => h.2)
  split
  · rfl
  · rename_i hc
    refine ssBuild_succP hE d hcx hcrash hi (fun hg => hc ?_) hXa _ hcyc hk hnf hB (not_owned_plain hi.base hc)
    have hgen := hgg hg
    simp only [Bool.and_eq_true, Bool.not_eq_true']
    exact ⟨static_exists hi.base (hg.recCur hi) hgen, hgen⟩

theorem isFailedR_of_noFailP {rank R} {X : Nat → Prop} {w : World} (hb : Base rank R X w) (hnf : NoFail R w) (t : Nat) :
    isFailedR (getRec w R t) R = false := by
  unfold isFailedR
  rw [getRec_failed]
  cases hf : (w.recs t).failed with
  | none => rfl
  | some c =>
    have h1 := hb.flLe t c hf
    have h2 : c ≠ R := fun e => hnf t (by rw [hf, e])
    simp only [Bool.and_eq_false_iff, bne_eq_false_iff_eq, decide_eq_false_iff_not]
    omega

theorem buildJob_succP {rank R k E t w fuel} {cx : Ctx} {X : Nat → Prop} (hE : EOkP rank R k E) (d : Defects)
    (hcx : cx.runid = R) (hredo : cx.isRedo = false) (hcrash : cx.crash = none) (hi : Inv rank R X w)
    (hXa : ∀ x, X x → rank t < rank x)
    (hcyc : ∀ c ∈ cx.cycles, rank t < rank c) (hk : rank t < k) (hfuel : rank t < fuel) (hnf : NoFail R w)
    (hB : Buildable w t) :
    (buildJob E d cx fuel t w).1 = .done 0 := by
  have hfr := isFailedR_of_noFailP hi.base hnf t
  subst hcx
  unfold buildJob shouldBuild
  simp only [hredo, Bool.false_eq_true, if_false, hfr]
  have hsp := isDirty_spec (rank := rank) (R := cx.runid) (X := X) fuel t cx.runid [] w [] none hi
    (fun s e => by cases e) hXa
  have hgc := fun hg => good_clean (rank := rank) (R := cx.runid) (X := X) fuel t [] w [] none hi hg
    (fun s e => by cases e) hXa
  have hnc := Rich.isDirty_notCyclic rank false cx.runid fuel w [] t cx.runid [] none hi.base.rowsLt
    ⟨hfuel, fun x hx => by cases hx⟩
  have hso := isDirty_sameOwn false cx.runid fuel w [] t cx.runid [] none (fun s e => by cases e)
  generalize isDirty false cx.runid fuel w [] t cx.runid [] none = res at hsp hgc hnc hso ⊢
  obtain ⟨dr, w1, c⟩ := res
  obtain ⟨hi1, hdx, hnn, _, hown⟩ := hsp
  dsimp only at hi1 hdx hnn hown hgc hnc hso ⊢
  cases dr with
  | need ts => exact absurd rfl (hnn ts)
  | cyclic => exact absurd rfl hnc
  | clean => rfl
  | dirty =>
    have ho := hown (by intro h; cases h)
    have hown' : w1.recs t = w.recs t ∨ (w1.recs t = { w.recs t with isGenerated := false, isOverride := false, failed := some 0 } ∧ w1.fs t = none) := by
      rcases ho with h | ⟨h, hf⟩
      · exact Or.inl h
      · exact Or.inr ⟨h, by rw [congrFun hdx.same.1 t]; exact hf⟩
    have hV : VerR w1 cx.runid t → (w1.recs t).isGenerated = false := by
      intro hv
      rcases hown' with h | ⟨h, _⟩
      · exfalso
        have hv0 : VerR w cx.runid t := by unfold VerR at hv ⊢; rw [h] at hv; exact hv
        rcases hgc (Or.inl hv0) with h1 | ⟨h1, _⟩ <;> cases h1
      · rw [h]
    have hz := startSelf_succP (E := E) (cx := cx) hE d rfl hcrash hi1 hV hXa hcyc hk (hdx.noFail hi.Rpos hnf)
      (buildable_trP hi.base ⟨Rich.SameButRecs.frU hdx.same, hso.keeps⟩ hB)
    show JobResult.done (startSelf E d cx t (w.recs t) w1).1 = .done 0
    rw [startSelf_own E d cx t (w.recs t) w1 (hi.base.recOk t).noOvr hown', hz]

theorem runTargets_succP {rank R b fuel} {E : Engine} {cx : Ctx} {X : Nat → Prop} (d : Defects)
    (hK : EngineKeeps E) (hF : EngineFr E) (hcyc : ∀ c ∈ cx.cycles, b ≤ rank c) (po : Option Nat)
    (hjob : ∀ t w, Inv rank R X w → rank t < b →
      JobPostW rank R X t b po w (jrStatus (buildJob E d cx fuel t w).1, (buildJob E d cx fuel t w).2))
    (hjobS : ∀ t w, Inv rank R X w → rank t < b → NoFail R w → Buildable w t →
      (buildJob E d cx fuel t w).1 = .done 0) :
    ∀ (ts seen : List Nat) (w : World), Inv rank R X w → (∀ t ∈ ts, rank t < b) → NoFail R w →
      (∀ t ∈ ts, Buildable w t) → (runTargets E d cx fuel ts seen false w).1 = 0
  | [], seen, w, _, _, _, _ => by simp [runTargets]
  | t :: ts, seen, w, hi, hts, hnf, hB => by
    have htl : ∀ t' ∈ ts, rank t' < b := fun t' h => hts t' (List.mem_cons_of_mem _ h)
    have hBl : ∀ t' ∈ ts, Buildable w t' := fun t' h => hB t' (List.mem_cons_of_mem _ h)
    rw [runTargets]
    by_cases hin : t ∈ seen
    · simp only [hin, if_true]
      exact runTargets_succP d hK hF hcyc po hjob hjobS ts seen w hi htl hnf hBl
    simp only [hin, if_false, Bool.false_and, Bool.false_eq_true]
    have e1 := WEqv.addKnown w t
    have hi1 := e1.inv hi
    have hnc : t ∉ cx.cycles := fun h => by
      have := hcyc t h; have := hts t (by simp); omega
    have hc : (!cx.unlocked && decide (t ∈ cx.cycles)) = false := by simp [hnc]
    simp only [hc, Bool.false_eq_true, if_false]
    have hj := hjob t (addKnown w t) hi1 (hts t (by simp))
    have hz := hjobS t (addKnown w t) hi1 (hts t (by simp)) (hnf.eqv e1)
      (buildable_trP hi.base (Rich.Tr.addKnown w t) (hB t (by simp)))
    have htr : Tr (addKnown w t) (buildJob E d cx fuel t (addKnown w t)).2 :=
      ⟨Rich.buildJob_frU E hF d cx fuel t _, buildJob_keepsUser E hK d cx fuel t _⟩
    generalize buildJob E d cx fuel t (addKnown w t) = res at hj hz htr ⊢
    obtain ⟨jr, w2⟩ := res
    dsimp only at hz htr
    subst hz
    obtain ⟨j1, _, _, j4, _⟩ := hj
    simp only [jrStatus] at j1 j4
    have hor : (false || decide ((0 : Status) ≠ 0)) = false := by decide
    simp only [CRASHED_ne_zero, if_false, hor]
    exact runTargets_succP d hK hF hcyc po hjob hjobS ts (t :: seen) w2 j1 htl (j4 (hnf.eqv e1) trivial)
      (fun t' ht' => buildable_trP hi1.base htr (buildable_trP hi.base (Rich.Tr.addKnown w t) (hBl t' ht')))

theorem ifchangeWith_succP {rank R n E} (hE : EOkP rank R n E) (d : Defects) :
    ESuccP rank R (n + 1) { ifchangeCmd := fun cx ts w => ifchangeWith E d (n + 1) cx ts w } := by
  intro X cx ts w b h1 h2 h3 h4 hi hts hXb hpar hcyc hk hnf hB
  show (ifchangeWith E d (n + 1) cx ts w).1 = 0
  have hjob : ∀ t w0, Inv rank R X w0 → rank t < b →
      JobPostW rank R X t b none w0 (jrStatus (buildJob E d cx (n + 1) t w0).1, (buildJob E d cx (n + 1) t w0).2) :=
    fun t w0 hi0 hlt => (buildJob_spec hE.spec d h1 h2 h4 hi0
      (fun x hx => Nat.lt_of_lt_of_le hlt (hXb x hx)) hlt none).weak
  have hjobS : ∀ t w0, Inv rank R X w0 → rank t < b → NoFail R w0 → Buildable w0 t →
      (buildJob E d cx (n + 1) t w0).1 = .done 0 :=
    fun t w0 hi0 hlt hnf0 hB0 => buildJob_succP hE d h1 h2 h4 hi0
      (fun x hx => Nat.lt_of_lt_of_le hlt (hXb x hx)) (fun c hc => Nat.lt_of_lt_of_le hlt (hcyc c hc))
      (by omega) (by omega) hnf0 hB0
  unfold ifchangeWith
  cases hp : cx.parent with
  | none =>
    simp only [Bool.false_eq_true, if_false]
    exact runTargets_succP d hE.keeps hE.fr hcyc none hjob hjobS ts [] w hi hts hnf hB
  | some p =>
    obtain ⟨hbp, hXp, hngp⟩ := hpar p hp
    simp only [h3, Bool.not_false, Bool.true_and]
    have hc : ts.contains p = false := by
      cases h : ts.contains p with
      | false => rfl
      | true =>
        have := hts p (by simpa using h)
        omega
    simp only [hc, Bool.false_eq_true, if_false]
    have e1 := WEqv.addKnown w p
    have hi1 := e1.inv hi
    have hng1 : ¬ Good (addKnown w p) R p := fun h => hngp ((e1.good R p).1 h)
    obtain ⟨d1, d2, _, _⟩ := declare_spec (rank := rank) (R := R) hXp b hbp ts (addKnown w p) hi1 hng1 hts
    exact runTargets_succP d hE.keeps hE.fr hcyc none hjob hjobS ts [] (declare p ts (addKnown w p)) d1 hts
      (fun f => by rw [d2.eqv.failed]; exact (hnf.eqv e1) f)
      (fun t ht => buildable_trP hi1.base (trP_ofRowOp d2) (buildable_trP hi.base (Rich.Tr.addKnown w p) (hB t ht)))

theorem engine_okP (rank : Nat → Nat) (R : Nat) (d : Defects) : ∀ n, EOkP rank R n (engine d n)
  | 0 => ⟨engine_spec rank R d 0, fun _ _ _ _ _ _ _ _ _ _ _ _ _ _ hk => absurd hk (Nat.not_lt_zero _),
      engine_keeps d 0, Rich.engine_frU d 0⟩
  | n + 1 => ⟨engine_spec rank R d (n + 1), ifchangeWith_succP (engine_okP rank R d n) d, engine_keeps d (n + 1),
      Rich.engine_frU d (n + 1)⟩

end RedoModel.Deps
