import RedoModel.Lemmas.DepsSoundS35
/-! What the user does between commands (edit, remove, chmod a file) keeps `Btw`. -/
namespace RedoModel.Deps.S
open RedoModel.Generated

/-- `w'` is `w` with the file `f` changed by hand (and the clock possibly advanced). -/
structure FsUpd (f : Nat) (w w' : World) : Prop where
  rules : w'.rules = w.rules
  progs : w'.progs = w.progs
  recs : w'.recs = w.recs
  deps : w'.deps = w.deps
  rc : w'.runCounter = w.runCounter
  fs : ∀ x, x ≠ f → w'.fs x = w.fs x
  clock : w.clock ≤ w'.clock

theorem FsUpd.key {f w w'} (h : FsUpd f w w')
    (hdiff : w'.fs f ≠ w.fs f → (w.recs f).stamp ≠ some (readStamp w' f) ∨ FailedAbsent w f) (d M : Nat) :
    (w'.fs d = w.fs d ∧ (DetectS w' M d ↔ DetectS w M d)) ∨ DetectS w' M d := by
  have hsame : w'.fs d = w.fs d → (w'.fs d = w.fs d ∧ (DetectS w' M d ↔ DetectS w M d)) := fun e =>
    ⟨e, by unfold DetectS FailedAbsent; rw [h.recs, readStamp_congr e]⟩
  by_cases e : d = f
  · subst e
    by_cases e2 : w'.fs d = w.fs d
    · exact Or.inl (hsame e2)
    · right; unfold DetectS FailedAbsent; rw [h.recs]; exact Or.inr (Or.inr (hdiff e2))
  · exact Or.inl (hsame (h.fs d e))

theorem RecTruth_user {f w w' u} (h : FsUpd f w w')
    (hdiff : w'.fs f ≠ w.fs f → (w.recs f).stamp ≠ some (readStamp w' f) ∨ FailedAbsent w f) (hu : w'.fs u = w.fs u)
    (ht : RecTruth w u) : RecTruth w' u := by
  obtain ⟨pre, dof, post, sc, hr, hpre, hdof, hreads, hexit, hsc, cs, hcont, hlen, hz⟩ := ht
  have hrow : ∀ s m, HasRow w u s m → HasRow w' u s m := fun s m hh => by unfold HasRow at hh ⊢; rw [h.deps]; exact hh
  refine ⟨pre, dof, post, sc, by rw [h.rules]; exact hr, fun c hc => hrow _ _ (hpre c hc), hrow _ _ hdof,
    fun d hd => hrow _ _ (hreads d hd), hexit, ?_, cs, by rw [contentOf_congr hu]; exact hcont, hlen, ?_⟩
  · rw [h.recs]
    rcases h.key hdiff dof (Mof (w.recs u)) with ⟨e, hiff⟩ | hd
    · rcases hsc with ⟨h1, h2⟩ | h1
      · exact Or.inl ⟨by rw [existsF_congr e]; exact h1, by rw [scriptAt_congr e h.progs]; exact h2⟩
      · exact Or.inr (hiff.2 h1)
    · exact Or.inr hd
  · intro p hp
    rw [h.recs]
    refine ⟨fun hne => ?_, by unfold DetectL; rw [h.recs]; exact (hz p hp).2⟩
    rcases h.key hdiff p.1 (Mof (w.recs u)) with ⟨e, hiff⟩ | hd
    · rw [contentOf_congr e] at hne
      exact hiff.2 ((hz p hp).1 hne)
    · exact hd

theorem Base_user {rank R f w w'} (hb : Base rank R NoX w) (h : FsUpd f w w') (hrk : Ranked rank w')
    (hf0 : f ≠ alwaysId)
    (hgen : (w.recs f).isGenerated = true → w'.fs f = none ∨ w'.fs f = w.fs f)
    (hfsB : ∀ n, w'.fs f = some n → n.ms ≤ w'.clock)
    (hstB : ∀ ms rest, (w.recs f).stamp = some (.st ms rest) → ∀ n, w'.fs f = some n →
      ms < n.ms ∨ (ms = n.ms ∧ rest ≤ n.rest))
    (hdiff : w'.fs f ≠ w.fs f → (w.recs f).stamp ≠ some (readStamp w' f) ∨ FailedAbsent w f)
    (hcsum : (w.recs f).csum ≠ none → w'.fs f = none ∨ w'.fs f = w.fs f) : Base rank R NoX w' := by
  have hr := h.recs
  refine ⟨by rw [h.rules]; exact hb.rulesOk, hrk, by rw [h.progs]; exact hb.plainProgs, by rw [hr]; exact hb.chLe,
    by rw [hr]; exact hb.ckLe, ?_, by rw [hr]; exact hb.csumEx, by rw [hr, h.rules]; exact hb.srcNoCsum,
    by rw [hr]; exact hb.csumCh, by rw [hr]; exact hb.noOvr,
    by rw [hr, h.rules]; exact hb.srcNotGen, by rw [h.fs _ (Ne.symm hf0)]; exact hb.fs0, by rw [hr]; exact hb.rec0,
    by rw [h.deps]; exact hb.rowsLt, by rw [h.deps, h.rules]; exact hb.cPlain, by rw [hr]; exact hb.stampCh,
    by rw [hr]; exact hb.staticEx, ?_, ?_, ?_, by rw [hr]; exact hb.ckFail, by rw [hr]; exact hb.markFail,
    by rw [hr]; exact hb.flLe, ?_⟩
  · intro x c hc n hn
    rw [hr] at hc
    by_cases e : x = f
    · subst e
      rcases hcsum (by rw [hc]; simp) with e2 | e2
      · rw [e2] at hn; cases hn
      · rw [e2] at hn; exact hb.csumFile x c hc n hn
    · rw [h.fs x e] at hn; exact hb.csumFile x c hc n hn
  · intro x hg n hn
    rw [hr] at hg ⊢
    by_cases e : x = f
    · subst e
      rcases hgen hg with e2 | e2
      · rw [e2] at hn; cases hn
      · rw [e2] at hn; exact hb.genMs x hg n hn
    · rw [h.fs x e] at hn; exact hb.genMs x hg n hn
  · intro x n hn
    by_cases e : x = f
    · subst e; exact hfsB n hn
    · rw [h.fs x e] at hn; exact Nat.le_trans (hb.fsB x n hn) h.clock
  · intro x ms rest hs
    rw [hr] at hs
    refine ⟨Nat.le_trans (hb.stB x ms rest hs).1 h.clock, fun n hn => ?_⟩
    by_cases e : x = f
    · subst e; exact hstB ms rest hs n hn
    · rw [h.fs x e] at hn; exact (hb.stB x ms rest hs).2 n hn
  · intro t hx hrc hg
    rw [hr] at hg
    have hfs : w'.fs t = w.fs t := by
      by_cases e : t = f
      · subst e
        by_cases e2 : w'.fs t = w.fs t
        · exact e2
        · exfalso
          have := hrc.2.2
          rw [hr] at this
          rcases hdiff e2 with h1 | h1
          · exact h1 this
          · have h2 := hrc.1; rw [hr] at h2; exact h1.1 h2
      · exact h.fs t e
    have hrc0 : RecCur w t := by
      unfold RecCur at hrc ⊢
      rw [hr, readStamp_congr hfs] at hrc; exact hrc
    have hx0 : ¬ NoX t ∨ VerR w R t := Or.inl (fun hh => hh)
    exact RecTruth_user h hdiff hfs (hb.recA t hx0 hrc0 hg)

end RedoModel.Deps.S
