import RedoModel.Par
/-!
Invariants of the parallel acceptor `RedoModel.Par`: every accepted run, whatever its event order,
keeps `Inv` (at most one start per target; settled targets hold the from-scratch content; a running
script has all the files of its completed commands settled).
-/
namespace RedoModel.Par

theorem upd_same {α : Type} (f : Nat → α) (t : Nat) (v : α) : upd f t v t = v := by simp [upd]

theorem upd_other {α : Type} (f : Nat → α) (t x : Nat) (v : α) (h : x ≠ t) : upd f t v x = f x := by
  simp [upd, h]

theorem run_nil (g : Graph) (s : State) : run g s [] = some s := rfl

theorem run_cons (g : Graph) (s : State) (e : Ev) (es : List Ev) :
    run g s (e :: es) = (step g s e).bind (fun s' => run g s' es) := by
  simp only [run]; cases step g s e <;> rfl

theorem run_append (g : Graph) (s : State) (es₁ es₂ : List Ev) :
    run g s (es₁ ++ es₂) = (run g s es₁).bind (fun s' => run g s' es₂) := by
  induction es₁ generalizing s with
  | nil => rfl
  | cons e es ih =>
    simp only [List.cons_append, run_cons]
    cases step g s e with
    | none => rfl
    | some s' => simpa using ih s'

/-! ### The four events, unfolded -/

theorem step_start {g : Graph} {s s' : State} {t : Nat} {b : Option Nat}
    (h : step g s (.start t b) = some s') :
    (∃ sc, g.script t = some sc) ∧ s.st t = .idle ∧
    (∀ p, b = some p → askedBy g s t p = true) ∧
    s' = { s with st := upd s.st t (.running 0), starts := t :: s.starts } := by
  simp only [step] at h
  split at h
  · cases h
  · rename_i sc hsc
    by_cases hidle : s.st t = .idle
    · simp only [hidle, ne_eq, not_true_eq_false, if_false] at h
      cases b with
      | none =>
        simp only [if_true, Option.some.injEq] at h
        exact ⟨⟨sc, hsc⟩, hidle, (fun p hp => by cases hp), h.symm⟩
      | some p =>
        by_cases ha : askedBy g s t p = true
        · simp only [ha, if_true, Option.some.injEq] at h
          exact ⟨⟨sc, hsc⟩, hidle, (fun q hq => by cases hq; exact ha), h.symm⟩
        · simp [ha] at h
    · simp [hidle] at h

theorem step_clean {g : Graph} {s s' : State} {t : Nat} (h : step g s (.clean t) = some s') :
    (∃ sc, g.script t = some sc) ∧ s.st t = .idle ∧ s' = { s with st := upd s.st t .done } := by
  simp only [step] at h
  split at h
  · cases h
  · rename_i sc hsc
    split at h
    · cases h
    · rename_i hidle
      cases h
      exact ⟨⟨sc, hsc⟩, by simpa using hidle, rfl⟩

theorem step_ret {g : Graph} {s s' : State} {t : Nat} (h : step g s (.ret t) = some s') :
    ∃ sc k ds, g.script t = some sc ∧ s.st t = .running k ∧ sc.cmds[k]? = some ds ∧
      (∀ d ∈ ds, settled g s d = true) ∧ s' = { s with st := upd s.st t (.running (k + 1)) } := by
  simp only [step] at h
  split at h
  · rename_i sc k hsc hst
    split at h
    · rename_i ds hds
      split at h
      · rename_i hall
        cases h
        exact ⟨sc, k, ds, hsc, hst, hds, by simpa using hall, rfl⟩
      · cases h
    · cases h
  · cases h

theorem step_finish {g : Graph} {s s' : State} {t : Nat} (h : step g s (.finish t) = some s') :
    ∃ sc, g.script t = some sc ∧ s.st t = .running sc.cmds.length ∧
      s' = { s with st := upd s.st t .done,
                    content := upd s.content t (out sc.tag (sc.reads.map (val g s))) } := by
  simp only [step] at h
  split at h
  · rename_i sc k hsc hst
    split at h
    · rename_i hk
      cases h
      subst hk
      exact ⟨sc, hsc, hst, rfl⟩
    · cases h
  · cases h

/-! ### Settledness only grows -/

theorem settled_mono {g : Graph} {s s' : State} (h : ∀ x, s.st x = .done → s'.st x = .done) {f : Nat}
    (hf : settled g s f = true) : settled g s' f = true := by
  unfold settled at *
  split
  · rfl
  · rename_i sc hsc
    simp only [hsc, beq_iff_eq] at hf
    simp [h f hf]

theorem settled_src {g : Graph} {s : State} {f : Nat} (h : g.script f = none) : settled g s f = true := by
  simp [settled, h]

theorem settled_tgt {g : Graph} {s : State} {f : Nat} {sc : Script} (h : g.script f = some sc) :
    settled g s f = true ↔ s.st f = .done := by
  simp [settled, h]

/-! ### The invariant -/

/-- The part of the invariant that does not speak about contents. -/
structure InvB (g : Graph) (s : State) : Prop where
  /-- no script was started twice -/
  nodup : s.starts.Nodup
  /-- a started target is no longer idle -/
  started : ∀ t ∈ s.starts, s.st t ≠ .idle
  /-- a running script is inside its command list, and every file named by a command that has
  returned is settled -/
  before : ∀ t sc k, g.script t = some sc → s.st t = .running k →
    k ≤ sc.cmds.length ∧ ∀ j, j < k → ∀ ds, sc.cmds[j]? = some ds → ∀ f ∈ ds, settled g s f = true

/-- What every accepted run keeps.  `K` is the set of targets the dirtiness check may declare clean. -/
structure Inv (g : Graph) (K : Nat → Prop) (s : State) : Prop extends InvB g s where
  /-- a settled target holds what a from-scratch build gives it -/
  doneSpec : ∀ t sc, g.script t = some sc → s.st t = .done → Spec g t (s.content t)
  /-- so does an untouched target that the dirtiness check may find clean -/
  cleanSpec : ∀ t sc, K t → g.script t = some sc → s.st t = .idle → Spec g t (s.content t)

/-- What a reader finds in a settled file is its from-scratch content. -/
theorem val_spec {g : Graph} {K : Nat → Prop} {s : State} (hi : Inv g K s) {f : Nat}
    (hf : settled g s f = true) : Spec g f (val g s f) := by
  unfold val
  cases hsc : g.script f with
  | none => exact Spec.src hsc
  | some sc => exact hi.doneSpec f sc hsc ((settled_tgt hsc).1 hf)

/-- When the last command has returned, every file the script asked for is settled. -/
theorem flatten_settled {g : Graph} {s : State} (hi : InvB g s) {t : Nat} {sc : Script}
    (hsc : g.script t = some sc) (hst : s.st t = .running sc.cmds.length) :
    ∀ f ∈ sc.cmds.flatten, settled g s f = true := by
  intro f hf
  obtain ⟨ds, hds, hfd⟩ := List.mem_flatten.1 hf
  obtain ⟨j, hj, rfl⟩ := List.getElem_of_mem hds
  exact (hi.before t sc _ hsc hst).2 j hj _ (List.getElem?_eq_getElem hj) f hfd

/-- The content installed by `finish` is the from-scratch content. -/
theorem finish_spec {g : Graph} {K : Nat → Prop} {s : State} (hw : WellFormed g) (hi : Inv g K s) {t : Nat}
    {sc : Script} (hsc : g.script t = some sc) (hst : s.st t = .running sc.cmds.length) :
    Spec g t (out sc.tag (sc.reads.map (val g s))) := by
  refine Spec.tgt (sc.reads.map (val g s)) hsc (by simp) ?_
  intro i h h'
  simp only [List.getElem_map]
  exact val_spec hi (flatten_settled hi.toInvB hsc hst _ (hw t sc hsc _ (List.getElem_mem h)))

theorem step_invB {g : Graph} {s s' : State} {e : Ev} (hi : InvB g s) (h : step g s e = some s') :
    InvB g s' := by
  cases e with
  | start t b =>
    obtain ⟨⟨sc, hsc⟩, hidle, _, rfl⟩ := step_start h
    have hmono : ∀ x, s.st x = .done → upd s.st t (.running 0) x = .done := by
      intro x hx
      have : x ≠ t := by rintro rfl; rw [hidle] at hx; cases hx
      rw [upd_other _ _ _ _ this]; exact hx
    refine ⟨?_, ?_, ?_⟩
    · exact List.nodup_cons.2 ⟨fun hm => hi.started t hm hidle, hi.nodup⟩
    · intro x hx
      by_cases hxt : x = t
      · subst hxt; simp [upd_same]
      · simp only [upd_other _ _ _ _ hxt]
        rcases List.mem_cons.1 hx with rfl | hx
        · exact absurd rfl hxt
        · exact hi.started x hx
    · intro x scx k hscx hx
      by_cases hxt : x = t
      · subst hxt
        simp only [upd_same, St.running.injEq] at hx
        subst hx
        exact ⟨Nat.zero_le _, fun j hj => absurd hj (Nat.not_lt_zero _)⟩
      · simp only [upd_other _ _ _ _ hxt] at hx
        obtain ⟨h1, h2⟩ := hi.before x scx k hscx hx
        exact ⟨h1, fun j hj ds hds f hf => settled_mono hmono (h2 j hj ds hds f hf)⟩
  | clean t =>
    obtain ⟨⟨sc, hsc⟩, hidle, rfl⟩ := step_clean h
    have hmono : ∀ x, s.st x = .done → upd s.st t .done x = .done := by
      intro x hx
      by_cases hxt : x = t
      · subst hxt; exact upd_same _ _ _
      · rw [upd_other _ _ _ _ hxt]; exact hx
    refine ⟨hi.nodup, ?_, ?_⟩
    · intro x hx
      by_cases hxt : x = t
      · subst hxt; simp [upd_same]
      · simp only [upd_other _ _ _ _ hxt]; exact hi.started x hx
    · intro x scx k hscx hx
      by_cases hxt : x = t
      · subst hxt; simp [upd_same] at hx
      · simp only [upd_other _ _ _ _ hxt] at hx
        obtain ⟨h1, h2⟩ := hi.before x scx k hscx hx
        exact ⟨h1, fun j hj ds hds f hf => settled_mono hmono (h2 j hj ds hds f hf)⟩
  | ret t =>
    obtain ⟨sc, k, ds, hsc, hst, hds, hall, rfl⟩ := step_ret h
    have hmono : ∀ x, s.st x = .done → upd s.st t (.running (k + 1)) x = .done := by
      intro x hx
      have : x ≠ t := by rintro rfl; rw [hst] at hx; cases hx
      rw [upd_other _ _ _ _ this]; exact hx
    refine ⟨hi.nodup, ?_, ?_⟩
    · intro x hx
      by_cases hxt : x = t
      · subst hxt; simp [upd_same]
      · simp only [upd_other _ _ _ _ hxt]; exact hi.started x hx
    · intro x scx k' hscx hx
      by_cases hxt : x = t
      · subst hxt
        simp only [upd_same, St.running.injEq] at hx
        subst hx
        rw [hsc] at hscx; cases hscx
        obtain ⟨h1, h2⟩ := hi.before x sc k hsc hst
        have hk : k < sc.cmds.length := (List.getElem?_eq_some_iff.1 hds).1
        refine ⟨hk, ?_⟩
        intro j hj ds' hds' f hf
        by_cases hjk : j = k
        · subst hjk
          rw [hds] at hds'; cases hds'
          exact settled_mono hmono (hall f hf)
        · exact settled_mono hmono (h2 j (by omega) ds' hds' f hf)
      · simp only [upd_other _ _ _ _ hxt] at hx
        obtain ⟨h1, h2⟩ := hi.before x scx k' hscx hx
        exact ⟨h1, fun j hj ds hds f hf => settled_mono hmono (h2 j hj ds hds f hf)⟩
  | finish t =>
    obtain ⟨sc, hsc, hst, rfl⟩ := step_finish h
    have hmono : ∀ x, s.st x = .done → upd s.st t .done x = .done := by
      intro x hx
      by_cases hxt : x = t
      · subst hxt; exact upd_same _ _ _
      · rw [upd_other _ _ _ _ hxt]; exact hx
    refine ⟨hi.nodup, ?_, ?_⟩
    · intro x hx
      by_cases hxt : x = t
      · subst hxt; simp [upd_same]
      · simp only [upd_other _ _ _ _ hxt]; exact hi.started x hx
    · intro x scx k hscx hx
      by_cases hxt : x = t
      · subst hxt; simp [upd_same] at hx
      · simp only [upd_other _ _ _ _ hxt] at hx
        obtain ⟨h1, h2⟩ := hi.before x scx k hscx hx
        exact ⟨h1, fun j hj ds hds f hf => settled_mono (fun y hy => hmono y hy) (h2 j hj ds hds f hf)⟩

theorem step_inv {g : Graph} {K : Nat → Prop} {s s' : State} {e : Ev} (hw : WellFormed g)
    (hK : ∀ t, e = .clean t → K t) (hi : Inv g K s) (h : step g s e = some s') : Inv g K s' := by
  refine ⟨step_invB hi.toInvB h, ?_, ?_⟩
  · intro x scx hscx hx
    cases e with
    | start t b =>
      obtain ⟨_, _, _, rfl⟩ := step_start h
      by_cases hxt : x = t
      · subst hxt; simp [upd_same] at hx
      · simp only [upd_other _ _ _ _ hxt] at hx
        exact hi.doneSpec x scx hscx hx
    | clean t =>
      obtain ⟨_, hidle, rfl⟩ := step_clean h
      by_cases hxt : x = t
      · subst hxt; exact hi.cleanSpec x scx (hK x rfl) hscx hidle
      · simp only [upd_other _ _ _ _ hxt] at hx
        exact hi.doneSpec x scx hscx hx
    | ret t =>
      obtain ⟨_, _, _, _, _, _, _, rfl⟩ := step_ret h
      by_cases hxt : x = t
      · subst hxt; simp [upd_same] at hx
      · simp only [upd_other _ _ _ _ hxt] at hx
        exact hi.doneSpec x scx hscx hx
    | finish t =>
      obtain ⟨sc, hsc, hst, rfl⟩ := step_finish h
      by_cases hxt : x = t
      · subst hxt
        rw [hsc] at hscx; cases hscx
        simp only [upd_same]
        exact finish_spec hw hi hsc hst
      · simp only [upd_other _ _ _ _ hxt] at hx ⊢
        exact hi.doneSpec x scx hscx hx
  · intro x scx hk hscx hx
    have hc : s.st x = .idle ∧ s'.content x = s.content x := by
      cases e with
      | start t b =>
        obtain ⟨_, _, _, rfl⟩ := step_start h
        by_cases hxt : x = t
        · subst hxt; simp [upd_same] at hx
        · simp only [upd_other _ _ _ _ hxt] at hx; exact ⟨hx, rfl⟩
      | clean t =>
        obtain ⟨_, _, rfl⟩ := step_clean h
        by_cases hxt : x = t
        · subst hxt; simp [upd_same] at hx
        · simp only [upd_other _ _ _ _ hxt] at hx; exact ⟨hx, rfl⟩
      | ret t =>
        obtain ⟨_, _, _, _, _, _, _, rfl⟩ := step_ret h
        by_cases hxt : x = t
        · subst hxt; simp [upd_same] at hx
        · simp only [upd_other _ _ _ _ hxt] at hx; exact ⟨hx, rfl⟩
      | finish t =>
        obtain ⟨sc, hsc, _, rfl⟩ := step_finish h
        by_cases hxt : x = t
        · subst hxt; simp [upd_same] at hx
        · simp only [upd_other _ _ _ _ hxt] at hx ⊢; exact ⟨hx, trivial⟩
    rw [hc.2]
    exact hi.cleanSpec x scx hk hscx hc.1

theorem run_invB {g : Graph} : ∀ (es : List Ev) (s s' : State), InvB g s → run g s es = some s' → InvB g s'
  | [], s, s', hi, h => by cases h; exact hi
  | e :: es, s, s', hi, h => by
    rw [run_cons] at h
    cases hs : step g s e with
    | none => rw [hs] at h; cases h
    | some s1 =>
      rw [hs] at h
      exact run_invB es s1 s' (step_invB hi hs) h

theorem run_inv {g : Graph} {K : Nat → Prop} (hw : WellFormed g) :
    ∀ (es : List Ev) (s s' : State), (∀ t, Ev.clean t ∈ es → K t) → Inv g K s → run g s es = some s' →
      Inv g K s'
  | [], s, s', _, hi, h => by cases h; exact hi
  | e :: es, s, s', hK, hi, h => by
    rw [run_cons] at h
    cases hs : step g s e with
    | none => rw [hs] at h; cases h
    | some s1 =>
      rw [hs] at h
      exact run_inv hw es s1 s' (fun t ht => hK t (List.mem_cons_of_mem _ ht))
        (step_inv hw (fun t ht => hK t (ht ▸ List.mem_cons_self)) hi hs) h

/-- The targets the dirtiness check declares clean in `es` hold, at the start, what a from-scratch build
would give them.  (`Init` says this only of the targets that start out settled; the model's `clean`
event has no such guard, so the hypothesis has to be made about the run.) -/
def CleanOk (g : Graph) (s0 : State) (es : List Ev) : Prop :=
  ∀ t sc, Ev.clean t ∈ es → g.script t = some sc → s0.st t = .idle → Spec g t (s0.content t)

theorem init_invB {g : Graph} {s0 : State} (h0 : Init g s0) : InvB g s0 := by
  obtain ⟨h1, h2, _⟩ := h0
  refine ⟨(by rw [h1]; exact List.nodup_nil), (by rw [h1]; intro t ht; cases ht), ?_⟩
  intro t sc k _ hst
  rcases h2 t with h | h <;> rw [h] at hst <;> cases hst

theorem init_inv {g : Graph} {s0 : State} {es : List Ev} (h0 : Init g s0) (hc : CleanOk g s0 es) :
    Inv g (fun t => Ev.clean t ∈ es) s0 :=
  ⟨init_invB h0, h0.2.2, fun t sc hk hsc hidle => hc t sc hk hsc hidle⟩

end RedoModel.Par
