import RedoModel.Lemmas.DepsFuel6
/-!
# C12 — the fuel of the engine is an artefact (part 7: the theorems)
-/
namespace RedoModel.Deps
open RedoModel.Generated

variable {nc : Bool}

theorem engineFrom_cycNZ (base : Engine) (d : Defects) (n : Nat) (hn : 0 < n) : CycNZ (engineFrom base d n) := by
  obtain ⟨k, rfl⟩ : ∃ k, n = k + 1 := ⟨n - 1, by omega⟩
  intro cx ts w hu h
  exact ifchangeWith_cycle_nonzero (engineFrom base d k) d (k + 1) cx ts w hu h

theorem lvl_pos_of_oob {N : Nat} {cx : Ctx} (h : cx.noOob = false) : 0 < lvl false N cx := by
  simp [lvl, h]

/-- **(A) The innermost level of the engine is never consulted.**  At the same index `n`, engines built on
two arbitrary innermost levels `b1`, `b2` give the same result (and keep the invariant), as soon as
`n` exceeds the level of the context: `2 * (N - cx.cycles.length) + 1` (`+ 2` when an out-of-band
rebuild is still possible); `N - cx.cycles.length + 1` in a project without checksums (`nc = true`). -/
theorem engineFrom_base_irrelevant (b1 b2 : Engine) (d : Defects) (N : Nat) :
    ∀ (n : Nat) (cx : Ctx) (ts : List Nat) (w : World), CtxOK N cx → (∀ t ∈ ts, t < N) →
      (cx.unlocked = true → ∀ t ∈ ts, t ∉ cx.cycles) → WInv nc N w → lvl nc N cx + 1 ≤ n →
      Agree nc N ((engineFrom b1 d n).ifchangeCmd cx ts w) ((engineFrom b2 d n).ifchangeCmd cx ts w)
  | 0, _, _, _, _, _, _, _, h => by omega
  | k + 1, cx, ts, w, hcx, hts, hun, hw, hn => by
    show Agree nc N (ifchangeWith (engineFrom b1 d k) d (k + 1) cx ts w) (ifchangeWith (engineFrom b2 d k) d (k + 1) cx ts w)
    refine ifchangeWith_agree N _ _ d cx (k + 1) (k + 1) (Or.inl rfl) hcx ?_ ?_ ts w hts hun hw
    · intro cx0 ts0 w0 hcx0 hts0 hun0 hw0 hl
      exact engineFrom_base_irrelevant b1 b2 d N k cx0 ts0 w0 hcx0 hts0 hun0 hw0 (by omega)
    · intro hnc hno
      subst hnc
      have := lvl_pos_of_oob (N := N) hno
      exact engineFrom_cycNZ b1 d k (by omega)

/-- **(B) Fuel irrelevance of the engine.**  Any two indices that exceed the level of the context by
`N + 1` (the part the dirtiness check needs) give the same result, whatever the innermost levels. -/
theorem engineFrom_fuel_irrelevant (b1 b2 : Engine) (d : Defects) (N : Nat) :
    ∀ (n1 n2 : Nat) (cx : Ctx) (ts : List Nat) (w : World), CtxOK N cx → (∀ t ∈ ts, t < N) →
      (cx.unlocked = true → ∀ t ∈ ts, t ∉ cx.cycles) → WInv nc N w →
      lvl nc N cx + N + 1 ≤ n1 → lvl nc N cx + N + 1 ≤ n2 →
      Agree nc N ((engineFrom b1 d n1).ifchangeCmd cx ts w) ((engineFrom b2 d n2).ifchangeCmd cx ts w)
  | 0, _, _, _, _, _, _, _, _, h, _ => by omega
  | _, 0, _, _, _, _, _, _, _, _, h => by omega
  | k1 + 1, k2 + 1, cx, ts, w, hcx, hts, hun, hw, h1, h2 => by
    show Agree nc N (ifchangeWith (engineFrom b1 d k1) d (k1 + 1) cx ts w) (ifchangeWith (engineFrom b2 d k2) d (k2 + 1) cx ts w)
    refine ifchangeWith_agree N _ _ d cx (k1 + 1) (k2 + 1) (Or.inr ⟨by omega, by omega⟩) hcx ?_ ?_ ts w hts hun hw
    · intro cx0 ts0 w0 hcx0 hts0 hun0 hw0 hl
      exact engineFrom_fuel_irrelevant b1 b2 d N k1 k2 cx0 ts0 w0 hcx0 hts0 hun0 hw0 (by omega) (by omega)
    · intro _ _
      exact engineFrom_cycNZ b1 d k1 (by have := hw.pos; omega)

/-! ### Top-level commands -/

/-- `redo` / `redo-ifchange` at top level over an arbitrary engine and fuel (what `runCmd` does with
`engine d (2 * nfiles + 4)` and fuel `2 * nfiles + 4`). -/
def runTop (E : Engine) (d : Defects) (fuel : Nat) (isRedo kg : Bool) (ts : List Nat) (w : World) : Result × World :=
  let (R, w) := allocRun w
  let cx : Ctx := { runid := R, keepGoing := kg, isRedo := isRedo }
  let (rv, w) := runTargets E d cx fuel ts [] false w
  ({ status := rv }, w)

theorem runCmd_ifchange_eq (d : Defects) (nf : Nat) (ts : List Nat) (kg : Bool) (w : World) :
    runCmd d nf (.ifchange ts kg) w = runTop (engine d (2 * nf + 4)) d (2 * nf + 4) false kg ts w := rfl

theorem runCmd_redo_eq (d : Defects) (nf : Nat) (ts : List Nat) (kg : Bool) (w : World) :
    runCmd d nf (.redo ts kg) w = runTop (engine d (2 * nf + 4)) d (2 * nf + 4) true kg ts w := rfl

theorem topCtx_ok (N R : Nat) (kg r : Bool) : CtxOK N { runid := R, keepGoing := kg, isRedo := r } :=
  ⟨List.nodup_nil, (fun _ h => by cases h), (fun h => by cases h)⟩

theorem topCtx_lvl (N R : Nat) (kg r : Bool) :
    lvl nc N { runid := R, keepGoing := kg, isRedo := r } = if nc then N else 2 * N + 1 := by
  simp [lvl]

/-- The two top-level agreement statements, for `k` engine levels: `k` must exceed every level below the
top context's (`+ N` when the fuels differ). -/
theorem runTop_agree (b1 b2 : Engine) (d : Defects) (N n1 n2 f1 f2 : Nat) (r kg : Bool) (ts : List Nat) (w : World)
    (hw : WInv nc N w) (hts : ∀ t ∈ ts, t < N) (hf : FuelOK N f1 f2) (hpos : 0 < n1)
    (hA : ∀ cx0 ts0 w0, CtxOK N cx0 → (∀ t ∈ ts0, t < N) → (cx0.unlocked = true → ∀ t ∈ ts0, t ∉ cx0.cycles) →
      WInv nc N w0 → lvl nc N cx0 < (if nc then N else 2 * N + 1) →
      Agree nc N ((engineFrom b1 d n1).ifchangeCmd cx0 ts0 w0) ((engineFrom b2 d n2).ifchangeCmd cx0 ts0 w0)) :
    runTop (engineFrom b1 d n1) d f1 r kg ts w = runTop (engineFrom b2 d n2) d f2 r kg ts w := by
  have hw' : WInv nc N { w with runCounter := w.runCounter + 1 } := hw.same rfl rfl rfl rfl
  have h := runTargets_agree N (engineFrom b1 d n1) (engineFrom b2 d n2) d
    { runid := w.runCounter + 1, keepGoing := kg, isRedo := r } f1 f2 hf (topCtx_ok N _ kg r)
    (by
      intro cx0 ts0 w0 hcx0 hts0 hun0 hw0 hl
      rw [topCtx_lvl] at hl
      exact hA cx0 ts0 w0 hcx0 hts0 hun0 hw0 hl)
    (fun _ _ => engineFrom_cycNZ b1 d n1 hpos) ts [] false _ hts (fun h => by cases h) hw'
  unfold runTop allocRun
  dsimp only
  rw [h.1]

/-- (A) at top level: with `2 * N + 1 ≤ n` engine levels (`N ≤ n` without checksums) the innermost one is
never consulted. -/
theorem runTop_base_irrelevant (b1 b2 : Engine) (d : Defects) (N n fuel : Nat) (r kg : Bool) (ts : List Nat) (w : World)
    (hw : WInv nc N w) (hts : ∀ t ∈ ts, t < N) (hn : (if nc then N else 2 * N + 1) ≤ n) :
    runTop (engineFrom b1 d n) d fuel r kg ts w = runTop (engineFrom b2 d n) d fuel r kg ts w :=
  runTop_agree b1 b2 d N n n fuel fuel r kg ts w hw hts (Or.inl rfl)
    (by have := hw.pos; split at hn <;> omega)
    (fun cx0 ts0 w0 hcx0 hts0 hun0 hw0 hl =>
      engineFrom_base_irrelevant b1 b2 d N n cx0 ts0 w0 hcx0 hts0 hun0 hw0 (by omega))

/-- (B) at top level: any two engine indices of at least `3 * N + 1` (`2 * N` without checksums) and fuels
of at least `N + 1` give the same result. -/
theorem runTop_fuel_irrelevant (b1 b2 : Engine) (d : Defects) (N n1 n2 f1 f2 : Nat) (r kg : Bool) (ts : List Nat) (w : World)
    (hw : WInv nc N w) (hts : ∀ t ∈ ts, t < N)
    (hn1 : (if nc then 2 * N else 3 * N + 1) ≤ n1) (hn2 : (if nc then 2 * N else 3 * N + 1) ≤ n2)
    (hf1 : N + 1 ≤ f1) (hf2 : N + 1 ≤ f2) :
    runTop (engineFrom b1 d n1) d f1 r kg ts w = runTop (engineFrom b2 d n2) d f2 r kg ts w :=
  runTop_agree b1 b2 d N n1 n2 f1 f2 r kg ts w hw hts (Or.inr ⟨hf1, hf2⟩)
    (by have := hw.pos; split at hn1 <;> omega)
    (fun cx0 ts0 w0 hcx0 hts0 hun0 hw0 hl =>
      engineFrom_fuel_irrelevant b1 b2 d N n1 n2 cx0 ts0 w0 hcx0 hts0 hun0 hw0
        (by split at hl <;> simp_all <;> omega) (by split at hl <;> simp_all <;> omega))

end RedoModel.Deps
