import RedoModel.Lemmas.LogFollow5
/-!
# `redo-log --follow` — the statements of `Props/C18c.lean` in their final shape
-/
namespace RedoModel.LogFollow

theorem follow_prefix_stmt (insts : List (List Nat)) (ph : Phase) (es : List Ev) (s : Sys)
    (h : run (enter insts ph) es = some s) :
    (∀ g, s.opened = some g → s.emitted.reverse = (s.insts.getD g []).take s.pos) ∧
    (s.opened = none → s.emitted = []) :=
  ⟨fun g hg => ((follow_prefix_core insts ph es s h).1 g hg).2.2, (follow_prefix_core insts ph es s h).2⟩

theorem follow_prefix_valid_stmt (insts : List (List Nat)) (ph : Phase) (es : List Ev) (s : Sys)
    (h : run (enter insts ph) es = some s) (g : Nat) (hg : s.opened = some g) :
    g < s.insts.length ∧ s.pos ≤ (s.insts.getD g []).length ∧ s.emitted.length = s.pos := by
  obtain ⟨h1, h2, h3⟩ := (follow_prefix_core insts ph es s h).1 g hg
  refine ⟨h1, h2, ?_⟩
  have := congrArg List.length h3
  rw [List.length_reverse, List.length_take, Nat.min_eq_left h2] at this
  exact this

theorem follow_complete_stmt (insts : List (List Nat)) (ph : Phase) (es : List Ev) (s : Sys)
    (hb : Ev.create ∉ es) (h : run (enter insts ph) es = some s) (hpc : s.pc = .stopped) :
    s.emitted.reverse = current s ∧
    ∀ es' s', Ev.create ∉ es' → run (enter insts ph) (es ++ es') = some s' →
      s'.pc = .stopped ∧ current s' = current s ∧ s'.emitted = s.emitted := by
  obtain ⟨h1, h2⟩ := complete_of_good (Good_enter insts ph) h hb hpc
  refine ⟨h1, ?_⟩
  intro es' s' hnc hr
  obtain ⟨s1, hr1, hr2⟩ := run_append_inv hr
  rw [h] at hr1; cases hr1
  obtain ⟨a, b, c, _⟩ := h2 es' s' hnc hr2
  exact ⟨a, b, c⟩

theorem follow_never_stops_early_stmt (insts : List (List Nat)) (ph : Phase) (es : List Ev) (s : Sys)
    (hb : Ev.create ∉ es) (h : run (enter insts ph) es = some s) (hpc : s.pc = .stopped) :
    s.phase ≠ .building ∧
    ∀ es' s', Ev.create ∉ es' → run s es' = some s' → ∀ l, Ev.append l ∉ es' := by
  have hg := Good_run h hb (Good_enter insts ph)
  refine ⟨(hg.stop hpc).1, ?_⟩
  intro es' s' hnc hr
  exact ((complete_of_good (Good_enter insts ph) h hb hpc).2 es' s' hnc hr).2.2.2.1

theorem follow_not_stopped_while_building_stmt (insts : List (List Nat)) (ph : Phase) (es : List Ev) (s : Sys)
    (hb : Ev.create ∉ es) (h : run (enter insts ph) es = some s) (hph : s.phase = .building) :
    s.pc ≠ .stopped ∧ (s.pc ≠ .start → s.wasLocked = true) := by
  have hg := Good_run h hb (Good_enter insts ph)
  refine ⟨fun hpc => (hg.stop hpc).1 hph, fun hpc => ?_⟩
  cases hw : s.wasLocked with
  | true => rfl
  | false => exact absurd hph (hg.wl hpc hw)

theorem follow_on_current_instance_stmt (insts : List (List Nat)) (ph : Phase) (es : List Ev) (s : Sys)
    (hb : Ev.create ∉ es) (h : run (enter insts ph) es = some s) (g : Nat) (hg : s.opened = some g) :
    g + 1 = s.insts.length ∧ s.insts.getD g [] = current s := by
  have hgood := Good_run h hb (Good_enter insts ph)
  have hl := hgood.last g hg
  refine ⟨hl, ?_⟩
  unfold current
  rw [← getD_last]; congr 1; omega

theorem follow_stops_stmt (insts : List (List Nat)) (ph : Phase) (es : List Ev) (s : Sys)
    (_h : run (enter insts ph) es = some s) (hph : s.phase = .idle) :
    ∃ n s', n ≤ 2 * remaining s + 5 ∧ run s (List.replicate n .fol) = some s' ∧ s'.pc = .stopped := by
  obtain ⟨n, s', a, b, c, _⟩ := follow_stops_core s hph
  exact ⟨n, s', a, b, c⟩

end RedoModel.LogFollow
