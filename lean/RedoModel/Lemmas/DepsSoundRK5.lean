import RedoModel.Lemmas.DepsSoundRK4
/-! Killed builds, rich histories: the loop of a script over its `redo-ifchange` commands, `redo-always`, and the
whole script (no `redo-ifcreate`, no conditional declarations), each with the outcome "killed". -/
namespace RedoModel.Deps.Rich
open RedoModel.Generated

/-- What the loop over the commands of the script of `t` guarantees when not killed. -/
def CmdsOk (rank : Nat → Nat) (R t : Nat) (cs : List (List Nat)) (w : World) (res : Status × World) : Prop :=
  Inv rank R NoX res.2 ∧ BExt rank R (rank t) (some t) w res.2 ∧ RowsDecl t cs.flatten w res.2 ∧
  (res.1 = 0 → ∀ d ∈ cs.flatten, Good res.2 R d ∧ HasRowU res.2 t d true) ∧
  (NoFail R w → res.1 = 0 → NoFail R res.2) ∧ res.1 ≠ CRASHED

theorem cmdsK_spec {rank R E} (hE : ESpecK rank R E) (hT : ETr E) {t : Nat} {cx cx' : Ctx}
    (h1 : cx'.runid = R) (h2 : cx'.isRedo = false) (h3 : cx'.unlocked = false) (h5 : cx'.parent = some t) :
    ∀ (cs : List (List Nat)) (k : Nat) (w : World), SK w → Inv rank R NoX w → ¬ Good w R t →
      (∀ c ∈ cs, ∀ d ∈ c, rank d < rank t ∧ d ≠ alwaysId) →
      Killed rank R w (runScript.cmds E cx t cx' cs k w) ∨ CmdsOk rank R t cs w (runScript.cmds E cx t cx' cs k w)
  | [], k, w, _, hi, _, _ => by
    simp only [runScript.cmds]
    by_cases hc : cx.crash = some (t, k)
    · left; simp only [hc, if_true]; exact ⟨rfl, hi.base, rfl, rfl⟩
    · right; simp only [hc, if_false]
      exact ⟨hi, BExt.refl _ _ _ _ _, RowsDecl.refl _ _ _, fun _ d hd => by simp at hd, fun h _ => h, CRASHED_ne_zero⟩
  | c :: cs, k, w, hS, hi, hng, hr => by
    rw [runScript.cmds]
    by_cases hc : cx.crash = some (t, k)
    · left; simp only [hc, if_true]; exact ⟨rfl, hi.base, rfl, rfl⟩
    simp only [hc, if_false]
    have hs := hE cx' c w (rank t) h1 h2 h3 hS hi (hr c (by simp))
      (fun p hp => by rw [h5] at hp; cases hp; exact ⟨Nat.le_refl _, hng⟩)
    have hS1 : SK (E.ifchangeCmd cx' c w).2 := hS.tr (hT cx' c w)
    rw [h5] at hs
    generalize E.ifchangeCmd cx' c w = res at hs hS1
    obtain ⟨rv, w1⟩ := res
    rcases hs with ⟨hk1, hk2⟩ | ⟨hi1, hb1, hrows, hgood, hnf, hnc⟩
    · left
      dsimp only at hk1 hk2
      subst hk1
      exact ⟨rfl, hk2⟩
    obtain ⟨hrd, hhas⟩ := hrows t rfl
    dsimp only at hi1 hb1 hrd hhas hgood hnf hnc hS1
    split
    · rename_i w1' heq
      simp only [Prod.mk.injEq] at heq
      obtain ⟨hrv, rfl⟩ := heq
      subst hrv
      have hng1 : ¬ Good w1 R t := fun h => hng ((hb1.good_above (Nat.le_refl _)).1 h)
      rcases cmdsK_spec hE hT h1 h2 h3 h5 cs (k + 1) w1 hS1 hi1 hng1
        (fun c' hc' => hr c' (List.mem_cons_of_mem _ hc')) with hk | ⟨a1, a2, a3, a4, a5, a6⟩
      · exact Or.inl (hk.from hb1.rc hb1.rules)
      right
      refine ⟨a1, hb1.trans a2, by rw [List.flatten_cons]; exact hrd.trans a3, ?_, fun h0 hz => a5 (hnf h0 rfl) hz, a6⟩
      intro hz d hd
      rw [List.flatten_cons, List.mem_append] at hd
      rcases hd with hd | hd
      · exact ⟨a2.good (hgood rfl d hd), a3.2 d true (hhas rfl d hd) (fun _ => rfl)⟩
      · exact a4 hz d hd
    · rename_i rv' w1' hne heq
      simp only [Prod.mk.injEq] at heq
      obtain ⟨rfl, rfl⟩ := heq
      have hrv : rv ≠ 0 := fun e => by first | exact hne e | exact hne e rfl | exact hne w1 e
      right
      exact ⟨hi1, hb1, hrd.mono (fun x hx => by rw [List.flatten_cons]; exact List.mem_append_left _ hx),
        fun h => absurd h hrv, fun _ h => absurd h hrv, hnc⟩

/-- `redo-always` run by the script of `t`, which is not exempt. -/
theorem rsAlwaysK_spec {rank R t w} {cx : Ctx} (sc : Script) (hcx : cx.runid = R) (hS : SK w)
    (hi : Inv rank R NoX w) (hng : ¬ Good w R t) (hlt : sc.always = true → rank alwaysId < rank t) :
    Inv rank R NoX (rsAlways cx t sc w) ∧ BExt rank R (rank t) (some t) w (rsAlways cx t sc w) ∧
    RowsDecl t (if sc.always then [alwaysId] else []) w (rsAlways cx t sc w) ∧
    (sc.always = true → Good (rsAlways cx t sc w) R alwaysId ∧ HasRowU (rsAlways cx t sc w) t alwaysId true) ∧
    (NoFail R w → NoFail R (rsAlways cx t sc w)) := by
  rw [rsAlways_eq, hcx]
  cases ha : sc.always with
  | false =>
    simp only [Bool.false_eq_true, if_false]
    exact ⟨hi, BExt.refl _ _ _ _ _, RowsDecl.refl _ _ _, fun h => h.elim, fun h => h⟩
  | true =>
    simp only [if_true]
    have hl := hlt ha
    have hro := RowOp.addDep w t alwaysId true
    have hiX := Inv_addDep (m := true) (X := addX NoX t) (hi.weaken (fun x hx => Or.inl hx)) (Or.inr rfl) hng hl
      (fun h => by cases h)
    have hi1 : Inv rank R NoX (addDep w t alwaysId true) :=
      hiX.release (KeepT_addDep hS (hi.base.keepT (fun hx => hx)))
    obtain ⟨a1, a2, a3, a4⟩ := always_spec (b := rank t) (po := some t) hi1 hl
    refine ⟨a1, hro.toBExtP.trans a2, ?_, fun _ => ⟨Or.inl a3, ?_⟩,
      fun h => a4 (h.eqv hro.eqv : NoFail R { addDep w t alwaysId true with deps := w.deps })⟩
    · have := addDep_rowsDecl w t alwaysId
      exact this
    · exact addDep_hasRowU_new w t alwaysId true

theorem runScript_richA' (E : Engine) (d : Defects) (cx : Ctx) (t : Nat) (sc : Script) (w : World) (hp : sc.RichA) :
    runScript E d cx t sc w =
      scriptEnd sc (runScript.cmds E cx t (childCx cx t) sc.ifchange 0 (rsAlways cx t sc w)) := by
  rw [runScript_richA E d cx t sc w hp]
  rfl

/-- The script of `t` (no `redo-ifcreate`, no conditional declarations), started in `w4`. -/
theorem ssb_run_auxK {rank R E t dof w2 w4} {cx : Ctx} {sc : Script} (hE : ESpecK rank R E) (hT : ETr E)
    (d : Defects) (hcx : cx.runid = R) (hS4 : SK w4)
    (hi4 : Inv rank R NoX w4) (hb4 : BExt rank R (rank t) (some t) w2 w4) (hng4 : ¬ Good w4 R t)
    (hdeps : w4.deps = w2.deps) (hg4 : Good w4 R dof) (hsc : scriptAt w4 dof = sc) (hra : sc.Rich)
    (hnw : sc.ifcreate = [] ∧ sc.cond = [])
    (hdP : w2.rules dof = []) (hn4 : NoFail R w2 → NoFail R w4)
    (hrk1 : sc.always = true → rank alwaysId < rank t)
    (hrk2 : ∀ d, (d ∈ sc.ifchange.flatten ∨ d ∈ sc.cond ∨ d ∈ sc.ifcreate) → rank d < rank t ∧ d ≠ alwaysId) :
    Killed rank R w2 ((runScript E d cx t sc w4).1, (runScript E d cx t sc w4).2.2) ∨
    RunPost rank R NoX t dof sc w2 (runScript E d cx t sc w4) := by
  rw [runScript_richA' E d cx t sc w4 ⟨hra, hnw.1, hnw.2⟩]
  obtain ⟨b1, b2, b3, b4, b5⟩ := rsAlwaysK_spec (cx := cx) sc hcx hS4 hi4 hng4 hrk1
  have hSA : SK (rsAlways cx t sc w4) := hS4.tr (rsAlways_tr cx t sc w4)
  have hngA : ¬ Good (rsAlways cx t sc w4) R t := fun h => hng4 (((b2.sameT (Nat.le_refl _)).good R).1 h)
  have hbA : BExt rank R (rank t) (some t) w2 (rsAlways cx t sc w4) := hb4.trans b2
  have hw : ∀ {w'}, Inv rank R NoX w' → Inv rank R (addX NoX t) w' := fun h => h.weaken (fun x hx => Or.inl hx)
  have hp : HeadPhase rank R t sc w2 (rsAlways cx t sc w4) := by
    refine HeadPhase.mk' hb4 hdeps b2 b3 b4 (by rw [hnw.1]; rfl) (RowOp.refl _ _) (RowsDecl2.refl _ _ _ _)
      (fun x hx => ?_) (fun x hx => ?_)
    · rw [hnw.1] at hx; cases hx
    · rw [hnw.1] at hx; cases hx
  have cp : CondsPost rank R (addX NoX t) t sc.cond (rsAlways cx t sc w4) ((0 : Status), rsAlways cx t sc w4) := by
    rw [hnw.2]
    exact ⟨hw b1, BExt.refl _ _ _ _ _, RowsDecl2.refl _ _ _ _, fun _ x hx => by simp at hx,
      fun _ x hx => by simp at hx, fun h _ => h, CRASHED_ne_zero⟩
  rcases cmdsK_spec (cx := cx) (cx' := childCx cx t) hE hT hcx rfl rfl rfl sc.ifchange 0 (rsAlways cx t sc w4) hSA b1
    hngA (fun c hc x hx => hrk2 x (Or.inl (List.mem_flatten.2 ⟨c, hc, hx⟩))) with hk | ⟨a1, a2, a3, a4, a5, a6⟩
  · left
    generalize runScript.cmds E cx t (childCx cx t) sc.ifchange 0 (rsAlways cx t sc w4) = r at hk ⊢
    obtain ⟨rv, w5⟩ := r
    obtain ⟨k1, k2, k3, k4⟩ := hk
    dsimp only at k1 k2 k3 k4
    subst k1
    have hne : CRASHED ≠ (0 : Status) := fun h => CRASHED_ne_zero h.symm
    simp only [scriptEnd, ne_eq, hne, not_false_eq_true, if_true]
    exact ⟨rfl, k2, k3.trans hbA.rc, k4.trans hbA.rules⟩
  · right
    generalize runScript.cmds E cx t (childCx cx t) sc.ifchange 0 (rsAlways cx t sc w4) = r at a1 a2 a3 a4 a5 a6 ⊢
    obtain ⟨rv, w5⟩ := r
    refine RunPost.finish hp cp (hw a1) a2 a3 a4 (fun h hz => a5 (b5 (hn4 h)) hz) a6 (fun x hx => ?_)
      (b2.good hg4) ?_ hdP
    · rcases hx with hx | hx
      · rw [hnw.2] at hx; cases hx
      · rw [hnw.1] at hx; cases hx
    · exact (scriptAt_congr (b2.plain dof (by rw [hb4.rules]; exact hdP)) b2.progs).trans hsc

/-- The run of the script of `t` chosen by `findDoFile` (world `w2`), whatever its outcome. -/
theorem ssb_runK {rank R E t dof w2} {cx : Ctx} (hE : ESpecK rank R E) (hT : ETr E) (d : Defects)
    (hcx : cx.runid = R) (hS2 : SK w2) (hi2 : Inv rank R NoX w2) (hng2 : ¬ Good w2 R t)
    (hdm : dof ∈ w2.rules t) (hdex : existsF w2 dof = true) :
    Killed rank R w2 ((runScript E d cx t (scriptAt (startW w2 R t dof) dof) (startW w2 R t dof)).1,
      (runScript E d cx t (scriptAt (startW w2 R t dof) dof) (startW w2 R t dof)).2.2) ∨
    RunPost rank R NoX t dof (scriptAt (startW w2 R t dof) dof) w2
      (runScript E d cx t (scriptAt (startW w2 R t dof) dof) (startW w2 R t dof)) := by
  have hdP : w2.rules dof = [] := (hi2.base.rulesOk.2 t dof hdm).1
  have hdlt : rank dof < rank t := hi2.base.ranked.1 t dof hdm
  obtain ⟨hi3, hg3, hb3, hn3⟩ := setStatic_spec (b := rank t) (po := some t) hi2 hdex
    (hi2.base.srcNotGen dof hdP) hdlt
  have hd3 : (setRec w2 dof (setStatic w2 dof (w2.recs dof) R)).deps = w2.deps := rfl
  have hS3 : SK (setRec w2 dof (setStatic w2 dof (w2.recs dof) R)) := hS2.tr (Tr.setRec _ _ _)
  unfold startW
  generalize setRec w2 dof (setStatic w2 dof (w2.recs dof) R) = w3 at hi3 hg3 hb3 hn3 hd3 hS3 ⊢
  have e4 := WEqv.ev w3 (.ran t)
  have hi4 := e4.inv hi3
  have hb4 : BExt rank R (rank t) (some t) w2 (ev w3 (.ran t)) := hb3.trans e4.toBExt
  have hng4 : ¬ Good (ev w3 (.ran t)) R t := fun h => hng2 (((hb4.sameT (Nat.le_refl _)).good R).1 h)
  have hdm4 : dof ∈ (ev w3 (.ran t)).rules t := by rw [hb4.rules]; exact hdm
  have hdeps : (ev w3 (.ran t)).deps = w2.deps := hd3
  have hg4 : Good (ev w3 (.ran t)) R dof := (e4.good R dof).2 hg3
  have hS4 : SK (ev w3 (.ran t)) := hS3.tr (Tr.ev _ _)
  have hra := scriptAt_rich hi4.base dof
  obtain ⟨hrk1, hrk2, _⟩ := scriptAt_hyg hi4.base hdm4
  exact ssb_run_auxK hE hT d hcx hS4 hi4 hb4 hng4 hdeps hg4 rfl hra (scriptAt_noWatch hS4.noWatch dof) hdP
    (fun h => (hn3 h).eqv e4) hrk1 hrk2

end RedoModel.Deps.Rich
