import RedoModel.Lemmas.LogFollow2
/-!
# `redo-log --follow` — the general sufficient condition for completeness

`CreateSafe s`: a new instance may be renamed over the log name in state `s` without harm — the follower has no
descriptor open, and it has not started or believes the target locked (so it will look again).  If every `create`
of a run happens in such a state, a returned follower has shown the whole log at the name.  Both special
hypotheses (no `create`; one build and no old instance) are instances.
-/
namespace RedoModel.LogFollow

def CreateSafe (s : Sys) : Prop := s.opened = none ∧ (s.pc = .start ∨ s.wasLocked = true)

/-- Every accepted `create` of the run happens in a `CreateSafe` state. -/
def SafeRun : Sys → List Ev → Prop
  | _, [] => True
  | s, e :: es => ∀ s', step s e = some s' → (e = .create → CreateSafe s) ∧ SafeRun s' es

/-- A returned follower believed the target unlocked. -/
def StopWl (s : Sys) : Prop := s.pc = .stopped → s.wasLocked = false

theorem StopWl_step (s : Sys) (e : Ev) (s' : Sys) (hs : StopWl s) (h : step s e = some s') : StopWl s' := by
  unfold StopWl at hs ⊢
  cases e with
  | lock => simp only [step] at h; split at h <;> cases h; exact hs
  | unlock => simp only [step] at h; split at h <;> cases h; exact hs
  | create => simp only [step] at h; split at h <;> cases h; exact hs
  | append l => simp only [step] at h; split at h <;> cases h; exact hs
  | fol =>
    simp only [step] at h
    split at h
    · cases h; intro h2; simp at h2
    · split at h
      · cases h; intro h2; simp at h2
      · split at h <;> (cases h; intro h2; simp at h2)
    · split at h
      · cases h; intro h2; simp at h2
      · split at h
        · cases h; intro h2; simp at h2
        · next hw => cases h; intro _; simpa using hw
    · cases h; intro h2; simp at h2
    · cases h

theorem Good_step_create (s s' : Sys) (hg : Good s) (hs : StopWl s) (hc : CreateSafe s)
    (h : step s .create = some s') : Good s' := by
  have hpre := Pre_step s _ s' hg.pre h
  obtain ⟨hop, hc⟩ := hc
  simp only [step] at h; split at h
  · cases h
    refine ⟨hpre, ?_, ?_, ?_, ?_⟩
    · intro g hg; simp [hop] at hg
    · intro _ h2 h3
      exfalso
      dsimp only at h2 h3
      rcases hc with hc | hc
      · rcases h2 with h2 | h2 <;> simp [hc] at h2
      · simp [hc] at h3
    · intro h1 h2
      exfalso
      dsimp only at h1 h2
      rcases hc with hc | hc
      · exact h1 hc
      · simp [hc] at h2
    · intro h1
      exfalso
      dsimp only at h1
      rcases hc with hc | hc
      · simp [hc] at h1
      · have := hs h1; simp [hc] at this
  · cases h

theorem Good_safeRun {s s' : Sys} {es : List Ev} (h : run s es = some s') (hsafe : SafeRun s es)
    (hg : Good s ∧ StopWl s) : Good s' ∧ StopWl s' := by
  induction es generalizing s with
  | nil => simp only [run, Option.some.injEq] at h; exact h ▸ hg
  | cons e es ih =>
    simp only [run] at h
    cases hs : step s e with
    | none => rw [hs] at h; cases h
    | some s1 =>
      rw [hs] at h
      obtain ⟨hc, hsafe1⟩ := hsafe s1 hs
      refine ih h hsafe1 ⟨?_, StopWl_step s e s1 hg.2 hs⟩
      by_cases he : e = .create
      · subst he; exact Good_step_create s s1 hg.1 hg.2 (hc rfl) hs
      · exact Good_step s e s1 hg.1 he hs

theorem complete_general (insts : List (List Nat)) (ph : Phase) (es : List Ev) (s : Sys)
    (hsafe : SafeRun (enter insts ph) es) (h : run (enter insts ph) es = some s) (hpc : s.pc = .stopped) :
    s.emitted.reverse = current s ∧ s.phase ≠ .building :=
  have hg := (Good_safeRun h hsafe ⟨Good_enter insts ph, by simp [StopWl, enter]⟩).1
  ⟨(hg.stop hpc).2, (hg.stop hpc).1⟩

/-! ### The two special hypotheses are instances -/

theorem safeRun_of_no_create (es : List Ev) : ∀ s, Ev.create ∉ es → SafeRun s es := by
  induction es with
  | nil => intro _ _; trivial
  | cons e es ih =>
    intro s hnc s' _
    exact ⟨fun he => absurd List.mem_cons_self (he ▸ hnc), ih s' (fun hm => hnc (List.mem_cons_of_mem _ hm))⟩

theorem safeRun_of_one_build (es : List Ev) : ∀ s, Ev.lock ∉ es → Fresh s ∨ Settled s → SafeRun s es := by
  induction es with
  | nil => intro _ _ _; trivial
  | cons e es ih =>
    intro s hnl hs s' hstep
    have hne : e ≠ .lock := fun he => hnl (he ▸ List.mem_cons_self)
    have hnl' : Ev.lock ∉ es := fun hm => hnl (List.mem_cons_of_mem _ hm)
    rcases hs with hf | hst
    · refine ⟨fun _ => ?_, ih s' hnl' (Fresh_step s e s' hf hne hstep)⟩
      obtain ⟨_, _, hop, _, hwl, _⟩ := hf
      refine ⟨hop, ?_⟩
      by_cases hp : s.pc = .start
      · exact .inl hp
      · exact .inr (hwl hp)
    · refine ⟨fun he => ?_, ih s' hnl' (.inr (Settled_step s e s' hst hne hstep))⟩
      subst he
      simp [step, hst.2] at hstep

theorem safeRun_enter_one_build (insts : List (List Nat)) (ph : Phase) (es : List Ev)
    (ha : ph = .lockedNoLog → insts = []) (hb : Ev.lock ∉ es) : SafeRun (enter insts ph) es := by
  apply safeRun_of_one_build es _ hb
  by_cases hph : ph = .lockedNoLog
  · rw [hph, ha hph]; exact .inl Fresh_enter
  · exact .inr (Settled_enter insts ph hph)

/-- The follower entered before the `create` but made no step, or only its first one, before it: harmless even
with an old instance at the name. -/
theorem safeRun_example :
    SafeRun (enter [[1]] .lockedNoLog) [.fol, .create, .append 2, .fol, .fol, .unlock, .fol, .fol, .fol, .fol, .fol] ∧
    (run (enter [[1]] .lockedNoLog) [.fol, .create, .append 2, .fol, .fol, .unlock, .fol, .fol, .fol, .fol, .fol]).map
      (fun s => (s.pc, s.emitted, current s)) = some (.stopped, [2], [2]) := by
  refine ⟨?_, by decide⟩
  simp [SafeRun, step, enter, CreateSafe, locked]

end RedoModel.LogFollow
