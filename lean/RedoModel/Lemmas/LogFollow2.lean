import RedoModel.Lemmas.LogFollow1
/-!
# `redo-log --follow` — one build per session (`lock` never taken again), fresh log allowed

If the follower enters while the builder holds the lock and has not created the instance yet, it is still correct
provided there is NO old instance at the log name (`insts = []`): it cannot open anything before the `create`.
-/
namespace RedoModel.LogFollow

/-- Lock held, nothing created yet, no log file at all: the follower can only spin. -/
def Fresh (s : Sys) : Prop :=
  s.phase = .lockedNoLog ∧ s.insts = [] ∧ s.opened = none ∧ s.emitted = [] ∧
    (s.pc ≠ .start → s.wasLocked = true) ∧ s.pc ≠ .stopped

/-- `Good`, and the lock is not in the state "held, nothing created" (so no `create` can be accepted before a `lock`). -/
def Settled (s : Sys) : Prop := Good s ∧ s.phase ≠ .lockedNoLog

theorem Fresh_enter : Fresh (enter [] .lockedNoLog) := by simp [Fresh, enter]

theorem Settled_enter (insts : List (List Nat)) (ph : Phase) (h : ph ≠ .lockedNoLog) : Settled (enter insts ph) :=
  ⟨Good_enter insts ph, h⟩

theorem Settled_step (s : Sys) (e : Ev) (s' : Sys) (hs : Settled s) (hne : e ≠ .lock) (h : step s e = some s') :
    Settled s' := by
  obtain ⟨hg, hph⟩ := hs
  cases e with
  | lock => exact absurd rfl hne
  | create => simp [step, hph] at h
  | unlock =>
    refine ⟨Good_step s _ s' hg (by simp) h, ?_⟩
    simp only [step] at h; split at h
    · cases h
    · cases h; simp
  | append l =>
    refine ⟨Good_step s _ s' hg (by simp) h, ?_⟩
    simp only [step] at h; split at h
    · cases h; exact hph
    · cases h
  | fol =>
    refine ⟨Good_step s _ s' hg (by simp) h, ?_⟩
    simp only [step] at h
    split at h
    · cases h; exact hph
    · split at h
      · cases h; exact hph
      · split at h <;> (cases h; exact hph)
    · split at h
      · cases h; exact hph
      · split at h <;> (cases h; exact hph)
    · cases h; exact hph
    · cases h

theorem Fresh_step (s : Sys) (e : Ev) (s' : Sys) (hf : Fresh s) (hne : e ≠ .lock) (h : step s e = some s') :
    Fresh s' ∨ Settled s' := by
  obtain ⟨hph, hin, hop, hem, hwl, hpc⟩ := hf
  cases e with
  | lock => exact absurd rfl hne
  | append l => simp [step, hph] at h
  | create =>
    simp only [step, hph, if_true, Option.some.injEq] at h
    subst h
    refine .inr ⟨⟨?_, ?_, ?_, ?_, ?_⟩, by simp⟩
    · simp [Pre, hop, hem]
    · intro g hg; simp [hop] at hg
    · intro _ h2 h3
      rcases h2 with h2 | h2
      · have := hwl (by simp only [] at h2; simp [h2]); simp [this] at h3
      · exact absurd h2 hpc
    · intro h1 h2; have := hwl h1; simp [this] at h2
    · intro h1; exact absurd h1 hpc
  | unlock =>
    simp only [step, hph] at h
    simp only [reduceCtorEq, if_false, Option.some.injEq] at h
    subst h
    refine .inr ⟨⟨?_, ?_, ?_, ?_, ?_⟩, by simp⟩
    · simp [Pre, hop, hem]
    · intro g hg; simp [hop] at hg
    · intro _ _ _; exact hin
    · intro _ _; simp
    · intro h1; exact absurd h1 hpc
  | fol =>
    left
    simp only [step] at h
    split at h
    · cases h; simp [Fresh, hph, hin, hop, hem, locked]
    · next hp =>
      simp only [hop, hin, List.isEmpty_nil, if_true, Option.some.injEq] at h
      subst h
      have hw := hwl (by simp [hp])
      simp [Fresh, hph, hem, hw]
    · next hp =>
      have hw := hwl (by simp [hp])
      simp only [hop, hw, if_true, Option.some.injEq] at h
      subst h
      simp [Fresh, hph, hin, hem]
    · cases h; simp [Fresh, hph, hin, hop, hem, locked]
    · cases h

theorem FreshOrSettled_run {s s' : Sys} {es : List Ev} (h : run s es = some s') (hnl : Ev.lock ∉ es)
    (hs : Fresh s ∨ Settled s) : Fresh s' ∨ Settled s' :=
  run_induct (fun s => Fresh s ∨ Settled s) (fun e => e ≠ .lock)
    (fun s e s' hp hne h => by
      rcases hp with hp | hp
      · exact Fresh_step s e s' hp hne h
      · exact .inr (Settled_step s e s' hp hne h))
    h (fun _ he hc => hnl (hc ▸ he)) hs

/-- Stopped, lock free: nothing at all is accepted before the next `lock`. -/
theorem idle_stopped_run {s s' : Sys} {es : List Ev} (h : run s es = some s') (hnl : Ev.lock ∉ es)
    (hpc : s.pc = .stopped) (hph : s.phase = .idle) : es = [] ∧ s' = s := by
  cases es with
  | nil => simp only [run, Option.some.injEq] at h; exact ⟨rfl, h.symm⟩
  | cons e es =>
    exfalso
    simp only [run] at h
    cases e with
    | lock => exact hnl List.mem_cons_self
    | create => simp [step, hph] at h
    | unlock => simp [step, hph] at h
    | append l => simp [step, hph] at h
    | fol => simp [step, hpc] at h

/-- One build per session: completeness, with a fresh log allowed. -/
theorem complete_one_build (insts : List (List Nat)) (ph : Phase) (es : List Ev) (s : Sys)
    (ha : ph = .lockedNoLog → insts = []) (hb : Ev.lock ∉ es)
    (h : run (enter insts ph) es = some s) (hpc : s.pc = .stopped) :
    s.emitted.reverse = current s ∧ s.phase = .idle ∧
      ∀ es' s', Ev.lock ∉ es' → run s es' = some s' → es' = [] ∧ s' = s := by
  have h0 : Fresh (enter insts ph) ∨ Settled (enter insts ph) := by
    by_cases hph : ph = .lockedNoLog
    · rw [hph, ha hph]; exact .inl Fresh_enter
    · exact .inr (Settled_enter insts ph hph)
  rcases FreshOrSettled_run h hb h0 with hf | ⟨hg, hph⟩
  · exact absurd hpc hf.2.2.2.2.2
  · obtain ⟨hnb, hem⟩ := hg.stop hpc
    have hidle : s.phase = .idle := by
      cases hp : s.phase with
      | idle => rfl
      | lockedNoLog => exact absurd hp hph
      | building => exact absurd hp hnb
    exact ⟨hem, hidle, fun es' s' hnl h' => idle_stopped_run h' hnl hpc hidle⟩

end RedoModel.LogFollow
