import RedoModel.Lemmas.DepsShift3
import RedoModel.Lemmas.DepsOod
set_option linter.unusedSimpArgs false
/-!
# Run-id shift — part 4: a query between two commands does not change what the next build does
-/
namespace RedoModel.Deps
open RedoModel.Generated

/-! ### redo-ood's walk writes records only (not even the ghost trace) -/

def OnlyRecs (w w' : World) : Prop := w' = { w with recs := w'.recs }

theorem OnlyRecs.refl (w : World) : OnlyRecs w w := rfl

theorem OnlyRecs.trans {a b c : World} (h1 : OnlyRecs a b) (h2 : OnlyRecs b c) : OnlyRecs a c := by
  unfold OnlyRecs at *
  rw [h2, h1]

theorem OnlyRecs.setRec (w : World) (f : Nat) (r : Rec) : OnlyRecs w (setRec w f r) := rfl

theorem goDeps_onlyRecs (chk : World → List Nat → Nat → Rec → DR × World × List Nat)
    (hchk : ∀ w c s r, OnlyRecs w (chk w c s r).2.1) (hasCsum : Bool) (f : Nat) :
    ∀ (ds : List (Dep × Rec)) (w : World) (cache must : List Nat),
      OnlyRecs w (goDeps chk hasCsum f ds w cache must).2.1
  | [], w, cache, must => by rw [goDeps]; exact OnlyRecs.refl w
  | (d, snap) :: ds, w, cache, must => by
    rw [goDeps]
    by_cases hm : d.modeM = true
    · simp only [hm, if_true]
      have h1 := hchk w cache d.source snap
      generalize chk w cache d.source snap = r at h1
      obtain ⟨sub, w1, c1⟩ := r
      cases sub with
      | cyclic => exact h1
      | clean => exact h1.trans (goDeps_onlyRecs chk hchk hasCsum f ds w1 c1 must)
      | dirty => exact h1
      | need ts => exact h1.trans (goDeps_onlyRecs chk hchk hasCsum f ds w1 c1 (must ++ ts))
    · simp only [hm, Bool.false_eq_true, if_false]
      by_cases hex : existsF w d.source = true
      · simp only [hex, if_true]; exact OnlyRecs.refl w
      · simp only [hex, Bool.false_eq_true, if_false]
        exact goDeps_onlyRecs chk hchk hasCsum f ds w cache must

theorem isDirty_ood_onlyRecs (R : Nat) :
    ∀ (fuel : Nat) (w : World) (cache : List Nat) (f mx : Nat) (seen : List Nat) (pre : Option Rec),
      OnlyRecs w (isDirty true R fuel w cache f mx seen pre).2.1
  | 0, w, cache, f, mx, seen, pre => by rw [isDirty]; exact OnlyRecs.refl w
  | fuel + 1, w, cache, f, mx, seen, pre => by
    simp (config := { zeta := true, zetaHave := true }) only [isDirty, ↓reduceIte]
    generalize pre.getD (getRec w R f) = r
    split
    · exact OnlyRecs.refl w
    split
    · exact OnlyRecs.refl w
    split
    · exact OnlyRecs.refl w
    rename_i ch hch
    split
    · exact OnlyRecs.refl w
    split
    · exact OnlyRecs.refl w
    split
    · exact OnlyRecs.refl w
    split
    · dsimp only
      split
      · exact OnlyRecs.setRec w f _
      · exact OnlyRecs.refl w
    have hgd := goDeps_onlyRecs
      (fun w2 cache s snap => isDirty true R fuel w2 cache s (max ch (r.checked.getD 0)) (f :: seen) (some snap))
      (fun w2 c s r2 => isDirty_ood_onlyRecs R fuel w2 c s _ (f :: seen) (some r2))
      r.csum.isSome f (depsWithRecs w R r f) w cache []
    generalize goDeps _ r.csum.isSome f (depsWithRecs w R r f) w cache [] = gr at hgd
    obtain ⟨o, w2, c2⟩ := gr
    cases o with
    | some dr => exact hgd
    | none =>
      simp only [Bool.not_true, Bool.and_false, Bool.false_eq_true, if_false]
      exact hgd

theorem go_onlyRecs (R fuel : Nat) : ∀ (fs : List Nat) (w : World) (cache acc : List Nat),
    OnlyRecs w (runCmd.go R fuel fs w cache acc).2
  | [], w, cache, acc => by rw [runCmd.go]; exact OnlyRecs.refl w
  | f :: fs, w, cache, acc => by
    rw [runCmd.go]
    have h1 := isDirty_ood_onlyRecs R fuel w cache f R [] none
    generalize isDirty true R fuel w cache f R [] none = r at h1
    obtain ⟨dr, w1, c1⟩ := r
    exact h1.trans (go_onlyRecs R fuel fs w1 c1 _)

/-- A query leaves the world as it was, one run id consumed. -/
theorem query_world (d : Defects) (n : Nat) (w : World) (c : Cmd) (hc : c = .ood ∨ c = .targets ∨ c = .sources) :
    (runCmd d n c w).2 = { w with runCounter := w.runCounter + 1 } := by
  rcases hc with h | h | h <;> subst h
  · have h := go_onlyRecs (w.runCounter + 1) (2 * n + 4)
      ((knownFiles { w with runCounter := w.runCounter + 1 } n).filter
        (isTarget { w with runCounter := w.runCounter + 1 } (w.runCounter + 1)))
      { w with runCounter := w.runCounter + 1 } [] []
    have e : (runCmd d n .ood w).2 =
      { (runCmd.go (w.runCounter + 1) (2 * n + 4)
          ((knownFiles { w with runCounter := w.runCounter + 1 } n).filter
            (isTarget { w with runCounter := w.runCounter + 1 } (w.runCounter + 1)))
          { w with runCounter := w.runCounter + 1 } [] []).2 with recs := w.recs, deps := w.deps } := rfl
    rw [e]
    unfold OnlyRecs at h
    rw [h]
  · rfl
  · rfl

/-! ### Shifting at a fresh run id is the identity on the records -/

theorem shRec_of_wf {w : World} (hwf : WF w) (f : Nat) : shRec (w.runCounter + 1) (w.recs f) = w.recs f := by
  obtain ⟨h1, h2, h3⟩ := hwf f
  have hm : ∀ o : Option Nat, (∀ c, o = some c → c ≤ w.runCounter) → o.map (sh (w.runCounter + 1)) = o := by
    intro o ho
    cases o with
    | none => rfl
    | some c => simp only [Option.map_some]; rw [sh_of_lt (by have := ho c rfl; omega)]
  unfold shRec
  rw [hm _ h1, hm _ h2, hm _ h3]

theorem shW_alloc {w : World} (hwf : WF w) :
    shW (w.runCounter + 1) { w with runCounter := w.runCounter + 1 } = { w with runCounter := w.runCounter + 1 + 1 } := by
  unfold shW
  dsimp only
  congr 1
  funext f
  exact shRec_of_wf hwf f

/-! ### The build commands -/

theorem runCmd_redo_eq (d : Defects) (n : Nat) (ts : List Nat) (kg : Bool) (w : World) :
    runCmd d n (.redo ts kg) w =
      ({ status := (runTargets (engine d (2 * n + 4)) d { runid := w.runCounter + 1, keepGoing := kg, isRedo := true }
            (2 * n + 4) ts [] false { w with runCounter := w.runCounter + 1 }).1 },
        (runTargets (engine d (2 * n + 4)) d { runid := w.runCounter + 1, keepGoing := kg, isRedo := true }
            (2 * n + 4) ts [] false { w with runCounter := w.runCounter + 1 }).2) := rfl

theorem runCmd_ifchange_eq (d : Defects) (n : Nat) (ts : List Nat) (kg : Bool) (w : World) :
    runCmd d n (.ifchange ts kg) w =
      ({ status := (runTargets (engine d (2 * n + 4)) d { runid := w.runCounter + 1, keepGoing := kg }
            (2 * n + 4) ts [] false { w with runCounter := w.runCounter + 1 }).1 },
        (runTargets (engine d (2 * n + 4)) d { runid := w.runCounter + 1, keepGoing := kg }
            (2 * n + 4) ts [] false { w with runCounter := w.runCounter + 1 }).2) := rfl

/-- A build command that starts one run id later on the same records does the same, with its own
run id in place of the earlier one. -/
theorem build_shift (d : Defects) (n : Nat) (w : World) (hwf : WF w) (b : Cmd)
    (hb : ∃ ts kg, b = .redo ts kg ∨ b = .ifchange ts kg) :
    runCmd d n b { w with runCounter := w.runCounter + 1 } =
      ((runCmd d n b w).1, shW (w.runCounter + 1) (runCmd d n b w).2) := by
  obtain ⟨ts, kg, h | h⟩ := hb <;> subst h
  · rw [runCmd_redo_eq, runCmd_redo_eq]
    dsimp only
    rw [← shW_alloc hwf]
    have := runTargets_sh (R := w.runCounter + 1) (by omega) (engine_sh (by omega) d (2 * n + 4)) d
      { runid := w.runCounter + 1, keepGoing := kg, isRedo := true } rfl (2 * n + 4) ts [] false
      { w with runCounter := w.runCounter + 1 }
    exact congrArg (fun x => (({ status := x.1 } : Result), x.2)) this
  · rw [runCmd_ifchange_eq, runCmd_ifchange_eq]
    dsimp only
    rw [← shW_alloc hwf]
    have := runTargets_sh (R := w.runCounter + 1) (by omega) (engine_sh (by omega) d (2 * n + 4)) d
      { runid := w.runCounter + 1, keepGoing := kg } rfl (2 * n + 4) ts [] false
      { w with runCounter := w.runCounter + 1 }
    exact congrArg (fun x => (({ status := x.1 } : Result), x.2)) this

/-- Goal 2: with a query in between, the next build command returns the same result and leaves the
same world up to the renaming of its own run id. -/
theorem build_after_query (d : Defects) (n : Nat) (w : World) (hwf : WF w) (c : Cmd)
    (hc : c = .ood ∨ c = .targets ∨ c = .sources) (b : Cmd)
    (hb : ∃ ts kg, b = .redo ts kg ∨ b = .ifchange ts kg) :
    runCmd d n b (runCmd d n c w).2 = ((runCmd d n b w).1, shW (w.runCounter + 1) (runCmd d n b w).2) := by
  rw [query_world d n w c hc]
  exact build_shift d n w hwf b hb

theorem build_after_query_obs (d : Defects) (n : Nat) (w : World) (hwf : WF w) (c : Cmd)
    (hc : c = .ood ∨ c = .targets ∨ c = .sources) (b : Cmd)
    (hb : ∃ ts kg, b = .redo ts kg ∨ b = .ifchange ts kg) :
    (runCmd d n b (runCmd d n c w).2).2.fs = (runCmd d n b w).2.fs ∧
    (runCmd d n b (runCmd d n c w).2).1.status = (runCmd d n b w).1.status ∧
    (runCmd d n b (runCmd d n c w).2).2.trace = (runCmd d n b w).2.trace ∧
    (runCmd d n b (runCmd d n c w).2).2.deps = (runCmd d n b w).2.deps := by
  rw [build_after_query d n w hwf c hc b hb]
  exact ⟨rfl, rfl, rfl, rfl⟩

/-- The queries keep the world well-formed. -/
theorem WF_query (d : Defects) (n : Nat) (w : World) (hwf : WF w) (c : Cmd)
    (hc : c = .ood ∨ c = .targets ∨ c = .sources) : WF (runCmd d n c w).2 := by
  rw [query_world d n w c hc]
  intro f
  obtain ⟨h1, h2, h3⟩ := hwf f
  exact ⟨fun c hc => Nat.le_succ_of_le (h1 c hc), fun c hc => Nat.le_succ_of_le (h2 c hc),
    fun c hc => Nat.le_succ_of_le (h3 c hc)⟩

end RedoModel.Deps
