import RedoModel.Paths
/-
Model of the structured log records and of log replay:

* `logs::Meta::parse`, `impl Display for Meta`, `Meta::parse_done_text`, `logs::is_valid_log_line` (src/logs.rs)
* `clean_line` and the replay (non-`--follow`) path of `LogState::catlog` (src/bin/redo/log.rs), including the
  splitting of a record glued to unterminated text (`unglue`)

Strings are `List Char`.  A pid is kept as its canonical decimal token, a timestamp as its
canonical `digits.dddd` token (floats are never compared): `canonI32` / `canonTs` say which
tokens the Rust accepts and what it prints back for them.
-/
namespace RedoModel.LogRec
open RedoModel.Paths

def pre : List Char := ['@', '@', 'R', 'E', 'D', 'O', ':']
def sep : List Char := ['@', '@', ' ']

def kUnchanged : List Char := ['u', 'n', 'c', 'h', 'a', 'n', 'g', 'e', 'd']
def kDo : List Char := ['d', 'o']
def kWaiting : List Char := ['w', 'a', 'i', 't', 'i', 'n', 'g']
def kLocked : List Char := ['l', 'o', 'c', 'k', 'e', 'd']
def kUnlocked : List Char := ['u', 'n', 'l', 'o', 'c', 'k', 'e', 'd']
def kDone : List Char := ['d', 'o', 'n', 'e']
def kResumed : List Char := ['r', 'e', 's', 'u', 'm', 'e', 'd']

structure Rec where
  kind : List Char
  pid : List Char
  ts : List Char
  text : List Char
  deriving DecidableEq, Repr

/-- `impl Display for Meta`: `@@REDO:kind:pid:ts@@ text`. -/
def format (r : Rec) : List Char :=
  pre ++ (r.kind ++ ':' :: (r.pid ++ ':' :: r.ts)) ++ (sep ++ r.text)

def isPrefix : List Char → List Char → Bool
  | [], _ => true
  | _ :: _, [] => false
  | a :: as, b :: bs => a == b && isPrefix as bs

/-- First occurrence of `pat`: (text before, text after). -/
def findSub (pat : List Char) : List Char → Option (List Char × List Char)
  | [] => if pat.isEmpty then some ([], []) else none
  | c :: cs =>
    if isPrefix pat (c :: cs) then some ([], (c :: cs).drop pat.length)
    else match findSub pat cs with
      | none => none
      | some (a, b) => some (c :: a, b)

/-- `str::split(d)`. -/
def splitOn (d : Char) : List Char → List (List Char)
  | [] => [[]]
  | c :: cs =>
    if c = d then [] :: splitOn d cs
    else match splitOn d cs with
      | [] => [[c]]
      | h :: t => (c :: h) :: t

def isDigit (c : Char) : Bool := '0' ≤ c && c ≤ '9'

def digitsVal (ds : List Char) : Nat := ds.foldl (fun n c => n * 10 + (c.toNat - 48)) 0

def stripZeros : List Char → List Char
  | '0' :: d :: ds => stripZeros (d :: ds)
  | ds => ds

def signSplit : List Char → Bool × List Char
  | '-' :: ds => (true, ds)
  | '+' :: ds => (false, ds)
  | ds => (false, ds)

def canonI32Core (neg : Bool) (ds : List Char) : Option (List Char) :=
  if ds.isEmpty || !ds.all isDigit then none
  else if neg then
    if digitsVal ds > 2147483648 then none
    else if digitsVal ds = 0 then some ['0'] else some ('-' :: stripZeros ds)
  else if digitsVal ds > 2147483647 then none else some (stripZeros ds)

/-- `str::parse::<i32>` followed by `Display`: the canonical token, or `none` when rejected. -/
def canonI32 (tok : List Char) : Option (List Char) :=
  canonI32Core (signSplit tok).1 (signSplit tok).2

/-- Accepts what `str::parse::<f64>` accepts (decimal grammar with optional exponent,
`inf`/`infinity`/`nan` in any case, optional sign). -/
def validF64 (tok : List Char) : Bool :=
  let body := match tok with
    | '-' :: r => r
    | '+' :: r => r
    | r => r
  let low := body.map Char.toLower
  if low = "inf".toList || low = "infinity".toList || low = "nan".toList then true
  else
    let (mant, exp) := match findE body with
      | none => (body, none)
      | some (m, e) => (m, some e)
    let mantOk :=
      match splitOn '.' mant with
      | [i] => !i.isEmpty && i.all isDigit
      | [i, f] => (!i.isEmpty || !f.isEmpty) && i.all isDigit && f.all isDigit
      | _ => false
    let expOk := match exp with
      | none => true
      | some e =>
        let e' := match e with
          | '-' :: r => r
          | '+' :: r => r
          | r => r
        !e'.isEmpty && e'.all isDigit
    mantOk && expOk
where
  findE : List Char → Option (List Char × List Char)
    | [] => none
    | c :: cs =>
      if c = 'e' || c = 'E' then some ([], cs)
      else match findE cs with
        | none => none
        | some (a, b) => some (c :: a, b)

/-- A timestamp token that `{:.4}` prints back unchanged: `digits.dddd`, no redundant
leading zero, at most 15 significant digits (exactly representable round trip). -/
def canonTs (tok : List Char) : Bool :=
  match splitOn '.' tok with
  | [i, f] => !i.isEmpty && i.all isDigit && f.length = 4 && f.all isDigit
      && stripZeros i = i && i.length + 4 ≤ 15
  | _ => false

inductive PErr | noPrefix | newline | unterminated | atInMeta | noPid | badPid | noTs | badTs
  deriving DecidableEq, Repr

/-- `Meta::parse`.  The timestamp is returned as written when canonical, else as given
(the correspondence check compares it only when canonical). -/
def parse (s : List Char) : Except PErr Rec :=
  if !isPrefix pre s then .error .noPrefix
  else if s.contains '\n' then .error .newline
  else match findSub sep (s.drop pre.length) with
    | none => .error .unterminated
    | some (m, text) =>
      if m.contains '@' then .error .atInMeta
      else match splitOn ':' m with
        | [] => .error .noPid
        | [_] => .error .noPid
        | kind :: pid :: rest =>
          match canonI32 pid with
          | none => .error .badPid
          | some p =>
            match rest with
            | [] => .error .noTs
            | ts :: _ =>
              if canonTs ts || validF64 ts then .ok { kind := kind, pid := p, ts := ts, text := text }
              else .error .badTs

def parsedKind (s : List Char) : Option (List Char × List Char) :=
  match parse s with
  | .ok r => some (r.kind, r.text)
  | .error _ => none

/-- `Meta::parse_done_text`: `"<rv> <name>"`. -/
def parseDoneText (text : List Char) : Option (List Char × List Char) :=
  match findSub [' '] text with
  | none => none
  | some (rv, name) =>
    match canonI32 rv with
    | none => none
    | some rv => some (rv, name)

/-- `logs::is_valid_log_line`: exactly one `\n`, at the end. -/
def isValidLogLine (l : List Char) : Bool :=
  match l.reverse with
  | '\n' :: r => !r.contains '\n'
  | _ => false

/-- `char::is_whitespace` (Unicode White_Space). -/
def isWhitespace (c : Char) : Bool :=
  let n := c.toNat
  (9 ≤ n && n ≤ 13) || n = 32 || n = 0x85 || n = 0xA0 || n = 0x1680 || (0x2000 ≤ n && n ≤ 0x200A)
    || n = 0x2028 || n = 0x2029 || n = 0x202F || n = 0x205F || n = 0x3000

def trimEnd (l : List Char) : List Char := (l.reverse.dropWhile isWhitespace).reverse

/-- `clean_line`, without the final newline (lines are kept newline-free in the model). -/
def cleanLine (l : List Char) : List Char := trimEnd l

/-! ### Replay of a log forest (`redo-log -r [-u] --no-pretty`, no `--follow`), with directories

Names in a log are relative to the directory of the log's target (`mydir = t.parent()` in `catlog`). -/

/-- The part of `t` before its last `/` (`[]` if there is none). -/
def beforeLast : List Char → List Char
  | [] => []
  | c :: cs => if cs.contains '/' then c :: beforeLast cs else []

/-- On the reversed directory part: drop trailing `/` and `/.` (what `Components::as_path` trims at the back). -/
def stripTailR : List Char → List Char
  | '/' :: r => stripTailR r
  | '.' :: '/' :: r => stripTailR r
  | r => r

/-- `t.parent().unwrap_or_default()`: the part before the last `/` without trailing `/` and `/.` (`std::path` works on
components: `a/./b` and `a//b` have the parent `a`; a leading `.` is kept), `/` itself for a name directly under the
root.  Whatever `std` does more than this (trailing `/` on `t` itself) is erased by `normpath`; the name is only ever
used under `normpath` or as a ghost tag — and as the text of a `resumed` record, where the differential test compares
it literally. -/
def dirOf (t : List Char) : List Char :=
  let d := (stripTailR (beforeLast t).reverse).reverse
  if d.isEmpty && rooted t then ['/'] else d

/-- `mydir.join(x)` (`PathBuf::push`): an absolute `x` replaces `mydir`; the empty `mydir` adds nothing.
(`join("/", x)` is `/x`, here `//x`: erased by `normpath`.) -/
def joinP (d x : List Char) : List Char :=
  if rooted x || d.isEmpty then x else d ++ '/' :: x

/-- The name a record text `x` in the log of `t` stands for: `mydir.join(x)`. -/
def resolve (t x : List Char) : List Char := joinP (dirOf t) x

inductive Out
  | record (kind text : List Char)
  | raw (line : List Char)
  deriving DecidableEq, Repr

/-- An output line with the (ghost) target whose `catlog` invocation emitted it. -/
structure Tagged where
  tag : List Char
  out : Out
  deriving DecidableEq, Repr

structure St where
  already : List (List Char)
  out : List Tagged        -- most recent first
  deriving Repr

/-- `badDone` is no longer produced (a `done` record without `<status> <name>` is passed through as text:
`C18.replay_never_fails_on_done`); the constructor is kept for the driver. -/
inductive CErr | outOfFuel | unknownTarget | badDone | emptyText
  deriving DecidableEq, Repr

/-- A forest: every target known to the database, with its log file's lines if the file exists. -/
abbrev Forest := List (List Char × Option (List (List Char)))

def lookup (F : Forest) (t : List Char) : Option (Option (List (List Char))) :=
  match F.find? (fun e => e.1 == t) with
  | none => none
  | some e => some e.2

def emit (st : St) (tag : List Char) (o : Out) : St := { st with out := ⟨tag, o⟩ :: st.out }

/-- The per-line loop of `catlog`; `recurse` is `catlog` with less fuel.
Returns the state, `interrupted` and `lines_written`. -/
def lines (recurse : List Char → St → Except CErr (St × Nat)) (optU optR : Bool) (t : List Char) :
    List (List Char) → St → Nat → Nat → Except CErr (St × Nat)
  | [], st, _, w => .ok (st, w)
  | l :: ls, st, intr, w =>
    match parse l with
    | .error _ =>
      let st := if intr ≠ 0 then emit st t (.record kResumed t) else st
      lines recurse optU optR t ls (emit st t (.raw (cleanLine l))) 0 (w + 1)
    | .ok g =>
      -- `new_t = mydir.join(g.text)`; `fixname = normpath(new_t)`.  What is printed is `relname = rel(topdir, mydir,
      -- g.text)`, the lexical path of `topdir/mydir/g.text` relative to the current directory `topdir`: for a relative
      -- name inside or above the project that is `normpath (mydir.join g.text)` again (`relpath` cleans the absolute
      -- path and strips the common prefix `topdir`, climbing with `..` for what is left), so one name serves for both.
      -- (Absolute record texts and the project directory itself, printed as the empty string, are out of scope.)
      let full := resolve t g.text
      let fixname := normpath full
      if g.kind = kUnchanged then
        if optU then
          let st := if fixname ∈ st.already then st else emit st t (.record kDo fixname)
          if optR then
            match recurse full st with
            | .error e => .error e
            | .ok (st, got) =>
              lines recurse optU optR t ls { st with already := fixname :: st.already } (intr + got) (w + got)
          else lines recurse optU optR t ls { st with already := fixname :: st.already } intr w
        else lines recurse optU optR t ls st intr w
      else if g.kind = kDo ∨ g.kind = kWaiting ∨ g.kind = kLocked ∨ g.kind = kUnlocked then
        let (st, intr, w) :=
          if fixname ∈ st.already then (st, intr, w)
          else (emit st t (.record kDo fixname), intr + 1, w + 1)
        if optR then
          if g.text.isEmpty then .error .emptyText
          else match recurse full st with
            | .error e => .error e
            | .ok (st, got) =>
              lines recurse optU optR t ls { st with already := fixname :: st.already } (intr + got) (w + got)
        else lines recurse optU optR t ls { st with already := fixname :: st.already } intr w
      else if g.kind = kDone then
        match parseDoneText g.text with
        -- redo always writes `<status> <name>`; anything else was written by a script and is passed through like other
        -- text (`interrupted` is left alone, as in the last branch)
        | none => lines recurse optU optR t ls (emit st t (.raw (cleanLine l))) intr (w + 1)
        | some (rv, name) =>
          lines recurse optU optR t ls (emit st t (.record kDone (rv ++ ' ' :: normpath (resolve t name)))) intr (w + 1)
      else
        lines recurse optU optR t ls (emit st t (.raw (cleanLine l))) intr (w + 1)

/-- A record glued to unterminated text (`checking y... @@REDO:do:…@@ y`) is handled as two lines: the text, then the
record.  Only the first `@@REDO:` of the line counts, and only when what follows it parses as a record. -/
def unglue1 (l : List Char) : List (List Char) :=
  match findSub pre l with
  | some (b, a) =>
    if b.isEmpty then [l]
    else match parse (pre ++ a) with
      | .ok _ => [b, pre ++ a]
      | .error _ => [l]
  | none => [l]

/-- The lines of a log as the per-line loop of `catlog` sees them. -/
def unglue (ls : List (List Char)) : List (List Char) := ls.flatMap unglue1

/-- `LogState::catlog` for one target. -/
def catlog (F : Forest) (optU optR : Bool) : Nat → List Char → St → Except CErr (St × Nat)
  | 0, _, _ => .error .outOfFuel
  | fuel + 1, t, st =>
    -- keyed by the cleaned path, as the callers' `fixname` is (repaired in /repo: a target reached through another
    -- relative spelling was shown twice)
    if normpath t ∈ st.already then .ok (st, 0)
    else
      let st := { st with already := normpath t :: st.already }
      -- `File::from_name(t)`: the database row of the cleaned project-relative name; forests are keyed by those
      match lookup F (normpath t) with
      | none => .error .unknownTarget
      | some none => .ok (st, 0)
      | some (some ls) => lines (catlog F optU optR fuel) optU optR t (unglue ls) st 0 0

/-- The top-level loop of `redo-log` over its command-line targets: each is announced as `rel(topdir, ".", t)`
(its cleaned name) and passed to `catlog` as written (not joined with anything). -/
def redoLog (F : Forest) (optU optR : Bool) (fuel : Nat) : List (List Char) → St → Except CErr St
  | [], st => .ok st
  | t :: ts, st =>
    match catlog F optU optR fuel t (emit st [] (.record kDo (normpath t))) with
    | .error e => .error e
    | .ok (st, _) => redoLog F optU optR fuel ts st

end RedoModel.LogRec
