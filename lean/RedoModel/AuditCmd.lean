import Lean
open Lean Elab Command

/-- `#audit C15` prints one JSON line per theorem whose name starts with the given
root namespace: name, kind, pretty-printed statement, and the axioms it depends on
(`Lean.collectAxioms`, the same traversal as `#print axioms`). -/
elab "#audit " ns:ident : command => do
  let env ← getEnv
  let root := ns.getId
  let mut names : Array Name := #[]
  for (n, ci) in env.constants.map₂.toList do
    if root.isPrefixOf n && !n.isInternal then
      match ci with
      | .thmInfo _ => names := names.push n
      | _ => pure ()
  for (n, ci) in env.constants.map₁.toList do
    if root.isPrefixOf n && !n.isInternal then
      match ci with
      | .thmInfo _ => names := names.push n
      | _ => pure ()
  -- auxiliary constructions the compiler derives for inductive predicates are not statements of ours
  let aux : List String := ["brecOn", "below", "recOn", "casesOn", "rec", "noConfusion", "binductionOn", "ibelow", "ndrec", "ndrecOn"]
  names := names.filter fun n => match n with
    | .str _ s => !(aux.contains s) && !(s.startsWith "eq_") && !(s.startsWith "match_") && !(s.startsWith "proof_")
    | _ => true
  let sorted := names.qsort (fun a b => a.toString < b.toString)
  for n in sorted do
    let axs ← liftCoreM (collectAxioms n)
    let ci := (env.find? n).get!
    let stmt ← liftTermElabM do
      let f ← Meta.ppExpr ci.type
      pure (f.pretty 100)
    let j := Json.mkObj [
      ("theorem", Json.str n.toString),
      ("statement", Json.str stmt),
      ("axioms", Json.arr (axs.map (fun a => Json.str a.toString)))]
    IO.println ("AUDIT " ++ j.compress)
