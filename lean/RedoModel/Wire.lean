/-
Line protocol helpers shared by the driver: hex-encoded UTF-8 strings.
-/
namespace RedoModel.Wire

def hexDigit (n : Nat) : Char :=
  if n < 10 then Char.ofNat (48 + n) else Char.ofNat (87 + n)

def hexVal (c : Char) : Option Nat :=
  if '0' ≤ c ∧ c ≤ '9' then some (c.toNat - 48)
  else if 'a' ≤ c ∧ c ≤ 'f' then some (c.toNat - 87)
  else if 'A' ≤ c ∧ c ≤ 'F' then some (c.toNat - 55)
  else none

/-- Encode as hex of the UTF-8 bytes; the empty string is written `-`. -/
def enc (s : List Char) : String :=
  let b := (String.ofList s).toUTF8
  if b.size = 0 then "-" else
  String.ofList (b.toList.flatMap fun x => [hexDigit (x.toNat / 16), hexDigit (x.toNat % 16)])

def decBytes : List Char → Option (List UInt8)
  | [] => some []
  | [_] => none
  | a :: b :: r => do
    let x ← hexVal a
    let y ← hexVal b
    let t ← decBytes r
    pure (UInt8.ofNat (x * 16 + y) :: t)

def dec (s : String) : Option (List Char) :=
  if s = "-" then some [] else
  match decBytes s.toList with
  | none => none
  | some bs =>
    match String.fromUTF8? (ByteArray.mk bs.toArray) with
    | some str => some str.toList
    | none => none

end RedoModel.Wire
