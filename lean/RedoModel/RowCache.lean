/-
"The dependency records written by each command are all present afterwards": the discipline that keeps concurrent
processes from overwriting each other's records although `File::save` writes EVERY column of a row from an in-memory
copy (src/state.rs `File::from_cols_with_runid` = load, `File::save`).

Processes work inside transactions; writers are serialised by SQLite's write lock (that is `SqlTxn`'s theorem
`single_writer`: a transaction that writes is IMMEDIATE and holds the lock from `begin` to `commit`).  A copy of a row
is *loaded* (every load gets a fresh load id, clones keep it: hook `row.load fid id`), possibly changed in memory, and
*saved* (hook `row.save fid id`).  The discipline the real code follows — and this acceptor checks on every trace:

  save p f id   is accepted only if the copy `id` was loaded by `p` inside the transaction `p` is in right now.

Then no write committed by another process can lie between the load and the save, so a save never carries stale columns
over somebody else's update (`C16.no_lost_update`).
-/
namespace RedoModel.RowCache

inductive Ev
  | begin (p : Nat)
  | commit (p : Nat)           -- or rollback: the transaction ends
  | load (p f id : Nat)
  | save (p f id : Nat)
  deriving DecidableEq, Repr

structure State where
  holder : Option Nat := none              -- the process inside a (writing) transaction: the write lock
  txn : Nat → Nat := fun _ => 0            -- per process: how many transactions it has begun
  loadedIn : Nat → Nat → Option Nat := fun _ _ => none   -- process, load id ↦ the transaction it was loaded in
  loadedRow : Nat → Nat → Option Nat := fun _ _ => none  -- process, load id ↦ the row
  -- ghost, for the statement: per row, the log of saves (process, position in the global event sequence); and per
  -- process and load id the length of that log at load time
  writes : Nat → List Nat := fun _ => []   -- row ↦ the processes that saved it, most recent first
  seenAt : Nat → Nat → Nat := fun _ _ => 0 -- process, load id ↦ number of saves of its row at load time
  -- ghost, for `C16.saves_are_serial`: row ↦ (process, number of the transaction it was in) of every save, most recent
  -- first; `stamps f` is `writes f` with the transaction numbers added (`C16.stamps_are_writes`)
  stamps : Nat → List (Nat × Nat) := fun _ => []

def upd2 {α : Type} (f : Nat → Nat → α) (a b : Nat) (v : α) : Nat → Nat → α :=
  fun x y => if x = a ∧ y = b then v else f x y

def step (s : State) : Ev → Option State
  | .begin p =>
    match s.holder with
    | some _ => none                                     -- the write lock is taken: `BEGIN IMMEDIATE` waits
    | none => some { s with holder := some p, txn := fun x => if x = p then s.txn p + 1 else s.txn x }
  | .commit p => if s.holder = some p then some { s with holder := none } else none
  | .load p f id =>
    if s.holder ≠ some p then none else
    some { s with loadedIn := upd2 s.loadedIn p id (some (s.txn p)),
                  loadedRow := upd2 s.loadedRow p id (some f),
                  seenAt := upd2 s.seenAt p id (s.writes f).length }
  | .save p f id =>
    if s.holder ≠ some p then none
    else if s.loadedIn p id ≠ some (s.txn p) then none      -- THE GUARD: loaded in this very transaction
    else if s.loadedRow p id ≠ some f then none
    else some { s with writes := fun x => if x = f then p :: s.writes f else s.writes x,
                       stamps := fun x => if x = f then (p, s.txn p) :: s.stamps f else s.stamps x }

def run (s : State) : List Ev → Option State
  | [] => some s
  | e :: es =>
    match step s e with
    | none => none
    | some s' => run s' es

/-- Index of the first rejected event (trace replay; real traces are replayed per process, because read transactions of
different processes overlap freely — mutual exclusion of writers is `SqlTxn`'s subject). -/
def runIdx (s : State) : List Ev → Nat → Except Nat State
  | [], _ => .ok s
  | e :: es, i =>
    match step s e with
    | none => .error i
    | some s' => runIdx s' es (i + 1)

/-- The saves of row `f` that happened after the copy `id` of process `p` was loaded (most recent first). -/
def since (s : State) (p f id : Nat) : List Nat := (s.writes f).take ((s.writes f).length - s.seenAt p id)

end RedoModel.RowCache
