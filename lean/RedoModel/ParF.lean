/-
"The status class does not depend on the schedule": `RedoModel/Par.lean` with failing scripts.

As in `Par.lean` this is an acceptor for ONE top-level invocation at any -j: a schedule is any list of
events, it is a run when every event passes its local guard.  New here:

  * a script may be marked `fails`: after its last `redo-ifchange` command it exits non-zero and produces
    no output;
  * a target can be `failed`: recorded as failed in this run.  It is never started again (`start` needs
    `idle`), and every later request for it answers non-zero without running it (the real tool's exit 32):
    a command naming it can only return non-zero;
  * `ret t ok`: the command the script of `t` is executing returns.  `ok = true` needs every named file to
    be a source or built/clean in this run.  `ok = false` needs at least one named target to be `failed`;
    WITHOUT `--keep-going` the moment is otherwise free (the command may return non-zero as soon as one
    named target has failed, others may still be idle or running and stay so), WITH `--keep-going`
    (`g.keepGoing = true`) additionally every named file must be settled (source, done or failed).
    Every keep-going run is therefore also a run of the same graph without keep-going, and a theorem proved
    for all `g` covers both;
  * scripts run under `sh -e`: after `ret t false` the script of `t` is `aborting`; the only event of `t`
    accepted in that state is `fail t` (no further command, no output).  Events of other targets may come
    in between;
  * `fail t`: the script of `t` ends non-zero, either because it is `aborting` or because it `fails` after
    its last command has returned zero.  `finish t` (success) needs `fails = false`.

The invocation's exit status for top targets `ts` is 0 iff all of them are sources or `done` (`status`);
the top level may return under the same rule as a command (`topReturns`).
-/
namespace RedoModel.ParF

abbrev Content := List Nat

/-- What a script with tag `tag` writes after reading `ins`. -/
def out (tag : Nat) (ins : List Content) : Content :=
  (2 * tag + 2) :: ins.flatMap (fun c => 0 :: (c ++ [1]))

structure Script where
  cmds : List (List Nat)     -- successive `redo-ifchange` commands
  reads : List Nat           -- the files whose bytes go into the output
  tag : Nat
  fails : Bool := false      -- exits non-zero after its last command
  deriving Repr

structure Graph where
  script : Nat → Option Script    -- `none`: a source file
  src : Nat → Content             -- what the source files hold
  keepGoing : Bool := false       -- the invocation's `--keep-going`

inductive St
  | idle
  | running (k : Nat)      -- executing its k-th `redo-ifchange` (k = number of commands: about to end)
  | aborting               -- its current command returned non-zero: `sh -e` is ending the script
  | done
  | failed
  deriving DecidableEq, Repr

structure State where
  st : Nat → St
  content : Nat → Content
  starts : List Nat := []        -- ghost: every script start, most recent first

inductive Ev
  | start (t : Nat) (by_ : Option Nat)
  | clean (t : Nat)
  | ret (t : Nat) (ok : Bool)
  | finish (t : Nat)
  | fail (t : Nat)
  deriving Repr

/-- A request for `d` answers zero: a source, or a target built in this run or found clean. -/
def okSettled (g : Graph) (s : State) (d : Nat) : Bool :=
  match g.script d with
  | none => true
  | some _ => s.st d == .done

/-- A request for `d` answers non-zero. -/
def isFailed (s : State) (d : Nat) : Bool := s.st d == .failed

/-- A request for `d` has an answer. -/
def settled (g : Graph) (s : State) (d : Nat) : Bool := okSettled g s d || isFailed s d

/-- What a reader finds in file `d`. -/
def val (g : Graph) (s : State) (d : Nat) : Content :=
  match g.script d with
  | none => g.src d
  | some _ => s.content d

def upd {α : Type} (f : Nat → α) (t : Nat) (v : α) : Nat → α := fun x => if x = t then v else f x

/-- Is `t` named by the command that the script of `p` is executing right now? -/
def askedBy (g : Graph) (s : State) (t p : Nat) : Bool :=
  match g.script p, s.st p with
  | some sc, .running k =>
    match sc.cmds[k]? with
    | some ds => ds.contains t
    | none => false
  | _, _ => false

/-- May a command (or the top level) naming `ds` return non-zero now? -/
def mayReturnBad (g : Graph) (s : State) (ds : List Nat) : Bool :=
  ds.any (isFailed s) && (!g.keepGoing || ds.all (settled g s))

def step (g : Graph) (s : State) : Ev → Option State
  | .start t by_ =>
    match g.script t with
    | none => none
    | some _ =>
      if s.st t ≠ .idle then none
      else if (match by_ with
               | none => true
               | some p => askedBy g s t p) then
        some { s with st := upd s.st t (.running 0), starts := t :: s.starts }
      else none
  | .clean t =>
    match g.script t with
    | none => none
    | some _ => if s.st t ≠ .idle then none else some { s with st := upd s.st t .done }
  | .ret t ok =>
    match g.script t, s.st t with
    | some sc, .running k =>
      match sc.cmds[k]? with
      | some ds =>
        if ok then
          if ds.all (okSettled g s) then some { s with st := upd s.st t (.running (k + 1)) } else none
        else
          if mayReturnBad g s ds then some { s with st := upd s.st t .aborting } else none
      | none => none
    | _, _ => none
  | .finish t =>
    match g.script t, s.st t with
    | some sc, .running k =>
      if k = sc.cmds.length ∧ sc.fails = false then
        some { s with st := upd s.st t .done, content := upd s.content t (out sc.tag (sc.reads.map (val g s))) }
      else none
    | _, _ => none
  | .fail t =>
    match g.script t, s.st t with
    | some sc, .running k =>
      if k = sc.cmds.length ∧ sc.fails = true then some { s with st := upd s.st t .failed } else none
    | some _, .aborting => some { s with st := upd s.st t .failed }
    | _, _ => none

def run (g : Graph) (s : State) : List Ev → Option State
  | [] => some s
  | e :: es =>
    match step g s e with
    | none => none
    | some s' => run g s' es

/-- Index of the first rejected event (for the trace replay). -/
def runIdx (g : Graph) (s : State) : List Ev → Nat → Except Nat State
  | [], _ => .ok s
  | e :: es, i =>
    match step g s e with
    | none => .error i
    | some s' => runIdx g s' es (i + 1)

/-- The top-level command `redo ts` may return now: zero, or non-zero under the rule of `ret _ false`. -/
def topReturns (g : Graph) (s : State) (ts : List Nat) : Bool :=
  ts.all (okSettled g s) || mayReturnBad g s ts

/-- The exit status of the invocation (its class: 0 or 1). -/
def status (g : Graph) (s : State) (ts : List Nat) : Nat :=
  if ts.all (okSettled g s) then 0 else 1

/-- `t` cannot be built: its script fails, or it names (in any of its commands) a file that cannot be
built. -/
inductive Bad (g : Graph) : Nat → Prop
  | self {t sc} : g.script t = some sc → sc.fails = true → Bad g t
  | dep {t sc d} : g.script t = some sc → d ∈ sc.cmds.flatten → Bad g d → Bad g t

/-- The content a from-scratch build gives `t` (only scripts that do not fail produce any). -/
inductive Spec (g : Graph) : Nat → Content → Prop
  | src {f} : g.script f = none → Spec g f (g.src f)
  | tgt {t sc} (cs : List Content) : g.script t = some sc → sc.fails = false →
      cs.length = sc.reads.length →
      (∀ i (h : i < sc.reads.length) (h' : i < cs.length), Spec g sc.reads[i] cs[i]) →
      Spec g t (out sc.tag cs)

/-- A script reads only what it asked for. -/
def WellFormed (g : Graph) : Prop :=
  ∀ t sc, g.script t = some sc → ∀ f ∈ sc.reads, f ∈ sc.cmds.flatten

/-- No cycles: everything a script names ranks below it. -/
def Ranked (g : Graph) (rank : Nat → Nat) : Prop :=
  ∀ t sc, g.script t = some sc → ∀ f ∈ sc.cmds.flatten, rank f < rank t

/-- Start of a run: nothing is running or failed; the targets counted as settled from the start (those the
dirtiness check will find clean) can be built and hold what a from-scratch build would give them. -/
def Init (g : Graph) (s : State) : Prop :=
  s.starts = [] ∧ (∀ t, s.st t = .idle ∨ s.st t = .done) ∧
  ∀ t sc, g.script t = some sc → s.st t = .done → ¬ Bad g t ∧ Spec g t (s.content t)

/-- Everything is dirty: nothing is settled at the start. -/
def AllIdle (s : State) : Prop := s.starts = [] ∧ ∀ t, s.st t = .idle

/-! ### The serial schedule (-j1, depth first), for the comparison "same status as the serial build" -/

/-- The files named by one command (or on the command line), one after the other; `rec d` builds `d`.
Without `--keep-going` the first failure ends the command, with it all are tried. -/
def serialDeps (g : Graph) (rec : Nat → State → List Ev × State) : List Nat → State → List Ev × State
  | [], s => ([], s)
  | d :: ds, s =>
    let r1 := rec d s
    if (!g.keepGoing && isFailed r1.2 d) = true then r1 else
    let r2 := serialDeps g rec ds r1.2
    (r1.1 ++ r2.1, r2.2)

/-- The commands of the script of `t` from the `k`-th on: the dependencies of each, then its return; a
non-zero return ends the script. -/
def serialCmds (g : Graph) (rec : Nat → State → List Ev × State) (t : Nat) :
    List (List Nat) → Nat → State → List Ev × State
  | [], _, s => ([], s)
  | ds :: rest, k, s =>
    let r1 := serialDeps g rec ds s
    if ds.all (okSettled g r1.2) = true then
      let r2 := serialCmds g rec t rest (k + 1) { r1.2 with st := upd r1.2.st t (.running (k + 1)) }
      (r1.1 ++ Ev.ret t true :: r2.1, r2.2)
    else
      (r1.1 ++ [Ev.ret t false], { r1.2 with st := upd r1.2.st t .aborting })

/-- Build `t` depth first.  Fuel bounds the depth. -/
def serialOne (g : Graph) : Nat → Nat → Option Nat → State → List Ev × State
  | 0, _, _, s => ([], s)
  | fuel + 1, t, by_, s =>
    match g.script t with
    | none => ([], s)
    | some sc =>
      if s.st t ≠ .idle then ([], s) else
      let r := serialCmds g (fun d s' => serialOne g fuel d (some t) s') t sc.cmds 0
        { s with st := upd s.st t (.running 0), starts := t :: s.starts }
      if r.2.st t = .aborting ∨ sc.fails = true then
        (Ev.start t by_ :: r.1 ++ [Ev.fail t], { r.2 with st := upd r.2.st t .failed })
      else
        (Ev.start t by_ :: r.1 ++ [Ev.finish t],
         { r.2 with st := upd r.2.st t .done,
                    content := upd r.2.content t (out sc.tag (sc.reads.map (val g r.2))) })

/-- The serial invocation `redo ts`. -/
def serialTop (g : Graph) (fuel : Nat) (ts : List Nat) (s : State) : List Ev × State :=
  serialDeps g (fun d s' => serialOne g fuel d none s') ts s

end RedoModel.ParF
