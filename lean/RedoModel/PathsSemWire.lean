import RedoModel.Lemmas.PathsSem
import RedoModel.Wire
/- `resolve <dirs> <files> <cwd> <path>`: the symlink-free file-system semantics that `C15.preserves` is stated
over (`Lemmas/PathsSem.lean`: `Tree`, `resolveStrict`) is run against the real file system.
   dirs, files: `,`-separated hex-encoded absolute paths (`-` for none); every directory contains a uniquely named
   marker entry, so a resolved node can be named: answer `dir:<sorted entry names, hex, comma-separated>`,
   `file:<entry names of its parent>` or `none`.  cwd: hex absolute path of an existing directory. -/
namespace RedoModel.PathsSemWire
open RedoModel.Paths RedoModel.Wire

/-- Insert a node at the given component path (creating intermediate directories). -/
def insert : Tree → List (List Char) → Tree → Tree
  | _, [], t => t
  | Tree.file, _ :: _, _ => Tree.file
  | Tree.dir es, c :: cs, t =>
    match lookup c es with
    | some sub => Tree.dir (es.map (fun e => if e.1 = c then (e.1, insert sub cs t) else e))
    | none => Tree.dir (es ++ [(c, insert (Tree.dir []) cs t)])

def decPaths (s : String) : Option (List (List Char)) :=
  if s = "-" || s = "" then some [] else (s.splitOn ",").mapM dec

def names : Tree → List (List Char)
  | .file => []
  | .dir es => es.map (·.1)

def showNode (chain : List Tree) : String :=
  let srt (l : List (List Char)) := (l.map String.ofList).mergeSort (· ≤ ·)
  match chain with
  | Tree.dir es :: _ => "dir:" ++ ",".intercalate ((srt (es.map (·.1))).map (fun s => enc s.toList))
  | Tree.file :: parent :: _ => "file:" ++ ",".intercalate ((srt (names parent)).map (fun s => enc s.toList))
  | _ => "file:"

def respond (dirs files cwd path : String) : String :=
  match decPaths dirs, decPaths files, dec cwd, dec path with
  | some ds, some fs, some cwd, some p =>
    let root := fs.foldl (fun r f => insert r (comps f) Tree.file) (ds.foldl (fun r d => insert r (comps d) (Tree.dir [])) (Tree.dir []))
    match walk [root] (comps cwd) with
    | none => "bad-cwd"
    | some cw =>
      match resolveStrict root cw p with
      | none => "none"
      | some chain => showNode chain
  | _, _, _, _ => "bad-op"

end RedoModel.PathsSemWire
