import RedoModel.SqlTxn
/- `sqltxn-replay <events>`: `;`-separated `bd,c | bi,c | rd,c | wr,c,what | cm,c | rb,c`.
Answer: `ok busy=<n> [<conn>:<what> …]` or `reject <conn> <why>`. -/
namespace RedoModel.SqlTxnWire
open RedoModel.SqlTxn

def parseEv (s : String) : Option Ev :=
  match s.splitOn "," with
  | ["bd", c] => c.toNat?.map .beginDeferred
  | ["bi", c] => c.toNat?.map .beginImmediate
  | ["rd", c] => c.toNat?.map .read
  | ["wr", c, w] => c.toNat?.map (fun c => .write c w)
  | ["cm", c] => c.toNat?.map .commit
  | ["rb", c] => c.toNat?.map .rollback
  | _ => none

def respond (evs : String) : String :=
  match (if evs = "-" then some [] else (evs.splitOn ";").mapM parseEv) with
  | none => "bad-op"
  | some es =>
    match run {} es with
    | .ok s => "ok busy=" ++ toString s.busyPossible.length ++ " " ++
        " ".intercalate (s.busyPossible.reverse.map fun e => toString e.1 ++ ":" ++ e.2)
    | .error (.protocol c w) => "reject " ++ toString c ++ " " ++ w.replace " " "_"

end RedoModel.SqlTxnWire
