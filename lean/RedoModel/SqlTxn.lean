/-
Model of the transactions redo processes run against the one WAL-mode SQLite database
(`src/state.rs`: `ProcessState::init`, `ProcessTransaction`).  SQLite itself is an assumption
(DESIGN §3): transactions are atomic and isolated; `BEGIN IMMEDIATE` waits for the write lock
(busy timeout 60 s) and then cannot fail; a DEFERRED transaction that has read and later writes
fails at once with SQLITE_BUSY(_SNAPSHOT) when another connection committed since its snapshot,
and otherwise must queue for the write lock at that point.

`step` is an acceptor for the `txn.*` / `init.*` events of the instrumented binaries, per
connection (= process).  `Outcome.busyPossible` marks the places where the real system can
answer "database is locked" under some interleaving.
-/
namespace RedoModel.SqlTxn

inductive Mode
  | idle
  | deferred (snapshot : Option Nat) (wrote : Bool)
  | immediate (wrote : Bool)
  deriving DecidableEq, Repr

structure State where
  commits : Nat := 0
  writer : Option Nat := none               -- connection holding the write lock
  conns : List (Nat × Mode) := []
  busyPossible : List (Nat × String) := []  -- (connection, why)
  deriving Repr

inductive Ev
  | beginDeferred (c : Nat)
  | beginImmediate (c : Nat)
  | read (c : Nat)
  | write (c : Nat) (what : String)
  | commit (c : Nat)
  | rollback (c : Nat)
  deriving Repr

def mode (s : State) (c : Nat) : Mode :=
  match s.conns.find? (fun e => e.1 == c) with
  | some e => e.2
  | none => .idle

def setMode (s : State) (c : Nat) (m : Mode) : State :=
  { s with conns := (c, m) :: s.conns.filter (fun e => e.1 != c) }

inductive Reject
  | protocol (c : Nat) (what : String)
  deriving Repr

def step (s : State) : Ev → Except Reject State
  | .beginDeferred c =>
    if mode s c ≠ .idle then .error (.protocol c "begin inside a transaction")
    else .ok (setMode s c (.deferred none false))
  | .beginImmediate c =>
    if mode s c ≠ .idle then .error (.protocol c "begin inside a transaction")
    else if s.writer.isSome then .error (.protocol c "two connections inside BEGIN IMMEDIATE")
    else .ok { setMode s c (.immediate false) with writer := some c }
  | .read c =>
    match mode s c with
    | .deferred none w => .ok (setMode s c (.deferred (some s.commits) w))
    | .idle => .error (.protocol c "read outside a transaction")
    | _ => .ok s
  | .write c what =>
    match mode s c with
    | .immediate _ => .ok (setMode s c (.immediate true))
    | .deferred snap _ =>
      -- upgrade of a DEFERRED transaction to a writer: SQLite answers SQLITE_BUSY at once when the
      -- snapshot is stale (another connection committed since the first read) and otherwise has to
      -- queue for the write lock here; this is the only place a busy answer can originate
      .ok { setMode s c (.deferred snap true) with busyPossible := (c, what) :: s.busyPossible }
    | .idle => .error (.protocol c "write outside a transaction")
  | .commit c =>
    match mode s c with
    | .immediate w =>
      .ok { setMode s c .idle with writer := none, commits := if w then s.commits + 1 else s.commits }
    | .deferred _ w => .ok { setMode s c .idle with commits := if w then s.commits + 1 else s.commits }
    | .idle => .error (.protocol c "commit outside a transaction")
  | .rollback c =>
    match mode s c with
    | .immediate _ => .ok { setMode s c .idle with writer := none }
    | .deferred _ _ => .ok (setMode s c .idle)
    | .idle => .error (.protocol c "rollback outside a transaction")

def run (s : State) : List Ev → Except Reject State
  | [] => .ok s
  | e :: es =>
    match step s e with
    | .error r => .error r
    | .ok s' => run s' es

/-- `e` is a write issued inside a DEFERRED transaction. -/
def deferredWrite (s : State) : Ev → Bool
  | .write c _ => (match mode s c with
    | .deferred _ _ => true
    | _ => false)
  | _ => false

/-- No event of the sequence is a write inside a DEFERRED transaction. -/
def WritesAreImmediate (s : State) : List Ev → Prop
  | [] => True
  | e :: es =>
    deferredWrite s e = false ∧
    (match step s e with
     | .ok s' => WritesAreImmediate s' es
     | .error _ => True)

end RedoModel.SqlTxn
