/-!
The command line a build script is started with (`src/builder.rs`, `BuildJob::start_self`): `sh -e[v][x] <dofile>
$1 $2 $3`, or, when the script's first line (trimmed) starts with `#!/`, the words of that line (split at single
blanks, as the code does — not as the kernel would) followed by `<dofile> $1 $2 $3`.
-/
namespace RedoModel.Argv

/-- `str::split(' ')`. -/
def splitBlank : List Char → List (List Char)
  | [] => [[]]
  | c :: cs =>
    if c = ' ' then [] :: splitBlank cs
    else match splitBlank cs with
      | [] => [[c]]
      | h :: t => (c :: h) :: t

/-- `str::trim`, for the white space that occurs in practice (blank, tab, CR, LF, VT, FF). -/
def isWs (c : Char) : Bool := c = ' ' || c = '\t' || c = '\n' || c = '\r' || c = '\x0b' || c = '\x0c'
def trim (s : List Char) : List Char := ((s.dropWhile isWs).reverse.dropWhile isWs).reverse

def shebang : List Char := ['#', '!', '/']

def argv (verbose xtrace : Bool) (firstline dofile a1 a2 a3 : List Char) : List (List Char) :=
  let flags := "-e".toList ++ (if verbose then ['v'] else []) ++ (if xtrace then ['x'] else [])
  let tail := [dofile, a1, a2, a3]
  let fl := trim firstline
  if shebang.isPrefixOf fl then splitBlank (fl.drop 2) ++ tail
  else ["sh".toList, flags] ++ tail

/-- Whatever the first line says, the script and its three arguments are the last four words. -/
theorem args_last (v x : Bool) (fl d a1 a2 a3 : List Char) :
    ∃ pre, argv v x fl d a1 a2 a3 = pre ++ [d, a1, a2, a3] ∧ pre ≠ [] := by
  unfold argv
  simp only
  split
  · refine ⟨splitBlank ((trim fl).drop 2), rfl, ?_⟩
    cases h : (trim fl).drop 2 with
    | nil => simp [splitBlank]
    | cons c cs =>
      simp only [splitBlank]
      split
      · simp
      · split <;> simp
  · exact ⟨_, rfl, by simp⟩

/-- Without an interpreter line the script runs under `sh -e`. -/
theorem default_shell (v x : Bool) (fl d a1 a2 a3 : List Char) (h : (shebang.isPrefixOf (trim fl)) = false) :
    argv v x fl d a1 a2 a3 =
      ["sh".toList, "-e".toList ++ (if v then ['v'] else []) ++ (if x then ['x'] else []), d, a1, a2, a3] := by
  unfold argv
  simp only
  rw [if_neg (by simp [h])]
  rfl

/-- With an interpreter line the interpreter is the first word, and it starts with `/`. -/
theorem interpreter_first (v x : Bool) (fl d a1 a2 a3 : List Char) (h : (shebang.isPrefixOf (trim fl)) = true) :
    ∃ w ws, argv v x fl d a1 a2 a3 = ('/' :: w) :: ws := by
  unfold argv
  simp only [h, if_true]
  have : ∃ r, trim fl = '#' :: '!' :: '/' :: r := by
    obtain ⟨r, hr⟩ := List.isPrefixOf_iff_prefix.mp h
    exact ⟨r, by rw [← hr]; rfl⟩
  obtain ⟨r, hr⟩ := this
  rw [hr]
  simp only [List.drop_succ_cons, List.drop_zero, splitBlank]
  split
  · rename_i h; cases h
  · split
    · exact ⟨_, _, rfl⟩
    · exact ⟨_, _, rfl⟩

example : argv false true "#!/bin/sh -x\n".toList "t.do".toList "t".toList "t".toList "t.redo.tmp".toList =
    ["/bin/sh".toList, "-x".toList, "t.do".toList, "t".toList, "t".toList, "t.redo.tmp".toList] := by decide
example : argv true true "echo hi\n".toList "t.do".toList "t".toList "t".toList "t.redo.tmp".toList =
    ["sh".toList, "-evx".toList, "t.do".toList, "t".toList, "t".toList, "t.redo.tmp".toList] := by decide

end RedoModel.Argv
