/-
"Each target is built at most once per run": the part of the build protocol that a single
top-level invocation adds on top of mutual exclusion.  Events of one run (one run id), from the
hooks `job.script` / `job.record.end`:

  script fid forced   a process starts the .do of `fid`; `forced` = the request came from `redo`
                      itself (which rebuilds the targets named on its command line unconditionally)
  recordEnd fid       the result (success or failure) is recorded: from now on every
                      `redo-ifchange` in this run finds `fid` clean, or failed (status 32)

Guards: a non-forced script is started only for a target that is neither running (mutual
exclusion, C06) nor already recorded in this run (the dirtiness check under the lock).
-/
namespace RedoModel.Once

structure State where
  running : List Nat := []
  built : List Nat := []
  started : List Nat := []     -- non-forced executions, most recent first
  forcedStarted : List Nat := []
  deriving Repr

inductive Ev
  | script (fid : Nat) (forced : Bool)
  | recordEnd (fid : Nat)
  deriving Repr

def step (s : State) : Ev → Option State
  | .script fid forced =>
    if fid ∈ s.running then none
    else if forced then some { s with running := fid :: s.running, forcedStarted := fid :: s.forcedStarted }
    else if fid ∈ s.built then none
    else some { s with running := fid :: s.running, started := fid :: s.started }
  | .recordEnd fid =>
    if fid ∈ s.running then some { s with running := s.running.filter (· != fid), built := fid :: s.built }
    else none

def run (s : State) : List Ev → Option State
  | [] => some s
  | e :: es =>
    match step s e with
    | none => none
    | some s' => run s' es

end RedoModel.Once
