import RedoModel.LogRec
/-
Model of the last stage of the live output: `PrettyLog::write_line` and `RawLog::write_line`
(src/logs.rs).  Every line that reaches the terminal — the lines the log viewer reads back from the
log files of the targets, the records redo writes itself, and, with `--no-log`, nothing else — goes
through one of the two.  `writeLine` is what `PrettyLog` writes to its file for one line (given
without its final newline, as `write_line` strips it first): the text in front of the first
`@@REDO:` is written as it is, then the record is rendered according to its kind and the verbosity
configuration; a line without a (parsable) record at its first `@@REDO:` is written unchanged.

Strings are `List Char` as in `LogRec`; the escapes are a parameter (`noEsc` = what
`ColorEscapes::default()` holds, `ansi` = what `check_tty` chooses for a terminal).
-/
namespace RedoModel.Pretty
open RedoModel.LogRec

structure Cfg where
  debug : Int
  debugLocks : Bool
  debugPids : Bool
  verbose : Int
  xtrace : Int
  log : Bool
  deriving DecidableEq, Repr

structure Esc where
  red : List Char
  green : List Char
  yellow : List Char
  bold : List Char
  plain : List Char
  deriving DecidableEq, Repr

def noEsc : Esc := ⟨[], [], [], [], []⟩

def esc : Char := Char.ofNat 27

def ansi : Esc :=
  ⟨[esc, '[', '3', '1', 'm'], [esc, '[', '3', '2', 'm'], [esc, '[', '3', '3', 'm'],
   [esc, '[', '1', 'm'], [esc, '[', 'm']⟩

/-- `{:<6}`: left-aligned in a field of at least six characters. -/
def pad6 (p : List Char) : List Char := p ++ List.replicate (6 - p.length) ' '

def redoTag : List Char := ['r', 'e', 'd', 'o', ' ', ' ']

/-- `PrettyLog::pretty`: one decorated line. -/
def pretty (cfg : Cfg) (e : Esc) (depth : Nat) (pid color s : List Char) : List Char :=
  color ++ ((if cfg.debugPids then pad6 pid ++ ' ' :: redoTag else redoTag)
    ++ (List.replicate depth ' ' ++ ((if color.isEmpty then [] else e.bold) ++ (s ++ (e.plain ++ ['\n'])))))

def kCheck : List Char := ['c', 'h', 'e', 'c', 'k']
def kError : List Char := ['e', 'r', 'r', 'o', 'r']
def kWarning : List Char := ['w', 'a', 'r', 'n', 'i', 'n', 'g']
def kDebug : List Char := ['d', 'e', 'b', 'u', 'g']

def sUnchanged : List Char := " (unchanged)".toList
def sExit : List Char := " (exit ".toList
def sDone : List Char := " (done)".toList
def sResumed : List Char := " (resumed)".toList
def sLocked : List Char := " (locked...)".toList
def sWaiting : List Char := " (WAITING)".toList
def sUnlocked : List Char := " (...unlocked!)".toList
def redoColon : List Char := ['r', 'e', 'd', 'o', ':', ' ']

/-- What is shown for one parsed record (`buf` of `write_line`). -/
def render (cfg : Cfg) (e : Esc) (depth : Nat) (r : Rec) : List Char :=
  let p := pretty cfg e depth r.pid
  if r.kind = kUnchanged then
    if cfg.log || cfg.debug ≠ 0 then p [] (r.text ++ sUnchanged) else []
  else if r.kind = kCheck then p e.green ('(' :: (r.text ++ [')']))
  else if r.kind = kDo then p e.green r.text
  else if r.kind = kDone then
    match parseDoneText r.text with
    | some (rv, name) =>
      if rv ≠ ['0'] then p e.red (name ++ (sExit ++ (rv ++ [')'])))
      else if cfg.verbose > 0 || cfg.xtrace > 0 || cfg.debug > 0 then p e.green (name ++ sDone) ++ ['\n']
      else []
    | none => p [] r.text
  else if r.kind = kResumed then p e.green (r.text ++ sResumed)
  else if r.kind = kLocked then if cfg.debugLocks then p e.green (r.text ++ sLocked) else []
  else if r.kind = kWaiting then if cfg.debugLocks then p e.green (r.text ++ sWaiting) else []
  else if r.kind = kUnlocked then if cfg.debugLocks then p e.green (r.text ++ sUnlocked) else []
  else if r.kind = kError then e.red ++ (redoColon ++ (e.bold ++ (r.text ++ (e.plain ++ ['\n']))))
  else if r.kind = kWarning then e.yellow ++ (redoColon ++ (e.bold ++ (r.text ++ (e.plain ++ ['\n']))))
  else p [] r.text

/-- `PrettyLog::write_line` for the line `l` (without its final newline): everything written to the file. -/
def writeLine (cfg : Cfg) (e : Esc) (depth : Nat) (l : List Char) : List Char :=
  match findSub pre l with
  | none => l ++ ['\n']
  | some (before, after) =>
    match parse (pre ++ after) with
    | .ok r => before ++ render cfg e depth r
    | .error _ => l ++ ['\n']

/-! ### `redo-log` in pretty mode: the replay of `LogRec.redoLog` rendered

`catlog` keeps a stack of the targets it is inside of and sets the indentation to twice its height on entry and exit
(`fix_depth`); a `resumed` record is written two columns further out (`reduce_depth`).  The output stream of the replay
model carries, for every line, the target whose `catlog` call emitted it; a target is entered at most once and is
announced by the `do` record of its parent right before, so its stack height is one more than the announcer's. -/

def lookupDepth (m : List (List Char × Nat)) (t : List Char) : Option Nat :=
  match m.find? (fun e => e.1 == t) with
  | none => none
  | some e => some e.2

/-- `logs::reduce_depth`. -/
def reduceDepth (d : Nat) : Nat := if d > 2 then d - 2 else 0

/-- The records `catlog` writes itself carry a pid and a time stamp that never show without `--debug-pids`. -/
def mkRec (kind text : List Char) : Rec := ⟨kind, ['0'], ['0', '.', '0', '0', '0', '0'], text⟩

/-- Everything `redo-log` (pretty mode) writes for the replay output `outs` (oldest first); `none` when a line is
attributed to a target that was never announced (cannot happen for outputs of `redoLog`; never defaulted). -/
def replayText (cfg : Cfg) (e : Esc) : List Tagged → List (List Char × Nat) → Option (List Char)
  | [], _ => some []
  | o :: os, m =>
    match (if o.tag.isEmpty then some 0 else lookupDepth m (Paths.normpath o.tag)) with
    | none => none
    | some k =>
      match o.out with
      | .raw l =>
        match replayText cfg e os m with
        | none => none
        | some rest => some (writeLine cfg e (2 * k) l ++ rest)
      | .record kind text =>
        let d := if kind = kResumed then reduceDepth (2 * k) else 2 * k
        let m' := if kind = kDo && (lookupDepth m text).isNone then (text, k + 1) :: m else m
        match replayText cfg e os m' with
        | none => none
        | some rest => some (writeLine cfg e d (format (mkRec kind text)) ++ rest)

/-- `RawLog::write_line`. -/
def rawLine (l : List Char) : List Char := l ++ ['\n']

end RedoModel.Pretty
