import RedoModel.Deps
/-!
Stamps as the strings the database holds (`src/state.rs`: `Stamp::from_metadata`, `with_link_target`,
`Stamp::MISSING`, `Stamp::DIR`, `Stamp::detect_override`), and the abstraction the dependency engine's model
(`Deps.DStamp`) makes of them.  Numbers are carried as decimal tokens; the modification time is the token
`{:.6}` prints (digits, one '.', six digits) — none of them holds a '-' or a '+'.
-/
namespace RedoModel.StampStr

/-- `str::splitn(3, '-')`. -/
def splitn : Nat → List Char → List (List Char)
  | 0, _ => []
  | 1, s => [s]
  | n + 2, s =>
    match s.span (· ≠ '-') with
    | (a, []) => [a]
    | (a, _ :: rest) => a :: splitn (n + 1) rest

/-- The fields that decide "edited by hand": `splitn(3, '-').take(2)` — modification time and size. -/
def crit (s : List Char) : List (List Char) := (splitn 3 s).take 2

/-- `Stamp::detect_override`. -/
def detectOverride (a b : List Char) : Bool :=
  if a = b then false else crit a != crit b

def missing : List Char := ['0']
def dir : List Char := "dir".toList

/-- What `lstat` (or `stat`) says about a file that is not a directory. -/
structure Meta where
  mtime : List Char        -- the `{:.6}` rendering of seconds since the epoch
  size : Nat
  ino : Nat
  mode : Nat
  uid : Nat
  gid : Nat
  deriving DecidableEq, Repr

def num (n : Nat) : List Char := (toString n).toList

/-- `Stamp::from_metadata` for a non-directory. -/
def render (m : Meta) : List Char :=
  m.mtime ++ '-' :: num m.size ++ '-' :: num m.ino ++ '-' :: num m.mode ++ '-' :: num m.uid ++ '-' :: num m.gid

/-- What `File::read_stamp` can return. -/
inductive FileStamp
  | missing
  | dir
  | file (m : Meta)
  | link (l : Meta) (target : FileStamp)     -- `lstat` of the link, then `stat` through it (never a link again)
  deriving Repr

def FileStamp.str : FileStamp → List Char
  | .missing => StampStr.missing
  | .dir => StampStr.dir
  | .file m => render m
  | .link l t => render l ++ '+' :: t.str

/-- A well-formed time token: digits, '.', digits (so: no '-', no '+', not empty, not "0", not "dir"). -/
def timeOk (t : List Char) : Bool :=
  match t.span Char.isDigit with
  | (a, '.' :: b) => !a.isEmpty && !b.isEmpty && b.all Char.isDigit
  | _ => false

def FileStamp.ok : FileStamp → Bool
  | .missing => true
  | .dir => true
  | .file m => timeOk m.mtime
  | .link l t => timeOk l.mtime && (match t with | .link _ _ => false | t => t.ok)

end RedoModel.StampStr
