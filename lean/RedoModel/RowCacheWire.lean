import RedoModel.RowCache
/- `rowcache-replay <events>`: `;`-separated `b,p | c,p | l,p,f,id | s,p,f,id` (the transaction, load and save events of
ONE process, in order).  Answer `ok saves=<n>` or `reject at=<i>`. -/
namespace RedoModel.RowCacheWire
open RedoModel.RowCache

def parseEv (s : String) : Option Ev :=
  match s.splitOn "," with
  | ["b", p] => p.toNat?.map .begin
  | ["c", p] => p.toNat?.map .commit
  | ["l", p, f, i] => do
    let p ← p.toNat?
    let f ← f.toNat?
    let i ← i.toNat?
    pure (.load p f i)
  | ["s", p, f, i] => do
    let p ← p.toNat?
    let f ← f.toNat?
    let i ← i.toNat?
    pure (.save p f i)
  | _ => none

def respond (evs : String) : String :=
  match (if evs = "-" then some [] else (evs.splitOn ";").mapM parseEv) with
  | none => "bad-op"
  | some es =>
    match runIdx {} es 0 with
    | .ok _ => "ok saves=" ++ toString (es.filter (fun e => match e with | .save .. => true | _ => false)).length
    | .error i => "reject at=" ++ toString i

end RedoModel.RowCacheWire
