import RedoModel.Once
/- `once-replay <events>`: `;`-separated `sc,fid,forced | re,fid`.  Answer `ok started=<n> forced=<n> maxcount=<m>` or `reject at=<i>`. -/
namespace RedoModel.OnceWire
open RedoModel.Once

def parseEv (s : String) : Option Ev :=
  match s.splitOn "," with
  | ["sc", f, x] => f.toNat?.map (fun f => .script f (x == "1"))
  | ["re", f] => f.toNat?.map .recordEnd
  | _ => none

def runIdx (s : State) : List Ev → Nat → Except Nat State
  | [], _ => .ok s
  | e :: es, i => match step s e with
    | none => .error i
    | some s' => runIdx s' es (i + 1)

def respond (evs : String) : String :=
  match (if evs = "-" then some [] else (evs.splitOn ";").mapM parseEv) with
  | none => "bad-op"
  | some es =>
    match runIdx {} es 0 with
    | .ok s => "ok started=" ++ toString s.started.length ++ " forced=" ++ toString s.forcedStarted.length ++
        " maxcount=" ++ toString ((s.started.map (fun f => s.started.count f)).foldl max 0)
    | .error i => "reject at=" ++ toString i

end RedoModel.OnceWire
