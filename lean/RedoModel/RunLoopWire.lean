import RedoModel.RunLoop
/- `runloop-replay <k|-> <events>`: the events of ONE process's call of `builder::run`, `;`-separated:
`tk | ck,e | tg,f | tl,f,ok | bg,f | im,f,fail | fk,f | je,f,fail | wa | rm | wd,f | ul,f | fe,f | bt | ab | fi,ok`.
First argument `k` = --keep-going.  Answer: `ok pc=<pc> started=<n> jobs=<n> queue=<n> errored=<b> failed=<b>` or
`reject at=<i> <why>`. -/
namespace RedoModel.RunLoopWire
open RedoModel.RunLoop

def b (s : String) : Bool := s == "1"

def parseEv (s : String) : Option Ev :=
  match s.splitOn "," with
  | ["tk"] => some .tok
  | ["ck", e] => some (.chk (b e))
  | ["tg", f] => do pure (.target (← f.toNat?))
  | ["tl", f, ok] => do pure (.tryLock (← f.toNat?) (b ok))
  | ["bg", f] => do pure (.begin (← f.toNat?))
  | ["im", f, fl] => do pure (.immediate (← f.toNat?) (b fl))
  | ["fk", f] => do pure (.forked (← f.toNat?))
  | ["je", f, fl] => do pure (.jobEnd (← f.toNat?) (b fl))
  | ["wa"] => some .waitAll
  | ["rm"] => some .releaseMine
  | ["wd", f] => do pure (.waited (← f.toNat?))
  | ["ul", f] => do pure (.unlock (← f.toNat?))
  | ["fe", f] => do pure (.failedElsewhere (← f.toNat?))
  | ["bt"] => some .badTarget
  | ["ab"] => some .abort
  | ["fi", ok] => some (.fin (b ok))
  | _ => none

def pcName : Pc → String
  | .l1 => "l1" | .l1tok => "l1tok" | .l1go => "l1go" | .l1lock _ => "l1lock" | .l1own _ => "l1own"
  | .l1started _ => "l1started" | .l2 => "l2" | .l2all => "l2all" | .l2go => "l2go" | .l2try _ => "l2try"
  | .l2rel _ => "l2rel" | .l2wait _ => "l2wait" | .l2got _ => "l2got" | .l2retok _ => "l2retok"
  | .l2own _ => "l2own" | .l2started _ => "l2started" | .drain => "drain"
  | .ended ok => if ok then "ended-ok" else "ended-err"

def respond (kg evs : String) : String :=
  match (if evs = "-" then some [] else (evs.splitOn ";").mapM parseEv) with
  | none => "bad-op"
  | some es =>
    match run { keepGoing := kg == "k" } {} es with
    | .ok s =>
      "ok pc=" ++ pcName s.pc ++ " started=" ++ toString s.started.length ++ " jobs=" ++ toString s.jobs.length ++
        " queue=" ++ toString s.queue.length ++ " errored=" ++ toString s.errored ++ " failed=" ++ toString s.failed
    | .error (rest, r) => "reject at=" ++ toString (es.length - rest - 1) ++ " " ++ r.replace " " "_"

end RedoModel.RunLoopWire
