/-
The token counter of ONE redo process as its scheduler code changes it
(`JobServer::block_on`, `ensure_token_or_cheat`, `JobServerHandle::start`, `release_mine`,
`AllJobsDone::poll`), with the Rust assertions as explicit `panic` outcomes and the conditions
under which the control flow reaches each step as enabling guards.

`fixRead` = "a token is read from the pipe only when the process holds none" (the repaired
`block_on`; `false` describes the pinned behaviour, where a child exit and a token arrival
handled in the same wake-up gave the process two tokens).
-/
namespace RedoModel.TokLoop

structure LS where
  my : Nat := 1
  cheats : Nat := 0
  running : Nat := 0
  deriving DecidableEq, Repr

inductive LEv
  | childExit      -- a child's exit is noticed: its token is re-created (or settles a cheat), then all but one are released
  | tokenRead      -- a byte is taken from the token pipe
  | cheat          -- a token is synthesised (idle, no token, followed by redo-log)
  | start          -- a job is forked (`assert_eq!(my_tokens, 1)`)
  | releaseMine    -- the lock-wait path gives the token up (`assert!(my_tokens >= 1)`)
  | waitAll        -- one poll of `wait_all`
  deriving DecidableEq, Repr

inductive Res
  | ok (s : LS)
  | disabled        -- the control flow cannot reach this step in this state
  | panic           -- a Rust assertion fails
  deriving DecidableEq, Repr

/-- `release(n)`: every released token first cancels a cheat. -/
def release (s : LS) (n : Nat) : LS := { s with my := s.my - n, cheats := s.cheats - min s.cheats n }

/-- `release_except_mine` when the process has a token. -/
def keepOne (s : LS) : LS := if s.my ≥ 1 then release s (s.my - 1) else s

def lstep (fixRead : Bool) (s : LS) : LEv → Res
  | .childExit =>
    if s.running = 0 then .disabled
    else
      let s1 : LS := if s.cheats > 0 then { s with cheats := s.cheats - 1, running := s.running - 1 }
                     else { s with my := s.my + 1, running := s.running - 1 }
      .ok (keepOne s1)
  | .tokenRead =>
    if fixRead && s.my ≥ 1 then .disabled else .ok { s with my := s.my + 1 }
  | .cheat =>
    if s.my = 0 ∧ s.running = 0 then .ok { s with my := 1, cheats := s.cheats + 1 } else .disabled
  | .start =>
    if s.my = 0 then .disabled            -- `ensure_token` has returned: the process holds a token
    else if s.my ≠ 1 then .panic
    else .ok { s with my := 0, running := s.running + 1 }
  | .releaseMine =>
    if s.my = 0 then .disabled            -- repaired: preceded by `ensure_token_or_cheat`
    else .ok (release s 1)
  | .waitAll =>
    let s1 := keepOne s
    if s1.running > 0 ∧ s1.my ≥ 1 then .ok (release s1 1) else .ok s1

def lrun (fixRead : Bool) (s : LS) : List LEv → Res
  | [] => .ok s
  | e :: es =>
    match lstep fixRead s e with
    | .ok s' => lrun fixRead s' es
    | .disabled => .disabled
    | .panic => .panic

end RedoModel.TokLoop
