/-
The token counter of ONE redo process as its scheduler code changes it
(`JobServer::block_on`, `ensure_token_or_cheat`, `JobServerHandle::start`, `release_mine`,
`AllJobsDone::poll`), with the Rust assertions as explicit `panic` outcomes and the conditions
under which the control flow reaches each step as enabling guards.

`fixRead` = "a token is read from the pipe only when the process holds none" (the repaired
`block_on`; `false` describes the pinned behaviour, where a child exit and a token arrival
handled in the same wake-up gave the process two tokens).

`fixEat` = "when a child's exit is noticed while the process has a cheat of its own outstanding,
the child's token settles that cheat; an IOU somebody else left on the cheat pipe is only taken
when the process has no cheat outstanding" (the repaired child-exit branch of `block_on`; `false`
describes the pinned behaviour, where the cheat pipe was looked at first and a process could be
left with `(my_tokens, cheats) = (0, 1)` — the state in which `do_force_return_tokens` fails its
`cheats <= my_tokens` assertion).  Whether an IOU is on the pipe is up to the environment: both
`childExit` (none taken) and `childExitEat` (one taken) are offered.

`exit` is `do_force_return_tokens` with its two assertions; after it every step is disabled.

`exitTop` is `do_force_return_tokens` of a process at the TOP of its redo tree under a foreign (make-style) jobserver:
it did not create the jobserver but created the cheat pipe itself.  Same re-creation, release and assertions as `exit`;
but where `exit` would leave with `(my_tokens, cheats) = (0, 0)` (and write an IOU that nobody above would read), the
process reads one token back from the token pipe before leaving (`my_tokens := 1`) — make expects the token the
process was started with to come back with it (/repo 4ec0872).  In every other state `exitTop` is `exit`.
-/
namespace RedoModel.TokLoop

structure LS where
  my : Nat := 1
  cheats : Nat := 0
  running : Nat := 0
  exited : Bool := false    -- `do_force_return_tokens` has run (`running` keeps its last value)
  deriving DecidableEq, Repr

inductive LEv
  | childExit      -- a child's exit is noticed: its token is re-created (or settles a cheat), then all but one are released
  | childExitEat   -- a child's exit is noticed and an IOU is taken from the cheat pipe: the child's token is not re-created
  | tokenRead      -- a byte is taken from the token pipe
  | cheat          -- a token is synthesised (idle, no token, followed by redo-log)
  | start          -- a job is forked (`assert_eq!(my_tokens, 1)`)
  | releaseMine    -- the lock-wait path gives the token up (`assert!(my_tokens >= 1)`)
  | waitAll        -- one poll of `wait_all`
  | exit           -- `do_force_return_tokens` (explicitly or from `Drop`)
  | exitTop        -- `do_force_return_tokens` of a process at the top of its redo tree under a foreign jobserver
  deriving DecidableEq, Repr

inductive Res
  | ok (s : LS)
  | disabled        -- the control flow cannot reach this step in this state
  | panic           -- a Rust assertion fails
  deriving DecidableEq, Repr

/-- `release(n)`: every released token first cancels a cheat. -/
def release (s : LS) (n : Nat) : LS := { s with my := s.my - n, cheats := s.cheats - min s.cheats n }

/-- `release_except_mine` when the process has a token. -/
def keepOne (s : LS) : LS := if s.my ≥ 1 then release s (s.my - 1) else s

/-- `create_tokens n`: each new token first cancels an outstanding cheat. -/
def createN (s : LS) : Nat → LS
  | 0 => s
  | n + 1 =>
    let t := createN s n
    if t.cheats > 0 then { t with cheats := t.cheats - 1 } else { t with my := t.my + 1 }

def lstepG (fixRead fixEat : Bool) (s : LS) (e : LEv) : Res :=
  if s.exited then .disabled else
  match e with
  | .childExit =>
    if s.running = 0 then .disabled
    else
      let s1 : LS := if s.cheats > 0 then { s with cheats := s.cheats - 1, running := s.running - 1 }
                     else { s with my := s.my + 1, running := s.running - 1 }
      .ok (keepOne s1)
  | .childExitEat =>
    if s.running = 0 then .disabled
    else if fixEat && s.cheats > 0 then .disabled     -- repaired: the own cheat is settled first
    else .ok { s with running := s.running - 1 }
  | .tokenRead =>
    if fixRead && s.my ≥ 1 then .disabled else .ok { s with my := s.my + 1 }
  | .cheat =>
    if s.my = 0 ∧ s.running = 0 then .ok { s with my := 1, cheats := s.cheats + 1 } else .disabled
  | .start =>
    if s.my = 0 then .disabled            -- `ensure_token` has returned: the process holds a token
    else if s.my ≠ 1 then .panic
    else .ok { s with my := 0, running := s.running + 1 }
  | .releaseMine =>
    if s.my = 0 then .disabled            -- repaired: preceded by `ensure_token_or_cheat`
    else .ok (release s 1)
  | .waitAll =>
    let s1 := keepOne s
    if s1.running > 0 ∧ s1.my ≥ 1 then .ok (release s1 1) else .ok s1
  | .exit =>
    -- the tokens of the jobs still running are re-created, all but one are released, then the two assertions
    let s1 := keepOne (createN s s.running)
    if s1.cheats > s1.my then .panic                  -- `assert!(state.cheats <= state.my_tokens)`
    else if s1.cheats ≥ 2 then .panic                 -- `assert!(state.cheats == 0 || state.cheats == 1)`
    else .ok { s1 with exited := true }
  | .exitTop =>
    -- as `exit`; a process that would leave with no token and no cheat takes one token back from the pipe
    let s1 := keepOne (createN s s.running)
    if s1.cheats > s1.my then .panic
    else if s1.cheats ≥ 2 then .panic
    else .ok { (if s1.my = 0 ∧ s1.cheats = 0 then { s1 with my := 1 } else s1) with exited := true }

/-- The step with the repaired child-exit branch. -/
abbrev lstep (fixRead : Bool) (s : LS) (e : LEv) : Res := lstepG fixRead true s e

def lrunG (fixRead fixEat : Bool) (s : LS) : List LEv → Res
  | [] => .ok s
  | e :: es =>
    match lstepG fixRead fixEat s e with
    | .ok s' => lrunG fixRead fixEat s' es
    | .disabled => .disabled
    | .panic => .panic

abbrev lrun (fixRead : Bool) (s : LS) (es : List LEv) : Res := lrunG fixRead true s es

/-- Every outstanding cheat is backed: the synthesised token is still in hand, or it went to a child that is still
running (whose exit will settle it).  With at most one token and at most one cheat this is the invariant of the
repaired loop, and it is what the two assertions of `do_force_return_tokens` need. -/
def Backed (s : LS) : Prop := s.my ≤ 1 ∧ s.cheats ≤ 1 ∧ (s.cheats = 1 → s.my = 1 ∨ s.running ≥ 1)

end RedoModel.TokLoop
