import RedoModel.Deps
/-
Text encoding of histories for the `deps-run` verb, and the canonical snapshot printed after
every operation.  See tools/depsgen.py for the counterpart that drives the real binaries.

request:  deps-run <defects bits> <nfiles> <rules> <ops>
  rules:  t:c1.c2;t:c1   (`-` for none)
  ops (`;`-separated):
    w.F.V | r.F | m.F
    p.<content tokens _>.<always>,<ifcreate _>,<ifchange + _>,<failIfOdd>,<reads _>,<tag>,<outMode>,<stamp>,<exit>
    c.redo.<kg>.<targets _> | c.ifc.<kg>.<targets _> | c.ood | c.targets | c.sources
-/
namespace RedoModel.DepsWire
open RedoModel.Deps

def natList (s : String) : Option (List Nat) :=
  if s = "-" || s = "" then some [] else (s.splitOn "_").mapM (·.toNat?)

def parseScript (s : String) : Option Script :=
  match s.splitOn "," with
  | [al, ic, ifc, fo, rd, tag, om, st, ex, cd] => do
    let ic ← natList ic
    let cd ← natList cd
    let ifc ← if ifc = "-" then some [] else (ifc.splitOn "+").mapM natList
    let fo ← if fo = "-" then some none else fo.toNat?.map some
    let rd ← natList rd
    let tag ← tag.toNat?
    let om ← om.toNat?
    let st ← st.toNat?
    let ex ← ex.toNat?
    pure { always := al == "1", ifcreate := ic, ifchange := ifc, failIfOdd := fo, reads := rd, tag := tag,
           outMode := om, stamp := st, exit := ex, cond := cd }
  | _ => none

def parseOp (s : String) : Option UserOp :=
  match s.splitOn "." with
  | ["w", f, v] => do pure (.write (← f.toNat?) (← v.toNat?))
  | ["r", f] => do pure (.remove (← f.toNat?))
  | ["m", f] => do pure (.chmod (← f.toNat?))
  | ["h", f] => do pure (.hide (← f.toNat?))
  | ["u", f] => do pure (.unhide (← f.toNat?))
  | ["p", c, sc] => do pure (.setProg (← natList c) (← parseScript sc))
  | ["c", "redo", kg, ts] => do pure (.cmd (.redo (← natList ts) (kg == "1")))
  | ["c", "ifc", kg, ts] => do pure (.cmd (.ifchange (← natList ts) (kg == "1")))
  | ["x", t, k, ts] => do pure (.crashCmd (← natList ts) (← t.toNat?) (← k.toNat?))
  | ["c", "ood"] => some (.cmd .ood)
  | ["c", "targets"] => some (.cmd .targets)
  | ["c", "sources"] => some (.cmd .sources)
  | _ => none

def parseRules (s : String) : Option (Nat → List Nat) :=
  if s = "-" then some (fun _ => []) else do
    let es ← (s.splitOn ";").mapM fun e =>
      match e.splitOn ":" with
      | [t, cs] => do
        let t ← t.toNat?
        let cs ← if cs = "" then some [] else (cs.splitOn ".").mapM (·.toNat?)
        pure (t, cs)
      | _ => none
    pure fun t => match es.find? (fun e => e.1 == t) with
      | some e => e.2
      | none => []

def showNats (l : List Nat) : String := "_".intercalate (l.map toString)

def showOpt (o : Option Nat) : String := match o with
  | none => "-"
  | some n => toString n

def stampClass (w : World) (f : Nat) (r : Rec) : String :=
  match r.stamp with
  | none => "none"
  | some .missing => "missing"
  | some s => if s = readStamp w f then "cur" else "other"

/-- Canonical snapshot: files, abstracted records of known files, dependency rows. -/
def snapshot (w : World) (n : Nat) : String :=
  let files := (List.range n).filterMap fun f =>
    match w.fs f with
    | some nd => some (toString f ++ "=" ++ showNats nd.content)
    | none => none
  let recs := ((List.range n).filter (known w)).map fun f =>
    let r := w.recs f
    toString f ++ ":" ++ (if r.isGenerated then "g" else "-") ++ (if r.isOverride then "o" else "-")
      ++ ":" ++ showOpt r.checked ++ ":" ++ showOpt r.changed ++ ":" ++ showOpt r.failed
      ++ ":" ++ stampClass w f r ++ ":" ++ (match r.csum with
        | none => "-"
        | some c => showNats c)
  let deps := (w.deps.map fun d =>
    (d.target, d.source, toString d.target ++ ">" ++ toString d.source ++ (if d.modeM then "m" else "c") ++ (if d.deleteMe then "!" else "")))
  let deps := (deps.mergeSort (fun a b => a.1 < b.1 || (a.1 == b.1 && a.2.1 ≤ b.2.1))).map (·.2.2)
  "fs[" ++ " ".intercalate files ++ "] db[" ++ " ".intercalate recs ++ "] deps[" ++ " ".intercalate deps ++ "]"

def showTrace (tr : List Ev) : String :=
  let ran := tr.reverse.filterMap fun e => match e with
    | .ran t => some (toString t)
    | _ => none
  let warn := tr.reverse.filterMap fun e => match e with
    | .warnOverride t => some (toString t)
    | _ => none
  "ran=" ++ "_".intercalate ran ++ " warn=" ++ "_".intercalate warn

def runHistory (d : Defects) (n : Nat) (rules : Nat → List Nat) (ops : List UserOp) (rev : Bool := false) : List String :=
  let rec go : List UserOp → World → List String → List String
    | [], _, acc => acc.reverse
    | op :: ops, w, acc =>
      let w := { w with trace := [] }
      let (res, w) := applyOp d n op w
      let line := match res with
        | some r => "rv=" ++ toString r.status ++ " list=" ++ showNats r.listing ++ " " ++ showTrace w.trace ++ " " ++ snapshot w n
        | none => snapshot w n
      go ops w (line :: acc)
  go ops { initWorld rules with oobRev := rev } []

def respond (dbits : String) (n : String) (rules : String) (ops : String) : String :=
  let bits := dbits.toList
  let d : Defects :=
    { oobRebuildsDepsNotTarget := bits.getD 0 '0' == '1'
      failedTargetAbortsRun := bits.getD 1 '0' == '1'
      oobRecordsDepsOnCaller := bits.getD 2 '0' == '1' }
  match n.toNat?, parseRules rules, (ops.splitOn ";").mapM parseOp with
  | some n, some rules, some ops => " | ".intercalate (runHistory d n rules ops (bits.getD 3 '0' == '1'))
  | _, _, _ => "bad-op"

end RedoModel.DepsWire
