import RedoModel.Cycles
import RedoModel.Wire
/- `cycles <v> <ops>`: v = hex of the variable or `!` (unset); ops `,`-separated `a<hex>` (add) / `c<hex>` (check).
Answer: the check results as `0`/`1` characters (`-` if none), a space, and the final value (hex, or `!`). -/
namespace RedoModel.CyclesWire
open RedoModel.Cycles RedoModel.Wire

def respond (v ops : String) : String :=
  let v0 : Option (Option (List Char)) := if v = "!" then some none else (dec v).map some
  match v0 with
  | none => "bad-op"
  | some v0 =>
    let step (acc : Option (Option (List Char) × List Char)) (o : String) : Option (Option (List Char) × List Char) :=
      match acc with
      | none => none
      | some (v, out) =>
        match o.toList with
        | 'a' :: r => (dec (String.ofList r)).map fun f => (add id v f, out)
        | 'c' :: r => (dec (String.ofList r)).map fun f => (v, out ++ [if check v f then '1' else '0'])
        | _ => none
    match (if ops = "-" then [] else ops.splitOn ",").foldl step (some (v0, [])) with
    | none => "bad-op"
    | some (v, out) =>
      (if out.isEmpty then "-" else String.ofList out) ++ " " ++ (match v with | none => "!" | some s => enc s)

end RedoModel.CyclesWire
