import RedoModel.Tokens
/-
`tokens-replay <initial pipe> <events>`: events `;`-separated, fields `,`-separated:
  so,p,n | si,p,parent | cr,p,n,my,ch | de,p,n,my,ch | rl,p,n,shared,my,ch | rd,p,my,ch | ea,p,my,ch
  ct,p,n,my,ch | st,p,j,my,ch | cx,p,j,my,ch | rp,p,j | fr,p,n | cw,p,n | te,p,tokens,cheats,top | rt,p,my,ch
Answer: `ok pipe=<n> cheat=<n> total=<n> V=<n> procs=<k> jobs=<k>` or `reject at=<index> <reason>`.
-/
namespace RedoModel.TokensWire
open RedoModel.Tokens

def parseEv (s : String) : Option Ev :=
  match s.splitOn "," with
  | ["so", p, n] => do pure (.setupOwn (← p.toNat?) (← n.toNat?))
  | ["si", p, q] => do pure (.setupInh (← p.toNat?) (← q.toNat?))
  | ["cr", p, n, m, c] => do pure (.create (← p.toNat?) (← n.toNat?) (← m.toInt?) (← c.toInt?))
  | ["de", p, n, m, c] => do pure (.destroy (← p.toNat?) (← n.toNat?) (← m.toInt?) (← c.toInt?))
  | ["rl", p, n, sh, m, c] => do pure (.release (← p.toNat?) (← n.toNat?) (← sh.toNat?) (← m.toInt?) (← c.toInt?))
  | ["rd", p, m, c] => do pure (.read (← p.toNat?) (← m.toInt?) (← c.toInt?))
  | ["ea", p, m, c] => do pure (.eat (← p.toNat?) (← m.toInt?) (← c.toInt?))
  | ["ct", p, n, m, c] => do pure (.cheat (← p.toNat?) (← n.toNat?) (← m.toInt?) (← c.toInt?))
  | ["st", p, j, m, c] => do pure (.start (← p.toNat?) (← j.toNat?) (← m.toInt?) (← c.toInt?))
  | ["cx", p, j, m, c] => do pure (.childexit (← p.toNat?) (← j.toNat?) (← m.toInt?) (← c.toInt?))
  | ["rp", p, j] => do pure (.reaped (← p.toNat?) (← j.toNat?))
  | ["fr", p, n] => do pure (.forcereturn (← p.toNat?) (← n.toNat?))
  | ["cw", p, n] => do pure (.cheatwrite (← p.toNat?) (← n.toNat?))
  | ["te", p, t, c, top] => do pure (.selftest (← p.toNat?) (← t.toInt?) (← c.toInt?) (← top.toInt?))
  | ["rt", p, m, c] => do pure (.returned (← p.toNat?) (← m.toInt?) (← c.toInt?))
  | _ => none

def showReject : Reject → String
  | .unknownProc p => "unknown-process " ++ toString p
  | .counters w p mm mc gm gc => "counters " ++ w ++ " pid=" ++ toString p ++ " model=(" ++ toString mm ++ "," ++ toString mc ++ ") trace=(" ++ toString gm ++ "," ++ toString gc ++ ")"
  | .guard w p => "guard " ++ w.replace " " "_" ++ " pid=" ++ toString p

def respond (pipe0 : String) (evs : String) : String :=
  match pipe0.toInt?, (if evs = "-" then some [] else (evs.splitOn ";").mapM parseEv) with
  | some k, some es =>
    match run { pipe := k, total := k } es with
    | .ok s => "ok pipe=" ++ toString s.pipe ++ " cheat=" ++ toString s.cheatPipe ++ " total=" ++ toString s.total
        ++ " V=" ++ toString (V s) ++ " procs=" ++ toString s.procs.length ++ " jobs=" ++ toString s.jobs.length
    | .error (rest, r) => "reject at=" ++ toString (es.length - rest - 1) ++ " " ++ showReject r
  | _, _ => "bad-op"

end RedoModel.TokensWire
