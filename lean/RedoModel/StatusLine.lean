/-
Model of the status line of the log viewer (`LogState::catlog`, follow mode, src/bin/redo/log.rs) and of
`format_thousands`: the one place where the viewer does arithmetic on target names.  Lengths are byte lengths of the
UTF-8 encoding (`str::len`), the cut of a long name is moved forward to a character boundary (repaired in /repo,
35c93e3), and what reaches the terminal is the status cut and padded to `width` CHARACTERS (`{:<width$.width$}`).

Strings are `List Char`.  No imports: part of the natively compiled driver.
-/
namespace RedoModel.StatusLine

/-- `str::len`: number of bytes of the UTF-8 encoding. -/
def blen : List Char → Nat
  | [] => 0
  | c :: cs => c.utf8Size + blen cs

/-- `&n[start..]` after `start` was advanced to the next character boundary: whole characters are dropped until at
least `k` bytes are gone. -/
def dropBytes (k : Nat) : List Char → List Char
  | [] => []
  | c :: cs => if k = 0 then c :: cs else dropBytes (k - c.utf8Size) cs

/-- Digits of `n`, least significant first, `[]` for 0. -/
def digitsRev : Nat → Nat → List Char
  | 0, _ => []
  | fuel + 1, n => if n = 0 then [] else Char.ofNat (48 + n % 10) :: digitsRev fuel (n / 10)

/-- Insert a comma after every third digit (on the reversed digits). -/
def groupRev : Nat → List Char → List Char
  | _, [] => []
  | i, c :: cs => if i > 0 && i % 3 == 0 then ',' :: c :: groupRev (i + 1) cs else c :: groupRev (i + 1) cs

/-- `format_thousands`. -/
def thousands (n : Nat) : List Char :=
  if n = 0 then ['0'] else (groupRev 0 (digitsRev (n + 1) n)).reverse

def dots : List Char := ['.', '.', '.']

/-- The loop over the stack of targets, innermost first: `tail` so far → final `tail`. -/
def tailLoop (width hlen : Nat) : List (List Char) → List Char → List Char
  | [], tail => tail
  | n :: ns, tail =>
    let remain := width - (hlen + blen tail)          -- saturating, as `Nat` subtraction is
    if remain < blen n + 4 + 1 || remain ≤ 4 then
      if blen n < 6 || remain < 6 + 1 + 4 then dots ++ ' ' :: tail
      else dots ++ (dropBytes (blen n - (remain - 3 - 1)) n ++ ' ' :: tail)
    else if n ≠ ['-'] then tailLoop width hlen ns (n ++ ' ' :: tail)
    else tailLoop width hlen ns tail

/-- `self.status`: `depth` is the stack of targets, outermost first. -/
def status (width total : Nat) (depth : List (List Char)) : List Char :=
  let head := "redo ".toList ++ thousands total ++ [' ']
  head ++ tailLoop width (blen head) depth.reverse []

/-- `{:<width$.width$}`: at most `width` characters, padded with spaces to `width`. -/
def shown (width : Nat) (s : List Char) : List Char :=
  let t := s.take width
  t ++ List.replicate (width - t.length) ' '

/-- Where the cut would be computed with a subtraction that wraps (the abort before 35c93e3): the cut is only taken
when `blen n ≥ 6` and `remain ≥ 11` and `remain < blen n + 5`. -/
def cutIsSafe (width hlen : Nat) (n tail : List Char) : Bool :=
  let remain := width - (hlen + blen tail)
  !(remain < blen n + 4 + 1 || remain ≤ 4) || (blen n < 6 || remain < 6 + 1 + 4) || (remain - 3 - 1 ≤ blen n)

end RedoModel.StatusLine
