import RedoModel.Par
/- `par-replay <graph> <done> <events>`:
graph  `;`-separated `t:tag:reads:cmd|cmd|…` with reads and each cmd `_`-separated file numbers (`-` = none); files not
       listed are sources holding `[2·f+3]`;
done   `_`-separated targets counted as settled from the start (found clean by an earlier process is `cl,t` instead);
events `;`-separated `st,t,by|-` `cl,t` `rt,t` `fi,t`.
Answer `ok starts=<n> done=<list> contents=<t>=<content>,…` or `reject at=<i>`.
`par-serial <graph> <done> <top>`: the serial schedule's answer in the same format. -/
namespace RedoModel.ParWire
open RedoModel.Par

def nums (s : String) : Option (List Nat) :=
  if s = "-" || s = "" then some [] else (s.splitOn "_").mapM String.toNat?

def parseScript (s : String) : Option (Nat × Script) :=
  match s.splitOn ":" with
  | [t, tag, reads, cmds] => do
    let t ← t.toNat?
    let tag ← tag.toNat?
    let reads ← nums reads
    let cmds ← (if cmds = "-" || cmds = "" then some [] else (cmds.splitOn "|").mapM nums)
    pure (t, { cmds := cmds, reads := reads, tag := tag })
  | _ => none

def mkGraph (l : List (Nat × Script)) : Graph :=
  { script := fun t => (l.find? (fun e => e.1 == t)).map (·.2), src := fun f => [2 * f + 3] }

def parseEv (s : String) : Option Ev :=
  match s.splitOn "," with
  | ["st", t, "-"] => t.toNat?.map (fun t => .start t none)
  | ["st", t, p] => do
    let t ← t.toNat?
    let p ← p.toNat?
    pure (.start t (some p))
  | ["cl", t] => t.toNat?.map .clean
  | ["rt", t] => t.toNat?.map .ret
  | ["fi", t] => t.toNat?.map .finish
  | _ => none

def showC (c : Content) : String := "_".intercalate (c.map toString)

def initState (done : List Nat) (pre : Nat → Content) : State :=
  { st := fun t => if done.contains t then .done else .idle, content := pre }

def showState (l : List (Nat × Script)) (s : State) : String :=
  let ts := l.map (·.1)
  let dn := ts.filter (fun t => s.st t == .done)
  "ok starts=" ++ toString s.starts.length ++ " maxstarts=" ++ toString ((s.starts.map (fun t => s.starts.count t)).foldl max 0) ++
    " done=" ++ (if dn.isEmpty then "-" else "_".intercalate (dn.map toString)) ++
    " contents=" ++ ",".intercalate (dn.map (fun t => toString t ++ "=" ++ showC (s.content t)))

/-- Contents of the targets settled from the start: `t=content` pairs (what the files hold before the run). -/
def parsePre (s : String) : Option (List (Nat × Content)) :=
  if s = "-" || s = "" then some [] else
  (s.splitOn ",").mapM fun e =>
    match e.splitOn "=" with
    | [t, c] => do
      let t ← t.toNat?
      let c ← nums c
      pure (t, c)
    | _ => none

def respond (graph pre evs : String) : String :=
  match (if graph = "-" then some [] else (graph.splitOn ";").mapM parseScript), parsePre pre,
        (if evs = "-" then some [] else (evs.splitOn ";").mapM parseEv) with
  | some l, some pre, some es =>
    let g := mkGraph l
    let s0 := initState (pre.map (·.1)) (fun t => ((pre.find? (fun e => e.1 == t)).map (·.2)).getD [])
    match runIdx g s0 es 0 with
    | .ok s => showState l s
    | .error i => "reject at=" ++ toString i
  | _, _, _ => "bad-op"

def respondSerial (graph pre tops : String) : String :=
  match (if graph = "-" then some [] else (graph.splitOn ";").mapM parseScript), parsePre pre, nums tops with
  | some l, some pre, some tops =>
    let g := mkGraph l
    let s0 := initState (pre.map (·.1)) (fun t => ((pre.find? (fun e => e.1 == t)).map (·.2)).getD [])
    let s := tops.foldl (fun s t => (serialOne g (l.length + 2) t none s).2) s0
    showState l s
  | _, _, _ => "bad-op"

end RedoModel.ParWire
