import RedoModel.WaitsG
/- `waits-replay <reach> <events>`
   reach:  `u:f1_f2;u2:-`  (`-` alone for none); keys are target ids, or `oobKey` of one
   events (`;`-separated): `st,p,u|-`  `lo,p,f`  `wb,p,f`  `we,p,f`  `ul,p,f`  `sc,p,k`  `se,p,k`  `ex,p`
   Answer: `ok alive=<n> blocked=<n> deadlocked=<0|1> stuckstates=<k> maxblocked=<m>` or
           `reject at=<i> <class> pid=<p> fid=<f> <why>`. -/
namespace RedoModel.WaitsWire
open RedoModel.Waits

def natList (s : String) : Option (List Nat) :=
  if s = "-" || s = "" then some [] else (s.splitOn "_").mapM (·.toNat?)

def parseReach (s : String) : Option (Nat → List Nat) :=
  if s = "-" then some (fun _ => []) else do
    let es ← (s.splitOn ";").mapM fun e =>
      match e.splitOn ":" with
      | [u, fs] => do pure ((← u.toNat?), (← natList fs))
      | _ => none
    pure fun u => match es.find? (fun e => e.1 == u) with
      | some e => e.2
      | none => []

def parseEv (s : String) : Option Ev :=
  match s.splitOn "," with
  | ["st", p, u] => do pure (.start (← p.toNat?) (← if u = "-" then some none else u.toNat?.map some))
  | ["lo", p, f] => do pure (.lockOk (← p.toNat?) (← f.toNat?))
  | ["wb", p, f] => do pure (.waitBegin (← p.toNat?) (← f.toNat?))
  | ["we", p, f] => do pure (.waitEnd (← p.toNat?) (← f.toNat?))
  | ["ul", p, f] => do pure (.unlock (← p.toNat?) (← f.toNat?))
  | ["sc", p, f] => do pure (.script (← p.toNat?) (← f.toNat?))
  | ["se", p, f] => do pure (.scriptEnd (← p.toNat?) (← f.toNat?))
  | ["ex", p] => do pure (.exit (← p.toNat?))
  | _ => none

def evTargets : Ev → List Nat
  | .start _ _ => []
  | .lockOk _ f => [f] | .waitBegin _ f => [f] | .waitEnd _ f => [f] | .unlock _ f => [f]
  | .script _ f => [if f ≥ 1000000 then f - 1000000 else f]
  | .scriptEnd _ f => [if f ≥ 1000000 then f - 1000000 else f]
  | .exit _ => []

/-- Replay, counting the states in which nobody could move and the largest number of blocked processes. -/
def replay (reach : Nat → List Nat) (univ : List Nat) : State → List Ev → Nat → Nat → Nat → Except (Nat × Reject) (State × Nat × Nat)
  | s, [], _, stuck, mb => .ok (s, stuck, mb)
  | s, e :: es, i, stuck, mb =>
    match stepG reach univ s e with
    | .error r => .error (i, r)
    | .ok s' =>
      let b := (s'.procs.filter (fun x => x.blocked.isSome)).length
      replay reach univ s' es (i + 1) (if deadlocked s' univ then stuck + 1 else stuck) (max mb b)

def respond (reach evs : String) : String :=
  match parseReach reach, (if evs = "-" then some [] else (evs.splitOn ";").mapM parseEv) with
  | some reach, some es =>
    let univ := (es.flatMap evTargets).eraseDups
    match replay reach univ {} es 0 0 0 with
    | .ok (s, stuck, mb) =>
      "ok alive=" ++ toString s.procs.length ++ " blocked=" ++ toString (s.procs.filter (fun x => x.blocked.isSome)).length ++
        " deadlocked=" ++ (if deadlocked s univ then "1" else "0") ++ " stuckstates=" ++ toString stuck ++ " maxblocked=" ++ toString mb
    | .error (i, r) =>
      let f (c : String) (p q : Nat) (w : String) := "reject at=" ++ toString i ++ " " ++ c ++ " pid=" ++ toString p ++ " fid=" ++ toString q ++ " " ++ w.replace " " "_"
      match r with
      | .kernel p q w => f "kernel" p q w
      | .g1 p q w => f "g1" p q w
      | .g2 p q w => f "g2" p q w
      | .shape p q w => f "shape" p q w
  | _, _ => "bad-op"

end RedoModel.WaitsWire
