/-
Wait-for model of the lock hand-over protocol across all redo processes of a project
(src/builder.rs `run` second loop: blocking `wait_lock` only after all own jobs are done and
recorded; src/state.rs `Lock`; src/cycles.rs), as an acceptor for hook events:

  start p u     process `p` (a `redo-ifchange`/`redo`) begins `builder::run`; `u` = the target whose
                build script (or out-of-band rebuild) it was spawned by, `none` for a top-level command
  lockOk p f    `p` obtained the lock of target `f` without waiting (`try_lock` succeeded)
  waitBegin p f `p` enters the blocking `F_SETLKW` on `f`
  waitEnd p f   the kernel granted it: `p` now owns `f`
  unlock p f
  script p f    `p` starts the build script (or the out-of-band rebuild) of `f`: from now on processes
                may `start` under `f`
  scriptEnd p f that child has been reaped and its result recorded
  exit p

Guards.  Kernel: a lock is granted only when nobody owns it.  Local (what `p` can see of itself):
`G1` a process enters a blocking wait only when it owns no lock and has no job under way;
`G2` a process spawned under `u` only ever asks for locks of targets that `u` (transitively) declares:
the declared-dependency relation `reach` is a parameter of the model, given with every trace.
`scriptEnd` requires that no process started under that execution is still alive (a shell waits
for its children).

The theorem (Props/C09.lean, `progress`): if `reach` is well-founded by a rank (the declared graph
is acyclic), then in every accepted state in which some process is alive, some process can take a
step — no deadlock; and (Props/C12.lean) the witness that with a cyclic `reach` two accepted
processes block each other for ever (the recorded cross-branch finding).

No imports: part of the natively compiled driver.
-/
namespace RedoModel.Waits

structure Proc where
  pid : Nat
  under : Option Nat          -- execution (target) that spawned it
  blocked : Option Nat := none
  deriving DecidableEq, Repr

structure State where
  procs : List Proc := []                 -- alive processes
  owner : Nat → Option Nat := fun _ => none
  scripts : List (Nat × Nat) := []        -- (target, pid of the process that runs it): executions under way

inductive Ev
  | start (p : Nat) (u : Option Nat)
  | lockOk (p f : Nat)
  | waitBegin (p f : Nat)
  | waitEnd (p f : Nat)
  | unlock (p f : Nat)
  | script (p f : Nat)
  | scriptEnd (p f : Nat)
  | exit (p : Nat)
  deriving Repr

inductive Reject
  | kernel (p f : Nat) (what : String)
  | g1 (p f : Nat) (what : String)
  | g2 (p f : Nat) (what : String)
  | shape (p f : Nat) (what : String)
  deriving Repr

/-- The out-of-band rebuild of `f` (`redo-unlocked`, run while its caller keeps `f`'s lock) is an
execution of its own, keyed apart from the script of `f` that its second phase starts. -/
def oobKey (f : Nat) : Nat := f + 1000000

/-- Does execution `e` keep the lock of `f` busy? -/
def covers (e : Nat × Nat) (f : Nat) : Bool := e.1 == f || e.1 == oobKey f

def find (s : State) (p : Nat) : Option Proc := s.procs.find? (fun x => x.pid == p)

def owns (s : State) (p : Nat) (fs : List Nat) : List Nat := fs.filter (fun f => s.owner f == some p)

def setOwner (s : State) (f : Nat) (o : Option Nat) : State :=
  { s with owner := fun x => if x = f then o else s.owner x }

def setBlocked (s : State) (p : Nat) (b : Option Nat) : State :=
  { s with procs := s.procs.map (fun x => if x.pid == p then { x with blocked := b } else x) }

/-- `G2`: may a process spawned under `u` ask for `f`?  Top-level commands may ask for anything. -/
def allowed (reach : Nat → List Nat) (u : Option Nat) (f : Nat) : Bool :=
  match u with
  | none => true
  | some u => (reach u).contains f

/-- All targets mentioned so far (locks are only ever held on these). -/
def held (s : State) (p : Nat) (univ : List Nat) : Bool := univ.any (fun f => s.owner f == some p)

def step (reach : Nat → List Nat) (univ : List Nat) (s : State) : Ev → Except Reject State
  | .start p u =>
    if (find s p).isSome then .error (.shape p 0 "process started twice")
    else match u with
      | none => .ok { s with procs := { pid := p, under := none } :: s.procs }
      | some t =>
        if s.scripts.any (fun e => e.1 == t) then .ok { s with procs := { pid := p, under := some t } :: s.procs }
        else .error (.shape p t "process spawned under a target whose script is not running")
  | .lockOk p f =>
    match find s p with
    | none => .error (.shape p f "event of a process that never started")
    | some x =>
      if x.blocked.isSome then .error (.shape p f "a blocked process cannot act")
      else if !allowed reach x.under f then .error (.g2 p f "lock requested for a target the spawning target does not declare")
      else match s.owner f with
        | some q => if q = p then .ok s else .error (.kernel p f "lock granted while another process owns it")
        | none => .ok (setOwner s f (some p))
  | .waitBegin p f =>
    match find s p with
    | none => .error (.shape p f "event of a process that never started")
    | some x =>
      if x.blocked.isSome then .error (.shape p f "already blocked")
      else if !allowed reach x.under f then .error (.g2 p f "lock requested for a target the spawning target does not declare")
      else if held s p univ then .error (.g1 p f "blocking wait while owning a lock")
      else if s.scripts.any (fun e => e.2 == p) then .error (.g1 p f "blocking wait while a job of this process is under way")
      else .ok (setBlocked s p (some f))
  | .waitEnd p f =>
    match find s p with
    | none => .error (.shape p f "event of a process that never started")
    | some x =>
      if x.blocked ≠ some f then .error (.shape p f "wait ended that did not begin")
      else match s.owner f with
        | some _ => .error (.kernel p f "lock granted while another process owns it")
        | none => .ok (setOwner (setBlocked s p none) f (some p))
  | .unlock p f =>
    if s.owner f ≠ some p then .error (.shape p f "unlock of a lock this process does not own")
    else if s.scripts.any (fun e => covers e f) then .error (.shape p f "lock released while the target's script is running")
    else .ok (setOwner s f none)
  | .script p f =>
    match find s p with
    | none => .error (.shape p f "event of a process that never started")
    | some x =>
      if x.blocked.isSome then .error (.shape p f "a blocked process cannot act")
      else if s.scripts.any (fun e => e.1 == f) then .error (.shape p f "second execution of a target")
      else .ok { s with scripts := (f, p) :: s.scripts }
  | .scriptEnd p f =>
    if !s.scripts.contains (f, p) then .error (.shape p f "end of an execution that was not started")
    else if s.procs.any (fun x => x.under == some f) then .error (.shape p f "script ended while a process it spawned is alive")
    else .ok { s with scripts := s.scripts.filter (fun e => !(e == (f, p))) }
  | .exit p =>
    match find s p with
    | none => .error (.shape p 0 "exit of a process that never started")
    | some _ =>
      if s.scripts.any (fun e => e.2 == p) then .error (.shape p 0 "exit while a job of this process is under way")
      else .ok { s with procs := s.procs.filter (fun x => !(x.pid == p)),
                        owner := fun f => if s.owner f = some p then none else s.owner f }

def run (reach : Nat → List Nat) (univ : List Nat) (s : State) : List Ev → Except (Nat × Reject) State
  | [] => .ok s
  | e :: es =>
    match step reach univ s e with
    | .error r => .error (es.length, r)
    | .ok s' => run reach univ s' es

/-- Can process `x` take a step of its own?  A blocked process can when the lock it waits for is
free; an unblocked one when it has nothing under way, or one of its scripts has no live process
under it (the script can finish), or it owns a lock whose script is not running (it can start or
record it). -/
def enabled (s : State) (univ : List Nat) (x : Proc) : Bool :=
  match x.blocked with
  | some f => (s.owner f).isNone
  | none =>
    let mine := s.scripts.filter (fun e => e.2 == x.pid)
    mine.isEmpty
      || mine.any (fun e => !s.procs.any (fun y => y.under == some e.1))
      || univ.any (fun f => s.owner f == some x.pid && !s.scripts.any (fun e => covers e f))

/-- A state in which processes are alive and none can move. -/
def deadlocked (s : State) (univ : List Nat) : Bool :=
  !s.procs.isEmpty && s.procs.all (fun x => !enabled s univ x)

end RedoModel.Waits
