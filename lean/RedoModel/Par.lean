/-
"The outcome does not depend on the schedule": an abstract model of ONE top-level invocation at any -j.

A target's script is a sequence of `redo-ifchange` commands followed by the production of its output from
the files it read.  At -j>1 the targets of one command, and the scripts of different branches, run
concurrently; what the real scheduler guarantees — and what this acceptor checks on every real trace
(hooks `job.script`, `job.decide`, `job.record.end`, `run.begin`, `run.end`) — are three local guards:

  start t by    the script of `t` is started at most while `t` was neither started nor settled before in this
                run (C07.at_most_once) and only because somebody asked for it: the top level (`by = none`)
                or the command the script of `by` is executing right now
  clean t       the dirtiness check under `t`'s lock found `t` clean: nothing will be run for it in this run
  ret t         the `redo-ifchange` command the script of `t` is executing returns 0 only when every target it
                named is settled (built and recorded in this run, or found clean, or a source)
  finish t      the script of `t` ends after its last command; its output — a function of the CURRENT
                contents of the files it read — is installed and recorded

Everything else (which job gets a token first, which of two requesters builds a shared dependency, how long
anything takes, `--shuffle`) is left to the schedule: any event order that passes the guards is a run.

Scripts all succeed here (with failing scripts the property only speaks about the status class).
-/
namespace RedoModel.Par

abbrev Content := List Nat

/-- What a script with tag `tag` writes after reading `ins`.  (Not injective — `C07.out_not_injective` — and
nothing depends on that: contents are compared, never decoded.) -/
def out (tag : Nat) (ins : List Content) : Content :=
  (2 * tag + 2) :: ins.flatMap (fun c => 0 :: (c ++ [1]))

structure Script where
  cmds : List (List Nat)     -- successive `redo-ifchange` commands
  reads : List Nat           -- the files whose bytes go into the output
  tag : Nat
  deriving Repr

structure Graph where
  script : Nat → Option Script    -- `none`: a source file
  src : Nat → Content             -- what the source files hold

inductive St
  | idle
  | running (k : Nat)      -- executing its k-th `redo-ifchange` (k = number of commands: producing output)
  | done
  deriving DecidableEq, Repr

structure State where
  st : Nat → St
  content : Nat → Content
  starts : List Nat := []        -- ghost: every script start, most recent first

inductive Ev
  | start (t : Nat) (by_ : Option Nat)
  | clean (t : Nat)
  | ret (t : Nat)
  | finish (t : Nat)
  deriving Repr

/-- Settled: a source, or a target that was built in this run or found clean. -/
def settled (g : Graph) (s : State) (d : Nat) : Bool :=
  match g.script d with
  | none => true
  | some _ => s.st d == .done

/-- What a reader finds in file `d`. -/
def val (g : Graph) (s : State) (d : Nat) : Content :=
  match g.script d with
  | none => g.src d
  | some _ => s.content d

def upd {α : Type} (f : Nat → α) (t : Nat) (v : α) : Nat → α := fun x => if x = t then v else f x

/-- Is `t` named by the command that the script of `p` is executing right now? -/
def askedBy (g : Graph) (s : State) (t p : Nat) : Bool :=
  match g.script p, s.st p with
  | some sc, .running k =>
    match sc.cmds[k]? with
    | some ds => ds.contains t
    | none => false
  | _, _ => false

def step (g : Graph) (s : State) : Ev → Option State
  | .start t by_ =>
    match g.script t with
    | none => none
    | some _ =>
      if s.st t ≠ .idle then none
      else if (match by_ with
               | none => true
               | some p => askedBy g s t p) then
        some { s with st := upd s.st t (.running 0), starts := t :: s.starts }
      else none
  | .clean t =>
    match g.script t with
    | none => none
    | some _ => if s.st t ≠ .idle then none else some { s with st := upd s.st t .done }
  | .ret t =>
    match g.script t, s.st t with
    | some sc, .running k =>
      match sc.cmds[k]? with
      | some ds => if ds.all (settled g s) then some { s with st := upd s.st t (.running (k + 1)) } else none
      | none => none
    | _, _ => none
  | .finish t =>
    match g.script t, s.st t with
    | some sc, .running k =>
      if k = sc.cmds.length then
        some { s with st := upd s.st t .done, content := upd s.content t (out sc.tag (sc.reads.map (val g s))) }
      else none
    | _, _ => none

def run (g : Graph) (s : State) : List Ev → Option State
  | [] => some s
  | e :: es =>
    match step g s e with
    | none => none
    | some s' => run g s' es

/-- Index of the first rejected event (for the trace replay). -/
def runIdx (g : Graph) (s : State) : List Ev → Nat → Except Nat State
  | [], _ => .ok s
  | e :: es, i =>
    match step g s e with
    | none => .error i
    | some s' => runIdx g s' es (i + 1)

/-- The content a from-scratch build gives `t` (no fuel: an inductive relation). -/
inductive Spec (g : Graph) : Nat → Content → Prop
  | src {f} : g.script f = none → Spec g f (g.src f)
  | tgt {t sc} (cs : List Content) : g.script t = some sc →
      cs.length = sc.reads.length →
      (∀ i (h : i < sc.reads.length) (h' : i < cs.length), Spec g sc.reads[i] cs[i]) →
      Spec g t (out sc.tag cs)

/-- A script reads only what it asked for. -/
def WellFormed (g : Graph) : Prop :=
  ∀ t sc, g.script t = some sc → ∀ f ∈ sc.reads, f ∈ sc.cmds.flatten

/-- No cycles: everything a script names ranks below it. -/
def Ranked (g : Graph) (rank : Nat → Nat) : Prop :=
  ∀ t sc, g.script t = some sc → ∀ f ∈ sc.cmds.flatten, rank f < rank t

/-- Start of a run: nothing is running; targets counted as settled from the start (those the dirtiness check
will find clean) hold what a from-scratch build would give them (that is C01's statement about the previous
runs, not a matter of scheduling). -/
def Init (g : Graph) (s : State) : Prop :=
  s.starts = [] ∧ (∀ t, s.st t = .idle ∨ s.st t = .done) ∧
  ∀ t sc, g.script t = some sc → s.st t = .done → Spec g t (s.content t)

/-- The dependencies named by one `redo-ifchange` command, one after the other (`rec d` builds `d`). -/
def serialDeps (rec : Nat → State → List Ev × State) : List Nat → State → List Ev × State
  | [], s => ([], s)
  | d :: ds, s =>
    let r1 := rec d s
    let r2 := serialDeps rec ds r1.2
    (r1.1 ++ r2.1, r2.2)

/-- The commands of the script of `t` from the `k`-th on: the dependencies of each, then its return. -/
def serialCmds (rec : Nat → State → List Ev × State) (t : Nat) :
    List (List Nat) → Nat → State → List Ev × State
  | [], _, s => ([], s)
  | ds :: rest, k, s =>
    let r1 := serialDeps rec ds s
    let r2 := serialCmds rec t rest (k + 1) { r1.2 with st := upd r1.2.st t (.running (k + 1)) }
    (r1.1 ++ Ev.ret t :: r2.1, r2.2)

/-- The serial schedule (-j1): build `t` depth first.  Fuel bounds the depth. -/
def serialOne (g : Graph) : Nat → Nat → Option Nat → State → List Ev × State
  | 0, _, _, s => ([], s)
  | fuel + 1, t, by_, s =>
    match g.script t with
    | none => ([], s)
    | some sc =>
      if s.st t ≠ .idle then ([], s) else
      let r := serialCmds (fun d s' => serialOne g fuel d (some t) s') t sc.cmds 0
        { s with st := upd s.st t (.running 0), starts := t :: s.starts }
      (Ev.start t by_ :: r.1 ++ [Ev.finish t],
       { r.2 with st := upd r.2.st t .done,
                  content := upd r.2.content t (out sc.tag (sc.reads.map (val g r.2))) })

end RedoModel.Par
