import RedoModel.RunLoop
import RedoModel.TokLoop
/-
The PRODUCT of the two acceptors that describe one redo process's scheduler: the control flow of `builder::run`
(`RunLoop`) and the token counter of the same process (`TokLoop`).

`TokLoop` on its own has hand-written enabling guards ("`start` is not reached without a token", "`release_mine`
is preceded by `ensure_token_or_cheat`", answered as `.disabled`).  Here those answers are NOT used as guards for the
steps the control flow drives: when the control flow reaches `JobServerHandle::start` or `release_mine`, the counter
has to take the step, and a `.disabled` answer of the counter is the distinguished outcome `stuck` (the control flow
reached the step in a state `TokLoop` calls unreachable), a failed Rust assertion is the outcome `panic`.
Props/C09e proves that neither outcome is reachable.

The only assumption that links the two machines is the contract of `ensure_token_or_cheat`: it returns (event
`.ctl .tok`) only when the process holds a token (`my ≥ 1`).  `contract = false` drops it (used for the witness that
the assumption is necessary).

Choices:
 * `.ctl .waitAll` ("`wait_all` returned") is modelled as ONE final poll of `AllJobsDone` (`TokLoop`'s `.waitAll`);
   earlier polls of the same await are not separate product events (their effect on the counter — give up all
   tokens but one, or all while children run — is covered by the final poll and by `childExit`).
 * `.ctl (.jobEnd f fail)` is a step of the control flow only.  The exit of the child was noticed by an earlier
   `childExit`; that order is NOT enforced (an over-approximation: the theorems hold without it).
 * `.ctl (.fin ok)` ("`run` returned") is followed by `do_force_return_tokens` in every caller (explicitly, or from
   `Drop` when the result is an error): the product drives `TokLoop`'s `.exit` there, with its two assertions — or
   `.exitTop` when the process is the top of its redo tree under a foreign (make-style) jobserver (`PSt.treeTop`, a
   constant of the process: no step changes it; the default `false` is every other process).
 * `childExit`, `childExitEat`, `tokenRead`, `cheat` are steps of the event loop while the control flow is blocked in an await; they
   are accepted at ANY program counter (over-approximation).  For them `.disabled` only means "this cannot happen
   now": the event is rejected, the outcome is not `stuck`.
-/
namespace RedoModel.RunTok
open RedoModel

inductive PEv
  | ctl (e : RunLoop.Ev)   -- a step of the control flow
  | childExit              -- the event loop notices a child's exit (no IOU taken from the cheat pipe)
  | childExitEat           -- the event loop notices a child's exit and takes an IOU from the cheat pipe
  | tokenRead              -- the event loop takes a byte from the token pipe
  | cheat                  -- the event loop synthesises a token
  deriving DecidableEq, Repr

structure PSt where
  ctl : RunLoop.St := {}
  tok : TokLoop.LS := {}
  treeTop : Bool := false  -- inherited jobserver, own cheat pipe: the top of a redo tree under make (never changes)
  deriving Repr

inductive PRes
  | ok (s : PSt)
  | reject (why : String)  -- the event list is not a behaviour of the process
  | stuck                  -- the control flow reached a counter step that `TokLoop` declares unreachable
  | panic                  -- a Rust assertion on the counter fails
  deriving Repr

/-- A counter step the control flow drives: it has to be possible. -/
def driven (s : PSt) (ctl' : RunLoop.St) (e : TokLoop.LEv) : PRes :=
  match TokLoop.lstep true s.tok e with
  | .ok t => .ok { s with ctl := ctl', tok := t }
  | .disabled => .stuck
  | .panic => .panic

/-- A counter step of the environment / event loop: it happens or it does not. -/
def env (s : PSt) (e : TokLoop.LEv) : PRes :=
  match TokLoop.lstep true s.tok e with
  | .ok t => .ok { s with tok := t }
  | .disabled => .reject "environment step not possible in this counter state"
  | .panic => .panic

def pstepG (contract : Bool) (c : RunLoop.Cfg) (s : PSt) : PEv → PRes
  | .ctl e =>
    match RunLoop.step c s.ctl e with
    | .error r => .reject r
    | .ok ctl' =>
      match e with
      | .tok =>
        if contract && s.tok.my == 0 then .reject "ensure_token_or_cheat returned although the process holds no token"
        else .ok { s with ctl := ctl' }
      | .forked _ => driven s ctl' .start
      | .releaseMine => driven s ctl' .releaseMine
      | .waitAll => driven s ctl' .waitAll
      -- `run` has returned: `do_force_return_tokens` (explicitly or from `Drop`)
      | .fin _ => driven s ctl' (if s.treeTop then .exitTop else .exit)
      | _ => .ok { s with ctl := ctl' }
  | .childExit => env s .childExit
  | .childExitEat => env s .childExitEat
  | .tokenRead => env s .tokenRead
  | .cheat => env s .cheat

def prunG (contract : Bool) (c : RunLoop.Cfg) (s : PSt) : List PEv → PRes
  | [] => .ok s
  | e :: es =>
    match pstepG contract c s e with
    | .ok s' => prunG contract c s' es
    | r => r

/-- The product with the `ensure_token_or_cheat` contract. -/
abbrev pstep (c : RunLoop.Cfg) (s : PSt) (e : PEv) : PRes := pstepG true c s e
abbrev prun (c : RunLoop.Cfg) (s : PSt) (es : List PEv) : PRes := prunG true c s es

/-- The product without the contract (a token wait may return with `my = 0`). -/
abbrev prunNoContract (c : RunLoop.Cfg) (s : PSt) (es : List PEv) : PRes := prunG false c s es

def PRes.isStuck : PRes → Bool
  | .stuck => true
  | _ => false

def PRes.isPanic : PRes → Bool
  | .panic => true
  | _ => false

def PRes.isOk : PRes → Bool
  | .ok _ => true
  | _ => false

end RedoModel.RunTok
