import RedoModel.LogFollow
/- `logfollow-replay <events>`: `;`-separated `lo | cr,<ino> | ul | en,<0|1> | op,<ino> | ck,<0|1> | ef | st` — the observable
events of one follower session on one target together with that target's builder events, in trace order.
Answer `ok phase=<p> following=<0|1>` or `flag <name> at=<i>`.
`logfollow-run <insts> <phase> <events>`: the full model (`Sys`), for directed runs: insts `1_2,3` (instances separated
by `,`, lines by `_`, `-` = none), phase `i|l|b`, events `lo|cr|ap.<l>|ul|f`.  Answer `pc=<pc> emitted=<..> current=<..>`
or `reject at=<i>`. -/
namespace RedoModel.LogFollowWire
open RedoModel.LogFollow RedoModel.LogFollow.Obs

def parseB (s : String) : Option Bool := if s = "1" then some true else if s = "0" then some false else none

def parseOEv (s : String) : Option OEv :=
  match s.splitOn "," with
  | ["lo"] => some .lock
  | ["cr", i] => i.toNat?.map .create
  | ["ul"] => some .unlock
  | ["en", b] => (parseB b).map .enter
  | ["op", i] => i.toNat?.map .opened
  | ["ck", b] => (parseB b).map .check
  | ["ef"] => some .eof
  | ["st"] => some .stop
  | _ => none

def flagName : Flag → String
  | .badOrder => "badOrder" | .unsoundFree => "unsoundFree" | .stopWhileLocked => "stopWhileLocked"
  | .staleOpen => "staleOpen" | .rebuiltDuringFollow => "rebuiltDuringFollow" | .wrongInstance => "wrongInstance"
  | .createAfterFree => "createAfterFree" | .stopWithoutReread => "stopWithoutReread"

def phaseName : Phase → String
  | .idle => "idle" | .lockedNoLog => "lockedNoLog" | .building => "building"

def respond (evs : String) : String :=
  match (if evs = "-" then some [] else (evs.splitOn ";").mapM parseOEv) with
  | none => "bad-op"
  | some es =>
    match orun {} es 0 with
    | .ok s => "ok phase=" ++ phaseName s.phase ++ " following=" ++ (if s.fol.isSome then "1" else "0")
    | .error (f, i) => "flag " ++ flagName f ++ " at=" ++ toString i

def parseEv (s : String) : Option Ev :=
  match s.splitOn "." with
  | ["lo"] => some .lock
  | ["cr"] => some .create
  | ["ap", l] => l.toNat?.map .append
  | ["ul"] => some .unlock
  | ["f"] => some .fol
  | _ => none

def parseInsts (s : String) : Option (List (List Nat)) :=
  if s = "-" then some [] else
  (s.splitOn ",").mapM fun i => if i = "" then some [] else (i.splitOn "_").mapM String.toNat?

def showL (l : List Nat) : String := if l.isEmpty then "-" else "_".intercalate (l.map toString)

def pcName : Pc → String
  | .start => "start" | .top => "top" | .read => "read" | .check => "check" | .stopped => "stopped"

def respondRun (insts ph evs : String) : String :=
  match parseInsts insts, (if ph = "i" then some Phase.idle else if ph = "l" then some .lockedNoLog else if ph = "b" then some .building else none),
        (if evs = "-" then some [] else (evs.splitOn ";").mapM parseEv) with
  | some insts, some ph, some es =>
    match runIdx (enter insts ph) es 0 with
    | .ok s => "pc=" ++ pcName s.pc ++ " emitted=" ++ showL s.emitted.reverse ++ " current=" ++ showL (current s)
    | .error i => "reject at=" ++ toString i
  | _, _, _ => "bad-op"

end RedoModel.LogFollowWire
