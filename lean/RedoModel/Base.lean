import RedoModel.Paths
/-
Model of the project-base discovery of `Env::init` (src/env.rs, "if !get_bool(ENV_BASE)"): the directories of the
requested targets (made absolute against the working directory, symbolic links resolved and cleaned — repaired in /repo,
19552e2 and the symlink repair of session 4) and the working directory itself are reduced to their longest common leading part; from there upwards the first directory that contains
`.redo` is the base; if none does, the common part itself is (and `.redo` is created there).

Paths are lists of characters; `hasRedo` stands for the file-system test `<dir>/.redo exists` on a cleaned absolute
directory.  No imports beyond `Paths`: part of the natively compiled driver.
-/
namespace RedoModel.Base
open RedoModel.Paths

/-- `Path::parent` of a target spelling, as text: everything before the last component (`""` for a bare name). -/
def parentOf (t : List Char) : List Char :=
  match splitLast t with
  | some (d, _) => d
  | none => []

/-- The absolute directory of a target with the symbolic links in it resolved the way the target's record key is
resolved (`state::real_dir`: `realdirpath` of a name inside that directory, without the name — repaired in /repo; before,
the directory was only cleaned, and a spelling through a symlinked directory could select another project database).
`canon` stands for `Path::canonicalize`. -/
def dirOf (canon : List Char → Option (List Char)) (cwd t : List Char) : List (List Char) :=
  (comps (realdirpath canon cwd (pushPath (absPath cwd (parentOf t)) ['_']))).dropLast

/-- Longest common leading part of two component lists. -/
def common2 : List (List Char) → List (List Char) → List (List Char)
  | a :: as, b :: bs => if a = b then a :: common2 as bs else []
  | _, _ => []

def commonAll : List (List (List Char)) → List (List Char)
  | [] => []
  | [d] => d
  | d :: ds => common2 d (commonAll ds)

/-- The leading parts of a directory, the directory itself first, the root (`[]`) last. -/
def upwards (cs : List (List Char)) : List (List (List Char)) :=
  (List.range (cs.length + 1)).reverse.map (fun k => cs.take k)

/-- `Env::init`: the project base for a command run in `cwd` (cleaned, absolute) with the given target spellings. -/
def baseOf (canon : List Char → Option (List Char)) (hasRedo : List (List Char) → Bool) (cwd : List Char)
    (targets : List (List Char)) : List (List Char) :=
  let orig := commonAll (targets.map (dirOf canon cwd) ++ [comps cwd])
  match (upwards orig).find? hasRedo with
  | some b => b
  | none => orig

end RedoModel.Base
