/-
Model of the target-lock / build-job protocol of `builder::run` across processes
(src/builder.rs `BuildJob`, src/state.rs `Lock`), as an acceptor for the hook events
`lock.*` and `job.*`.

Kernel assumption (guard `lockOk`): an fcntl write lock is granted only when no other process
owns it, and disappears with its owner.  Local guards (what a single process can observe about
itself): a script for a target is started only while this process owns that target's lock and
has no execution of it under way; the lock is released only when no execution of the target
is under way.  The theorems (Props/C06.lean) derive the global exclusion from these.

Executions in `REDO_UNLOCKED` mode (the second phase of redo-unlocked) run under a lock owned
by the requesting process; their guards are global and checked on every trace, not derived
(partial, see DESIGN).
-/
namespace RedoModel.Locks

structure Exec where
  fid : Nat
  pid : Nat
  delegated : Bool     -- started in unlocked mode under somebody else's lock
  deriving DecidableEq, Repr

structure State where
  owner : Nat → Option Nat := fun _ => none      -- fid ↦ owning process
  running : List Exec := []
  recorded : List (Nat × Nat) := []   -- (fid, pid): result recorded, in order
  started : List (Nat × Nat) := []    -- (fid, pid): every execution ever started

inductive Ev
  | lockOk (p fid : Nat)
  | lockFail (p fid : Nat)
  | unlock (p fid : Nat)
  | script (p fid : Nat) (unlocked : Bool)
  | recordEnd (p fid : Nat)
  | exit (p : Nat)
  deriving Repr

inductive Reject
  | kernel (p fid : Nat) (what : String)
  | localGuard (p fid : Nat) (what : String)
  | globalGuard (p fid : Nat) (what : String)
  deriving Repr

def ownerOf (s : State) (fid : Nat) : Option Nat := s.owner fid

def setOwner (s : State) (fid : Nat) (o : Option Nat) : State :=
  { s with owner := fun f => if f = fid then o else s.owner f }

def step (s : State) : Ev → Except Reject State
  | .lockOk p fid =>
    match ownerOf s fid with
    | some q => if q = p then .ok s else .error (.kernel p fid "lock granted while another process owns it")
    | none => .ok (setOwner s fid (some p))
  | .lockFail _ _ => .ok s
  | .unlock p fid =>
    if ownerOf s fid ≠ some p then .error (.localGuard p fid "unlock of a lock this process does not own")
    else if s.running.any (fun e => e.fid == fid) then
      .error (.localGuard p fid "lock released while the target's script is running or its result is not recorded")
    else .ok (setOwner s fid none)
  | .script p fid unlocked =>
    if unlocked then
      if (ownerOf s fid).isNone then .error (.globalGuard p fid "unlocked execution while nobody holds the target's lock")
      else if s.running.any (fun e => e.fid == fid) then .error (.globalGuard p fid "unlocked execution overlaps another execution")
      else .ok { s with running := ⟨fid, p, true⟩ :: s.running, started := (fid, p) :: s.started }
    else
      if ownerOf s fid ≠ some p then .error (.localGuard p fid "script started without owning the target's lock")
      else if s.running.any (fun e => e.fid == fid && e.pid == p) then .error (.localGuard p fid "second execution started by the same process")
      else if s.running.any (fun e => e.fid == fid && e.delegated) then .error (.globalGuard p fid "execution overlaps a delegated (unlocked) one")
      else .ok { s with running := ⟨fid, p, false⟩ :: s.running, started := (fid, p) :: s.started }
  | .recordEnd p fid =>
    if s.running.any (fun e => e.fid == fid && e.pid == p) then
      .ok { s with running := s.running.filter (fun e => !(e.fid == fid && e.pid == p)), recorded := (fid, p) :: s.recorded }
    else .error (.localGuard p fid "result recorded for an execution that was not started")
  | .exit p =>
    if s.running.any (fun e => e.pid == p || ownerOf s e.fid == some p) then
      .error (.localGuard p 0 "process exits while a script it started (or one running under its lock) is still running: the lock is dropped and the result never recorded")
    else .ok { s with owner := fun f => if s.owner f = some p then none else s.owner f }

def run (s : State) : List Ev → Except (Nat × Reject) State
  | [] => .ok s
  | e :: es =>
    match step s e with
    | .error r => .error (es.length, r)
    | .ok s' => run s' es

/-- Executions of `fid` currently under way. -/
def active (s : State) (fid : Nat) : List Exec := s.running.filter (fun e => e.fid == fid)

end RedoModel.Locks
