import RedoModel.LogRec
/-!
`MAKEFLAGS` as the jobserver's wire format between a redo (or GNU make) parent and its children
(`src/jobserver.rs`: `parse_makeflags`, and the `format!` in `JobServer::setup` that writes the variable when
a new jobserver is created).  Strings are `List Char`; the real parser works on bytes and demands UTF-8 only
for the argument it cuts out — for the ASCII patterns searched that is the same on every valid UTF-8 input
(non-UTF-8 `MAKEFLAGS` is outside the model, see DESIGN.md).

File descriptors are carried as their canonical decimal tokens (`LogRec.canonI32` = `str::parse::<i32>`
followed by `Display`), so no integer arithmetic enters the statements.
-/
namespace RedoModel.Makeflags
open RedoModel.LogRec (canonI32)

def find1 : List Char := " --jobserver-auth=".toList   -- renamed in GNU make 4.2
def find2 : List Char := " --jobserver-fds=".toList    -- fallback syntax

/-- What follows the first occurrence of `pat` in `s` (`windows(n).position(..)` + slicing). -/
def after (pat : List Char) : List Char → Option (List Char)
  | [] => if pat.isEmpty then some [] else none
  | c :: cs => if pat.isPrefixOf (c :: cs) then some ((c :: cs).drop pat.length) else after pat cs

/-- Split at the first `,` (`arg.find(',')`). -/
def cutComma : List Char → Option (List Char × List Char)
  | [] => none
  | c :: cs => if c = ',' then some ([], cs) else (cutComma cs).map fun (a, b) => (c :: a, b)

inductive Parsed
  | absent                                   -- `Ok(None)`: no jobserver offered
  | fds (r w : List Char)                    -- `Ok(Some((r, w)))`, canonical decimal tokens
  | invalid                                  -- `Err(_)`: redo exits with EXIT_INVALID_JOBSERVER
  deriving DecidableEq, Repr

/-- `parse_makeflags`. -/
def parse (flags : List Char) : Parsed :=
  let fl := ' ' :: (flags ++ [' '])
  let found := match after find1 fl with
    | some s => some s
    | none => after find2 fl
  match found with
  | none => .absent
  | some s =>
    let arg := s.takeWhile (· ≠ ' ')
    match cutComma arg with
    | none => .invalid
    | some (a, b) =>
      match canonI32 a, canonI32 b with
      | some a, some b => .fds a b
      | _, _ => .invalid

/-- The value `JobServer::setup` exports after creating its own pipe `(r, w)`. -/
def format (r w : List Char) : List Char :=
  " -j --jobserver-auth=".toList ++ r ++ ',' :: w ++ " --jobserver-fds=".toList ++ r ++ ',' :: w

end RedoModel.Makeflags
