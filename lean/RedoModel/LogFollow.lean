/-
`redo-log --follow` on ONE target while that target may be under construction: the loop of `LogState::catlog`
(src/bin/redo/log.rs:196-267) against the builder's side (src/builder.rs:294-320, 394-407; lock of the target).

Builder of the target (whoever holds the target's lock):
  lock      the target's lock is taken (`builder::run`, then `BuildJob::start`); the log file at the log name is
            still the one of the PREVIOUS build, if there was one
  create    `start_self` decided to run the script: a fresh, empty instance is renamed over the log name
            (before the `do` record is written anywhere, "so redo-log won't trace into an obsolete logfile")
  append l  the script (or anything below it) writes a line; only while the instance is the current one and
            the lock is held
  unlock    the result has been recorded (or the target was found clean: no `create` in between)

Follower (one call of `catlog` for this target, `--follow`):
  start     `was_locked = is_locked(fid)`                                  (log.rs:193)
  top       `if f.is_none() { open(logname) }`  — once a descriptor is open it is kept: a later instance
            renamed over the name is NOT seen through it                   (log.rs:197-208)
  read      `read_line`: the next line of the open instance, or end of file; at end of file
            `!was_locked` ends the loop                                     (log.rs:209-223)
  check     `was_locked = is_locked(fid)`, sleep, again                    (log.rs:224-266)

Lines are whole lines here (the reassembly of partial reads, `line_head`, is `feed` below).  Any interleaving of
builder events and follower steps is a run.
-/
namespace RedoModel.LogFollow

inductive Phase
  | idle            -- lock free
  | lockedNoLog     -- lock held, no instance created under this lock yet
  | building        -- lock held, the current instance belongs to this build
  deriving DecidableEq, Repr

inductive Pc
  | start | top | read | check | stopped
  deriving DecidableEq, Repr

structure Sys where
  insts : List (List Nat)        -- every instance that ever was at the log name, oldest first; the last one is there now
  phase : Phase
  pc : Pc := .start
  opened : Option Nat := none     -- which instance the follower's descriptor refers to (index into `insts`)
  pos : Nat := 0
  wasLocked : Bool := false
  emitted : List Nat := []        -- most recent first
  deriving DecidableEq, Repr

inductive Ev
  | lock
  | create
  | append (l : Nat)
  | unlock
  | fol                           -- one step of the follower
  deriving DecidableEq, Repr

/-- Append `l` to the last instance. -/
def appendLast : List (List Nat) → Nat → List (List Nat)
  | [], _ => []
  | [x], l => [x ++ [l]]
  | x :: y :: r, l => x :: appendLast (y :: r) l

def locked (s : Sys) : Bool := s.phase != .idle

def step (s : Sys) : Ev → Option Sys
  | .lock => if s.phase = .idle then some { s with phase := .lockedNoLog } else none
  | .create => if s.phase = .lockedNoLog then some { s with phase := .building, insts := s.insts ++ [[]] } else none
  | .append l => if s.phase = .building then some { s with insts := appendLast s.insts l } else none
  | .unlock => if s.phase = .idle then none else some { s with phase := .idle }
  | .fol =>
    match s.pc with
    | .start => some { s with wasLocked := locked s, pc := .top }
    | .top =>
      match s.opened with
      | some _ => some { s with pc := .read }
      | none =>
        if s.insts.isEmpty then some { s with pc := .read }
        else some { s with opened := some (s.insts.length - 1), pos := 0, pc := .read }
    | .read =>
      let line : Option Nat := match s.opened with
        | some g => (s.insts.getD g [])[s.pos]?
        | none => none
      (match line with
       | some l => some { s with emitted := l :: s.emitted, pos := s.pos + 1, pc := .top }
       | none => if s.wasLocked then some { s with pc := .check } else some { s with pc := .stopped })
    | .check => some { s with wasLocked := locked s, pc := .top }
    | .stopped => none

def run (s : Sys) : List Ev → Option Sys
  | [] => some s
  | e :: es =>
    match step s e with
    | none => none
    | some s' => run s' es

/-- Index of the first rejected event (trace replay). -/
def runIdx (s : Sys) : List Ev → Nat → Except Nat Sys
  | [], _ => .ok s
  | e :: es, i =>
    match step s e with
    | none => .error i
    | some s' => runIdx s' es (i + 1)

/-- What is at the log name now. -/
def current (s : Sys) : List Nat := s.insts.getLast?.getD []

/-- The follower enters the target's log (it has just read a record naming the target). -/
def enter (insts : List (List Nat)) (phase : Phase) : Sys := { insts := insts, phase := phase }

/-! ### Reassembly of partial reads (`line_head`, log.rs:270-278 and 385-388)

`read_line` returns the bytes up to and including the next newline, or — at the current end of a growing file — a
piece without newline.  Pieces are glued until a newline arrives. -/

/-- One non-empty result of `read_line` (`10` is the newline).  Returns the new `line_head` and the completed line,
if any (without its newline). -/
def feed (head : List Nat) (piece : List Nat) : List Nat × Option (List Nat) :=
  if piece.getLast? = some 10 then ([], some (head ++ piece.dropLast))
  else (head ++ piece, none)

/-- All pieces of a session: completed lines in order, and the unterminated rest. -/
def feedAll : List Nat → List (List Nat) → List (List Nat) × List Nat
  | head, [] => ([], head)
  | head, p :: ps =>
    match feed head p with
    | (h, some l) => let (ls, r) := feedAll h ps; (l :: ls, r)
    | (h, none) => feedAll h ps

/-- Reference: split a byte stream at newlines: complete lines and the unterminated rest. -/
def splitLines : List Nat → List Nat → List (List Nat) × List Nat
  | acc, [] => ([], acc)
  | acc, b :: bs =>
    if b = 10 then let (ls, r) := splitLines [] bs; (acc :: ls, r)
    else splitLines (acc ++ [b]) bs

/-- What `read_line` can return: non-empty, no newline except possibly as the last byte. -/
def Piece (p : List Nat) : Prop := p ≠ [] ∧ 10 ∉ p.dropLast


/-! ### What is observable of a follower session on a real trace (hooks `log.enter/open/check/stop`,
`job.logfile`, and the lock events of the target's builder)

Reads and appends are not traced; the acceptor below checks, on the events that are, exactly the conditions the
completeness theorem needs (`C18.follow_complete_partial`): the follower believes the target free only when it is
(`unsoundFree`), it stops only after having seen it free (`stopWhileLocked`) and at an end-of-file read made after
that probe (`stopWithoutReread`; hook `log.eof`), and no new instance is created at the log
name while the follower holds a descriptor on an older one — either because it opened the previous build's instance
while the builder already held the lock (`staleOpen`, hypothesis `ha` of `C18.follow_complete_one_build_partial`) or
because the target is built again during the session (`rebuiltDuringFollow`, `createAfterFree`; hypothesis `hb`).
Together these are the condition `CreateSafe` of `C18.follow_complete_general`: every `create` happens while the
follower has no descriptor open and has not yet seen the target free. -/
namespace Obs

structure FolSt where
  opened : Option Nat := none        -- inode of the instance the descriptor refers to
  openedUnderLock : Bool := false    -- it was opened while a builder held the lock without having created its instance
  wasLocked : Bool
  eofSince : Bool := false           -- a read has hit the end of the file since the lock was last probed
  deriving DecidableEq, Repr

structure OSt where
  phase : Phase := .idle
  cur : Option Nat := none            -- inode of the instance created most recently in this trace (none: not known)
  fol : Option FolSt := none
  deriving DecidableEq, Repr

inductive OEv
  | lock | create (ino : Nat) | unlock
  | enter (b : Bool) | opened (ino : Nat) | check (b : Bool) | eof | stop
  deriving DecidableEq, Repr

inductive Flag
  | badOrder | unsoundFree | stopWhileLocked | staleOpen | rebuiltDuringFollow | wrongInstance | createAfterFree
  | stopWithoutReread
  deriving DecidableEq, Repr

def ostep (s : OSt) : OEv → Except Flag OSt
  | .lock => if s.phase = .idle then .ok { s with phase := .lockedNoLog } else .error .badOrder
  | .create ino =>
    if s.phase ≠ .lockedNoLog then .error .badOrder else
    match s.fol with
    | some f =>
      (match f.opened with
       | some o =>
         -- (the follower's `open` of the fresh instance may be logged before the builder's `create` of it)
         if o = ino then
           (if f.wasLocked then .ok { s with phase := .building, cur := some ino, fol := some { f with openedUnderLock := false } }
            else .error .createAfterFree)
         else .error (if f.openedUnderLock then .staleOpen else .rebuiltDuringFollow)
       | none =>
         -- no descriptor yet: safe only if the follower still believes the target locked (`CreateSafe` of the proofs)
         if f.wasLocked then .ok { s with phase := .building, cur := some ino } else .error .createAfterFree)
    | none => .ok { s with phase := .building, cur := some ino }
  | .unlock => if s.phase = .idle then .error .badOrder else .ok { s with phase := .idle }
  | .enter b =>
    match s.fol with
    | some _ => .error .badOrder
    | none => if !b && s.phase != .idle then .error .unsoundFree else .ok { s with fol := some { wasLocked := b } }
  | .opened ino =>
    match s.fol with
    | none => .error .badOrder
    | some f =>
      if f.opened.isSome then .error .badOrder
      else if s.phase = .building ∧ s.cur ≠ some ino then .error .wrongInstance
      else .ok { s with fol := some { f with opened := some ino, openedUnderLock := s.phase = .lockedNoLog } }
  | .check b =>
    match s.fol with
    | none => .error .badOrder
    | some f =>
      if !b && s.phase != .idle then .error .unsoundFree
      else .ok { s with fol := some { f with wasLocked := b, eofSince := false } }
  | .eof =>
    match s.fol with
    | none => .error .badOrder
    | some f => .ok { s with fol := some { f with eofSince := true } }
  | .stop =>
    -- the loop ends at an end-of-file read made AFTER the probe that found the target free: whatever the builder wrote
    -- before releasing the lock has been read by then (a follower that stops right at the probe can miss the last lines)
    match s.fol with
    | none => .error .badOrder
    | some f =>
      if f.wasLocked then .error .stopWhileLocked
      else if !f.eofSince then .error .stopWithoutReread
      else .ok { s with fol := none }

def orun (s : OSt) : List OEv → Nat → Except (Flag × Nat) OSt
  | [], _ => .ok s
  | e :: es, i =>
    match ostep s e with
    | .error f => .error (f, i)
    | .ok s' => orun s' es (i + 1)

end Obs

end RedoModel.LogFollow
