import RedoModel.TokLoop
/-
`tokloop-replay <top|sub|exttop> <events>` (exttop = inherited jobserver, own cheat pipe: the top of a redo tree under make): the primitive token events ONE redo process logged (the `js.*` hook points, in
order), grouped into the compound steps of `TokLoop` and replayed through `lstep true`: after every compound step the
process's `(my_tokens, cheats)` as logged must be the model's, at the exit the number of jobs still running and the
number of IOUs written must be the model's.  This ties `TokLoop` (Props/C09 `no_panic`, `backed_step`, `exit_states`,
the product of C09e) to the code directly, per process, in addition to the guards of the `Tokens` acceptor.

Events `;`-separated, fields `,`-separated (the pid is dropped by the harness):
  cr,n,my,ch  de,n,my,ch  rl,n,shared,my,ch  rd,my,ch  ea,my,ch  ct,n,my,ch  st,my,ch  cx,my,ch  rp  fr,n  cw,n  rt,my,ch  te
Grouping (what the code does between two awaits):
  cx ea                     -> childExitEat           cx cr(1) [rl]        -> childExit
  rd                        -> tokenRead              ct(1)                -> cheat
  de(1) st                  -> start                  rl (on its own)      -> releaseMine, or the releasing poll of wait_all
  fr(n) cr(n) [rl] [de] [cw] [rd] rt   -> exit, for an exttop process exitTop (n = running; IOUs = cw; rd = the token
                                          an exttop process takes back: the `my := 1` of the model's exitTop)
  at the very start of a process that owns its jobserver: cr(N-1) rl(N-1)  (set-up, the process keeps one token)
Answer: `ok steps=<k> my=<n> cheats=<n> running=<n> exited=<b>` or `reject at=<index of the primitive> <reason>`.
-/
namespace RedoModel.TokLoopWire
open RedoModel.TokLoop

inductive Prim
  | cr (n my ch : Nat)
  | de (n my ch : Nat)
  | rl (n sh my ch : Nat)
  | rd (my ch : Nat)
  | ea (my ch : Nat)
  | ct (n my ch : Nat)
  | st (my ch : Nat)
  | cx (my ch : Nat)
  | rp
  | fr (n : Nat)
  | cw (n : Nat)
  | rt (my ch : Nat)
  | te
  deriving Repr

def parsePrim (s : String) : Option Prim :=
  match s.splitOn "," with
  | ["cr", n, m, c] => do pure (.cr (← n.toNat?) (← m.toNat?) (← c.toNat?))
  | ["de", n, m, c] => do pure (.de (← n.toNat?) (← m.toNat?) (← c.toNat?))
  | ["rl", n, sh, m, c] => do pure (.rl (← n.toNat?) (← sh.toNat?) (← m.toNat?) (← c.toNat?))
  | ["rd", m, c] => do pure (.rd (← m.toNat?) (← c.toNat?))
  | ["ea", m, c] => do pure (.ea (← m.toNat?) (← c.toNat?))
  | ["ct", n, m, c] => do pure (.ct (← n.toNat?) (← m.toNat?) (← c.toNat?))
  | ["st", m, c] => do pure (.st (← m.toNat?) (← c.toNat?))
  | ["cx", m, c] => do pure (.cx (← m.toNat?) (← c.toNat?))
  | ["rp"] => some .rp
  | ["fr", n] => do pure (.fr (← n.toNat?))
  | ["cw", n] => do pure (.cw (← n.toNat?))
  | ["rt", m, c] => do pure (.rt (← m.toNat?) (← c.toNat?))
  | ["te"] => some .te
  | _ => none

/-- What `do_force_return_tokens` writes to the cheat pipe from the state after its assertions. -/
def exitIous (top : Bool) (s : LS) : Nat :=
  if s.cheats > 0 then s.cheats else if !top && s.my = 0 then 1 else 0

/-- One compound step: the model step(s) it may be, and the `(my, cheats)` the trace shows after it. -/
def stepAs (s : LS) (cands : List LEv) (my ch : Nat) : Except String LS :=
  let rec go : List LEv → Option String → Except String LS
    | [], why => .error (why.getD "no candidate step")
    | e :: es, _ =>
      match lstep true s e with
      | .ok s' => if s'.my = my ∧ s'.cheats = ch then .ok s'
                  else go es (some s!"after {repr e} the model has ({s'.my},{s'.cheats}), the trace ({my},{ch})")
      | .disabled => go es (some s!"{repr e} is not enabled in the model state ({s.my},{s.cheats},running {s.running})")
      | .panic => .error s!"{repr e} fails a Rust assertion in the model state ({s.my},{s.cheats},running {s.running})"
  go cands none

/-- Optional trailing primitives of the exit path. -/
def takeDe : List Prim → Option Nat × List Prim
  | .de n _ _ :: r => (some n, r)
  | r => (none, r)

def takeCw : List Prim → Nat × List Prim
  | .cw n :: r => (n, r)
  | r => (0, r)

/-- The token a process at the top of its redo tree under a foreign jobserver takes back from the pipe when it is about
to leave with none (repaired in /repo: it used to leave an IOU that nobody reads). -/
def takeRd : List Prim → Option (Nat × Nat) × List Prim
  | .rd m c :: r => (some (m, c), r)
  | r => (none, r)

/-- `fuel` bounds the number of compound steps (the caller passes the number of primitives plus one). -/
def replay (top ext : Bool) : Nat → LS → Nat → Nat → List Prim → Except (Nat × String) (LS × Nat)
  | 0, _, i, _, _ => .error (i, "out of fuel")
  | _ + 1, s, _, k, [] => .ok (s, k)
  | f + 1, s, i, k, .rp :: r => replay top ext f s (i + 1) k r
  | f + 1, s, i, k, .te :: r => replay top ext f s (i + 1) k r
  | f + 1, s, i, k, .cx _ _ :: .ea m c :: r =>
    match stepAs s [.childExitEat] m c with
    | .ok s' => replay top ext f s' (i + 2) (k + 1) r
    | .error w => .error (i, w)
  | f + 1, s, i, k, .cx _ _ :: .cr 1 _ _ :: .rl _ _ m c :: r =>
    match stepAs s [.childExit] m c with
    | .ok s' => replay top ext f s' (i + 3) (k + 1) r
    | .error w => .error (i, w)
  | f + 1, s, i, k, .cx _ _ :: .cr 1 m c :: r =>
    match stepAs s [.childExit] m c with
    | .ok s' => replay top ext f s' (i + 2) (k + 1) r
    | .error w => .error (i, w)
  | f + 1, s, i, k, .rd m c :: r =>
    match stepAs s [.tokenRead] m c with
    | .ok s' => replay top ext f s' (i + 1) (k + 1) r
    | .error w => .error (i, w)
  | f + 1, s, i, k, .ct 1 m c :: r =>
    match stepAs s [.cheat] m c with
    | .ok s' => replay top ext f s' (i + 1) (k + 1) r
    | .error w => .error (i, w)
  | f + 1, s, i, k, .de 1 _ _ :: .st m c :: r =>
    match stepAs s [.start] m c with
    | .ok s' => replay top ext f s' (i + 2) (k + 1) r
    | .error w => .error (i, w)
  | f + 1, s, i, k, .cr n _ _ :: .rl n' _ m c :: r =>
    -- set-up of a process that owns its jobserver: N-1 tokens created and put into the pipe, one kept
    if i = 0 ∧ top ∧ n = n' ∧ m = 1 ∧ c = 0 ∧ s.my = 1 ∧ s.cheats = 0 then replay top ext f s (i + 2) k r
    else .error (i, "tokens created outside a child exit, the exit path or the set-up")
  | f + 1, s, i, k, .rl _ _ m c :: r =>
    match stepAs s [.releaseMine, .waitAll] m c with
    | .ok s' => replay top ext f s' (i + 1) (k + 1) r
    | .error w => .error (i, w)
  | f + 1, s, i, k, .fr n :: .cr n' m c :: r =>
    if n ≠ s.running then .error (i, s!"force_return_tokens finds {n} jobs running, the model {s.running}")
    else if n ≠ n' then .error (i, "force_return_tokens re-creates a different number of tokens than jobs are running")
    else
      let (m1, c1, r1, used) := match r with
        | .rl _ _ m' c' :: r' => (m', c', r', 3)
        | _ => (m, c, r, 2)
      -- `(m1, c1)` are logged after the re-creation and the release, before a tree top takes its token back: they are
      -- the counters of `.exit` for every kind of process
      match stepAs s [.exit] m1 c1 with
      | .error w => .error (i, w)
      | .ok s0 =>
      -- `retake`: top of the redo tree under a foreign jobserver, about to leave with no token and no cheat
      -- (Props/C09 `exit_top_retakes`, `exit_top_agrees_with_exit`: exactly where `.exitTop` differs from `.exit`)
      let retake := ext && s0.my = 0 && s0.cheats = 0
      -- the model step: `.exitTop` at the top of a redo tree under a foreign jobserver, `.exit` for everybody else
      match stepAs s (if ext then [.exitTop] else [.exit]) (if retake then 1 else m1) c1 with
      | .error w => .error (i, w)
      | .ok s' =>
        let (d, r2) := takeDe r1
        let (w, r3) := takeCw r2
        let used := used + (if d.isSome then 1 else 0) + (if w > 0 then 1 else 0)
        let (rd, r3) := takeRd r3
        let used := used + (if rd.isSome then 1 else 0)
        if d.getD 0 ≠ s'.cheats then .error (i, s!"the exit destroys {d.getD 0} tokens, the model's cheats are {s'.cheats}")
        else if retake && w ≠ 0 then .error (i, s!"the exit of the top of a redo tree under a foreign jobserver writes {w} IOUs (nobody reads them)")
        else if retake && rd ≠ some (1, 0) then .error (i, "the top of a redo tree under a foreign jobserver leaves without taking its token back from the pipe")
        else if !retake && rd.isSome then .error (i, "a token is read on the exit path of a process that holds one")
        else if !retake && w ≠ exitIous top s' then .error (i, s!"the exit writes {w} IOUs, the model {exitIous top s'}")
        else
        match r3 with
          | .rt m2 c2 :: r4 =>
            if m2 + s'.cheats ≠ s'.my ∨ c2 ≠ s'.cheats then .error (i, "the counters logged at the end of the exit path are not the model's")
            else replay top ext f s' (i + used + 1) (k + 1) r4
          | [] => .ok (s', k + 1)        -- killed before the last hook of the exit path
          | _ => .error (i, "the exit path does not end with `returned`")
  -- a trace that ends inside a compound step (the process was killed there): nothing more to compare
  | _ + 1, s, _, k, [.cx _ _] => .ok (s, k)
  | _ + 1, s, _, k, [.de 1 _ _] => .ok (s, k)
  | _ + 1, s, _, k, [.fr _] => .ok (s, k)
  | _ + 1, _, i, _, _ :: _ => .error (i, "primitive outside any compound step of the model")

def respond (kind : String) (evs : String) : String :=
  match (if evs = "-" then some [] else (evs.splitOn ";").mapM parsePrim) with
  | some ps =>
    match replay (kind == "top") (kind == "exttop") (ps.length + 1) {} 0 0 ps with
    | .ok (s, k) => s!"ok steps={k} my={s.my} cheats={s.cheats} running={s.running} exited={s.exited}"
    | .error (i, w) => s!"reject at={i} " ++ w.replace " " "_"
  | none => "bad-op"

end RedoModel.TokLoopWire
